(* C14 / C15 — proofs about the sync model and the boolean specifications of the sync, worker and
   end-to-end evaluators. *)
From Coq Require Import List ZArith Bool NArith Lia.
From AV Require Import model.C16_runq model.C14_sync model.C14_sync_run proofs.C16_runq.
Import ListNotations.
Local Open Scope Z_scope.

Lemma cstate_eqb_spec a b : cstate_eqb a b = true <-> a = b.
Proof. destruct a, b; cbn; split; intros; congruence. Qed.

(* ---------------- the actions of one entry ---------------- *)
Lemma sync_ent_uuid running unknown qupd e a : In a (sync_ent running unknown qupd e) -> act_uuid a = e_uuid e.
Proof.
  unfold sync_ent. intros H.
  repeat match goal with
  | H : In _ (match ?x with _ => _ end) |- _ => destruct x eqn:?
  | H : In _ (if ?x then _ else _) |- _ => destruct x eqn:?
  end; cbn in H; try contradiction; destruct H as [<-|[]]; reflexivity.
Qed.

(* what sync emits is what the unlatched part of the per-entry decisions and the orphan kills contain *)
Lemma in_sync ents running unknown qupd latch a :
  In a (sync ents running unknown qupd latch) <->
  latched_act latch a = false /\
  ((exists e, In e ents /\ In a (sync_ent running unknown qupd e)) \/
   (exists u, a = AKill u /\ In u (map fst running) /\ memN u (map e_uuid ents) = false)).
Proof.
  unfold sync. rewrite filter_In, in_app_iff, in_flat_map, in_map_iff, negb_true_iff.
  split.
  - intros [[(e & He & Ha)|(u & <- & Hu)] Hl]; split; auto.
    + left. eauto.
    + right. apply filter_In in Hu. destruct Hu as [Hu1 Hu2]. apply negb_true_iff in Hu2. eauto.
  - intros [Hl [(e & He & Ha)|(u & -> & Hu1 & Hu2)]]; split; auto.
    + left. eauto.
    + right. exists u. split; [reflexivity|]. apply filter_In. split; [exact Hu1|]. rewrite Hu2. reflexivity.
Qed.

Lemma rlook_in u m t : rlook u m = Some t -> In u (map fst m).
Proof.
  induction m as [|[k v] r IH]; cbn [rlook map fst]; [discriminate|].
  destruct (N.eqb k u) eqn:E; [apply N.eqb_eq in E; subst; intros _; left; reflexivity|intros H; right; apply IH; exact H].
Qed.
Lemma memN_false x l : memN x l = false <-> ~ In x l.
Proof. rewrite <- memN_In. destruct (memN x l); split; intros; congruence. Qed.

(* C14: a container that is cancelled, completed, queued again or on hold (priority 0) and still has a
   live crunch-run process gets that process killed (unless another operation on it is in flight, in
   which case the scheduler wakes up again after 250 ms) *)
Theorem finished_is_killed ents running unknown qupd latch e :
  In e ents -> rlook (e_uuid e) running = Some 0 ->
  (e_state e = Complete \/ e_state e = Cancelled \/ e_state e = Queued \/
   (e_prio e = 0 /\ (e_state e = Running \/ e_state e = Locked))) ->
  memN (e_uuid e) latch = false ->
  In (AKill (e_uuid e)) (sync ents running unknown qupd latch).
Proof.
  intros He Hr Hf Hl. apply in_sync. split; [exact Hl|]. left. exists e. split; [exact He|].
  unfold sync_ent. rewrite Hr. cbn [negb andb Z.eqb].
  destruct Hf as [->|[->|[->|[Hp [->| ->]]]]]; cbn; try (left; reflexivity); rewrite Hp; cbn; left; reflexivity.
Qed.

(* C15: Running with a dead or absent process is cancelled, Locked with a dead process is re-queued *)
Theorem dead_running_cancelled ents running unknown qupd latch e :
  In e ents -> e_state e = Running -> memN (e_uuid e) latch = false ->
  ((exists t, rlook (e_uuid e) running = Some t /\ t <> 0 /\ t < qupd) \/
   (rlook (e_uuid e) running = None /\ unknown = false)) ->
  In (ACancel (e_uuid e)) (sync ents running unknown qupd latch).
Proof.
  intros He Hs Hl Hd. apply in_sync. split; [exact Hl|]. left. exists e. split; [exact He|].
  unfold sync_ent. rewrite Hs. destruct Hd as [(t & -> & Ht0 & Htq)|[-> ->]]; cbn [negb].
  - apply Z.eqb_neq in Ht0. apply Z.ltb_lt in Htq. rewrite Ht0, Htq. cbn. left; reflexivity.
  - cbn. left; reflexivity.
Qed.
Theorem dead_locked_requeued ents running unknown qupd latch e :
  In e ents -> e_state e = Locked -> memN (e_uuid e) latch = false ->
  (exists t, rlook (e_uuid e) running = Some t /\ t <> 0 /\ t < qupd) ->
  In (ARequeue (e_uuid e)) (sync ents running unknown qupd latch).
Proof.
  intros He Hs Hl (t & Hr & Ht0 & Htq). apply in_sync. split; [exact Hl|]. left. exists e. split; [exact He|].
  unfold sync_ent. rewrite Hs, Hr. apply Z.eqb_neq in Ht0. apply Z.ltb_lt in Htq. rewrite Ht0, Htq. cbn. left; reflexivity.
Qed.
Theorem orphan_killed ents running unknown qupd latch u t :
  rlook u running = Some t -> ~ In u (map e_uuid ents) -> memN u latch = false ->
  In (AKill u) (sync ents running unknown qupd latch).
Proof.
  intros Hr Hn Hl. apply in_sync. split; [exact Hl|]. right. exists u. split; [reflexivity|].
  split; [eapply rlook_in; eauto|apply memN_false; exact Hn].
Qed.

(* latch: no action (other than the synchronous Forget) on a uuid that has an operation in flight *)
Theorem latch_exclusive ents running unknown qupd latch a :
  In a (sync ents running unknown qupd latch) -> memN (act_uuid a) latch = true ->
  exists u, a = AForget u.
Proof.
  intros H Hm. apply in_sync in H. destruct H as [Hl _]. unfold latched_act in Hl.
  destruct a; try (rewrite Hm in Hl; discriminate). eauto.
Qed.

(* never both kill and cancel/requeue ... one decision per queue entry *)
Theorem one_action_per_entry running unknown qupd e : (List.length (sync_ent running unknown qupd e) <= 1)%nat.
Proof.
  unfold sync_ent.
  repeat match goal with
  | |- context [match ?x with _ => _ end] => destruct x
  | |- context [if ?x then _ else _] => destruct x
  end; cbn; lia.
Qed.

(* ---------------- evaluator: boolean spec = Prop spec ---------------- *)
Lemma live_b_spec running u : live_b running u = true <-> live running u.
Proof.
  unfold live_b, live. destruct (rlook u running) as [t|]; [|split; discriminate].
  rewrite Z.eqb_eq. split; [intros ->; reflexivity|intros H; injection H; auto].
Qed.
Lemma finished_b_spec e : finished_b e = true <-> finished e.
Proof.
  unfold finished_b, finished. rewrite !orb_true_iff, andb_true_iff, orb_true_iff, !cstate_eqb_spec, Z.eqb_eq. tauto.
Qed.
Lemma dead_b_spec running qupd u : dead_b running qupd u = true <-> dead running qupd u.
Proof.
  unfold dead_b, dead. destruct (rlook u running) as [t|].
  - rewrite andb_true_iff, negb_true_iff, Z.eqb_neq, Z.ltb_lt. split.
    + intros [A B]. exists t. auto.
    + intros (t' & E & A & B). injection E as <-. auto.
  - split; [discriminate|intros (t & E & _); discriminate].
Qed.
Lemma absent_b_spec running u : absent_b running u = true <-> rlook u running = None.
Proof. unfold absent_b. destruct (rlook u running); split; congruence. Qed.
Lemma impl_b a b : negb a || b = true <-> (a = true -> b = true).
Proof. destruct a, b; cbn; intuition congruence. Qed.

Theorem sync_spec_reflects c : C14_sync_run.spec_b c = true <-> SyncSpec c.
Proof.
  unfold C14_sync_run.spec_b. rewrite !andb_true_iff, !forallb_forall. split.
  - intros [[A A'] B]. constructor.
    + intros e He Hl Hf Hn. specialize (A e He). apply orb_true_iff in A. destruct A as [A|A].
      { exfalso. apply Hn. apply memN_In. exact A. }
      rewrite !andb_true_iff in A. destruct A as [[A1 _] _]. rewrite impl_b in A1. apply memN_In. apply A1.
      apply andb_true_iff. split; [apply live_b_spec; exact Hl|apply finished_b_spec; exact Hf].
    + intros e He Hs Hn Hd. specialize (A e He). apply orb_true_iff in A. destruct A as [A|A].
      { exfalso. apply Hn. apply memN_In. exact A. }
      rewrite !andb_true_iff in A. destruct A as [[_ A2] _]. rewrite impl_b in A2. apply memN_In. apply A2.
      apply andb_true_iff. split; [apply cstate_eqb_spec; exact Hs|]. apply orb_true_iff.
      destruct Hd as [Hd|[Hd1 Hd2]]; [left; apply dead_b_spec; exact Hd|right].
      apply andb_true_iff. split; [apply absent_b_spec; exact Hd1|rewrite Hd2; reflexivity].
    + intros e He Hs Hn Hd Hnow Hreason. specialize (A e He). apply orb_true_iff in A. destruct A as [A|A].
      { exfalso. apply Hn. apply memN_In. exact A. }
      rewrite !andb_true_iff in A. destruct A as [_ A3]. rewrite impl_b in A3. apply memN_In. apply A3.
      rewrite !andb_true_iff. split; [split; [split; [apply cstate_eqb_spec; exact Hs|apply dead_b_spec; exact Hd]|exact Hnow]|exact Hreason].
    + intros u Hu. apply andb_true_iff. apply A'. exact Hu.
    + intros u t Hr Hn Hl. assert (Hin : In (u, t) (y_running c)).
      { clear -Hr. induction (y_running c) as [|[k v] r IH]; cbn [rlook] in Hr; [discriminate|].
        destruct (N.eqb k u) eqn:E; [apply N.eqb_eq in E; injection Hr as <-; subst; left; reflexivity|right; auto]. }
      specialize (B _ Hin). cbn [fst] in B. rewrite !orb_true_iff in B. destruct B as [[B|B]|B].
      * exfalso. apply Hn. apply memN_In. exact B.
      * exfalso. apply Hl. apply memN_In. exact B.
      * apply memN_In. exact B.
  - intros [S1 S2 S3 S3' S4]. split; [split|].
    + intros e He. destruct (memN (e_uuid e) (y_latch c)) eqn:El; [reflexivity|]. cbn [orb].
      assert (Hn : ~ In (e_uuid e) (y_latch c)) by (apply memN_false; exact El).
      rewrite !andb_true_iff. split; [split|]; apply impl_b; intros G; apply memN_In.
      * apply andb_true_iff in G. destruct G as [G1 G2]. apply S1; auto; [apply live_b_spec|apply finished_b_spec]; assumption.
      * apply andb_true_iff in G. destruct G as [G1 G2]. apply S2; auto; [apply cstate_eqb_spec; exact G1|].
        apply orb_true_iff in G2. destruct G2 as [G2|G2]; [left; apply dead_b_spec; exact G2|right].
        apply andb_true_iff in G2. destruct G2 as [G3 G4]. split; [apply absent_b_spec; exact G3|]. destruct (y_unknown c); [discriminate|reflexivity].
      * rewrite !andb_true_iff in G. destruct G as [[[G1 G2] G3] G4].
        apply S3; auto; [apply cstate_eqb_spec; exact G1|apply dead_b_spec; exact G2].
    + intros u Hu. apply andb_true_iff. apply S3'. exact Hu.
    + intros [u t] Hin. cbn [fst].
      destruct (memN u (map e_uuid (y_ents c))) eqn:E1; [reflexivity|].
      destruct (memN u (y_latch c)) eqn:E2; [reflexivity|]. cbn [orb].
      (* the first binding of u in the association list decides rlook; any binding suffices for S4 *)
      assert (exists t', rlook u (y_running c) = Some t') as [t' Ht'].
      { clear -Hin. induction (y_running c) as [|[k v] r IH]; [destruct Hin|]. cbn [rlook].
        destruct (N.eqb k u) eqn:E; [eauto|]. destruct Hin as [Hin|Hin]; [injection Hin as -> _; rewrite N.eqb_refl in E; discriminate|auto]. }
      apply memN_In. apply (S4 u t' Ht'); apply memN_false; assumption.
Qed.

(* the model's own actions, read as an observation, satisfy the specification: for all snapshots *)
Definition pickN (f : act -> option N) (l : list act) : list N :=
  flat_map (fun a => match f a with Some u => [u] | None => [] end) l.
Definition model_obs (ents : list ent) (running : rmap) (unknown : bool) (qupd : Z) (latch : list N)
           (now : list (N * (cstate * Z))) (run_now : rmap) : case :=
  let acts := sync ents running unknown qupd latch in
  mksy ents running unknown qupd latch now run_now
       (pickN (fun a => match a with ACancel u => Some u | _ => None end) acts)
       (pickN (fun a => match a with AKill u => Some u | _ => None end) acts)
       (pickN (fun a => match a with AKill u => Some u | _ => None end) acts)
       (sync_unlocks acts now run_now)
       (pickN (fun a => match a with AForget u => Some u | _ => None end) acts).

Lemma in_pickN f l u a : In a l -> f a = Some u -> In u (pickN f l).
Proof.
  intros Ha Hf. unfold pickN. apply in_flat_map. exists a. split; [exact Ha|]. rewrite Hf. left; reflexivity.
Qed.

Theorem sync_meets_spec ents running unknown qupd latch now run_now : SyncSpec (model_obs ents running unknown qupd latch now run_now).
Proof.
  unfold model_obs. constructor; cbn [y_ents y_running y_unknown y_qupd y_latch y_now y_run_now o_cancel o_kill o_unlock].
  - intros e He Hl Hf Hn. apply (in_pickN _ _ _ (AKill (e_uuid e))); [|reflexivity].
    apply finished_is_killed; auto. apply memN_false. exact Hn.
  - intros e He Hs Hn Hd. apply (in_pickN _ _ _ (ACancel (e_uuid e))); [|reflexivity].
    apply dead_running_cancelled; auto. apply memN_false. exact Hn.
  - intros e He Hs Hn Hd Hnow Hreason. unfold sync_unlocks. apply filter_In. split; [|rewrite Hnow, Hreason; reflexivity].
    unfold requeues. apply in_flat_map. exists (ARequeue (e_uuid e)). split; [|left; reflexivity].
    apply dead_locked_requeued; auto. apply memN_false. exact Hn.
  - intros u Hu. unfold sync_unlocks in Hu. apply filter_In in Hu. destruct Hu as [_ Hu]. apply andb_true_iff in Hu. exact Hu.
  - intros u t Hr Hn Hl. apply (in_pickN _ _ _ (AKill u)); [|reflexivity].
    eapply orphan_killed; eauto. apply memN_false. exact Hl.
Qed.

(* F21 fixed: a requeue goroutine unlocks only a container that the queue shows Locked when it runs AND whose
   reason still holds at that moment: pool.Running() reports an exited crunch-run, or reports nothing and the
   priority is 0 *)
Theorem requeue_rechecks acts now run_now u :
  In u (sync_unlocks acts now run_now) ->
  (exists p, nlook u now = Some (Locked, p)) /\
  ((exists t, rlook u run_now = Some t /\ t <> 0) \/ (rlook u run_now = None /\ exists st p, nlook u now = Some (st, p) /\ p <= 0)).
Proof.
  unfold sync_unlocks. intros H. apply filter_In in H. destruct H as [_ H]. apply andb_true_iff in H. destruct H as [H1 H2].
  unfold still_locked in H1. unfold reason_holds in H2. split.
  - destruct (nlook u now) as [[[] p]|]; try discriminate. eauto.
  - destruct (rlook u run_now) as [t|].
    + left. exists t. split; [reflexivity|]. apply negb_true_iff in H2. apply Z.eqb_neq. exact H2.
    + right. split; [reflexivity|]. destruct (nlook u now) as [[st p]|]; [|discriminate]. exists st, p. split; [reflexivity|apply Z.leb_le; exact H2].
Qed.
(* in particular a container that was re-locked after its old process had been forgotten is left alone *)
Example requeue_relocked_left_alone : sync_unlocks [ARequeue 7] [(7%N, (Locked, 5))] [] = [].
Proof. reflexivity. Qed.
(* regression witness about the OLD model (before dbd540e / c30ecc5 the decision was executed as is) *)
Example requeue_old_model_unlocked_relocked : sync_unlocks_old [ARequeue 7] = [7%N].
Proof. reflexivity. Qed.
