(* loadManifest: whatever text it accepts, the filesystem it builds is a good state whose stored
   segments all denote slices of blocks of the given table (so every theorem stated from a good
   state - C08_step_refines, C13_event_refines, C09's invariants - applies to loaded collections). *)
From Coq Require Import List Arith Lia Bool Ascii String.
Import ListNotations.
From AV Require Import lib.Str lib.Path model.CFS_file model.CFS_tree model.CFS_inst model.C08_run model.CFS_bg model.CFS_run
  proofs.CFS_file_proofs proofs.CFS_refine proofs.CFS_prov proofs.CFS_tree_proofs proofs.CFS_bg_proofs proofs.CFS_hist_proofs.
Notation length := List.length.
Local Open Scope string_scope.
Local Open Scope list_scope.
Local Open Scope nat_scope.

Section Load.
Variable mb : nat.
Hypothesis Hmb : 1 <= mb.
Notation C := (Conc mb).
Variable blks : list (list byte).

(* a loaded block descriptor is backed by the table *)
Definition lseg_ok (b : lseg) : Prop :=
  ls_size b = 0 \/ (nth_error blks (ls_loc b) = Some (ls_data b) /\ length (ls_data b) = ls_size b).

Definition NoMem (l : list seg) : Prop := forall b t, ~ In (Mem b t) l.
Definition FileOK (f : fnode) : Prop := WF f /\ StoLocal blks (segs f) /\ NoMem (segs f).
Definition files_ok (s : fs C) : Prop := forall id f, i_node C (get_ino C s id) = IFile f -> FileOK f.
Definition LInv (s : fs C) : Prop := handles C s = [] /\ Bnd mb s /\ files_ok s.

Lemma FileOK_new : FileOK f_new.
Proof. split; [split; [reflexivity|constructor]|]. split; [intros ? ? ? ? []|intros ? ? []]. Qed.

Lemma files_ok_set_ino_same s id x : files_ok s ->
  (forall f, i_node C x = IFile f -> i_node C (get_ino C s id) = IFile f) -> files_ok (set_ino C s id x).
Proof.
  intros H Hx j f. rewrite (get_set_ino mb Hmb). destruct (Nat.eqb_spec j id) as [->|]; cbn [andb]; [|apply H].
  destruct (id <? length (inodes C s)); [|apply H]. intros E. apply (H id). apply Hx. exact E.
Qed.
Lemma files_ok_set_ents s d e : files_ok s -> files_ok (set_ents C s d e).
Proof. intros H. apply files_ok_set_ino_same; [exact H|]. cbn. discriminate. Qed.
Lemma files_ok_set_file s id f : files_ok s -> FileOK f -> files_ok (set_file C s id f).
Proof.
  intros H Hf j g. unfold set_file. rewrite (get_set_ino mb Hmb). destruct (Nat.eqb_spec j id) as [->|]; cbn [andb]; [|apply H].
  destruct (id <? length (inodes C s)); [|apply H]. cbn. intros E. inversion E; subst. exact Hf.
Qed.
Lemma files_ok_add_ino s x : files_ok s -> (forall f, i_node C x = IFile f -> FileOK f) -> files_ok (fst (add_ino C s x)).
Proof.
  intros H Hx j f. unfold add_ino, get_ino. cbn [fst inodes].
  destruct (Nat.lt_ge_cases j (length (inodes C s))) as [Hlt|Hge].
  - rewrite app_nth1 by exact Hlt. apply H.
  - rewrite app_nth2 by exact Hge. destruct (j - length (inodes C s)) as [|k]; cbn [nth]; [apply Hx|destruct k; discriminate].
Qed.
Lemma handles_set_ents s d e : handles C (set_ents C s d e) = handles C s.
Proof. unfold set_ents. apply handles_set_ino. Qed.
Lemma handles_set_file s d f : handles C (set_file C s d f) = handles C s.
Proof. unfold set_file. apply handles_set_ino. Qed.
Lemma length_set_ents s d e : length (inodes C (set_ents C s d e)) = length (inodes C s).
Proof. unfold set_ents. apply (length_set_ino mb Hmb). Qed.

Lemma LInv_Good s : LInv s -> Good mb s.
Proof.
  intros (Hh & HB & Hf). split; [|exact HB]. split.
  - intros id f E. apply (Hf id f E).
  - intros h x f Hn. rewrite Hh in Hn. destruct h; discriminate.
Qed.

(* adding a directory or an empty file under a directory that is inside the table *)
Lemma LInv_add_child s node name x :
  LInv s -> node < length (inodes C s) -> i_parent C x = node ->
  (i_node C x = IDir [] \/ i_node C x = IFile (I := C) f_new) ->
  let '(s1, id) := add_ino C s x in
  LInv (set_ents C s1 node (ents_put (dir_ents C s1 node) name id)) /\ id < length (inodes C s1) /\ length (inodes C s) < length (inodes C s1) /\ id = length (inodes C s).
Proof.
  intros (Hh & HB & Hf) Hn Hp Hx.
  assert (HB1 : Bnd mb (fst (add_ino C s x))).
  { apply (Bnd_add_ino mb Hmb); [exact HB|rewrite Hp; exact Hn|]. destruct Hx as [-> | ->]; cbn; intros ? ? []. }
  assert (Hf1 : files_ok (fst (add_ino C s x))).
  { apply files_ok_add_ino; [exact Hf|]. intros f E. destruct Hx as [Hx|Hx]; rewrite Hx in E; [discriminate|]. inversion E; subst. apply FileOK_new. }
  destruct (add_ino C s x) as [s1 id] eqn:E1. cbn [fst] in *.
  assert (Hid : id = length (inodes C s)) by (unfold add_ino in E1; inversion E1; reflexivity).
  assert (Hlen : length (inodes C s1) = S (length (inodes C s))).
  { unfold add_ino in E1. inversion E1. cbn [inodes]. rewrite app_length. cbn. lia. }
  split; [|lia]. split; [|split].
  - rewrite handles_set_ents. unfold add_ino in E1. inversion E1. cbn. exact Hh.
  - apply (Bnd_set_ents mb Hmb); [exact HB1|]. intros m c Hin. apply ents_put_in in Hin. destruct Hin as [E|Hin].
    + inversion E; subst. lia.
    + destruct HB1 as (_ & _ & B2 & _). apply (B2 node m c Hin).
  - apply files_ok_set_ents. exact Hf1.
Qed.

Lemma mkdirs_ok : forall names s node s' n',
  LInv s -> node < length (inodes C s) -> mkdirs mb s node names = Ok (s', n') ->
  LInv s' /\ n' < length (inodes C s').
Proof.
  induction names as [|name r IH]; intros s node s' n' HL Hn; cbn [mkdirs].
  - intros E; inversion E; subst. auto.
  - destruct (String.eqb name "" || String.eqb name "."); [apply IH; assumption|].
    destruct (String.eqb name "..").
    + destruct (Nat.eqb node root_id); [discriminate|]. apply IH; [exact HL|]. apply parent_bound. apply HL.
    + destruct (i_node C (get_ino C s node)) as [f|ents] eqn:En; [discriminate|].
      destruct (ents_find ents name) as [c|] eqn:Ef.
      * destruct (is_dir C s c); [|discriminate]. apply IH; [exact HL|].
        destruct HL as (_ & (_ & _ & B2 & _) & _). apply (B2 node name c). unfold dir_ents. rewrite En. apply ents_find_in. exact Ef.
      * pose proof (LInv_add_child s node name {| i_node := IDir []; i_parent := node |} HL Hn eq_refl (or_introl eq_refl)) as H.
        destruct (add_ino C s {| i_node := IDir []; i_parent := node |}) as [s1 id]. destruct H as (H1 & H2 & H3 & H4).
        apply IH; [exact H1|]. rewrite length_set_ents. exact H2.
Qed.

Lemma create_file_ok s path s' r :
  LInv s -> create_file_and_parents mb s path = Ok (s', r) ->
  LInv s' /\ (forall fid, r = Some fid -> exists f, i_node C (get_ino C s' fid) = IFile f).
Proof.
  intros HL. unfold create_file_and_parents.
  assert (H0 : root_id < length (inodes C s)) by (destruct HL as (_ & (B0 & _) & _); exact B0).
  destruct (mkdirs mb s root_id (removelast (split_slash path))) as [[s1 node]|e] eqn:Em; [|discriminate].
  destruct (mkdirs_ok _ _ _ _ _ HL H0 Em) as [HL1 Hn1].
  destruct (String.eqb (last (split_slash path) "") "."); [intros E; inversion E; subst; split; [exact HL1|discriminate]|].
  destruct (special_name (last (split_slash path) "")); [discriminate|].
  destruct (i_node C (get_ino C s1 node)) as [f|ents] eqn:En; [discriminate|].
  destruct (ents_find ents (last (split_slash path) "")) as [c|] eqn:Ef.
  - destruct (is_dir C s1 c) eqn:Ed; [discriminate|]. intros E; inversion E; subst. split; [exact HL1|].
    intros fid Efid. inversion Efid; subst. unfold is_dir in Ed. destruct (i_node C (get_ino C s' fid)) as [f|e]; [eauto|discriminate].
  - pose proof (LInv_add_child s1 node (last (split_slash path) "") {| i_node := IFile (I := C) f_new; i_parent := node |} HL1 Hn1 eq_refl (or_intror eq_refl)) as H.
    destruct (add_ino C s1 {| i_node := IFile (I := C) f_new; i_parent := node |}) as [s2 id] eqn:E2. destruct H as (H1 & H2 & H3 & H4).
    intros E; inversion E; subst s' r. split; [exact H1|]. intros fid Efid. inversion Efid; subst fid.
    exists f_new. unfold set_ents. rewrite (get_set_ino mb Hmb).
    assert (Hne : id <> node) by lia.
    destruct (Nat.eqb_spec id node) as [->|_]; [contradiction|]. cbn [andb].
    unfold add_ino in E2. inversion E2. unfold get_ino. cbn [inodes]. rewrite app_nth2 by lia. subst id. rewrite Nat.sub_diag. reflexivity.
Qed.

(* the range mapper only emits non-empty stored segments backed by the table *)
Definition seg_ok (x : seg) : Prop :=
  match x with
  | Mem _ _ => False
  | Sto b loc bsz boff => 0 < length b /\ exists blk, nth_error blks loc = Some blk /\ length blk = bsz /\ is_slice b boff blk
  end.

Lemma map_range_ok : forall fuel bl segIdx pos offset len acc si' p' sgs,
  Forall lseg_ok bl -> Forall seg_ok acc ->
  map_range fuel bl segIdx pos offset len acc = Some (si', p', sgs) -> Forall seg_ok sgs.
Proof.
  induction fuel as [|fuel IH]; intros bl segIdx pos offset len acc si' p' sgs Hb Ha; cbn [map_range].
  - intros E; inversion E; subst; exact Ha.
  - destruct (nth_error bl segIdx) as [b|] eqn:En.
    + destruct ((pos + ls_size b <=? offset) || Nat.eqb (ls_size b) 0) eqn:Eskip; [apply IH; assumption|].
      destruct (Nat.eqb len 0 || (offset + len <=? pos)) eqn:Estop; [intros E; inversion E; subst; exact Ha|].
      apply orb_false_iff in Eskip. destruct Eskip as [E1 E2]. apply Nat.leb_gt in E1. apply Nat.eqb_neq in E2.
      apply orb_false_iff in Estop. destruct Estop as [E3 E4]. apply Nat.eqb_neq in E3. apply Nat.leb_gt in E4.
      set (blkOff := if pos <? offset then offset - pos else 0).
      set (blkLen0 := ls_size b - blkOff).
      set (blkLen := if offset + len <? pos + blkOff + blkLen0 then offset + len - pos - blkOff else blkLen0).
      assert (Hbo : blkOff < ls_size b) by (unfold blkOff; destruct (Nat.ltb_spec pos offset); lia).
      assert (Hbl : 0 < blkLen /\ blkOff + blkLen <= ls_size b).
      { unfold blkLen, blkLen0. destruct (Nat.ltb_spec (offset + len) (pos + blkOff + (ls_size b - blkOff))); unfold blkOff in *; destruct (Nat.ltb_spec pos offset); lia. }
      assert (Hsg : seg_ok (Sto (firstn blkLen (skipn blkOff (ls_data b))) (ls_loc b) (ls_size b) blkOff)).
      { assert (Hok : lseg_ok b) by (rewrite Forall_forall in Hb; apply Hb; eapply nth_error_In; exact En).
        destruct Hok as [Hz|[Hn Hl]]; [lia|]. cbn. split.
        - rewrite firstn_length, skipn_length. lia.
        - exists (ls_data b). split; [exact Hn|]. split; [exact Hl|apply is_slice_firstn]. }
      assert (Ha' : Forall seg_ok (acc ++ [Sto (firstn blkLen (skipn blkOff (ls_data b))) (ls_loc b) (ls_size b) blkOff])).
      { apply Forall_app. split; [exact Ha|constructor; [exact Hsg|constructor]]. }
      destruct (offset + len <? pos + ls_size b); [intros E; inversion E; subst; exact Ha'|]. apply IH; assumption.
    + destruct (pos <? offset + len); [discriminate|]. intros E; inversion E; subst; exact Ha.
Qed.

Lemma append_segs_ok : forall sgs f, FileOK f -> Forall seg_ok sgs -> FileOK (fold_left append_seg sgs f).
Proof.
  induction sgs as [|x sgs IH]; intros f Hf Hs; cbn [fold_left]; [exact Hf|].
  inversion Hs as [|? ? Hx Hs']; subst. apply IH; [|exact Hs'].
  destruct Hf as ([Hsz Hpos] & HS & HN). destruct x as [b t|b loc bsz boff]; [destruct Hx|].
  destruct Hx as [Hlen (blk & A & B & D)].
  unfold append_seg. split; [split|split]; cbn [segs size].
  - unfold content in *. cbn [segs]. rewrite flat_map_app', app_length, Hsz. cbn. rewrite app_nil_r. reflexivity.
  - apply Forall_app. split; [exact Hpos|constructor; [cbn; exact Hlen|constructor]].
  - intros b' l' z o Hin. apply in_app_or in Hin. destruct Hin as [Hin|[E|[]]]; [apply HS; exact Hin|].
    inversion E; subst. exists blk. auto.
  - intros b' t Hin. apply in_app_or in Hin. destruct Hin as [Hin|[E|[]]]; [apply (HN b' t); exact Hin|discriminate].
Qed.

Section Tab.
Variable tab : list (list byte * string).
Hypothesis Hblks : blks = map fst tab.
(* the table's locators state the true sizes (it is what the fake Keep handed out) *)
Hypothesis Htab : forall d l n rest h, In (d, l) tab -> splitn3 "+"%char l = h :: n :: rest ->
  forall k, parse_dec n = Some k -> k = length d.

Lemma find_block_spec : forall t i loc j d, find_block t i loc = Some (j, d) ->
  exists k, j = i + k /\ nth_error (map fst t) k = Some d /\ In (d, loc) t.
Proof.
  induction t as [|[d0 l0] t IH]; intros i loc j d; cbn [find_block]; [discriminate|].
  destruct (String.eqb_spec l0 loc) as [->|].
  - intros E; inversion E; subst. exists 0. split; [lia|]. split; [reflexivity|left; reflexivity].
  - intros E. destruct (IH _ _ _ _ E) as (k & A & B & D). exists (S k). split; [lia|]. split; [exact B|right; exact D].
Qed.

Lemma classify_ok token b : classify tab token = TBlock b -> lseg_ok b.
Proof.
  unfold classify. destruct (negb (str_contains ":"%char token)).
  - destruct (splitn3 "+"%char token) as [|h [|sz rest]] eqn:Es; try discriminate.
    destruct (parse_dec sz) as [n|] eqn:Ep; [|discriminate].
    destruct (find_block tab 0 token) as [[i d]|] eqn:Ef.
    + intros E. assert (E' : TBlock {| ls_loc := i; ls_size := n; ls_data := d |} = TBlock b) by (destruct n; exact E).
      injection E' as <-. right. cbn.
      destruct (find_block_spec _ _ _ _ _ Ef) as (k & A & B & D). cbn in A. subst i.
      rewrite Hblks. split; [exact B|]. symmetry. eapply Htab; eassumption.
    + destruct n; [|discriminate]. intros E. injection E as <-. left. reflexivity.
  - destruct (splitn3_exact ":"%char token) as [|a [|b0 [|nm [|? ?]]]]; try discriminate.
    destruct (parse_dec a); [|discriminate]. destruct (parse_dec b0); discriminate.
Qed.

Lemma load_tokens_ok : forall toks dirname s bl anyfile segIdx pos s' af nb,
  LInv s -> Forall lseg_ok bl ->
  load_tokens mb tab dirname toks s bl anyfile segIdx pos = Ok (s', af, nb) -> LInv s'.
Proof.
  induction toks as [|t toks IH]; intros dirname s bl anyfile segIdx pos s' af nb HL Hb; cbn [load_tokens].
  - intros E; inversion E; subst; exact HL.
  - destruct (classify tab t) as [b|offset len nm|] eqn:Ec; [| |discriminate].
    + destruct anyfile; [discriminate|]. apply IH; [exact HL|]. apply Forall_app. split; [exact Hb|].
      constructor; [eapply classify_ok; exact Ec|constructor].
    + destruct bl as [|b0 bl0] eqn:Ebl; [discriminate|]. rewrite <- Ebl in *.
      destruct (create_file_and_parents mb s (dirname ++ "/" ++ manifest_unescape nm)%string) as [[s1 [fid|]]|e] eqn:Ecf; [| |discriminate].
      * destruct (create_file_ok _ _ _ _ HL Ecf) as [HL1 Hfile]. destruct (Hfile fid eq_refl) as (fn & En).
        destruct (if offset <? pos then (0, 0) else (segIdx, pos)) as [si p0].
        destruct (map_range (S (length bl)) bl si p0 offset len []) as [[[si' p'] sgs]|] eqn:Em; [|discriminate].
        rewrite En. apply IH; [|exact Hb].
        destruct HL1 as (Hh & HB & Hf). split; [rewrite handles_set_file; exact Hh|]. split; [apply (Bnd_set_file mb Hmb); exact HB|].
        apply files_ok_set_file; [exact Hf|]. apply append_segs_ok; [apply (Hf fid fn En)|].
        eapply map_range_ok; [exact Hb|constructor|exact Em].
      * destruct (Nat.eqb len 0); [|discriminate]. destruct (create_file_ok _ _ _ _ HL Ecf) as [HL1 _]. apply IH; assumption.
Qed.

Lemma load_streams_ok : forall streams s s', LInv s -> load_streams mb tab streams s = Ok s' -> LInv s'.
Proof.
  induction streams as [|st r IH]; intros s s' HL; cbn [load_streams]; [intros E; inversion E; subst; exact HL|].
  destruct (split_char " "%char st) as [|d toks]; [discriminate|].
  destruct (load_tokens mb tab (manifest_unescape d) toks s [] false 0 0) as [[[s1 af] nb]|e] eqn:El; [|discriminate].
  destruct (negb af || Nat.eqb nb 0 || String.eqb (manifest_unescape d) ""); [discriminate|].
  apply IH. eapply load_tokens_ok; [exact HL|constructor|exact El].
Qed.

Lemma LInv_init : LInv (fs_init C).
Proof.
  split; [reflexivity|]. split; [apply (Good_init mb Hmb)|].
  intros id f. unfold fs_init, get_ino. cbn. destruct id as [|[|id]]; discriminate.
Qed.

(* every manifest the loader accepts yields a good filesystem and a good background-write state *)
Theorem b_load_good txt s : b_load mb tab txt = Ok s -> Good mb s /\ BInv mb (binit mb tab s).
Proof.
  unfold b_load. destruct (negb _); [discriminate|]. intros E.
  pose proof (load_streams_ok _ _ _ LInv_init E) as HL. pose proof (LInv_Good s HL) as HG.
  split; [exact HG|]. split; [exact HG|]. destruct HL as (_ & _ & Hf). split; [|split].
  - intros id b t Hin. unfold binit in Hin. cbn [fsys] in Hin. unfold file_segs in Hin.
    destruct (i_node C (get_ino C s id)) as [f|e] eqn:En; [|destruct Hin].
    destruct (Hf id f En) as (_ & _ & HN). exfalso. exact (HN b (Some t) Hin).
  - intros q r [].
  - intros id b loc bsz boff Hin. unfold binit in *. cbn [fsys blocks] in *. unfold file_segs in Hin.
    destruct (i_node C (get_ino C s id)) as [f|e] eqn:En; [|destruct Hin].
    destruct (Hf id f En) as (_ & HS & _). rewrite <- Hblks. exact (HS b loc bsz boff Hin).
Qed.

End Tab.
End Load.
