(* C06 (a) — progress: the paging loop of EachCollection terminates (the out-of-fuel result of the model
   is unreachable once the fuel is adequate), for every table with unique uuids and any multiplicity of
   equal timestamps, every page size >= 1, every fault injection and every schedule of events.

   Measure: 3 * (rows strictly above the cursor) + (2 in the `>=` mode and before the first page,
   1 in exact mode, 0 in the `>` mode); every request on an unchanged table decreases it, and the BUG
   branch is unreachable (advance_progress).  While the schedule lasts each batch costs one request.
     each_collection_terminates   fuel >= |schedule| + 3*(|table| + #Add/Insert events) + 3: never RFuel
     each_collection_fuel_mono    a result other than RFuel does not depend on the fuel
     each_collection_quiet        quiet table, fuel >= 3*|table| + 3: nil, every row visited
     each_collection_quiet_pages  quiet table, fuel >= 4*|table|/(limit+1) + 4: the same (a potential
                                  that pays limit+1 per request; advance_psi)
     no_schedule_independent_fuel no fuel that ignores the schedule suffices (two rows touched again
                                  before every request keep the scan - and the Go loop - running)
     small_scope_formula_not_general  the 2*|table|/limit + 4 of C06_small is not a bound in general
                                  (9 rows, limit 5 need 8 requests; 40 rows in 10 groups of 4, limit 3, need 31) *)
From Coq Require Import List Arith Lia Bool Sorted.
From AV Require Import model.C06_model proofs.C06_paging proofs.C06_small.
Import ListNotations.

(* ---------- counting rows ---------- *)
Lemma filter_length_le {A} (p q : A -> bool) (l : list A) :
  (forall x, In x l -> p x = true -> q x = true) ->
  length (filter p l) <= length (filter q l).
Proof.
  induction l as [|a l IH]; intros H; simpl; [lia|].
  assert (IH' : length (filter p l) <= length (filter q l)).
  { apply IH. intros x Hx. apply H. right; exact Hx. }
  destruct (p a) eqn:Ep.
  - rewrite (H a (or_introl eq_refl) Ep). simpl. lia.
  - destruct (q a); simpl; lia.
Qed.

Lemma filter_length_lt {A} (p q : A -> bool) (l : list A) (c : A) :
  (forall x, In x l -> p x = true -> q x = true) ->
  In c l -> p c = false -> q c = true ->
  length (filter p l) < length (filter q l).
Proof.
  induction l as [|a l IH]; intros H Hc Ep Eq; simpl; [contradiction|].
  assert (Hle : length (filter p l) <= length (filter q l)).
  { apply filter_length_le. intros x Hx. apply H. right; exact Hx. }
  destruct Hc as [->|Hc].
  - rewrite Ep, Eq. simpl. lia.
  - assert (IH' : length (filter p l) < length (filter q l)).
    { apply IH; auto. intros x Hx. apply H. right; exact Hx. }
    destruct (p a) eqn:Epa.
    + rewrite (H a (or_introl eq_refl) Epa). simpl. lia.
    + destruct (q a); simpl; lia.
Qed.

Lemma filter_length_all {A} (p : A -> bool) (l : list A) : length (filter p l) <= length l.
Proof. induction l as [|a l IH]; simpl; [lia|]. destruct (p a); simpl; lia. Qed.

(* ---------- the measure ---------- *)
Definition above_b (l : option row) (r : row) : bool :=
  match l with None => true | Some l => key_ltb l r end.
Lemma above_b_spec l r : above_b l r = true <-> above l r.
Proof. destruct l as [l|]; simpl; [apply key_ltb_spec|tauto]. Qed.
Lemma above_b_false l r : above_b l r = false <-> ~ above l r.
Proof.
  rewrite <- above_b_spec. destruct (above_b l r); split; intro H; try reflexivity; try discriminate.
  exfalso; apply H; reflexivity.
Qed.

(* rows strictly above the cursor *)
Definition remaining (l : option row) (db : list row) : nat := length (filter (above_b l) db).
Definition mode_w (f : flt) : nat :=
  match f with FNone => 2 | FGe _ _ => 2 | FEq _ _ => 1 | FGt _ => 0 end.
Definition pot (s : st) (db : list row) : nat := 3 * remaining (last s) db + mode_w (cur s).

Lemma remaining_le_length l db : remaining l db <= length db.
Proof. apply filter_length_all. Qed.
Lemma pot_bound s db : pot s db <= 3 * length db + 2.
Proof.
  unfold pot. pose proof (remaining_le_length (last s) db).
  assert (mode_w (cur s) <= 2) by (destruct (cur s); simpl; lia). lia.
Qed.

Lemma above_trans l c c' : above l c -> key_lt c c' -> above l c'.
Proof. destruct l as [l|]; simpl; [intros; eapply key_lt_trans; eauto|auto]. Qed.

Lemma remaining_advance l c db :
  In c db -> above l c -> remaining (Some c) db < remaining l db.
Proof.
  intros Hc Hab. unfold remaining. apply filter_length_lt with (c := c); auto.
  - intros x _ Hx. apply above_b_spec. apply above_b_spec in Hx. simpl in Hx.
    eapply above_trans; eauto.
  - apply above_b_false. simpl. apply key_lt_irrefl.
  - apply above_b_spec; exact Hab.
Qed.

(* ---------- the item loop ---------- *)
Lemma process_nil s : process s [] = s.
Proof. reflexivity. Qed.
Lemma process_cons s c pg : process s (c :: pg) = process (visit s c) pg.
Proof. reflexivity. Qed.

Lemma visit_fields s c :
  cur (visit s c) = cur s /\ exact (visit s c) = exact s /\ ftime (visit s c) = ftime s.
Proof. unfold visit. destruct (skip (last s) c); simpl; auto. Qed.
Lemma process_fields pg : forall s,
  cur (process s pg) = cur s /\ exact (process s pg) = exact s /\ ftime (process s pg) = ftime s.
Proof.
  induction pg as [|c pg IH]; intros s; [rewrite process_nil; auto|].
  rewrite process_cons. destruct (IH (visit s c)) as (A & B & C).
  destruct (visit_fields s c) as (A' & B' & C'). rewrite A, B, C. auto.
Qed.

Lemma key_lt_asym a b : key_lt a b -> ~ key_lt b a.
Proof. unfold key_lt; lia. Qed.

(* either every item of the page is skipped, or the cursor moves to an item above the old cursor,
   and that item is the greatest of the page *)
Lemma process_last pg : forall s,
  StronglySorted key_lt pg ->
  (forall c, In c pg -> skip (last s) c = true \/ above (last s) c) ->
  (last (process s pg) = last s /\ forall c, In c pg -> skip (last s) c = true) \/
  (exists c, In c pg /\ last (process s pg) = Some c /\ above (last s) c /\
             forall c', In c' pg -> ~ key_lt c c').
Proof.
  induction pg as [|c pg IH]; intros s Hs Hrows.
  - left. rewrite process_nil. split; [reflexivity|intros c []].
  - rewrite process_cons. inversion Hs as [|? ? Hs' Hall]; subst. rewrite Forall_forall in Hall.
    destruct (skip (last s) c) eqn:Hsk.
    + assert (Ev : visit s c = s) by (unfold visit; rewrite Hsk; reflexivity). rewrite Ev.
      destruct (IH s Hs') as [[A B]|(c' & Hc' & A & B & M)].
      * intros c' Hc'. apply Hrows. right; exact Hc'.
      * left. split; [exact A|]. intros c' [<-|Hc']; auto.
      * right. exists c'. split; [right; exact Hc'|]. split; [exact A|]. split; [exact B|].
        intros c'' [<-|Hc'']; [apply key_lt_asym; apply Hall; exact Hc'|apply M; exact Hc''].
    + assert (Hab : above (last s) c).
      { destruct (Hrows c (or_introl eq_refl)) as [X|X]; [congruence|exact X]. }
      assert (Ev : last (visit s c) = Some c) by (unfold visit; rewrite Hsk; reflexivity).
      right. destruct (IH (visit s c) Hs') as [[A B]|(c' & Hc' & A & B & M)].
      * intros c' Hc'. right. rewrite Ev. simpl. apply Hall; exact Hc'.
      * exists c. split; [left; reflexivity|]. split; [rewrite A; exact Ev|]. split; [exact Hab|].
        intros c'' [<-|Hc'']; [apply key_lt_irrefl|].
        specialize (B c'' Hc''). rewrite Ev in B. apply skip_not_above in B. exact B.
      * exists c'. split; [right; exact Hc'|]. split; [exact A|].
        rewrite Ev in B. simpl in B. split; [eapply above_trans; eauto|].
        intros c'' [<-|Hc'']; [apply key_lt_asym; exact B|apply M; exact Hc''].
Qed.

(* what the filter of each mode says about a row, relative to the cursor *)
Lemma page_rows s db alive c :
  mode_inv s db alive -> matches (cur s) c = true ->
  (skip (last s) c = true \/ above (last s) c) /\
  (match cur s with FGe _ _ => True | _ => skip (last s) c = false end).
Proof.
  unfold mode_inv. destruct (cur s) as [|t u|t u|t]; simpl; intros Hm Hc.
  - destruct Hm as [-> _]. simpl. auto.
  - destruct Hm as (_ & _ & l & -> & Hl2 & Hl3). simpl.
    apply andb_true_iff in Hc. destruct Hc as [H1 H2].
    apply Nat.leb_le in H1. apply negb_true_iff in H2. apply Nat.eqb_neq in H2.
    split; [|exact I].
    destruct (Nat.eq_dec (mtime c) t) as [E|NE].
    + destruct (Nat.lt_ge_cases (uuid c) u) as [L|G].
      * left. apply andb_true_iff. split; [apply Nat.eqb_eq; lia|apply Nat.leb_le; lia].
      * right. unfold key_lt. lia.
    + right. unfold key_lt. lia.
  - destruct Hm as (_ & _ & l & -> & Hl2 & Hl3). simpl.
    apply andb_true_iff in Hc. destruct Hc as [H1 H2].
    apply Nat.eqb_eq in H1. apply Nat.ltb_lt in H2.
    split; [right; unfold key_lt; lia|].
    apply andb_false_iff. right. apply Nat.leb_gt. lia.
  - destruct Hm as (_ & _ & (l & -> & Hl2) & _). simpl.
    apply Nat.ltb_lt in Hc.
    split; [right; unfold key_lt; lia|].
    apply andb_false_iff. left. apply Nat.eqb_neq. lia.
Qed.

(* ---------- one request decreases the measure; the BUG branch is unreachable ---------- *)
Lemma advance_progress s db clock alive n :
  1 <= n -> Inv s db clock alive ->
  match advance s (page db (cur s) n) with
  | Continue s' => pot s' db < pot s db
  | Done _ => True
  | Bug _ => False
  end.
Proof.
  intros Hn (Hnd & Hmt & Hlm & Hft & Hl & Hcov & Hm).
  set (pg := page db (cur s) n).
  assert (Hsorted : StronglySorted key_lt pg) by (apply page_sorted_ok; exact Hnd).
  assert (Hin : forall c, In c pg -> In c db /\ matches (cur s) c = true) by (intros c Hc; eapply page_in_ok; exact Hc).
  assert (Hrows : forall c, In c pg -> skip (last s) c = true \/ above (last s) c).
  { intros c Hc. destruct (Hin c Hc) as [_ Hmc]. apply (page_rows s db alive c Hm Hmc). }
  destruct (process_fields pg s) as (Fc & Fe & Ff).
  unfold advance. set (s1 := process s pg) in *.
  destruct (process_last pg s Hsorted Hrows) as [[HA Hall]|(c & Hc & HB & Hab & _)]; fold s1 in HA || fold s1 in HB.
  - (* nothing visited *)
    assert (Elm : lastm s1 = lastm s) by (unfold lastm; rewrite HA; reflexivity).
    assert (Elu : lastu s1 = lastu s) by (unfold lastu; rewrite HA; reflexivity).
    assert (Hnoskip : match cur s with FGe _ _ => True | _ => pg = [] end).
    { destruct pg as [|x xs] eqn:Epg; [destruct (cur s); auto|].
      destruct (Hin x (or_introl eq_refl)) as [_ Hmx].
      pose proof (proj2 (page_rows s db alive x Hm Hmx)) as Hx.
      rewrite (Hall x (or_introl eq_refl)) in Hx.
      destruct (cur s); auto; discriminate. }
    unfold mode_inv in Hm. unfold pot. rewrite HA.
    destruct (cur s) as [|t u|t u|t] eqn:Ecur.
    + rewrite Hnoskip. destruct Hm as [_ Hex]. rewrite Fe, Hex. exact I.
    + destruct Hm as (Hex & Hf & l & El & Hl2 & Hl3).
      rewrite Fe, Hex.
      assert (Hl0 : lastm s1 =? 0 = false).
      { apply Nat.eqb_neq. rewrite Elm. rewrite (lastm_some _ _ El). destruct (Hl l El). lia. }
      assert (Hlf : lastm s1 =? ftime s1 = true).
      { apply Nat.eqb_eq. rewrite Elm, Ff, (lastm_some _ _ El). lia. }
      destruct pg as [|x xs]; [exact I|].
      rewrite Hl0, Hlf. simpl. lia.
    + destruct Hm as (Hex & Hf & l & El & Hl2 & Hl3).
      rewrite Hnoskip. rewrite Fe, Hex.
      assert (Hl0 : lastm s1 =? 0 = false).
      { apply Nat.eqb_neq. rewrite Elm. rewrite (lastm_some _ _ El). destruct (Hl l El). lia. }
      rewrite Hl0. simpl. lia.
    + rewrite Hnoskip. destruct Hm as (Hex & _). rewrite Fe, Hex. exact I.
  - (* the cursor moved *)
    destruct (Hin c Hc) as [Hcdb _].
    assert (Hrem : remaining (last s1) db < remaining (last s) db).
    { rewrite HB. apply remaining_advance; auto. }
    assert (Hl0 : lastm s1 =? 0 = false).
    { apply Nat.eqb_neq. rewrite (lastm_some _ _ HB). destruct (Hmt c Hcdb). lia. }
    assert (Hw : forall s', last s' = last s1 -> pot s' db < pot s db).
    { intros s' E. unfold pot. rewrite E.
      assert (mode_w (cur s') <= 2) by (destruct (cur s'); simpl; lia). lia. }
    destruct pg as [|x xs]; [destruct Hc|].
    rewrite Hl0.
    destruct (negb (length (x :: xs) =? 0) && (lastm s1 =? ftime s1)); [apply Hw; reflexivity|].
    destruct (exact s1); apply Hw; reflexivity.
Qed.

(* ---------- the loop ---------- *)
Definition res_of (x : result * list nat * world * st) : result := fst (fst (fst x)).

Lemma apply_batch_nil db clock alive : apply_batch [] (db, clock, alive) = (db, S clock, alive).
Proof. reflexivity. Qed.

Lemma Inv_tick s db clock alive : Inv s db clock alive -> Inv s db (S clock) alive.
Proof.
  intros (Hnd & Hmt & Hlm & Hft & Hl & Hcov & Hm). apply Inv_build; auto.
  intros r Hr. specialize (Hmt r Hr). lia.
Qed.

(* no further events: the measure bounds the number of requests *)
Lemma pages_quiet n f : forall fuel db clock alive s k,
  1 <= n -> Inv s db clock alive -> pot s db < fuel ->
  res_of (pages fuel n f [] (db, clock, alive) s k) <> RFuel.
Proof.
  induction fuel as [|fuel IH]; intros db clock alive s k Hn HI Hpot; [lia|].
  cbn [pages hd tl]. rewrite apply_batch_nil. cbv beta iota zeta.
  destruct (is_k (fail_req f) k); [cbn; discriminate|].
  apply Inv_tick in HI.
  pose proof (advance_ok_page s db (S clock) alive n Hn HI) as HA.
  pose proof (advance_progress s db (S clock) alive n Hn HI) as HP.
  destruct (advance s (page db (cur s) n)) as [s2|s2|s2]; [| |contradiction].
  - destruct (cb_failed f s2); [cbn; discriminate|].
    destruct HA as [HI2 _]. apply IH; auto. lia.
  - destruct (cb_failed f s2); [cbn; discriminate|].
    rewrite apply_batch_nil. cbv beta iota zeta.
    destruct (is_k (fail_req f) (S k)); [cbn; discriminate|].
    destruct (length (visited s2) <? count_le db (ftime s2)); cbn; discriminate.
Qed.

(* table growth under events *)
Definition grows (e : event) : nat := match e with Add _ => 1 | Insert _ _ => 1 | _ => 0 end.
Definition adds (b : list event) : nat := list_sum (map grows b).
Definition adds_all (evs : list (list event)) : nat := list_sum (map adds evs).

Lemma event_length db clock alive e :
  let '(db', _, _) := apply_event (db, clock, alive) e in length db' <= length db + grows e.
Proof.
  unfold apply_event. destruct e as [u|u|u| |u t]; simpl.
  - rewrite map_length. lia.
  - destruct (has_uuid db u); simpl; lia.
  - pose proof (filter_length_all (fun r => negb (uuid r =? u)) db). lia.
  - lia.
  - destruct (has_uuid db u || (t =? 0) || (clock <? t)); simpl; lia.
Qed.
Lemma events_length evs : forall db clock alive,
  let '(db', _, _) := fold_left apply_event evs (db, clock, alive) in length db' <= length db + adds evs.
Proof.
  induction evs as [|e evs IH]; intros db clock alive; simpl; [lia|].
  pose proof (event_length db clock alive e) as H. revert H.
  destruct (apply_event (db, clock, alive) e) as [[db1 c1] a1]. intros H.
  specialize (IH db1 c1 a1). revert IH.
  destruct (fold_left apply_event evs (db1, c1, a1)) as [[db2 c2] a2]. intros IH.
  unfold adds in *. simpl. lia.
Qed.
Lemma batch_length evs db clock alive :
  let '(db', _, _) := apply_batch evs (db, clock, alive) in length db' <= length db + adds evs.
Proof. unfold apply_batch. apply events_length. Qed.

(* any schedule: one request per batch of the schedule, then the quiet bound *)
Lemma pages_terminates n f : forall evs fuel db clock alive s k,
  1 <= n -> Inv s db clock alive -> AInv db alive ->
  length evs + 3 * (length db + adds_all evs) + 2 < fuel ->
  res_of (pages fuel n f evs (db, clock, alive) s k) <> RFuel.
Proof.
  induction evs as [|b evs IH]; intros fuel db clock alive s k Hn HI HA0 Hf.
  - apply pages_quiet; auto. pose proof (pot_bound s db). simpl in Hf. lia.
  - destruct fuel as [|fuel]; [lia|].
    cbn [pages hd tl].
    pose proof (batch_inv s b db clock alive HI HA0) as HE.
    pose proof (batch_alive b db clock alive) as HB.
    pose proof (batch_length b db clock alive) as HL. revert HE HB HL.
    destruct (apply_batch b (db, clock, alive)) as [[db1 c1] a1].
    intros [HI1 _] [_ HA1] HL. specialize (HA1 HA0). cbv beta iota zeta.
    destruct (is_k (fail_req f) k); [cbn; discriminate|].
    pose proof (advance_ok_page s db1 c1 a1 n Hn HI1) as HA.
    pose proof (advance_progress s db1 c1 a1 n Hn HI1) as HP.
    destruct (advance s (page db1 (cur s) n)) as [s2|s2|s2]; [| |contradiction].
    + destruct (cb_failed f s2); [cbn; discriminate|].
      destruct HA as [HI2 _]. apply IH; auto.
      unfold adds_all in *. simpl in Hf. lia.
    + destruct (cb_failed f s2); [cbn; discriminate|].
      destruct (apply_batch (hd [] evs) (db1, c1, a1)) as [[db2 c2] a2]. cbv beta iota zeta.
      destruct (is_k (fail_req f) (S k)); [cbn; discriminate|].
      destruct (length (visited s2) <? count_le db2 (ftime s2)); cbn; discriminate.
Qed.

(* fuel that always suffices: one request per batch of the schedule (each_collection consumes the
   first batch before the initial count), then three per row that is or may come to be in the table *)
Definition fuel_bound (evs : list (list event)) (db : list row) : nat :=
  length evs + 3 * (length db + adds_all evs) + 3.

Theorem each_collection_terminates fuel n f evs db clock :
  1 <= n -> NoDup (map uuid db) -> (forall r, In r db -> 1 <= mtime r <= clock) ->
  fuel_bound evs db <= fuel ->
  res_of (each_collection fuel n f evs db clock) <> RFuel.
Proof.
  intros Hn Hnd Hmt Hf. unfold each_collection.
  pose proof (batch_inv init (hd [] evs) db clock (map uuid db) (Inv_init db clock Hnd Hmt) (incl_refl _)) as HE.
  pose proof (batch_alive (hd [] evs) db clock (map uuid db)) as HB.
  pose proof (batch_length (hd [] evs) db clock (map uuid db)) as HL.
  revert HE HB HL.
  destruct (apply_batch (hd [] evs) (db, clock, map uuid db)) as [[db1 c1] a1].
  intros [HI1 _] [_ HA1] HL. cbv beta iota zeta.
  destruct (is_k (fail_req f) 0); [cbn; discriminate|].
  apply pages_terminates; auto.
  - apply HA1. apply incl_refl.
  - unfold fuel_bound in Hf. destruct evs as [|b evs]; simpl in *.
    + unfold adds_all in *. simpl in *. unfold adds in HL. simpl in HL. lia.
    + unfold adds_all in *. simpl in *. lia.
Qed.

(* ---------- fuel is irrelevant once it suffices ---------- *)
Lemma pages_fuel_mono n f : forall fuel fuel' evs w s k,
  res_of (pages fuel n f evs w s k) <> RFuel -> fuel <= fuel' ->
  pages fuel' n f evs w s k = pages fuel n f evs w s k.
Proof.
  induction fuel as [|fuel IH]; intros fuel' evs w s k Hres Hle.
  - exfalso. apply Hres. reflexivity.
  - destruct fuel' as [|fuel']; [lia|].
    cbn [pages] in *.
    destruct (apply_batch (hd [] evs) w) as [[db1 c1] a1]. cbv beta iota zeta in *.
    destruct (is_k (fail_req f) k); [reflexivity|].
    destruct (advance s (page db1 (cur s) n)) as [s2|s2|s2]; try reflexivity.
    destruct (cb_failed f s2); [reflexivity|].
    apply IH; [exact Hres|lia].
Qed.

Theorem each_collection_fuel_mono fuel fuel' n f evs db clock :
  res_of (each_collection fuel n f evs db clock) <> RFuel -> fuel <= fuel' ->
  each_collection fuel' n f evs db clock = each_collection fuel n f evs db clock.
Proof.
  unfold each_collection.
  destruct (apply_batch (hd [] evs) (db, clock, map uuid db)) as [[db1 c1] a1]. cbv beta iota zeta.
  destruct (is_k (fail_req f) 0); [reflexivity|].
  apply pages_fuel_mono.
Qed.

(* ---------- the quiet table: nil is returned and every row was visited ---------- *)

Lemma pages_quiet_ok n : forall fuel db clock s k,
  1 <= n -> Inv s db clock (map uuid db) -> pot s db < fuel ->
  exists vis w s', pages fuel n nofaults [] (db, clock, map uuid db) s k = (ROk, vis, w, s') /\
                   forall r, In r db -> In (uuid r) vis.
Proof.
  induction fuel as [|fuel IH]; intros db clock s k Hn HI Hpot; [lia|].
  cbn [pages hd tl]. rewrite apply_batch_nil. cbv beta iota zeta.
  change (is_k (fail_req nofaults) k) with false. cbv iota.
  apply Inv_tick in HI.
  pose proof (advance_ok_page s db (S clock) (map uuid db) n Hn HI) as HA.
  pose proof (advance_progress s db (S clock) (map uuid db) n Hn HI) as HP.
  destruct (advance s (page db (cur s) n)) as [s2|s2|s2]; [| |contradiction].
  - change (cb_failed nofaults s2) with false. cbv iota.
    destruct HA as [HI2 _]. apply IH; auto. lia.
  - change (cb_failed nofaults s2) with false. cbv iota.
    rewrite apply_batch_nil. cbv beta iota zeta.
    change (is_k (fail_req nofaults) (S k)) with false. cbv iota.
    assert (Hvis : forall r, In r db -> In (uuid r) (visited s2)).
    { intros r Hr. apply HA; [exact Hr|apply in_map; exact Hr]. }
    assert (Hcnt : length (visited s2) <? count_le db (ftime s2) = false).
    { apply Nat.ltb_ge. unfold count_le.
      pose proof (filter_length_all (fun r => mtime r <=? ftime s2) db) as H1.
      destruct HI as (Hnd & _).
      assert (H2 : length (map uuid db) <= length (visited s2)).
      { apply NoDup_incl_length; [exact Hnd|].
        intros u Hu. apply in_map_iff in Hu. destruct Hu as (r & <- & Hr). apply Hvis; exact Hr. }
      rewrite map_length in H2. lia. }
    rewrite Hcnt. eexists _, _, _. split; [reflexivity|].
    intros r Hr. rewrite <- in_rev. apply Hvis; exact Hr.
Qed.

Theorem each_collection_quiet fuel n db clock :
  1 <= n -> NoDup (map uuid db) -> (forall r, In r db -> 1 <= mtime r <= clock) ->
  3 * length db + 3 <= fuel ->
  exists vis w s', each_collection fuel n nofaults [] db clock = (ROk, vis, w, s') /\
                   forall r, In r db -> In (uuid r) vis.
Proof.
  intros Hn Hnd Hmt Hf. unfold each_collection. cbn [hd tl]. rewrite apply_batch_nil. cbv beta iota zeta.
  change (is_k (fail_req nofaults) 0) with false. cbv iota.
  apply pages_quiet_ok; auto.
  - apply Inv_tick. apply Inv_init; auto.
  - pose proof (pot_bound init db). lia.
Qed.

(* ====================================================================================================
   A bound in the page size, on a quiet table: at most 4*|table|/(limit+1) + 4 page requests.
   ==================================================================================================== *)

(* ---------- more counting ---------- *)
Lemma filter_nil {A} (p : A -> bool) (l : list A) : (forall x, In x l -> p x = false) -> filter p l = [].
Proof.
  induction l as [|a l IH]; intros H; simpl; [reflexivity|].
  rewrite (H a (or_introl eq_refl)). apply IH. intros x Hx. apply H. right; exact Hx.
Qed.
Lemma filter_all {A} (p : A -> bool) (l : list A) : (forall x, In x l -> p x = true) -> filter p l = l.
Proof.
  induction l as [|a l IH]; intros H; simpl; [reflexivity|].
  rewrite (H a (or_introl eq_refl)). f_equal. apply IH. intros x Hx. apply H. right; exact Hx.
Qed.
Lemma filter_partition {A} (p : A -> bool) (l : list A) :
  length l = length (filter p l) + length (filter (fun x => negb (p x)) l).
Proof. induction l as [|a l IH]; simpl; [reflexivity|]. destruct (p a); simpl; lia. Qed.
Lemma filter_split {A} (p q : A -> bool) (l : list A) :
  length (filter p l) =
  length (filter (fun x => p x && q x) l) + length (filter (fun x => p x && negb (q x)) l).
Proof. induction l as [|a l IH]; simpl; [reflexivity|]. destruct (p a), (q a); simpl; lia. Qed.
Lemma count_incl (p : row -> bool) (l db : list row) :
  NoDup l -> (forall x, In x l -> In x db /\ p x = true) -> length l <= length (filter p db).
Proof.
  intros Hnd H. apply NoDup_incl_length; [exact Hnd|]. intros x Hx. apply filter_In. apply H; exact Hx.
Qed.

Lemma sorted_nodup l : StronglySorted key_lt l -> NoDup l.
Proof.
  induction l as [|a l IH]; intros Hs; [constructor|].
  inversion Hs as [|? ? Hs' Hall]; subst. rewrite Forall_forall in Hall.
  constructor; [|apply IH; exact Hs']. intro X. apply (key_lt_irrefl a). apply Hall; exact X.
Qed.

(* ---------- the length of a page ---------- *)
Lemma insert_length x l : length (insert x l) = S (length l).
Proof. induction l as [|y l IH]; simpl; [reflexivity|]. destruct (key_ltb x y); simpl; [reflexivity|rewrite IH; reflexivity]. Qed.
Lemma isort_length l : length (isort l) = length l.
Proof. induction l as [|x l IH]; simpl; [reflexivity|]. rewrite insert_length, IH. reflexivity. Qed.

Lemma page_le db f n : length (page db f n) <= n.
Proof. unfold page. apply firstn_le_length. Qed.
(* a page that is not full contains every matching row *)
Lemma page_all db f n r :
  length (page db f n) < n -> In r db -> matches f r = true -> In r (page db f n).
Proof.
  unfold page. intros H Hr Hm. rewrite firstn_length in H.
  rewrite firstn_all2 by lia. apply isort_in, filter_In. auto.
Qed.
Lemma page_nil_none db f n r : 1 <= n -> page db f n = [] -> In r db -> matches f r = false.
Proof.
  intros Hn Hp Hr. destruct (matches f r) eqn:E; [|reflexivity].
  exfalso. eapply page_nonempty_ok; eauto.
Qed.

(* ---------- moving the cursor over a page ---------- *)
(* the rows of the page above the old cursor are no longer above the new one *)
Lemma remaining_page l c pg db :
  NoDup pg -> (forall x, In x pg -> In x db) -> above l c ->
  (forall c', In c' pg -> ~ key_lt c c') ->
  remaining (Some c) db + length (filter (above_b l) pg) <= remaining l db.
Proof.
  intros Hnd Hin Hab Hmax. unfold remaining.
  rewrite (filter_split (above_b l) (above_b (Some c)) db).
  assert (H1 : length (filter (above_b (Some c)) db) <=
               length (filter (fun x => above_b l x && above_b (Some c) x) db)).
  { apply filter_length_le. intros x _ Hx. rewrite Hx, andb_true_r.
    apply above_b_spec. apply above_b_spec in Hx. simpl in Hx. eapply above_trans; eauto. }
  assert (H2 : length (filter (above_b l) pg) <=
               length (filter (fun x => above_b l x && negb (above_b (Some c) x)) db)).
  { apply count_incl; [apply NoDup_filter; exact Hnd|].
    intros x Hx. apply filter_In in Hx. destruct Hx as [Hx Hax]. split; [apply Hin; exact Hx|].
    rewrite Hax. cbn [andb]. apply negb_true_iff. apply above_b_false. simpl. apply Hmax; exact Hx. }
  lia.
Qed.

(* a page that is not full and whose filter lets through everything above the new cursor: nothing remains *)
Lemma remaining_partial db f n c :
  length (page db f n) < n ->
  (forall r, In r db -> key_lt c r -> matches f r = true) ->
  (forall c', In c' (page db f n) -> ~ key_lt c c') ->
  remaining (Some c) db = 0.
Proof.
  intros Hlt Hm Hmax. unfold remaining. rewrite filter_nil; [reflexivity|].
  intros r Hr. apply above_b_false. simpl. intro Hcr.
  apply (Hmax r); [|exact Hcr]. apply page_all; auto.
Qed.

(* rows sharing the timestamp of the cursor with a smaller uuid (fetched again by the next `>=` request),
   and rows of the exact-mode filter *)
Definition backp (t u : nat) (r : row) : bool := (mtime r =? t) && (uuid r <? u).
Definition back (t u : nat) (db : list row) : nat := length (filter (backp t u) db).
Definition fwd (t u : nat) (db : list row) : nat := length (filter (matches (FEq t u)) db).

Lemma fwd_le_remaining l db : fwd (mtime l) (uuid l) db <= remaining (Some l) db.
Proof.
  unfold fwd, remaining. apply filter_length_le. intros x _ Hx. simpl in Hx.
  apply andb_true_iff in Hx. destruct Hx as [H1 H2]. apply Nat.eqb_eq in H1. apply Nat.ltb_lt in H2.
  apply above_b_spec. simpl. unfold key_lt. lia.
Qed.

(* the back rows of the new cursor, and the cursor, are among the rows of the page above the old cursor *)
Lemma back_count db f n l c :
  NoDup (map uuid db) -> In c (page db f n) -> above l c ->
  (forall r, In r db -> backp (mtime c) (uuid c) r = true -> matches f r = true /\ above l r) ->
  back (mtime c) (uuid c) db + 1 <= length (filter (above_b l) (page db f n)).
Proof.
  intros Hnd Hc Hab Hb. unfold back.
  assert (Hndb : NoDup db) by (eapply NoDup_map_inv; exact Hnd).
  replace (length (filter (backp (mtime c) (uuid c)) db) + 1)
    with (length (c :: filter (backp (mtime c) (uuid c)) db)) by (simpl; lia).
  apply NoDup_incl_length.
  - constructor; [|apply NoDup_filter; exact Hndb].
    intro X. apply filter_In in X. destruct X as [_ X]. unfold backp in X.
    apply andb_true_iff in X. destruct X as [_ X]. apply Nat.ltb_lt in X. lia.
  - intros r [<-|Hr].
    + apply filter_In. split; [exact Hc|apply above_b_spec; exact Hab].
    + apply filter_In in Hr. destruct Hr as [Hr Hbr]. destruct (Hb r Hr Hbr) as [Hm Har].
      apply filter_In. split; [|apply above_b_spec; exact Har].
      eapply page_closed_ok; eauto.
      unfold backp in Hbr. apply andb_true_iff in Hbr. destruct Hbr as [H1 H2].
      apply Nat.eqb_eq in H1. apply Nat.ltb_lt in H2. unfold key_lt. lia.
Qed.

(* ---------- the potential ---------- *)
(* D = limit + 1.  Four units per row above the cursor, two per row that the next `>=` request fetches
   again, and a number of D's that pays for the requests a mode can spend without a full page. *)
Definition bw (n a : nat) : nat := 2 * a + (if n <=? a then S n else 0).
Definition psi (n : nat) (s : st) (db : list row) : nat :=
  let D := S n in
  let R := remaining (last s) db in
  match cur s with
  | FNone => if R =? 0 then D else 4 * R + 4 * D
  | FGt _ => if R =? 0 then D else 4 * R + 4 * D
  | FGe t u => 4 * R + bw n (back t u db) + (if R =? 0 then 3 * D else 5 * D)
  | FEq t u => if fwd t u db =? 0 then (if R =? 0 then 2 * D else 4 * R + 5 * D) else 4 * R + 6 * D
  end.

Lemma psi_pos n s db : S n <= psi n s db.
Proof.
  unfold psi. destruct (cur s) as [|t u|t u|t].
  - destruct (remaining (last s) db =? 0); lia.
  - destruct (remaining (last s) db =? 0); lia.
  - destruct (fwd t u db =? 0); [destruct (remaining (last s) db =? 0)|]; lia.
  - destruct (remaining (last s) db =? 0); lia.
Qed.

(* on a quiet table the cursor is a row of the table; filterTime is zero until the first page was read *)
Definition QInv (s : st) (db : list row) (clock : nat) (alive : list nat) : Prop :=
  Inv s db clock alive /\ (forall l, last s = Some l -> In l db) /\ (cur s = FNone -> ftime s = 0).

(* a skipped row of a `>=` page is a back row *)
Lemma skipped_is_back l t u x :
  mtime l = t -> uuid l = u -> matches (FGe t u) x = true -> skip (Some l) x = true -> backp t u x = true.
Proof.
  intros Hl2 Hl3 Hm Hs. simpl in Hm, Hs. unfold backp.
  apply andb_true_iff in Hm. destruct Hm as [_ H2]. apply negb_true_iff in H2. apply Nat.eqb_neq in H2.
  apply andb_true_iff in Hs. destruct Hs as [H3 H4]. apply Nat.eqb_eq in H3. apply Nat.leb_le in H4.
  apply andb_true_iff. split; [apply Nat.eqb_eq; lia|apply Nat.ltb_lt; lia].
Qed.

Lemma psi_mk n db l ft ex c vis :
  psi n {| last := l; ftime := ft; exact := ex; cur := c; visited := vis |} db =
  match c with
  | FNone => if remaining l db =? 0 then S n else 4 * remaining l db + 4 * S n
  | FGt _ => if remaining l db =? 0 then S n else 4 * remaining l db + 4 * S n
  | FGe t u => 4 * remaining l db + bw n (back t u db) + (if remaining l db =? 0 then 3 * S n else 5 * S n)
  | FEq t u => if fwd t u db =? 0 then (if remaining l db =? 0 then 2 * S n else 4 * remaining l db + 5 * S n)
               else 4 * remaining l db + 6 * S n
  end.
Proof. reflexivity. Qed.

Lemma psi_eq_le n s db t u : cur s = FEq t u -> psi n s db <= 4 * remaining (last s) db + 6 * S n.
Proof.
  intros E. unfold psi. rewrite E.
  destruct (fwd t u db =? 0); [destruct (remaining (last s) db =? 0)|]; lia.
Qed.

Lemma advance_nonempty s pg :
  pg <> [] ->
  advance s pg =
  let s1 := process s pg in
  if lastm s1 =? 0 then Bug s1
  else if lastm s1 =? ftime s1 then
    Continue {| last := last s1; ftime := ftime s1; exact := true; cur := FEq (ftime s1) (lastu s1); visited := visited s1 |}
  else if exact s1 then
    Continue {| last := last s1; ftime := ftime s1; exact := false; cur := FGt (ftime s1); visited := visited s1 |}
  else
    Continue {| last := last s1; ftime := lastm s1; exact := false; cur := FGe (lastm s1) (lastu s1); visited := visited s1 |}.
Proof. intros H. destruct pg as [|x xs]; [congruence|reflexivity]. Qed.

Ltac eqb_cases :=
  repeat match goal with
         | |- context [?a =? 0] => destruct (Nat.eqb_spec a 0)
         | |- context [?a <=? ?b] => destruct (Nat.leb_spec a b)
         end.

Lemma advance_psi s db clock alive n :
  1 <= n -> QInv s db clock alive ->
  match advance s (page db (cur s) n) with
  | Continue s' => psi n s' db + S n <= psi n s db /\
                   (forall l, last s' = Some l -> In l db) /\ (cur s' = FNone -> ftime s' = 0)
  | Done _ => True
  | Bug _ => True
  end.
Proof.
  intros Hn ((Hnd & Hmt & Hlm & Hft & Hl & Hcov & Hm) & Hldb & Hf0).
  set (pg := page db (cur s) n).
  assert (Hsorted : StronglySorted key_lt pg) by (apply page_sorted_ok; exact Hnd).
  assert (Hpnd : NoDup pg) by (apply sorted_nodup; exact Hsorted).
  assert (Hin : forall c, In c pg -> In c db /\ matches (cur s) c = true) by (intros c Hc; eapply page_in_ok; exact Hc).
  assert (Hrows : forall c, In c pg -> skip (last s) c = true \/ above (last s) c).
  { intros c Hc. destruct (Hin c Hc) as [_ Hmc]. apply (page_rows s db alive c Hm Hmc). }
  assert (Hple : length pg <= n) by apply page_le.
  destruct (process_fields pg s) as (Fc & Fe & Ff).
  pose proof (process_last pg s Hsorted Hrows) as Hcases.
  set (s1 := process s pg) in *.
  destruct Hcases as [[HA Hall]|(c & Hc & HB & Hab & Hmax)].
  - (* nothing visited *)
    unfold advance. fold s1.
    assert (Elm : lastm s1 = lastm s) by (unfold lastm; rewrite HA; reflexivity).
    assert (Elu : lastu s1 = lastu s) by (unfold lastu; rewrite HA; reflexivity).
    assert (Hnoskip : match cur s with FGe _ _ => True | _ => pg = [] end).
    { destruct pg as [|x xs] eqn:Epg; [destruct (cur s); auto|].
      destruct (Hin x (or_introl eq_refl)) as [_ Hmx].
      pose proof (proj2 (page_rows s db alive x Hm Hmx)) as Hx.
      rewrite (Hall x (or_introl eq_refl)) in Hx.
      destruct (cur s); auto; discriminate. }
    unfold mode_inv in Hm.
    destruct (cur s) as [|t u|t u|t] eqn:Ecur.
    + rewrite Hnoskip. destruct Hm as [_ Hex]. rewrite Fe, Hex. exact I.
    + destruct Hm as (Hex & Hf & l & El & Hl2 & Hl3).
      rewrite Fe, Hex.
      assert (Hl0 : lastm s1 =? 0 = false).
      { apply Nat.eqb_neq. rewrite Elm. rewrite (lastm_some _ _ El). destruct (Hl l El). lia. }
      assert (Hlf : lastm s1 =? ftime s1 = true).
      { apply Nat.eqb_eq. rewrite Elm, Ff, (lastm_some _ _ El). lia. }
      destruct pg as [|x xs] eqn:Epg; [exact I|].
      rewrite Hl0, Hlf. cbn [length Nat.eqb negb andb].
      split; [|split; [cbn [last]; rewrite HA; exact Hldb|cbn [cur]; discriminate]].
      rewrite psi_mk. unfold psi. rewrite Ecur, HA, Ff, Hf, Elu, (lastu_some _ _ El), Hl3, El.
      (* facts *)
      assert (Hfw : fwd t u db <= remaining (Some l) db).
      { rewrite <- Hl2, <- Hl3. apply fwd_le_remaining. }
      assert (HLa : length (x :: xs) <= back t u db).
      { apply count_incl; [exact Hpnd|]. intros y Hy. destruct (Hin y Hy) as [Hy1 Hy2]. split; [exact Hy1|].
        apply (skipped_is_back l t u y Hl2 Hl3 Hy2). rewrite <- El. apply Hall; exact Hy. }
      assert (Hpart : length (x :: xs) < n -> remaining (Some l) db = 0).
      { intros Hlt. unfold remaining. rewrite filter_nil; [reflexivity|].
        intros r Hr. apply above_b_false. intro Har.
        assert (Hmr : matches (FGe t u) r = true).
        { simpl. simpl in Har. apply andb_true_iff. split; [apply Nat.leb_le; unfold key_lt in Har; lia|].
          apply negb_true_iff. apply Nat.eqb_neq. intro E.
          assert (r = l) by (eapply nodup_uuid_eq; eauto; lia). subst r.
          eapply key_lt_irrefl; exact Har. }
        assert (Hrp : In r (x :: xs)).
        { rewrite <- Epg. unfold pg. apply page_all; auto.
          fold pg. rewrite Epg. exact Hlt. }
        specialize (Hall r Hrp). rewrite El in Hall. eapply skip_not_above; eauto. }
      unfold bw.
      destruct (Nat.eq_dec (length (x :: xs)) n) as [Efull|Npart].
      * assert (Hna : n <=? back t u db = true) by (apply Nat.leb_le; lia). rewrite Hna. cbv iota.
        eqb_cases; lia.
      * assert (HR0 : remaining (Some l) db = 0) by (apply Hpart; lia).
        rewrite HR0 in *. assert (E1 : fwd t u db = 0) by lia. rewrite E1. cbn [Nat.eqb].
        destruct (n <=? back t u db); lia.
    + destruct Hm as (Hex & Hf & l & El & Hl2 & Hl3).
      assert (Epg : pg = []) by exact Hnoskip.
      rewrite Epg. rewrite Fe, Hex.
      assert (Hl0 : lastm s1 =? 0 = false).
      { apply Nat.eqb_neq. rewrite Elm. rewrite (lastm_some _ _ El). destruct (Hl l El). lia. }
      rewrite Hl0. cbn [length Nat.eqb negb andb].
      split; [|split; [cbn [last]; rewrite HA; exact Hldb|cbn [cur]; discriminate]].
      rewrite psi_mk. unfold psi. rewrite Ecur, HA.
      assert (E1 : fwd t u db = 0).
      { unfold fwd. rewrite filter_nil; [reflexivity|]. intros r Hr.
        apply (page_nil_none db (FEq t u) n r Hn); [exact Epg|exact Hr]. }
      rewrite E1. cbn [Nat.eqb].
      destruct (remaining (last s) db =? 0); lia.
    + rewrite Hnoskip. destruct Hm as (Hex & _). rewrite Fe, Hex. exact I.
  - (* the cursor moved *)
    destruct (Hin c Hc) as [Hcdb Hcm].
    assert (Hne : pg <> []) by (intro E; rewrite E in Hc; destruct Hc).
    rewrite (advance_nonempty s pg Hne). fold s1. cbv zeta.
    set (v := length (filter (above_b (last s)) pg)).
    assert (Hv : remaining (Some c) db + v <= remaining (last s) db).
    { apply remaining_page; auto. intros y Hy. apply (Hin y Hy). }
    assert (Hv1 : 1 <= v).
    { unfold v.
      assert (X : In c (filter (above_b (last s)) pg)) by (apply filter_In; split; [exact Hc|apply above_b_spec; exact Hab]).
      destruct (filter (above_b (last s)) pg); [contradiction|simpl; lia]. }
    assert (Hvle : v <= length pg) by apply filter_length_all.
    assert (Elm : lastm s1 = mtime c) by (apply lastm_some; exact HB).
    assert (Elu : lastu s1 = uuid c) by (apply lastu_some; exact HB).
    assert (Hl0 : lastm s1 =? 0 = false).
    { apply Nat.eqb_neq. rewrite Elm. destruct (Hmt c Hcdb). lia. }
    rewrite Hl0.
    assert (Hq : forall l0, last s1 = Some l0 -> In l0 db).
    { intros l0 El0. rewrite HB in El0. injection El0 as <-. exact Hcdb. }
    assert (Hfull : length pg = n \/ length pg < n) by lia.
    unfold mode_inv in Hm.
    destruct (cur s) as [|t u|t u|t] eqn:Ecur.
    + (* no filter yet *)
      destruct Hm as [Hln Hex]. specialize (Hf0 eq_refl).
      assert (Hne0 : lastm s1 =? ftime s1 = false).
      { apply Nat.eqb_neq. rewrite Elm, Ff, Hf0. destruct (Hmt c Hcdb). lia. }
      rewrite Hne0, Fe, Hex.
      split; [|split; [exact Hq|cbn [cur]; discriminate]].
      rewrite psi_mk. unfold psi. rewrite Ecur, HB, Elm, Elu.
      assert (Hvl : v = length pg).
      { unfold v. rewrite filter_all; [reflexivity|]. intros y Hy. apply above_b_spec. rewrite Hln. exact I. }
      assert (Hbk : back (mtime c) (uuid c) db + 1 <= v).
      { apply (back_count db FNone n (last s) c Hnd Hc Hab).
        intros r Hr _. split; [reflexivity|rewrite Hln; exact I]. }
      assert (Hp0 : length pg < n -> remaining (Some c) db = 0).
      { intros Hlt. apply (remaining_partial db FNone n c); auto. }
      unfold bw. destruct Hfull as [Hfu|Hpa].
      * eqb_cases; lia.
      * rewrite (Hp0 Hpa) in *. eqb_cases; lia.
    + (* modified_at >= t, uuid <> u *)
      destruct Hm as (Hex & Hf & l & El & Hl2 & Hl3).
      pose proof Hcm as Hcm'. simpl in Hcm'. apply andb_true_iff in Hcm'. destruct Hcm' as [Hc1 Hc2].
      apply Nat.leb_le in Hc1. apply negb_true_iff in Hc2. apply Nat.eqb_neq in Hc2.
      assert (Hldb' : In l db) by (apply Hldb; exact El).
      assert (HLv : length pg <= v + back t u db).
      { rewrite (filter_partition (above_b (last s)) pg). fold v.
        apply Nat.add_le_mono_l. apply count_incl; [apply NoDup_filter; exact Hpnd|].
        intros y Hy. apply filter_In in Hy. destruct Hy as [Hy Hny]. destruct (Hin y Hy) as [Hy1 Hy2].
        split; [exact Hy1|]. apply (skipped_is_back l t u y Hl2 Hl3 Hy2). rewrite <- El.
        destruct (Hrows y Hy) as [X|X]; [exact X|].
        apply above_b_spec in X. rewrite X in Hny. discriminate. }
      assert (Hp0 : length pg < n -> remaining (Some c) db = 0).
      { intros Hlt. apply (remaining_partial db (FGe t u) n c); auto.
        intros r Hr Hcr. simpl. apply andb_true_iff. split; [apply Nat.leb_le; unfold key_lt in Hcr; lia|].
        apply negb_true_iff. apply Nat.eqb_neq. intro E.
        assert (r = l) by (eapply nodup_uuid_eq; eauto; lia). subst r.
        rewrite El in Hab. simpl in Hab. eapply key_lt_asym; eauto. }
      destruct (Nat.eq_dec (mtime c) t) as [Et|Nt].
      * (* still inside the timestamp group: exact mode *)
        assert (He0 : lastm s1 =? ftime s1 = true).
        { apply Nat.eqb_eq. rewrite Elm, Ff, Hf. exact Et. }
        rewrite He0.
        split; [|split; [exact Hq|cbn [cur]; discriminate]].
        rewrite psi_mk. unfold psi. rewrite Ecur, HB, Ff, Hf, Elu.
        pose proof (fwd_le_remaining c db) as Hfw. rewrite Et in Hfw.
        unfold bw. destruct Hfull as [Hfu|Hpa].
        -- eqb_cases; lia.
        -- rewrite (Hp0 Hpa) in *. eqb_cases; lia.
      * assert (Hne0 : lastm s1 =? ftime s1 = false).
        { apply Nat.eqb_neq. rewrite Elm, Ff, Hf. exact Nt. }
        rewrite Hne0, Fe, Hex.
        split; [|split; [exact Hq|cbn [cur]; discriminate]].
        rewrite psi_mk. unfold psi. rewrite Ecur, HB, Elm, Elu.
        assert (Hbk : back (mtime c) (uuid c) db + 1 <= v).
        { apply (back_count db (FGe t u) n (last s) c Hnd Hc Hab).
          intros r Hr Hbr. unfold backp in Hbr. apply andb_true_iff in Hbr. destruct Hbr as [H1 H2].
          apply Nat.eqb_eq in H1. apply Nat.ltb_lt in H2. split.
          - simpl. apply andb_true_iff. split; [apply Nat.leb_le; lia|].
            apply negb_true_iff. apply Nat.eqb_neq. intro E.
            assert (r = l) by (eapply nodup_uuid_eq; eauto; lia). subst r. lia.
          - rewrite El. simpl. unfold key_lt. lia. }
        unfold bw. destruct Hfull as [Hfu|Hpa].
        -- eqb_cases; lia.
        -- rewrite (Hp0 Hpa) in *. eqb_cases; lia.
    + (* exact mode: modified_at = t, uuid > u *)
      destruct Hm as (Hex & Hf & l & El & Hl2 & Hl3).
      pose proof Hcm as Hcm'. simpl in Hcm'. apply andb_true_iff in Hcm'. destruct Hcm' as [Hc1 Hc2].
      apply Nat.eqb_eq in Hc1. apply Nat.ltb_lt in Hc2.
      assert (He0 : lastm s1 =? ftime s1 = true).
      { apply Nat.eqb_eq. rewrite Elm, Ff, Hf. exact Hc1. }
      rewrite He0.
      split; [|split; [exact Hq|cbn [cur]; discriminate]].
      rewrite psi_mk. unfold psi. rewrite Ecur, HB, Ff, Hf, Elu.
      assert (Hvl : v = length pg).
      { unfold v. rewrite filter_all; [reflexivity|]. intros y Hy. apply above_b_spec.
        destruct (Hin y Hy) as [_ Hy2]. simpl in Hy2. apply andb_true_iff in Hy2. destruct Hy2 as [Y1 Y2].
        apply Nat.eqb_eq in Y1. apply Nat.ltb_lt in Y2. rewrite El. simpl. unfold key_lt. lia. }
      assert (Hfpos : 1 <= fwd t u db).
      { unfold fwd.
        assert (X : In c (filter (matches (FEq t u)) db)) by (apply filter_In; split; [exact Hcdb|exact Hcm]).
        destruct (filter (matches (FEq t u)) db); [contradiction|simpl; lia]. }
      assert (Hp0 : length pg < n -> fwd t (uuid c) db = 0).
      { intros Hlt. unfold fwd. rewrite filter_nil; [reflexivity|]. intros r Hr.
        destruct (matches (FEq t (uuid c)) r) eqn:Emr; [exfalso|reflexivity].
        simpl in Emr. apply andb_true_iff in Emr. destruct Emr as [Y1 Y2].
        apply Nat.eqb_eq in Y1. apply Nat.ltb_lt in Y2.
        assert (Hrp : In r pg).
        { apply page_all; auto. simpl. apply andb_true_iff. split; [apply Nat.eqb_eq; exact Y1|apply Nat.ltb_lt; lia]. }
        apply (Hmax r Hrp). unfold key_lt. lia. }
      destruct Hfull as [Hfu|Hpa].
      * eqb_cases; lia.
      * rewrite (Hp0 Hpa). cbn [Nat.eqb]. eqb_cases; lia.
    + (* modified_at > t *)
      destruct Hm as (Hex & Hf & (l & El & Hl2) & _).
      pose proof Hcm as Hcm'. simpl in Hcm'. apply Nat.ltb_lt in Hcm'.
      assert (Hne0 : lastm s1 =? ftime s1 = false).
      { apply Nat.eqb_neq. rewrite Elm, Ff, Hf. lia. }
      rewrite Hne0, Fe, Hex.
      split; [|split; [exact Hq|cbn [cur]; discriminate]].
      rewrite psi_mk. unfold psi. rewrite Ecur, HB, Elm, Elu.
      assert (Hvl : v = length pg).
      { unfold v. rewrite filter_all; [reflexivity|]. intros y Hy. apply above_b_spec.
        destruct (Hin y Hy) as [_ Hy2]. simpl in Hy2. apply Nat.ltb_lt in Hy2.
        rewrite El. simpl. unfold key_lt. lia. }
      assert (Hbk : back (mtime c) (uuid c) db + 1 <= v).
      { apply (back_count db (FGt t) n (last s) c Hnd Hc Hab).
        intros r Hr Hbr. unfold backp in Hbr. apply andb_true_iff in Hbr. destruct Hbr as [H1 H2].
        apply Nat.eqb_eq in H1. split.
        - simpl. apply Nat.ltb_lt. lia.
        - rewrite El. simpl. unfold key_lt. lia. }
      assert (Hp0 : length pg < n -> remaining (Some c) db = 0).
      { intros Hlt. apply (remaining_partial db (FGt t) n c); auto.
        intros r Hr Hcr. simpl. apply Nat.ltb_lt. unfold key_lt in Hcr. lia. }
      unfold bw. destruct Hfull as [Hfu|Hpa].
      * eqb_cases; lia.
      * rewrite (Hp0 Hpa) in *. eqb_cases; lia.
Qed.

Lemma remaining_none db : remaining None db = length db.
Proof. unfold remaining. rewrite filter_all; [reflexivity|]. intros x _. reflexivity. Qed.

Lemma QInv_tick s db clock alive : QInv s db clock alive -> QInv s db (S clock) alive.
Proof. intros (A & B & C). split; [apply Inv_tick; exact A|split; assumption]. Qed.

(* every request pays limit+1 units of the potential *)
Lemma pages_quiet_psi n : forall fuel db clock s k,
  1 <= n -> QInv s db clock (map uuid db) -> psi n s db < S fuel * S n ->
  exists vis w s', pages fuel n nofaults [] (db, clock, map uuid db) s k = (ROk, vis, w, s') /\
                   forall r, In r db -> In (uuid r) vis.
Proof.
  induction fuel as [|fuel IH]; intros db clock s k Hn HQ Hpsi.
  - pose proof (psi_pos n s db). lia.
  - cbn [pages hd tl]. rewrite apply_batch_nil. cbv beta iota zeta.
    change (is_k (fail_req nofaults) k) with false. cbv iota.
    apply QInv_tick in HQ. pose proof HQ as (HI & _).
    pose proof (advance_ok_page s db (S clock) (map uuid db) n Hn HI) as HA.
    pose proof (advance_progress s db (S clock) (map uuid db) n Hn HI) as HP.
    pose proof (advance_psi s db (S clock) (map uuid db) n Hn HQ) as HS.
    destruct (advance s (page db (cur s) n)) as [s2|s2|s2]; [| |contradiction].
    + change (cb_failed nofaults s2) with false. cbv iota.
      destruct HA as [HI2 _]. destruct HS as (HS1 & HS2 & HS3).
      apply IH; auto.
      * split; [exact HI2|split; assumption].
      * rewrite Nat.mul_succ_l in Hpsi. lia.
    + change (cb_failed nofaults s2) with false. cbv iota.
      rewrite apply_batch_nil. cbv beta iota zeta.
      change (is_k (fail_req nofaults) (S k)) with false. cbv iota.
      assert (Hvis : forall r, In r db -> In (uuid r) (visited s2)).
      { intros r Hr. apply HA; [exact Hr|apply in_map; exact Hr]. }
      assert (Hcnt : length (visited s2) <? count_le db (ftime s2) = false).
      { apply Nat.ltb_ge. unfold count_le.
        pose proof (filter_length_all (fun r => mtime r <=? ftime s2) db) as H1.
        destruct HI as (Hnd & _).
        assert (H2 : length (map uuid db) <= length (visited s2)).
        { apply NoDup_incl_length; [exact Hnd|].
          intros u Hu. apply in_map_iff in Hu. destruct Hu as (r & <- & Hr). apply Hvis; exact Hr. }
        rewrite map_length in H2. lia. }
      rewrite Hcnt. eexists _, _, _. split; [reflexivity|].
      intros r Hr. rewrite <- in_rev. apply Hvis; exact Hr.
Qed.

(* On a quiet table EachCollection returns nil after at most 4*|table|/(limit+1) + 4 page requests and has
   handed every row to the callback. *)
Theorem each_collection_quiet_pages fuel n db clock :
  1 <= n -> NoDup (map uuid db) -> (forall r, In r db -> 1 <= mtime r <= clock) ->
  4 * length db / (n + 1) + 4 <= fuel ->
  exists vis w s', each_collection fuel n nofaults [] db clock = (ROk, vis, w, s') /\
                   forall r, In r db -> In (uuid r) vis.
Proof.
  intros Hn Hnd Hmt Hf. unfold each_collection. cbn [hd tl]. rewrite apply_batch_nil. cbv beta iota zeta.
  change (is_k (fail_req nofaults) 0) with false. cbv iota.
  apply pages_quiet_psi; auto.
  - split; [apply Inv_tick; apply Inv_init; auto|].
    split; [intros l X; discriminate X|reflexivity].
  - unfold psi. cbn [cur last init]. rewrite remaining_none.
    rewrite Nat.add_1_r in Hf.
    pose proof (Nat.mul_succ_div_gt (4 * length db) (S n) (Nat.neq_succ_0 n)) as Hd.
    set (q := 4 * length db / S n) in *.
    assert (Hm : (q + 5) * S n <= S fuel * S n) by (apply Nat.mul_le_mono_r; lia).
    destruct (length db =? 0); lia.
Qed.

(* ---------- summary for the quiet table ---------- *)
Theorem paging_progress_quiet fuel n db clock :
  1 <= n -> NoDup (map uuid db) -> (forall r, In r db -> 1 <= mtime r <= clock) ->
  Nat.min (3 * length db + 3) (4 * length db / (n + 1) + 4) <= fuel ->
  exists vis w s', each_collection fuel n nofaults [] db clock = (ROk, vis, w, s') /\
                   forall r, In r db -> In (uuid r) vis.
Proof.
  intros Hn Hnd Hmt Hf.
  destruct (Nat.le_gt_cases (3 * length db + 3) fuel) as [H|H].
  - apply each_collection_quiet; auto.
  - apply each_collection_quiet_pages; auto. lia.
Qed.

Lemma result_cases_fuel (r : result) : r = RFuel \/ r <> RFuel.
Proof. destruct r; auto; right; discriminate. Qed.

(* whatever the fuel: either it ran out, or nil was returned and every row was visited *)
Theorem paging_quiet_any_fuel fuel n db clock :
  1 <= n -> NoDup (map uuid db) -> (forall r, In r db -> 1 <= mtime r <= clock) ->
  res_of (each_collection fuel n nofaults [] db clock) = RFuel \/
  exists vis w s', each_collection fuel n nofaults [] db clock = (ROk, vis, w, s') /\
                   forall r, In r db -> In (uuid r) vis.
Proof.
  intros Hn Hnd Hmt.
  destruct (result_cases_fuel (res_of (each_collection fuel n nofaults [] db clock))) as [E|NE]; [left; exact E|right].
  set (F := Nat.max fuel (3 * length db + 3)).
  destruct (each_collection_quiet F n db clock Hn Hnd Hmt) as (vis & w & s' & HE & HV); [unfold F; lia|].
  exists vis, w, s'. split; [|exact HV].
  rewrite <- HE. symmetry. apply each_collection_fuel_mono; [exact NE|unfold F; lia].
Qed.

(* the boolean of the small-scope check, with the fuel and the clock as parameters *)
Definition quiet_ok_at (fuel : nat) (db : list row) (limit clock : nat) : bool :=
  let '(res, vis, _, _) := each_collection fuel limit nofaults [] db clock in
  match res with ROk => forallb (fun r => existsb (Nat.eqb (uuid r)) vis) db | _ => false end.
Lemma quiet_ok_is_at db limit : quiet_ok db limit = quiet_ok_at (2 * length db / limit + 4) db limit 3.
Proof. reflexivity. Qed.

Theorem quiet_ok_at_general fuel n db clock :
  1 <= n -> NoDup (map uuid db) -> (forall r, In r db -> 1 <= mtime r <= clock) ->
  Nat.min (3 * length db + 3) (4 * length db / (n + 1) + 4) <= fuel ->
  quiet_ok_at fuel db n clock = true.
Proof.
  intros Hn Hnd Hmt Hf.
  destruct (paging_progress_quiet fuel n db clock Hn Hnd Hmt Hf) as (vis & w & s' & HE & HV).
  unfold quiet_ok_at. rewrite HE. apply forallb_forall. intros r Hr.
  apply existsb_exists. exists (uuid r). split; [apply HV; exact Hr|apply Nat.eqb_refl].
Qed.

(* ---------- the fuel must depend on the schedule ---------- *)
(* Two collections that other clients touch again between every two requests: every page request finds
   one row with a fresh timestamp, so the scan goes on for as long as the modifications do (this is the
   behaviour of the Go loop as well: it follows "now").  No fuel that ignores the schedule suffices. *)
Definition R2 (c : nat) : list row := [{| uuid := 1; mtime := c |}; {| uuid := 2; mtime := c |}].
Definition chase : list event := [Modify 1; Modify 2].

Lemma chase_batch c alive : apply_batch chase (R2 c, c, alive) = (R2 (S c), S c, alive).
Proof. reflexivity. Qed.

Lemma chase_page n c u u' :
  1 <= n -> (u = 1 /\ u' = 2 \/ u = 2 /\ u' = 1) ->
  page (R2 (S c)) (FGe c u) n = [{| uuid := u'; mtime := S c |}].
Proof.
  intros Hn Hu.
  assert (Hle : c <=? S c = true) by (apply Nat.leb_le; lia).
  destruct n as [|n]; [lia|].
  unfold page, R2. destruct Hu as [[-> ->]|[-> ->]]; cbn [filter matches mtime uuid]; rewrite Hle; cbn; rewrite firstn_nil; reflexivity.
Qed.

Lemma chase_advance n c u u' vis :
  1 <= n -> (u = 1 /\ u' = 2 \/ u = 2 /\ u' = 1) ->
  advance {| last := Some {| uuid := u; mtime := c |}; ftime := c; exact := false; cur := FGe c u; visited := vis |}
          (page (R2 (S c)) (FGe c u) n)
  = Continue {| last := Some {| uuid := u'; mtime := S c |}; ftime := S c; exact := false;
                cur := FGe (S c) u'; visited := u' :: vis |}.
Proof.
  intros Hn Hu. rewrite (chase_page n c u u' Hn Hu).
  assert (H1 : c =? S c = false) by (apply Nat.eqb_neq; lia).
  assert (H2 : S c =? c = false) by (apply Nat.eqb_neq; lia).
  unfold advance, process. cbn [fold_left]. unfold visit, skip. cbn [last mtime uuid].
  rewrite H1. cbn [andb]. cbn [exact last ftime cur visited lastm lastu mtime uuid length].
  rewrite H2. reflexivity.
Qed.

Lemma chase_loop n : 1 <= n -> forall F m c u vis k alive,
  u = 1 \/ u = 2 -> F <= m ->
  res_of (pages F n nofaults (repeat chase m) (R2 c, c, alive)
            {| last := Some {| uuid := u; mtime := c |}; ftime := c; exact := false; cur := FGe c u; visited := vis |} k)
  = RFuel.
Proof.
  intros Hn. induction F as [|F IH]; intros m c u vis k alive Hu Hm; [reflexivity|].
  destruct m as [|m]; [lia|].
  cbn [repeat pages hd tl]. rewrite chase_batch. cbv beta iota zeta.
  change (is_k (fail_req nofaults) k) with false. cbv iota.
  cbn [cur].
  assert (Hu' : exists u', (u = 1 /\ u' = 2 \/ u = 2 /\ u' = 1)).
  { destruct Hu as [->| ->]; [exists 2|exists 1]; auto. }
  destruct Hu' as [u' Hu'].
  rewrite (chase_advance n c u u' vis Hn Hu').
  match goal with |- context [cb_failed nofaults ?x] => change (cb_failed nofaults x) with false end.
  cbv iota. apply IH; [|lia].
  destruct Hu' as [[_ ->]|[_ ->]]; auto.
Qed.

Theorem no_schedule_independent_fuel : forall F n,
  1 <= n -> res_of (each_collection F n nofaults (repeat chase (F + 2)) (R2 1) 1) = RFuel.
Proof.
  intros F n Hn. destruct F as [|F]; [reflexivity|].
  replace (S F + 2) with (S (S (S F))) by lia.
  unfold each_collection. cbn [repeat hd tl]. rewrite chase_batch. cbv beta iota zeta.
  change (is_k (fail_req nofaults) 0) with false. cbv iota.
  cbn [pages hd tl]. rewrite chase_batch. cbv beta iota zeta.
  change (is_k (fail_req nofaults) 1) with false. cbv iota.
  assert (Hadv : exists u vis,
    (u = 1 \/ u = 2) /\
    advance init (page (R2 3) (cur init) n) =
    Continue {| last := Some {| uuid := u; mtime := 3 |}; ftime := 3; exact := false; cur := FGe 3 u; visited := vis |}).
  { destruct n as [|[|n]]; [lia| |].
    - exists 1, [1]. split; [auto|reflexivity].
    - exists 2, [2; 1]. split; [auto|].
      assert (Hp : page (R2 3) (cur init) (S (S n)) = R2 3).
      { unfold page. cbn. rewrite firstn_nil. reflexivity. }
      rewrite Hp. reflexivity. }
  destruct Hadv as (u & vis & Hu & ->).
  match goal with |- context [cb_failed nofaults ?x] => change (cb_failed nofaults x) with false end.
  cbv iota. change (chase :: repeat chase F) with (repeat chase (S F)).
  apply chase_loop; auto.
Qed.

(* ---------- the request count assumed by the small-scope check is not a bound in general ---------- *)
(* 2*|table|/limit + 4 page requests do not suffice for 7 rows with one timestamp followed by 2 rows with
   another, page size 5 (the smallest table where the formula fails): 8 requests are needed, the formula
   allows 7.  The scan itself is fine (nil, all rows visited, with 8). *)
Definition ex_formula_db : list row :=
  map (fun u => {| uuid := u; mtime := 1 |}) (seq 1 7) ++ [{| uuid := 8; mtime := 2 |}; {| uuid := 9; mtime := 2 |}].
Lemma small_scope_formula_not_general :
  res_of (each_collection (2 * length ex_formula_db / 5 + 4) 5 nofaults [] ex_formula_db 2) = RFuel /\
  quiet_ok ex_formula_db 5 = false /\
  res_of (each_collection 8 5 nofaults [] ex_formula_db 2) = ROk.
Proof. vm_compute. repeat split; reflexivity. Qed.
