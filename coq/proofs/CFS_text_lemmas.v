(* Text-level facts used by the marshal -> load round trip: split/join, decimal print/parse,
   characters produced by manifestEscape. *)
From Coq Require Import List Arith Lia Bool Ascii String NArith ZArith ZifyN ZifyNat ZifyBool.
Import ListNotations.
From AV Require Import lib.Str lib.Path model.CFS_file model.CFS_tree model.CFS_inst model.CFS_bg proofs.CFS_escape_proofs.
From AV Require Export model.CFS_tload.
Local Open Scope string_scope.
Ltac Zify.zify_post_hook ::= Z.div_mod_to_equations.

(* ---------- strings.Split with a one-character separator ---------- *)

Lemma split_acc_nochar c s : forall k, has_char c s = false -> split_acc c s k = [k s].
Proof.
  induction s as [|x r IH]; intros k H; cbn [split_acc]; [reflexivity|].
  cbn [has_char] in H. apply orb_false_iff in H. destruct H as [H1 H2]. rewrite H1. rewrite IH by exact H2. reflexivity.
Qed.

Lemma split_acc_app c a r : forall k, has_char c a = false ->
  split_acc c (a ++ String c r) k = k a :: split_acc c r (fun x => x).
Proof.
  induction a as [|x a IH]; intros k H; cbn [append split_acc].
  - rewrite Ascii.eqb_refl. reflexivity.
  - cbn [has_char] in H. apply orb_false_iff in H. destruct H as [H1 H2]. rewrite H1. rewrite IH by exact H2. reflexivity.
Qed.

(* splitting a join gives the pieces back, provided no piece contains the separator *)
Lemma split_join c (l : list string) : l <> [] -> Forall (fun s => has_char c s = false) l ->
  split_char c (join_with (String c "") l) = l.
Proof.
  unfold split_char. induction l as [|a l IH]; intros Hne Hall; [contradiction|].
  inversion Hall as [|? ? Ha Hl]; subst. destruct l as [|b l'].
  - cbn [join_with]. apply split_acc_nochar. exact Ha.
  - cbn [join_with]. cbn [append]. rewrite split_acc_app by exact Ha. f_equal. apply IH; [discriminate|exact Hl].
Qed.

Lemma has_char_app c a b : has_char c (a ++ b) = has_char c a || has_char c b.
Proof. induction a as [|x a IH]; cbn [append has_char]; [reflexivity|]. rewrite IH, orb_assoc. reflexivity. Qed.

(* ---------- manifestEscape produces no separator characters ---------- *)
Lemma oct3_chars n c : (n < 256)%N -> (N_of_ascii c < 48)%N -> has_char c (oct3 n) = false.
Proof.
  intros Hn Hc. unfold oct3. cbn [has_char].
  assert (H : forall x, (x < 8)%N -> Ascii.eqb (ascii_of_N (48 + x)) c = false).
  { intros x Hx. apply Ascii.eqb_neq. intros E. subst c. rewrite N_ascii_embedding in Hc by lia. lia. }
  rewrite !H by lia. reflexivity.
Qed.

Lemma escape_no_low s c : (N_of_ascii c <= 32)%N -> has_char c (manifest_escape s) = false.
Proof.
  intros Hc. induction s as [|x r IH]; [reflexivity|]. rewrite escape_cons.
  destruct (special x) eqn:E.
  - cbn [has_char]. rewrite has_char_app, IH, orb_false_r.
    rewrite oct3_chars; [|apply N_ascii_bounded|lia].
    rewrite orb_false_r. apply Ascii.eqb_neq. intros E2. subst c. cbn in Hc. lia.
  - cbn [has_char]. rewrite IH, orb_false_r. apply Ascii.eqb_neq. intros E2. subst x.
    unfold special in E. apply orb_false_iff in E. destruct E as [E _]. apply orb_false_iff in E. destruct E as [E _].
    apply N.leb_gt in E. lia.
Qed.

Lemma escape_no_colon s : has_char ":"%char (manifest_escape s) = false.
Proof.
  induction s as [|x r IH]; [reflexivity|]. rewrite escape_cons.
  destruct (special x) eqn:E.
  - cbn [has_char]. rewrite has_char_app, IH, orb_false_r.
    assert (Ho : forall n, (n < 256)%N -> has_char ":"%char (oct3 n) = false).
    { intros n Hn. unfold oct3. cbn [has_char].
      assert (H : forall y, (y < 8)%N -> Ascii.eqb (ascii_of_N (48 + y)) ":"%char = false).
      { intros y Hy. apply Ascii.eqb_neq. intros E2.
        assert (N_of_ascii (ascii_of_N (48 + y)) = 58%N) by (rewrite E2; reflexivity).
        rewrite N_ascii_embedding in H by lia. lia. }
      rewrite !H by lia. reflexivity. }
    rewrite Ho by apply N_ascii_bounded. reflexivity.
  - cbn [has_char]. rewrite IH, orb_false_r. apply Ascii.eqb_neq. intros E2. subst x. discriminate E.
Qed.

(* ---------- decimal ---------- *)
Lemma parse_dec_aux_app a b acc : (forall c, has_char c a = true -> (48 <=? N_of_ascii c)%N && (N_of_ascii c <=? 57)%N = true) ->
  parse_dec_aux (a ++ b) acc = match parse_dec_aux a acc with Some v => parse_dec_aux b v | None => None end.
Proof.
  revert acc. induction a as [|x a IH]; intros acc H; cbn [append parse_dec_aux]; [reflexivity|].
  assert (Hx : (48 <=? N_of_ascii x)%N && (N_of_ascii x <=? 57)%N = true).
  { apply H. cbn [has_char]. rewrite Ascii.eqb_refl. reflexivity. }
  rewrite Hx. apply IH. intros c Hc. apply H. cbn [has_char]. rewrite Hc, orb_true_r. reflexivity.
Qed.

Lemma str_app_assoc (a b c : string) : ((a ++ b) ++ c = a ++ (b ++ c))%string.
Proof. induction a as [|x a IH]; cbn [append]; [reflexivity|]. rewrite IH. reflexivity. Qed.

Definition digit_char (d : N) : ascii := ascii_of_N (48 + d).
Lemma parse_digit d r acc : (d < 10)%N ->
  parse_dec_aux (String (digit_char d) r) acc = parse_dec_aux r (acc * 10 + N.to_nat d).
Proof.
  intros Hd. cbn [parse_dec_aux]. unfold digit_char. rewrite N_ascii_embedding by lia.
  replace ((48 <=? 48 + d)%N && (48 + d <=? 57)%N) with true by (symmetry; apply andb_true_intro; split; apply N.leb_le; lia).
  f_equal. f_equal. lia.
Qed.

(* dec_aux prepends the decimal digits of n; parsing them multiplies the accumulator accordingly *)
Lemma dec_aux_spec : forall fuel n acc, (n < 2 ^ N.of_nat fuel)%N -> (0 < fuel)%nat ->
  exists ds k, dec_aux fuel n acc = (ds ++ acc)%string /\ ds <> "" /\
    (forall c, has_char c ds = true -> (48 <=? N_of_ascii c)%N && (N_of_ascii c <=? 57)%N = true) /\
    forall r a0, parse_dec_aux (ds ++ r) a0 = parse_dec_aux r (a0 * 10 ^ k + N.to_nat n).
Proof.
  induction fuel as [|fuel IH]; intros n acc Hn Hf; [lia|]. cbn [dec_aux].
  assert (Hd : (n mod 10 < 10)%N) by (apply N.mod_lt; lia).
  destruct (N.eqb_spec (n / 10) 0) as [Hz|Hnz].
  - exists (String (digit_char (n mod 10)) ""), 1. cbn [append]. split; [reflexivity|]. split; [discriminate|]. split.
    + intros c Hc. cbn [has_char] in Hc. rewrite orb_false_r in Hc. apply Ascii.eqb_eq in Hc. subst c.
      unfold digit_char. rewrite N_ascii_embedding by lia. apply andb_true_intro; split; apply N.leb_le; lia.
    + intros r a0. rewrite parse_digit by exact Hd. f_equal. assert (n mod 10 = n)%N by lia. rewrite H. lia.
  - assert (Hfuel : (0 < fuel)%nat).
    { destruct fuel; [|lia]. cbn in Hn. assert (n = 0)%N by lia. subst n. cbn in Hnz. contradiction. }
    assert (Hn' : (n / 10 < 2 ^ N.of_nat fuel)%N).
    { rewrite Nnat.Nat2N.inj_succ, N.pow_succ_r' in Hn. lia. }
    destruct (IH (n / 10)%N (String (ascii_of_N (48 + n mod 10)) acc) Hn' Hfuel) as (ds & k & E & Hne & Hdig & Hp).
    exists (ds ++ String (digit_char (n mod 10)) "")%string, (S k). split; [|split; [|split]].
    + rewrite E. rewrite str_app_assoc. reflexivity.
    + destruct ds; [contradiction|discriminate].
    + intros c Hc. rewrite has_char_app in Hc. apply orb_true_iff in Hc. destruct Hc as [Hc|Hc]; [apply Hdig; exact Hc|].
      cbn [has_char] in Hc. rewrite orb_false_r in Hc. apply Ascii.eqb_eq in Hc. subst c.
      unfold digit_char. rewrite N_ascii_embedding by lia. apply andb_true_intro; split; apply N.leb_le; lia.
    + intros r a0. rewrite str_app_assoc. cbn [append]. rewrite Hp. rewrite parse_digit by exact Hd. f_equal.
      rewrite Nat.pow_succ_r'. 
      assert (N.to_nat n = 10 * N.to_nat (n / 10) + N.to_nat (n mod 10))%nat by lia. lia.
Qed.

Theorem parse_dec_nat_dec n : parse_dec (nat_dec n) = Some n.
Proof.
  unfold nat_dec, dec. set (m := N.of_nat n).
  assert (Hlt : (m < 2 ^ N.of_nat (S (N.to_nat (N.log2 m))))%N).
  { rewrite Nnat.Nat2N.inj_succ, Nnat.N2Nat.id. destruct (N.eq_dec m 0) as [->|Hm]; [cbn; lia|].
    apply N.log2_spec. lia. }
  destruct (dec_aux_spec (S (N.to_nat (N.log2 m))) m "" Hlt ltac:(lia)) as (ds & k & E & Hne & _ & Hp).
  rewrite E. unfold parse_dec. destruct (ds ++ "")%string eqn:Eds; [destruct ds; [contradiction|discriminate]|].
  rewrite <- Eds. rewrite Hp. cbn [parse_dec_aux]. f_equal. unfold m. lia.
Qed.

Lemma nat_dec_digits n c : has_char c (nat_dec n) = true -> (48 <=? N_of_ascii c)%N && (N_of_ascii c <=? 57)%N = true.
Proof.
  unfold nat_dec, dec. set (m := N.of_nat n).
  assert (Hlt : (m < 2 ^ N.of_nat (S (N.to_nat (N.log2 m))))%N).
  { rewrite Nnat.Nat2N.inj_succ, Nnat.N2Nat.id. destruct (N.eq_dec m 0) as [->|Hm]; [cbn; lia|].
    apply N.log2_spec. lia. }
  destruct (dec_aux_spec (S (N.to_nat (N.log2 m))) m "" Hlt ltac:(lia)) as (ds & k & E & _ & Hd & _).
  rewrite E. rewrite has_char_app. cbn [has_char]. rewrite orb_false_r. apply Hd.
Qed.
