(* C17 — "mounts below src": walkMountsBelow visits exactly the mounts whose mount point is src + "/" + rel (a path
   component boundary), saves each under dest + "/" + rel, and a mount point that merely extends the NAME of src
   (/ctr/outdir/foobar for src = /ctr/outdir/foo, /ctr/outdir2 for the output directory) is not below it — in the
   copier's string test and in the specification's component-wise test alike. *)
From Coq Require Import NArith Lia List Bool Ascii String Arith.
From AV Require Import lib.Str model.C10_manifest model.C10_ranges model.C10_fs model.C10_gomanifest model.C17_model
  proofs.C17_proofs.
Import ListNotations.
Local Open Scope string_scope.

(* ---------- strings ---------- *)
Lemma hp_app p : forall x, has_prefix p (p ++ x) = true.
Proof. induction p as [|a p IH]; intros x; [destruct x; reflexivity|]. cbn. rewrite Ascii.eqb_refl. apply IH. Qed.
Lemma hp_inv : forall p s, has_prefix p s = true -> exists x, s = p ++ x.
Proof.
  induction p as [|a p IH]; intros s H; [exists s; reflexivity|]. destruct s as [|b s]; [discriminate|]. cbn in H.
  apply andb_prop in H. destruct H as [H1 H2]. apply Ascii.eqb_eq in H1. subst b. destruct (IH s H2) as (x & ->).
  exists x. reflexivity.
Qed.
Lemma app_assoc_s (a b c : string) : (a ++ b) ++ c = a ++ b ++ c.
Proof. induction a as [|x a IH]; [reflexivity|]. cbn. rewrite IH. reflexivity. Qed.
Lemma app_cancel_l (a : string) : forall x y, a ++ x = a ++ y -> x = y.
Proof. induction a as [|c a IH]; intros x y H; [exact H|]. cbn in H. injection H as H. apply IH. exact H. Qed.
Lemma drop_len_app a : forall x, drop (String.length a) (a ++ x) = x.
Proof. induction a as [|c a IH]; intros x; [destruct x; reflexivity|]. cbn. apply IH. Qed.

(* mnt lies below src: a separator, then a relative name *)
Definition below_path (src mnt : string) : Prop := exists rel, mnt = src ++ "/" ++ rel.

Lemma below_reflect src mnt : has_prefix (src ++ "/") mnt = true <-> below_path src mnt.
Proof.
  unfold below_path. split.
  - intros H. destruct (hp_inv _ _ H) as (x & ->). exists x. apply app_assoc_s.
  - intros (rel & ->). rewrite <- app_assoc_s. apply hp_app.
Qed.

(* a name extension is not below: src ++ ext with ext not starting with "/" *)
Lemma name_extension_not_below src ext : has_prefix "/" ext = false -> has_prefix (src ++ "/") (src ++ ext) = false.
Proof.
  intros H. destruct (has_prefix (src ++ "/") (src ++ ext)) eqn:E; [|reflexivity].
  apply below_reflect in E. destruct E as (rel & E). apply app_cancel_l in E. subst ext. cbn in H. discriminate.
Qed.

Lemma dest_of_mount_below src rel dest : dest ++ drop (String.length src) (src ++ "/" ++ rel) = dest ++ "/" ++ rel.
Proof. rewrite drop_len_app. reflexivity. Qed.

(* ---------- walkMountsBelow ---------- *)
Definition visited_below (cf : config) (src : string) : list (string * mount) :=
  filter (fun rm => has_prefix (src ++ "/") (fst rm) && negb (copy_regular (snd rm))) (c_mounts cf).

Lemma bind_ok_id (r : wres) : bind r (fun st => ok st) = r.
Proof. destruct r as [st []]; reflexivity. Qed.

Theorem walk_mounts_below_exact cf wm st dest src :
  walk_mounts_below cf wm st dest src =
  fold_left (fun r rm => bind r (fun st => wm st (dest ++ drop (String.length src) (fst rm)) (fst rm)))
            (visited_below cf src) (ok st).
Proof.
  unfold walk_mounts_below, visited_below. generalize (ok st) as r.
  induction (c_mounts cf) as [|rm l IH]; intros r; [reflexivity|].
  cbn [fold_left filter].
  destruct (has_prefix (src ++ "/") (fst rm)) eqn:Hp; cbn [andb].
  - destruct (copy_regular (snd rm)) eqn:Hc; cbn [negb].
    + rewrite bind_ok_id. apply IH.
    + cbn [fold_left]. apply IH.
  - rewrite bind_ok_id. apply IH.
Qed.

Theorem visited_below_spec cf src rm :
  In rm (visited_below cf src) <->
  In rm (c_mounts cf) /\ below_path src (fst rm) /\ copy_regular (snd rm) = false.
Proof.
  unfold visited_below. rewrite filter_In, andb_true_iff, negb_true_iff, below_reflect. tauto.
Qed.

(* mounts that are not below src (siblings whose name extends src's, mounts elsewhere) and mounts copied as regular
   files contribute nothing *)
Theorem only_mounts_below_count cf wm st dest src :
  (forall rm, In rm (c_mounts cf) -> copy_regular (snd rm) = true \/ ~ below_path src (fst rm)) ->
  walk_mounts_below cf wm st dest src = ok st.
Proof.
  intros H. rewrite walk_mounts_below_exact.
  assert (E : visited_below cf src = []).
  { destruct (visited_below cf src) as [|rm l] eqn:E; [reflexivity|]. exfalso.
    assert (Hin : In rm (visited_below cf src)) by (rewrite E; left; reflexivity).
    apply visited_below_spec in Hin. destruct Hin as (Hin & Hb & Hc).
    destruct (H rm Hin) as [H1|H1]; [congruence|exact (H1 Hb)]. }
  rewrite E. reflexivity.
Qed.

(* ---------- the specification's test is component-wise; it agrees ---------- *)
Lemma split_on_nonnil c s : split_on c s <> [].
Proof. destruct s as [|a r]; cbn; [discriminate|]. destruct (Ascii.eqb a c); [discriminate|]. destruct (split_on c r); discriminate. Qed.
Lemma split_on_sep c a : forall b, split_on c (a ++ String c b) = (split_on c a ++ split_on c b)%list.
Proof.
  induction a as [|x a IH]; intros b.
  - cbn. rewrite Ascii.eqb_refl. reflexivity.
  - cbn [append split_on]. destruct (Ascii.eqb x c); [rewrite IH; reflexivity|].
    rewrite IH. destruct (split_on c a) as [|h t] eqn:E; [exfalso; exact (split_on_nonnil _ _ E)|]. reflexivity.
Qed.
Lemma split_on_app c a : forall b,
  split_on c (a ++ b) =
  (removelast (split_on c a) ++ append (last (split_on c a) "") (hd "" (split_on c b)) :: tl (split_on c b))%list.
Proof.
  induction a as [|x a IH]; intros b.
  - cbn. destruct (split_on c b) as [|h t] eqn:E; [exfalso; exact (split_on_nonnil _ _ E)|]. reflexivity.
  - cbn [append split_on]. rewrite IH.
    destruct (split_on c a) as [|h t] eqn:E; [exfalso; exact (split_on_nonnil _ _ E)|].
    destruct (Ascii.eqb x c).
    + reflexivity.
    + destruct t as [|t1 t2]; reflexivity.
Qed.
Lemma split_on_hd_nonempty c ext : ext <> "" -> has_prefix (String c "") ext = false -> hd "" (split_on c ext) <> "".
Proof.
  destruct ext as [|a r]; [congruence|]. intros _ H. cbn in H. rewrite andb_true_r in H. cbn [split_on].
  rewrite Ascii.eqb_sym, H. destruct (split_on c r); cbn; discriminate.
Qed.

Lemma is_prefix_refl_app a : forall b, is_prefix a (a ++ b)%list = true.
Proof. induction a as [|x a IH]; intros b; [reflexivity|]. cbn. rewrite String.eqb_refl. apply IH. Qed.
Lemma is_prefix_app_l f : forall a b, is_prefix (f ++ a)%list (f ++ b)%list = is_prefix a b.
Proof. induction f as [|x f IH]; intros a b; [reflexivity|]. cbn. rewrite String.eqb_refl. apply IH. Qed.

Definition nonempty (c : string) : bool := negb (String.eqb c "").
Lemma abs_comps_filter s : abs_comps s = filter nonempty (comps_of s).
Proof. reflexivity. Qed.

(* below at the string level implies below at the component level (what [locate], [above_mount], [child_names_at] test) *)
Theorem below_is_component_prefix src rel :
  abs_comps (src ++ "/" ++ rel) = (abs_comps src ++ abs_comps rel)%list /\
  is_prefix (abs_comps src) (abs_comps (src ++ "/" ++ rel)) = true.
Proof.
  assert (E : abs_comps (src ++ "/" ++ rel) = (abs_comps src ++ abs_comps rel)%list).
  { unfold abs_comps, comps_of. change ("/" ++ rel) with (String c_slash rel). rewrite split_on_sep, filter_app. reflexivity. }
  split; [exact E|]. rewrite E. apply is_prefix_refl_app.
Qed.

Lemma app_nil_r_s (a : string) : a ++ "" = a.
Proof. induction a as [|c a IH]; [reflexivity|]. cbn. rewrite IH. reflexivity. Qed.
Lemma app_ne_self (n e : string) : e <> "" -> String.eqb n (n ++ e) = false.
Proof.
  intros He. apply String.eqb_neq. intros H. apply He. rewrite <- (app_nil_r_s n) in H at 1.
  apply app_cancel_l in H. symmetry. exact H.
Qed.

(* a mount point that extends the last name of src is no component-wise descendant of src either *)
Theorem name_extension_not_component_prefix src ext :
  last (comps_of src) "" <> "" -> ext <> "" -> has_prefix "/" ext = false ->
  is_prefix (abs_comps src) (abs_comps (src ++ ext)) = false.
Proof.
  intros Hn He Hs. unfold abs_comps, comps_of in *.
  rewrite split_on_app.
  pose proof (split_on_hd_nonempty c_slash ext He Hs) as He1.
  set (S := split_on c_slash src) in *. set (e1 := hd "" (split_on c_slash ext)) in *.
  set (R := tl (split_on c_slash ext)).
  assert (HS : S = (removelast S ++ [last S ""])%list) by (apply app_removelast_last, split_on_nonnil).
  rewrite HS at 1. rewrite !filter_app. cbn [filter].
  apply String.eqb_neq in Hn. rewrite Hn. cbn [negb].
  assert (Hne : String.eqb (last S "" ++ e1) "" = false).
  { apply String.eqb_neq. intros H. destruct (last S ""); [apply String.eqb_neq in Hn; congruence|discriminate]. }
  rewrite Hne. cbn [negb]. rewrite is_prefix_app_l. cbn [is_prefix].
  rewrite app_ne_self by exact He1. reflexivity.
Qed.

(* every mount that is visited is saved below dest, under its name relative to src *)
Theorem visited_saved_under_dest cf src dest rm :
  In rm (visited_below cf src) ->
  exists rel, fst rm = src ++ "/" ++ rel /\ dest ++ drop (String.length src) (fst rm) = dest ++ "/" ++ rel.
Proof.
  intros H. apply visited_below_spec in H. destruct H as (_ & (rel & E) & _). exists rel. split; [exact E|].
  rewrite E. apply dest_of_mount_below.
Qed.

(* ---------- witness: foo/a.txt, link -> foo, a collection mounted at /ctr/outdir/foobar; another at /ctr/outdir2 ---------- *)
Definition collm (text : string) : mount :=
  {| m_kind := "collection"; m_text := text; m_path := ""; m_writable := false; m_exclude := false |}.
Definition nx_text : string := ". acbd18db4cc2f85cedef654fccc4a4d8+3 0:3:x.txt
".
Definition nx_store : store := fun h => if String.eqb h "acbd18db4cc2f85cedef654fccc4a4d8" then "foo" else "".
Definition nx_cfg : config :=
  mk (Dir [("foo", Dir [("a.txt", File "aaa")]); ("foobar", Dir []); ("link", Link "foo")])
     [("/ctr/outdir/foobar", collm nx_text); ("/ctr/outdir2", collm nx_text)] [].
Definition nx_listing : listing :=
  [("./foo", true, ""); ("./foo/a.txt", false, "aaa"); ("./foobar", true, ""); ("./foobar/x.txt", false, "foo");
   ("./link", true, ""); ("./link/a.txt", false, "aaa")].
Lemma nx_witness :
  resolve nx_cfg nx_store = SpecOk nx_listing /\ fst (copy_model nx_cfg nx_store) = ROk nx_listing /\
  visited_below nx_cfg "/ctr/outdir/foo" = [] /\
  map fst (visited_below nx_cfg "/ctr/outdir") = ["/ctr/outdir/foobar"].
Proof. repeat split; vm_compute; reflexivity. Qed.

(* ---------- inside the walk ---------- *)
Definition nothing_below (cf : config) (src : string) : Prop :=
  forall rm, In rm (c_mounts cf) -> copy_regular (snd rm) = true \/ ~ below_path src (fst rm).

(* walkHostFS(dest, src, _, includeMounts): when no mount point is src + "/" + rel, mounts play no role — whatever
   other mount points have src as a string prefix *)
Theorem host_walk_ignores_mounts_not_below cf b d st dest src :
  nothing_below cf src ->
  walk cf b (S d) st dest src false true = walk cf b (S d) st dest src false false.
Proof.
  intros H. rewrite !walk_unfold. unfold walk_body.
  rewrite (only_mounts_below_count cf _ st dest src H). reflexivity.
Qed.

(* walkMount(dest, src, _, true) for src inside a collection / excluded / unsupported mount: only that mount counts *)
Theorem mount_walk_ignores_mounts_not_below cf b d st dest src below rm :
  find_mount cf src = Some rm -> under_secret cf src (String.length (fst rm)) = false ->
  negb (m_exclude (snd rm)) && String.eqb (m_kind (snd rm)) "tmp" = false ->
  nothing_below cf src ->
  walk cf b (S d) st dest src true below = walk_mount_static cf st dest src rm.
Proof.
  intros Hf Hs Hk H. rewrite walk_unfold. unfold walk_body. rewrite Hf, Hs, Hk.
  destruct (walk_mount_static cf st dest src rm) as [st' []]; cbn [bind]; try reflexivity.
  destruct below; [|reflexivity]. apply only_mounts_below_count. exact H.
Qed.

Lemma nx_nothing_below : nothing_below nx_cfg "/ctr/outdir/foo".
Proof.
  intros rm Hin. right. intros Hb. apply below_reflect in Hb.
  cbn in Hin. destruct Hin as [<-|[<-|[<-|[]]]]; vm_compute in Hb; discriminate.
Qed.
