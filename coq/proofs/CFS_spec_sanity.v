(* The plain byte-array filesystem (the specification of C08/C09/C13) is itself the "ordinary
   in-memory filesystem" one expects: a few sanity theorems about the Spec instance, so that the
   refinement theorems are not relative to a spec that shares a blunder with the code. *)
From Coq Require Import List Arith Lia Bool String.
Import ListNotations.
From AV Require Import lib.Str lib.Path model.CFS_file model.CFS_tree model.CFS_inst.
Notation length := List.length.

(* what was written is what a read at the same offset returns *)
Theorem spec_write_then_read (f : list byte) p d :
  let '(f', _) := s_write f p d in
  let '(r, _, _) := s_read f' (length d) p in r = d.
Proof.
  unfold s_write, s_read. cbn.
  set (f1 := f ++ zeros (p - length f)).
  assert (Hl : p <= length f1) by (unfold f1, zeros; rewrite app_length, repeat_length; lia).
  rewrite skipn_app. rewrite skipn_all2 by (rewrite firstn_length; lia).
  rewrite firstn_length. replace (p - Nat.min p (length f1)) with 0 by lia. cbn [skipn app].
  rewrite firstn_app, firstn_all, Nat.sub_diag. cbn [firstn]. rewrite app_nil_r. reflexivity.
Qed.

(* a write changes nothing before its offset and nothing after its end *)
Theorem spec_write_frame (f : list byte) p d :
  let '(f', _) := s_write f p d in
  firstn p f' = firstn p (f ++ zeros (p - length f)) /\
  skipn (p + length d) f' = skipn (p + length d) (f ++ zeros (p - length f)).
Proof.
  unfold s_write. cbn. set (f1 := f ++ zeros (p - length f)).
  assert (Hl : p <= length f1) by (unfold f1, zeros; rewrite app_length, repeat_length; lia).
  split.
  - rewrite firstn_app, firstn_firstn, Nat.min_id, firstn_length. replace (p - Nat.min p (length f1)) with 0 by lia.
    cbn [firstn]. rewrite app_nil_r. reflexivity.
  - rewrite skipn_app, firstn_length. rewrite skipn_all2 by (rewrite firstn_length; lia). cbn [app].
    replace (p + length d - Nat.min p (length f1)) with (length d) by lia.
    rewrite skipn_app, skipn_all, Nat.sub_diag. reflexivity.
Qed.

Theorem spec_trunc_length (f : list byte) n : length (s_trunc f n) = n.
Proof. unfold s_trunc, zeros. rewrite app_length, firstn_length, repeat_length. lia. Qed.

Theorem spec_read_is_slice (f : list byte) n p :
  let '(d, p', eof) := s_read f n p in
  d = firstn n (skipn p f) /\ p' = p + length d /\ (eof = true <-> length f - p < n).
Proof. unfold s_read. split; [reflexivity|]. split; [reflexivity|]. apply Nat.ltb_lt. Qed.

(* a failing operation changes nothing the filesystem can show: every error result leaves the state
   as it was, except that a refused read/write through a DIRECTORY handle resets that handle's position *)
Theorem spec_mkdir_error_unchanged s name e : mkdir Spec s name = (fst (mkdir Spec s name), Err e) -> fst (mkdir Spec s name) = s.
Proof.
  unfold mkdir. destruct (path_split name) as [d b]. destruct (rlookup Spec s d) as [n|x]; [|reflexivity].
  destruct (child Spec s n b) as [[c|]|x]; try reflexivity.
  destruct (add_ino Spec s _). cbn. discriminate.
Qed.
Theorem spec_rename_error_unchanged s a b e : snd (rename Spec s a b) = Err e -> fst (rename Spec s a b) = s.
Proof.
  unfold rename. destruct (path_split a) as [od on]. destruct (special_name on); [reflexivity|].
  destruct (rlookup Spec s od); [|reflexivity]. destruct (path_split b) as [nd nn].
  destruct (_ || _); [reflexivity|]. destruct (rlookup Spec s nd); [|reflexivity].
  destruct (ents_find _ on); [|reflexivity]. destruct (mem_nat _ _); [reflexivity|].
  destruct (_ && _); [cbn; discriminate|].
  destruct (ents_find _ _) as [ex|]; [destruct (is_dir Spec s ex); [reflexivity|]|]; cbn; discriminate.
Qed.
Theorem spec_remove_error_unchanged s name e : snd (remove Spec s name) = Err e -> fst (remove Spec s name) = s.
Proof.
  unfold remove. destruct (path_split _) as [d b]. destruct (special_name b); [reflexivity|].
  destruct (rlookup Spec s d) as [n|x]; [|reflexivity]. destruct (i_node Spec (get_ino Spec s n)) as [f|ents]; [reflexivity|].
  destruct (ents_find ents b); [|reflexivity]. destruct (_ && _); [reflexivity|]. cbn. discriminate.
Qed.

(* rename to the same name in the same directory is a successful no-op (the defect F13 made it delete) *)
Theorem spec_rename_self_noop s d n od oi :
  path_split (d ++ n)%string = (d, n) -> special_name n = false ->
  rlookup Spec s d = Ok od -> ents_find (dir_ents Spec s od) n = Some oi ->
  mem_nat oi (ancestors Spec s (length (inodes Spec s)) od ++ ancestors Spec s (length (inodes Spec s)) od) = false ->
  rename Spec s (d ++ n)%string (d ++ n)%string = (s, Ok tt).
Proof.
  intros Hps Hsp Hl Hf Hm. unfold rename. rewrite Hps. cbn iota.
  assert (E : (String.eqb n "." || String.eqb n "..")%bool = false).
  { unfold special_name in Hsp. apply orb_false_iff in Hsp. destruct Hsp as [H1 H2]. apply orb_false_iff in H1. destruct H1 as [_ H1].
    rewrite H1, H2. reflexivity. }
  assert (E0 : String.eqb n "" = false).
  { unfold special_name in Hsp. apply orb_false_iff in Hsp. destruct Hsp as [H1 _]. apply orb_false_iff in H1. tauto. }
  destruct (special_name n); [discriminate|].
  destruct (rlookup Spec s d) as [od'|x]; [|discriminate]. injection Hl as ->.
  rewrite E, E0, Hf, Hm, Nat.eqb_refl, String.eqb_refl. reflexivity.
Qed.
