(* C20 — proofs about model/C20_model.v *)
From Coq Require Import NArith ZArith List Ascii String Bool Lia Permutation.
From AV Require Import lib.Str lib.SortPerm model.C20_model.
Import ListNotations.
Local Open Scope string_scope.

Lemma mem_In x l : mem x l = true <-> In x l.
Proof.
  unfold mem. rewrite existsb_exists. split.
  - intros (y & Hy & E). apply String.eqb_eq in E. subst. exact Hy.
  - intros H. exists x. split; [exact H|apply String.eqb_refl].
Qed.
Lemma mem_false x l : mem x l = false <-> ~ In x l.
Proof. rewrite <- mem_In. destruct (mem x l); split; congruence. Qed.

Lemma filter_length_le {A} (p : A -> bool) l : List.length (filter p l) <= List.length l.
Proof. induction l as [|a l IH]; cbn [filter List.length]; [lia|]. destruct (p a); cbn [List.length]; lia. Qed.
Lemma filter_length_lt {A} (p : A -> bool) l x : In x l -> p x = false -> List.length (filter p l) < List.length l.
Proof.
  induction l as [|a l IH]; intros Hin Hp; [contradiction|]. cbn [filter List.length].
  destruct Hin as [->|Hin].
  - rewrite Hp. pose proof (filter_length_le p l). lia.
  - specialize (IH Hin Hp). destruct (p a); cbn [List.length]; lia.
Qed.

Section Loop.
Variable cfg : config.
Variable page : string -> nat -> list string -> answer.

(* progress => todo shrinks *)
Lemma progress_shrinks (todo done : list string) :
  existsb (fun u => mem u todo) done = true ->
  List.length (filter (fun u => negb (mem u done)) todo) < List.length todo.
Proof.
  intros H. apply existsb_exists in H. destruct H as (u & Hu & Hm). apply mem_In in Hm.
  apply (filter_length_lt _ todo u Hm). apply negb_false_iff. apply mem_In. exact Hu.
Qed.

(* terminates: |todo| + 1 units of fuel always suffice, and at most |todo| calls are made *)
Lemma cloop_fuel fuel : forall c todo n, List.length todo < fuel ->
  snd (cloop page fuel c todo n) <> CFuel /\ List.length (fst (cloop page fuel c todo n)) <= List.length todo.
Proof.
  induction fuel as [|f IH]; intros c todo n Hf; [lia|]. cbn [cloop].
  destruct todo as [|t todo']; [cbn; split; [discriminate|lia]|].
  cbn [is_nil]. set (td := t :: todo') in *.
  destruct (page c n td) as [code|its]; [cbn; split; [discriminate|lia]|].
  destruct its as [|i its]; [cbn; split; [discriminate|lia]|]. cbn [is_nil].
  destruct (existsb (fun u => mem u td) (uuids (i :: its))) eqn:Hp; cbn [negb]; [|cbn; split; [discriminate|lia]].
  pose proof (progress_shrinks _ _ Hp) as Hs.
  specialize (IH c (filter (fun u => negb (mem u (uuids (i :: its)))) td) (S n)).
  destruct (cloop page f c _ (S n)) as [tr st]. cbn [fst snd] in *.
  destruct IH as [A B]; [lia|]. split; [exact A|]. cbn [List.length]. lia.
Qed.
End Loop.

Theorem crun_terminates cfg page c todo :
  snd (crun cfg page c todo) <> CFuel /\ List.length (fst (crun cfg page c todo)) <= List.length todo.
Proof.
  unfold crun. destruct (has_backend cfg c).
  - apply cloop_fuel. lia.
  - cbn. split; [discriminate|lia].
Qed.

(* ---------- the batch loop as a relation (one constructor per exit of the Go loop body) ---------- *)
Section LoopRel.
Variable page : string -> nat -> list string -> answer.

Inductive loop (c : string) : list string -> nat -> trace -> cstatus -> Prop :=
| L_done n : loop c [] n [] CDone
| L_err todo n code : todo <> [] -> page c n todo = AErr code -> loop c todo n [(todo, AErr code)] (CFail 502)
| L_empty todo n : todo <> [] -> page c n todo = AItems [] -> loop c todo n [(todo, AItems [])] CDone
| L_stuck todo n its : todo <> [] -> page c n todo = AItems its -> its <> [] ->
    existsb (fun u => mem u todo) (uuids its) = false -> loop c todo n [(todo, AItems its)] (CFail 502)
| L_step todo n its tr st : todo <> [] -> page c n todo = AItems its -> its <> [] ->
    existsb (fun u => mem u todo) (uuids its) = true ->
    loop c (filter (fun u => negb (mem u (uuids its))) todo) (S n) tr st ->
    loop c todo n ((todo, AItems its) :: tr) st.

Lemma cloop_loop fuel : forall c todo n, List.length todo < fuel ->
  loop c todo n (fst (cloop page fuel c todo n)) (snd (cloop page fuel c todo n)).
Proof.
  induction fuel as [|f IH]; intros c todo n Hf; [lia|]. cbn [cloop].
  destruct todo as [|t todo']; [cbn; constructor|].
  cbn [is_nil]. set (td := t :: todo') in *. assert (Hne : td <> []) by discriminate.
  destruct (page c n td) as [code|its] eqn:Hp; [cbn; apply L_err; assumption|].
  destruct its as [|i its]; [cbn; apply L_empty; assumption|]. cbn [is_nil].
  destruct (existsb (fun u => mem u td) (uuids (i :: its))) eqn:Hpr; cbn [negb].
  - pose proof (progress_shrinks _ _ Hpr) as Hs.
    specialize (IH c (filter (fun u => negb (mem u (uuids (i :: its)))) td) (S n)).
    destruct (cloop page f c _ (S n)) as [tr st]. cbn [fst snd] in *.
    apply L_step; try assumption; [discriminate|]. apply IH. lia.
  - cbn. apply L_stuck; try assumption. discriminate.
Qed.

Definition tr_uuids (tr : trace) : list string := flat_map (fun e => uuids (page_items (snd e))) tr.

(* an error answer, or a non-empty answer without any requested uuid, ends the goroutine with 502 *)
Lemma loop_err c todo n tr st : loop c todo n tr st ->
  forall b code, In (b, AErr code) tr -> st = CFail 502.
Proof.
  induction 1 as [n|todo n code Hne Hp|todo n Hne Hp|todo n its Hne Hp Hi Hpr|todo n its tr st Hne Hp Hi Hpr Hl IH]; intros b cd Hin.
  - destruct Hin.
  - reflexivity.
  - destruct Hin as [Hin|[]]. discriminate.
  - reflexivity.
  - destruct Hin as [Hin|Hin]; [discriminate|]. eapply IH; exact Hin.
Qed.
Lemma loop_stuck c todo n tr st : loop c todo n tr st ->
  forall b its, In (b, AItems its) tr -> its <> [] -> existsb (fun u => mem u b) (uuids its) = false -> st = CFail 502.
Proof.
  induction 1 as [n|todo n code Hne Hp|todo n Hne Hp|todo n its Hne Hp Hi Hpr|todo n its tr st Hne Hp Hi Hpr Hl IH]; intros b its' Hin Hn Hs.
  - destruct Hin.
  - reflexivity.
  - destruct Hin as [Hin|[]]. injection Hin as _ <-. congruence.
  - reflexivity.
  - destruct Hin as [Hin|Hin]; [injection Hin as <- <-; congruence|]. eapply IH; eassumption.
Qed.
(* every batch is a non-empty part of the goroutine's todo set *)
Lemma loop_batches c todo n tr st : loop c todo n tr st ->
  forall b a, In (b, a) tr -> b <> [] /\ incl b todo.
Proof.
  induction 1 as [n|todo n code Hne Hp|todo n Hne Hp|todo n its Hne Hp Hi Hpr|todo n its tr st Hne Hp Hi Hpr Hl IH]; intros b a Hin.
  - destruct Hin.
  - destruct Hin as [Hin|[]]. injection Hin as <- _. split; [exact Hne|apply incl_refl].
  - destruct Hin as [Hin|[]]. injection Hin as <- _. split; [exact Hne|apply incl_refl].
  - destruct Hin as [Hin|[]]. injection Hin as <- _. split; [exact Hne|apply incl_refl].
  - destruct Hin as [Hin|Hin]; [injection Hin as <- _; split; [exact Hne|apply incl_refl]|].
    destruct (IH b a Hin) as [A B]. split; [exact A|]. intros x Hx. specialize (B x Hx). apply filter_In in B. tauto.
Qed.
(* the k-th entry of the trace is the answer of the oracle to call number n+k *)
Lemma loop_oracle c todo n tr st : loop c todo n tr st ->
  forall k b a, nth_error tr k = Some (b, a) -> a = page c (n + k) b.
Proof.
  induction 1 as [n|todo n code Hne Hp|todo n Hne Hp|todo n its Hne Hp Hi Hpr|todo n its tr st Hne Hp Hi Hpr Hl IH]; intros k b a Hk.
  - destruct k; discriminate.
  - destruct k as [|[|k]]; try discriminate. injection Hk as <- <-. rewrite Nat.add_0_r. congruence.
  - destruct k as [|[|k]]; try discriminate. injection Hk as <- <-. rewrite Nat.add_0_r. congruence.
  - destruct k as [|[|k]]; try discriminate. injection Hk as <- <-. rewrite Nat.add_0_r. congruence.
  - destruct k as [|k]; [injection Hk as <- <-; rewrite Nat.add_0_r; congruence|].
    cbn [nth_error] in Hk. rewrite (IH k b a Hk). f_equal. lia.
Qed.

(* ---- exactly once, per cluster ---- *)
Section Once.
Variable T : string -> bool.        (* "is a requested object" *)
Definition page_hyp (c : string) : Prop := forall n b its, page c n b = AItems its ->
  NoDup (uuids its) /\ forall x, In x (uuids its) -> In x b \/ T x = false.

Lemma count_occ_app_str x (l1 l2 : list string) :
  count_occ string_dec (l1 ++ l2) x = count_occ string_dec l1 x + count_occ string_dec l2 x.
Proof. apply count_occ_app. Qed.

Lemma loop_once c todo n tr st : loop c todo n tr st -> page_hyp c ->
  forall x, T x = true ->
    count_occ string_dec (tr_uuids tr) x <= 1 /\ (In x (tr_uuids tr) -> In x todo).
Proof.
  induction 1 as [n|todo n code Hne Hp|todo n Hne Hp|todo n its Hne Hp Hi Hpr|todo n its tr st Hne Hp Hi Hpr Hl IH]; intros HH x Hx.
  - cbn. split; [lia|tauto].
  - cbn. split; [lia|tauto].
  - cbn. split; [lia|tauto].
  - unfold tr_uuids. cbn [flat_map snd page_items]. rewrite app_nil_r. destruct (HH _ _ _ Hp) as [Hnd Hin]. split.
    + apply NoDup_count_occ. exact Hnd.
    + intros Hi'. destruct (Hin x Hi') as [A|A]; [exact A|congruence].
  - unfold tr_uuids. cbn [flat_map snd page_items]. fold (tr_uuids tr).
    destruct (HH _ _ _ Hp) as [Hnd Hin]. destruct (IH HH x Hx) as [A B]. split.
    + rewrite count_occ_app_str. pose proof (proj1 (NoDup_count_occ string_dec (uuids its)) Hnd x) as Hc.
      destruct (in_dec string_dec x (uuids its)) as [Hi'|Hi'].
      * assert (~ In x (tr_uuids tr)) as Hn.
        { intro X. apply B in X. apply filter_In in X. destruct X as [_ X]. apply negb_true_iff in X.
          apply mem_false in X. contradiction. }
        apply (count_occ_not_In string_dec) in Hn. lia.
      * apply (count_occ_not_In string_dec) in Hi'. lia.
    + intros X. apply in_app_or in X. destruct X as [X|X].
      * destruct (Hin x X) as [Y|Y]; [exact Y|congruence].
      * apply B in X. apply filter_In in X. tauto.
Qed.

End Once.

(* ---- completeness with honest backends ---- *)
Section Complete.
Variable E : string -> bool.        (* "exists in the database of its home cluster" *)
Definition honest (c : string) : Prop := forall n b, exists its, page c n b = AItems its /\
  NoDup (uuids its) /\ incl (uuids its) b /\ (forall x, In x (uuids its) -> E x = true) /\
  (its = [] -> forall x, In x b -> E x = false).

Lemma loop_complete c todo n tr st : loop c todo n tr st -> honest c ->
  st = CDone /\ (forall x, In x todo -> E x = true -> In x (tr_uuids tr)) /\
  (forall x, In x (tr_uuids tr) -> E x = true /\ In x todo).
Proof.
  induction 1 as [n|todo n code Hne Hp|todo n Hne Hp|todo n its Hne Hp Hi Hpr|todo n its tr st Hne Hp Hi Hpr Hl IH]; intros HH.
  - split; [reflexivity|]. split; [intros x []|intros x []].
  - destruct (HH n todo) as (its & Hq & _). congruence.
  - destruct (HH n todo) as (its & Hq & _ & _ & _ & He). rewrite Hp in Hq. injection Hq as <-.
    split; [reflexivity|]. split; [|intros x []]. intros x Hx Ex. rewrite (He eq_refl x Hx) in Ex. discriminate.
  - exfalso. destruct (HH n todo) as (its' & Hq & _ & Hinc & _). rewrite Hp in Hq. injection Hq as <-.
    destruct its as [|i its]; [congruence|]. cbn [uuids map existsb] in Hpr. apply orb_false_iff in Hpr.
    destruct Hpr as [Hpr _]. apply mem_false in Hpr. apply Hpr. apply Hinc. left. reflexivity.
  - destruct (IH HH) as (A & B & C). destruct (HH n todo) as (its' & Hq & _ & Hinc & Hex & _). rewrite Hp in Hq. injection Hq as <-.
    split; [exact A|]. unfold tr_uuids. cbn [flat_map snd page_items]. fold (tr_uuids tr). split.
    + intros x Hx Ex. apply in_or_app. destruct (mem x (uuids its)) eqn:M; [left; apply mem_In; exact M|].
      right. apply B; [|exact Ex]. apply filter_In. split; [exact Hx|rewrite M; reflexivity].
    + intros x Hx. apply in_app_or in Hx. destruct Hx as [Hx|Hx]; [split; [apply Hex; exact Hx|apply Hinc; exact Hx]|].
      destruct (C x Hx) as [C1 C2]. split; [exact C1|]. apply filter_In in C2. tauto.
Qed.
End Complete.
End LoopRel.
