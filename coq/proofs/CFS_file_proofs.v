(* File-level refinement proofs for model/CFS_file.v (C08; reused by C09/C13). *)
From Coq Require Import List Arith Lia Bool.
Import ListNotations.
From AV Require Import model.CFS_file.

(* prefix length of the first i segments *)
Definition pre_len (l : list seg) (i : nat) : nat := length (flat_map sbytes (firstn i l)).

Definition WF (fn : fnode) : Prop :=
  size fn = length (content fn) /\ Forall (fun s => 0 < slen s) (segs fn).

(* ptr consistent with its offset *)
Definition valid (fn : fnode) (p : ptr) : Prop :=
  off p = pre_len (segs fn) (idx p) + soff p /\
  ((idx p < length (segs fn) /\ soff p < slen (nthseg (segs fn) (idx p))) \/
   (idx p = length (segs fn) /\ soff p = 0)).

Definition overwrite (c : list byte) (o : nat) (d : list byte) : list byte :=
  firstn o c ++ d ++ skipn (o + length d) c.

Lemma flat_map_app' {A B} (f : A -> list B) l1 l2 : flat_map f (l1 ++ l2) = flat_map f l1 ++ flat_map f l2.
Proof. apply flat_map_app. Qed.

Lemma content_split l i :
  i < length l ->
  flat_map sbytes l = flat_map sbytes (firstn i l) ++ sbytes (nthseg l i) ++ flat_map sbytes (skipn (S i) l).
Proof.
  revert i. induction l as [|s l IH]; intros i Hi; simpl in *; [lia|].
  destruct i; simpl; [reflexivity|].
  rewrite <- app_assoc. f_equal. apply IH. lia.
Qed.

Lemma set_nth_content l i s :
  i < length l ->
  flat_map sbytes (set_nth l i s) = flat_map sbytes (firstn i l) ++ sbytes s ++ flat_map sbytes (skipn (S i) l).
Proof.
  intros Hi. unfold set_nth. rewrite flat_map_app. simpl. reflexivity.
Qed.

Lemma set_nth_length l i s : i < length l -> length (set_nth l i s) = length l.
Proof.
  intros Hi. unfold set_nth. rewrite app_length. cbn [length]. rewrite firstn_length.
  pose proof (skipn_length (S i) l). lia.
Qed.

Lemma nth_set_nth l i s : i < length l -> nthseg (set_nth l i s) i = s.
Proof.
  intros Hi. unfold nthseg, set_nth. rewrite app_nth2; rewrite firstn_length; [|lia].
  replace (i - Nat.min i (length l)) with 0 by lia. reflexivity.
Qed.

(* in-place write into a writable segment: the branch `else if curWritable` *)
Lemma mem_write_length b o p : o + length p <= length b -> length (mem_write b o p) = length b.
Proof.
  intros H. unfold mem_write. rewrite !app_length, firstn_length, skipn_length. lia.
Qed.

Lemma overwrite_within (pre mid post : list byte) o d :
  o + length d <= length mid ->
  overwrite (pre ++ mid ++ post) (length pre + o) d = pre ++ mem_write mid o d ++ post.
Proof.
  intros H. unfold overwrite, mem_write.
  rewrite firstn_app. rewrite firstn_all2 by lia.
  replace (length pre + o - length pre) with o by lia.
  rewrite firstn_app. replace (o - length mid) with 0 by lia. simpl. rewrite app_nil_r.
  rewrite <- !app_assoc. f_equal. f_equal. f_equal.
  rewrite skipn_app. rewrite skipn_all2 by lia. simpl.
  replace (length pre + o + length d - length pre) with (o + length d) by lia.
  rewrite skipn_app. replace (o + length d - length mid) with 0 by lia. simpl. reflexivity.
Qed.


Lemma Forall_set_nth (P : seg -> Prop) l i s :
  Forall P l -> P s -> Forall P (set_nth l i s).
Proof.
  intros Hl Hs. unfold set_nth. apply Forall_app. split.
  - rewrite Forall_forall in *. intros x Hx. apply Hl.
    rewrite <- (firstn_skipn i l). apply in_or_app; left; exact Hx.
  - constructor; auto. rewrite Forall_forall in *. intros x Hx. apply Hl.
    rewrite <- (firstn_skipn (S i) l). apply in_or_app; right; exact Hx.
Qed.

Lemma firstn_min_length {A} n (l : list A) : firstn (Nat.min n (length l)) l = firstn n l.
Proof.
  destruct (le_lt_dec n (length l)).
  - rewrite Nat.min_l by lia. reflexivity.
  - rewrite Nat.min_r by lia. rewrite !firstn_all2 by lia. reflexivity.
Qed.



(* ---------- generic list surgery ---------- *)
Lemma pre_len_le l a b : a <= b -> pre_len l a <= pre_len l b.
Proof.
  intros H. unfold pre_len. revert a b H. induction l as [|s l IH]; intros a b H.
  - rewrite !firstn_nil. simpl. lia.
  - destruct a, b; simpl; try lia. rewrite !app_length. specialize (IH a b). lia.
Qed.

Lemma pre_len_all l a : length l <= a -> pre_len l a = length (flat_map sbytes l).
Proof. intros H. unfold pre_len. rewrite firstn_all2 by lia. reflexivity. Qed.

Lemma firstn_content l a : firstn (pre_len l a) (flat_map sbytes l) = flat_map sbytes (firstn a l).
Proof.
  unfold pre_len. revert a. induction l as [|s l IH]; intros a.
  - rewrite !firstn_nil. reflexivity.
  - destruct a; simpl; [reflexivity|].
    rewrite app_length. rewrite firstn_app. rewrite firstn_all2 by lia.
    replace (length (sbytes s) + length (flat_map sbytes (firstn a l)) - length (sbytes s))
      with (length (flat_map sbytes (firstn a l))) by lia.
    rewrite IH. reflexivity.
Qed.

Lemma skipn_content l a : skipn (pre_len l a) (flat_map sbytes l) = flat_map sbytes (skipn a l).
Proof.
  unfold pre_len. revert a. induction l as [|s l IH]; intros a.
  - rewrite firstn_nil, !skipn_nil. reflexivity.
  - destruct a; simpl; [reflexivity|].
    rewrite app_length. rewrite skipn_app. rewrite skipn_all2 by lia. simpl.
    replace (length (sbytes s) + length (flat_map sbytes (firstn a l)) - length (sbytes s))
      with (length (flat_map sbytes (firstn a l))) by lia.
    apply IH.
Qed.

Lemma content_splice l a b mid :
  flat_map sbytes (firstn a l ++ mid ++ skipn b l) =
  firstn (pre_len l a) (flat_map sbytes l) ++ flat_map sbytes mid ++ skipn (pre_len l b) (flat_map sbytes l).
Proof. rewrite !flat_map_app, firstn_content, skipn_content. reflexivity. Qed.

Lemma my_skipn_skipn {A} a b (l : list A) : skipn a (skipn b l) = skipn (b + a) l.
Proof.
  revert l. induction b as [|b IH]; intros l; simpl; [reflexivity|].
  destruct l; [rewrite !skipn_nil; reflexivity|]. apply IH.
Qed.

(* overwrite expressed on a window [pa, pb) of the content *)
Lemma overwrite_window (c : list byte) pa pb so d :
  pa <= pb -> pb <= length c -> so + length d <= pb - pa ->
  overwrite c (pa + so) d =
  firstn pa c ++ overwrite (firstn (pb - pa) (skipn pa c)) so d ++ skipn pb c.
Proof.
  intros H1 H2 H3.
  rewrite <- (firstn_skipn pa c) at 1.
  set (pre := firstn pa c). set (rest := skipn pa c).
  assert (Hpre : length pre = pa) by (unfold pre; rewrite firstn_length; lia).
  assert (Hrest : length rest = length c - pa) by (unfold rest; rewrite skipn_length; lia).
  rewrite <- (firstn_skipn (pb - pa) rest) at 1.
  set (mid := firstn (pb - pa) rest). set (post := skipn (pb - pa) rest).
  assert (Hmid : length mid = pb - pa) by (unfold mid; rewrite firstn_length; lia).
  assert (Hpost : post = skipn pb c).
  { unfold post, rest. rewrite my_skipn_skipn. f_equal. lia. }
  rewrite <- Hpost.
  unfold overwrite.
  rewrite <- Hpre at 1.
  rewrite firstn_app. rewrite firstn_all2 by lia.
  replace (length pre + so - length pre) with so by lia.
  rewrite firstn_app. replace (so - length mid) with 0 by lia. simpl firstn at 3. rewrite app_nil_r.
  rewrite <- !app_assoc. f_equal. f_equal. f_equal.
  replace (pa + so + length d) with (length pre + (so + length d)) by lia.
  rewrite skipn_app. rewrite skipn_all2 by lia. simpl.
  replace (length pre + (so + length d) - length pre) with (so + length d) by lia.
  rewrite skipn_app. replace (so + length d - length mid) with 0 by lia. simpl. reflexivity.
Qed.

Lemma overwrite_at_end (c d : list byte) : overwrite c (length c) d = c ++ d.
Proof.
  unfold overwrite. rewrite firstn_all. rewrite skipn_all2 by lia. rewrite app_nil_r. reflexivity.
Qed.

Lemma firstn_app_exact {A} n (l1 l2 : list A) : length l1 = n -> firstn n (l1 ++ l2) = l1.
Proof. intros <-. rewrite firstn_app. rewrite firstn_all. replace (length l1 - length l1) with 0 by lia. simpl. apply app_nil_r. Qed.
Lemma skipn_app_exact {A} n (l1 l2 : list A) : length l1 = n -> skipn n (l1 ++ l2) = l2.
Proof. intros <-. rewrite skipn_app. rewrite skipn_all. replace (length l1 - length l1) with 0 by lia. reflexivity. Qed.

Lemma nthseg_in l i : i < length l -> In (nthseg l i) l.
Proof. intros; unfold nthseg; apply nth_In; auto. Qed.

Lemma Forall_firstn {A} (P : A -> Prop) n l : Forall P l -> Forall P (firstn n l).
Proof. rewrite !Forall_forall. intros H x Hx. apply H. rewrite <- (firstn_skipn n l). apply in_or_app; auto. Qed.
Lemma Forall_skipn {A} (P : A -> Prop) n l : Forall P l -> Forall P (skipn n l).
Proof. rewrite !Forall_forall. intros H x Hx. apply H. rewrite <- (firstn_skipn n l). apply in_or_app; auto. Qed.

Lemma pre_len_S l i : i < length l -> pre_len l (S i) = pre_len l i + slen (nthseg l i).
Proof.
  unfold pre_len, slen. revert i. induction l as [|s l IH]; intros i Hi; simpl in *; [lia|].
  destruct i; simpl.
  - rewrite app_length. simpl. unfold nthseg. simpl. lia.
  - rewrite !app_length. rewrite (IH i) by lia. unfold nthseg. simpl. lia.
Qed.


(* ---------- validity of the pointer returned by a step ---------- *)
Definition pa_ok (l' : list seg) (off' i so : nat) : Prop :=
  i < length l' /\ so <= slen (nthseg l' i) /\ pre_len l' i + so = off'.

Lemma ptr_after_valid fn' p i so n rp :
  WF fn' -> pa_ok (segs fn') (off p + n) i so -> valid fn' (ptr_after (segs fn') p i so n rp).
Proof.
  intros [_ Hpos] (Hi & Hso & Hoff). unfold ptr_after.
  destruct (slen (nthseg (segs fn') i) =? so) eqn:E.
  - apply Nat.eqb_eq in E. split; cbn [off idx soff].
    + rewrite pre_len_S by auto. lia.
    + destruct (Nat.eq_dec (S i) (length (segs fn'))) as [Heq|Hne]; [right; auto|left].
      split; [lia|]. rewrite Forall_forall in Hpos. apply Hpos. apply nthseg_in. lia.
  - apply Nat.eqb_neq in E. split; cbn [off idx soff]; [lia|left; split; [auto|lia]].
Qed.

Lemma pre_len_splice l a b mid k :
  a <= length l -> k <= length mid ->
  pre_len (firstn a l ++ mid ++ skipn b l) (a + k) = pre_len l a + pre_len mid k.
Proof.
  intros Ha Hk. unfold pre_len.
  assert (Hl : length (firstn a l) = a) by (rewrite firstn_length; lia).
  rewrite <- Hl at 1. rewrite firstn_app_2.
  rewrite firstn_app. replace (k - length mid) with 0 by lia. cbn [firstn]. rewrite app_nil_r.
  rewrite flat_map_app, app_length. reflexivity.
Qed.

Lemma nthseg_splice l a b mid k :
  a <= length l -> k < length mid ->
  nthseg (firstn a l ++ mid ++ skipn b l) (a + k) = nthseg mid k.
Proof.
  intros Ha Hk. unfold nthseg.
  rewrite app_nth2 by (rewrite firstn_length; lia).
  rewrite firstn_length. replace (a + k - Nat.min a (length l)) with k by lia.
  apply app_nth1. exact Hk.
Qed.

Lemma length_splice (l : list seg) a b (mid : list seg) :
  a <= length l -> length (firstn a l ++ mid ++ skipn b l) = a + length mid + (length l - b).
Proof.
  intros Ha. rewrite !app_length, firstn_length. pose proof (skipn_length b l). lia.
Qed.

Lemma pre_len_splice0 l a b mid :
  a <= length l -> pre_len (firstn a l ++ mid ++ skipn b l) a = pre_len l a.
Proof.
  intros Ha. pose proof (pre_len_splice l a b mid 0 Ha (Nat.le_0_l _)) as H.
  rewrite Nat.add_0_r in H. rewrite H. unfold pre_len at 2. cbn [firstn flat_map length]. lia.
Qed.
Lemma nthseg_splice0 l a b mid :
  a <= length l -> 0 < length mid -> nthseg (firstn a l ++ mid ++ skipn b l) a = nthseg mid 0.
Proof.
  intros Ha Hm. pose proof (nthseg_splice l a b mid 0 Ha Hm) as H. rewrite Nat.add_0_r in H. exact H.
Qed.

Section Branches.
Variable mb : nat.
Hypothesis mb_pos : 1 <= mb.

Definition step_ok (fn : fnode) (p : ptr) (data : list byte) (r : fnode * ptr * nat) : Prop :=
  let '(fn', p', n) := r in
  1 <= n <= length data /\
  content fn' = overwrite (content fn) (off p) (firstn n data) /\
  WF fn' /\ off p' = off p + n.

Lemma ptr_after_off l p i so n rp : off (ptr_after l p i so n rp) = off p + n.
Proof. unfold ptr_after. destruct (slen (nthseg l i) =? so); reflexivity. Qed.

Lemma cando_facts (data : list byte) k :
  data <> [] -> 1 <= k ->
  let c := firstn k data in 1 <= length c /\ length c <= length data /\ firstn (length c) data = c.
Proof.
  intros Hd Hk c. unfold c. rewrite firstn_length.
  split; [|split].
  - destruct data; [congruence|]. cbn [length]. lia.
  - lia.
  - apply firstn_min_length.
Qed.

Lemma firstn_firstn_data (data : list byte) a b :
  firstn (length (firstn a (firstn b data))) data = firstn a (firstn b data).
Proof. rewrite firstn_firstn. rewrite firstn_length. apply firstn_min_length. Qed.

(* ---- in-place write into a memSegment ---- *)
Lemma ws_inplace_ok fn p data :
  WF fn -> valid fn p -> data <> [] ->
  idx p < length (segs fn) -> soff p < slen (nthseg (segs fn) (idx p)) ->
  step_ok fn p data (ws_inplace fn p (firstn mb data)).
Proof.
  intros [Hsz Hpos] [Hoff _] Hd Hi Hso.
  unfold ws_inplace, step_ok. cbv zeta.
  set (s := nthseg (segs fn) (idx p)) in *.
  set (cando := firstn (slen s - soff p) (firstn mb data)).
  assert (Hc1 : 1 <= length cando).
  { unfold cando. rewrite !firstn_length. destruct data; [congruence|]. cbn [length]. lia. }
  assert (Hc2 : length cando <= slen s - soff p) by (unfold cando; rewrite firstn_length; lia).
  assert (Hc3 : firstn (length cando) data = cando) by apply firstn_firstn_data.
  assert (Hlen : length cando <= length data) by (rewrite <- Hc3 at 1; rewrite firstn_length; lia).
  set (l' := set_nth (segs fn) (idx p) (Mem (mem_write (sbytes s) (soff p) cando) None)).
  assert (Hcont : flat_map sbytes l' = overwrite (content fn) (off p) cando).
  { unfold l'. rewrite set_nth_content by auto. cbn [sbytes].
    unfold content. rewrite (content_split (segs fn) (idx p)) by auto.
    rewrite Hoff. unfold pre_len. fold s.
    rewrite overwrite_within; [reflexivity|unfold slen in *; lia]. }
  rewrite ptr_after_off. split; [lia|]. rewrite Hc3. split; [exact Hcont|]. split; [|reflexivity].
  split; cbn [segs size].
  - unfold content; cbn [segs]. rewrite Hcont. unfold overwrite.
    rewrite !app_length, firstn_length. pose proof (skipn_length (off p + length cando) (content fn)).
    assert (off p + length cando <= length (content fn)).
    { unfold content. rewrite (content_split (segs fn) (idx p)) by auto.
      rewrite !app_length. rewrite Hoff. unfold pre_len. fold s. unfold slen in *. lia. }
    lia.
  - unfold l'. apply Forall_set_nth; auto.
    unfold slen. cbn [sbytes]. rewrite mem_write_length; [|unfold slen in *; lia].
    rewrite Forall_forall in Hpos. apply (Hpos s). apply nthseg_in; auto.
Qed.

(* ---- insert a new memSegment, ptr at EOF ---- *)
Lemma ws_insert_eof_ok fn p data :
  WF fn -> valid fn p -> data <> [] -> idx p = length (segs fn) ->
  step_ok fn p data (ws_insert fn p (firstn mb data)).
Proof.
  intros [Hsz Hpos] [Hoff Hv] Hd Hi.
  assert (Hso : soff p = 0) by (destruct Hv as [[A _]|[_ B]]; [lia|exact B]).
  unfold ws_insert, adjust_cur, step_ok. cbv zeta.
  assert (E2 : (idx p =? length (segs fn)) = true) by (apply Nat.eqb_eq; exact Hi).
  rewrite E2.
  destruct (cando_facts data mb Hd mb_pos) as (Hc1 & Hc2 & Hc3).
  set (cando := firstn mb data) in *.
  set (l2 := firstn (idx p) (segs fn) ++ Mem cando None :: skipn (idx p) (segs fn)).
  assert (Hl2 : l2 = segs fn ++ [Mem cando None]).
  { unfold l2. rewrite Hi. rewrite firstn_all. rewrite skipn_all. reflexivity. }
  assert (Hoffc : off p = length (content fn)).
  { rewrite Hoff, Hso. unfold content. rewrite pre_len_all by lia. lia. }
  rewrite ptr_after_off. split; [lia|]. rewrite Hc3.
  split; [|split; [|reflexivity]].
  - unfold content at 1; cbn [segs]. rewrite Hl2, flat_map_app. cbn [flat_map sbytes]. rewrite app_nil_r.
    rewrite Hoffc. rewrite overwrite_at_end. reflexivity.
  - split; cbn [segs size].
    + unfold content; cbn [segs]. rewrite Hl2, flat_map_app, app_length. cbn [flat_map sbytes]. rewrite app_nil_r.
      rewrite Hsz. reflexivity.
    + rewrite Hl2. apply Forall_app; split; [exact Hpos|]. constructor; [|constructor]. unfold slen; cbn [sbytes]. lia.
Qed.

Lemma window_is_seg l i :
  i < length l ->
  firstn (pre_len l (S i) - pre_len l i) (skipn (pre_len l i) (flat_map sbytes l)) = sbytes (nthseg l i).
Proof.
  intros Hi. rewrite pre_len_S by auto.
  replace (pre_len l i + slen (nthseg l i) - pre_len l i) with (slen (nthseg l i)) by lia.
  rewrite (content_split l i Hi) at 1. unfold pre_len.
  rewrite skipn_app. rewrite skipn_all. replace (length (flat_map sbytes (firstn i l)) - length (flat_map sbytes (firstn i l))) with 0 by lia.
  cbn [skipn app]. rewrite firstn_app. unfold slen. rewrite firstn_all.
  replace (length (sbytes (nthseg l i)) - length (sbytes (nthseg l i))) with 0 by lia. cbn [firstn]. apply app_nil_r.
Qed.

Lemma overwrite_prefix (W d : list byte) : length d <= length W -> overwrite W 0 d = d ++ skipn (length d) W.
Proof. intros H. unfold overwrite. cbn [firstn app Nat.add]. reflexivity. Qed.

Lemma pre_len_bound l i : i <= length l -> pre_len l i <= length (flat_map sbytes l).
Proof. intros H. rewrite <- (pre_len_all l (length l)) by lia. apply pre_len_le; lia. Qed.

(* ---- insert a new memSegment in the middle: cur is a stored segment, ptr at its start ---- *)
Lemma ws_insert_mid_ok fn p data :
  WF fn -> valid fn p -> data <> [] ->
  idx p < length (segs fn) -> soff p = 0 ->
  step_ok fn p data (ws_insert fn p (firstn mb data)).
Proof.
  intros [Hsz Hpos] [Hoff _] Hd Hi Hso.
  unfold ws_insert, adjust_cur, step_ok. cbv zeta.
  assert (E2 : (idx p =? length (segs fn)) = false) by (apply Nat.eqb_neq; lia).
  rewrite E2.
  destruct (cando_facts data mb Hd mb_pos) as (Hc1 & Hc2 & Hc3).
  set (cando0 := firstn mb data) in *.
  set (l := segs fn) in *. set (cur := idx p) in *.
  set (s := nthseg l cur).
  assert (Hs : 0 < slen s).
  { rewrite Forall_forall in Hpos. apply Hpos. apply nthseg_in; auto. }
  assert (Hoff' : off p = pre_len l cur + 0) by (rewrite Hoff, Hso; reflexivity).
  assert (Hpa : pre_len l cur <= pre_len l (S cur)) by (apply pre_len_le; lia).
  assert (Hpb : pre_len l (S cur) <= length (content fn)) by (apply pre_len_bound; lia).
  assert (HW := window_is_seg l cur Hi). fold s in HW.
  assert (HS := pre_len_S l cur Hi). fold s in HS.
  destruct (slen s <=? length cando0) eqn:E3.
  - (* cur disappears entirely *)
    apply Nat.leb_le in E3.
    set (cando := firstn (slen s) cando0).
    assert (Hlc : length cando = slen s) by (unfold cando; rewrite firstn_length; lia).
    assert (Hc3' : firstn (length cando) data = cando) by (unfold cando, cando0; apply firstn_firstn_data).
    assert (Hf : firstn cur (firstn cur l ++ skipn (S cur) l) = firstn cur l)
      by (apply firstn_app_exact; rewrite firstn_length; lia).
    assert (Hk : skipn cur (firstn cur l ++ skipn (S cur) l) = skipn (S cur) l)
      by (apply skipn_app_exact; rewrite firstn_length; lia).
    rewrite Hf, Hk. rewrite ptr_after_off.
    split; [lia|]. rewrite Hc3'.
    assert (Hcont : flat_map sbytes (firstn cur l ++ Mem cando None :: skipn (S cur) l)
                    = overwrite (content fn) (off p) cando).
    { change (Mem cando None :: skipn (S cur) l) with ([Mem cando None] ++ skipn (S cur) l).
      rewrite content_splice. cbn [flat_map sbytes]. rewrite app_nil_r.
      rewrite Hoff'. rewrite (overwrite_window (content fn) (pre_len l cur) (pre_len l (S cur))); try lia.
      unfold content. fold l. rewrite HW. rewrite overwrite_prefix by (unfold slen in *; lia).
      assert (Hge : length (sbytes s) <= length cando) by (rewrite Hlc; unfold slen; apply Nat.le_refl).
      rewrite (skipn_all2 (sbytes s) Hge). rewrite app_nil_r. reflexivity. }
    split; [exact Hcont|]. split; [|reflexivity].
    split; cbn [segs size].
    + unfold content at 1; cbn [segs]. rewrite Hcont. unfold overwrite.
      rewrite !app_length, firstn_length. pose proof (skipn_length (off p + length cando) (content fn)). lia.
    + apply Forall_app; split; [apply Forall_firstn; exact Hpos|].
      constructor; [unfold slen; cbn [sbytes]; lia|apply Forall_skipn; exact Hpos].
  - (* cur is shortened from the left *)
    apply Nat.leb_gt in E3.
    set (s' := slice s (length cando0) None).
    assert (Hs' : sbytes s' = skipn (length cando0) (sbytes s)) by (unfold s', slice; destruct s; reflexivity).
    assert (Hf : firstn cur (set_nth l cur s') = firstn cur l)
      by (unfold set_nth; apply firstn_app_exact; rewrite firstn_length; lia).
    assert (Hk : skipn cur (set_nth l cur s') = s' :: skipn (S cur) l)
      by (unfold set_nth; apply skipn_app_exact; rewrite firstn_length; lia).
    rewrite Hf, Hk. rewrite ptr_after_off.
    split; [lia|]. rewrite Hc3.
    assert (Hcont : flat_map sbytes (firstn cur l ++ Mem cando0 None :: s' :: skipn (S cur) l)
                    = overwrite (content fn) (off p) cando0).
    { change (Mem cando0 None :: s' :: skipn (S cur) l) with ([Mem cando0 None; s'] ++ skipn (S cur) l).
      rewrite content_splice. cbn [flat_map sbytes]. rewrite app_nil_r.
      rewrite Hoff'. rewrite (overwrite_window (content fn) (pre_len l cur) (pre_len l (S cur))); try lia.
      unfold content. fold l. rewrite HW. rewrite overwrite_prefix by (unfold slen in *; lia).
      rewrite Hs'. reflexivity. }
    split; [exact Hcont|]. split; [|reflexivity].
    split; cbn [segs size].
    + unfold content at 1; cbn [segs]. rewrite Hcont. unfold overwrite.
      rewrite !app_length, firstn_length. pose proof (skipn_length (off p + length cando0) (content fn)). lia.
    + apply Forall_app; split; [apply Forall_firstn; exact Hpos|].
      constructor; [unfold slen; cbn [sbytes]; lia|].
      constructor; [|apply Forall_skipn; exact Hpos].
      unfold slen. rewrite Hs'. pose proof (skipn_length (length cando0) (sbytes s)). unfold slen in *. lia.
Qed.

Lemma sbytes_slice_some s o n : sbytes (slice s o (Some n)) = firstn n (skipn o (sbytes s)).
Proof. destruct s; reflexivity. Qed.
Lemma sbytes_slice_none s o : sbytes (slice s o None) = skipn o (sbytes s).
Proof. destruct s; reflexivity. Qed.

(* ---- split a non-writable segment: 0 < soff < len(cur) ---- *)
Lemma ws_split_ok fn p data :
  WF fn -> valid fn p -> data <> [] ->
  idx p < length (segs fn) -> 0 < soff p -> soff p < slen (nthseg (segs fn) (idx p)) ->
  step_ok fn p data (ws_split fn p (firstn mb data)).
Proof.
  intros [Hsz Hpos] [Hoff _] Hd Hi Hso0 Hso.
  unfold ws_split, step_ok. cbv zeta.
  destruct (cando_facts data mb Hd mb_pos) as (Hc1 & Hc2 & Hc3).
  set (cando0 := firstn mb data) in *.
  set (l := segs fn) in *. set (cur := idx p) in *.
  set (s := nthseg l cur) in *.
  assert (Hpa : pre_len l cur <= pre_len l (S cur)) by (apply pre_len_le; lia).
  assert (Hpb : pre_len l (S cur) <= length (content fn)) by (apply pre_len_bound; lia).
  assert (HW := window_is_seg l cur Hi). fold s in HW.
  assert (HS := pre_len_S l cur Hi). fold s in HS.
  assert (Hlen_s : slen s = length (sbytes s)) by reflexivity.
  destruct (slen s - soff p <=? length cando0) eqn:E3.
  - (* the rest of cur is overwritten completely *)
    apply Nat.leb_le in E3.
    set (cando := firstn (slen s - soff p) cando0).
    assert (Hlc : length cando = slen s - soff p) by (unfold cando; rewrite firstn_length; lia).
    assert (Hc3' : firstn (length cando) data = cando) by (unfold cando, cando0; apply firstn_firstn_data).
    rewrite ptr_after_off. split; [lia|]. rewrite Hc3'.
    assert (Hcont : flat_map sbytes (firstn cur l ++ [slice s 0 (Some (soff p)); Mem cando None] ++ skipn (S cur) l)
                    = overwrite (content fn) (off p) cando).
    { rewrite content_splice. cbn [flat_map sbytes]. rewrite app_nil_r.
      rewrite sbytes_slice_some. cbn [skipn].
      rewrite Hoff. rewrite (overwrite_window (content fn) (pre_len l cur) (pre_len l (S cur))); try lia.
      unfold content. fold l. rewrite HW. unfold overwrite.
      assert (Hge : length (sbytes s) <= soff p + length cando) by lia.
      rewrite (skipn_all2 (sbytes s) Hge). rewrite app_nil_r. reflexivity. }
    split; [exact Hcont|]. split; [|reflexivity].
    split; cbn [segs size].
    + unfold content at 1; cbn [segs]. rewrite Hcont. unfold overwrite.
      rewrite !app_length, firstn_length. pose proof (skipn_length (off p + length cando) (content fn)).
      assert (off p + length cando <= length (content fn)) by lia. lia.
    + apply Forall_app; split; [apply Forall_firstn; exact Hpos|].
      constructor.
      { unfold slen. rewrite sbytes_slice_some. cbn [skipn]. rewrite firstn_length. lia. }
      constructor; [unfold slen; cbn [sbytes]; lia|apply Forall_skipn; exact Hpos].
  - (* cur is split in three *)
    apply Nat.leb_gt in E3.
    rewrite ptr_after_off. split; [lia|]. rewrite Hc3.
    assert (Hcont : flat_map sbytes (firstn cur l ++ [slice s 0 (Some (soff p)); Mem cando0 None;
                                     slice s (soff p + length cando0) None] ++ skipn (S cur) l)
                    = overwrite (content fn) (off p) cando0).
    { rewrite content_splice. cbn [flat_map sbytes]. rewrite app_nil_r.
      rewrite sbytes_slice_some, sbytes_slice_none. cbn [skipn].
      rewrite Hoff. rewrite (overwrite_window (content fn) (pre_len l cur) (pre_len l (S cur))); try lia.
      unfold content. fold l. rewrite HW. unfold overwrite. rewrite <- !app_assoc. reflexivity. }
    split; [exact Hcont|]. split; [|reflexivity].
    split; cbn [segs size].
    + unfold content at 1; cbn [segs]. rewrite Hcont. unfold overwrite.
      rewrite !app_length, firstn_length. pose proof (skipn_length (off p + length cando0) (content fn)).
      assert (off p + length cando0 <= length (content fn)) by lia. lia.
    + apply Forall_app; split; [apply Forall_firstn; exact Hpos|].
      constructor.
      { unfold slen. rewrite sbytes_slice_some. cbn [skipn]. rewrite firstn_length. lia. }
      constructor; [unfold slen; cbn [sbytes]; lia|].
      constructor; [|apply Forall_skipn; exact Hpos].
      unfold slen. rewrite sbytes_slice_none. pose proof (skipn_length (soff p + length cando0) (sbytes s)). lia.
Qed.

Lemma pre_len_add l a k : pre_len l (a + k) = pre_len l a + pre_len (skipn a l) k.
Proof.
  unfold pre_len. revert l. induction a as [|a IH]; intros l; cbn [Nat.add skipn firstn flat_map length].
  - reflexivity.
  - destruct l as [|s l]; cbn [firstn flat_map skipn].
    + rewrite !firstn_nil. reflexivity.
    + rewrite !app_length. rewrite IH. lia.
Qed.

Lemma window_content l a b :
  a <= b ->
  firstn (pre_len l b - pre_len l a) (skipn (pre_len l a) (flat_map sbytes l))
  = flat_map sbytes (firstn (b - a) (skipn a l)).
Proof.
  intros Hab. replace b with (a + (b - a)) at 1 by lia. rewrite pre_len_add.
  replace (pre_len l a + pre_len (skipn a l) (b - a) - pre_len l a) with (pre_len (skipn a l) (b - a)) by lia.
  rewrite skipn_content. apply firstn_content.
Qed.

Lemma skipn_cons_nth l i : i < length l -> skipn i l = nthseg l i :: skipn (S i) l.
Proof.
  revert i. induction l as [|s l IH]; intros i Hi; cbn [length] in Hi; [lia|].
  destruct i; [reflexivity|]. cbn [skipn]. rewrite IH by lia. reflexivity.
Qed.

Lemma nth_firstn_lt {A} (l : list A) n i d : i < n -> nth i (firstn n l) d = nth i l d.
Proof.
  revert n i. induction l as [|a l IH]; intros n i H.
  - rewrite firstn_nil. reflexivity.
  - destruct n; [lia|]. destruct i; [reflexivity|]. cbn [firstn nth]. apply IH. lia.
Qed.

Lemma window_two l i :
  S i < length l ->
  firstn (pre_len l (S (S i)) - pre_len l i) (skipn (pre_len l i) (flat_map sbytes l))
  = sbytes (nthseg l i) ++ sbytes (nthseg l (S i)).
Proof.
  intros Hi. rewrite window_content by lia.
  replace (S (S i) - i) with 2 by lia.
  rewrite (skipn_cons_nth l i) by lia. rewrite (skipn_cons_nth l (S i)) by lia.
  cbn [firstn flat_map]. rewrite app_nil_r. reflexivity.
Qed.

(* ---- grow the previous memSegment ---- *)
Lemma ws_grow_prev_ok fn p data prev :
  WF fn -> valid fn p -> data <> [] ->
  idx p = S prev -> S prev <= length (segs fn) -> soff p = 0 ->
  is_mem (nthseg (segs fn) prev) = true -> slen (nthseg (segs fn) prev) < mb ->
  step_ok fn p data (ws_grow_prev mb fn p (firstn mb data)).
Proof.
  intros [Hsz Hpos] [Hoff _] Hd Hcur Hle Hso Hmem Hroom.
  unfold ws_grow_prev, adjust_cur, step_ok. cbv zeta.
  rewrite Hcur. cbn [pred].
  set (l := segs fn) in *.
  set (ps := nthseg l prev) in *.
  set (cando1 := firstn (mb - slen ps) (firstn mb data)).
  assert (Hc1 : 1 <= length cando1).
  { unfold cando1. rewrite !firstn_length. destruct data; [congruence|]. cbn [length]. lia. }
  assert (Hc3 : firstn (length cando1) data = cando1) by apply firstn_firstn_data.
  assert (Hlen : length cando1 <= length data) by (rewrite <- Hc3 at 1; rewrite firstn_length; lia).
  assert (Hprev_lt : prev < length l) by lia.
  assert (HSp := pre_len_S l prev Hprev_lt). fold ps in HSp.
  assert (Hoff' : off p = pre_len l prev + slen ps) by (rewrite Hoff, Hcur, Hso, HSp; lia).
  assert (Hps : sbytes ps = sbytes ps) by reflexivity.
  destruct (S prev =? length l) eqn:E2.
  - (* ptr at EOF: the last segment grows *)
    apply Nat.eqb_eq in E2.
    rewrite ptr_after_off. split; [lia|]. rewrite Hc3.
    assert (Hcont : flat_map sbytes (set_nth l prev (Mem (sbytes (nthseg l prev) ++ cando1) None))
                    = overwrite (content fn) (off p) cando1).
    { rewrite set_nth_content by auto. cbn [sbytes]. fold ps.
      assert (Hk : skipn (S prev) l = []) by (apply skipn_all2; lia).
      rewrite Hk. cbn [flat_map]. rewrite app_nil_r.
      assert (Hall : off p = length (content fn)).
      { rewrite Hoff'. rewrite <- HSp. unfold content. fold l. apply pre_len_all. lia. }
      rewrite Hall, overwrite_at_end.
      unfold content. fold l. rewrite (content_split l prev Hprev_lt). fold ps. rewrite Hk. cbn [flat_map].
      rewrite app_nil_r. rewrite app_assoc. reflexivity. }
    split; [exact Hcont|]. split; [|reflexivity].
    split; cbn [segs size].
    + unfold content at 1; cbn [segs]. rewrite Hcont. unfold overwrite.
      rewrite !app_length, firstn_length. pose proof (skipn_length (off p + length cando1) (content fn)).
      assert (off p = length (content fn)).
      { rewrite Hoff'. rewrite <- HSp. unfold content. fold l. apply pre_len_all. lia. }
      lia.
    + apply Forall_set_nth; auto. unfold slen. cbn [sbytes]. rewrite app_length. lia.
  - apply Nat.eqb_neq in E2.
    assert (Hcur_lt : S prev < length l) by lia.
    set (s := nthseg l (S prev)) in *.
    assert (HSc := pre_len_S l (S prev) Hcur_lt). fold s in HSc.
    assert (HW := window_two l prev Hcur_lt). fold ps in HW. fold s in HW.
    assert (Hpa : pre_len l prev <= pre_len l (S (S prev))) by (apply pre_len_le; lia).
    assert (Hpb : pre_len l (S (S prev)) <= length (content fn)) by (apply pre_len_bound; lia).
    assert (Hs : 0 < slen s).
    { rewrite Forall_forall in Hpos. apply Hpos. apply nthseg_in; auto. }
    destruct (slen s <=? length cando1) eqn:E3.
    + (* cur disappears *)
      apply Nat.leb_le in E3.
      set (cando := firstn (slen s) cando1).
      assert (Hlc : length cando = slen s) by (unfold cando; rewrite firstn_length; lia).
      assert (Hc3' : firstn (length cando) data = cando).
      { unfold cando, cando1. rewrite firstn_firstn. apply firstn_firstn_data. }
      set (l1 := firstn (S prev) l ++ skipn (S (S prev)) l).
      assert (Hn1 : nthseg l1 prev = ps).
      { unfold l1, ps, nthseg. rewrite app_nth1 by (rewrite firstn_length; lia).
        apply nth_firstn_lt. lia. }
      rewrite Hn1.
      rewrite ptr_after_off. split; [lia|]. rewrite Hc3'.
      assert (Hl2 : set_nth l1 prev (Mem (sbytes ps ++ cando) None)
                    = firstn prev l ++ [Mem (sbytes ps ++ cando) None] ++ skipn (S (S prev)) l).
      { unfold set_nth, l1.
        assert (A : firstn prev (firstn (S prev) l ++ skipn (S (S prev)) l) = firstn prev l).
        { rewrite firstn_app. rewrite firstn_firstn. replace (Nat.min prev (S prev)) with prev by lia.
          rewrite firstn_length. replace (prev - Nat.min (S prev) (length l)) with 0 by lia.
          cbn [firstn]. apply app_nil_r. }
        assert (B : skipn (S prev) (firstn (S prev) l ++ skipn (S (S prev)) l) = skipn (S (S prev)) l)
          by (apply skipn_app_exact; rewrite firstn_length; lia).
        rewrite A, B. reflexivity. }
      assert (Hcont : flat_map sbytes (set_nth l1 prev (Mem (sbytes ps ++ cando) None))
                      = overwrite (content fn) (off p) cando).
      { rewrite Hl2, content_splice. cbn [flat_map sbytes]. rewrite app_nil_r.
        rewrite Hoff'. rewrite (overwrite_window (content fn) (pre_len l prev) (pre_len l (S (S prev)))); try lia.
        unfold content. fold l. rewrite HW. unfold overwrite, slen.
        rewrite firstn_app. rewrite firstn_all. replace (length (sbytes ps) - length (sbytes ps)) with 0 by lia.
        cbn [firstn]. rewrite app_nil_r.
        assert (Hge : length (sbytes ps ++ sbytes s) <= length (sbytes ps) + length cando)
          by (rewrite app_length; unfold slen in Hlc; lia).
        rewrite (skipn_all2 _ Hge). rewrite app_nil_r. rewrite app_assoc. reflexivity. }
      split; [exact Hcont|]. split; [|reflexivity].
      split; cbn [segs size].
      * unfold content at 1; cbn [segs]. rewrite Hcont. unfold overwrite.
        rewrite !app_length, firstn_length. pose proof (skipn_length (off p + length cando) (content fn)).
        assert (off p + length cando <= length (content fn)) by lia. lia.
      * rewrite Hl2. apply Forall_app; split; [apply Forall_firstn; exact Hpos|].
        constructor; [unfold slen; cbn [sbytes]; rewrite app_length; lia|apply Forall_skipn; exact Hpos].
    + (* cur is shortened from the left *)
      apply Nat.leb_gt in E3.
      set (s' := slice s (length cando1) None).
      set (l1 := set_nth l (S prev) s').
      assert (Hn1 : nthseg l1 prev = ps).
      { unfold l1, ps, nthseg, set_nth. rewrite app_nth1 by (rewrite firstn_length; lia).
        apply nth_firstn_lt. lia. }
      rewrite Hn1.
      rewrite ptr_after_off. split; [lia|]. rewrite Hc3.
      assert (Hl2 : set_nth l1 prev (Mem (sbytes ps ++ cando1) None)
                    = firstn prev l ++ [Mem (sbytes ps ++ cando1) None; s'] ++ skipn (S (S prev)) l).
      { unfold set_nth at 1. unfold l1, set_nth.
        assert (A : firstn prev (firstn (S prev) l ++ s' :: skipn (S (S prev)) l) = firstn prev l).
        { rewrite firstn_app. rewrite firstn_firstn. replace (Nat.min prev (S prev)) with prev by lia.
          rewrite firstn_length. replace (prev - Nat.min (S prev) (length l)) with 0 by lia.
          cbn [firstn]. apply app_nil_r. }
        assert (B : skipn (S prev) (firstn (S prev) l ++ s' :: skipn (S (S prev)) l) = s' :: skipn (S (S prev)) l)
          by (apply skipn_app_exact; rewrite firstn_length; lia).
        rewrite A, B. reflexivity. }
      assert (Hcont : flat_map sbytes (set_nth l1 prev (Mem (sbytes ps ++ cando1) None))
                      = overwrite (content fn) (off p) cando1).
      { rewrite Hl2, content_splice. cbn [flat_map sbytes]. rewrite app_nil_r.
        unfold s'. rewrite sbytes_slice_none.
        rewrite Hoff'. rewrite (overwrite_window (content fn) (pre_len l prev) (pre_len l (S (S prev)))); try lia.
        unfold content. fold l. rewrite HW. unfold overwrite, slen.
        rewrite firstn_app. rewrite firstn_all. replace (length (sbytes ps) - length (sbytes ps)) with 0 by lia.
        cbn [firstn]. rewrite app_nil_r.
        rewrite skipn_app.
        assert (Hge : length (sbytes ps) <= length (sbytes ps) + length cando1) by apply Nat.le_add_r.
        rewrite (skipn_all2 (sbytes ps) Hge).
        replace (length (sbytes ps) + length cando1 - length (sbytes ps)) with (length cando1) by lia.
        cbn [app]. rewrite <- !app_assoc. reflexivity. }
      split; [exact Hcont|]. split; [|reflexivity].
      split; cbn [segs size].
      * unfold content at 1; cbn [segs]. rewrite Hcont. unfold overwrite.
        rewrite !app_length, firstn_length. pose proof (skipn_length (off p + length cando1) (content fn)).
        assert (off p + length cando1 <= length (content fn)) by lia. lia.
      * rewrite Hl2. apply Forall_app; split; [apply Forall_firstn; exact Hpos|].
        constructor; [unfold slen; cbn [sbytes]; rewrite app_length; lia|].
        constructor; [|apply Forall_skipn; exact Hpos].
        unfold slen, s'. rewrite sbytes_slice_none. pose proof (skipn_length (length cando1) (sbytes s)). unfold slen in *. lia.
Qed.

(* ---------- the pointer returned by each branch is valid for the new node ---------- *)
Definition step_valid (r : fnode * ptr * nat) : Prop := let '(fn', p', _) := r in valid fn' p'.

Lemma set_nth_as_splice l i x : set_nth l i x = firstn i l ++ [x] ++ skipn (S i) l.
Proof. reflexivity. Qed.

Lemma ws_inplace_valid fn p data :
  WF fn -> valid fn p -> data <> [] ->
  idx p < length (segs fn) -> soff p < slen (nthseg (segs fn) (idx p)) ->
  step_valid (ws_inplace fn p (firstn mb data)).
Proof.
  intros Hwf Hv Hd Hi Hso.
  pose proof (ws_inplace_ok fn p data Hwf Hv Hd Hi Hso) as Hok.
  destruct Hv as [Hoff _].
  unfold ws_inplace, step_ok, step_valid in *. cbv zeta in *.
  destruct Hok as (_ & _ & Hwf' & _).
  set (s := nthseg (segs fn) (idx p)) in *.
  set (cando := firstn (slen s - soff p) (firstn mb data)) in *.
  assert (Hc2 : length cando <= slen s - soff p) by (unfold cando; rewrite firstn_length; lia).
  set (w := Mem (mem_write (sbytes s) (soff p) cando) None) in *.
  match goal with |- valid ?F (ptr_after ?L _ _ _ _ _) => change L with (segs F) end.
  apply ptr_after_valid; [exact Hwf'|]. cbn [segs].
  assert (Hw : slen w = slen s).
  { unfold w, slen. cbn [sbytes]. apply mem_write_length. unfold slen in *. lia. }
  split; [rewrite set_nth_length; auto|]. split.
  - rewrite nth_set_nth by auto. lia.
  - rewrite set_nth_as_splice. rewrite pre_len_splice0 by lia. lia.
Qed.

Lemma ws_insert_valid fn p data :
  WF fn -> valid fn p -> data <> [] ->
  (idx p = length (segs fn) \/ (idx p < length (segs fn) /\ soff p = 0)) ->
  step_valid (ws_insert fn p (firstn mb data)).
Proof.
  intros Hwf Hv Hd Hcase.
  assert (Hok : step_ok fn p data (ws_insert fn p (firstn mb data))).
  { destruct Hcase as [He|[Hl Hs]]; [apply ws_insert_eof_ok|apply ws_insert_mid_ok]; auto. }
  assert (Hso : soff p = 0).
  { destruct Hcase as [He|[_ Hs]]; [|exact Hs]. destruct Hv as [_ [[A _]|[_ B]]]; [lia|exact B]. }
  destruct Hv as [Hoff _].
  unfold ws_insert, step_ok, step_valid in *.
  destruct (adjust_cur fn (idx p) (firstn mb data)) as [[cando l1] sz] eqn:EA. cbv zeta in *.
  destruct Hok as (_ & _ & Hwf' & _).
  match goal with |- valid ?F (ptr_after ?L _ _ _ _ _) => change L with (segs F) end.
  apply ptr_after_valid; [exact Hwf'|]. cbn [segs].
  assert (Hl1 : idx p <= length l1 /\ pre_len l1 (idx p) = pre_len (segs fn) (idx p)).
  { unfold adjust_cur in EA. destruct (idx p =? length (segs fn)) eqn:E1.
    - injection EA as _ <- _. apply Nat.eqb_eq in E1. split; [lia|reflexivity].
    - apply Nat.eqb_neq in E1. assert (idx p < length (segs fn)) by (destruct Hcase as [?|[? _]]; lia).
      destruct (slen (nthseg (segs fn) (idx p)) <=? length (firstn mb data)).
      + injection EA as _ <- _. split.
        * rewrite app_length, firstn_length. lia.
        * unfold pre_len. rewrite firstn_app_exact by (rewrite firstn_length; lia). reflexivity.
      + injection EA as _ <- _. split.
        * rewrite set_nth_length by auto. lia.
        * unfold pre_len, set_nth. rewrite firstn_app_exact by (rewrite firstn_length; lia). reflexivity. }
  destruct Hl1 as [Hle Hpre].
  change (Mem cando None :: skipn (idx p) l1) with ([Mem cando None] ++ skipn (idx p) l1).
  split; [rewrite length_splice by auto; cbn [length]; lia|]. split.
  - rewrite nthseg_splice0 by (cbn [length]; lia).
    unfold nthseg, slen. cbn [nth sbytes]. lia.
  - rewrite pre_len_splice0 by lia. rewrite Hpre. lia.
Qed.

Lemma ws_split_valid fn p data :
  WF fn -> valid fn p -> data <> [] ->
  idx p < length (segs fn) -> 0 < soff p -> soff p < slen (nthseg (segs fn) (idx p)) ->
  step_valid (ws_split fn p (firstn mb data)).
Proof.
  intros Hwf Hv Hd Hi Hso0 Hso.
  pose proof (ws_split_ok fn p data Hwf Hv Hd Hi Hso0 Hso) as Hok.
  destruct Hv as [Hoff _].
  unfold ws_split, step_ok, step_valid in *. cbv zeta in *.
  set (l := segs fn) in *. set (cur := idx p) in *. set (s := nthseg l cur) in *.
  assert (Hsl : slen (slice s 0 (Some (soff p))) = soff p).
  { unfold slen. rewrite sbytes_slice_some. cbn [skipn]. rewrite firstn_length. unfold slen in Hso. lia. }
  destruct (slen s - soff p <=? length (firstn mb data)).
  - destruct Hok as (_ & _ & Hwf' & _).
    set (cando := firstn (slen s - soff p) (firstn mb data)) in *.
    match goal with |- valid ?F (ptr_after ?L _ _ _ _ _) => change L with (segs F) end.
    apply ptr_after_valid; [exact Hwf'|]. cbn [segs].
    split; [rewrite length_splice by lia; cbn [length]; lia|]. split.
    + replace (S cur) with (cur + 1) by lia. rewrite nthseg_splice by (cbn [length]; lia).
      unfold nthseg, slen. cbn [nth sbytes]. lia.
    + replace (S cur) with (cur + 1) by lia. rewrite pre_len_splice by (cbn [length]; lia).
      unfold pre_len at 2. cbn [firstn flat_map]. rewrite app_nil_r. fold (slen (slice s 0 (Some (soff p)))).
      rewrite Hsl. lia.
  - destruct Hok as (_ & _ & Hwf' & _).
    set (cando := firstn mb data) in *.
    match goal with |- valid ?F (ptr_after ?L _ _ _ _ _) => change L with (segs F) end.
    apply ptr_after_valid; [exact Hwf'|]. cbn [segs].
    split; [rewrite length_splice by lia; cbn [length]; lia|]. split.
    + replace (S cur) with (cur + 1) by lia. rewrite nthseg_splice by (cbn [length]; lia).
      unfold nthseg, slen. cbn [nth sbytes]. lia.
    + replace (S cur) with (cur + 1) by lia. rewrite pre_len_splice by (cbn [length]; lia).
      unfold pre_len at 2. cbn [firstn flat_map]. rewrite app_nil_r. fold (slen (slice s 0 (Some (soff p)))).
      rewrite Hsl. lia.
Qed.

Lemma pre_len_firstn_eq (l1 l : list seg) k n : k <= n -> firstn n l1 = firstn n l -> pre_len l1 k = pre_len l k.
Proof.
  intros Hk H. unfold pre_len.
  replace (firstn k l1) with (firstn k (firstn n l1)) by (rewrite firstn_firstn; f_equal; lia).
  replace (firstn k l) with (firstn k (firstn n l)) by (rewrite firstn_firstn; f_equal; lia).
  rewrite H. reflexivity.
Qed.
Lemma nthseg_firstn_eq (l1 l : list seg) k n : k < n -> firstn n l1 = firstn n l -> nthseg l1 k = nthseg l k.
Proof.
  intros Hk H. unfold nthseg. rewrite <- (nth_firstn_lt l1 n k) by lia. rewrite <- (nth_firstn_lt l n k) by lia.
  rewrite H. reflexivity.
Qed.

Lemma ws_grow_prev_valid fn p data prev :
  WF fn -> valid fn p -> data <> [] ->
  idx p = S prev -> S prev <= length (segs fn) -> soff p = 0 ->
  is_mem (nthseg (segs fn) prev) = true -> slen (nthseg (segs fn) prev) < mb ->
  step_valid (ws_grow_prev mb fn p (firstn mb data)).
Proof.
  intros Hwf Hv Hd Hcur Hle Hso Hmem Hroom.
  pose proof (ws_grow_prev_ok fn p data prev Hwf Hv Hd Hcur Hle Hso Hmem Hroom) as Hok.
  destruct Hv as [Hoff _].
  unfold ws_grow_prev, step_ok, step_valid in *. rewrite Hcur in *. cbn [pred] in *.
  set (l := segs fn) in *. set (ps := nthseg l prev) in *.
  set (cando1 := firstn (mb - slen ps) (firstn mb data)) in *.
  destruct (adjust_cur fn (S prev) cando1) as [[cando l1] sz] eqn:EA. cbv zeta in *.
  destruct Hok as (_ & _ & Hwf' & _).
  assert (Hprev_lt : prev < length l) by lia.
  assert (HSp := pre_len_S l prev Hprev_lt). fold ps in HSp.
  assert (Hl1 : S prev <= length l1 /\ firstn (S prev) l1 = firstn (S prev) l).
  { remember (S prev) as cur eqn:Ecur.
    unfold adjust_cur in EA. fold l in EA. destruct (cur =? length l) eqn:E1.
    - injection EA as _ <- _. apply Nat.eqb_eq in E1. split; [lia|reflexivity].
    - apply Nat.eqb_neq in E1. assert (cur < length l) by lia.
      destruct (slen (nthseg l cur) <=? length cando1).
      + injection EA as _ <- _. split.
        * rewrite app_length, firstn_length. lia.
        * apply firstn_app_exact. rewrite firstn_length. lia.
      + injection EA as _ <- _. split.
        * rewrite set_nth_length by auto. lia.
        * unfold set_nth. apply firstn_app_exact. rewrite firstn_length. lia. }
  destruct Hl1 as [Hle1 Hf1].
  assert (Hn1 : nthseg l1 prev = ps) by (unfold ps; apply (nthseg_firstn_eq l1 l prev (S prev)); auto).
  assert (Hp1 : pre_len l1 prev = pre_len l prev) by (apply (pre_len_firstn_eq l1 l prev (S prev)); auto).
  rewrite Hn1 in *.
  match goal with |- valid ?F (ptr_after ?L _ _ _ _ _) => change L with (segs F) end.
  apply ptr_after_valid; [exact Hwf'|]. cbn [segs].
  split; [rewrite set_nth_length by lia; lia|]. split.
  - rewrite nth_set_nth by lia. unfold slen. cbn [sbytes]. rewrite app_length. lia.
  - rewrite set_nth_as_splice. rewrite pre_len_splice0 by lia. rewrite Hp1.
    rewrite Hoff, Hso, HSp. unfold slen. lia.
Qed.

(* ---------- the dispatcher: one iteration of the write loop ---------- *)
Theorem write_step_ok fn p data :
  WF fn -> valid fn p -> data <> [] ->
  step_ok fn p data (write_step mb fn p data) /\ step_valid (write_step mb fn p data).
Proof.
  intros Hwf Hv Hd. unfold write_step. cbv zeta.
  assert (Hv' := Hv). destruct Hv' as [Hoff Hcase].
  unfold cur_writable.
  destruct Hcase as [[Hi Hso]|[Hi Hso]].
  - (* ptr inside segment idx p *)
    assert (E1 : (idx p <? length (segs fn)) = true) by (apply Nat.ltb_lt; auto). rewrite E1.
    destruct (is_mem (nthseg (segs fn) (idx p))) eqn:Em.
    + cbn [negb]. rewrite andb_false_r. split; [apply ws_inplace_ok|apply ws_inplace_valid]; auto.
    + cbn [negb]. rewrite andb_true_r.
      destruct (0 <? soff p) eqn:E0.
      * apply Nat.ltb_lt in E0. split; [apply ws_split_ok|apply ws_split_valid]; auto.
      * apply Nat.ltb_ge in E0. assert (Hs0 : soff p = 0) by lia.
        destruct (prev_appendable mb (segs fn) (idx p)) eqn:Ep.
        -- unfold prev_appendable in Ep. destruct (idx p) as [|prev] eqn:Eidx; [discriminate|].
           apply andb_true_iff in Ep. destruct Ep as [Er Em']. apply Nat.ltb_lt in Er.
           split; [eapply ws_grow_prev_ok|eapply ws_grow_prev_valid]; eauto; lia.
        -- split; [apply ws_insert_mid_ok|apply ws_insert_valid]; auto.
  - (* ptr at EOF *)
    assert (E1 : (idx p <? length (segs fn)) = false) by (apply Nat.ltb_ge; lia). rewrite E1.
    rewrite Hso. cbn [Nat.ltb Nat.leb andb].
    destruct (prev_appendable mb (segs fn) (idx p)) eqn:Ep.
    + unfold prev_appendable in Ep. destruct (idx p) as [|prev] eqn:Eidx; [discriminate|].
      apply andb_true_iff in Ep. destruct Ep as [Er Em']. apply Nat.ltb_lt in Er.
      split; [eapply ws_grow_prev_ok|eapply ws_grow_prev_valid]; eauto; lia.
    + split; [apply ws_insert_eof_ok|apply ws_insert_valid]; auto.
Qed.
End Branches.

(* ---------- the whole Write loop ---------- *)
Lemma overwrite_compose (c : list byte) o d1 d2 :
  o <= length c ->
  overwrite (overwrite c o d1) (o + length d1) d2 = overwrite c o (d1 ++ d2).
Proof.
  intros Ho. unfold overwrite.
  assert (H1 : length (firstn o c) = o) by (rewrite firstn_length; lia).
  rewrite firstn_app. rewrite H1.
  rewrite firstn_all2 with (n := o + length d1) (l := firstn o c) by lia.
  replace (o + length d1 - o) with (length d1) by lia.
  rewrite firstn_app. rewrite firstn_all. replace (length d1 - length d1) with 0 by lia.
  cbn [firstn]. rewrite app_nil_r.
  rewrite <- !app_assoc. f_equal. f_equal. f_equal.
  rewrite app_length.
  (* skipn (o + |d1| + |d2|) (firstn o c ++ d1 ++ skipn (o+|d1|) c) = skipn (o + (|d1|+|d2|)) c *)
  rewrite skipn_app. rewrite skipn_all2 with (l := firstn o c) by lia. cbn [app].
  rewrite H1. replace (o + length d1 + length d2 - o) with (length d1 + length d2) by lia.
  rewrite skipn_app. rewrite skipn_all2 with (l := d1) by lia. cbn [app].
  replace (length d1 + length d2 - length d1) with (length d2) by lia.
  rewrite my_skipn_skipn. f_equal. lia.
Qed.

Theorem write_loop_ok mb (Hmb : 1 <= mb) fuel : forall fn p data,
  WF fn -> valid fn p -> off p <= length (content fn) -> length data <= fuel ->
  let '(fn', p') := write_loop mb fuel fn p data in
  content fn' = overwrite (content fn) (off p) data /\ WF fn' /\ valid fn' p' /\ off p' = off p + length data.
Proof.
  induction fuel as [|fuel IH]; intros fn p data Hwf Hv Ho Hlen.
  - destruct data; [|cbn [length] in Hlen; lia]. cbn [write_loop].
    unfold overwrite. cbn [app length]. rewrite Nat.add_0_r, firstn_skipn. auto.
  - destruct data as [|b data'] eqn:Ed.
    + cbn [write_loop]. unfold overwrite. cbn [app length]. rewrite Nat.add_0_r, firstn_skipn. auto.
    + rewrite <- Ed in *. assert (Hd : data <> []) by (rewrite Ed; discriminate).
      replace (write_loop mb (S fuel) fn p data) with
        (let '(fn', p', n) := write_step mb fn p data in write_loop mb fuel fn' p' (skipn n data))
        by (rewrite Ed; reflexivity).
      destruct (write_step_ok mb Hmb fn p data Hwf Hv Hd) as [Hok Hval].
      destruct (write_step mb fn p data) as [[fn1 p1] n] eqn:Es.
      unfold step_ok, step_valid in *.
      destruct Hok as (Hn & Hc1 & Hwf1 & Hoff1).
      assert (Hlen1 : length (content fn1) >= off p + n).
      { rewrite Hc1. unfold overwrite. rewrite !app_length, !firstn_length. lia. }
      specialize (IH fn1 p1 (skipn n data) Hwf1 Hval).
      assert (Hsk : length (skipn n data) = length data - n) by apply skipn_length.
      destruct (write_loop mb fuel fn1 p1 (skipn n data)) as [fn' p'] eqn:El.
      destruct IH as (A & B & C & D); [lia|lia|].
      split; [|split; [exact B|split; [exact C|lia]]].
      rewrite A, Hc1, Hoff1.
      replace n with (length (firstn n data)) at 2 by (rewrite firstn_length; lia).
      rewrite overwrite_compose by exact Ho. rewrite firstn_skipn. reflexivity.
Qed.

(* ---------- seek ---------- *)
Lemma locate_ok l : forall t i0,
  Forall (fun s => 0 < slen s) l -> t < length (flat_map sbytes l) ->
  exists k o, locate l t i0 = (i0 + k, o) /\ k < length l /\ o < slen (nthseg l k) /\ pre_len l k + o = t.
Proof.
  induction l as [|s l IH]; intros t i0 Hpos Ht; cbn [flat_map length] in Ht; [lia|].
  inversion Hpos as [|? ? Hs Hpos']; subst.
  rewrite app_length in Ht.
  destruct t as [|t'] eqn:Et.
  - exists 0, 0. cbn [locate]. repeat split; try (cbn [length]; lia).
    + rewrite Nat.add_0_r. reflexivity.
    + unfold nthseg; cbn [nth]. exact Hs.
  - rewrite <- Et in *. assert (Hloc : locate (s :: l) t i0 =
        if t <? slen s then (i0, t) else locate l (t - slen s) (S i0)).
    { rewrite Et. reflexivity. }
    rewrite Hloc. destruct (t <? slen s) eqn:E.
    + apply Nat.ltb_lt in E. exists 0, t. repeat split; try (cbn [length]; lia).
      * rewrite Nat.add_0_r. reflexivity.
      * unfold nthseg; cbn [nth]. exact E.
    + apply Nat.ltb_ge in E.
      destruct (IH (t - slen s) (S i0) Hpos') as (k & o & A & B & C & D); [unfold slen in *; lia|].
      exists (S k), o. repeat split.
      * rewrite A. f_equal. lia.
      * cbn [length]. lia.
      * unfold nthseg in *; cbn [nth]. exact C.
      * unfold pre_len in *. cbn [firstn flat_map]. rewrite app_length. unfold slen in *. lia.
Qed.

Lemma seek_valid fn p :
  WF fn -> off p <= size fn ->
  (rep p = Some (repacked fn) -> valid fn p) ->
  valid fn (seek fn p) /\ off (seek fn p) = off p.
Proof.
  intros [Hsz Hpos] Hle Hh. unfold seek.
  destruct (size fn <=? off p) eqn:E1.
  - apply Nat.leb_le in E1. split; [|reflexivity]. split; cbn [off idx soff].
    + unfold content in Hsz. rewrite pre_len_all by lia. lia.
    + right; auto.
  - apply Nat.leb_gt in E1.
    assert (Hlt : off p < length (flat_map sbytes (segs fn))) by (unfold content in Hsz; lia).
    assert (Hloc : valid fn (let '(i, o) := locate (segs fn) (off p) 0 in
                    {| off := off p; idx := i; soff := o; rep := Some (repacked fn) |}) /\
                   off (let '(i, o) := locate (segs fn) (off p) 0 in
                    {| off := off p; idx := i; soff := o; rep := Some (repacked fn) |}) = off p).
    { destruct (locate_ok (segs fn) (off p) 0 Hpos Hlt) as (k & o & A & B & C & D).
      rewrite A. cbn [Nat.add]. split; [|reflexivity]. split; cbn [off idx soff]; [lia|left; auto]. }
    destruct (rep p) as [r|] eqn:Er; [|exact Hloc].
    destruct (r =? repacked fn) eqn:E2; [|exact Hloc].
    apply Nat.eqb_eq in E2. subst r. specialize (Hh eq_refl).
    destruct Hh as [Hoff [[Hi Hso]|[Hi Hso]]].
    + assert (E3 : (slen (nthseg (segs fn) (idx p)) <=? soff p) = false) by (apply Nat.leb_gt; exact Hso).
      rewrite E3. split; [|reflexivity]. split; [exact Hoff|left; auto].
    + exfalso. rewrite Hoff, Hi, Hso in E1. unfold content in Hsz. rewrite pre_len_all in E1 by lia. lia.
Qed.

(* ---------- Read (one call reads from one segment) ---------- *)
Lemma skipn_at_valid fn p :
  valid fn p -> idx p < length (segs fn) ->
  skipn (off p) (content fn) =
  skipn (soff p) (sbytes (nthseg (segs fn) (idx p))) ++ flat_map sbytes (skipn (S (idx p)) (segs fn)).
Proof.
  intros [Hoff Hc] Hi.
  assert (Hso : soff p < length (sbytes (nthseg (segs fn) (idx p)))).
  { destruct Hc as [[_ B]|[A _]]; [exact B|lia]. }
  unfold content. rewrite (content_split (segs fn) (idx p) Hi) at 1.
  rewrite Hoff. unfold pre_len.
  rewrite skipn_app. rewrite skipn_all2 by lia. cbn [app].
  replace (length (flat_map sbytes (firstn (idx p) (segs fn))) + soff p
           - length (flat_map sbytes (firstn (idx p) (segs fn)))) with (soff p) by lia.
  rewrite skipn_app.
  destruct (le_lt_dec (soff p) (length (sbytes (nthseg (segs fn) (idx p))))) as [Hle|Hgt].
  - replace (soff p - length (sbytes (nthseg (segs fn) (idx p)))) with 0 by lia. reflexivity.
  - exfalso. lia.
Qed.

Ltac splits := repeat (match goal with |- _ /\ _ => apply conj end).

Theorem fn_read_ok fn n p0 :
  WF fn -> (rep p0 = Some (repacked fn) -> valid fn p0) ->
  let '(data, p', eof) := fn_read fn n p0 in
  data = firstn (length data) (skipn (off p0) (content fn)) /\
  length data <= n /\
  off p' = off p0 + length data /\
  (size fn <= off p0 -> data = [] /\ eof = true) /\
  (off p0 < size fn -> 0 < n -> 0 < length data) /\
  (off p0 <= size fn -> valid fn p').
Proof.
  intros Hwf Hh. assert (Hwf' := Hwf). destruct Hwf' as [Hsz Hpos].
  unfold fn_read.
  destruct (le_lt_dec (off p0) (size fn)) as [Hle|Hgt].
  - destruct (seek_valid fn p0 Hwf Hle Hh) as [Hv Hoff].
    set (p := seek fn p0) in *.
    destruct (length (segs fn) <=? idx p) eqn:E1.
    + apply Nat.leb_le in E1.
      assert (Hend : idx p = length (segs fn) /\ soff p = 0) by (destruct Hv as [_ [[A _]|[A B]]]; [lia|auto]).
      assert (off p = size fn).
      { destruct Hv as [Ho _]. destruct Hend as [A B]. rewrite Ho, A, B. unfold content in Hsz.
        rewrite pre_len_all by lia. lia. }
      cbn [length firstn]. splits; auto; try lia.
    + apply Nat.leb_gt in E1.
      set (s := nthseg (segs fn) (idx p)) in *.
      assert (Hso : soff p < slen s) by (destruct Hv as [_ [[_ B]|[A _]]]; [exact B|lia]).
      set (data := firstn n (skipn (soff p) (sbytes s))).
      assert (Hsk : length (skipn (soff p) (sbytes s)) = slen s - soff p) by apply skipn_length.
      assert (Hld : length data = Nat.min n (slen s - soff p)) by (unfold data; rewrite firstn_length; lia).
      assert (Hpref : data = firstn (length data) (skipn (off p0) (content fn))).
      { rewrite <- Hoff. rewrite (skipn_at_valid fn p Hv E1). fold s.
        rewrite firstn_app. replace (length data - length (skipn (soff p) (sbytes s))) with 0 by lia.
        cbn [firstn]. rewrite app_nil_r. rewrite Hld. unfold data.
        destruct (le_lt_dec n (slen s - soff p)) as [Hc|Hc].
        - rewrite Nat.min_l by lia. reflexivity.
        - rewrite Nat.min_r by lia. rewrite !firstn_all2 by lia. reflexivity. }
      assert (Hlt : off p0 < size fn).
      { destruct Hv as [Ho _]. rewrite <- Hoff, Ho. unfold content in Hsz. rewrite Hsz.
        rewrite (content_split (segs fn) (idx p) E1). rewrite !app_length. unfold pre_len. fold s. unfold slen in *. lia. }
      destruct (length data =? 0) eqn:E0.
      * apply Nat.eqb_eq in E0. splits; auto; try lia.
      * apply Nat.eqb_neq in E0.
        destruct (soff p + length data =? slen s) eqn:E2.
        -- apply Nat.eqb_eq in E2. cbn [off]. splits; auto; try lia.
           intros _. split; cbn [off idx soff].
           ++ destruct Hv as [Ho _]. rewrite pre_len_S by auto. fold s. lia.
           ++ destruct (Nat.eq_dec (S (idx p)) (length (segs fn))); [right; auto|left].
              split; [lia|]. rewrite Forall_forall in Hpos. apply Hpos. apply nthseg_in. lia.
        -- apply Nat.eqb_neq in E2. cbn [off]. splits; auto; try lia.
           intros _. split; cbn [off idx soff].
           ++ destruct Hv as [Ho _]. lia.
           ++ left. split; [auto|]. fold s. lia.
  - (* offset beyond EOF *)
    unfold seek. assert (E : (size fn <=? off p0) = true) by (apply Nat.leb_le; lia). rewrite E.
    cbn [idx]. rewrite Nat.leb_refl. cbn [length firstn off]. splits; auto; try lia.
Qed.

(* ---------- truncate ---------- *)
Lemma mem_resize_shrink b n : n <= length b -> mem_resize b n = firstn n b.
Proof. intros H. unfold mem_resize. replace (n - length b) with 0 by lia. cbn [repeat]. apply app_nil_r. Qed.
Lemma mem_resize_grow b n : length b <= n -> mem_resize b n = b ++ repeat 0 (n - length b).
Proof. intros H. unfold mem_resize. rewrite firstn_all2 by lia. reflexivity. Qed.
Lemma mem_resize_length b n : length (mem_resize b n) = n.
Proof.
  unfold mem_resize. rewrite app_length, firstn_length, repeat_length. lia.
Qed.

Lemma firstn_content_plus l i o :
  i < length l -> o <= slen (nthseg l i) ->
  firstn (pre_len l i + o) (flat_map sbytes l) = flat_map sbytes (firstn i l) ++ firstn o (sbytes (nthseg l i)).
Proof.
  intros Hi Ho. rewrite (content_split l i Hi) at 1. unfold pre_len.
  rewrite firstn_app. rewrite firstn_all2 by lia. f_equal.
  replace (length (flat_map sbytes (firstn i l)) + o - length (flat_map sbytes (firstn i l))) with o by lia.
  rewrite firstn_app. unfold slen in Ho. replace (o - length (sbytes (nthseg l i))) with 0 by lia.
  cbn [firstn]. apply app_nil_r.
Qed.

Section Truncate.
Variable mb : nat.
Hypothesis mb_pos : 1 <= mb.

Lemma truncate_shrink_ok fn want :
  WF fn -> want < size fn ->
  content (fn_truncate mb fn want) = firstn want (content fn) /\ WF (fn_truncate mb fn want) /\
  repacked (fn_truncate mb fn want) = S (repacked fn).
Proof.
  intros [Hsz Hpos] Hlt. unfold fn_truncate.
  assert (E1 : (want =? size fn) = false) by (apply Nat.eqb_neq; lia).
  assert (E2 : (want <? size fn) = true) by (apply Nat.ltb_lt; lia).
  rewrite E1, E2.
  unfold seek. cbn [size off rep segs].
  assert (E3 : (size fn <=? want) = false) by (apply Nat.leb_gt; lia). rewrite E3.
  assert (Hw : want < length (flat_map sbytes (segs fn))) by (unfold content in Hsz; lia).
  destruct (locate_ok (segs fn) want 0 Hpos Hw) as (k & o & A & B & C & D).
  rewrite A. cbn [Nat.add idx soff].
  set (l := segs fn) in *.
  destruct (o =? 0) eqn:E0.
  - apply Nat.eqb_eq in E0. subst o. rewrite Nat.add_0_r in D.
    split; [|split; [|reflexivity]].
    + unfold content. cbn [segs]. fold l. rewrite <- D. symmetry. apply firstn_content.
    + split; cbn [segs size].
      * unfold content. cbn [segs]. rewrite <- D. unfold pre_len. reflexivity.
      * apply Forall_firstn. exact Hpos.
  - apply Nat.eqb_neq in E0.
    assert (Hnew : exists x, sbytes x = firstn o (sbytes (nthseg l k)) /\
       (match nthseg l k with
        | Mem b tok => set_nth (firstn (S k) l) k (Mem (mem_resize b o) tok)
        | Sto b loc bsz boff => set_nth (firstn (S k) l) k (slice (Sto b loc bsz boff) 0 (Some o))
        end) = firstn k l ++ [x]).
    { assert (Hf : firstn k (firstn (S k) l) = firstn k l) by (rewrite firstn_firstn; f_equal; lia).
      assert (Hs : skipn (S k) (firstn (S k) l) = []) by (apply skipn_all2; rewrite firstn_length; lia).
      destruct (nthseg l k) as [b|b] eqn:Es.
      - exists (Mem (mem_resize b o) tok). split.
        + cbn [sbytes]. apply mem_resize_shrink. unfold slen in C. cbn [sbytes] in C. lia.
        + unfold set_nth. rewrite Hf, Hs. reflexivity.
      - exists (slice (Sto b loc bsz boff) 0 (Some o)). split.
        + rewrite sbytes_slice_some. reflexivity.
        + unfold set_nth. rewrite Hf, Hs. reflexivity. }
    destruct Hnew as (x & Hx & Hl). rewrite Hl.
    assert (Hc : flat_map sbytes (firstn k l ++ [x]) = firstn want (flat_map sbytes l)).
    { rewrite flat_map_app. cbn [flat_map]. rewrite app_nil_r, Hx. rewrite <- D.
      symmetry. apply firstn_content_plus; [auto|lia]. }
    split; [exact Hc|split; [|reflexivity]].
    split; cbn [segs size].
    + unfold content. cbn [segs]. rewrite Hc. rewrite firstn_length. lia.
    + apply Forall_app; split; [apply Forall_firstn; exact Hpos|]. constructor; [|constructor].
      unfold slen. rewrite Hx. rewrite firstn_length. unfold slen in C. lia.
Qed.
End Truncate.

Section Grow.
Variable mb : nat.
Hypothesis mb_pos : 1 <= mb.

Lemma grow_ok fuel : forall l sz want,
  sz = length (flat_map sbytes l) -> Forall (fun s => 0 < slen s) l -> want - sz <= fuel -> sz <= want ->
  let '(l', sz') := grow mb fuel l sz want in
  flat_map sbytes l' = flat_map sbytes l ++ repeat 0 (want - sz) /\ sz' = want /\
  Forall (fun s => 0 < slen s) l' /\ sz' = length (flat_map sbytes l').
Proof.
  induction fuel as [|fuel IH]; intros l sz want Hsz Hpos Hfuel Hle.
  - cbn [grow]. replace (want - sz) with 0 by lia. cbn [repeat]. rewrite app_nil_r.
    repeat split; auto; lia.
  - cbn [grow]. destruct (want <=? sz) eqn:E.
    + apply Nat.leb_le in E. replace (want - sz) with 0 by lia. cbn [repeat]. rewrite app_nil_r.
      repeat split; auto; lia.
    + apply Nat.leb_gt in E.
      (* common: appending a fresh zero-filled memSegment *)
      assert (Happ : forall g, g = Nat.min (want - sz) mb ->
        let '(l', sz') := grow mb fuel (l ++ [Mem (mem_resize [] g) None]) (sz + g) want in
        flat_map sbytes l' = flat_map sbytes l ++ repeat 0 (want - sz) /\ sz' = want /\
        Forall (fun s => 0 < slen s) l' /\ sz' = length (flat_map sbytes l')).
      { intros g Hg. assert (1 <= g <= want - sz) by lia.
        specialize (IH (l ++ [Mem (mem_resize [] g) None]) (sz + g) want).
        destruct (grow mb fuel (l ++ [Mem (mem_resize [] g) None]) (sz + g) want) as [l' sz'].
        destruct IH as (A & B & C & D).
        - rewrite flat_map_app, app_length. cbn [flat_map sbytes]. rewrite app_nil_r, mem_resize_length. lia.
        - apply Forall_app; split; [exact Hpos|]. constructor; [|constructor].
          unfold slen. cbn [sbytes]. rewrite mem_resize_length. lia.
        - lia.
        - lia.
        - split; [|auto]. rewrite A. rewrite flat_map_app. cbn [flat_map sbytes]. rewrite app_nil_r.
          rewrite mem_resize_grow by (cbn [length]; lia). cbn [app length]. rewrite Nat.sub_0_r.
          rewrite <- app_assoc. f_equal. rewrite <- repeat_app. f_equal. lia. }
      destruct (rev l) as [|[b|b] r] eqn:Er; try (apply Happ; reflexivity).
      destruct (length b <? mb) eqn:Eb; [|apply Happ; reflexivity].
      apply Nat.ltb_lt in Eb.
      assert (Hl : l = rev r ++ [Mem b tok]).
      { rewrite <- (rev_involutive l). rewrite Er. reflexivity. }
      set (g := Nat.min (want - sz) (mb - length b)).
      assert (Hg : 1 <= g <= want - sz) by (unfold g; lia).
      specialize (IH (rev r ++ [Mem (mem_resize b (length b + g)) None]) (sz + g) want).
      destruct (grow mb fuel (rev r ++ [Mem (mem_resize b (length b + g)) None]) (sz + g) want) as [l' sz'].
      assert (Hpos_r : Forall (fun s => 0 < slen s) (rev r)).
      { rewrite Hl in Hpos. apply Forall_app in Hpos. tauto. }
      destruct IH as (A & B & C & D).
      * rewrite Hsz, Hl. rewrite !flat_map_app, !app_length. cbn [flat_map sbytes]. rewrite !app_nil_r.
        rewrite mem_resize_length. lia.
      * apply Forall_app; split; [exact Hpos_r|]. constructor; [|constructor].
        unfold slen. cbn [sbytes]. rewrite mem_resize_length. lia.
      * lia.
      * lia.
      * split; [|auto]. rewrite A. rewrite Hl. rewrite !flat_map_app. cbn [flat_map sbytes]. rewrite !app_nil_r.
        rewrite mem_resize_grow by lia. rewrite <- !app_assoc. f_equal. f_equal.
        rewrite <- repeat_app. f_equal. lia.
Qed.

Theorem truncate_grow_ok fn want :
  WF fn -> size fn < want ->
  content (fn_truncate mb fn want) = content fn ++ repeat 0 (want - size fn) /\
  WF (fn_truncate mb fn want) /\ size (fn_truncate mb fn want) = want /\
  repacked (fn_truncate mb fn want) = S (repacked fn).
Proof.
  intros [Hsz Hpos] Hlt. unfold fn_truncate.
  assert (E1 : (want =? size fn) = false) by (apply Nat.eqb_neq; lia).
  assert (E2 : (want <? size fn) = false) by (apply Nat.ltb_ge; lia).
  rewrite E1, E2.
  pose proof (grow_ok (S (want - size fn)) (segs fn) (size fn) want Hsz Hpos ltac:(lia) ltac:(lia)) as H.
  destruct (grow mb (S (want - size fn)) (segs fn) (size fn) want) as [l' sz'].
  destruct H as (A & B & C & D).
  unfold content, WF. cbn [segs size repacked]. repeat split; auto.
Qed.
End Grow.

(* ---------- handles: the repacked counter ---------- *)
Definition handle_ok (fn : fnode) (p : ptr) : Prop :=
  match rep p with
  | Some r => r <= repacked fn /\ (r = repacked fn -> valid fn p)
  | None => True
  end.

Lemma ptr_after_rep l p i so n rp : rep (ptr_after l p i so n rp) = rp.
Proof. unfold ptr_after. destruct (slen (nthseg l i) =? so); reflexivity. Qed.

Lemma valid_same_lengths fn fn' q :
  map slen (segs fn') = map slen (segs fn) -> valid fn q -> valid fn' q.
Proof.
  intros Hm [Hoff Hc].
  assert (Hlen : length (segs fn') = length (segs fn)).
  { rewrite <- (map_length slen (segs fn')), Hm, map_length. reflexivity. }
  assert (Hnth : forall i, slen (nthseg (segs fn') i) = slen (nthseg (segs fn) i)).
  { intros i. unfold nthseg. rewrite <- !(map_nth slen). rewrite Hm. reflexivity. }
  assert (Hpre : forall i, pre_len (segs fn') i = pre_len (segs fn) i).
  { intros i. unfold pre_len.
    assert (G : forall l, length (flat_map sbytes l) = list_sum (map slen l)).
    { induction l as [|s l IH]; cbn [flat_map map list_sum length]; [reflexivity|].
      rewrite app_length, IH. reflexivity. }
    rewrite !G. rewrite <- !firstn_map. rewrite Hm. reflexivity. }
  split; [rewrite Hpre; exact Hoff|].
  rewrite Hlen, Hnth. exact Hc.
Qed.

Lemma skipn_cons_nth' (l : list seg) i : i < length l -> skipn i l = nthseg l i :: skipn (S i) l.
Proof.
  revert i. induction l as [|s l IH]; intros i Hi; cbn [length] in Hi; [inversion Hi|].
  destruct i; [reflexivity|]. cbn [skipn]. rewrite IH by (apply Nat.succ_lt_mono; exact Hi). reflexivity.
Qed.

Section WriteTop.
Variable mb : nat.
Hypothesis mb_pos : 1 <= mb.

(* one step: the writer's own ptr stays in sync; the node's counter is monotone, and if it did not
   move then segment lengths did not change (so other handles' ptrs stay valid) *)
Lemma write_step_rep fn p data :
  WF fn -> valid fn p -> data <> [] ->
  let '(fn', p', _) := write_step mb fn p data in
  (rep p = Some (repacked fn) -> rep p' = Some (repacked fn')) /\
  repacked fn <= repacked fn' /\
  (repacked fn' = repacked fn -> map slen (segs fn') = map slen (segs fn)).
Proof.
  intros Hwf Hv Hd. unfold write_step. cbv zeta.
  destruct ((0 <? soff p) && negb (cur_writable fn p)) eqn:E1.
  - unfold ws_split. cbv zeta.
    destruct (slen (nthseg (segs fn) (idx p)) - soff p <=? length (firstn mb data));
      cbn [repacked]; rewrite ptr_after_rep; (split; [intros ->; reflexivity|split; [lia|intros; lia]]).
  - destruct (cur_writable fn p) eqn:E2.
    + unfold ws_inplace. cbv zeta. cbn [repacked segs]. rewrite ptr_after_rep.
      split; [auto|split; [lia|intros _]].
      (* lengths unchanged by an in-place write *)
      unfold cur_writable in E2. destruct (idx p <? length (segs fn)) eqn:E3; [|discriminate].
      apply Nat.ltb_lt in E3.
      set (s := nthseg (segs fn) (idx p)).
      set (cando := firstn (slen s - soff p) (firstn mb data)).
      assert (Hc2 : length cando <= slen s - soff p) by (unfold cando; rewrite firstn_length; lia).
      assert (Hso : soff p < slen s).
      { destruct Hv as [_ [[_ B]|[A _]]]; [exact B|lia]. }
      unfold set_nth. rewrite map_app. cbn [map].
      rewrite <- (firstn_skipn (idx p) (segs fn)) at 3. rewrite map_app.
      f_equal. rewrite (skipn_cons_nth' (segs fn) (idx p) E3). cbn [map]. f_equal.
      unfold slen at 1. cbn [sbytes]. fold s. rewrite mem_write_length; [reflexivity|unfold slen in *; lia].
    + destruct (prev_appendable mb (segs fn) (idx p)).
      * unfold ws_grow_prev. cbv zeta.
        destruct (adjust_cur fn (idx p) (firstn (mb - slen (nthseg (segs fn) (Nat.pred (idx p)))) (firstn mb data))) as [[c l1] sz].
        cbn [repacked]. rewrite ptr_after_rep. split; [intros ->; reflexivity|split; [lia|intros; lia]].
      * unfold ws_insert. cbv zeta.
        destruct (adjust_cur fn (idx p) (firstn mb data)) as [[c l1] sz].
        cbn [repacked]. rewrite ptr_after_rep. split; [intros ->; reflexivity|split; [lia|intros; lia]].
Qed.

Lemma write_loop_rep fuel : forall fn p data,
  WF fn -> valid fn p -> off p <= length (content fn) -> length data <= fuel ->
  let '(fn', p') := write_loop mb fuel fn p data in
  (rep p = Some (repacked fn) -> rep p' = Some (repacked fn')) /\
  repacked fn <= repacked fn' /\
  (repacked fn' = repacked fn -> map slen (segs fn') = map slen (segs fn)).
Proof.
  induction fuel as [|fuel IH]; intros fn p data Hwf Hv Ho Hlen.
  - destruct data; [|cbn [length] in Hlen; lia]. cbn [write_loop]. auto.
  - destruct data as [|b data'] eqn:Ed; [cbn [write_loop]; auto|].
    rewrite <- Ed in *. assert (Hd : data <> []) by (rewrite Ed; discriminate).
    replace (write_loop mb (S fuel) fn p data) with
      (let '(fn', p', n) := write_step mb fn p data in write_loop mb fuel fn' p' (skipn n data))
      by (rewrite Ed; reflexivity).
    destruct (write_step_ok mb mb_pos fn p data Hwf Hv Hd) as [Hok Hval].
    pose proof (write_step_rep fn p data Hwf Hv Hd) as Hrep.
    destruct (write_step mb fn p data) as [[fn1 p1] n] eqn:Es.
    unfold step_ok, step_valid in *.
    destruct Hok as (Hn & Hc1 & Hwf1 & Hoff1). destruct Hrep as (R1 & R2 & R3).
    assert (Hlen1 : off p1 <= length (content fn1)).
    { rewrite Hc1, Hoff1. unfold overwrite. rewrite !app_length, !firstn_length. lia. }
    assert (Hsk : length (skipn n data) = length data - n) by apply skipn_length.
    specialize (IH fn1 p1 (skipn n data) Hwf1 Hval Hlen1 ltac:(lia)).
    destruct (write_loop mb fuel fn1 p1 (skipn n data)) as [fn' p'].
    destruct IH as (A & B & C).
    split; [auto|split; [lia|]].
    intros He. assert (repacked fn1 = repacked fn) by lia. assert (repacked fn' = repacked fn1) by lia.
    rewrite C by auto. apply R3; auto.
Qed.

Theorem fn_write_ok fn p0 data :
  WF fn -> handle_ok fn p0 ->
  let '(fn', p') := fn_write mb fn p0 data in
  content fn' = overwrite (content fn ++ repeat 0 (off p0 - size fn)) (off p0) data /\
  WF fn' /\ valid fn' p' /\ off p' = off p0 + length data /\ rep p' = Some (repacked fn') /\
  (* other handles *)
  (forall q, handle_ok fn q -> handle_ok fn' q) /\
  repacked fn <= repacked fn' /\
  (repacked fn' = repacked fn -> map slen (segs fn') = map slen (segs fn)).
Proof.
  intros Hwf Hh. unfold fn_write.
  set (fn1 := if size fn <? off p0 then fn_truncate mb fn (off p0) else fn).
  assert (H1 : content fn1 = content fn ++ repeat 0 (off p0 - size fn) /\ WF fn1 /\ off p0 <= size fn1 /\
               repacked fn <= repacked fn1 /\
               (repacked fn1 = repacked fn -> fn1 = fn)).
  { unfold fn1. destruct (size fn <? off p0) eqn:E.
    - apply Nat.ltb_lt in E. destruct (truncate_grow_ok mb mb_pos fn (off p0) Hwf E) as (A & B & C & D).
      split; [exact A|]. split; [exact B|]. split; [lia|]. split; [lia|]. intros; lia.
    - apply Nat.ltb_ge in E. replace (off p0 - size fn) with 0 by lia. cbn [repeat]. rewrite app_nil_r.
      split; [reflexivity|]. split; [exact Hwf|]. split; [exact E|]. split; [lia|]. reflexivity. }
  destruct H1 as (Hc1 & Hwf1 & Hle1 & Hmono1 & Hsame1).
  assert (Hh1 : rep p0 = Some (repacked fn1) -> valid fn1 p0).
  { intros Hr. unfold handle_ok in Hh. rewrite Hr in Hh. destruct Hh as [Hle Hv].
    assert (repacked fn1 = repacked fn) by lia. rewrite (Hsame1 H) in *. apply Hv. congruence. }
  destruct (seek_valid fn1 p0 Hwf1 Hle1 Hh1) as [Hv Hoff].
  set (p := seek fn1 p0) in *.
  assert (Hrp : rep p = Some (repacked fn1)).
  { unfold p, seek. destruct (size fn1 <=? off p0); [reflexivity|].
    destruct (rep p0) as [r|] eqn:Er.
    - destruct (r =? repacked fn1) eqn:E.
      + apply Nat.eqb_eq in E. subst r.
        destruct (slen (nthseg (segs fn1) (idx p0)) <=? soff p0); [reflexivity|exact Er].
      + destruct (locate (segs fn1) (off p0) 0); reflexivity.
    - destruct (locate (segs fn1) (off p0) 0); reflexivity. }
  assert (Hop : off p <= length (content fn1)).
  { rewrite Hoff. destruct Hwf1 as [Hs _]. lia. }
  pose proof (write_loop_ok mb mb_pos (length data + length (segs fn1) + 1) fn1 p data Hwf1 Hv Hop ltac:(lia)) as HL.
  pose proof (write_loop_rep (length data + length (segs fn1) + 1) fn1 p data Hwf1 Hv Hop ltac:(lia)) as HR.
  destruct (write_loop mb (length data + length (segs fn1) + 1) fn1 p data) as [fn' p'].
  destruct HL as (A & B & C & D). destruct HR as (R1 & R2 & R3).
  split; [rewrite A, Hc1, Hoff; reflexivity|].
  split; [exact B|]. split; [exact C|]. split; [lia|]. split; [auto|].
  split.
  { intros q Hq. unfold handle_ok in *. destruct (rep q) as [r|]; [|exact I].
    destruct Hq as [Hle Hvq]. split; [lia|].
    intros Hr. assert (E1 : repacked fn1 = repacked fn) by lia. assert (E2 : repacked fn' = repacked fn1) by lia.
    rewrite (Hsame1 E1) in *.
    eapply valid_same_lengths; [apply R3; exact E2|]. apply Hvq. lia. }
  split; [lia|].
  intros Hr. assert (E1 : repacked fn1 = repacked fn) by lia. assert (E2 : repacked fn' = repacked fn1) by lia.
  rewrite <- (Hsame1 E1). apply R3; exact E2.
Qed.
End WriteTop.
