(* C05 — the repaired algorithm (model/C05_fixed.v = current code + fixes/F1_F10.diff, F8.diff,
   F12.diff) meets the WHOLE specification for every layout: no hypothesis on shared devices, on
   mounts per class and server, on desired classes or on read-only flags. *)
From Coq Require Import List Arith Bool Lia Permutation NArith.
From AV Require Import model.C05_model model.C05_run model.C05_fixed
  proofs.C05_proofs proofs.C05_safety proofs.C05_repl proofs.C05_phys proofs.C05_spec proofs.C05_witness.
Import ListNotations.

(* ---------- slots evolve as before ---------- *)
Lemma try_slot_f_wle d a s a' s' dn : try_slot_f d a s = (a', s', dn) -> wle s s'.
Proof.
  unfold try_slot_f. intros H.
  destruct (mem (mid (smnt s)) (wantMnt a) || negb (dev (smnt s) =? 0) && mem (dev (smnt s)) (wantDev a)).
  - injection H as _ <- _. apply wle_refl.
  - match type of H with (if ?c then _ else _) = _ => destruct c end; injection H as _ <- _.
    + right; reflexivity.
    + apply wle_refl.
Qed.
Lemma pass_f_wle dist d : forall l a dn a' dn' l',
  pass_f dist d a dn l = (a', dn', l') -> Forall2 wle l l'.
Proof.
  induction l as [|s r IH]; intros a dn a' dn' l' H; simpl in H.
  - injection H as _ _ <-. constructor.
  - destruct dn.
    + injection H as _ _ <-. clear. induction (s :: r); constructor; auto using wle_refl.
    + destruct (dist && mem (msrv (smnt s)) (wantSrv a)).
      * destruct (pass_f dist d a false r) as [[a1 d1] r1] eqn:E. injection H as _ _ <-.
        constructor; [apply wle_refl|eapply IH; eauto].
      * destruct (try_slot_f d a s) as [[a1 s1] d1] eqn:Et.
        destruct (pass_f dist d a1 d1 r) as [[a2 d2] r2] eqn:E. injection H as _ _ <-.
        constructor; [eapply try_slot_f_wle; eauto|eapply IH; eauto].
Qed.

Lemma protect_uns_incl dflt c d : forall l prot uns pd prot' uns' pd',
  protect dflt c d l prot uns pd = (prot', uns', pd') -> incl uns uns' /\ incl pd pd'.
Proof.
  induction l as [|s r IH]; intros prot uns pd prot' uns' pd' H; simpl in H.
  - injection H as _ <- <-. split; apply incl_refl.
  - destruct (d <=? prot); [injection H as _ <- <-; split; apply incl_refl|].
    destruct (srepl s) as [mt|]; [|eapply IH; eauto].
    destruct (inclass dflt c (smnt s) && negb (nz (dev (smnt s)) && mem (dev (smnt s)) pd)); [|eapply IH; eauto].
    apply IH in H. destruct H as [H1 H2]. split.
    + eapply incl_tran; [apply add_incl|exact H1].
    + eapply incl_tran; [|exact H2]. destruct (nz (dev (smnt s))); [apply incl_tl|]; apply incl_refl.
Qed.
Lemma protect_devs_incl wd pd l uns : incl uns (protect_devs wd pd l uns).
Proof.
  unfold protect_devs. revert uns. induction l as [|s r IH]; intros uns; simpl; [apply incl_refl|].
  eapply incl_tran; [|apply IH]. destruct (srepl s); [|apply incl_refl].
  destruct (nz (dev (smnt s)) && (mem (dev (smnt s)) wd || mem (dev (smnt s)) pd)); [apply add_incl|apply incl_refl].
Qed.
Lemma protect_devs_in wd pd l s t : forall uns,
  In s l -> srepl s = Some t -> nz (dev (smnt s)) = true -> In (dev (smnt s)) pd ->
  In t (protect_devs wd pd l uns).
Proof.
  unfold protect_devs. induction l as [|x r IH]; intros uns Hs Hr Hz Hp; [contradiction|]. simpl.
  destruct Hs as [->|Hs]; [|apply IH; auto].
  rewrite Hr, Hz. apply mem_In in Hp. rewrite Hp, orb_true_r. simpl.
  apply (protect_devs_incl wd pd r). apply add_In. auto.
Qed.

Lemma do_class_f_unfold dflt rank devrank c d sl uns under :
  d <> 0 ->
  exists prot uns1 pd a1 d1 l1 a2 d2 l2,
    protect dflt c d (isort dflt rank devrank c sl) 0 uns [] = (prot, uns1, pd) /\
    pass_f true d (acc0 uns1) false (isort dflt rank devrank c sl) = (a1, d1, l1) /\
    pass_f false d a1 d1 l1 = (a2, d2, l2) /\
    do_class_f dflt rank devrank c d (sl, uns, under) =
      (l2, protect_devs (wantDev a2) pd l2 uns1, if under then true else prot <? d).
Proof.
  intros Hd. unfold do_class_f. destruct (d =? 0) eqn:E; [apply Nat.eqb_eq in E; contradiction|].
  destruct (protect dflt c d (isort dflt rank devrank c sl) 0 uns []) as [[prot uns1] pd] eqn:E0.
  destruct (pass_f true d (acc0 uns1) false (isort dflt rank devrank c sl)) as [[a1 d1] l1] eqn:E1.
  destruct (pass_f false d a1 d1 l1) as [[a2 d2] l2] eqn:E2.
  exists prot, uns1, pd, a1, d1, l1, a2, d2, l2. auto.
Qed.

Lemma do_class_f_evolves dflt rank devrank c d st : evolves st (do_class_f dflt rank devrank c d st).
Proof.
  destruct st as [[sl uns] under].
  destruct (Nat.eq_dec d 0) as [->|Hd]; [unfold do_class_f; simpl; apply evolves_refl|].
  destruct (do_class_f_unfold dflt rank devrank c d sl uns under Hd)
    as (prot & uns1 & pd & a1 & d1 & l1 & a2 & d2 & l2 & E0 & E1 & E2 & ->).
  split; simpl.
  - exists (isort dflt rank devrank c sl). split; [symmetry; apply isort_perm|].
    pose proof (pass_f_wle _ _ _ _ _ _ _ _ E1) as W1. pose proof (pass_f_wle _ _ _ _ _ _ _ _ E2) as W2.
    clear - W1 W2. revert l2 W2. induction W1; intros l2 W2; inversion W2; subst; constructor.
    + destruct H as [->| ->]; auto. destruct H2 as [->| ->]; right; reflexivity.
    + apply IHW1; auto.
  - eapply incl_tran; [|apply protect_devs_incl]. apply (protect_uns_incl _ _ _ _ _ _ _ _ _ _ E0).
  - intros ->. reflexivity.
Qed.
Lemma run_classes_f_evolves dflt rank devrank desired classes : forall st,
  evolves st (fold_left (fun st c => do_class_f dflt rank devrank c (lookup desired c) st) classes st).
Proof.
  induction classes as [|c r IH]; intros st; simpl; [apply evolves_refl|].
  eapply evolves_trans; [apply do_class_f_evolves|apply IH].
Qed.

Lemma final_slots_f_ok dflt rank devrank mounts replicas classes desired :
  Forall (slot_ok mounts replicas) (final_slots_f dflt rank devrank mounts replicas classes desired).
Proof.
  unfold final_slots_f, run_classes_f.
  pose proof (run_classes_f_evolves dflt rank devrank desired classes
               (map (mkslot replicas) mounts, [], unoffered classes desired)) as Ev.
  destruct (fold_left _ classes _) as [[sl uns] under].
  assert (F0 : Forall (slot_ok mounts replicas) (map (mkslot replicas) mounts)).
  { rewrite Forall_forall. intros s Hs. apply in_map_iff in Hs. destruct Hs as (m & <- & Hm). apply mkslot_ok; auto. }
  pose proof (evolves_Forall _ _ _ (slot_ok_closed mounts replicas) Ev F0) as H1. simpl in H1.
  rewrite Forall_forall in *. intros x Hx. apply in_map_iff in Hx. destruct Hx as (s & <- & Hs).
  eapply wle_P; [apply slot_ok_closed|apply widen_wle|auto].
Qed.

(* ---------- the protection pass ---------- *)
(* the slots it protects (ghost mirror of `protect`) *)
Fixpoint protected (dflt c d : nat) (l : list slot) (prot : nat) (pd : list nat) : list slot :=
  match l with
  | [] => []
  | s :: r =>
    if d <=? prot then []
    else match srepl s with
         | Some mt =>
           if inclass dflt c (smnt s) && negb (nz (dev (smnt s)) && mem (dev (smnt s)) pd)
           then s :: protected dflt c d r (prot + mrepl (smnt s)) (if nz (dev (smnt s)) then dev (smnt s) :: pd else pd)
           else protected dflt c d r prot pd
         | None => protected dflt c d r prot pd
         end
  end.

Definition sum_repl (l : list slot) : nat := list_sum (map (fun s => mrepl (smnt s)) l).

Lemma protect_spec dflt c d : forall l prot uns pd prot' uns' pd',
  protect dflt c d l prot uns pd = (prot', uns', pd') ->
  prot' = prot + sum_repl (protected dflt c d l prot pd) /\
  forall s, In s (protected dflt c d l prot pd) ->
    In s l /\ inclass dflt c (smnt s) = true /\ (exists t, srepl s = Some t /\ In t uns') /\
    (nz (dev (smnt s)) = true -> In (dev (smnt s)) pd').
Proof.
  induction l as [|s r IH]; intros prot uns pd prot' uns' pd' H; simpl in *.
  - injection H as <- _ _. split; [unfold sum_repl; simpl; lia|tauto].
  - destruct (d <=? prot).
    + injection H as <- _ _. split; [unfold sum_repl; simpl; lia|simpl; tauto].
    + destruct (srepl s) as [mt|] eqn:Er.
      * destruct (inclass dflt c (smnt s) && negb (nz (dev (smnt s)) && mem (dev (smnt s)) pd)) eqn:Ec.
        -- pose proof (protect_uns_incl _ _ _ _ _ _ _ _ _ _ H) as [I1 I2].
           destruct (IH _ _ _ _ _ _ H) as [P1 P2]. split.
           ++ rewrite P1. unfold sum_repl. simpl. lia.
           ++ intros x [<-|Hx].
              ** apply andb_true_iff in Ec. destruct Ec as [Ec _].
                 split; [left; reflexivity|]. split; [exact Ec|]. split.
                 --- exists mt. split; [exact Er|]. apply I1. apply add_In. auto.
                 --- intros Hz. apply I2. rewrite Hz. left; reflexivity.
              ** destruct (P2 x Hx) as (A & B & C & D). split; [right; exact A|auto].
        -- destruct (IH _ _ _ _ _ _ H) as [P1 P2]. split; [exact P1|].
           intros x Hx. destruct (P2 x Hx) as (A & B & C & D). split; [right; exact A|auto].
      * destruct (IH _ _ _ _ _ _ H) as [P1 P2]. split; [exact P1|].
        intros x Hx. destruct (P2 x Hx) as (A & B & C & D). split; [right; exact A|auto].
Qed.

Lemma protected_sub dflt c d x : forall l prot pd, In x (protected dflt c d l prot pd) -> In x l.
Proof.
  induction l as [|y r IH]; intros prot pd Hx; simpl in Hx; [exact Hx|].
  destruct (d <=? prot); [destruct Hx|].
  destruct (srepl y); [|right; eapply IH; eauto].
  destruct (inclass dflt c (smnt y) && negb (nz (dev (smnt y)) && mem (dev (smnt y)) pd)); [|right; eapply IH; eauto].
  destruct Hx as [->|Hx]; [left; reflexivity|right; eapply IH; eauto].
Qed.

(* the protected slots sit on pairwise different physical devices *)
Lemma protected_pdev_nodup dflt c d : forall l prot pd,
  NoDup (map (fun s => mid (smnt s)) l) ->
  NoDup (map (fun s => pdev (smnt s)) (protected dflt c d l prot pd)) /\
  forall s, In s (protected dflt c d l prot pd) -> nz (dev (smnt s)) = true -> ~ In (dev (smnt s)) pd.
Proof.
  induction l as [|s r IH]; intros prot pd Hn; simpl.
  - split; [constructor|tauto].
  - inversion Hn as [|? ? Hnin Hn']; subst.
    destruct (d <=? prot); [split; [constructor|simpl; tauto]|].
    destruct (srepl s) as [mt|]; [|apply IH; exact Hn'].
    destruct (inclass dflt c (smnt s) && negb (nz (dev (smnt s)) && mem (dev (smnt s)) pd)) eqn:Ec; [|apply IH; exact Hn'].
    apply andb_true_iff in Ec. destruct Ec as [_ Ec]. apply negb_true_iff in Ec.
    set (pd1 := if nz (dev (smnt s)) then dev (smnt s) :: pd else pd).
    destruct (IH (prot + mrepl (smnt s)) pd1 Hn') as [N1 N2]. split.
    + simpl. constructor; [|exact N1].
      intro X. apply in_map_iff in X. destruct X as (x & Ex & Hx).
      unfold pdev in Ex. destruct (dev (smnt x) =? 0) eqn:Zx, (dev (smnt s) =? 0) eqn:Zs; try (injection Ex; intros; subst; simpl in *;
        apply Nat.eqb_neq in Zx || apply Nat.eqb_neq in Zs; congruence).
      * (* both blank: same mid, impossible *)
        injection Ex as Ex. apply Hnin. rewrite <- Ex. apply (in_map (fun s => mid (smnt s))).
        eapply protected_sub; exact Hx.
      * (* both non-blank: x's device is already in pd1 *)
        injection Ex as Ex.
        assert (Hz : nz (dev (smnt x)) = true) by (unfold nz; rewrite Zx; reflexivity).
        apply (N2 x Hx Hz). unfold pd1, nz. rewrite Zs. simpl. left. congruence.
    + intros x [<-|Hx] Hz.
      * rewrite Hz in Ec. simpl in Ec. apply mem_false in Ec. exact Ec.
      * intro X. apply (N2 x Hx Hz). unfold pd1. destruct (nz (dev (smnt s))); [right|]; exact X.
Qed.

(* ---------- sums over device lists ---------- *)
Lemma list_sum_incl {A} (f : A -> nat) (l1 : list A) : forall l2,
  NoDup l1 -> incl l1 l2 -> list_sum (map f l1) <= list_sum (map f l2).
Proof.
  induction l1 as [|x r IH]; intros l2 Hn Hi; simpl; [lia|].
  inversion Hn as [|? ? Hnin Hn']; subst.
  assert (Hx : In x l2) by (apply Hi; left; reflexivity).
  apply in_split in Hx. destruct Hx as (a & b & ->).
  rewrite map_app, list_sum_app. simpl.
  assert (Hr : incl r (a ++ b)).
  { intros y Hy. assert (In y (a ++ x :: b)) by (apply Hi; right; exact Hy).
    apply in_app_or in H. apply in_or_app. destruct H as [H|[H|H]]; auto. subst. contradiction. }
  specialize (IH (a ++ b) Hn' Hr). rewrite map_app, list_sum_app in IH. lia.
Qed.

Lemma fold_max_ge l x : In x l -> x <= fold_right Nat.max 0 l.
Proof. induction l as [|y r IH]; simpl; [tauto|]. intros [->|H]; [lia|]. specialize (IH H). lia. Qed.

Lemma dev_repl_ge dflt c eff m : In m eff -> inclass dflt c m = true -> mrepl m <= dev_repl dflt c eff (pdev m).
Proof.
  intros Hm Hc. unfold dev_repl. apply fold_max_ge. apply in_map. apply filter_In. split; [exact Hm|].
  rewrite Hc, andb_true_r. apply pd_eqb_eq. reflexivity.
Qed.

Lemma pd_nodup_In x l : In x (pd_nodup l) <-> In x l.
Proof.
  induction l as [|y r IH]; simpl; [tauto|].
  destruct (pd_mem y r) eqn:E.
  - rewrite IH. split; [auto|]. intros [->|H]; [apply pd_mem_In; exact E|exact H].
  - simpl. rewrite IH. tauto.
Qed.
Lemma pd_nodup_NoDup l : NoDup (pd_nodup l).
Proof.
  induction l as [|y r IH]; simpl; [constructor|].
  destruct (pd_mem y r) eqn:E; [exact IH|]. constructor; [|exact IH].
  rewrite pd_nodup_In. intro X. apply pd_mem_In in X. congruence.
Qed.

Lemma dev_repl_no_member dflt c eff p : (forall m, In m eff -> inclass dflt c m = false) -> dev_repl dflt c eff p = 0.
Proof.
  intros H. unfold dev_repl.
  assert (F : filter (fun m => pd_eqb (pdev m) p && inclass dflt c m) eff = []).
  { induction eff as [|m r IH]; simpl; [reflexivity|]. rewrite (H m (or_introl eq_refl)), andb_false_r.
    apply IH. intros; apply H; right; auto. }
  rewrite F. reflexivity.
Qed.

(* ---------- the state after all classes, seen from one desired class ---------- *)
Definition pdevs (l : list slot) : list pd := map (fun s => pdev (smnt s)) l.

Lemma slot_ok_sl0 eff repl : Forall (slot_ok eff repl) (map (mkslot repl) eff).
Proof. rewrite Forall_forall. intros s Hs. apply in_map_iff in Hs. destruct Hs as (m & <- & Hm). apply mkslot_ok; auto. Qed.

Lemma class_state dflt rank devrank eff repl desired classes k :
  NoDup (map mid eff) -> In k classes -> 0 < lookup desired k ->
  exists PS sl3 u3 n3,
    run_classes_f dflt rank devrank classes desired (map (mkslot repl) eff) = (sl3, u3, n3) /\
    NoDup (pdevs PS) /\
    (sum_repl PS < lookup desired k -> n3 = true) /\
    (forall s, In s PS -> slot_ok eff repl s /\ inclass dflt k (smnt s) = true /\
                          exists t, srepl s = Some t /\ In t u3) /\
    (forall s, In s PS -> nz (dev (smnt s)) = true ->
       forall s3 t, In s3 sl3 -> dev (smnt s3) = dev (smnt s) -> srepl s3 = Some t -> In t u3).
Proof.
  intros Hmid Hk Hd. unfold run_classes_f.
  set (sl0 := map (mkslot repl) eff). set (d := lookup desired k) in *.
  generalize (unoffered classes desired). intros n0.
  apply in_split in Hk. destruct Hk as (pre & post & ->). rewrite fold_left_app. simpl.
  pose proof (run_classes_f_evolves dflt rank devrank desired pre (sl0, [], n0)) as Ev1.
  destruct (fold_left _ pre _) as [[sl1 u1] n1].
  assert (Hd' : d <> 0) by lia. fold d.
  destruct (do_class_f_unfold dflt rank devrank k d sl1 u1 n1 Hd')
    as (prot & uns1 & pd & a1 & d1 & l1 & a2 & d2 & l2 & E0 & E1 & E2 & Eq).
  pose proof (do_class_f_evolves dflt rank devrank k d (sl1, u1, n1)) as Ev2. rewrite Eq in Ev2. rewrite Eq.
  match goal with |- context [fold_left ?f post ?st] =>
    pose proof (run_classes_f_evolves dflt rank devrank desired post st) as Ev3; destruct (fold_left f post st) as [[sl3 u3] n3] end.
  set (srt := isort dflt rank devrank k sl1) in *.
  set (PS := protected dflt k d srt 0 []).
  destruct (protect_spec dflt k d srt 0 u1 [] prot uns1 pd E0) as [Pp Ps]. fold PS in Pp, Ps. simpl in Pp.
  (* slots of srt are ok and have pairwise different mounts *)
  pose proof (evolves_Forall _ _ _ (slot_ok_closed eff repl) Ev1 (slot_ok_sl0 eff repl)) as Ok1. simpl in Ok1.
  assert (OkS : Forall (slot_ok eff repl) srt).
  { rewrite Forall_forall in *. intros s Hs. apply Ok1. eapply Permutation_in; [apply isort_perm|exact Hs]. }
  assert (NdS : NoDup (map (fun s => mid (smnt s)) srt)).
  { assert (P : Permutation (map (fun s => mid (smnt s)) srt) (map mid eff)).
    { replace (map (fun s => mid (smnt s)) srt) with (map (fun p => mid (fst p)) (map core srt)) by (rewrite map_map; reflexivity).
      eapply perm_trans; [apply Permutation_map; apply Permutation_map; apply isort_perm|].
      eapply perm_trans; [apply Permutation_map; apply (evolves_core _ _ Ev1)|]. simpl.
      unfold sl0. rewrite !map_map. simpl. reflexivity. }
    eapply Permutation_NoDup; [symmetry; exact P|exact Hmid]. }
  destruct (protected_pdev_nodup dflt k d srt 0 [] NdS) as [Npd _]. fold PS in Npd.
  exists PS, sl3, u3, n3. split; [reflexivity|]. split; [exact Npd|].
  assert (U13 : incl uns1 u3).
  { eapply incl_tran; [apply (protect_devs_incl (wantDev a2) pd l2 uns1)|apply (ev_uns _ _ Ev3)]. }
  split; [|split].
  - intros Hlt. apply (ev_under _ _ Ev3). simpl. destruct n1; [reflexivity|]. apply Nat.ltb_lt. lia.
  - intros s Hs. destruct (Ps s Hs) as (A & B & (t & Ct & Cu) & D).
    split; [rewrite Forall_forall in OkS; apply OkS; exact A|]. split; [exact B|]. exists t. split; [exact Ct|apply U13; exact Cu].
  - intros s Hs Hz s3 t Hs3 Edev Er.
    destruct (Ps s Hs) as (_ & _ & _ & D). specialize (D Hz).
    (* the same mount and replica appear in l2 *)
    assert (In (core s3) (map core l2)).
    { eapply Permutation_in; [apply (evolves_core _ _ Ev3)|]. apply in_map. exact Hs3. }
    apply in_map_iff in H. destruct H as (s2 & Ec & Hs2). unfold core in Ec. apply pair_equal_spec in Ec. destruct Ec as [Em Es].
    apply (ev_uns _ _ Ev3). simpl.
    apply (protect_devs_in (wantDev a2) pd l2 s2 t); auto; rewrite ?Es, ?Em, ?Edev; auto.
Qed.

Lemma class_unoffered dflt rank devrank eff repl desired classes k d :
  In (k, d) desired -> 0 < d -> ~ In k classes ->
  snd (run_classes_f dflt rank devrank classes desired (map (mkslot repl) eff)) = true.
Proof.
  intros Hin Hd Hk. unfold run_classes_f.
  assert (U : unoffered classes desired = true).
  { unfold unoffered. apply existsb_exists. exists (k, d). split; [exact Hin|]. simpl.
    apply andb_true_iff. split; [apply Nat.ltb_lt; exact Hd|]. apply negb_true_iff. apply mem_false. exact Hk. }
  rewrite U.
  pose proof (run_classes_f_evolves dflt rank devrank desired classes (map (mkslot repl) eff, [], true)) as Ev.
  apply (ev_under _ _ Ev). reflexivity.
Qed.

(* a trashed mount: its slot at the end carries the replica, is not wanted, and nothing protected it *)
Lemma trashed_slot dflt rank devrank minMtime eff allmounts repl classes desired sl3 u3 n3 m t :
  run_classes_f dflt rank devrank classes desired (map (mkslot repl) eff) = (sl3, u3, n3) ->
  In (m, t) (trashes (fst (balance_block_f dflt rank devrank minMtime eff allmounts repl classes desired))) ->
  exists s3, In s3 sl3 /\ mid (smnt s3) = m /\ srepl s3 = Some t /\ n3 = false /\ ~ In t u3 /\ t < minMtime.
Proof.
  intros Er H. apply in_trashes in H. unfold balance_block_f, final_slots_f in H. simpl in H. rewrite Er in H.
  apply in_flat_map in H. destruct H as (s & Hs & He). apply emit_trash in He. destruct He as (Em & Es & Ew & Hlt).
  apply in_map_iff in Hs. destruct Hs as (s3 & <- & Hs3).
  exists s3. unfold widen in *. destruct (srepl s3) as [t3|] eqn:E3.
  - destruct (n3 || mem t3 u3) eqn:Eo; simpl in *; [discriminate|].
    apply orb_false_iff in Eo. destruct Eo as [En Eu]. assert (t3 = t) by congruence. subst t3.
    split; [exact Hs3|]. split; [auto|]. split; [reflexivity|]. split; [exact En|]. split; [apply mem_false; exact Eu|exact Hlt].
  - congruence.
Qed.

Lemma after_nil eff repl : after eff repl [] = held eff repl.
Proof. unfold after, gone. simpl. induction (held eff repl) as [|p r IH]; simpl; [reflexivity|]. rewrite IH. reflexivity. Qed.

Lemma holds_pdev_held eff repl m : In m eff -> find_repl repl (mid m) None <> None -> In (pdev m) (held eff repl).
Proof.
  intros Hm Hf. unfold held. apply pd_nodup_In. apply in_map. apply filter_In. split; [exact Hm|apply holds_find; exact Hf].
Qed.

(* ---------- the two replication clauses, for every layout ---------- *)
Theorem fixed_under dflt rank devrank minMtime eff allmounts repl desired k d :
  NoDup (map mid eff) -> In (k, d) desired -> lookup desired k = d -> 0 < d ->
  phys_repl dflt k eff (held eff repl) < d ->
  trashes (fst (balance_block_f dflt rank devrank minMtime eff allmounts repl (classes_of dflt eff) desired)) = [].
Proof.
  intros Hmid Hin Hl Hd Hlt.
  set (classes := classes_of dflt eff).
  destruct (run_classes_f dflt rank devrank classes desired (map (mkslot repl) eff)) as [[sl3 u3] n3] eqn:Er.
  assert (Hn : n3 = true).
  { destruct (in_dec Nat.eq_dec k classes) as [Hk|Hk].
    - rewrite <- Hl in Hd.
      destruct (class_state dflt rank devrank eff repl desired classes k Hmid Hk Hd) as (PS & sl3' & u3' & n3' & Er' & Npd & Hflag & Hps & _).
      rewrite Er in Er'. injection Er' as <- <- <-. apply Hflag. rewrite Hl.
      (* protected replication is bounded by the physical replication of the class *)
      assert (B : sum_repl PS <= phys_repl dflt k eff (pdevs PS)).
      { unfold sum_repl, phys_repl, pdevs. rewrite map_map.
        clear - Hps. induction PS as [|s r IH]; simpl; [lia|].
        destruct (Hps s (or_introl eq_refl)) as ((A & _) & B & _).
        pose proof (dev_repl_ge dflt k eff (smnt s) A B).
        assert (forall s0, In s0 r -> slot_ok eff repl s0 /\ inclass dflt k (smnt s0) = true /\ (exists t, srepl s0 = Some t /\ In t u3)) by (intros; apply Hps; right; auto).
        specialize (IH H0). lia. }
      assert (C : phys_repl dflt k eff (pdevs PS) <= phys_repl dflt k eff (held eff repl)).
      { unfold phys_repl. apply list_sum_incl; [exact Npd|].
        intros p Hp. unfold pdevs in Hp. apply in_map_iff in Hp. destruct Hp as (s & <- & Hs).
        destruct (Hps s Hs) as ((A & Bf & _) & _ & (t & Et & _)).
        apply holds_pdev_held; [exact A|]. rewrite <- Bf, Et. discriminate. }
      lia.
    - pose proof (class_unoffered dflt rank devrank eff repl desired classes k d Hin Hd Hk) as U.
      rewrite Er in U. exact U. }
  destruct (trashes _) as [|[m t] r] eqn:Et; [reflexivity|exfalso].
  assert (In (m, t) (trashes (fst (balance_block_f dflt rank devrank minMtime eff allmounts repl classes desired))))
    by (rewrite Et; left; reflexivity).
  destruct (trashed_slot _ _ _ _ _ _ _ _ _ _ _ _ _ _ Er H) as (s3 & _ & _ & _ & Hn3 & _). congruence.
Qed.

Theorem fixed_pres dflt rank devrank minMtime eff allmounts repl desired k d :
  NoDup (map mid eff) -> In (k, d) desired -> lookup desired k = d -> 0 < d ->
  Nat.min d (phys_repl dflt k eff (held eff repl)) <=
  phys_repl dflt k eff (after eff repl
     (trashes (fst (balance_block_f dflt rank devrank minMtime eff allmounts repl (classes_of dflt eff) desired)))).
Proof.
  intros Hmid Hin Hl Hd.
  set (classes := classes_of dflt eff).
  set (tr := trashes (fst (balance_block_f dflt rank devrank minMtime eff allmounts repl classes desired))).
  destruct (in_dec Nat.eq_dec k classes) as [Hk|Hk].
  2:{ (* no mount offers the class: nothing to preserve *)
      assert (Z : forall m, In m eff -> inclass dflt k m = false).
      { intros m Hm. destruct (inclass dflt k m) eqn:E; [|reflexivity]. exfalso. apply Hk. eapply inclass_classes; eauto. }
      assert (P0 : phys_repl dflt k eff (held eff repl) = 0).
      { unfold phys_repl. induction (held eff repl) as [|p r IH]; simpl; [reflexivity|].
        rewrite (dev_repl_no_member dflt k eff p Z), IH. reflexivity. }
      rewrite P0. lia. }
  destruct (run_classes_f dflt rank devrank classes desired (map (mkslot repl) eff)) as [[sl3 u3] n3] eqn:Er.
  assert (Hd2 : 0 < lookup desired k) by (rewrite Hl; exact Hd).
  destruct (class_state dflt rank devrank eff repl desired classes k Hmid Hk Hd2) as (PS & sl3' & u3' & n3' & Er' & Npd & Hflag & Hps & Hdev).
  rewrite Er in Er'. injection Er' as <- <- <-. rewrite Hl in Hflag.
  destruct (Nat.lt_ge_cases (sum_repl PS) d) as [Hlt|Hge].
  - (* underreplicated is set: nothing is trashed *)
    specialize (Hflag Hlt).
    assert (tr = []).
    { destruct tr as [|[m t] r] eqn:Et; [reflexivity|exfalso].
      assert (In (m, t) tr) by (rewrite Et; left; reflexivity).
      destruct (trashed_slot _ _ _ _ _ _ _ _ _ _ _ _ _ _ Er H) as (s3 & _ & _ & _ & Hn3 & _). congruence. }
    rewrite H, after_nil. lia.
  - (* the protected devices survive and carry the desired replication *)
    pose proof (slot_ok_sl0 eff repl) as Ok0.
    assert (Ok3 : Forall (slot_ok eff repl) sl3).
    { pose proof (run_classes_f_evolves dflt rank devrank desired classes (map (mkslot repl) eff, [], unoffered classes desired)) as Ev.
      unfold run_classes_f in Er. rewrite Er in Ev.
      apply (evolves_Forall _ _ _ (slot_ok_closed eff repl) Ev Ok0). }
    assert (Sub : incl (pdevs PS) (after eff repl tr)).
    { intros p Hp. unfold pdevs in Hp. apply in_map_iff in Hp. destruct Hp as (s & <- & Hs).
      destruct (Hps s Hs) as ((A & Bf & _) & Bc & (t & Et & Eu)).
      unfold after. apply filter_In. split; [apply holds_pdev_held; [exact A|rewrite <- Bf, Et; discriminate]|].
      apply negb_true_iff. destruct (pd_mem (pdev (smnt s)) (gone eff tr)) eqn:G; [exfalso|reflexivity].
      apply pd_mem_In in G. unfold gone in G. apply in_flat_map in G. destruct G as ([m tm] & Htr & Hx).
      apply in_map_iff in Hx. destruct Hx as (x & Ex & Hx). apply filter_In in Hx. destruct Hx as [Hx Em].
      simpl in Em. apply Nat.eqb_eq in Em.
      destruct (trashed_slot _ _ _ _ _ _ _ _ _ _ _ _ _ _ Er Htr) as (s3 & Hs3 & Em3 & Er3 & _ & Hnu & _).
      rewrite Forall_forall in Ok3. destruct (Ok3 s3 Hs3) as (A3 & B3 & _).
      assert (x = smnt s3) by (apply (NoDup_map_inj mid eff); auto; congruence). subst x.
      unfold pdev in Ex. destruct (dev (smnt s3) =? 0) eqn:Z3, (dev (smnt s) =? 0) eqn:Zs;
        try (injection Ex; intros; apply Nat.eqb_neq in Z3 || apply Nat.eqb_neq in Zs; congruence).
      + (* blank device: the very same mount *)
        injection Ex as Ex. apply Hnu. rewrite B3 in Er3. rewrite Ex, <- Bf, Et in Er3. injection Er3 as <-. exact Eu.
      + (* non-blank device *)
        injection Ex as Ex. apply Hnu.
        apply (Hdev s Hs) with (s3 := s3); auto. unfold nz. rewrite Zs. reflexivity. }
    assert (B : sum_repl PS <= phys_repl dflt k eff (pdevs PS)).
    { unfold sum_repl, phys_repl, pdevs. rewrite map_map.
      clear - Hps. induction PS as [|s r IH]; simpl; [lia|].
      destruct (Hps s (or_introl eq_refl)) as ((A & _) & B & _).
      pose proof (dev_repl_ge dflt k eff (smnt s) A B).
      assert (forall s0, In s0 r -> slot_ok eff repl s0 /\ inclass dflt k (smnt s0) = true /\ (exists t, srepl s0 = Some t /\ In t u3)) by (intros; apply Hps; right; auto).
      specialize (IH H0). lia. }
    assert (C : phys_repl dflt k eff (pdevs PS) <= phys_repl dflt k eff (after eff repl tr)).
    { unfold phys_repl. apply list_sum_incl; [exact Npd|exact Sub]. }
    lia.
Qed.

(* ---------- the whole specification ---------- *)
(* well-formedness of a case (structural in Go: mounts are distinct objects, a Replica points to a
   mount, Desired is a map) *)
Definition wf_b (c : case) : bool :=
  nodupb (map mid (setup (c_raw c) (c_sro c))) &&
  forallb (fun r => existsb (fun x => mid x =? fst r) (c_raw c)) (c_repl c) &&
  nodupb (map fst (c_desired c)).

Theorem fixed_meets_spec c : wf_b c = true ->
  let '(chs, lost) := m_out_f c in Spec c (trashes chs) (pulls chs) lost.
Proof.
  unfold wf_b. rewrite !andb_true_iff. intros [[H1 H3] H4].
  apply nodupb_NoDup in H1, H4.
  set (eff := setup (c_raw c) (c_sro c)) in *.
  unfold m_out_f, balance_f. fold eff.
  set (rk := fun s => nth s (c_rank c) 0). set (dr := fun d => nth d (c_devrank c) 0).
  set (bb := balance_block_f (c_dflt c) rk dr (c_min c) eff (c_raw c) (c_repl c) (classes_of (c_dflt c) eff) (c_desired c)).
  destruct bb as [chs lost] eqn:E.
  assert (Ec : chs = fst bb) by (rewrite E; reflexivity).
  assert (El : lost = snd bb) by (rewrite E; reflexivity).
  pose proof (final_slots_f_ok (c_dflt c) rk dr eff (c_repl c) (classes_of (c_dflt c) eff) (c_desired c)) as F.
  rewrite Forall_forall in F.
  unfold Spec. fold eff. split; [|split; [|split; [|split]]].
  - intros m t Hin. apply in_trashes in Hin. rewrite Ec in Hin. unfold bb, balance_block_f in Hin. simpl in Hin.
    apply in_flat_map in Hin. destruct Hin as (s & Hs & He). apply emit_trash in He. destruct He as (-> & Hr & Hw & Hlt).
    destruct (F s Hs) as (A & B & C). split.
    + rewrite Hr in B. symmetry in B. apply find_repl_some in B. destruct B as [B|B]; [exact B|discriminate].
    + split; [exact Hlt|]. exists (smnt s). split; [exact A|]. split; [reflexivity|].
      destruct (mro (smnt s)) eqn:Ero; [|reflexivity].
      assert (swant s = true) by (apply C; auto; unfold has; rewrite Hr; reflexivity). congruence.
  - intros k d Hin Hd Hlt. rewrite Ec. unfold bb.
    eapply fixed_under; eauto. apply lookup_In; auto.
  - intros k d Hin Hd. rewrite Ec. unfold bb. apply fixed_pres; auto. apply lookup_In; auto.
  - intros m f Hin. apply in_pulls in Hin. rewrite Ec in Hin. unfold bb, balance_block_f in Hin. simpl in Hin.
    apply in_flat_map in Hin. destruct Hin as (s & Hs & He). apply emit_pull in He.
    destruct He as (-> & Hf & Hr & Hw & Hn & Hro). destruct (F s Hs) as (A & B & C).
    split; [exists (smnt s); auto|]. split; [rewrite Hr in B; symmetry in B; eapply find_repl_none; eauto|].
    destruct (c_repl c) as [|[m0 t0] rest] eqn:Erp; [discriminate|].
    rewrite forallb_forall in H3. specialize (H3 (m0, t0) (or_introl eq_refl)). simpl in H3.
    apply existsb_exists in H3. destruct H3 as (y & Hy & Ey). apply Nat.eqb_eq in Ey.
    destruct (find (fun x => mid x =? m0) (c_raw c)) as [z|] eqn:Fz.
    + apply find_some in Fz. destruct Fz as [Hz Ez]. apply Nat.eqb_eq in Ez. exists m0, t0, z. simpl. auto.
    + exfalso. eapply find_none in Fz; [|exact Hy]. apply Nat.eqb_neq in Fz. congruence.
  - intros Hr (k & d & Hin & Hd). rewrite El. unfold bb, balance_block_f. simpl. rewrite Hr.
    apply orb_true_iff. right. simpl. apply existsb_exists. exists (k, d). split; [exact Hin|]. apply Nat.ltb_lt. exact Hd.
Qed.

(* on the witnesses of the open findings the repaired algorithm behaves *)
Lemma fixed_on_witnesses :
  trashes (fst (m_out_f proofs.C05_witness.w_f1)) = [] /\ trashes (fst (m_out_f proofs.C05_witness.w_f1b)) = [] /\
  trashes (fst (m_out_f proofs.C05_witness.w_f10)) = [] /\ trashes (fst (m_out_f proofs.C05_witness.w_f12)) = [] /\
  snd (m_out_f proofs.C05_witness.w_f8) = true.
Proof. vm_compute. auto 10. Qed.
