(* C20: the boolean clauses the evaluator applies to the implementation's output (model/C20_run.v) reflect
   Prop-level statements, and the model satisfies them under the hypotheses of the main theorems. *)
From Coq Require Import NArith ZArith List Ascii String Bool Lia Permutation.
From AV Require Import lib.Str lib.SortPerm model.C20_model model.C20_run proofs.C20_proofs proofs.C20_plan proofs.C20_main.
Import ListNotations.
Local Open Scope string_scope.

Lemma count_count_occ x l : count x l = count_occ string_dec l x.
Proof.
  induction l as [|y l IH]; [reflexivity|]. cbn [count count_occ]. rewrite IH.
  destruct (string_dec y x) as [->|N].
  - rewrite String.eqb_refl. reflexivity.
  - destruct (String.eqb_spec x y) as [->|]; [contradiction|reflexivity].
Qed.

Definition item_uuids (items : list (string * item)) : list string := map (fun x => it_uuid (snd x)) items.

(* at most once, and from the cluster named by the prefix *)
Theorem once_b_iff tg items :
  once_b tg items = true <->
  (forall u, In u tg -> count_occ string_dec (item_uuids items) u <= 1) /\
  (forall b i, In (b, i) items -> In (it_uuid i) tg -> b = prefix (it_uuid i)).
Proof.
  unfold once_b. rewrite andb_true_iff, !forallb_forall. split.
  - intros [A B]. split.
    + intros u Hu. specialize (A u Hu). apply Nat.leb_le in A. rewrite count_count_occ in A. exact A.
    + intros b i Hi Ht. specialize (B (b, i) Hi). cbn [fst snd] in B. apply mem_In in Ht. rewrite Ht in B. cbn in B.
      apply String.eqb_eq. exact B.
  - intros [A B]. split.
    + intros u Hu. apply Nat.leb_le. rewrite count_count_occ. apply A. exact Hu.
    + intros [b i] Hi. cbn [fst snd]. destruct (mem (it_uuid i) tg) eqn:M; [|reflexivity]. cbn.
      apply String.eqb_eq. apply B; [exact Hi|apply mem_In; exact M].
Qed.
(* every requested object is returned iff it exists *)
Theorem complete_b_iff tg ex items :
  complete_b tg ex items = true <-> (forall u, In u tg -> (In u ex <-> In u (item_uuids items))).
Proof.
  unfold complete_b. rewrite forallb_forall. split.
  - intros H u Hu. specialize (H u Hu). apply eqb_prop in H. rewrite <- !mem_In. unfold item_uuids. rewrite H. tauto.
  - intros H u Hu. specialize (H u Hu). rewrite <- !mem_In in H. unfold item_uuids in H.
    destruct (mem u ex), (mem u (map (fun x => it_uuid (snd x)) items)); try reflexivity; exfalso; intuition congruence.
Qed.

(* the model passes the evaluator's clauses under the hypotheses of the main theorems *)
Theorem model_once cfg page o :
  federated o = true -> all_well_typed o = true -> remote_involved cfg o = true -> unsafe cfg o = false ->
  (forall c, page_hyp page (is_target o) c) ->
  once_b (spec_targets o) (merged cfg (run cfg page o)) = true.
Proof.
  intros F W R U H. apply once_b_iff. split.
  - intros u Hu. apply spec_targets_In in Hu. apply (exactly_once_partial cfg page o F W R U H u Hu).
  - intros b i Hi Ht. apply spec_targets_In in Ht.
    apply (proj2 (exactly_once_partial cfg page o F W R U H (it_uuid i) Ht) b i Hi eq_refl).
Qed.
Theorem model_complete cfg page o ex :
  federated o = true -> all_well_typed o = true -> remote_involved cfg o = true -> unsafe cfg o = false ->
  (forall u, is_target o u = true -> has_backend cfg (prefix u) = true) ->
  (forall c, honest page (fun u => mem u ex) c) ->
  errs (run cfg page o) = [] /\ complete_b (spec_targets o) ex (merged cfg (run cfg page o)) = true.
Proof.
  intros F W R U B H. destruct (complete_when_honest cfg page o (fun u => mem u ex) F W R U B H) as [E C].
  split; [exact E|]. apply complete_b_iff. intros u Hu. apply spec_targets_In in Hu.
  unfold item_uuids. fold (result_uuids cfg (run cfg page o)). rewrite C. rewrite mem_In. tauto.
Qed.
