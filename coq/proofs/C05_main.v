(* C05 — the model of balanceBlock as it is in /repo (model/C05_model.v: protection interleaved with
   allocation, restricted to mounts of the class and counted per device; `safe` per device; unoffered
   classes; lost) meets the WHOLE specification for every layout. *)
From Coq Require Import List Arith Bool Lia Permutation NArith.
From AV Require Import model.C05_model model.C05_old_model model.C05_run
  proofs.C05_proofs proofs.C05_safety proofs.C05_repl proofs.C05_phys proofs.C05_spec proofs.C05_fixed_proofs.
Import ListNotations.

(* ---------- what only grows ---------- *)
Record grows (ap ap' : acc2) : Prop := {
  g_wm : incl (wantMnt (fst ap)) (wantMnt (fst ap'));
  g_wd : incl (wantDev (fst ap)) (wantDev (fst ap'));
  g_pm : incl (protMnt (fst ap)) (protMnt (fst ap'));
  g_un : incl (unsafe (fst ap)) (unsafe (fst ap'));
  g_pd : incl (snd ap) (snd ap');
  g_rp : replProt (fst ap) <= replProt (fst ap') }.
Lemma grows_refl ap : grows ap ap.
Proof. split; try apply incl_refl. lia. Qed.
Lemma grows_trans a b c : grows a b -> grows b c -> grows a c.
Proof. intros [A1 A2 A3 A4 A5 A6] [B1 B2 B3 B4 B5 B6]. split; try (eapply incl_tran; eauto). lia. Qed.

(* ---------- one trySlot ---------- *)
(* the slot was skipped at the top of trySlot *)
Definition skipped (a : acc) (s : slot) : bool :=
  mem (mid (smnt s)) (wantMnt a) || (negb (dev (smnt s) =? 0) && mem (dev (smnt s)) (wantDev a)).
(* ... or protected by this call *)
Definition protects (dflt c d : nat) (ap : acc2) (s : slot) : bool :=
  negb (skipped (fst ap) s) &&
  match srepl s with
  | Some _ => (replProt (fst ap) <? d) && negb (mem (mid (smnt s)) (protMnt (fst ap))) &&
              negb (nz (dev (smnt s)) && mem (dev (smnt s)) (snd ap)) && inclass dflt c (smnt s)
  | None => false
  end.

Lemma try_slot2_spec dflt c d ap s ap' s' dn :
  try_slot dflt c d ap s = (ap', s', dn) ->
  grows ap ap' /\ wle s s' /\
  (dn = true -> d <= replProt (fst ap')) /\
  (* bookkeeping only ever mentions this slot *)
  incl (wantMnt (fst ap')) (mid (smnt s) :: wantMnt (fst ap)) /\
  incl (protMnt (fst ap')) (mid (smnt s) :: protMnt (fst ap)) /\
  (* wanted now: flagged, device recorded *)
  (In (mid (smnt s)) (wantMnt (fst ap')) -> ~ In (mid (smnt s)) (wantMnt (fst ap)) ->
     swant s' = true /\ (nz (dev (smnt s)) = true -> In (dev (smnt s)) (wantDev (fst ap')))) /\
  (* protected now: replica unsafe, device recorded, replication added *)
  (if protects dflt c d ap s
   then In (mid (smnt s)) (protMnt (fst ap')) /\ replProt (fst ap') = replProt (fst ap) + mrepl (smnt s) /\
        (exists t, srepl s = Some t /\ In t (unsafe (fst ap'))) /\
        (nz (dev (smnt s)) = true -> In (dev (smnt s)) (snd ap'))
   else replProt (fst ap') = replProt (fst ap) /\ protMnt (fst ap') = protMnt (fst ap) /\ snd ap' = snd ap).
Proof.
  destruct ap as [a pd]. unfold try_slot, protects, skipped. simpl fst. simpl snd.
  destruct (mem (mid (smnt s)) (wantMnt a) || negb (dev (smnt s) =? 0) && mem (dev (smnt s)) (wantDev a)) eqn:Esk.
  - intros H. injection H as <- <- <-. simpl.
    split; [apply grows_refl|]. split; [apply wle_refl|]. split; [discriminate|].
    split; [apply incl_tl, incl_refl|]. split; [apply incl_tl, incl_refl|].
    split; [intros A B; contradiction|]. auto.
  - simpl negb.
    set (prot := match srepl s with
                 | Some _ => (replProt a <? d) && negb (mem (mid (smnt s)) (protMnt a)) &&
                             negb (nz (dev (smnt s)) && mem (dev (smnt s)) pd) && inclass dflt c (smnt s)
                 | None => false end).
    (* the protection step *)
    assert (X : exists a1 pd1,
      (match srepl s with
       | Some mt => if (replProt a <? d) && negb (mem (mid (smnt s)) (protMnt a)) &&
                       negb (nz (dev (smnt s)) && mem (dev (smnt s)) pd) && inclass dflt c (smnt s)
                    then ({| wantSrv := wantSrv a; wantMnt := wantMnt a; wantDev := wantDev a;
                             protMnt := add (mid (smnt s)) (protMnt a); replWant := replWant a;
                             replProt := replProt a + mrepl (smnt s); unsafe := add mt (unsafe a) |},
                          if nz (dev (smnt s)) then add (dev (smnt s)) pd else pd)
                    else (a, pd)
       | None => (a, pd) end) = (a1, pd1) /\
      wantSrv a1 = wantSrv a /\ wantMnt a1 = wantMnt a /\ wantDev a1 = wantDev a /\ replWant a1 = replWant a /\
      incl (protMnt a) (protMnt a1) /\ incl (protMnt a1) (mid (smnt s) :: protMnt a) /\
      incl (unsafe a) (unsafe a1) /\ incl pd pd1 /\ replProt a <= replProt a1 /\
      (if prot then In (mid (smnt s)) (protMnt a1) /\ replProt a1 = replProt a + mrepl (smnt s) /\
                    (exists t, srepl s = Some t /\ In t (unsafe a1)) /\ (nz (dev (smnt s)) = true -> In (dev (smnt s)) pd1)
       else replProt a1 = replProt a /\ protMnt a1 = protMnt a /\ pd1 = pd)).
    { subst prot. destruct (srepl s) as [mt|].
      - destruct ((replProt a <? d) && negb (mem (mid (smnt s)) (protMnt a)) &&
                  negb (nz (dev (smnt s)) && mem (dev (smnt s)) pd) && inclass dflt c (smnt s)).
        + eexists _, _. split; [reflexivity|]. simpl.
          split; [reflexivity|]. split; [reflexivity|]. split; [reflexivity|]. split; [reflexivity|].
          split; [apply add_incl|]. split; [apply add_incl_cons|]. split; [apply add_incl|].
          split; [destruct (nz (dev (smnt s))); [apply add_incl|apply incl_refl]|]. split; [lia|].
          split; [apply add_In; auto|]. split; [reflexivity|]. split; [exists mt; split; [reflexivity|apply add_In; auto]|].
          intros ->. apply add_In. auto.
        + exists a, pd. split; [reflexivity|]. repeat (split; [first [reflexivity|apply incl_refl|apply incl_tl, incl_refl|lia]|]). auto.
      - exists a, pd. split; [reflexivity|]. repeat (split; [first [reflexivity|apply incl_refl|apply incl_tl, incl_refl|lia]|]). auto. }
    destruct X as (a1 & pd1 & -> & B1 & B2 & B3 & B4 & B5 & B5' & B6 & B7 & B8 & B9).
    apply orb_false_iff in Esk. destruct Esk as [Esk1 Esk2]. apply mem_false in Esk1.
    match goal with |- (if ?cnd then _ else _) = _ -> _ => destruct cnd end; intros H; injection H as <- <- <-; simpl fst; simpl snd.
    + simpl. split; [split; simpl; rewrite ?B2, ?B3; auto; try apply add_incl; [destruct (dev (smnt s) =? 0); [apply incl_refl|apply add_incl]]|].
      split; [right; reflexivity|].
      split; [intros H; apply andb_true_iff in H; destruct H as [H _]; apply Nat.leb_le in H; exact H|].
      split; [rewrite B2; apply add_incl_cons|]. split; [exact B5'|].
      split; [intros _ _; split; [reflexivity|]; unfold nz; intros Hz; destruct (dev (smnt s) =? 0); [discriminate|apply add_In; auto]|].
      exact B9.
    + split; [split; simpl; rewrite ?B2, ?B3; auto; apply incl_refl|].
      split; [apply wle_refl|].
      split; [intros H; apply andb_true_iff in H; destruct H as [H _]; apply Nat.leb_le in H; exact H|].
      split; [rewrite B2; apply incl_tl, incl_refl|]. split; [exact B5'|].
      split; [rewrite B2; intros A B; contradiction|]. exact B9.
Qed.

(* ---------- one pass ---------- *)
Definition mids (l : list slot) : list nat := map (fun s => mid (smnt s)) l.

(* the input slots that the pass protects (ghost) *)
Fixpoint prot_list (dflt : nat) (distinct : bool) (c d : nat) (ap : acc2) (done : bool) (l : list slot) : list slot :=
  match l with
  | [] => []
  | s :: r =>
    if done then []
    else if distinct && mem (msrv (smnt s)) (wantSrv (fst ap)) then prot_list dflt distinct c d ap done r
    else let '(ap1, _, d1) := try_slot dflt c d ap s in
         (if protects dflt c d ap s then [s] else []) ++ prot_list dflt distinct c d ap1 d1 r
  end.

(* protected slots sit on pairwise different devices, all recorded in the accumulator *)
Definition separated (PS : list slot) (ap : acc2) : Prop :=
  NoDup (pdevs PS) /\ forall s, In s PS -> In (mid (smnt s)) (protMnt (fst ap)) /\ (nz (dev (smnt s)) = true -> In (dev (smnt s)) (snd ap)).

Lemma separated_grows PS ap ap' : grows ap ap' -> separated PS ap -> separated PS ap'.
Proof.
  intros G [N H]. split; [exact N|]. intros s Hs. destruct (H s Hs) as [A B].
  split; [apply (g_pm _ _ G); exact A|intros Hz; apply (g_pd _ _ G); auto].
Qed.

Lemma NoDup_snoc {A} (l : list A) x : NoDup l -> ~ In x l -> NoDup (l ++ [x]).
Proof.
  induction l as [|a l IH]; intros N H; simpl; [constructor; [tauto|constructor]|].
  inversion N as [|? ? Hn N']; subst. constructor.
  - intro X. apply in_app_or in X. destruct X as [X|[X|[]]]; [contradiction|]. subst. apply H. left; reflexivity.
  - apply IH; auto. intro X. apply H. right; exact X.
Qed.

Lemma separated_add dflt c d PS ap s ap' :
  separated PS ap -> protects dflt c d ap s = true ->
  In (mid (smnt s)) (protMnt (fst ap')) -> (nz (dev (smnt s)) = true -> In (dev (smnt s)) (snd ap')) ->
  grows ap ap' -> separated (PS ++ [s]) ap'.
Proof.
  intros [N H] Hp Hm Hd G. unfold protects in Hp. apply andb_true_iff in Hp. destruct Hp as [_ Hp].
  destruct (srepl s); [|discriminate]. rewrite !andb_true_iff in Hp. destruct Hp as [[[_ P2] P3] _].
  apply negb_true_iff in P2, P3. apply mem_false in P2.
  split.
  - unfold pdevs. rewrite map_app. simpl. apply NoDup_snoc; [exact N|].
    intros Hp. apply in_map_iff in Hp. destruct Hp as (x & Ex & Hx). destruct (H x Hx) as [A B].
    unfold pdev in Ex. destruct (dev (smnt x) =? 0) eqn:Zx, (dev (smnt s) =? 0) eqn:Zs;
      try (injection Ex; intros; apply Nat.eqb_neq in Zx || apply Nat.eqb_neq in Zs; congruence).
    + injection Ex as Ex. apply P2. rewrite <- Ex. exact A.
    + injection Ex as Ex. assert (Hz : nz (dev (smnt x)) = true) by (unfold nz; rewrite Zx; reflexivity).
      specialize (B Hz). rewrite Ex in B. apply mem_In in B. unfold nz in P3. rewrite Zs, B in P3. discriminate.
  - intros x Hx. apply in_app_or in Hx. destruct Hx as [Hx|[<-|[]]]; [|split; assumption].
    destruct (H x Hx) as [A B]. split; [apply (g_pm _ _ G); exact A|intros Hz; apply (g_pd _ _ G); auto].
Qed.

Lemma pass2_basic dflt dist c d : forall l ap dn ap' dn' l',
  pass dflt dist c d ap dn l = (ap', dn', l') ->
  grows ap ap' /\ Forall2 wle l l' /\
  (dn' = true -> dn = true \/ d <= replProt (fst ap')) /\
  incl (wantMnt (fst ap')) (mids l ++ wantMnt (fst ap)) /\
  incl (protMnt (fst ap')) (mids l ++ protMnt (fst ap)).
Proof.
  induction l as [|s r IH]; intros ap dn ap' dn' l' H; simpl in H.
  - injection H as <- <- <-. split; [apply grows_refl|]. split; [constructor|]. split; [auto|]. split; apply incl_refl.
  - destruct dn.
    + injection H as <- <- <-. split; [apply grows_refl|].
      split; [clear; induction (s :: r); constructor; auto using wle_refl|]. split; [auto|].
      split; apply incl_appr, incl_refl.
    + destruct (dist && mem (msrv (smnt s)) (wantSrv (fst ap))).
      * destruct (pass dflt dist c d ap false r) as [[ap1 d1] r1] eqn:E. injection H as <- <- <-.
        destruct (IH _ _ _ _ _ E) as (G & W & D & I1 & I2).
        split; [exact G|]. split; [constructor; [apply wle_refl|exact W]|]. split; [exact D|].
        split; [intros x Hx; apply I1 in Hx; simpl; right; exact Hx|intros x Hx; apply I2 in Hx; simpl; right; exact Hx].
      * destruct (try_slot dflt c d ap s) as [[ap1 s1] d1] eqn:Et.
        destruct (pass dflt dist c d ap1 d1 r) as [[ap2 d2] r2] eqn:E. injection H as <- <- <-.
        destruct (try_slot2_spec _ _ _ _ _ _ _ _ Et) as (G1 & W1 & D1 & J1 & J2 & _ & _).
        destruct (IH _ _ _ _ _ E) as (G & W & D & I1 & I2).
        split; [eapply grows_trans; eauto|]. split; [constructor; assumption|].
        split.
        { intros Hd. right. destruct (D Hd) as [X|X]; [|exact X]. specialize (D1 X). pose proof (g_rp _ _ G). lia. }
        split.
        { intros x Hx. apply I1 in Hx. apply in_app_or in Hx. simpl. destruct Hx as [Hx|Hx]; [right; apply in_or_app; left; exact Hx|].
          apply J1 in Hx. destruct Hx as [<-|Hx]; [left; reflexivity|right; apply in_or_app; right; exact Hx]. }
        { intros x Hx. apply I2 in Hx. apply in_app_or in Hx. simpl. destruct Hx as [Hx|Hx]; [right; apply in_or_app; left; exact Hx|].
          apply J2 in Hx. destruct Hx as [<-|Hx]; [left; reflexivity|right; apply in_or_app; right; exact Hx]. }
Qed.

Lemma sum_repl_app a b : sum_repl (a ++ b) = sum_repl a + sum_repl b.
Proof. unfold sum_repl. rewrite map_app, list_sum_app. reflexivity. Qed.

Lemma pass2_prot dflt dist c d : forall l ap dn ap' dn' l' PS0,
  pass dflt dist c d ap dn l = (ap', dn', l') -> separated PS0 ap ->
  let PL := prot_list dflt dist c d ap dn l in
  separated (PS0 ++ PL) ap' /\ replProt (fst ap') = replProt (fst ap) + sum_repl PL /\
  forall s, In s PL -> In s l /\ inclass dflt c (smnt s) = true /\ exists t, srepl s = Some t /\ In t (unsafe (fst ap')).
Proof.
  induction l as [|s r IH]; intros ap dn ap' dn' l' PS0 H Sep; simpl in H; simpl.
  - injection H as <- <- <-. rewrite app_nil_r. split; [exact Sep|]. split; [unfold sum_repl; simpl; lia|tauto].
  - destruct dn.
    + injection H as <- <- <-. rewrite app_nil_r. split; [exact Sep|]. split; [unfold sum_repl; simpl; lia|simpl; tauto].
    + destruct (dist && mem (msrv (smnt s)) (wantSrv (fst ap))).
      * destruct (pass dflt dist c d ap false r) as [[ap1 d1] r1] eqn:E. injection H as <- <- <-.
        destruct (IH _ _ _ _ _ PS0 E Sep) as (A & B & C). split; [exact A|]. split; [exact B|].
        intros x Hx. destruct (C x Hx) as (C1 & C2). split; [right; exact C1|exact C2].
      * destruct (try_slot dflt c d ap s) as [[ap1 s1] d1] eqn:Et.
        destruct (pass dflt dist c d ap1 d1 r) as [[ap2 d2] r2] eqn:E. injection H as <- <- <-.
        destruct (try_slot2_spec _ _ _ _ _ _ _ _ Et) as (G1 & _ & _ & _ & _ & _ & P).
        destruct (pass2_basic _ _ _ _ _ _ _ _ _ _ E) as (G2 & _).
        destruct (protects dflt c d ap s) eqn:Ep.
        -- destruct P as (P1 & P2 & (t & P3 & P4) & P5).
           assert (Sep1 : separated (PS0 ++ [s]) ap1) by (eapply separated_add; eauto).
           destruct (IH _ _ _ _ _ _ E Sep1) as (A & B & C). simpl.
           split; [rewrite <- app_assoc in A; exact A|].
           split; [change (s :: prot_list dflt dist c d ap1 d1 r) with ([s] ++ prot_list dflt dist c d ap1 d1 r); rewrite sum_repl_app; unfold sum_repl at 1; simpl; lia|].
           intros x [<-|Hx].
           ++ split; [left; reflexivity|]. split.
              ** unfold protects in Ep. apply andb_true_iff in Ep. destruct Ep as [_ Ep]. rewrite P3 in Ep.
                 apply andb_true_iff in Ep. tauto.
              ** exists t. split; [exact P3|apply (g_un _ _ G2); exact P4].
           ++ destruct (C x Hx) as (C1 & C2). split; [right; exact C1|exact C2].
        -- destruct P as (P1 & P2 & P3).
           assert (Sep1 : separated PS0 ap1) by (eapply separated_grows; eauto).
           destruct (IH _ _ _ _ _ _ E Sep1) as (A & B & C). simpl.
           split; [exact A|]. split; [lia|].
           intros x Hx. destruct (C x Hx) as (C1 & C2). split; [right; exact C1|exact C2].
Qed.

(* flags and bookkeeping agree *)
Definition INV (ap : acc2) (l : list slot) : Prop :=
  forall s, In s l ->
    (In (mid (smnt s)) (wantMnt (fst ap)) -> swant s = true /\ (nz (dev (smnt s)) = true -> In (dev (smnt s)) (wantDev (fst ap)))) /\
    (In (mid (smnt s)) (protMnt (fst ap)) -> (exists t, srepl s = Some t /\ In t (unsafe (fst ap))) /\
                                             (nz (dev (smnt s)) = true -> In (dev (smnt s)) (snd ap))).

Lemma INV_grows ap ap' l : grows ap ap' ->
  (forall s, In s l -> (In (mid (smnt s)) (wantMnt (fst ap')) -> In (mid (smnt s)) (wantMnt (fst ap))) /\
                       (In (mid (smnt s)) (protMnt (fst ap')) -> In (mid (smnt s)) (protMnt (fst ap)))) ->
  INV ap l -> INV ap' l.
Proof.
  intros G Hb H s Hs. destruct (H s Hs) as [A B]. destruct (Hb s Hs) as [B1 B2]. split.
  - intros X. destruct (A (B1 X)) as [A1 A2]. split; [exact A1|intros Hz; apply (g_wd _ _ G); auto].
  - intros X. destruct (B (B2 X)) as [(t & T1 & T2) A2]. split; [exists t; split; [exact T1|apply (g_un _ _ G); exact T2]|].
    intros Hz; apply (g_pd _ _ G); auto.
Qed.

Lemma pass2_inv dflt dist c d : forall l ap dn ap' dn' l',
  NoDup (mids l) -> INV ap l -> pass dflt dist c d ap dn l = (ap', dn', l') -> INV ap' l'.
Proof.
  induction l as [|s r IH]; intros ap dn ap' dn' l' Nd Hinv H; simpl in H.
  - injection H as <- <- <-. exact Hinv.
  - destruct dn; [injection H as <- <- <-; exact Hinv|].
    simpl in Nd. inversion Nd as [|? ? Hnin Nd']; subst.
    assert (InvR : forall apx, grows ap apx ->
               incl (wantMnt (fst apx)) (mid (smnt s) :: wantMnt (fst ap)) ->
               incl (protMnt (fst apx)) (mid (smnt s) :: protMnt (fst ap)) -> INV apx r).
    { intros apx G J1 J2. apply (INV_grows ap apx r G).
      - intros x Hx. assert (mid (smnt x) <> mid (smnt s)).
        { intro E. apply Hnin. rewrite <- E. apply (in_map (fun s => mid (smnt s))). exact Hx. }
        split; intros X; [apply J1 in X|apply J2 in X]; destruct X as [X|X]; congruence.
      - intros x Hx. apply Hinv. right; exact Hx. }
    destruct (dist && mem (msrv (smnt s)) (wantSrv (fst ap))).
    + destruct (pass dflt dist c d ap false r) as [[ap1 d1] r1] eqn:E. injection H as <- <- <-.
      destruct (pass2_basic _ _ _ _ _ _ _ _ _ _ E) as (G & W & _ & I1 & I2).
      assert (IR : INV ap1 r1).
      { apply (IH ap false ap1 d1 r1 Nd'); [|exact E]. apply InvR; [apply grows_refl|apply incl_tl, incl_refl|apply incl_tl, incl_refl]. }
      intros x [<-|Hx]; [|apply IR; exact Hx].
      destruct (Hinv s (or_introl eq_refl)) as [A B]. split.
      * intros X. apply I1 in X. apply in_app_or in X. destruct X as [X|X]; [contradiction|].
        destruct (A X) as [A1 A2]. split; [exact A1|intros Hz; apply (g_wd _ _ G); auto].
      * intros X. apply I2 in X. apply in_app_or in X. destruct X as [X|X]; [contradiction|].
        destruct (B X) as [(t & T1 & T2) B2]. split; [exists t; split; [exact T1|apply (g_un _ _ G); exact T2]|].
        intros Hz; apply (g_pd _ _ G); auto.
    + destruct (try_slot dflt c d ap s) as [[ap1 s1] d1] eqn:Et.
      destruct (pass dflt dist c d ap1 d1 r) as [[ap2 d2] r2] eqn:E. injection H as <- <- <-.
      destruct (try_slot2_spec _ _ _ _ _ _ _ _ Et) as (G1 & W1 & _ & J1 & J2 & Wn & P).
      destruct (pass2_basic _ _ _ _ _ _ _ _ _ _ E) as (G2 & _ & _ & I1 & I2).
      assert (IR : INV ap2 r2) by (apply (IH ap1 d1 ap2 d2 r2 Nd' (InvR ap1 G1 J1 J2) E)).
      intros x [<-|Hx]; [|apply IR; exact Hx].
      destruct (Hinv s (or_introl eq_refl)) as [A B].
      assert (Cs : smnt s1 = smnt s /\ srepl s1 = srepl s) by (destruct W1 as [->| ->]; split; reflexivity).
      destruct Cs as [Cm Cr]. rewrite Cm, Cr. split.
      * intros X. apply I1 in X. apply in_app_or in X. destruct X as [X|X]; [contradiction|].
        destruct (in_dec Nat.eq_dec (mid (smnt s)) (wantMnt (fst ap))) as [Y|Y].
        -- destruct (A Y) as [A1 A2]. split; [eapply wle_want; eauto|].
           intros Hz. apply (g_wd _ _ G2). apply (g_wd _ _ G1). auto.
        -- destruct (Wn X Y) as [W2 W3]. split; [exact W2|intros Hz; apply (g_wd _ _ G2); auto].
      * intros X. apply I2 in X. apply in_app_or in X. destruct X as [X|X]; [contradiction|].
        destruct (in_dec Nat.eq_dec (mid (smnt s)) (protMnt (fst ap))) as [Y|Y].
        -- destruct (B Y) as [(t & T1 & T2) B2]. split.
           ++ exists t. split; [exact T1|apply (g_un _ _ G2); apply (g_un _ _ G1); exact T2].
           ++ intros Hz. apply (g_pd _ _ G2). apply (g_pd _ _ G1). auto.
        -- destruct (protects dflt c d ap s) eqn:Ep.
           ++ destruct P as (_ & _ & (t & T1 & T2) & P5). split.
              ** exists t. split; [exact T1|apply (g_un _ _ G2); exact T2].
              ** intros Hz. apply (g_pd _ _ G2). auto.
           ++ destruct P as (_ & P2 & _). rewrite P2 in X. contradiction.
Qed.

(* a pass without the distinct-servers restriction that does not end "done" has tried every slot *)
Definition covered (d : nat) (ap : acc2) (s : slot) : Prop :=
  In (mid (smnt s)) (wantMnt (fst ap)) \/ (nz (dev (smnt s)) = true /\ In (dev (smnt s)) (wantDev (fst ap))) \/
  In (mid (smnt s)) (protMnt (fst ap)) \/ (nz (dev (smnt s)) = true /\ In (dev (smnt s)) (snd ap)) \/
  d <= replProt (fst ap).

Lemma covered_grows d ap ap' s : grows ap ap' -> covered d ap s -> covered d ap' s.
Proof.
  intros G [H|[[H1 H2]|[H|[[H1 H2]|H]]]].
  - left. apply (g_wm _ _ G); exact H.
  - right; left. split; [exact H1|apply (g_wd _ _ G); exact H2].
  - right; right; left. apply (g_pm _ _ G); exact H.
  - right; right; right; left. split; [exact H1|apply (g_pd _ _ G); exact H2].
  - right; right; right; right. pose proof (g_rp _ _ G). lia.
Qed.

Lemma pass2_cover dflt c d : forall l ap ap' l',
  pass dflt false c d ap false l = (ap', false, l') ->
  forall s, In s l -> inclass dflt c (smnt s) = true -> has s = true -> covered d ap' s.
Proof.
  induction l as [|s r IH]; intros ap ap' l' H x Hx Hc Hh; [contradiction|].
  simpl in H.
  destruct (try_slot dflt c d ap s) as [[ap1 s1] d1] eqn:Et.
  destruct (pass dflt false c d ap1 d1 r) as [[ap2 d2] r2] eqn:E. injection H as <- Ed <-. subst d2.
  destruct (try_slot2_spec _ _ _ _ _ _ _ _ Et) as (G1 & _ & _ & _ & _ & _ & P).
  destruct (pass2_basic _ _ _ _ _ _ _ _ _ _ E) as (G2 & _ & D & _).
  destruct d1.
  { (* done already: the rest is not visited, but then done' is true *) simpl in E. destruct r; injection E as _ E _; discriminate. }
  destruct Hx as [<-|Hx]; [|eapply IH; eauto].
  apply (covered_grows d ap1 ap2 _ G2).
  unfold protects in P. unfold skipped in P.
  destruct (mem (mid (smnt s)) (wantMnt (fst ap)) || negb (dev (smnt s) =? 0) && mem (dev (smnt s)) (wantDev (fst ap))) eqn:Esk.
  - apply (covered_grows d ap ap1 _ G1). apply orb_true_iff in Esk. destruct Esk as [Esk|Esk].
    + left. apply mem_In; exact Esk.
    + right; left. apply andb_true_iff in Esk. destruct Esk as [Z M]. split; [exact Z|apply mem_In; exact M].
  - simpl in P. unfold has in Hh. destruct (srepl s) as [t|]; [|discriminate].
    rewrite Hc, andb_true_r in P.
    destruct (replProt (fst ap) <? d) eqn:E1; simpl in P.
    + destruct (mem (mid (smnt s)) (protMnt (fst ap))) eqn:E2; simpl in P.
      * apply (covered_grows d ap ap1 _ G1). right; right; left. apply mem_In; exact E2.
      * destruct (nz (dev (smnt s)) && mem (dev (smnt s)) (snd ap)) eqn:E3; simpl in P.
        -- apply (covered_grows d ap ap1 _ G1). right; right; right; left.
           apply andb_true_iff in E3. destruct E3 as [Z M]. split; [exact Z|apply mem_In; exact M].
        -- destruct P as (P1 & _). right; right; left. exact P1.
    + apply Nat.ltb_ge in E1. apply (covered_grows d ap ap1 _ G1). right; right; right; right. exact E1.
Qed.

(* ---------- the `safe` loop, per device ---------- *)
Fixpoint safe_list (dflt c d : nat) (l : list slot) (safe : nat) (sd : list nat) : list slot :=
  match l with
  | [] => []
  | s :: r =>
    if negb (has s) || negb (inclass dflt c (smnt s)) || (nz (dev (smnt s)) && mem (dev (smnt s)) sd)
    then safe_list dflt c d r safe sd
    else s :: (if d <=? safe + mrepl (smnt s) then []
               else safe_list dflt c d r (safe + mrepl (smnt s)) (if nz (dev (smnt s)) then dev (smnt s) :: sd else sd))
  end.

Lemma safe_count2_spec dflt c d : forall l safe sd,
  safe_count dflt c d l safe sd = safe + sum_repl (safe_list dflt c d l safe sd) /\
  forall s, In s (safe_list dflt c d l safe sd) -> In s l /\ has s = true /\ inclass dflt c (smnt s) = true.
Proof.
  induction l as [|s r IH]; intros safe sd; simpl.
  - split; [unfold sum_repl; simpl; lia|tauto].
  - destruct (negb (has s) || negb (inclass dflt c (smnt s)) || nz (dev (smnt s)) && mem (dev (smnt s)) sd) eqn:E.
    + destruct (IH safe sd) as [A B]. split; [exact A|]. intros x Hx. destruct (B x Hx) as (B1 & B2). split; [right; exact B1|exact B2].
    + apply orb_false_iff in E. destruct E as [E E3]. apply orb_false_iff in E. destruct E as [E1 E2].
      apply negb_false_iff in E1, E2.
      destruct (d <=? safe + mrepl (smnt s)).
      * split; [unfold sum_repl; simpl; lia|]. intros x [<-|[]]. split; [left; reflexivity|split; assumption].
      * destruct (IH (safe + mrepl (smnt s)) (if nz (dev (smnt s)) then dev (smnt s) :: sd else sd)) as [A B].
        split; [rewrite A; unfold sum_repl; simpl; lia|].
        intros x [<-|Hx]; [split; [left; reflexivity|split; assumption]|].
        destruct (B x Hx) as (B1 & B2). split; [right; exact B1|exact B2].
Qed.

Lemma safe_list_sub dflt c d x : forall l safe sd, In x (safe_list dflt c d l safe sd) -> In x l.
Proof. intros l safe sd H. destruct (safe_count2_spec dflt c d l safe sd) as [_ B]. apply B; exact H. Qed.

Lemma safe_list_nodup dflt c d : forall l safe sd,
  NoDup (mids l) ->
  NoDup (pdevs (safe_list dflt c d l safe sd)) /\
  forall s, In s (safe_list dflt c d l safe sd) -> nz (dev (smnt s)) = true -> ~ In (dev (smnt s)) sd.
Proof.
  induction l as [|s r IH]; intros safe sd Hn; simpl.
  - split; [constructor|tauto].
  - simpl in Hn. inversion Hn as [|? ? Hnin Hn']; subst.
    destruct (negb (has s) || negb (inclass dflt c (smnt s)) || nz (dev (smnt s)) && mem (dev (smnt s)) sd) eqn:E; [apply IH; exact Hn'|].
    apply orb_false_iff in E. destruct E as [_ E3].
    destruct (d <=? safe + mrepl (smnt s)).
    + split; [simpl; constructor; [tauto|constructor]|].
      intros x [<-|[]] Hz. rewrite Hz in E3. simpl in E3. apply mem_false in E3. exact E3.
    + set (sd1 := if nz (dev (smnt s)) then dev (smnt s) :: sd else sd).
      destruct (IH (safe + mrepl (smnt s)) sd1 Hn') as [N1 N2]. split.
      * simpl. constructor; [|exact N1].
        intro X. apply in_map_iff in X. destruct X as (x & Ex & Hx).
        unfold pdev in Ex. destruct (dev (smnt x) =? 0) eqn:Zx, (dev (smnt s) =? 0) eqn:Zs;
          try (injection Ex; intros; apply Nat.eqb_neq in Zx || apply Nat.eqb_neq in Zs; congruence).
        -- injection Ex as Ex. apply Hnin. rewrite <- Ex. apply (in_map (fun s => mid (smnt s))). eapply safe_list_sub; exact Hx.
        -- injection Ex as Ex. assert (Hz : nz (dev (smnt x)) = true) by (unfold nz; rewrite Zx; reflexivity).
           apply (N2 x Hx Hz). unfold sd1, nz. rewrite Zs. simpl. left. congruence.
      * intros x [<-|Hx] Hz.
        -- rewrite Hz in E3. simpl in E3. apply mem_false in E3. exact E3.
        -- intro X. apply (N2 x Hx Hz). unfold sd1. destruct (nz (dev (smnt s))); [right|]; exact X.
Qed.

(* ---------- one class, all classes ---------- *)
Lemma protect_devs2_incl wd pd l uns : incl uns (protect_devices wd pd l uns).
Proof. apply (protect_devs_incl wd pd l uns). Qed.
Lemma protect_devs2_in wd pd l s t uns :
  In s l -> srepl s = Some t -> nz (dev (smnt s)) = true -> In (dev (smnt s)) wd \/ In (dev (smnt s)) pd ->
  In t (protect_devices wd pd l uns).
Proof.
  unfold protect_devices. revert uns. induction l as [|x r IH]; intros uns Hs Hr Hz Hp; [contradiction|]. simpl.
  destruct Hs as [->|Hs]; [|apply IH; auto].
  rewrite Hr, Hz.
  assert (E : mem (dev (smnt s)) wd || mem (dev (smnt s)) pd = true).
  { apply orb_true_iff. destruct Hp as [H|H]; [left|right]; apply mem_In; exact H. }
  rewrite E. simpl. apply (protect_devs_incl wd pd r). apply add_In. auto.
Qed.

Lemma do_class2_unfold dflt rank devrank c d sl uns under :
  d <> 0 ->
  exists ap1 d1 l1 ap2 d2 l2,
    pass dflt true c d (acc0 uns, []) false (isort dflt rank devrank c sl) = (ap1, d1, l1) /\
    pass dflt false c d ap1 d1 l1 = (ap2, d2, l2) /\
    do_class dflt rank devrank c d (sl, uns, under) =
      (l2, protect_devices (wantDev (fst ap2)) (snd ap2) l2 (unsafe (fst ap2)),
       if under then true else safe_count dflt c d l2 0 [] <? d).
Proof.
  intros Hd. unfold do_class. destruct (d =? 0) eqn:E; [apply Nat.eqb_eq in E; contradiction|].
  destruct (pass dflt true c d (acc0 uns, []) false (isort dflt rank devrank c sl)) as [[ap1 d1] l1] eqn:E1.
  destruct (pass dflt false c d ap1 d1 l1) as [[ap2 d2] l2] eqn:E2.
  exists ap1, d1, l1, ap2, d2, l2. auto.
Qed.

Lemma wle_compose a b c : wle a b -> wle b c -> wle a c.
Proof. intros [->| ->] [->| ->]; [left|right|right|right]; reflexivity. Qed.
Lemma Forall2_wle_trans : forall l1 l2 l3, Forall2 wle l1 l2 -> Forall2 wle l2 l3 -> Forall2 wle l1 l3.
Proof.
  intros l1 l2 l3 H. revert l3. induction H; intros l3 H3; inversion H3; subst; constructor; eauto using wle_compose.
Qed.

Lemma do_class2_evolves dflt rank devrank c d st : evolves st (do_class dflt rank devrank c d st).
Proof.
  destruct st as [[sl uns] under].
  destruct (Nat.eq_dec d 0) as [->|Hd]; [unfold do_class; simpl; apply evolves_refl|].
  destruct (do_class2_unfold dflt rank devrank c d sl uns under Hd) as (ap1 & d1 & l1 & ap2 & d2 & l2 & E1 & E2 & ->).
  destruct (pass2_basic _ _ _ _ _ _ _ _ _ _ E1) as (G1 & W1 & _). destruct (pass2_basic _ _ _ _ _ _ _ _ _ _ E2) as (G2 & W2 & _).
  split; simpl.
  - exists (isort dflt rank devrank c sl). split; [symmetry; apply isort_perm|eapply Forall2_wle_trans; eauto].
  - eapply incl_tran; [|apply protect_devs2_incl].
    eapply incl_tran; [apply (g_un _ _ G1)|apply (g_un _ _ G2)].
  - intros ->. reflexivity.
Qed.
Lemma run_classes2_evolves dflt rank devrank desired classes : forall st,
  evolves st (fold_left (fun st c => do_class dflt rank devrank c (lookup desired c) st) classes st).
Proof.
  induction classes as [|c r IH]; intros st; simpl; [apply evolves_refl|].
  eapply evolves_trans; [apply do_class2_evolves|apply IH].
Qed.

Lemma final_slots2_ok dflt rank devrank mounts replicas classes desired :
  Forall (slot_ok mounts replicas) (final_slots dflt rank devrank mounts replicas classes desired).
Proof.
  unfold final_slots, run_classes.
  pose proof (run_classes2_evolves dflt rank devrank desired classes
               (map (mkslot replicas) mounts, [], unoffered_class classes desired)) as Ev.
  destruct (fold_left _ classes _) as [[sl uns] under].
  pose proof (evolves_Forall _ _ _ (slot_ok_closed mounts replicas) Ev (slot_ok_sl0 mounts replicas)) as H1. simpl in H1.
  rewrite Forall_forall in *. intros x Hx. apply in_map_iff in Hx. destruct Hx as (s & <- & Hs).
  eapply wle_P; [apply slot_ok_closed|apply widen_wle|auto].
Qed.

(* ---------- the state after all classes, seen from one desired class ---------- *)
Lemma Forall2_in_r {A B} (R : A -> B -> Prop) l l' y : Forall2 R l l' -> In y l' -> exists x, In x l /\ R x y.
Proof.
  induction 1 as [|a b l l' Hab H IH]; intros Hy; [contradiction|].
  destruct Hy as [<-|Hy]; [exists a; split; [left; reflexivity|exact Hab]|].
  destruct (IH Hy) as (x & Hx & Hr). exists x. split; [right; exact Hx|exact Hr].
Qed.
Lemma Forall2_in_l {A B} (R : A -> B -> Prop) l l' x : Forall2 R l l' -> In x l -> exists y, In y l' /\ R x y.
Proof.
  induction 1 as [|a b l l' Hab H IH]; intros Hx; [contradiction|].
  destruct Hx as [<-|Hx]; [exists b; split; [left; reflexivity|exact Hab]|].
  destruct (IH Hx) as (y & Hy & Hr). exists y. split; [right; exact Hy|exact Hr].
Qed.
Lemma Forall2_wle_mids l l' : Forall2 wle l l' -> mids l' = mids l.
Proof. induction 1 as [|a b l l' Hab H IH]; simpl; [reflexivity|]. rewrite IH. destruct Hab as [->| ->]; reflexivity. Qed.

(* a replica through any mount of the device of s ends up wanted *)
Definition survives (sl3 : list slot) (u3 : list nat) (n3 : bool) (s : slot) : Prop :=
  forall s3 t, In s3 sl3 -> srepl s3 = Some t -> pdev (smnt s3) = pdev (smnt s) ->
    n3 = true \/ In t u3 \/ swant s3 = true.

Lemma class_state2 dflt rank devrank eff repl desired classes k :
  NoDup (map mid eff) -> In k classes -> 0 < lookup desired k ->
  exists l2 PS sl3 u3 n3,
    run_classes dflt rank devrank classes desired (map (mkslot repl) eff) = (sl3, u3, n3) /\
    Forall (slot_ok eff repl) l2 /\ NoDup (mids l2) /\
    (safe_count dflt k (lookup desired k) l2 0 [] < lookup desired k -> n3 = true) /\
    NoDup (pdevs PS) /\
    (forall s, In s PS -> slot_ok eff repl s /\ inclass dflt k (smnt s) = true /\ has s = true /\ survives sl3 u3 n3 s) /\
    (lookup desired k <= sum_repl PS \/
     forall s, In s l2 -> inclass dflt k (smnt s) = true -> has s = true -> survives sl3 u3 n3 s).
Proof.
  intros Hmid Hk Hd. unfold run_classes.
  set (sl0 := map (mkslot repl) eff). set (d := lookup desired k) in *.
  generalize (unoffered_class classes desired). intros n0.
  apply in_split in Hk. destruct Hk as (pre & post & ->). rewrite fold_left_app. simpl.
  pose proof (run_classes2_evolves dflt rank devrank desired pre (sl0, [], n0)) as Ev1.
  destruct (fold_left _ pre _) as [[sl1 u1] n1].
  assert (Hd' : d <> 0) by lia. fold d.
  destruct (do_class2_unfold dflt rank devrank k d sl1 u1 n1 Hd') as (ap1 & d1 & l1 & ap2 & d2 & l2 & E1 & E2 & Eq).
  pose proof (do_class2_evolves dflt rank devrank k d (sl1, u1, n1)) as Ev2. rewrite Eq in Ev2. rewrite Eq.
  match goal with |- context [fold_left ?f post ?st] =>
    pose proof (run_classes2_evolves dflt rank devrank desired post st) as Ev3; destruct (fold_left f post st) as [[sl3 u3] n3] end.
  set (srt := isort dflt rank devrank k sl1) in *.
  set (U2 := protect_devices (wantDev (fst ap2)) (snd ap2) l2 (unsafe (fst ap2))) in *.
  (* slots of srt, l1, l2 are ok and have pairwise different mounts *)
  pose proof (evolves_Forall _ _ _ (slot_ok_closed eff repl) Ev1 (slot_ok_sl0 eff repl)) as Ok1. simpl in Ok1.
  assert (OkS : Forall (slot_ok eff repl) srt).
  { rewrite Forall_forall in *. intros s Hs. apply Ok1. eapply Permutation_in; [apply isort_perm|exact Hs]. }
  assert (NdS : NoDup (mids srt)).
  { assert (P : Permutation (mids srt) (map mid eff)).
    { unfold mids. replace (map (fun s => mid (smnt s)) srt) with (map (fun p => mid (fst p)) (map core srt)) by (rewrite map_map; reflexivity).
      eapply perm_trans; [apply Permutation_map; apply Permutation_map; apply isort_perm|].
      eapply perm_trans; [apply Permutation_map; apply (evolves_core _ _ Ev1)|]. simpl.
      unfold sl0. rewrite !map_map. simpl. reflexivity. }
    eapply Permutation_NoDup; [symmetry; exact P|exact Hmid]. }
  destruct (pass2_basic _ _ _ _ _ _ _ _ _ _ E1) as (G1 & W1 & D1 & _).
  destruct (pass2_basic _ _ _ _ _ _ _ _ _ _ E2) as (G2 & W2 & D2 & _).
  assert (Nd1 : NoDup (mids l1)) by (rewrite (Forall2_wle_mids _ _ W1); exact NdS).
  assert (Nd2 : NoDup (mids l2)) by (rewrite (Forall2_wle_mids _ _ W2); exact Nd1).
  assert (Ok1' : Forall (slot_ok eff repl) l1) by (eapply Forall2_wle_Forall; [apply slot_ok_closed|exact W1|exact OkS]).
  assert (Ok2 : Forall (slot_ok eff repl) l2) by (eapply Forall2_wle_Forall; [apply slot_ok_closed|exact W2|exact Ok1']).
  (* flags vs bookkeeping *)
  assert (Inv0 : INV (acc0 u1, []) srt) by (intros s _; simpl; split; intros []).
  pose proof (pass2_inv _ _ _ _ _ _ _ _ _ _ NdS Inv0 E1) as Inv1.
  pose proof (pass2_inv _ _ _ _ _ _ _ _ _ _ Nd1 Inv1 E2) as Inv2.
  (* protected slots *)
  assert (Sep0 : separated [] (acc0 u1, [])) by (split; [constructor|intros s []]).
  destruct (pass2_prot _ _ _ _ _ _ _ _ _ _ [] E1 Sep0) as (Sep1 & R1 & Q1). simpl in Sep1.
  destruct (pass2_prot _ _ _ _ _ _ _ _ _ _ _ E2 Sep1) as (Sep2 & R2 & Q2).
  set (PL1 := prot_list dflt true k d (acc0 u1, []) false srt) in *.
  set (PL2 := prot_list dflt false k d ap1 d1 l1) in *.
  set (PS := PL1 ++ PL2) in *.
  assert (Rp : replProt (fst ap2) = sum_repl PS) by (unfold PS; rewrite sum_repl_app; simpl in R1; lia).
  (* u3 contains everything made unsafe for this class *)
  assert (UU : incl U2 u3) by (apply (ev_uns _ _ Ev3)).
  assert (Ua : incl (unsafe (fst ap2)) u3) by (eapply incl_tran; [apply protect_devs2_incl|exact UU]).
  (* a slot of sl3 comes from a slot of l2 with the same mount and replica *)
  assert (Back : forall s3, In s3 sl3 -> exists s2, In s2 l2 /\ wle s2 s3).
  { intros s3 H3. destruct (ev_perm _ _ Ev3) as (l0 & P0 & F0). simpl in P0, F0.
    destruct (Forall2_in_r _ _ _ _ F0 H3) as (x & Hx & Hw). exists x. split; [eapply Permutation_in; [symmetry; exact P0|exact Hx]|exact Hw]. }
  (* survival from "device recorded" *)
  assert (SurvDev : forall s, nz (dev (smnt s)) = true ->
             In (dev (smnt s)) (wantDev (fst ap2)) \/ In (dev (smnt s)) (snd ap2) -> survives sl3 u3 n3 s).
  { intros s Hz Hrec s3 t H3 Hr Hp. right; left.
    destruct (Back s3 H3) as (s2 & H2 & Hw). assert (Cs : smnt s3 = smnt s2 /\ srepl s3 = srepl s2) by (destruct Hw as [->| ->]; split; reflexivity).
    destruct Cs as [Cm Cr]. apply UU. unfold U2.
    assert (Ed : dev (smnt s2) = dev (smnt s)).
    { rewrite <- Cm. unfold pdev in Hp. unfold nz in Hz. destruct (dev (smnt s) =? 0) eqn:Zs; [discriminate|].
      destruct (dev (smnt s3) =? 0); injection Hp; intros; congruence. }
    apply (protect_devs2_in _ _ l2 s2 t); auto; rewrite ?Ed; auto. congruence. }
  (* survival of a blank-device slot: the slot with the same mount in sl3 *)
  assert (BlankMid : forall s s3, nz (dev (smnt s)) = false -> pdev (smnt s3) = pdev (smnt s) -> mid (smnt s3) = mid (smnt s)).
  { intros s s3 Hz Hp. unfold pdev, nz in *. destruct (dev (smnt s) =? 0); [|discriminate].
    destruct (dev (smnt s3) =? 0); [injection Hp; auto|injection Hp; intros; discriminate]. }
  exists l2, PS, sl3, u3, n3. split; [reflexivity|]. split; [exact Ok2|]. split; [exact Nd2|].
  split.
  { intros Hlt. apply (ev_under _ _ Ev3). simpl. destruct n1; [reflexivity|]. apply Nat.ltb_lt. exact Hlt. }
  split; [destruct Sep2 as [N _]; exact N|].
  split.
  { intros s Hs.
    assert (Facts : (In s srt \/ In s l1) /\ inclass dflt k (smnt s) = true /\ exists t, srepl s = Some t /\ In t (unsafe (fst ap2))).
    { unfold PS in Hs. apply in_app_or in Hs. destruct Hs as [Hs|Hs].
      - destruct (Q1 s Hs) as (A & B & t & T1 & T2). split; [left; exact A|]. split; [exact B|]. exists t. split; [exact T1|apply (g_un _ _ G2); exact T2].
      - destruct (Q2 s Hs) as (A & B & t & T1 & T2). split; [right; exact A|]. split; [exact B|]. exists t. split; [exact T1|exact T2]. }
    destruct Facts as (Hin & Hc & t & Ht & Hu).
    assert (Hok : slot_ok eff repl s).
    { rewrite Forall_forall in OkS, Ok1'. destruct Hin; auto. }
    split; [exact Hok|]. split; [exact Hc|]. split; [unfold has; rewrite Ht; reflexivity|].
    destruct Sep2 as [_ Hrec]. destruct (Hrec s Hs) as [Hpm Hpd].
    destruct (nz (dev (smnt s))) eqn:Hz.
    - apply SurvDev; [exact Hz|right; auto].
    - intros s3 t3 H3 Hr Hp. right; left.
      rewrite Forall_forall in Ok2. destruct (Back s3 H3) as (s2 & H2 & Hw).
      assert (Cs : smnt s3 = smnt s2 /\ srepl s3 = srepl s2) by (destruct Hw as [->| ->]; split; reflexivity).
      destruct Cs as [Cm Cr]. destruct (Ok2 s2 H2) as (_ & B2 & _). destruct Hok as (_ & Bs & _).
      assert (Em : mid (smnt s2) = mid (smnt s)) by (rewrite <- Cm; apply BlankMid; auto).
      rewrite Cr, B2, Em, <- Bs, Ht in Hr. injection Hr as <-. apply Ua. exact Hu. }
  (* coverage *)
  destruct (Nat.le_gt_cases d (sum_repl PS)) as [Hge|Hlt]; [left; exact Hge|right].
  assert (Dn : d2 = false).
  { destruct d2; [|reflexivity]. exfalso. destruct (D2 eq_refl) as [X|X]; [|lia].
    subst d1. destruct (D1 eq_refl) as [Y|Y]; [discriminate|]. pose proof (g_rp _ _ G2). lia. }
  subst d2.
  assert (Dn1 : d1 = false).
  { destruct d1; [|reflexivity]. exfalso. simpl in E2. destruct l1; injection E2 as _ X _; discriminate. }
  subst d1.
  intros s Hs Hc Hh.
  destruct (Forall2_in_r _ _ _ _ W2 Hs) as (s1 & Hs1 & Hw1).
  assert (Cs : smnt s = smnt s1 /\ srepl s = srepl s1) by (destruct Hw1 as [->| ->]; split; reflexivity).
  destruct Cs as [Cm Cr].
  assert (Cov : covered d ap2 s1).
  { eapply pass2_cover; [exact E2|exact Hs1|rewrite <- Cm; exact Hc|unfold has in *; rewrite <- Cr; exact Hh]. }
  destruct (Inv2 s Hs) as [IW IP].
  unfold covered in Cov. rewrite <- Cm in Cov.
  destruct (nz (dev (smnt s))) eqn:Hz.
  - apply SurvDev; [exact Hz|].
    destruct Cov as [H|[[_ H]|[H|[[_ H]|H]]]]; [left; apply IW; auto|left; exact H|right; apply IP; auto|right; exact H|lia].
  - intros s3 t3 H3 Hr Hp.
    destruct (Back s3 H3) as (s2 & H2 & Hw).
    assert (Cs2 : smnt s3 = smnt s2 /\ srepl s3 = srepl s2) by (destruct Hw as [->| ->]; split; reflexivity).
    destruct Cs2 as [Cm2 Cr2].
    assert (Em : mid (smnt s2) = mid (smnt s)) by (rewrite <- Cm2; apply BlankMid; auto).
    assert (s2 = s) by (apply (NoDup_map_inj (fun s => mid (smnt s)) l2); auto). subst s2.
    destruct Cov as [H|[[H _]|[H|[[H _]|H]]]]; try discriminate; try lia.
    + right; right. destruct (IW H) as [Wt _]. eapply wle_want; eauto.
    + right; left. destruct (IP H) as [(t & T1 & T2) _]. rewrite Cr2, T1 in Hr. injection Hr as <-. apply Ua. exact T2.
Qed.

Lemma class_unoffered2 dflt rank devrank eff repl desired classes k d :
  In (k, d) desired -> 0 < d -> ~ In k classes ->
  snd (run_classes dflt rank devrank classes desired (map (mkslot repl) eff)) = true.
Proof.
  intros Hin Hd Hk. unfold run_classes.
  assert (U : unoffered_class classes desired = true).
  { unfold unoffered_class. apply existsb_exists. exists (k, d). split; [exact Hin|]. simpl.
    apply andb_true_iff. split; [apply Nat.ltb_lt; exact Hd|]. apply negb_true_iff. apply mem_false. exact Hk. }
  rewrite U.
  pose proof (run_classes2_evolves dflt rank devrank desired classes (map (mkslot repl) eff, [], true)) as Ev.
  apply (ev_under _ _ Ev). reflexivity.
Qed.

Lemma trashed_slot2 dflt rank devrank minMtime eff allmounts repl classes desired sl3 u3 n3 m t :
  run_classes dflt rank devrank classes desired (map (mkslot repl) eff) = (sl3, u3, n3) ->
  In (m, t) (trashes (fst (balance_block dflt rank devrank minMtime eff allmounts repl classes desired))) ->
  exists s3, In s3 sl3 /\ mid (smnt s3) = m /\ srepl s3 = Some t /\ n3 = false /\ ~ In t u3 /\ swant s3 = false.
Proof.
  intros Er H. apply in_trashes in H. unfold balance_block, final_slots in H. simpl in H. rewrite Er in H.
  apply in_flat_map in H. destruct H as (s & Hs & He). apply emit_trash in He. destruct He as (Em & Es & Ew & Hlt).
  apply in_map_iff in Hs. destruct Hs as (s3 & <- & Hs3).
  exists s3. unfold widen in *. destruct (srepl s3) as [t3|] eqn:E3; [|congruence].
  destruct (n3 || mem t3 u3) eqn:Eo; simpl in *; [discriminate|].
  apply orb_false_iff in Eo. destruct Eo as [En Eu]. assert (t3 = t) by congruence. subst t3.
  split; [exact Hs3|]. split; [auto|]. split; [reflexivity|]. split; [exact En|]. split; [apply mem_false; exact Eu|exact Ew].
Qed.

(* replication of a set of class members on pairwise different devices, all of which survive *)
Lemma kept_bound dflt k eff repl tr XS :
  NoDup (pdevs XS) ->
  (forall s, In s XS -> slot_ok eff repl s /\ inclass dflt k (smnt s) = true /\ has s = true) ->
  incl (pdevs XS) (after eff repl tr) ->
  sum_repl XS <= phys_repl dflt k eff (after eff repl tr).
Proof.
  intros N H Sub.
  assert (B : sum_repl XS <= phys_repl dflt k eff (pdevs XS)).
  { unfold sum_repl, phys_repl, pdevs. rewrite map_map. clear N Sub.
    induction XS as [|s r IH]; simpl; [lia|].
    destruct (H s (or_introl eq_refl)) as ((A & _) & B & _).
    pose proof (dev_repl_ge dflt k eff (smnt s) A B).
    assert (forall s0, In s0 r -> slot_ok eff repl s0 /\ inclass dflt k (smnt s0) = true /\ has s0 = true) by (intros; apply H; right; auto).
    specialize (IH H1). lia. }
  assert (C : phys_repl dflt k eff (pdevs XS) <= phys_repl dflt k eff (after eff repl tr)).
  { unfold phys_repl. apply list_sum_incl; [exact N|exact Sub]. }
  lia.
Qed.

Lemma held_bound dflt k eff repl XS :
  NoDup (pdevs XS) ->
  (forall s, In s XS -> slot_ok eff repl s /\ inclass dflt k (smnt s) = true /\ has s = true) ->
  sum_repl XS <= phys_repl dflt k eff (held eff repl).
Proof.
  intros N H. rewrite <- (after_nil eff repl). apply kept_bound; auto.
  intros p Hp. rewrite after_nil. unfold pdevs in Hp. apply in_map_iff in Hp. destruct Hp as (s & <- & Hs).
  destruct (H s Hs) as ((A & Bf & _) & _ & Hh). apply holds_pdev_held; [exact A|]. rewrite <- Bf. unfold has in Hh. destruct (srepl s); [discriminate|discriminate].
Qed.

Theorem fixed2_under dflt rank devrank minMtime eff allmounts repl desired k d :
  NoDup (map mid eff) -> In (k, d) desired -> lookup desired k = d -> 0 < d ->
  phys_repl dflt k eff (held eff repl) < d ->
  trashes (fst (balance_block dflt rank devrank minMtime eff allmounts repl (classes_of dflt eff) desired)) = [].
Proof.
  intros Hmid Hin Hl Hd Hlt.
  set (classes := classes_of dflt eff).
  destruct (run_classes dflt rank devrank classes desired (map (mkslot repl) eff)) as [[sl3 u3] n3] eqn:Er.
  assert (Hn : n3 = true).
  { destruct (in_dec Nat.eq_dec k classes) as [Hk|Hk].
    - rewrite <- Hl in Hd.
      destruct (class_state2 dflt rank devrank eff repl desired classes k Hmid Hk Hd)
        as (l2 & PS & sl3' & u3' & n3' & Er' & Ok2 & Nd2 & Hflag & _).
      rewrite Er in Er'. injection Er' as <- <- <-. apply Hflag. rewrite Hl.
      destruct (safe_count2_spec dflt k d l2 0 []) as [Es Hs]. rewrite Es. simpl.
      destruct (safe_list_nodup dflt k d l2 0 [] Nd2) as [Ns _].
      eapply Nat.le_lt_trans; [|exact Hlt]. apply held_bound; [exact Ns|].
      intros s Hss. destruct (Hs s Hss) as (A & B & C). rewrite Forall_forall in Ok2. auto.
    - pose proof (class_unoffered2 dflt rank devrank eff repl desired classes k d Hin Hd Hk) as U.
      rewrite Er in U. exact U. }
  destruct (trashes _) as [|[m t] r] eqn:Et; [reflexivity|exfalso].
  assert (In (m, t) (trashes (fst (balance_block dflt rank devrank minMtime eff allmounts repl classes desired))))
    by (rewrite Et; left; reflexivity).
  destruct (trashed_slot2 _ _ _ _ _ _ _ _ _ _ _ _ _ _ Er H) as (s3 & _ & _ & _ & Hn3 & _). congruence.
Qed.

Theorem fixed2_pres dflt rank devrank minMtime eff allmounts repl desired k d :
  NoDup (map mid eff) -> In (k, d) desired -> lookup desired k = d -> 0 < d ->
  Nat.min d (phys_repl dflt k eff (held eff repl)) <=
  phys_repl dflt k eff (after eff repl
     (trashes (fst (balance_block dflt rank devrank minMtime eff allmounts repl (classes_of dflt eff) desired)))).
Proof.
  intros Hmid Hin Hl Hd.
  set (classes := classes_of dflt eff).
  set (tr := trashes (fst (balance_block dflt rank devrank minMtime eff allmounts repl classes desired))).
  destruct (in_dec Nat.eq_dec k classes) as [Hk|Hk].
  2:{ assert (Z : forall m, In m eff -> inclass dflt k m = false).
      { intros m Hm. destruct (inclass dflt k m) eqn:E; [|reflexivity]. exfalso. apply Hk. eapply inclass_classes; eauto. }
      assert (P0 : phys_repl dflt k eff (held eff repl) = 0).
      { unfold phys_repl. induction (held eff repl) as [|p r IH]; simpl; [reflexivity|].
        rewrite (dev_repl_no_member dflt k eff p Z), IH. reflexivity. }
      rewrite P0. lia. }
  destruct (run_classes dflt rank devrank classes desired (map (mkslot repl) eff)) as [[sl3 u3] n3] eqn:Er.
  assert (Hd2 : 0 < lookup desired k) by (rewrite Hl; exact Hd).
  destruct (class_state2 dflt rank devrank eff repl desired classes k Hmid Hk Hd2)
    as (l2 & PS & sl3' & u3' & n3' & Er' & Ok2 & Nd2 & Hflag & Npd & Hps & Hcov).
  rewrite Er in Er'. injection Er' as <- <- <-. rewrite Hl in Hflag, Hcov.
  assert (NoTrash : n3 = true -> tr = []).
  { intros Hn. destruct tr as [|[m t] r] eqn:Et; [reflexivity|exfalso].
    assert (In (m, t) tr) by (rewrite Et; left; reflexivity).
    destruct (trashed_slot2 _ _ _ _ _ _ _ _ _ _ _ _ _ _ Er H) as (s3 & _ & _ & _ & Hn3 & _). congruence. }
  destruct n3 eqn:En; [rewrite (NoTrash eq_refl), after_nil; lia|].
  (* slots of sl3 are ok *)
  assert (Ok3 : Forall (slot_ok eff repl) sl3).
  { pose proof (run_classes2_evolves dflt rank devrank desired classes (map (mkslot repl) eff, [], unoffered_class classes desired)) as Ev.
    unfold run_classes in Er. rewrite Er in Ev.
    apply (evolves_Forall _ _ _ (slot_ok_closed eff repl) Ev (slot_ok_sl0 eff repl)). }
  (* a slot that survives keeps its device out of `gone` *)
  assert (Keep : forall s, slot_ok eff repl s -> has s = true -> survives sl3 u3 false s -> In (pdev (smnt s)) (after eff repl tr)).
  { intros s (A & Bf & _) Hh Sv. unfold after. apply filter_In.
    split; [apply holds_pdev_held; [exact A|rewrite <- Bf; unfold has in Hh; destruct (srepl s); discriminate]|].
    apply negb_true_iff. destruct (pd_mem (pdev (smnt s)) (gone eff tr)) eqn:G; [exfalso|reflexivity].
    apply pd_mem_In in G. unfold gone in G. apply in_flat_map in G. destruct G as ([m tm] & Htr & Hx).
    apply in_map_iff in Hx. destruct Hx as (x & Ex & Hx). apply filter_In in Hx. destruct Hx as [Hx Em].
    simpl in Em. apply Nat.eqb_eq in Em.
    destruct (trashed_slot2 _ _ _ _ _ _ _ _ _ _ _ _ _ _ Er Htr) as (s3 & Hs3 & Em3 & Er3 & _ & Hnu & Hw).
    rewrite Forall_forall in Ok3. destruct (Ok3 s3 Hs3) as (A3 & _).
    assert (x = smnt s3) by (apply (NoDup_map_inj mid eff); auto; congruence). subst x.
    destruct (Sv s3 tm Hs3 Er3 Ex) as [X|[X|X]]; [discriminate|contradiction|congruence]. }
  destruct Hcov as [Hge|Hall].
  - (* the protected replicas carry the desired replication *)
    assert (Sub : incl (pdevs PS) (after eff repl tr)).
    { intros p Hp. unfold pdevs in Hp. apply in_map_iff in Hp. destruct Hp as (s & <- & Hs).
      destruct (Hps s Hs) as (A & B & C & D). apply Keep; auto. }
    pose proof (kept_bound dflt k eff repl tr PS Npd (fun s Hs => let '(conj A (conj B (conj C _))) := Hps s Hs in conj A (conj B C)) Sub).
    lia.
  - (* every replica of the class survives; `safe` (>= desired, the flag is not set) counts some of them *)
    destruct (safe_count2_spec dflt k d l2 0 []) as [Es Hs]. simpl in Es.
    destruct (safe_list_nodup dflt k d l2 0 [] Nd2) as [Ns _].
    set (SS := safe_list dflt k d l2 0 []) in *.
    assert (Hsafe : d <= sum_repl SS).
    { destruct (Nat.lt_ge_cases (safe_count dflt k d l2 0 []) d) as [X|X]; [specialize (Hflag X); discriminate|lia]. }
    assert (Facts : forall s, In s SS -> slot_ok eff repl s /\ inclass dflt k (smnt s) = true /\ has s = true).
    { intros s Hss. destruct (Hs s Hss) as (A & B & C). rewrite Forall_forall in Ok2. auto. }
    assert (Sub : incl (pdevs SS) (after eff repl tr)).
    { intros p Hp. unfold pdevs in Hp. apply in_map_iff in Hp. destruct Hp as (s & <- & Hss).
      destruct (Facts s Hss) as (A & B & C). destruct (Hs s Hss) as (Hin2 & _). apply Keep; auto. }
    pose proof (kept_bound dflt k eff repl tr SS Ns Facts Sub). lia.
Qed.

(* ---------- the whole specification ---------- *)
Theorem fixed2_meets_spec c : wf_b c = true ->
  let '(chs, lost) := m_out c in Spec c (trashes chs) (pulls chs) lost.
Proof.
  unfold wf_b. rewrite !andb_true_iff. intros [[H1 H3] H4].
  apply nodupb_NoDup in H1, H4.
  set (eff := setup (c_raw c) (c_sro c)) in *.
  unfold m_out, balance. fold eff.
  set (rk := fun s => nth s (c_rank c) 0). set (dr := fun d => nth d (c_devrank c) 0).
  set (bb := balance_block (c_dflt c) rk dr (c_min c) eff (c_raw c) (c_repl c) (classes_of (c_dflt c) eff) (c_desired c)).
  destruct bb as [chs lost] eqn:E.
  assert (Ec : chs = fst bb) by (rewrite E; reflexivity).
  assert (El : lost = snd bb) by (rewrite E; reflexivity).
  pose proof (final_slots2_ok (c_dflt c) rk dr eff (c_repl c) (classes_of (c_dflt c) eff) (c_desired c)) as F.
  rewrite Forall_forall in F.
  unfold Spec. fold eff. split; [|split; [|split; [|split]]].
  - intros m t Hin. apply in_trashes in Hin. rewrite Ec in Hin. unfold bb, balance_block in Hin. simpl in Hin.
    apply in_flat_map in Hin. destruct Hin as (s & Hs & He). apply emit_trash in He. destruct He as (-> & Hr & Hw & Hlt).
    destruct (F s Hs) as (A & B & C). split.
    + rewrite Hr in B. symmetry in B. apply find_repl_some in B. destruct B as [B|B]; [exact B|discriminate].
    + split; [exact Hlt|]. exists (smnt s). split; [exact A|]. split; [reflexivity|].
      destruct (mro (smnt s)) eqn:Ero; [|reflexivity].
      assert (swant s = true) by (apply C; auto; unfold has; rewrite Hr; reflexivity). congruence.
  - intros k d Hin Hd Hlt. rewrite Ec. unfold bb. eapply fixed2_under; eauto. apply lookup_In; auto.
  - intros k d Hin Hd. rewrite Ec. unfold bb. apply fixed2_pres; auto. apply lookup_In; auto.
  - intros m f Hin. apply in_pulls in Hin. rewrite Ec in Hin. unfold bb, balance_block in Hin. simpl in Hin.
    apply in_flat_map in Hin. destruct Hin as (s & Hs & He). apply emit_pull in He.
    destruct He as (-> & Hf & Hr & Hw & Hn & Hro). destruct (F s Hs) as (A & B & C).
    split; [exists (smnt s); auto|]. split; [rewrite Hr in B; symmetry in B; eapply find_repl_none; eauto|].
    destruct (c_repl c) as [|[m0 t0] rest] eqn:Erp; [discriminate|].
    rewrite forallb_forall in H3. specialize (H3 (m0, t0) (or_introl eq_refl)). simpl in H3.
    apply existsb_exists in H3. destruct H3 as (y & Hy & Ey). apply Nat.eqb_eq in Ey.
    destruct (find (fun x => mid x =? m0) (c_raw c)) as [z|] eqn:Fz.
    + apply find_some in Fz. destruct Fz as [Hz Ez]. apply Nat.eqb_eq in Ez. exists m0, t0, z. simpl. auto.
    + exfalso. eapply find_none in Fz; [|exact Hy]. apply Nat.eqb_neq in Fz. congruence.
  - intros Hr (k & d & Hin & Hd). rewrite El. unfold bb, balance_block. simpl. rewrite Hr.
    apply orb_true_iff. right. simpl. apply existsb_exists. exists (k, d). split; [exact Hin|]. apply Nat.ltb_lt. exact Hd.
Qed.

Lemma fixed2_on_witnesses :
  trashes (fst (m_out proofs.C05_witness.w_f1)) = [] /\ trashes (fst (m_out proofs.C05_witness.w_f1b)) = [] /\
  trashes (fst (m_out proofs.C05_witness.w_f10)) = [] /\ trashes (fst (m_out proofs.C05_witness.w_f12)) = [] /\
  snd (m_out proofs.C05_witness.w_f8) = true.
Proof. vm_compute. auto 10. Qed.

(* ---------- the clauses of the specification, one by one, for the model's output ---------- *)
Section Clauses.
Variable c : case.
Hypothesis Hwf : wf_b c = true.
Let eff := setup (c_raw c) (c_sro c).
Let tr := trashes (fst (m_out c)).
Let pl := pulls (fst (m_out c)).

Lemma spec_of_model : Spec c tr pl (snd (m_out c)).
Proof using Hwf.
  pose proof (fixed2_meets_spec c Hwf) as H. unfold tr, pl. destruct (m_out c) as [chs lost]. exact H.
Qed.

Theorem trash_old_writable_only m t : In (m, t) tr ->
  In (m, t) (c_repl c) /\ t < c_min c /\ exists x, In x eff /\ mid x = m /\ mro x = false.
Proof using Hwf. intros H. destruct spec_of_model as (A & _). exact (A m t H). Qed.

Theorem no_trash_when_underreplicated k d : In (k, d) (c_desired c) -> 0 < d ->
  phys_repl (c_dflt c) k eff (held eff (c_repl c)) < d -> tr = [].
Proof using Hwf. intros H1 H2 H3. destruct spec_of_model as (_ & A & _). exact (A k d H1 H2 H3). Qed.

Theorem trash_preserves_replication k d : In (k, d) (c_desired c) -> 0 < d ->
  Nat.min d (phys_repl (c_dflt c) k eff (held eff (c_repl c))) <= phys_repl (c_dflt c) k eff (after eff (c_repl c) tr).
Proof using Hwf. intros H1 H2. destruct spec_of_model as (_ & _ & A & _). exact (A k d H1 H2). Qed.

Theorem pull_targets_ok m f : In (m, f) pl ->
  (exists x, In x eff /\ mid x = m /\ mro x = false) /\ (forall t, ~ In (m, t) (c_repl c)) /\
  exists i t x, In (i, t) (c_repl c) /\ In x (c_raw c) /\ mid x = i /\ msrv x = f.
Proof using Hwf. intros H. destruct spec_of_model as (_ & _ & _ & A & _). exact (A m f H). Qed.

Theorem lost_reported : c_repl c = [] -> (exists k d, In (k, d) (c_desired c) /\ 0 < d) -> snd (m_out c) = true.
Proof using Hwf. intros H1 H2. destruct spec_of_model as (_ & _ & _ & _ & A). exact (A H1 H2). Qed.
End Clauses.

(* the effective (post-cleanupMounts) writable mount of a trash/pull is a mount reported writable on a
   service that is not read-only *)
Lemma eff_writable_raw raw sro x : In x (setup raw sro) -> mro x = false ->
  exists r, In r raw /\ mid r = mid x /\ msrv r = msrv x /\ mro r = false /\ ~ In (msrv r) sro.
Proof. apply setup_raw. Qed.

(* well-formed cases with trash, pull and lost outcomes; and the witnesses of the old findings *)
Lemma main_examples :
  wf_b proofs.C05_witness.ex_ok1 = true /\ trashes (fst (m_out proofs.C05_witness.ex_ok1)) = [(3, 12)] /\
  wf_b proofs.C05_witness.ex_ok2 = true /\ pulls (fst (m_out proofs.C05_witness.ex_ok2)) = [(1, 1)] /\ trashes (fst (m_out proofs.C05_witness.ex_ok2)) = [] /\
  wf_b proofs.C05_witness.ex_ok3 = true /\ snd (m_out proofs.C05_witness.ex_ok3) = true.
Proof. vm_compute. auto 10. Qed.
