(* C11 — proofs about the putReplicas model: invariants of the inner loop (one round) and of the
   round loop, for every response oracle [answer] and every completion schedule [pick]. *)
From Coq Require Import Arith NArith List Ascii String Bool Lia Permutation.
From AV Require Import lib.Str model.C11_model model.C11_run.
Import ListNotations.
Local Open Scope nat_scope.

Arguments complete : simpl never.
Arguments start : simpl never.

(* ------------------------------------------------------------------ list helpers *)
Lemma list_sum_perm l1 l2 : Permutation l1 l2 -> list_sum l1 = list_sum l2.
Proof. induction 1; simpl; lia. Qed.

Lemma firstn_S_nth (l : list nat) n : n < List.length l -> firstn (S n) l = firstn n l ++ [nth n l 0].
Proof.
  revert n. induction l as [|a l IH]; intros n H; cbn [List.length] in H; [lia|].
  destruct n; [reflexivity|]. cbn [nth]. change (firstn (S (S n)) (a :: l)) with (a :: firstn (S n) l).
  rewrite IH by lia. reflexivity.
Qed.

Lemma nth_split_remove (l : list nat) i : i < List.length l -> Permutation l (nth i l 0 :: remove_nth i l).
Proof.
  intros H. unfold remove_nth. rewrite <- (firstn_skipn i l) at 1.
  assert (Hs : skipn i l = nth i l 0 :: skipn (S i) l).
  { clear -H. revert i H. induction l as [|a l IH]; intros i H; cbn [List.length] in H; [lia|].
    destruct i; [reflexivity|]. cbn [skipn nth]. apply IH. lia. }
  rewrite Hs. symmetry. apply Permutation_middle.
Qed.

Lemma nth_In_lt (l : list nat) i : i < List.length l -> In (nth i l 0) l.
Proof. intros H. apply nth_In. exact H. Qed.

Lemma remove_nth_length {A} i (l : list A) : i < List.length l -> List.length (remove_nth i l) = List.length l - 1.
Proof.
  intros H. unfold remove_nth. rewrite app_length, firstn_length, skipn_length. lia.
Qed.

Lemma NoDup_firstn_nth (l : list nat) n : NoDup l -> n < List.length l -> ~ In (nth n l 0) (firstn n l).
Proof.
  revert n. induction l as [|a l IH]; intros n Hnd Hn; cbn [List.length] in Hn; [lia|].
  inversion Hnd as [|? ? Ha Hl]; subst.
  destruct n; cbn [nth firstn]; [intros []|].
  intros [E|Hin].
  - apply Ha. rewrite E. apply nth_In. lia.
  - eapply IH; [exact Hl| |exact Hin]. lia.
Qed.

Lemma firstn_In_incl {A} n (l : list A) x : In x (firstn n l) -> In x l.
Proof.
  revert l. induction n as [|n IH]; intros l H; [destruct H|]. destruct l as [|a l]; [destruct H|].
  cbn [firstn] in H. destruct H as [H|H]; [left; exact H|right; apply IH; exact H].
Qed.

Lemma mem_In x l : mem x l = true <-> In x l.
Proof.
  unfold mem. rewrite existsb_exists. split.
  - intros (y & Hy & E). apply Nat.eqb_eq in E. subst. exact Hy.
  - intros H. exists x. split; [exact H|apply Nat.eqb_refl].
Qed.

(* ------------------------------------------------------------------ trace functions *)
Definition last200 (tr : list step) : string :=
  fold_left (fun l s => if is200 (st_out s) then o_body (st_out s) else l) tr EmptyString.

Lemma total_stored_app a b : total_stored (a ++ b) = total_stored a + total_stored b.
Proof. unfold total_stored, outs. rewrite !map_app, list_sum_app. reflexivity. Qed.
Lemma total_stored_snoc a s : total_stored (a ++ [s]) = total_stored a + stored_of (st_out s).
Proof. rewrite total_stored_app. unfold total_stored, outs. cbn. lia. Qed.

Lemma last200_snoc a s : last200 (a ++ [s]) = if is200 (st_out s) then o_body (st_out s) else last200 a.
Proof. unfold last200. rewrite fold_left_app. reflexivity. Qed.

Lemma hist_app x a b : hist x (a ++ b) = hist x a ++ hist x b.
Proof. unfold hist, outs. rewrite filter_app, map_app. reflexivity. Qed.
Lemma hist_snoc x a s : hist x (a ++ [s]) = hist x a ++ (if st_done s =? x then [st_out s] else []).
Proof. rewrite hist_app. unfold hist, outs. cbn [filter]. destruct (st_done s =? x); reflexivity. Qed.

Lemma retry_ok_b_snoc r a : forall seen s,
  retry_ok_b r seen (a ++ [s]) = retry_ok_b r seen a && forallb (may_contact_b r (seen ++ a)) (st_started s).
Proof.
  induction a as [|x a IH]; intros seen s; cbn [app retry_ok_b].
  - rewrite app_nil_r, andb_true_r. reflexivity.
  - rewrite IH, <- app_assoc. cbn [app]. rewrite andb_assoc. reflexivity.
Qed.

(* the round recorded in a step is the number of answers its service had given before (the harness's
   stub indexes the script by this attempt number, the model by round) *)
Fixpoint att_ok_b (seen todo : list step) : bool :=
  match todo with
  | [] => true
  | s :: r => (st_round s =? List.length (hist (st_done s) seen)) && att_ok_b (seen ++ [s]) r
  end.
Lemma att_ok_b_snoc a : forall seen s,
  att_ok_b seen (a ++ [s]) = att_ok_b seen a && (st_round s =? List.length (hist (st_done s) (seen ++ a))).
Proof.
  induction a as [|x a IH]; intros seen s; cbn [app att_ok_b].
  - rewrite app_nil_r, andb_true_r. reflexivity.
  - rewrite IH, <- app_assoc. cbn [app]. rewrite andb_assoc. reflexivity.
Qed.

(* loc_ok_b holds of the last 200 body *)
Lemma loc_ok_fold tr : forall l0,
  let l := fold_left (fun l s => if is200 (st_out s) then o_body (st_out s) else l) tr l0 in
  (existsb is200 (outs tr) = false /\ l = l0) \/
  (existsb (fun o => is200 o && String.eqb (o_body o) l) (outs tr) = true).
Proof.
  induction tr as [|s tr IH]; intros l0; cbn [fold_left outs map existsb].
  - left. split; reflexivity.
  - fold (outs tr). specialize (IH (if is200 (st_out s) then o_body (st_out s) else l0)). cbn zeta in IH.
    destruct IH as [[Hn Hl]|Hy].
    + destruct (is200 (st_out s)) eqn:E.
      * right. rewrite Hl, String.eqb_refl. reflexivity.
      * left. split; [exact Hn|exact Hl].
    + right. rewrite Hy. apply orb_true_r.
Qed.

Lemma loc_ok_last200 tr : loc_ok_b (last200 tr) tr = true.
Proof.
  unfold loc_ok_b. destruct (loc_ok_fold tr EmptyString) as [[Hn Hl]|Hy]; fold (last200 tr) in *.
  - rewrite Hn, Hl. reflexivity.
  - assert (He : existsb is200 (outs tr) = true).
    { apply existsb_exists in Hy. destruct Hy as (o & Ho & E). apply andb_true_iff in E.
      apply existsb_exists. exists o. tauto. }
    rewrite He. exact Hy.
Qed.

Lemma count_perm x l1 l2 : Permutation l1 l2 -> count_nat x l1 = count_nat x l2.
Proof. induction 1; cbn [count_nat]; lia. Qed.

Lemma count_app x a b : count_nat x (a ++ b) = count_nat x a + count_nat x b.
Proof. induction a as [|y a IH]; cbn [app count_nat]; [reflexivity|]. rewrite IH. lia. Qed.

(* ================================================================== one Put *)
Section PR.
Variable rpt : nat.
Variable answer : nat -> nat -> outcome.
Variable pick : nat -> nat.
Variable want retries : nat.
Variable sv0 : list nat.          (* the writable services in rendezvous order *)

Notation inner := (inner rpt answer pick).
Notation outer := (outer rpt answer pick).
Notation complete := (complete answer).

Definition gain (round : nat) (l : list nat) : nat := list_sum (map (fun x => stored_of (answer x round)) l).
Lemma gain_perm round l1 l2 : Permutation l1 l2 -> gain round l1 = gain round l2.
Proof. intros H. unfold gain. apply list_sum_perm. apply Permutation_map. exact H. Qed.

Definition step_ok (s : step) : Prop :=
  st_out s = answer (st_done s) (st_round s) /\ In (st_done s) sv0 /\ incl (st_started s) sv0.

(* facts that hold when a round begins *)
Record RInv (round : nat) (servers : list nat) (dn td : nat) (lc : string) (tr : list step) : Prop := {
  ri_done : dn = total_stored tr;
  ri_todo : td = want - dn;
  ri_loc : lc = last200 tr;
  ri_nodup : NoDup servers;
  ri_incl : incl servers sv0;
  ri_flight : Permutation (flat_map st_started tr) (map st_done tr);
  ri_steps : Forall step_ok tr;
  ri_hist : forall x, In x servers ->
            forallb (fun o => retryable (o_code o)) (hist x tr) = true /\ List.length (hist x tr) = round;
  ri_retry : retry_ok_b retries [] tr = true;
  ri_att : att_ok_b [] tr = true;
  ri_exh : forall x, In x sv0 -> ~ In x servers -> 1 <= List.length (hist x tr) /\ last_retryable x tr = false
}.

(* facts that hold inside round [round], which began with servers [servers] and log [tr0] *)
Record Inv (round : nat) (servers : list nat) (tr0 : list step) (s : st) : Prop := {
  iv_sv : sv s = servers;
  iv_next : next s <= List.length (sv s);
  iv_perm : Permutation (firstn (next s) (sv s)) (active s ++ completed s);
  iv_done : done s = total_stored (steps s);
  iv_todo : todo s = want - done s;
  iv_loc : loc s = last200 (steps s);
  iv_flight : Permutation (flat_map st_started (steps s) ++ pend s) (map st_done (steps s) ++ active s);
  iv_steps : Forall step_ok (steps s);
  iv_pend : incl (pend s) sv0;
  iv_retry : retry s = filter (fun x => retryable (o_code (answer x round))) (rev (completed s));
  iv_hist : forall x, hist x (steps s) = hist x tr0 ++ (if mem x (completed s) then [answer x round] else []);
  iv_rok : retry_ok_b retries [] (steps s) = true;
  iv_att : att_ok_b [] (steps s) = true;
  iv_pok : forallb (may_contact_b retries (steps s)) (pend s) = true;
  iv_gain : done s = total_stored tr0 + gain round (completed s);
  iv_pn : pend s = [] \/ (active s <> [] /\ todo s <> 0)
}.

Definition mu (s : st) : nat := 2 * (List.length (sv s) - next s) + List.length (active s).

Section Round.
Variable round : nat.
Variable servers : list nat.
Variable tr0 : list step.
Hypothesis Hnd : NoDup servers.
Hypothesis Hincl : incl servers sv0.
Hypothesis Hround : round <= retries.
Hypothesis Hhist : forall x, In x servers ->
  forallb (fun o => retryable (o_code o)) (hist x tr0) = true /\ List.length (hist x tr0) = round.

Lemma active_completed_in s : Inv round servers tr0 s -> forall x, In x (active s ++ completed s) -> In x servers.
Proof.
  intros I x Hx. rewrite <- (iv_sv _ _ _ _ I).
  apply (firstn_In_incl (next s)). eapply Permutation_in; [symmetry; apply (iv_perm _ _ _ _ I)|exact Hx].
Qed.

Lemma nodup_active_completed s : Inv round servers tr0 s -> NoDup (active s ++ completed s).
Proof.
  intros I. eapply Permutation_NoDup; [apply (iv_perm _ _ _ _ I)|].
  rewrite (iv_sv _ _ _ _ I). clear -Hnd. revert servers Hnd. induction (next s) as [|n IH]; intros l Hl; [constructor|].
  destruct l as [|a l]; [constructor|]. cbn [firstn]. inversion Hl; subst. constructor.
  - intros Hin. apply H1. eapply firstn_In_incl. exact Hin.
  - apply IH. assumption.
Qed.

Lemma start_inv s : Inv round servers tr0 s -> next s < List.length (sv s) -> todo s <> 0 -> Inv round servers tr0 (start s).
Proof.
  intros I Hlt Htodo. pose proof (iv_sv _ _ _ _ I) as Hsv.
  set (x := nth (next s) (sv s) 0).
  assert (Hxin : In x servers) by (rewrite <- Hsv; apply nth_In; exact Hlt).
  assert (Hxnew : ~ In x (active s ++ completed s)).
  { intros Hin. eapply Permutation_in in Hin; [|symmetry; apply (iv_perm _ _ _ _ I)].
    revert Hin. apply NoDup_firstn_nth; [rewrite Hsv; exact Hnd|exact Hlt]. }
  constructor; unfold start; cbn [sv next active completed done todo retry loc pend steps]; fold x.
  - exact Hsv.
  - lia.
  - rewrite firstn_S_nth by exact Hlt. fold x. rewrite <- app_assoc.
    eapply Permutation_trans; [apply Permutation_app_tail; apply (iv_perm _ _ _ _ I)|].
    rewrite <- !app_assoc. apply Permutation_app_head. apply Permutation_app_comm.
  - apply (iv_done _ _ _ _ I).
  - apply (iv_todo _ _ _ _ I).
  - apply (iv_loc _ _ _ _ I).
  - rewrite !app_assoc. apply Permutation_app_tail. apply (iv_flight _ _ _ _ I).
  - apply (iv_steps _ _ _ _ I).
  - apply incl_app; [apply (iv_pend _ _ _ _ I)|]. intros y [<-|[]]. apply Hincl. exact Hxin.
  - apply (iv_retry _ _ _ _ I).
  - apply (iv_hist _ _ _ _ I).
  - apply (iv_rok _ _ _ _ I).
  - apply (iv_att _ _ _ _ I).
  - rewrite forallb_app, (iv_pok _ _ _ _ I). cbn [forallb]. rewrite andb_true_r, andb_true_l.
    unfold may_contact_b. rewrite (iv_hist _ _ _ _ I x).
    assert (Hm : mem x (completed s) = false).
    { destruct (mem x (completed s)) eqn:E; [|reflexivity]. exfalso. apply Hxnew. apply in_or_app. right.
      apply mem_In. exact E. }
    rewrite Hm, app_nil_r. destruct (Hhist x Hxin) as [Hr Hl]. rewrite Hr, Hl. cbn [andb]. apply Nat.leb_le. exact Hround.
  - apply (iv_gain _ _ _ _ I).
  - right. split; [destruct (active s); discriminate|exact Htodo].
Qed.

Lemma complete_inv s i : Inv round servers tr0 s -> i < List.length (active s) -> Inv round servers tr0 (complete round s i).
Proof.
  intros I Hi. pose proof (iv_sv _ _ _ _ I) as Hsv.
  set (x := nth i (active s) 0). set (o := answer x round).
  assert (Hxa : In x (active s)) by (apply nth_In; exact Hi).
  assert (Hxs : In x servers) by (eapply active_completed_in; [exact I|apply in_or_app; left; exact Hxa]).
  pose proof (nodup_active_completed s I) as Hnd2.
  assert (Hxc : ~ In x (completed s)).
  { intros Hc. pose proof (nth_split_remove (active s) i Hi) as Hp. fold x in Hp.
    eapply Permutation_NoDup in Hnd2; [|apply Permutation_app_tail; exact Hp].
    cbn [app] in Hnd2. inversion Hnd2; subst. apply H1. apply in_or_app. right. exact Hc. }
  pose proof (nth_split_remove (active s) i Hi) as Hp. fold x in Hp.
  constructor; unfold C11_model.complete; cbn [sv next active completed done todo retry loc pend steps]; fold x; fold o.
  - exact Hsv.
  - apply (iv_next _ _ _ _ I).
  - eapply Permutation_trans; [apply (iv_perm _ _ _ _ I)|].
    eapply Permutation_trans; [apply Permutation_app_tail; exact Hp|]. cbn [app]. apply Permutation_middle.
  - rewrite total_stored_snoc. cbn [st_out]. rewrite (iv_done _ _ _ _ I). reflexivity.
  - rewrite (iv_todo _ _ _ _ I). lia.
  - rewrite last200_snoc. cbn [st_out]. rewrite (iv_loc _ _ _ _ I). reflexivity.
  - rewrite flat_map_app, map_app. cbn [flat_map map st_started st_done]. rewrite !app_nil_r.
    eapply Permutation_trans; [apply (iv_flight _ _ _ _ I)|].
    rewrite <- app_assoc. apply Permutation_app_head. cbn [app]. exact Hp.
  - apply Forall_app. split; [apply (iv_steps _ _ _ _ I)|]. constructor; [|constructor].
    unfold step_ok. cbn [st_out st_done st_round st_started]. split; [reflexivity|]. split; [apply Hincl; exact Hxs|apply (iv_pend _ _ _ _ I)].
  - intros y [].
  - rewrite (iv_retry _ _ _ _ I). cbn [rev]. rewrite filter_app. cbn [filter]. fold o.
    destruct (retryable (o_code o)); [reflexivity|rewrite app_nil_r; reflexivity].
  - intros y. rewrite hist_snoc. cbn [st_done st_out]. rewrite (iv_hist _ _ _ _ I y). cbn [mem existsb].
    destruct (Nat.eqb_spec x y) as [E|E].
    + subst y. rewrite Nat.eqb_refl. cbn [orb].
      assert (Hm : mem x (completed s) = false).
      { destruct (mem x (completed s)) eqn:Em; [|reflexivity]. exfalso. apply Hxc. apply mem_In. exact Em. }
      rewrite Hm, app_nil_r. reflexivity.
    + assert (E' : (y =? x) = false) by (apply Nat.eqb_neq; congruence). rewrite E'. cbn [orb]. rewrite app_nil_r. reflexivity.
  - rewrite retry_ok_b_snoc. cbn [app st_started]. rewrite (iv_rok _ _ _ _ I), (iv_pok _ _ _ _ I). reflexivity.
  - rewrite att_ok_b_snoc. cbn [app st_round st_done]. rewrite (iv_att _ _ _ _ I), (iv_hist _ _ _ _ I x).
    assert (Hm : mem x (completed s) = false).
    { destruct (mem x (completed s)) eqn:Em; [|reflexivity]. exfalso. apply Hxc. apply mem_In. exact Em. }
    rewrite Hm, app_nil_r. destruct (Hhist x Hxs) as [_ Hl]. rewrite Hl, Nat.eqb_refl. reflexivity.
  - reflexivity.
  - rewrite (iv_gain _ _ _ _ I). unfold gain. cbn [map]. fold o. change (list_sum (?a :: ?l)) with (a + list_sum l). lia.
  - left. reflexivity.
Qed.

Lemma complete_mu s i : i < List.length (active s) -> mu (complete round s i) < mu s.
Proof.
  intros Hi. unfold mu, C11_model.complete. cbn [sv next active]. rewrite remove_nth_length by exact Hi. lia.
Qed.

(* the loop of one round really exits (it is not cut off by the fuel), and the invariant holds at the exit *)
Lemma inner_inv fuel : forall s k,
  Inv round servers tr0 s -> mu s < fuel ->
  let s' := fst (inner fuel round s k) in
  Inv round servers tr0 s' /\ (todo s' = 0 \/ (active s' = [] /\ List.length (sv s') <= next s')) /\ pend s' = [].
Proof.
  induction fuel as [|f IH]; intros s k I Hmu; [lia|]. cbn [C11_model.inner].
  destruct (todo s =? 0) eqn:E0.
  { apply Nat.eqb_eq in E0. cbn [fst]. split; [exact I|]. split; [auto|].
    destruct (iv_pn _ _ _ _ I) as [P|[_ P]]; [exact P|contradiction]. }
  destruct ((List.length (active s) * rpt <? todo s) && (next s <? List.length (sv s))) eqn:E1.
  - apply andb_true_iff in E1. destruct E1 as [_ E1]. apply Nat.ltb_lt in E1.
    apply IH; [apply start_inv; [assumption|assumption|apply Nat.eqb_neq; exact E0]|].
    unfold mu, start in *. cbn [sv next active]. rewrite app_length. cbn [List.length]. lia.
  - destruct (active s) as [|a0 arest] eqn:Ea.
    + cbn [fst]. split; [exact I|]. split.
      * right. split; [exact Ea|].
        apply andb_false_iff in E1. destruct E1 as [E1|E1].
        -- apply Nat.ltb_ge in E1. cbn [List.length] in E1. apply Nat.eqb_neq in E0. lia.
        -- apply Nat.ltb_ge in E1. exact E1.
      * destruct (iv_pn _ _ _ _ I) as [P|[P _]]; [exact P|rewrite Ea in P; contradiction].
    + rewrite <- Ea in *.
      set (i := pick k mod List.length (active s)).
      assert (Hi : i < List.length (active s)).
      { unfold i. apply Nat.mod_upper_bound. rewrite Ea. cbn [List.length]. lia. }
      apply IH; [apply complete_inv; assumption|].
      pose proof (complete_mu s i Hi). lia.
Qed.
End Round.

Lemma round_fuel_enough servers s : sv s = servers -> next s = 0 -> active s = [] -> mu s < round_fuel servers.
Proof. intros H1 H2 H3. unfold mu, round_fuel. rewrite H1, H2, H3. cbn [List.length]. lia. Qed.

Definition s_init (servers : list nat) (dn td : nat) (lc : string) (tr : list step) : st :=
  {| sv := servers; next := 0; active := []; completed := []; done := dn; todo := td; retry := []; loc := lc; pend := []; steps := tr |}.

Lemma init_inv round servers dn td lc tr :
  RInv round servers dn td lc tr -> Inv round servers tr (s_init servers dn td lc tr).
Proof.
  intros R. constructor; unfold s_init; cbn [sv next active completed done todo retry loc pend steps].
  - reflexivity.
  - lia.
  - constructor.
  - apply (ri_done _ _ _ _ _ _ R).
  - apply (ri_todo _ _ _ _ _ _ R).
  - apply (ri_loc _ _ _ _ _ _ R).
  - rewrite !app_nil_r. apply (ri_flight _ _ _ _ _ _ R).
  - apply (ri_steps _ _ _ _ _ _ R).
  - intros x [].
  - reflexivity.
  - intros x. cbn [mem existsb]. rewrite app_nil_r. reflexivity.
  - apply (ri_retry _ _ _ _ _ _ R).
  - apply (ri_att _ _ _ _ _ _ R).
  - reflexivity.
  - unfold gain. cbn. rewrite (ri_done _ _ _ _ _ _ R). lia.
  - left. reflexivity.
Qed.

(* when a round ends with uploads still to do, every server of the round has answered, and the next
   round's facts hold for the retry list *)
Lemma next_round round servers dn td lc tr s :
  RInv round servers dn td lc tr -> round <= retries ->
  Inv round servers tr s -> active s = [] -> List.length (sv s) <= next s -> pend s = [] ->
  RInv (S round) (retry s) (done s) (todo s) (loc s) (steps s).
Proof.
  intros R Hr I Ha Hn Hp.
  pose proof (iv_sv _ _ _ _ I) as Hsv.
  assert (Hperm : Permutation servers (completed s)).
  { pose proof (iv_perm _ _ _ _ I) as P. rewrite Ha in P. cbn [app] in P. rewrite firstn_all2 in P by exact Hn.
    rewrite Hsv in P. exact P. }
  assert (Hndc : NoDup (completed s)) by (eapply Permutation_NoDup; [exact Hperm|apply (ri_nodup _ _ _ _ _ _ R)]).
  assert (Hretry_in : forall x, In x (retry s) <-> In x servers /\ retryable (o_code (answer x round)) = true).
  { intros x. rewrite (iv_retry _ _ _ _ I), filter_In, <- in_rev. split; intros [A B]; split; try exact B.
    - eapply Permutation_in; [symmetry; exact Hperm|exact A].
    - eapply Permutation_in; [exact Hperm|exact A]. }
  constructor.
  - apply (iv_done _ _ _ _ I).
  - apply (iv_todo _ _ _ _ I).
  - apply (iv_loc _ _ _ _ I).
  - rewrite (iv_retry _ _ _ _ I). apply NoDup_filter. apply NoDup_rev. exact Hndc.
  - intros x Hx. apply Hretry_in in Hx. apply (ri_incl _ _ _ _ _ _ R). tauto.
  - pose proof (iv_flight _ _ _ _ I) as F. rewrite Ha, Hp, !app_nil_r in F. exact F.
  - apply (iv_steps _ _ _ _ I).
  - intros x Hx. apply Hretry_in in Hx. destruct Hx as [Hxs Hxr].
    rewrite (iv_hist _ _ _ _ I x).
    assert (Hm : mem x (completed s) = true) by (apply mem_In; eapply Permutation_in; [exact Hperm|exact Hxs]).
    rewrite Hm. destruct (ri_hist _ _ _ _ _ _ R x Hxs) as [A B]. rewrite forallb_app, A. cbn [forallb]. rewrite Hxr.
    split; [reflexivity|]. rewrite app_length, B. cbn [List.length]. lia.
  - apply (iv_rok _ _ _ _ I).
  - apply (iv_att _ _ _ _ I).
  - intros x Hx0 Hnr. destruct (in_dec Nat.eq_dec x servers) as [Hxs|Hxs].
    + (* answered in this round, not retryable *)
      assert (Hm : mem x (completed s) = true) by (apply mem_In; eapply Permutation_in; [exact Hperm|exact Hxs]).
      assert (Hnot : retryable (o_code (answer x round)) = false).
      { destruct (retryable (o_code (answer x round))) eqn:E; [|reflexivity]. exfalso. apply Hnr. apply Hretry_in. tauto. }
      unfold last_retryable. rewrite (iv_hist _ _ _ _ I x), Hm. rewrite app_length, rev_app_distr. cbn [List.length rev app].
      split; [lia|exact Hnot].
    + destruct (ri_exh _ _ _ _ _ _ R x Hx0 Hxs) as [A B].
      assert (Hm : mem x (completed s) = false).
      { destruct (mem x (completed s)) eqn:E; [|reflexivity]. exfalso. apply Hxs. apply mem_In in E.
        eapply Permutation_in; [symmetry; exact Hperm|exact E]. }
      unfold last_retryable in *. rewrite (iv_hist _ _ _ _ I x), Hm, app_nil_r. split; assumption.
Qed.

(* what holds of the result of the round loop *)
Record Post (r : run) : Prop := {
  po_steps : Forall step_ok (r_steps r);
  po_retry : retry_ok_b retries [] (r_steps r) = true;
  po_att : att_ok_b [] (r_steps r) = true;
  po_flight : Permutation (flat_map st_started (r_steps r)) (map st_done (r_steps r) ++ r_abandoned r);
  po_aband : incl (r_abandoned r) sv0;
  po_ok : forall l n, r_res r = Ok l n -> want <= n /\ n = total_stored (r_steps r) /\ l = last200 (r_steps r);
  po_err : forall l n, r_res r = Insufficient l n ->
           n < want /\ n = total_stored (r_steps r) /\ l = last200 (r_steps r) /\ r_abandoned r = [] /\
           (forall x, In x sv0 -> 1 <= List.length (hist x (r_steps r)) /\
                                  (last_retryable x (r_steps r) = true -> List.length (hist x (r_steps r)) = S retries));
  po_noover : r_res r <> Oversize
}.

Lemma init_fuel servers dn td lc tr : mu (s_init servers dn td lc tr) < round_fuel servers.
Proof. apply round_fuel_enough; reflexivity. Qed.

Lemma outer_unfold rounds round servers dn td lc k tr :
  outer (S rounds) round servers dn td lc k tr =
  let '(s, k') := inner (round_fuel servers) round (s_init servers dn td lc tr) k in
  if todo s =? 0 then {| r_res := Ok (loc s) (done s); r_steps := steps s; r_abandoned := active s |}
  else if rounds =? 0 then {| r_res := Insufficient (loc s) (done s); r_steps := steps s; r_abandoned := active s |}
  else outer rounds (S round) (retry s) (done s) (todo s) (loc s) k' (steps s).
Proof. reflexivity. Qed.

Lemma outer_post rounds : forall round servers dn td lc k tr,
  RInv round servers dn td lc tr -> round + rounds = S retries -> 1 <= rounds ->
  Post (outer rounds round servers dn td lc k tr).
Proof.
  induction rounds as [|r IH]; intros round servers dn td lc k tr R Hsum Hpos; [lia|].
  rewrite outer_unfold.
  assert (Hround : round <= retries) by lia.
  pose proof (inner_inv round servers tr (ri_nodup _ _ _ _ _ _ R) (ri_incl _ _ _ _ _ _ R) Hround (ri_hist _ _ _ _ _ _ R)
                        (round_fuel servers) (s_init servers dn td lc tr) k (init_inv _ _ _ _ _ _ R)
                        (init_fuel _ _ _ _ _)) as HI.
  cbn zeta in HI.
  destruct (inner (round_fuel servers) round (s_init servers dn td lc tr) k) as [s k'] eqn:E. cbn [fst] in HI.
  destruct HI as (I & Hexit & Hpend).
  assert (Hact : incl (active s) sv0).
  { intros x Hx. apply (ri_incl _ _ _ _ _ _ R). eapply active_completed_in; [exact I|].
    apply in_or_app. left. exact Hx. }
  assert (Hfl : Permutation (flat_map st_started (steps s)) (map st_done (steps s) ++ active s)).
  { pose proof (iv_flight _ _ _ _ I) as F. rewrite Hpend, app_nil_r in F. exact F. }
  destruct (todo s =? 0) eqn:E0.
  - apply Nat.eqb_eq in E0. constructor; cbn [r_res r_steps r_abandoned].
    + apply (iv_steps _ _ _ _ I).
    + apply (iv_rok _ _ _ _ I).
    + apply (iv_att _ _ _ _ I).
    + exact Hfl.
    + exact Hact.
    + intros l n [= <- <-]. pose proof (iv_todo _ _ _ _ I). split; [lia|]. split; [apply (iv_done _ _ _ _ I)|apply (iv_loc _ _ _ _ I)].
    + intros l n Hx. discriminate.
    + discriminate.
  - apply Nat.eqb_neq in E0. destruct Hexit as [Hz|[Ha Hn]]; [contradiction|].
    pose proof (next_round round servers dn td lc tr s R Hround I Ha Hn Hpend) as R'.
    destruct (r =? 0) eqn:Er.
    + apply Nat.eqb_eq in Er. subst r. constructor; cbn [r_res r_steps r_abandoned].
      * apply (iv_steps _ _ _ _ I).
      * apply (iv_rok _ _ _ _ I).
      * apply (iv_att _ _ _ _ I).
      * exact Hfl.
      * exact Hact.
      * intros l n Hx. discriminate.
      * intros l n [= <- <-]. pose proof (iv_todo _ _ _ _ I).
        split; [lia|]. split; [apply (iv_done _ _ _ _ I)|]. split; [apply (iv_loc _ _ _ _ I)|]. split; [exact Ha|].
        intros x Hx. destruct (in_dec Nat.eq_dec x (retry s)) as [Hr|Hr].
        -- destruct (ri_hist _ _ _ _ _ _ R' x Hr) as [_ Hl]. rewrite Hl. split; [lia|]. intros _. lia.
        -- destruct (ri_exh _ _ _ _ _ _ R' x Hx Hr) as [A B]. split; [exact A|]. rewrite B. discriminate.
      * discriminate.
    + apply Nat.eqb_neq in Er. apply IH; [exact R'|lia|lia].
Qed.

Lemma rinv_init servers : NoDup servers -> sv0 = servers -> RInv 0 servers 0 want EmptyString [].
Proof.
  intros Hnd <-. constructor.
  - reflexivity.
  - lia.
  - reflexivity.
  - exact Hnd.
  - apply incl_refl.
  - constructor.
  - constructor.
  - intros x _. split; reflexivity.
  - reflexivity.
  - reflexivity.
  - intros x H1 H2. contradiction.
Qed.

(* enough replicas offered in the first round => success, whatever the schedule and the later answers *)
Lemma first_round_enough servers :
  NoDup servers -> sv0 = servers -> want <= gain 0 servers ->
  exists l n, r_res (outer (S retries) 0 servers 0 want EmptyString 0 []) = Ok l n.
Proof.
  intros Hnd Hsv Hg. pose proof (rinv_init servers Hnd Hsv) as R.
  rewrite outer_unfold.
  pose proof (inner_inv 0 servers [] (ri_nodup _ _ _ _ _ _ R) (ri_incl _ _ _ _ _ _ R) (Nat.le_0_l _) (ri_hist _ _ _ _ _ _ R)
                        (round_fuel servers) (s_init servers 0 want EmptyString []) 0 (init_inv _ _ _ _ _ _ R)
                        (init_fuel _ _ _ _ _)) as HI.
  cbn zeta in HI.
  destruct (inner (round_fuel servers) 0 (s_init servers 0 want EmptyString []) 0) as [s k'] eqn:E. cbn [fst] in HI.
  destruct HI as (I & Hexit & Hpend).
  assert (Hz : todo s = 0).
  { destruct Hexit as [Hz|[Ha Hn]]; [exact Hz|].
    pose proof (iv_perm _ _ _ _ I) as P. rewrite Ha in P. cbn [app] in P. rewrite firstn_all2 in P by exact Hn.
    rewrite (iv_sv _ _ _ _ I) in P. rewrite (gain_perm 0 _ _ P) in Hg.
    pose proof (iv_gain _ _ _ _ I) as G. cbn in G. pose proof (iv_todo _ _ _ _ I). lia. }
  rewrite Hz. cbn [Nat.eqb r_res]. eauto.
Qed.

End PR.
