(* C11 — proofs about the putReplicas model. *)
From Coq Require Import Arith NArith List Ascii String Bool Lia Permutation.
From AV Require Import lib.Str model.C11_model model.C11_run.
Import ListNotations.

Lemma oversize_rejected_l H svcs order want retries oracle pick hash data nbytes :
  (BLOCKSIZE < nbytes)%N ->
  put H svcs order want retries oracle pick EPutHR hash data nbytes = {| r_res := Oversize; r_steps := []; r_abandoned := [] |}.
Proof. intros Hn. unfold put. apply N.ltb_lt in Hn. rewrite Hn. reflexivity. Qed.
