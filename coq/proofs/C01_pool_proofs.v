(* C01 — proofs about the buffer-pool model (model/C01_pool.v): overlapping requests on one router are
   linearizable to the sequential model at their volume step, because a buffer is never both in the
   pool and in use. *)
From Coq Require Import NArith List String Bool Arith Lia.
From AV Require Import lib.Str model.C01_model model.C01_pool proofs.C01_proofs.
Import ListNotations.
Local Open Scope N_scope.

Definition lin_ops (s : pst) : list op := map (fun e => snd (fst e)) (rev (lin s)).
Definition lin_resps (s : pst) : list resp := map snd (rev (lin s)).

Fixpoint run_state (H : content -> string) (s : state) (ops : list op) : state :=
  match ops with [] => s | o :: r => run_state H (snd (handle H s o)) r end.


(* ------------------------------------------------------------------ *)
(* auxiliary lemmas *)

Lemma run_snoc (H : content -> string) : forall ops k o,
  map fst (run H k (ops ++ [o])) = map fst (run H k ops) ++ [fst (handle H (run_state H k ops) o)].
Proof.
  induction ops as [|a ops IH]; intros k o.
  - cbn [app run run_state]. destruct (handle H k o) as [a' s']. reflexivity.
  - cbn [app run run_state]. destruct (handle H k a) as [a' s'] eqn:E. cbn [map fst snd].
    rewrite IH. reflexivity.
Qed.

Lemma run_state_snoc (H : content -> string) : forall ops k o,
  run_state H k (ops ++ [o]) = snd (handle H (run_state H k ops) o).
Proof.
  induction ops as [|a ops IH]; intros k o.
  - reflexivity.
  - cbn [app run_state]. apply IH.
Qed.

Definition lops (l : list (nat * op * resp)) : list op := map (fun e => snd (fst e)) (rev l).
Definition lresps (l : list (nat * op * resp)) : list resp := map snd (rev l).

Lemma lops_cons i o r l : lops ((i, o, r) :: l) = lops l ++ [o].
Proof. unfold lops. cbn [rev]. rewrite map_app. reflexivity. Qed.
Lemma lresps_cons i o r l : lresps ((i, o, r) :: l) = lresps l ++ [r].
Proof. unfold lresps. cbn [rev]. rewrite map_app. reflexivity. Qed.

Lemma set_thr_nth_eq : forall l i o q p,
  nth_error l i = Some (o, q) -> nth_error (set_thr l i p) i = Some (o, p).
Proof.
  induction l as [|[o' q'] l IH]; intros [|i] o q p E; cbn in *; try discriminate.
  - inversion E; subst; reflexivity.
  - eapply IH; eauto.
Qed.

Lemma set_thr_nth_neq : forall l i j p, j <> i -> nth_error (set_thr l i p) j = nth_error l j.
Proof.
  induction l as [|[o' q'] l IH]; intros [|i] [|j] p N; cbn; try reflexivity; try congruence.
  apply IH; congruence.
Qed.

Lemma set_thr_fst : forall l i p, map fst (set_thr l i p) = map fst l.
Proof.
  induction l as [|[o' q'] l IH]; intros [|i] p; cbn; try reflexivity.
  rewrite IH. reflexivity.
Qed.

Lemma set_thr_inv l i o p p' j o' q :
  nth_error l i = Some (o, p) -> nth_error (set_thr l i p') j = Some (o', q) ->
  (j = i /\ o' = o /\ q = p') \/ (j <> i /\ nth_error l j = Some (o', q)).
Proof.
  intros E E'. destruct (Nat.eq_dec j i) as [->|N].
  - left. rewrite (set_thr_nth_eq _ _ _ _ p' E) in E'. inversion E'; auto.
  - right. rewrite set_thr_nth_neq in E' by exact N. auto.
Qed.

Lemma remove_nat_sub b l x : In x (remove_nat b l) -> In x l.
Proof.
  induction l as [|y l IH]; cbn; [tauto|].
  destruct (Nat.eqb_spec y b) as [->|N]; [tauto|]. cbn. intros [->|X]; [tauto|]. right. exact (IH X).
Qed.

Lemma remove_nat_in b l x : NoDup l -> In x (remove_nat b l) -> In x l /\ x <> b.
Proof.
  induction 1 as [|y l Hn Hd IH]; cbn; [tauto|].
  destruct (Nat.eqb_spec y b) as [->|N].
  - intros X. split; [right; exact X|]. intros ->. contradiction.
  - cbn. intros [->|X]; [tauto|]. destruct (IH X). tauto.
Qed.

Lemma remove_nat_nodup b l : NoDup l -> NoDup (remove_nat b l).
Proof.
  induction 1 as [|y l Hn Hd IH]; cbn; [constructor|].
  destruct (Nat.eqb_spec y b) as [->|N]; [exact Hd|].
  constructor; [|exact IH]. intros X. apply remove_nat_sub in X. contradiction.
Qed.

Lemma in_pool_in s b : in_pool s b = true -> In b (free s).
Proof.
  unfold in_pool. intros X. apply existsb_exists in X. destruct X as (x & A & B).
  apply Nat.eqb_eq in B. subst. exact A.
Qed.

Lemma get_block_err (H : content -> string) h : forall vs e e',
  get_block H vs h e = GErr e' -> e' = e \/ e' = 500.
Proof.
  induction vs as [|v vs IH]; intros e e' X; cbn [get_block] in X.
  - inversion X; auto.
  - destruct (vol_get v h) as [| |c].
    + apply IH; exact X.
    + apply IH; exact X.
    + destruct (intact H h c); [discriminate|]. destruct (IH _ _ X); auto.
Qed.

(* ------------------------------------------------------------------ *)
(* the invariant *)

Definition holds (p : ppc) : option nat :=
  match p with
  | GHave b | GFilled b _ | GFailed b _ | PHave b | PRead b | Resp b _ => Some b
  | _ => None
  end.

Definition pc_ok (m : nat -> content) (l : list (nat * op * resp)) (i : nat) (o : op) (p : ppc) : Prop :=
  match p with
  | GFilled b c => m b = c /\ In (i, o, get_resp c c) l
  | GLoose _ _ => False
  | GFailed b e => In (i, o, err_resp e) l
  | PRead b => forall h d, o = Put h d -> m b = d
  | Resp b r => In (i, o, r) l
  | Fin r => In (i, o, r) l
  | _ => True
  end.

Lemma pc_ok_mono m l m' l' j o q :
  (forall b, holds q = Some b -> m' b = m b) -> (forall x, In x l -> In x l') ->
  pc_ok m l j o q -> pc_ok m' l' j o q.
Proof.
  intros Hm Hl. destruct q; cbn [pc_ok holds] in *; auto.
  - intros [A B]. split; [rewrite Hm by reflexivity; exact A|auto].
  - intros A h d E. rewrite Hm by reflexivity. eauto.
Qed.

Section INV.
Variable H : content -> string.
Variable k0 : state.
Variable reqs : list op.

Record Inv (s : pst) : Prop := {
  inv_early : early s = false;
  inv_lenient : lenient s = false;
  inv_twice : twice s = false;
  inv_nodup : NoDup (free s);
  inv_notfree : forall i o p b, nth_error (thr s) i = Some (o, p) -> holds p = Some b -> ~ In b (free s);
  inv_distinct : forall i j o p o' p' b, i <> j ->
     nth_error (thr s) i = Some (o, p) -> nth_error (thr s) j = Some (o', p') ->
     holds p = Some b -> holds p' = Some b -> False;
  inv_reqs : map fst (thr s) = reqs;
  inv_pc : forall i o p, nth_error (thr s) i = Some (o, p) -> pc_ok (mem s) (lin s) i o p;
  inv_lin : forall i o r, In (i, o, r) (lin s) ->
     nth_error reqs i = Some o /\ exists k', r = fst (handle H k' o);
  inv_run : map fst (run H k0 (lops (lin s))) = lresps (lin s);
  inv_ks : ks s = run_state H k0 (lops (lin s))
}.

Lemma inv_req_of s i o p : Inv s -> nth_error (thr s) i = Some (o, p) -> nth_error reqs i = Some o.
Proof.
  intros I E. rewrite <- (inv_reqs _ I). rewrite (map_nth_error fst _ _ E). reflexivity.
Qed.

Definition lin_ext (s : pst) (i : nat) (o : op) (k' : state) (l' : list (nat * op * resp)) : Prop :=
  (l' = lin s /\ k' = ks s) \/ (exists r, l' = (i, o, r) :: lin s /\ handle H (ks s) o = (r, k')).

Lemma lin_ext_incl s i o k' l' : lin_ext s i o k' l' -> forall x, In x (lin s) -> In x l'.
Proof. intros [[-> _]|(r & -> & _)] x X; [exact X|right; exact X]. Qed.

Lemma lin_ext_facts s i o p k' l' :
  Inv s -> nth_error (thr s) i = Some (o, p) -> lin_ext s i o k' l' ->
  (forall j o' r, In (j, o', r) l' -> nth_error reqs j = Some o' /\ exists k1, r = fst (handle H k1 o')) /\
  map fst (run H k0 (lops l')) = lresps l' /\
  k' = run_state H k0 (lops l').
Proof.
  intros I E [[-> ->]|(r & -> & Hh)].
  - split; [apply (inv_lin _ I)|]. split; [apply (inv_run _ I)|apply (inv_ks _ I)].
  - split; [|split].
    + intros j o' r' [X|X].
      * inversion X; subst. split; [eapply inv_req_of; eauto|]. exists (ks s). rewrite Hh. reflexivity.
      * apply (inv_lin _ I); exact X.
    + rewrite lops_cons, lresps_cons, run_snoc, (inv_run _ I), <- (inv_ks _ I), Hh. reflexivity.
    + rewrite lops_cons, run_state_snoc, <- (inv_ks _ I), Hh. reflexivity.
Qed.

(* a step that keeps the pool and the buffer held by thread i *)
Lemma inv_same s i o p b p' k' m' l' :
  Inv s -> nth_error (thr s) i = Some (o, p) -> holds p = Some b -> holds p' = Some b ->
  (forall b', b' <> b -> m' b' = mem s b') ->
  lin_ext s i o k' l' ->
  pc_ok m' l' i o p' ->
  Inv (mk s k' (free s) m' i p' l').
Proof.
  intros I E Hp Hp' Hm Hl Hok.
  destruct (lin_ext_facts _ _ _ _ _ _ I E Hl) as (L1 & L2 & L3).
  constructor; unfold mk; cbn [early lenient twice splice free thr lin ks mem].
  - apply (inv_early _ I).
  - apply (inv_lenient _ I).
  - apply (inv_twice _ I).
  - apply (inv_nodup _ I).
  - intros j o' q b' Ej Hq. destruct (set_thr_inv _ _ _ _ _ _ _ _ E Ej) as [(-> & -> & ->)|(N & Ej')].
    + rewrite Hp' in Hq. inversion Hq; subst. eapply (inv_notfree _ I); eauto.
    + eapply (inv_notfree _ I); eauto.
  - intros j1 j2 o1 q1 o2 q2 b' N E1 E2 H1 H2.
    destruct (set_thr_inv _ _ _ _ _ _ _ _ E E1) as [(-> & -> & ->)|(N1 & E1')];
    destruct (set_thr_inv _ _ _ _ _ _ _ _ E E2) as [(-> & -> & ->)|(N2 & E2')].
    + congruence.
    + rewrite Hp' in H1. inversion H1; subst. eapply (inv_distinct _ I i j2); eauto.
    + rewrite Hp' in H2. inversion H2; subst. eapply (inv_distinct _ I j1 i); eauto.
    + eapply (inv_distinct _ I j1 j2); eauto.
  - rewrite set_thr_fst. apply (inv_reqs _ I).
  - intros j o' q Ej. destruct (set_thr_inv _ _ _ _ _ _ _ _ E Ej) as [(-> & -> & ->)|(N & Ej')].
    + exact Hok.
    + eapply pc_ok_mono; [| |apply (inv_pc _ I _ _ _ Ej')].
      * intros b' Hq. apply Hm. intros ->. eapply (inv_distinct _ I j i); eauto.
      * eapply lin_ext_incl; eauto.
  - exact L1.
  - exact L2.
  - exact L3.
Qed.

Lemma inv_acquire s i o b0 p' :
  Inv s -> nth_error (thr s) i = Some (o, W) -> In b0 (free s) ->
  (p' = GHave b0 \/ p' = PHave b0) ->
  Inv (mk s (ks s) (remove_nat b0 (free s)) (mem s) i p' (lin s)).
Proof.
  intros I E Hin Hp'.
  assert (Hh : holds p' = Some b0) by (destruct Hp' as [->| ->]; reflexivity).
  assert (Hok : forall m l, pc_ok m l i o p') by (intros m l; destruct Hp' as [->| ->]; exact Logic.I).
  constructor; unfold mk; cbn [early lenient twice splice free thr lin ks mem].
  - apply (inv_early _ I).
  - apply (inv_lenient _ I).
  - apply (inv_twice _ I).
  - apply remove_nat_nodup. apply (inv_nodup _ I).
  - intros j o' q b' Ej Hq X. apply (remove_nat_in _ _ _ (inv_nodup _ I)) in X. destruct X as [X1 X2].
    destruct (set_thr_inv _ _ _ _ _ _ _ _ E Ej) as [(-> & -> & ->)|(N & Ej')].
    + rewrite Hh in Hq. inversion Hq; subst. congruence.
    + eapply (inv_notfree _ I); eauto.
  - intros j1 j2 o1 q1 o2 q2 b' N E1 E2 H1 H2.
    destruct (set_thr_inv _ _ _ _ _ _ _ _ E E1) as [(-> & -> & ->)|(N1 & E1')];
    destruct (set_thr_inv _ _ _ _ _ _ _ _ E E2) as [(-> & -> & ->)|(N2 & E2')].
    + congruence.
    + rewrite Hh in H1. inversion H1; subst. eapply (inv_notfree _ I j2); eauto.
    + rewrite Hh in H2. inversion H2; subst. eapply (inv_notfree _ I j1); eauto.
    + eapply (inv_distinct _ I j1 j2); eauto.
  - rewrite set_thr_fst. apply (inv_reqs _ I).
  - intros j o' q Ej. destruct (set_thr_inv _ _ _ _ _ _ _ _ E Ej) as [(-> & -> & ->)|(N & Ej')].
    + apply Hok.
    + apply (inv_pc _ I _ _ _ Ej').
  - apply (inv_lin _ I).
  - apply (inv_run _ I).
  - apply (inv_ks _ I).
Qed.

Lemma inv_release s i o b r :
  Inv s -> nth_error (thr s) i = Some (o, Resp b r) ->
  Inv (mk s (ks s) (b :: free s) (mem s) i (Fin r) (lin s)).
Proof.
  intros I E.
  constructor; unfold mk; cbn [early lenient twice splice free thr lin ks mem].
  - apply (inv_early _ I).
  - apply (inv_lenient _ I).
  - apply (inv_twice _ I).
  - constructor; [|apply (inv_nodup _ I)]. eapply (inv_notfree _ I); eauto; reflexivity.
  - intros j o' q b' Ej Hq X.
    destruct (set_thr_inv _ _ _ _ _ _ _ _ E Ej) as [(-> & -> & ->)|(N & Ej')]; [discriminate|].
    destruct X as [<-|X].
    + eapply (inv_distinct _ I j i); eauto; reflexivity.
    + eapply (inv_notfree _ I); eauto.
  - intros j1 j2 o1 q1 o2 q2 b' N E1 E2 H1 H2.
    destruct (set_thr_inv _ _ _ _ _ _ _ _ E E1) as [(-> & -> & ->)|(N1 & E1')]; [discriminate|].
    destruct (set_thr_inv _ _ _ _ _ _ _ _ E E2) as [(-> & -> & ->)|(N2 & E2')]; [discriminate|].
    eapply (inv_distinct _ I j1 j2); eauto.
  - rewrite set_thr_fst. apply (inv_reqs _ I).
  - intros j o' q Ej. destruct (set_thr_inv _ _ _ _ _ _ _ _ E Ej) as [(-> & -> & ->)|(N & Ej')].
    + apply (inv_pc _ I _ _ _ E).
    + apply (inv_pc _ I _ _ _ Ej').
  - apply (inv_lin _ I).
  - apply (inv_run _ I).
  - apply (inv_ks _ I).
Qed.

Lemma inv_scribble s b x :
  Inv s -> In b (free s) ->
  Inv {| ks := ks s; free := free s; mem := upd_mem (mem s) b x; thr := thr s; lin := lin s; early := early s;
         lenient := lenient s; twice := twice s; splice := splice s |}.
Proof.
  intros I Hin.
  constructor; cbn [early lenient twice splice free thr lin ks mem].
  - apply (inv_early _ I).
  - apply (inv_lenient _ I).
  - apply (inv_twice _ I).
  - apply (inv_nodup _ I).
  - apply (inv_notfree _ I).
  - apply (inv_distinct _ I).
  - apply (inv_reqs _ I).
  - intros j o' q Ej. eapply pc_ok_mono; [| |apply (inv_pc _ I _ _ _ Ej)].
    + intros b' Hq. unfold upd_mem. destruct (Nat.eqb_spec b' b) as [->|N]; [|reflexivity].
      exfalso. eapply (inv_notfree _ I); eauto.
    + auto.
  - apply (inv_lin _ I).
  - apply (inv_run _ I).
  - apply (inv_ks _ I).
Qed.

Lemma upd_mem_other m b x b' : b' <> b -> upd_mem m b x b' = m b'.
Proof. intros N. unfold upd_mem. destruct (Nat.eqb_spec b' b); [contradiction|reflexivity]. Qed.
Lemma upd_mem_same m b x : upd_mem m b x b = x.
Proof. unfold upd_mem. rewrite Nat.eqb_refl. reflexivity. Qed.

Lemma step_inv s a s' : Inv s -> step H s a = Some s' -> Inv s'.
Proof.
  intros I St. destruct a as [i b0|b x]; unfold step in St.
  2:{ destruct (in_pool s b) eqn:Ep; [|discriminate]. inversion St; subst.
      apply inv_scribble; [exact I|apply in_pool_in; exact Ep]. }
  destruct (nth_error (thr s) i) as [[o p]|] eqn:En; [|discriminate].
  pose proof (inv_pc _ I _ _ _ En) as Hpc.
  pose proof (inv_early _ I) as Hea.
  pose proof (inv_lenient _ I) as Hle.
  pose proof (inv_twice _ I) as Htw.
  destruct p as [|b|b c|b c|b e|b|b|b r|r].
  - (* W *)
    destruct o as [h|h|h d|h d n|h d]; (destruct (in_pool s b0) eqn:Ep; [|discriminate]); inversion St; subst;
      (eapply inv_acquire; [exact I|exact En|apply in_pool_in; exact Ep|auto]).
  - (* GHave *)
    assert (G : forall h, (o = Get h \/ o = Head h) ->
       match get_block H (vols (ks s)) h 404 with
       | GOk c => if early s
                  then Some (mk s (ks s) (b :: free s) (upd_mem (mem s) b c) i (GLoose b c) ((i, o, handle_get H (ks s) h) :: lin s))
                  else Some (mk s (ks s) (free s) (upd_mem (mem s) b c) i (GFilled b c) ((i, o, handle_get H (ks s) h) :: lin s))
       | GErr e => Some (mk s (ks s) (free s) (mem s) i (GFailed b e) ((i, o, handle_get H (ks s) h) :: lin s))
       end = Some s' -> Inv s').
    { intros h Ho St'.
      assert (Hh : handle H (ks s) o = (handle_get H (ks s) h, ks s)) by (destruct Ho as [->| ->]; reflexivity).
      unfold handle_get in *.
      destruct (get_block H (vols (ks s)) h 404) as [c|e] eqn:Eg.
      - rewrite Hea in St'. inversion St'; subst.
        eapply inv_same; [exact I|exact En|reflexivity|reflexivity| | |].
        + intros b' N. apply upd_mem_other; exact N.
        + right. eexists. split; [reflexivity|exact Hh].
        + cbn [pc_ok]. split; [apply upd_mem_same|left; reflexivity].
      - inversion St'; subst.
        eapply inv_same; [exact I|exact En|reflexivity|reflexivity| | |].
        + reflexivity.
        + right. eexists. split; [reflexivity|exact Hh].
        + cbn [pc_ok]. left; reflexivity. }
    destruct o as [h|h|h d|h d n|h d]; [apply (G h); auto|apply (G h); auto|discriminate|discriminate|discriminate].
  - (* GFilled *)
    assert (St' : Some (mk s (ks s) (free s) (mem s) i (Resp b (get_resp c (mem s b))) (lin s)) = Some s')
      by (destruct o; exact St).
    inversion St'; subst. cbn [pc_ok] in Hpc. destruct Hpc as [A B].
    eapply inv_same; [exact I|exact En|reflexivity|reflexivity|reflexivity|left; auto|].
    cbn [pc_ok]. rewrite A. exact B.
  - (* GLoose *) destruct Hpc.
  - (* GFailed *)
    assert (St' : Some (mk s (ks s) (free s) (mem s) i (Resp b (err_resp e)) (lin s)) = Some s')
      by (destruct o; exact St).
    inversion St'; subst. cbn [pc_ok] in Hpc.
    eapply inv_same; [exact I|exact En|reflexivity|reflexivity|reflexivity|left; auto|].
    exact Hpc.
  - (* PHave *)
    destruct o as [h|h|h d|h d n|h d]; try discriminate.
    3:{ inversion St; subst.
        eapply inv_same; [exact I|exact En|reflexivity|reflexivity| | |].
        * intros b' N. apply upd_mem_other; exact N.
        * right. eexists. split; [reflexivity|]. reflexivity.
        * cbn [pc_ok]. left; reflexivity. }
    + inversion St; subst.
      eapply inv_same; [exact I|exact En|reflexivity|reflexivity| |left; auto|].
      * intros b' N. apply upd_mem_other; exact N.
      * cbn [pc_ok]. intros h' d' X. inversion X; subst. apply upd_mem_same.
    + (* the body does not arrive: the sequential handler's answer, buffer kept until the release step *)
      rewrite Hle, Htw in St. inversion St; subst.
      eapply inv_same; [exact I|exact En|reflexivity|reflexivity| | |].
      * intros b' N. apply upd_mem_other; exact N.
      * right. eexists. split; [reflexivity|]. reflexivity.
      * cbn [pc_ok]. left; reflexivity.
  - (* PRead *)
    destruct o as [h|h|h d|h d n|h d]; try discriminate.
    2:{ rewrite Hle in St. discriminate. }
    cbn [pc_ok] in Hpc. rewrite (Hpc h d eq_refl) in St.
    destruct (handle_put H (ks s) h d) as [r k'] eqn:Ehp. inversion St; subst.
    eapply inv_same; [exact I|exact En|reflexivity|reflexivity|reflexivity| |].
    + right. eexists. split; [reflexivity|]. cbn [handle fst]. exact Ehp.
    + cbn [pc_ok fst]. left; reflexivity.
  - (* Resp *)
    assert (St' : Some (mk s (ks s) (b :: free s) (mem s) i (Fin r) (lin s)) = Some s')
      by (destruct o; exact St).
    inversion St'; subst. eapply inv_release; eauto.
  - (* Fin *) destruct o; discriminate.
Qed.

Lemma steps_inv : forall ls s s', Inv s -> steps H s ls = Some s' -> Inv s'.
Proof.
  induction ls as [|a ls IH]; intros s s' I St; cbn [steps] in St.
  - inversion St; subst; exact I.
  - destruct (step H s a) as [s1|] eqn:E; [|discriminate].
    eapply IH; [|exact St]. eapply step_inv; eauto.
Qed.

End INV.

Lemma init_inv_gen H k bufs m reqs sp : NoDup bufs -> Inv H k reqs (init_pool_gen k bufs m reqs false false false sp).
Proof.
  intros Hn.
  assert (W_only : forall i o p, nth_error (map (fun o => (o, W)) reqs) i = Some (o, p) -> p = W).
  { intros i o p E. apply nth_error_In in E. apply in_map_iff in E. destruct E as (x & X & _).
    inversion X; reflexivity. }
  constructor; unfold init_pool_gen; cbn [early lenient twice splice free thr lin ks mem].
  - reflexivity.
  - reflexivity.
  - reflexivity.
  - exact Hn.
  - intros i o p b E Hh. apply W_only in E. subst. discriminate.
  - intros i j o p o' p' b _ E _ Hh _. apply W_only in E. subst. discriminate.
  - rewrite map_map. cbn [fst]. apply map_id.
  - intros i o p E. apply W_only in E. subst. exact I.
  - intros i o r [].
  - reflexivity.
  - reflexivity.
Qed.

Lemma init_inv H k bufs m reqs : NoDup bufs -> Inv H k reqs (init_pool k bufs m reqs false).
Proof. apply init_inv_gen. Qed.

Lemma reach_inv_gen H k bufs m reqs sp ls s :
  NoDup bufs -> steps H (init_pool_gen k bufs m reqs false false false sp) ls = Some s -> Inv H k reqs s.
Proof. intros Hn St. eapply steps_inv; [apply init_inv_gen; exact Hn|exact St]. Qed.

Lemma reach_inv H k bufs m reqs ls s :
  NoDup bufs -> steps H (init_pool k bufs m reqs false) ls = Some s -> Inv H k reqs s.
Proof. apply reach_inv_gen. Qed.

(* Main theorem.  From any initial state (any volumes, any set of distinct buffers holding anything, any
   list of requests, all waiting), after ANY sequence of scheduler and environment steps:
   (a) the volume steps, in the order in which they happened, are a run of the sequential model
       (model/C01_model.v [run]) and the volume state is the state after that run;
   (b) every finished request got exactly the answer the sequential handler gave at its volume step,
       and the logged request is the request of that thread. *)
Theorem pool_linearizable : forall (H : content -> string) k bufs m reqs ls s,
  NoDup bufs ->
  steps H (init_pool k bufs m reqs false) ls = Some s ->
  map fst (run H k (lin_ops s)) = lin_resps s /\
  ks s = run_state H k (lin_ops s) /\
  (forall i o r, nth_error (thr s) i = Some (o, Fin r) -> In (i, o, r) (lin s)) /\
  (forall i o r, In (i, o, r) (lin s) -> nth_error reqs i = Some o).
Proof.
  intros H k bufs m reqs ls s Hn St. pose proof (reach_inv _ _ _ _ _ _ _ Hn St) as I.
  split; [exact (inv_run _ _ _ _ I)|].
  split; [exact (inv_ks _ _ _ _ I)|].
  split.
  - intros i o r E. exact (inv_pc _ _ _ _ I _ _ _ E).
  - intros i o r X. apply (inv_lin _ _ _ _ I _ _ _ X).
Qed.

(* Corollary: under any overlap, a GET/HEAD succeeds only with a body whose digest is the requested
   name and whose length is the reported one. *)
Theorem pool_get_sound : forall (H : content -> string) k bufs m reqs ls s i h r,
  NoDup bufs ->
  steps H (init_pool k bufs m reqs false) ls = Some s ->
  (nth_error (thr s) i = Some (Get h, Fin r) \/ nth_error (thr s) i = Some (Head h, Fin r)) ->
  code r = 200 ->
  exists c, body r = Some c /\ H c = h /\ clength r = Some (clen c) /\ clen c <= BlockSize.
Proof.
  intros H k bufs m reqs ls s i h r Hn St E Hc. pose proof (reach_inv _ _ _ _ _ _ _ Hn St) as I.
  assert (X : exists k', r = handle_get H k' h).
  { destruct E as [E|E]; pose proof (inv_pc _ _ _ _ I _ _ _ E) as P; cbn [pc_ok] in P;
      destruct (inv_lin _ _ _ _ I _ _ _ P) as (_ & k' & ->); exists k'; reflexivity. }
  destruct X as (k' & ->). unfold handle_get in *.
  destruct (get_block H (vols k') h 404) as [c|e] eqn:Eg.
  - destruct (get_sound _ _ _ _ _ Eg) as (v & _ & _ & A & B).
    exists c. cbn. auto.
  - cbn [code] in Hc. subst e. apply get_block_err in Eg. destruct Eg; discriminate.
Qed.

(* Corollary: an acknowledged PUT was judged on the body the client sent: the digest of THAT body is the
   name. *)
Theorem pool_put_sound : forall (H : content -> string) k bufs m reqs ls s i h d r,
  NoDup bufs ->
  steps H (init_pool k bufs m reqs false) ls = Some s ->
  nth_error (thr s) i = Some (Put h d, Fin r) ->
  code r = 200 -> H d = h /\ clen d <= BlockSize.
Proof.
  intros H k bufs m reqs ls s i h d r Hn St E Hc. pose proof (reach_inv _ _ _ _ _ _ _ Hn St) as I.
  pose proof (inv_pc _ _ _ _ I _ _ _ E) as P. cbn [pc_ok] in P.
  destruct (inv_lin _ _ _ _ I _ _ _ P) as (_ & k' & ->). cbn [handle] in Hc.
  destruct (handle_put H k' h d) as [r k1] eqn:Ehp. cbn [fst] in Hc.
  destruct (handle_put_ok _ _ _ _ _ _ Ehp Hc) as (A & B & _). auto.
Qed.

(* Regression witness about the VARIANT only (early = true: handleGET gives its buffer back before the
   body is written): a GET answers 200 with the bytes of another block. *)
Definition ex_pool_H (c : content) : string := if (cid c =? 1) then "aaa1"%string else "bbb2"%string.
Definition ex_pool_vols : list vol :=
  [ {| ro := false; full := false; badpfx := [];
       files := [("aaa1"%string, File {| cid := 1; clen := 4 |}); ("bbb2"%string, File {| cid := 2; clen := 4 |})] |} ].
Definition ex_pool_sched : list lbl := [Run 0 0; Run 0 0; Run 1 0; Run 1 0; Run 0 0].

Theorem pool_early_release_refuted :
  exists s r c,
    steps ex_pool_H (init_pool {| vols := ex_pool_vols; counter := 0 |} [0%nat; 1%nat] (fun _ => {| cid := 9; clen := 0 |})
                               [Get "aaa1"%string; Get "bbb2"%string] true) ex_pool_sched = Some s /\
    nth_error (thr s) 0 = Some (Get "aaa1"%string, Fin r) /\ code r = 200 /\ body r = Some c /\ ex_pool_H c <> "aaa1"%string.
Proof.
  eexists. eexists. eexists.
  split; [vm_compute; reflexivity|].
  split; [vm_compute; reflexivity|].
  split; [vm_compute; reflexivity|].
  split; [vm_compute; reflexivity|].
  vm_compute. discriminate.
Qed.


(* ------------------------------------------------------------------ *)
(* uploads that do not arrive completely; the pool hands a buffer to one request at a time *)

(* the main theorem for every representation [sp] of what a short read leaves in the buffer *)
Theorem pool_linearizable_any_splice : forall (H : content -> string) k bufs m reqs sp ls s,
  NoDup bufs ->
  steps H (init_pool_gen k bufs m reqs false false false sp) ls = Some s ->
  map fst (run H k (lin_ops s)) = lin_resps s /\
  ks s = run_state H k (lin_ops s) /\
  (forall i o r, nth_error (thr s) i = Some (o, Fin r) -> In (i, o, r) (lin s)) /\
  (forall i o r, In (i, o, r) (lin s) -> nth_error reqs i = Some o).
Proof.
  intros H k bufs m reqs sp ls s Hn St. pose proof (reach_inv_gen _ _ _ _ _ _ _ _ Hn St) as I.
  split; [exact (inv_run _ _ _ _ I)|].
  split; [exact (inv_ks _ _ _ _ I)|].
  split.
  - intros i o r E. exact (inv_pc _ _ _ _ I _ _ _ E).
  - intros i o r X. apply (inv_lin _ _ _ _ I _ _ _ X).
Qed.

(* "a buffer is handed to at most one request at a time": in every reachable state the pool holds no
   buffer twice, a buffer held by a request is not in the pool, and two requests never hold the same
   buffer -- whatever requests are in flight, failed uploads included *)
Theorem pool_buffer_exclusive : forall (H : content -> string) k bufs m reqs sp ls s,
  NoDup bufs ->
  steps H (init_pool_gen k bufs m reqs false false false sp) ls = Some s ->
  NoDup (free s) /\
  (forall i o p b, nth_error (thr s) i = Some (o, p) -> holds p = Some b -> ~ In b (free s)) /\
  (forall i j o p o' p' b, i <> j -> nth_error (thr s) i = Some (o, p) -> nth_error (thr s) j = Some (o', p') ->
                           holds p = Some b -> holds p' = Some b -> False).
Proof.
  intros H k bufs m reqs sp ls s Hn St. pose proof (reach_inv_gen _ _ _ _ _ _ _ _ Hn St) as I.
  split; [exact (inv_nodup _ _ _ _ I)|]. split; [exact (inv_notfree _ _ _ _ I)|exact (inv_distinct _ _ _ _ I)].
Qed.

(* a PUT whose body does not arrive completely is never acknowledged, whatever the buffer held before
   and whatever else is in flight: its answer is 413, 503 or 500 *)
Theorem pool_short_put_never_acked : forall (H : content -> string) k bufs m reqs sp ls s i h d n r,
  NoDup bufs ->
  steps H (init_pool_gen k bufs m reqs false false false sp) ls = Some s ->
  nth_error (thr s) i = Some (PutShort h d n, Fin r) ->
  code r = 413 \/ code r = 503 \/ code r = 500.
Proof.
  intros H k bufs m reqs sp ls s i h d n r Hn St E. pose proof (reach_inv_gen _ _ _ _ _ _ _ _ Hn St) as I.
  pose proof (inv_pc _ _ _ _ I _ _ _ E) as P. cbn [pc_ok] in P.
  destruct (inv_lin _ _ _ _ I _ _ _ P) as (_ & k' & ->). cbn [handle fst]. unfold handle_put_short.
  destruct (BlockSize <? n); [left; reflexivity|]. destruct (writable (vols k')); [right; left|right; right]; reflexivity.
Qed.

(* Regression witness about the VARIANT lenient only (handlePUT goes on to PutBlock after a short read):
   after a complete PUT of "aaa1" the next request gets the same buffer; its body stops early (the bytes
   that arrived hash to something else) and the stale tail completes the block: acknowledged. *)
Definition ex_short_sched : list lbl := [Run 0 0; Run 0 0; Run 0 0; Run 0 0; Run 1 0; Run 1 0; Run 1 0; Run 1 0].
Theorem pool_lenient_short_read_refuted :
  exists s r,
    steps ex_pool_H (init_pool_gen {| vols := ex_pool_vols; counter := 0 |} [0%nat] (fun _ => {| cid := 9; clen := 0 |})
                       [Put "aaa1"%string {| cid := 1; clen := 4 |}; PutShort "aaa1"%string {| cid := 7; clen := 2 |} 4]
                       false true false (fun _ old _ => old)) ex_short_sched = Some s /\
    nth_error (thr s) 1 = Some (PutShort "aaa1"%string {| cid := 7; clen := 2 |} 4, Fin r) /\ code r = 200 /\
    ex_pool_H {| cid := 7; clen := 2 |} <> "aaa1"%string.
Proof.
  eexists. eexists.
  split; [vm_compute; reflexivity|].
  split; [vm_compute; reflexivity|].
  split; [vm_compute; reflexivity|].
  vm_compute. discriminate.
Qed.

(* Regression witness about the VARIANT twice only (the failed-read branch gives the buffer back and the
   handler gives it back again on return): after one failed upload the pool hands buffer 0 to two requests
   at the same time, and a GET of "aaa1" answers 200 with the bytes another request uploaded meanwhile. *)
Definition ex_twice_sched : list lbl :=
  [Run 0 0; Run 0 0; Run 0 0;            (* the failed upload: takes 0, read error, returns *)
   Run 1 0; Run 1 0;                     (* GET aaa1 takes 0, GetBlock fills it *)
   Run 2 0; Run 2 0;                     (* PUT bbb2 takes 0 too, reads its body into it *)
   Run 1 0; Run 1 0].                    (* GET writes what the buffer holds now *)
Theorem pool_double_release_refuted :
  exists s r c p2,
    steps ex_pool_H (init_pool_gen {| vols := ex_pool_vols; counter := 0 |} [0%nat; 1%nat] (fun _ => {| cid := 9; clen := 0 |})
                       [PutShort "aaa1"%string {| cid := 7; clen := 2 |} 4; Get "aaa1"%string; Put "bbb2"%string {| cid := 2; clen := 4 |}]
                       false false true (fun d _ _ => d)) ex_twice_sched = Some s /\
    nth_error (thr s) 1 = Some (Get "aaa1"%string, Fin r) /\ code r = 200 /\ body r = Some c /\ ex_pool_H c <> "aaa1"%string /\
    nth_error (thr s) 2 = Some (Put "bbb2"%string {| cid := 2; clen := 4 |}, p2) /\ holds p2 = Some 0%nat /\ In 0%nat (free s).
Proof.
  eexists. eexists. eexists. eexists.
  split; [vm_compute; reflexivity|].
  split; [vm_compute; reflexivity|].
  split; [vm_compute; reflexivity|].
  split; [vm_compute; reflexivity|].
  split; [vm_compute; discriminate|].
  split; [vm_compute; reflexivity|].
  split; [vm_compute; reflexivity|].
  vm_compute. tauto.
Qed.
