(* C05 — replication safety of the model, counted per mount (no device is assumed shared here):
   (1) `underreplicated` is set whenever the replicas on mounts of a desired class fall short;
   (2) if the members of class c sit on pairwise different servers and devices, the replicas of c
       that end up wanted carry at least min(desired, existing) replication.
   proofs/C05_phys.v transfers both to the physical-device reading. *)
From Coq Require Import List Arith Bool Lia Permutation.
From AV Require Import model.C05_model model.C05_old_model proofs.C05_proofs.
Import ListNotations.

(* ---------- sums over slots that depend on mount and replica only ---------- *)
Definition cmember (dflt c : nat) (p : mnt * option nat) : bool := inclass dflt c (fst p).
(* replication of the class-c replicas *)
Definition cval (dflt c : nat) (p : mnt * option nat) : nat :=
  match snd p with Some _ => if inclass dflt c (fst p) then mrepl (fst p) else 0 | None => 0 end.
Definition ssum (dflt c : nat) (l : list slot) : nat := list_sum (map (cval dflt c) (map core l)).
(* ... restricted to replicas whose mtime is in U *)
Definition fval (dflt c : nat) (U : list nat) (p : mnt * option nat) : nat :=
  match snd p with Some t => if inclass dflt c (fst p) && mem t U then mrepl (fst p) else 0 | None => 0 end.
Definition fsum (dflt c : nat) (U : list nat) (l : list slot) : nat := list_sum (map (fval dflt c U) (map core l)).

Lemma list_sum_perm l l' : Permutation l l' -> list_sum l = list_sum l'.
Proof. induction 1; simpl; lia. Qed.
Lemma ssum_perm dflt c l l' : Permutation (map core l) (map core l') -> ssum dflt c l = ssum dflt c l'.
Proof. intros H. unfold ssum. apply list_sum_perm. apply Permutation_map. exact H. Qed.
Lemma fsum_perm dflt c U l l' : Permutation (map core l) (map core l') -> fsum dflt c U l = fsum dflt c U l'.
Proof. intros H. unfold fsum. apply list_sum_perm. apply Permutation_map. exact H. Qed.
Lemma ssum_cons dflt c s l : ssum dflt c (s :: l) = cval dflt c (core s) + ssum dflt c l.
Proof. reflexivity. Qed.
Lemma fsum_cons dflt c U s l : fsum dflt c U (s :: l) = fval dflt c U (core s) + fsum dflt c U l.
Proof. reflexivity. Qed.
Lemma fsum_app dflt c U l1 l2 : fsum dflt c U (l1 ++ l2) = fsum dflt c U l1 + fsum dflt c U l2.
Proof. unfold fsum. rewrite !map_app, list_sum_app. reflexivity. Qed.
Lemma ssum_app dflt c l1 l2 : ssum dflt c (l1 ++ l2) = ssum dflt c l1 + ssum dflt c l2.
Proof. unfold ssum. rewrite !map_app, list_sum_app. reflexivity. Qed.

Lemma fval_mono dflt c U U' p : incl U U' -> fval dflt c U p <= fval dflt c U' p.
Proof.
  intros H. unfold fval. destruct (snd p) as [t|]; [|lia].
  destruct (inclass dflt c (fst p)); simpl; [|lia].
  destruct (mem t U) eqn:E; [|lia]. apply mem_In in E. apply H in E. apply mem_In in E. rewrite E. lia.
Qed.
Lemma fsum_mono dflt c U U' l : incl U U' -> fsum dflt c U l <= fsum dflt c U' l.
Proof.
  intros H. unfold fsum. induction (map core l) as [|p r IH]; simpl; [lia|].
  pose proof (fval_mono dflt c U U' p H). lia.
Qed.
Lemma fval_le dflt c U p : fval dflt c U p <= cval dflt c p.
Proof.
  unfold fval, cval. destruct (snd p); [|lia]. destruct (inclass dflt c (fst p)); simpl; [|lia].
  destruct (mem n U); lia.
Qed.

(* ---------- (1) the `safe` loop ---------- *)
Lemma safe_count_spec dflt c d : forall l s0, s0 < d ->
  (safe_count_old dflt c d l s0 <? d) = (s0 + ssum dflt c l <? d).
Proof.
  induction l as [|s r IH]; intros s0 H0; simpl.
  - unfold ssum; simpl. rewrite Nat.add_0_r. reflexivity.
  - rewrite ssum_cons. unfold cval, core, has; simpl.
    destruct (srepl s) as [t|]; simpl.
    + destruct (inclass dflt c (smnt s)); simpl.
      * destruct (d <=? s0 + mrepl (smnt s)) eqn:E.
        -- apply Nat.leb_le in E. transitivity false; [apply Nat.ltb_ge; lia|symmetry; apply Nat.ltb_ge; lia].
        -- apply Nat.leb_gt in E. rewrite IH by lia. f_equal. lia.
      * rewrite IH by lia. reflexivity.
    + rewrite IH by lia. reflexivity.
Qed.

(* the flag after the whole loop over the classes *)
Theorem flag_set_when_short dflt rank devrank mounts replicas classes desired c :
  In c classes -> 0 < lookup desired c ->
  ssum dflt c (map (mkslot replicas) mounts) < lookup desired c ->
  under_flag_old dflt rank devrank mounts replicas classes desired = true.
Proof.
  intros Hc Hd Hs. unfold under_flag_old, run_classes_old.
  apply in_split in Hc. destruct Hc as (pre & post & ->). rewrite fold_left_app. simpl.
  pose proof (run_classes_evolves dflt rank devrank desired pre (map (mkslot replicas) mounts, [], false)) as Ev1.
  destruct (fold_left _ pre _) as [[sl1 u1] n1].
  assert (Hd' : lookup desired c <> 0) by lia.
  destruct (do_class_unfold dflt rank devrank c _ sl1 u1 n1 Hd') as (a1 & d1 & l1 & a2 & d2 & l2 & E1 & E2 & Eq).
  rewrite Eq.
  match goal with |- context [fold_left ?f post ?st] =>
    pose proof (run_classes_evolves dflt rank devrank desired post st) as Ev2; destruct (fold_left f post st) as [[sl3 u3] n3] eqn:E3 end.
  simpl. apply (ev_under _ _ Ev2). simpl.
  destruct n1; [reflexivity|].
  rewrite safe_count_spec by lia. simpl. apply Nat.ltb_lt.
  assert (ssum dflt c l2 = ssum dflt c (map (mkslot replicas) mounts)); [|lia].
  apply ssum_perm.
  pose proof (do_class_evolves dflt rank devrank c (lookup desired c) (sl1, u1, false)) as Ev. rewrite Eq in Ev.
  eapply perm_trans; [apply (evolves_core _ _ Ev)|apply (evolves_core _ _ Ev1)].
Qed.

Lemma add_incl_cons x l : incl (add x l) (x :: l).
Proof. intros y Hy. apply add_In in Hy. destruct Hy as [->|Hy]; [left; reflexivity|right; exact Hy]. Qed.

(* ---------- (2) protection of the class members ---------- *)
(* the slots of l do not clash with what the accumulator already holds *)
Definition okacc (a : acc) (l : list slot) : Prop :=
  forall s, In s l ->
    ~ In (msrv (smnt s)) (wantSrv a) /\ ~ In (mid (smnt s)) (wantMnt a) /\ ~ In (mid (smnt s)) (protMnt a) /\
    (dev (smnt s) <> 0 -> ~ In (dev (smnt s)) (wantDev a)).
(* pairwise different servers, mounts and (non-blank) devices *)
Fixpoint apart (l : list slot) : Prop :=
  match l with
  | [] => True
  | s :: r => (forall s', In s' r -> msrv (smnt s) <> msrv (smnt s') /\ mid (smnt s) <> mid (smnt s') /\
                                     (dev (smnt s) <> 0 -> dev (smnt s) <> dev (smnt s'))) /\ apart r
  end.

(* effect of trySlot on a slot that is not skipped *)
Lemma try_slot_effect d a s a' s' dn :
  ~ In (mid (smnt s)) (wantMnt a) -> ~ In (mid (smnt s)) (protMnt a) ->
  (dev (smnt s) <> 0 -> ~ In (dev (smnt s)) (wantDev a)) ->
  try_slot_old d a s = (a', s', dn) ->
  incl (wantSrv a') (msrv (smnt s) :: wantSrv a) /\
  incl (wantMnt a') (mid (smnt s) :: wantMnt a) /\
  incl (protMnt a') (mid (smnt s) :: protMnt a) /\
  incl (wantDev a') (dev (smnt s) :: wantDev a) /\
  (dev (smnt s) = 0 -> wantDev a' = wantDev a) /\
  (dn = true -> d <= replProt a') /\
  replProt a <= replProt a' /\
  match srepl s with
  | Some t => replProt a < d -> In t (unsafe a') /\ replProt a' = replProt a + mrepl (smnt s)
  | None => replProt a' = replProt a
  end.
Proof.
  intros Hm Hp Hdv. unfold try_slot_old.
  assert (E0 : mem (mid (smnt s)) (wantMnt a) || negb (dev (smnt s) =? 0) && mem (dev (smnt s)) (wantDev a) = false).
  { apply orb_false_iff. split; [apply mem_false; exact Hm|].
    destruct (dev (smnt s) =? 0) eqn:E; simpl; [reflexivity|]. apply Nat.eqb_neq in E. apply mem_false. auto. }
  rewrite E0.
  set (a1 := match srepl s with
             | Some mt => if (replProt a <? d) && negb (mem (mid (smnt s)) (protMnt a)) then _ else a
             | None => a end).
  assert (A1 : wantSrv a1 = wantSrv a /\ wantMnt a1 = wantMnt a /\ wantDev a1 = wantDev a /\ replWant a1 = replWant a /\
               incl (protMnt a1) (mid (smnt s) :: protMnt a) /\ replProt a <= replProt a1 /\
               match srepl s with
               | Some t => replProt a < d -> In t (unsafe a1) /\ replProt a1 = replProt a + mrepl (smnt s)
               | None => replProt a1 = replProt a
               end).
  { subst a1. destruct (srepl s) as [t|].
    - apply mem_false in Hp. rewrite Hp. simpl. rewrite andb_true_r.
      destruct (replProt a <? d) eqn:E; simpl.
      + split; [reflexivity|]. split; [reflexivity|]. split; [reflexivity|]. split; [reflexivity|].
        split; [apply add_incl_cons|]. split; [lia|].
        intros _. split; [apply add_In; auto|reflexivity].
      + apply Nat.ltb_ge in E.
        split; [reflexivity|]. split; [reflexivity|]. split; [reflexivity|]. split; [reflexivity|].
        split; [apply incl_tl, incl_refl|]. split; [lia|]. intros; lia.
    - split; [reflexivity|]. split; [reflexivity|]. split; [reflexivity|]. split; [reflexivity|].
      split; [apply incl_tl, incl_refl|]. split; [lia|reflexivity]. }
  clearbody a1. destruct A1 as (B1 & B2 & B3 & B4 & B5 & B6 & B7).
  match goal with |- (if ?c then _ else _) = _ -> _ => destruct c end; intros H; injection H as <- <- <-; simpl.
  - rewrite B1, B2, B3. split; [apply add_incl_cons|].
    split; [apply add_incl_cons|]. split; [exact B5|].
    split; [destruct (dev (smnt s) =? 0); [apply incl_tl, incl_refl|apply add_incl_cons]|].
    split; [intros ->; reflexivity|].
    split; [intros H; apply andb_true_iff in H; destruct H as [H _]; apply Nat.leb_le in H; exact H|].
    split; [exact B6|]. destruct (srepl s); auto.
  - rewrite B1, B2, B3. split; [apply incl_tl, incl_refl|]. split; [apply incl_tl, incl_refl|]. split; [exact B5|].
    split; [apply incl_tl, incl_refl|]. split; [reflexivity|].
    split; [intros H; apply andb_true_iff in H; destruct H as [H _]; apply Nat.leb_le in H; exact H|].
    split; [exact B6|]. destruct (srepl s); auto.
Qed.

Lemma pass_replProt dist d : forall l a dn a' dn' l',
  pass_old dist d a dn l = (a', dn', l') -> replProt a <= replProt a'.
Proof.
  induction l as [|s r IH]; intros a dn a' dn' l' H; simpl in H.
  - injection H as <- _ _. lia.
  - destruct dn; [injection H as <- _ _; lia|].
    destruct (dist && mem (msrv (smnt s)) (wantSrv a)).
    + destruct (pass_old dist d a false r) as [[a1 d1] r1] eqn:E. injection H as <- _ _. eapply IH; eauto.
    + destruct (try_slot_old d a s) as [[a1 s1] d1] eqn:Et.
      destruct (pass_old dist d a1 d1 r) as [[a2 d2] r2] eqn:E. injection H as <- _ _.
      assert (replProt a <= replProt a1).
      { clear - Et. unfold try_slot_old in Et.
        destruct (mem (mid (smnt s)) (wantMnt a) || negb (dev (smnt s) =? 0) && mem (dev (smnt s)) (wantDev a)).
        - injection Et as <- _ _. lia.
        - set (a0 := match srepl s with Some mt => if (replProt a <? d) && negb (mem (mid (smnt s)) (protMnt a)) then _ else a | None => a end) in Et.
          assert (replProt a <= replProt a0).
          { subst a0. destruct (srepl s); [|lia]. destruct ((replProt a <? d) && negb (mem (mid (smnt s)) (protMnt a))); simpl; lia. }
          match type of Et with (if ?c then _ else _) = _ => destruct c end; injection Et as <- _ _; simpl; lia. }
      apply IH in E. lia.
Qed.

(* the distinct-servers pass over class members that sit on pairwise different servers/devices:
   every member replica met while replProt < desired gets protected *)
Lemma members_pass dflt c d : forall l a a' dn' l',
  Forall (fun s => inclass dflt c (smnt s) = true) l -> apart l -> okacc a l ->
  pass_old true d a false l = (a', dn', l') ->
  Nat.min d (replProt a + ssum dflt c l) <= replProt a + fsum dflt c (unsafe a') l.
Proof.
  induction l as [|s r IH]; intros a a' dn' l' Hmem Hap Hok H.
  - unfold ssum, fsum; simpl. lia.
  - simpl in H. inversion Hmem as [|? ? Hs Hmem']; subst.
    destruct Hap as [Hs_ap Hap'].
    destruct (Hok s (or_introl eq_refl)) as (O1 & O2 & O3 & O4).
    apply mem_false in O1. rewrite O1 in H. simpl in H.
    destruct (try_slot_old d a s) as [[a1 s1] d1] eqn:Et.
    destruct (pass_old true d a1 d1 r) as [[a2 d2] r2] eqn:E. injection H as <- _ _.
    destruct (try_slot_effect _ _ _ _ _ _ O2 O3 O4 Et) as (I1 & I2 & I3 & I4 & I5 & Idn & Imono & Irepl).
    destruct (Nat.lt_ge_cases (replProt a) d) as [Hlt|Hge]; [|lia].
    rewrite ssum_cons, fsum_cons. unfold cval, fval, core; simpl. rewrite Hs. simpl.
    pose proof (pass_unsafe _ _ _ _ _ _ _ _ E) as U12.
    pose proof (pass_replProt _ _ _ _ _ _ _ _ E) as R12.
    destruct d1.
    + (* done right here: replProt a1 >= d *)
      specialize (Idn eq_refl). simpl in E. destruct r; injection E as <- _ _.
      * destruct (srepl s) as [t|]; [|lia]. destruct (Irepl Hlt) as [Ht Hr].
        apply mem_In in Ht. rewrite Ht. lia.
      * destruct (srepl s) as [t|]; [|lia]. destruct (Irepl Hlt) as [Ht Hr].
        apply mem_In in Ht. rewrite Ht. lia.
    + assert (Hok1 : okacc a1 r).
      { intros s' Hs'. destruct (Hok s' (or_intror Hs')) as (P1 & P2 & P3 & P4).
        destruct (Hs_ap s' Hs') as (Q1 & Q2 & Q3).
        split; [intros X; apply I1 in X; destruct X as [X|X]; [congruence|contradiction]|].
        split; [intros X; apply I2 in X; destruct X as [X|X]; [congruence|contradiction]|].
        split; [intros X; apply I3 in X; destruct X as [X|X]; [congruence|contradiction]|].
        intros Hd X. destruct (Nat.eq_dec (dev (smnt s)) 0) as [Z|NZ].
        - rewrite (I5 Z) in X. exact (P4 Hd X).
        - apply I4 in X. destruct X as [X|X]; [exact (Q3 NZ X)|exact (P4 Hd X)]. }
      specialize (IH a1 a2 d2 r2 Hmem' Hap' Hok1 E).
      destruct (srepl s) as [t|].
      * destruct (Irepl Hlt) as [Ht Hr].
        assert (Ht2 : mem t (unsafe a2) = true) by (apply mem_In; apply U12; exact Ht). rewrite Ht2. lia.
      * rewrite Irepl in IH. lia.
Qed.

(* pass over a concatenation *)
Lemma pass_app dist d : forall l1 l2 a dn,
  pass_old dist d a dn (l1 ++ l2) =
  let '(a1, d1, l1') := pass_old dist d a dn l1 in
  let '(a2, d2, l2') := pass_old dist d a1 d1 l2 in (a2, d2, l1' ++ l2').
Proof.
  induction l1 as [|s r IH]; intros l2 a dn; simpl.
  - destruct (pass_old dist d a dn l2) as [[a2 d2] l2']. reflexivity.
  - destruct dn.
    + (* done: nothing changes any more *)
      assert (X : forall l, pass_old dist d a true l = (a, true, l)) by (intros [|? ?]; reflexivity).
      rewrite X. reflexivity.
    + destruct (dist && mem (msrv (smnt s)) (wantSrv a)).
      * rewrite IH. destruct (pass_old dist d a false r) as [[a1 d1] r1].
        destruct (pass_old dist d a1 d1 l2) as [[a2 d2] l2']. reflexivity.
      * destruct (try_slot_old d a s) as [[a0 s0] d0]. rewrite IH.
        destruct (pass_old dist d a0 d0 r) as [[a1 d1] r1].
        destruct (pass_old dist d a1 d1 l2) as [[a2 d2] l2']. reflexivity.
Qed.

(* ---------- the sort puts the members of the class first ---------- *)
Fixpoint mfirst (dflt c : nat) (l : list slot) : Prop :=
  match l with
  | [] => True
  | y :: r => (inclass dflt c (smnt y) = false -> Forall (fun s => inclass dflt c (smnt s) = false) r) /\ mfirst dflt c r
  end.

Lemma less_class dflt rank devrank c a b :
  less dflt rank devrank c a b = true -> inclass dflt c (smnt a) = false -> inclass dflt c (smnt b) = false.
Proof.
  unfold less. intros H Ha. rewrite Ha in H.
  destruct (inclass dflt c (smnt b)); simpl in H; [discriminate|reflexivity].
Qed.
Lemma tie_class dflt rank devrank c a b :
  less dflt rank devrank c a b = false -> less dflt rank devrank c b a = false ->
  inclass dflt c (smnt a) = inclass dflt c (smnt b).
Proof.
  unfold less. destruct (inclass dflt c (smnt a)), (inclass dflt c (smnt b)); simpl; auto; intros; discriminate.
Qed.

Lemma insert_Forall dflt rank devrank c (P : slot -> Prop) x l :
  P x -> Forall P l -> Forall P (insert dflt rank devrank c x l).
Proof.
  intros Hx Hl. rewrite Forall_forall in *. intros y Hy.
  eapply Permutation_in in Hy; [|apply insert_perm]. destruct Hy as [<-|Hy]; auto.
Qed.

Lemma insert_mfirst dflt rank devrank c x : forall l,
  mfirst dflt c l -> mfirst dflt c (insert dflt rank devrank c x l).
Proof.
  induction l as [|y r IH]; intros H; simpl.
  - split; [intros; constructor|exact I].
  - destruct H as [Hy Hr].
    destruct (less dflt rank devrank c y x) eqn:E1.
    + split; [|apply IH; exact Hr].
      intros Ey. apply insert_Forall; [eapply less_class; eauto|auto].
    + destruct (less dflt rank devrank c x y) eqn:E2.
      * split; [|split; assumption].
        intros Ex. assert (Ey : inclass dflt c (smnt y) = false) by (eapply less_class; eauto).
        constructor; auto.
      * split; [|apply IH; exact Hr].
        intros Ey. apply insert_Forall; [|auto].
        rewrite (tie_class _ _ _ _ _ _ E2 E1). exact Ey.
Qed.
Lemma isort_mfirst dflt rank devrank c l : mfirst dflt c (isort dflt rank devrank c l).
Proof. induction l as [|x r IH]; simpl; [exact I|]. apply insert_mfirst; exact IH. Qed.

Lemma mfirst_split dflt c : forall l, mfirst dflt c l ->
  l = filter (fun s => inclass dflt c (smnt s)) l ++ filter (fun s => negb (inclass dflt c (smnt s))) l.
Proof.
  induction l as [|y r IH]; intros H; simpl; [reflexivity|].
  destruct H as [Hy Hr]. destruct (inclass dflt c (smnt y)) eqn:E; simpl.
  - f_equal. apply IH; exact Hr.
  - specialize (Hy eq_refl).
    assert (F1 : filter (fun s => inclass dflt c (smnt s)) r = []).
    { clear - Hy. induction r as [|z r IH]; simpl; [reflexivity|]. inversion Hy; subst. rewrite H1. auto. }
    assert (F2 : filter (fun s => negb (inclass dflt c (smnt s))) r = r).
    { clear - Hy. induction r as [|z r IH]; simpl; [reflexivity|]. inversion Hy; subst. rewrite H1. simpl. f_equal; auto. }
    rewrite F1, F2. reflexivity.
Qed.

Lemma fsum_nonmembers dflt c U l : Forall (fun s => inclass dflt c (smnt s) = false) l -> fsum dflt c U l = 0.
Proof.
  induction 1 as [|s r Hs Hr IH]; [reflexivity|]. rewrite fsum_cons, IH. unfold fval, core; simpl. rewrite Hs.
  destruct (srepl s); reflexivity.
Qed.
Lemma ssum_nonmembers dflt c l : Forall (fun s => inclass dflt c (smnt s) = false) l -> ssum dflt c l = 0.
Proof.
  induction 1 as [|s r Hs Hr IH]; [reflexivity|]. rewrite ssum_cons, IH. unfold cval, core; simpl. rewrite Hs.
  destruct (srepl s); reflexivity.
Qed.

(* servers/mounts/devices of the members of c are pairwise different *)
Definition members_apart (dflt c : nat) (l : list slot) : Prop :=
  forall l', Permutation l' l -> apart (filter (fun s => inclass dflt c (smnt s)) l').

(* one class: what is unsafe afterwards covers min(desired, existing) of the class's replicas *)
Lemma do_class_protects dflt rank devrank c d sl uns under sl' uns' under' :
  d <> 0 -> members_apart dflt c sl ->
  do_class_old dflt rank devrank c d (sl, uns, under) = (sl', uns', under') ->
  Nat.min d (ssum dflt c sl) <= fsum dflt c uns' sl.
Proof.
  intros Hd Hap H.
  destruct (do_class_unfold dflt rank devrank c d sl uns under Hd) as (a1 & d1 & l1 & a2 & d2 & l2 & E1 & E2 & Eq).
  rewrite Eq in H. injection H as <- <- <-.
  set (srt := isort dflt rank devrank c sl) in *.
  pose proof (isort_mfirst dflt rank devrank c sl) as MF. fold srt in MF.
  pose proof (mfirst_split dflt c srt MF) as Sp.
  set (pre := filter (fun s => inclass dflt c (smnt s)) srt) in *.
  set (post := filter (fun s => negb (inclass dflt c (smnt s))) srt) in *.
  rewrite Sp, pass_app in E1.
  destruct (pass_old true d (acc0 uns) false pre) as [[ap dp] pre'] eqn:Ep.
  destruct (pass_old true d ap dp post) as [[aq dq] post'] eqn:Eq'. injection E1 as <- <- <-.
  assert (Hpre : Forall (fun s => inclass dflt c (smnt s) = true) pre).
  { rewrite Forall_forall. intros s Hs. apply filter_In in Hs. tauto. }
  assert (Hpost : Forall (fun s => inclass dflt c (smnt s) = false) post).
  { rewrite Forall_forall. intros s Hs. apply filter_In in Hs. destruct Hs as [_ Hs]. apply negb_true_iff in Hs. exact Hs. }
  assert (Hok : okacc (acc0 uns) pre) by (intros s _; simpl; tauto).
  pose proof (members_pass dflt c d pre (acc0 uns) ap dp pre' Hpre (Hap srt (isort_perm _ _ _ _ _)) Hok Ep) as M.
  simpl in M.
  assert (Pc : Permutation (map core srt) (map core sl)) by (apply Permutation_map, isort_perm).
  rewrite <- (ssum_perm dflt c srt sl Pc), <- (fsum_perm dflt c _ srt sl Pc).
  rewrite Sp, ssum_app, fsum_app, (ssum_nonmembers _ _ _ Hpost), (fsum_nonmembers _ _ _ _ Hpost), !Nat.add_0_r.
  eapply Nat.le_trans; [exact M|]. apply fsum_mono.
  eapply incl_tran; [eapply pass_unsafe; exact Eq'|].
  eapply incl_tran; [eapply pass_unsafe; exact E2|apply protect_wanted_incl].
Qed.

(* ---------- from "pairwise different" stated with NoDup on the mount list ---------- *)
Lemma NoDup_map_inj {A B} (f : A -> B) l x y : NoDup (map f l) -> In x l -> In y l -> f x = f y -> x = y.
Proof.
  induction l as [|a l IH]; simpl; intros Hn Hx Hy E; [contradiction|].
  inversion Hn as [|? ? Hnin Hn']; subst.
  destruct Hx as [->|Hx], Hy as [->|Hy]; auto.
  - exfalso. apply Hnin. rewrite E. apply in_map; exact Hy.
  - exfalso. apply Hnin. rewrite <- E. apply in_map; exact Hx.
Qed.


Lemma apart_of_nodup l :
  NoDup (map (fun s => msrv (smnt s)) l) -> NoDup (map (fun s => mid (smnt s)) l) ->
  NoDup (filter nz (map (fun s => dev (smnt s)) l)) -> apart l.
Proof.
  induction l as [|s r IH]; simpl; intros H1 H2 H3; [exact I|].
  inversion H1 as [|? ? N1 H1']; inversion H2 as [|? ? N2 H2']; subst.
  split.
  - intros s' Hs'. split; [intros E; apply N1; rewrite E; apply (in_map (fun s => msrv (smnt s))); exact Hs'|].
    split; [intros E; apply N2; rewrite E; apply (in_map (fun s => mid (smnt s))); exact Hs'|].
    intros Hd E. unfold nz in H3. destruct (dev (smnt s) =? 0) eqn:Z; [apply Nat.eqb_eq in Z; contradiction|].
    simpl in H3. inversion H3 as [|? ? N3 _]; subst. apply N3. apply filter_In. split.
    + rewrite E. apply (in_map (fun s => dev (smnt s))); exact Hs'.
    + unfold nz. rewrite Z. reflexivity.
  - apply IH; auto. unfold nz in H3. destruct (negb (dev (smnt s) =? 0)); [inversion H3; auto|exact H3].
Qed.

Lemma NoDup_filter {A} (p : A -> bool) l : NoDup l -> NoDup (filter p l).
Proof.
  induction 1 as [|x l Hn Hd IH]; simpl; [constructor|]. destruct (p x); auto.
  constructor; auto. intro X. apply filter_In in X. tauto.
Qed.

(* hypotheses on the mounts (after cleanupMounts) of the _partial theorems *)
Definition mounts_apart (dflt c : nat) (mounts : list mnt) : Prop :=
  NoDup (map mid mounts) /\ NoDup (filter nz (map dev mounts)) /\
  NoDup (map msrv (filter (inclass dflt c) mounts)).

Lemma members_apart_of_mounts dflt c mounts sl :
  mounts_apart dflt c mounts -> Permutation (map smnt sl) mounts -> members_apart dflt c sl.
Proof.
  intros (M1 & M2 & M3) Hp l' Hl'.
  assert (Pm : Permutation (map smnt l') mounts) by (eapply perm_trans; [apply Permutation_map; exact Hl'|exact Hp]).
  set (mem_c := fun s : slot => inclass dflt c (smnt s)).
  assert (Fm : map smnt (filter mem_c l') = filter (inclass dflt c) (map smnt l')).
  { clear. induction l' as [|s r IH]; simpl; [reflexivity|]. unfold mem_c at 1. destruct (inclass dflt c (smnt s)); simpl; congruence. }
  apply apart_of_nodup.
  - replace (map (fun s => msrv (smnt s)) (filter mem_c l')) with (map msrv (map smnt (filter mem_c l'))) by (rewrite map_map; reflexivity).
    rewrite Fm. eapply Permutation_NoDup; [|exact M3]. symmetry. apply Permutation_map.
    clear - Pm. induction Pm; simpl; auto.
    + destruct (inclass dflt c x); auto.
    + destruct (inclass dflt c x), (inclass dflt c y); auto. apply perm_swap.
    + eapply perm_trans; eauto.
  - replace (map (fun s => mid (smnt s)) (filter mem_c l')) with (map mid (map smnt (filter mem_c l'))) by (rewrite map_map; reflexivity).
    rewrite Fm.
    assert (N : NoDup (map mid (map smnt l'))) by (eapply Permutation_NoDup; [symmetry; apply Permutation_map; exact Pm|exact M1]).
    clear - N. induction (map smnt l') as [|m r IH]; simpl in *; [constructor|].
    inversion N as [|? ? Hnin N']; subst. destruct (inclass dflt c m); simpl; auto.
    constructor; auto. intro X. apply Hnin. apply in_map_iff in X. destruct X as (y & E & Hy).
    apply filter_In in Hy. apply in_map_iff. exists y. tauto.
  - replace (map (fun s => dev (smnt s)) (filter mem_c l')) with (map dev (map smnt (filter mem_c l'))) by (rewrite map_map; reflexivity).
    rewrite Fm.
    assert (N : NoDup (filter nz (map dev (map smnt l')))).
    { eapply Permutation_NoDup; [|exact M2]. symmetry.
      assert (Pd : Permutation (map dev (map smnt l')) (map dev mounts)) by (apply Permutation_map; exact Pm).
      clear - Pd. induction Pd; simpl; auto.
      - destruct (nz x); auto.
      - destruct (nz x), (nz y); auto. apply perm_swap.
      - eapply perm_trans; eauto. }
    clear - N. induction (map smnt l') as [|m r IH]; simpl in *; [constructor|].
    destruct (inclass dflt c m); simpl.
    + destruct (nz (dev m)); [|auto]. inversion N as [|? ? Hnin N']; subst. constructor; auto.
      intro X. apply Hnin. apply filter_In in X. destruct X as [X Hz]. apply filter_In. split; auto.
      apply in_map_iff in X. destruct X as (y & E & Hy). apply filter_In in Hy. apply in_map_iff. exists y. tauto.
    + destruct (nz (dev m)); [inversion N; auto|auto].
Qed.

(* ---------- the block level, counted per mount ---------- *)
(* replication of class c over the mounts that show a replica / ... and are not named in tr *)
Definition gval (dflt c : nat) (T : list nat) (p : mnt * option nat) : nat :=
  match snd p with
  | Some _ => if inclass dflt c (fst p) && negb (mem (mid (fst p)) T) then mrepl (fst p) else 0
  | None => 0
  end.
Definition have_m (dflt c : nat) (mounts : list mnt) (replicas : list (nat * nat)) : nat :=
  ssum dflt c (map (mkslot replicas) mounts).
Definition kept_m (dflt c : nat) (mounts : list mnt) (replicas : list (nat * nat)) (T : list nat) : nat :=
  list_sum (map (gval dflt c T) (map core (map (mkslot replicas) mounts))).

Definition trash_mids (l : list change) : list nat :=
  flat_map (fun ch => match ch with Trash m _ => [m] | _ => [] end) l.

Lemma in_trash_mids l m : In m (trash_mids l) <-> exists t, In (Trash m t) l.
Proof.
  unfold trash_mids. rewrite in_flat_map. split.
  - intros (ch & Hch & Hm). destruct ch; simpl in Hm; [|contradiction]. destruct Hm as [<-|[]]. eauto.
  - intros (t & Ht). exists (Trash m t). simpl. auto.
Qed.

Theorem block_keeps_class dflt rank devrank minMtime mounts allmounts replicas classes desired c :
  In c classes -> 0 < lookup desired c -> mounts_apart dflt c mounts ->
  Nat.min (lookup desired c) (have_m dflt c mounts replicas) <=
  kept_m dflt c mounts replicas
         (trash_mids (fst (balance_block_old dflt rank devrank minMtime mounts allmounts replicas classes desired))).
Proof.
  intros Hc Hd Hap.
  set (d := lookup desired c) in *.
  set (sl0 := map (mkslot replicas) mounts).
  set (out := fst (balance_block_old dflt rank devrank minMtime mounts allmounts replicas classes desired)).
  (* the slots at the end *)
  assert (Efs : exists sl uns under,
             run_classes_old dflt rank devrank classes desired sl0 = (sl, uns, under) /\
             Permutation (map core sl) (map core sl0) /\
             Nat.min d (ssum dflt c sl0) <= fsum dflt c uns sl).
  { unfold run_classes_old.
    apply in_split in Hc. destruct Hc as (pre & post & ->). rewrite fold_left_app. simpl.
    pose proof (run_classes_evolves dflt rank devrank desired pre (sl0, [], false)) as Ev1.
    destruct (fold_left _ pre _) as [[sl1 u1] n1].
    pose proof (evolves_core _ _ Ev1) as P1. simpl in P1.
    assert (Ma : members_apart dflt c sl1).
    { eapply members_apart_of_mounts; [exact Hap|].
      assert (map smnt sl1 = map fst (map core sl1)) by (rewrite map_map; reflexivity). rewrite H.
      eapply perm_trans; [apply Permutation_map; exact P1|].
      unfold sl0. rewrite !map_map. simpl. rewrite map_id. reflexivity. }
    fold d.
    destruct (do_class_old dflt rank devrank c d (sl1, u1, n1)) as [[sl2 u2] n2] eqn:E2.
    assert (Hd' : d <> 0) by lia.
    pose proof (do_class_protects dflt rank devrank c d sl1 u1 n1 sl2 u2 n2 Hd' Ma E2) as Pr.
    pose proof (do_class_evolves dflt rank devrank c d (sl1, u1, n1)) as Ev2. rewrite E2 in Ev2.
    pose proof (run_classes_evolves dflt rank devrank desired post (sl2, u2, n2)) as Ev3.
    destruct (fold_left _ post _) as [[sl3 u3] n3].
    exists sl3, u3, n3. split; [reflexivity|].
    pose proof (evolves_core _ _ Ev2) as P2. pose proof (evolves_core _ _ Ev3) as P3. simpl in P2, P3.
    split; [eapply perm_trans; [exact P3|eapply perm_trans; [exact P2|exact P1]]|].
    rewrite (ssum_perm dflt c sl0 sl1) by (symmetry; exact P1).
    eapply Nat.le_trans; [exact Pr|].
    rewrite (fsum_perm dflt c u3 sl3 sl1) by (eapply perm_trans; [exact P3|exact P2]).
    eapply Nat.le_trans; [apply (fsum_mono dflt c u2 u3)|apply Nat.le_refl]. apply (ev_uns _ _ Ev3). }
  destruct Efs as (sl & uns & under & Erun & Pc & Hmin).
  unfold have_m. fold sl0. eapply Nat.le_trans; [exact Hmin|].
  unfold kept_m. fold sl0.
  rewrite <- (list_sum_perm _ _ (Permutation_map (gval dflt c (trash_mids out)) Pc)).
  (* slot by slot: unsafe mtime => wanted => not in the trash list *)
  assert (Hfs : final_slots_old dflt rank devrank mounts replicas classes desired = map (widen under uns) sl).
  { unfold final_slots_old. fold sl0. rewrite Erun. reflexivity. }
  assert (Nd : NoDup (map (fun s => mid (smnt s)) sl)).
  { destruct Hap as (M1 & _ & _).
    assert (Permutation (map (fun s => mid (smnt s)) sl) (map mid mounts)).
    { replace (map (fun s => mid (smnt s)) sl) with (map (fun p => mid (fst p)) (map core sl)) by (rewrite map_map; reflexivity).
      eapply perm_trans; [apply Permutation_map; exact Pc|]. unfold sl0. rewrite !map_map. simpl. reflexivity. }
    eapply Permutation_NoDup; [symmetry; exact H|exact M1]. }
  assert (Hpt : forall s, In s sl -> fval dflt c uns (core s) <= gval dflt c (trash_mids out) (core s)).
  { intros s Hs. unfold fval, gval, core; simpl. destruct (srepl s) as [t|] eqn:Er; [|lia].
    destruct (inclass dflt c (smnt s)); simpl; [|lia].
    destruct (mem t uns) eqn:Eu; [|lia].
    destruct (mem (mid (smnt s)) (trash_mids out)) eqn:Et; simpl; [|lia]. exfalso.
    apply mem_In in Et. apply in_trash_mids in Et. destruct Et as (t' & Ht').
    unfold out, balance_block_old in Ht'. simpl in Ht'. rewrite Hfs in Ht'.
    apply in_flat_map in Ht'. destruct Ht' as (s2 & Hs2 & He).
    apply emit_trash in He. destruct He as (Em & Er2 & Ew & _).
    apply in_map_iff in Hs2. destruct Hs2 as (s1 & <- & Hs1).
    assert (s1 = s).
    { apply (NoDup_map_inj (fun s => mid (smnt s)) sl); auto.
      rewrite Em. destruct (widen_wle under uns s1) as [->| ->]; reflexivity. }
    subst s1. unfold widen in Ew. rewrite Er, Eu, orb_true_r in Ew. simpl in Ew. discriminate. }
  unfold fsum. clear - Hpt. induction sl as [|s r IH]; simpl; [lia|].
  pose proof (Hpt s (or_introl eq_refl)). assert (forall s, In s r -> fval dflt c uns (core s) <= gval dflt c (trash_mids out) (core s)) by (intros; apply Hpt; right; auto).
  specialize (IH H0). lia.
Qed.
