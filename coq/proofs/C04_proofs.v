(* C04 (H) — proofs about model/C04_model.v: history level, explicit clock. *)
From Coq Require Import ZArith NArith List String Bool Lia.
From AV Require Import lib.Str model.C04_model model.C04_run model.C04_old.
Import ListNotations.
Local Open Scope Z_scope.

(* ---- block lists ---- *)
Lemma find_del_same bs h : find_block (del_block bs h) h = None.
Proof.
  induction bs as [|b r IH]; cbn; [reflexivity|].
  destruct (String.eqb_spec (b_hash b) h) as [E|E]; cbn; [exact IH|].
  destruct (String.eqb_spec (b_hash b) h); [contradiction|exact IH].
Qed.
Lemma find_del_other bs h h' : h' <> h -> find_block (del_block bs h) h' = find_block bs h'.
Proof.
  intros Hn. induction bs as [|b r IH]; cbn; [reflexivity|].
  destruct (String.eqb_spec (b_hash b) h) as [E|E]; cbn.
  - destruct (String.eqb_spec (b_hash b) h') as [E'|E']; [congruence|exact IH].
  - destruct (String.eqb_spec (b_hash b) h'); [reflexivity|exact IH].
Qed.
Lemma find_set_same bs h m : find_block (set_block bs h m) h = Some m.
Proof. unfold set_block. cbn. rewrite String.eqb_refl. reflexivity. Qed.
Lemma find_set_other bs h m h' : h' <> h -> find_block (set_block bs h m) h' = find_block bs h'.
Proof.
  intros Hn. unfold set_block. cbn. destruct (String.eqb_spec h h'); [congruence|]. apply find_del_other. exact Hn.
Qed.

(* ================================================================== *)
(* fresh_survives                                                      *)

Section Fresh.
Variable c : cfg.
Variable h : string.
Variable t : Z.

Definition fresh_v (v : vol) : Prop := exists m, find_block (v_blocks v) h = Some m /\ t <= m.
Definition Fresh (vs : list vol) : Prop := Exists fresh_v vs.
Definition keeps (v v' : vol) : Prop := fresh_v v -> fresh_v v'.

Lemma keeps_refl v : keeps v v.
Proof. intros X; exact X. Qed.

Lemma Forall2_keeps vs : forall vs', Forall2 keeps vs vs' -> Fresh vs -> Fresh vs'.
Proof.
  induction vs as [|v r IH]; intros vs' HF HE; inversion HF; subst; inversion HE; subst.
  - constructor 1. auto.
  - constructor 2. apply IH; assumption.
Qed.
Lemma Forall2_keeps_refl vs : Forall2 keeps vs vs.
Proof. induction vs; constructor; [apply keeps_refl|assumption]. Qed.
Lemma Forall2_keeps_trans a : forall b d, Forall2 keeps a b -> Forall2 keeps b d -> Forall2 keeps a d.
Proof.
  induction a as [|x r IH]; intros b d H1 H2; inversion H1; subst; inversion H2; subst; constructor.
  - intros X. auto.
  - eapply IH; eassumption.
Qed.

(* setting a block to a time >= t keeps (or establishes) freshness *)
Lemma keeps_set v h' now : t <= now -> keeps v (with_blocks v (set_block (v_blocks v) h' now)).
Proof.
  intros Hn (m & A & B). unfold fresh_v. cbn [with_blocks v_blocks].
  destruct (String.eqb_spec h h') as [->|E].
  - exists now. rewrite find_set_same. auto.
  - exists m. rewrite find_set_other by exact E. auto.
Qed.

Lemma keeps_touch v h' now v' : t <= now -> vol_touch v h' now = Some v' -> keeps v v'.
Proof.
  intros Hn. unfold vol_touch. destruct (v_ro v); [discriminate|].
  destruct (find_block (v_blocks v) h'); [|discriminate]. intros X; inversion X; subst. apply keeps_set. exact Hn.
Qed.

(* Trash re-checks the age under the flock: a copy with mtime >= t is not touched while now < t + ttl *)
Lemma keeps_trash v h' now : now < t + ttl c -> keeps v (snd (vol_trash c v h' now)).
Proof.
  intros Hn (m & A & B). unfold vol_trash. destruct (v_ro v || negb (blob_trash c)); [exists m; auto|].
  destruct (String.eqb_spec h h') as [<-|E].
  - rewrite A. destruct (Z.ltb_spec (now - m) (ttl c)); [exists m; auto|lia].
  - destruct (find_block (v_blocks v) h') as [m'|]; [|exists m; auto].
    destruct (now - m' <? ttl c); [exists m; auto|].
    destruct (life c =? 0); unfold fresh_v; cbn [snd with_blocks with_both v_blocks]; exists m; rewrite find_del_other by exact E; auto.
Qed.

(* Untrash keeps an existing block file; restoring another hash does not touch h *)
Lemma keeps_untrash v h' : keeps v (snd (vol_untrash v h')).
Proof.
  intros (m & A & B). unfold vol_untrash. destruct (v_ro v); [exists m; auto|].
  destruct (first_trash (v_trash v) h' None); [|exists m; auto].
  destruct (find_block (v_blocks v) h') eqn:Eb; [exists m; auto|].
  unfold fresh_v; cbn [snd with_both v_blocks]. exists m.
  rewrite find_set_other by (intros ->; congruence). auto.
Qed.

Lemma keeps_empty v now : keeps v (vol_empty v now).
Proof. intros (m & A & B). exists m. auto. Qed.

Lemma keeps_trash_item it now v : now < t + ttl c -> keeps v (trash_item_vol c it now v).
Proof.
  intros Hn. unfold trash_item_vol. destruct (v_ro v); [apply keeps_refl|].
  destruct (negb _); [apply keeps_refl|]. destruct (find_block (v_blocks v) (i_hash it)); [|apply keeps_refl].
  destruct (negb _); [apply keeps_refl|]. destruct (negb _); [apply keeps_refl|]. apply keeps_trash. exact Hn.
Qed.

(* the list-level operations act volume by volume *)
Lemma touch_first_keeps vs h' now : t <= now -> forall vs', touch_first vs h' now = Some vs' -> Forall2 keeps vs vs'.
Proof.
  intros Hn. induction vs as [|v r IH]; intros vs'; cbn [touch_first]; [discriminate|].
  destruct (vol_touch v h' now) as [v'|] eqn:Et.
  - intros X; inversion X; subst. constructor; [eapply keeps_touch; eassumption|apply Forall2_keeps_refl].
  - destruct (touch_first r h' now) as [r'|]; [|discriminate]. intros X; inversion X; subst.
    constructor; [apply keeps_refl|apply IH; reflexivity].
Qed.

Lemma write_at_keeps vs h' now : t <= now -> forall k, Forall2 keeps vs (write_at vs k h' now).
Proof.
  intros Hn. induction vs as [|v r IH]; intros k; cbn [write_at]; [constructor|].
  destruct (v_ro v); [constructor; [apply keeps_refl|apply IH]|].
  destruct k; constructor; try apply keeps_refl; try apply IH; try apply Forall2_keeps_refl. apply keeps_set. exact Hn.
Qed.

Lemma trash_all_keeps vs h' now : now < t + ttl c -> Forall2 keeps vs (snd (trash_all c vs h' now)).
Proof.
  intros Hn. induction vs as [|v r IH]; cbn [trash_all]; [constructor|].
  destruct (trash_all c r h' now) as [n r'] eqn:E. cbn [snd] in IH.
  destruct (v_ro v); cbn [snd]; [constructor; [apply keeps_refl|exact IH]|].
  pose proof (keeps_trash v h' now Hn) as K. destruct (vol_trash c v h' now) as [[| |] v']; cbn [snd] in *; constructor; assumption.
Qed.

Lemma untrash_all_keeps vs h' : Forall2 keeps vs (snd (untrash_all vs h')).
Proof.
  induction vs as [|v r IH]; cbn [untrash_all]; [constructor|].
  destruct (untrash_all r h') as [n r'] eqn:E'. cbn [snd] in IH.
  destruct (v_ro v); cbn [snd]; [constructor; [apply keeps_refl|exact IH]|].
  pose proof (keeps_untrash v h') as K. destruct (vol_untrash v h') as [[| |] v']; cbn [snd] in *; constructor; assumption.
Qed.

Lemma map_keeps (f : vol -> vol) vs : (forall v, keeps v (f v)) -> Forall2 keeps vs (map f vs).
Proof. intros Hf. induction vs; cbn; constructor; auto. Qed.

Lemma trash_list_keeps its now : now < t + ttl c -> forall vs, Forall2 keeps vs (trash_list c vs its now).
Proof.
  intros Hn. unfold trash_list. induction its as [|it r IH]; intros vs; cbn [fold_left]; [apply Forall2_keeps_refl|].
  eapply Forall2_keeps_trans; [|apply IH].
  unfold trash_item. destruct (now - i_mtime it <? ttl c); [apply Forall2_keeps_refl|].
  apply map_keeps. intros v. apply keeps_trash_item. exact Hn.
Qed.

(* one step — ANY request — keeps a fresh copy fresh: clock not before t, not yet t + ttl *)
Lemma step_keeps s now o : t <= now -> now < t + ttl c ->
  Forall2 keeps (vols s) (vols (snd (step c s now o))).
Proof.
  intros H1 H2. destruct o as [h'|h'|h'|its|h'|h'|]; cbn [step].
  - unfold h_put. destruct (writable (vols s)); [apply Forall2_keeps_refl|].
    destruct (touch_first (vols s) h' now) as [vs'|] eqn:Et; cbn [snd vols].
    + eapply touch_first_keeps; eassumption.
    + apply write_at_keeps. exact H1.
  - unfold h_touch. destruct (writable (vols s)); [apply Forall2_keeps_refl|].
    destruct (touch_first (vols s) h' now) as [vs'|] eqn:Et; cbn [snd vols]; [|apply Forall2_keeps_refl].
    eapply touch_first_keeps; eassumption.
  - apply Forall2_keeps_refl.
  - cbn [snd vols]. apply trash_list_keeps. exact H2.
  - unfold h_delete. destruct (negb (blob_trash c)); [apply Forall2_keeps_refl|].
    pose proof (trash_all_keeps (vols s) h' now H2) as K.
    destruct (trash_all c (vols s) h' now) as [n vs']. cbn [snd vols] in *. exact K.
  - unfold h_untrash. destruct (writable (vols s)); [apply Forall2_keeps_refl|].
    pose proof (untrash_all_keeps (vols s) h') as K.
    destruct (untrash_all (vols s) h') as [n vs']. cbn [snd vols] in *. exact K.
  - cbn [snd vols]. unfold empty_trash. apply map_keeps. intros v. destruct (v_ro v); [apply keeps_refl|apply keeps_empty].
Qed.

(* a whole history *)
Definition calm (p : Z * op) : Prop := t <= fst p /\ fst p < t + ttl c.

Lemma final_keeps hs : Forall calm hs -> forall s, Fresh (vols s) -> Fresh (vols (final c s hs)).
Proof.
  induction hs as [|[now o] r IH]; intros HF s HS; cbn [final]; [exact HS|].
  inversion HF as [|x l [A B] HF']; subst. cbn [fst snd] in *.
  apply IH; [exact HF'|]. eapply Forall2_keeps; [apply step_keeps; assumption|exact HS].
Qed.

End Fresh.

(* an acknowledged Put or Touch at time t establishes a copy with mtime t *)
Lemma touch_first_fresh h now : forall vs vs', touch_first vs h now = Some vs' -> Fresh h now vs'.
Proof.
  induction vs as [|v r IH]; intros vs'; cbn [touch_first]; [discriminate|].
  destruct (vol_touch v h now) as [v'|] eqn:Et.
  - intros X; inversion X; subst. constructor 1. unfold vol_touch in Et. destruct (v_ro v); [discriminate|].
    destruct (find_block (v_blocks v) h); [|discriminate]. inversion Et; subst.
    exists now. cbn [with_blocks v_blocks]. rewrite find_set_same. split; [reflexivity|lia].
  - destruct (touch_first r h now) as [r'|] eqn:E; [|discriminate]. intros X; inversion X; subst.
    constructor 2. eapply IH; reflexivity.
Qed.

Lemma write_at_fresh h now : forall vs k, (k < List.length (writable vs))%nat -> Fresh h now (write_at vs k h now).
Proof.
  induction vs as [|v r IH]; intros k Hk; cbn [writable filter List.length] in Hk; [lia|].
  cbn [write_at]. destruct (v_ro v); cbn [negb] in Hk.
  - constructor 2. apply IH. exact Hk.
  - cbn [List.length] in Hk. destruct k.
    + constructor 1. exists now. cbn [with_blocks v_blocks]. rewrite find_set_same. split; [reflexivity|lia].
    + constructor 2. apply IH. unfold writable. lia.
Qed.

Lemma ack_establishes c s t o h s1 code :
  (o = Put h \/ o = Touch h) -> step c s t o = (code, s1) -> code = 200%N -> Fresh h t (vols s1).
Proof.
  intros [->| ->]; cbn [step].
  - unfold h_put. destruct (writable (vols s)) as [|w0 ws] eqn:Ew; [intros X; inversion X; subst; discriminate|].
    destruct (touch_first (vols s) h t) as [vs'|] eqn:Et; intros X; inversion X; subst; intros _; cbn [vols].
    + eapply touch_first_fresh; eassumption.
    + apply write_at_fresh. rewrite Ew.
      assert (((counter s + 1) mod 4294967296 mod N.of_nat (List.length (w0 :: ws)) < N.of_nat (List.length (w0 :: ws)))%N)
        by (apply N.mod_lt; cbn [List.length]; lia).
      cbn [List.length] in *. lia.
  - unfold h_touch. destruct (writable (vols s)); [intros X; inversion X; subst; discriminate|].
    destruct (touch_first (vols s) h t) as [vs'|] eqn:Et; intros X; inversion X; subst; [|discriminate].
    intros _. cbn [vols]. eapply touch_first_fresh; eassumption.
Qed.

(* fresh_survives: after an acknowledged Put/Touch of h at time t, whatever requests follow (Put,
   Touch, Get, trash lists, Delete, EmptyTrash, Untrash — of any hash) while t <= now < t + ttl,
   some volume still holds h as a block file with a timestamp >= t (so it is neither in the trash nor
   trashable).  Holds for every prefix of the history, i.e. at every intermediate point. *)
Theorem fresh_survives c s t o h code s1 hs :
  (o = Put h \/ o = Touch h) -> step c s t o = (code, s1) -> code = 200%N ->
  Forall (calm c t) hs ->
  Fresh h t (vols (final c s1 hs)).
Proof.
  intros Ho Hs Hc Hh. apply final_keeps; [exact Hh|]. eapply ack_establishes; eassumption.
Qed.

(* the clock hypothesis follows from a non-decreasing clock that has not reached t + ttl *)
Fixpoint nondecr (prev : Z) (hs : list (Z * op)) : Prop :=
  match hs with [] => True | (now, _) :: r => prev <= now /\ nondecr now r end.
Lemma nondecr_calm c t : forall hs prev, t <= prev -> nondecr prev hs ->
  Forall (fun p => fst p < t + ttl c) hs -> Forall (calm c t) hs.
Proof.
  induction hs as [|[now o] r IH]; intros prev Hp Hn HF; constructor; inversion HF; subst; cbn [nondecr] in Hn.
  - unfold calm. cbn [fst snd] in *. destruct Hn. split; [lia|assumption].
  - destruct Hn. eapply IH; [|eassumption|assumption]. lia.
Qed.

Corollary fresh_survives_clock c s t o h code s1 hs :
  (o = Put h \/ o = Touch h) -> step c s t o = (code, s1) -> code = 200%N ->
  nondecr t hs -> Forall (fun p => fst p < t + ttl c) hs ->
  exists v m, In v (vols (final c s1 hs)) /\ find_block (v_blocks v) h = Some m /\ t <= m.
Proof.
  intros Ho Hs Hc Hn HF.
  assert (X : Fresh h t (vols (final c s1 hs))).
  { eapply fresh_survives; try eassumption. eapply nondecr_calm; [|eassumption|assumption]. lia. }
  apply Exists_exists in X. destruct X as (v & A & m & B & D). eauto.
Qed.

(* ---- regression witness about the OLD model (model/C04_old.v, Untrash before /repo fa470fa): F20 —
   Untrash renamed an older trashed copy over the fresh block file and the next Delete trashed it ---- *)
Local Open Scope string_scope.
Definition f20_cfg : cfg := {| ttl := 7200 * NS; life := 86400 * NS; blob_trash := true |}.
Definition f20_s0 : state :=
  {| vols := [{| v_ro := false; v_uuid := "u"; v_blocks := []; v_trash := [] |}]; counter := 0 |}.
Definition f20_history : list (Z * op) :=
  [ (0, Put "a"); (7300 * NS, Delete "a"); (7301 * NS, Put "a"); (7302 * NS, Untrash "a"); (7303 * NS, Delete "a") ].
Definition f20_s3 : state := final f20_cfg f20_s0 (firstn 2 f20_history).
Definition f20_tail : list (Z * op) := [ (7302 * NS, Untrash "a"); (7303 * NS, Delete "a") ].

Lemma f20_ack_old : exists s1, step_old f20_cfg f20_s3 (7301 * NS) (Put "a") = (200%N, s1) /\
  existsb (fun v => has_block v "a") (vols (final_old f20_cfg s1 f20_tail)) = false.
Proof. eexists. split; [vm_compute; reflexivity|]. vm_compute. reflexivity. Qed.
Lemma f20_clock : nondecr (7301 * NS) f20_tail /\ Forall (fun p => fst p < 7301 * NS + ttl f20_cfg) f20_tail.
Proof.
  unfold f20_tail, f20_cfg, NS. cbn [nondecr ttl fst]. split; [lia|]. repeat constructor; cbn [fst]; lia.
Qed.

Theorem old_fresh_survives_untrash_refuted :
  exists c s t h code s1 hs,
    step_old c s t (Put h) = (code, s1) /\ code = 200%N /\ nondecr t hs /\
    Forall (fun p => fst p < t + ttl c) hs /\
    ~ (exists v m, In v (vols (final_old c s1 hs)) /\ find_block (v_blocks v) h = Some m).
Proof.
  destruct f20_ack_old as (s1 & A & B). destruct f20_clock as [C D].
  exists f20_cfg, f20_s3, (7301 * NS), "a", 200%N, s1, f20_tail.
  split; [exact A|]. split; [reflexivity|]. split; [exact C|]. split; [exact D|].
  intros (v & m & Hin & Hf).
  assert (X : existsb (fun v => has_block v "a") (vols (final_old f20_cfg s1 f20_tail)) = true).
  { apply existsb_exists. exists v. split; [exact Hin|]. unfold has_block. rewrite Hf. reflexivity. }
  rewrite B in X. discriminate.
Qed.

(* the same history on the model of the code as it is now keeps the block *)
Example f20_history_now_keeps_block : h_get (final f20_cfg f20_s0 f20_history) "a" = 200%N.
Proof. vm_compute. reflexivity. Qed.
