(* C04 — proofs about model/C04_model.v (history level). *)
From Coq Require Import ZArith NArith List String Bool Lia.
From AV Require Import lib.Str model.C04_model model.C04_run.
Import ListNotations.
Local Open Scope Z_scope.

Lemma deadline_whole_seconds c now : deadline c now = (now + life c) / NS.
Proof. reflexivity. Qed.
