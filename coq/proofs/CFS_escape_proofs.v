(* manifestEscape / manifestUnescape round trip for every name (bytes 0-255). *)
From Coq Require Import List Ascii String Bool NArith ZArith Lia ZifyN ZifyBool.
From AV Require Import lib.Str lib.Path model.CFS_file model.CFS_tree model.CFS_inst model.CFS_bg.
Local Open Scope string_scope.
Ltac Zify.zify_post_hook ::= Z.div_mod_to_equations.

Definition special (c : ascii) : bool := let n := N_of_ascii c in ((n <=? 32) || (n =? 58) || (n =? 92))%N.

Lemma escape_cons c r : manifest_escape (String c r) =
  if special c then String "\"%char (oct3 (N_of_ascii c) ++ manifest_escape r) else String c (manifest_escape r).
Proof. reflexivity. Qed.

Lemma unescape_plain c t : special c = false -> manifest_unescape (String c t) = String c (manifest_unescape t).
Proof.
  intros H. cbn [manifest_unescape]. destruct (Ascii.eqb_spec c "\"%char) as [->|]; [discriminate|reflexivity].
Qed.

Lemma octal_digit x : (x < 8)%N -> is_octal (ascii_of_N (48 + x)) = true /\ octv (ascii_of_N (48 + x)) = x.
Proof.
  intros H. unfold is_octal, octv. rewrite N_ascii_embedding by lia.
  split; [|lia]. apply andb_true_intro. split; apply N.leb_le; lia.
Qed.

Lemma unescape_bs_oct a b d t :
  is_octal a = true -> is_octal b = true -> is_octal d = true -> (octv a * 64 + octv b * 8 + octv d < 256)%N ->
  manifest_unescape (String "\"%char (String a (String b (String d t)))) =
  String (ascii_of_N (octv a * 64 + octv b * 8 + octv d)) (manifest_unescape t).
Proof.
  intros Ha Hb Hd Hv. cbn [manifest_unescape]. change (Ascii.eqb "\"%char "\"%char) with true. cbn iota.
  rewrite Ha, Hb, Hd. cbn [andb]. apply N.ltb_lt in Hv. rewrite Hv. reflexivity.
Qed.

Lemma unescape_oct c t :
  manifest_unescape (String "\"%char (oct3 (N_of_ascii c) ++ t)) = String c (manifest_unescape t).
Proof.
  pose proof (N_ascii_bounded c) as Hb. set (n := N_of_ascii c) in *.
  unfold oct3. cbn [append].
  destruct (octal_digit ((n / 64) mod 8)%N ltac:(lia)) as [A1 A2].
  destruct (octal_digit ((n / 8) mod 8)%N ltac:(lia)) as [B1 B2].
  destruct (octal_digit (n mod 8)%N ltac:(lia)) as [C1 C2].
  rewrite unescape_bs_oct by (try assumption; rewrite A2, B2, C2; lia).
  rewrite A2, B2, C2. replace ((n / 64) mod 8 * 64 + (n / 8) mod 8 * 8 + n mod 8)%N with n by lia.
  unfold n. rewrite ascii_N_embedding. reflexivity.
Qed.

Theorem unescape_escape : forall s, manifest_unescape (manifest_escape s) = s.
Proof.
  induction s as [|c r IH]; [reflexivity|]. rewrite escape_cons.
  destruct (special c) eqn:E; [rewrite unescape_oct|rewrite (unescape_plain c _ E)]; rewrite IH; reflexivity.
Qed.
