(* C03 — the error-class clause of the boolean specification ([class_ok], [ops_err_ok], model/C03_run.v):
   the retry loop of getOrHead asks a service again exactly when its answer was retryable, never after a 404,
   counts one 404 per service, and classifies the failure accordingly.  Proved of the model's run for every
   input (no consistency hypothesis; the clause itself is guarded by "the probe order has no duplicates"). *)
From Coq Require Import Arith NArith List Ascii String Bool Lia.
From AV Require Import lib.Str model.C03_model model.C03_run proofs.C03_proofs proofs.C03_run_proofs.
Import ListNotations.
Local Open Scope nat_scope.

(* ------------------------------------------------------------------ lists of (service, answer) *)
Lemma mem_In s l : existsb (Nat.eqb s) l = true <-> In s l.
Proof.
  rewrite existsb_exists. split.
  - intros (x & Hx & E). apply Nat.eqb_eq in E. subst. exact Hx.
  - intros Hx. exists s. split; [exact Hx|apply Nat.eqb_refl].
Qed.

Lemma nodupb_NoDup l : nodupb l = true <-> NoDup l.
Proof.
  induction l as [|x r IH]; cbn [nodupb].
  - split; [constructor|reflexivity].
  - rewrite andb_true_iff, negb_true_iff, IH. split.
    + intros [A B]. constructor; [|exact B]. intros Hin. apply mem_In in Hin. congruence.
    + intros Hn. inversion Hn as [|? ? A B]; subst. split; [|exact B].
      destruct (existsb (Nat.eqb x) r) eqn:E; [|reflexivity]. apply mem_In in E. contradiction.
Qed.

Lemma last_of_app al bl s :
  last_of (al ++ bl) s = match last_of bl s with Some x => Some x | None => last_of al s end.
Proof.
  induction al as [|[s' r] al IH]; cbn [app last_of].
  - destruct (last_of bl s); reflexivity.
  - rewrite IH. destruct (last_of bl s); reflexivity.
Qed.

Lemma last_of_in al s r : last_of al s = Some r -> In (s, r) al.
Proof.
  induction al as [|[s' r'] al IH]; cbn [last_of]; [discriminate|].
  destruct (last_of al s) as [x|] eqn:E.
  - intros [= <-]. right. apply IH. reflexivity.
  - destruct (Nat.eqb_spec s' s) as [->|]; [|discriminate]. intros [= <-]. left. reflexivity.
Qed.

Lemma last_of_map (f : nat -> response) L s :
  last_of (map (fun x => (x, f x)) L) s = if existsb (Nat.eqb s) L then Some (f s) else None.
Proof.
  induction L as [|x L IH]; cbn [map last_of existsb]; [reflexivity|]. rewrite IH.
  destruct (existsb (Nat.eqb s) L); [rewrite orb_true_r; reflexivity|]. rewrite orb_false_r.
  rewrite (Nat.eqb_sym s x). destruct (Nat.eqb_spec x s) as [->|]; reflexivity.
Qed.

Lemma has404_app al bl s : has404 (al ++ bl) s = has404 al s || has404 bl s.
Proof. unfold has404. apply existsb_app. Qed.

Lemma has404_map (f : nat -> response) L s :
  has404 (map (fun x => (x, f x)) L) s = true <-> In s L /\ is404b (f s) = true.
Proof.
  unfold has404. rewrite existsb_exists. split.
  - intros ([x r] & Hin & E). apply in_map_iff in Hin. destruct Hin as (y & [= <- <-] & Hy).
    cbn [fst snd] in E. apply andb_true_iff in E. destruct E as [E1 E2]. apply Nat.eqb_eq in E1. subst. auto.
  - intros [Hin E]. exists (s, f s). split; [apply in_map_iff; exists s; auto|]. cbn [fst snd]. rewrite Nat.eqb_refl. exact E.
Qed.

Lemma has404_in al s : has404 al s = true <-> exists r, In (s, r) al /\ is404b r = true.
Proof.
  unfold has404. rewrite existsb_exists. split.
  - intros ([x r] & Hin & E). cbn [fst snd] in E. apply andb_true_iff in E. destruct E as [E1 E2]. apply Nat.eqb_eq in E1. subst. eauto.
  - intros (r & Hin & E). exists (s, r). cbn [fst snd]. rewrite Nat.eqb_refl. auto.
Qed.

Lemma last404_has404 al s : last404 al s = true -> has404 al s = true.
Proof.
  unfold last404. destruct (last_of al s) as [r|] eqn:E; [|discriminate]. intros Hr.
  apply has404_in. exists r. split; [apply last_of_in; exact E|exact Hr].
Qed.

Lemma retry_not_404 r : retryableb r = true -> is404b r = false.
Proof.
  destruct r as [st d b c|]; [|reflexivity]. cbn. intros Hr. destruct (N.eqb_spec st 404) as [->|]; [|reflexivity].
  vm_compute in Hr. discriminate.
Qed.

Lemma all404_spec order al :
  all_last_404 order al = true <-> order <> [] /\ forall s, In s order -> last404 al s = true.
Proof.
  unfold all_last_404. destruct order as [|x r].
  - split; [discriminate|intros [X _]; contradiction].
  - rewrite forallb_forall. split; [intros X; split; [discriminate|exact X]|intros [_ X]; exact X].
Qed.

Lemma all404_false order al x : In x order -> last404 al x = false -> all_last_404 order al = false.
Proof.
  intros Hin Hl. destruct (all_last_404 order al) eqn:E; [|reflexivity].
  apply all404_spec in E. destruct E as [_ E]. rewrite (E x Hin) in Hl. discriminate.
Qed.

Lemma all404_nil order : all_last_404 order [] = false.
Proof. destruct order as [|x r]; [reflexivity|]. apply (all404_false _ _ x); [left; reflexivity|reflexivity]. Qed.

(* an error outside the three not-found classes passes as soon as "every last answer is a 404" is false *)
Lemma class_other order al e :
  e <> ENotFound -> e <> ETemp -> e <> EPerm -> all_last_404 order al = false -> class_okb order al e = true.
Proof. intros A B C D. unfold class_okb. rewrite D. destruct e; try reflexivity; contradiction. Qed.

Lemma NoDup_app_mine {A} (a b : list A) :
  NoDup a -> NoDup b -> (forall x, In x a -> In x b -> False) -> NoDup (a ++ b).
Proof.
  induction a as [|x a IH]; intros Ha Hb Hd; cbn [app]; [exact Hb|].
  inversion Ha as [|? ? Hx Ha']; subst. constructor.
  - intros Hin. apply in_app_or in Hin. destruct Hin as [Hin|Hin]; [contradiction|]. apply (Hd x); [left; reflexivity|exact Hin].
  - apply IH; [exact Ha'|exact Hb|]. intros y Hy Hy'. apply (Hd y); [right; exact Hy|exact Hy'].
Qed.

Lemma firstn_exact {A} (a b : list A) : firstn (List.length a) (a ++ b) = a.
Proof. induction a as [|x a IH]; cbn; [destruct b; reflexivity|rewrite IH; reflexivity]. Qed.
Lemma skipn_exact {A} (a b : list A) : skipn (List.length a) (a ++ b) = b.
Proof. induction a as [|x a IH]; cbn; [reflexivity|exact IH]. Qed.

(* ------------------------------------------------------------------ one call of getOrHead *)
Definition ans_of (oracle : nat -> nat -> response) (lg : list (nat * nat)) : list (nat * response) :=
  map (fun p => (fst p, oracle (fst p) (snd p))) lg.

Lemma ans_of_app oracle a b : ans_of oracle (a ++ b) = ans_of oracle a ++ ans_of oracle b.
Proof. apply map_app. Qed.
Lemma ans_of_round oracle r L : ans_of oracle (map (fun x => (x, r)) L) = map (fun x => (x, oracle x r)) L.
Proof. unfold ans_of. rewrite map_map. reflexivity. Qed.

Section G.
Variable oracle : nat -> nat -> response.

(* a round that ends without an answer: what it adds to the 404 count, the retry list and the log *)
Lemma ts_none L : forall r expect c404 retry log c' rt' log',
  try_servers oracle L r expect c404 retry log = (None, c', rt', log') ->
  c' = c404 + List.length (filter (fun x => is404b (oracle x r)) L) /\
  rt' = retry ++ filter (fun x => retryableb (oracle x r)) L /\
  log' = log ++ map (fun x => (x, r)) L.
Proof.
  induction L as [|y L IH]; intros r expect c404 retry log c' rt' log' E; cbn [try_servers] in E.
  - injection E as <- <- <-. cbn. rewrite Nat.add_0_r, !app_nil_r. auto.
  - cbn [filter map]. destruct (oracle y r) as [st d b c|] eqn:Eo.
    + destruct (negb (st =? 200)%N) eqn:E2; [|destruct expect, d; try discriminate; destruct (_ =? _); discriminate].
      cbn [is404b retryableb]. destruct (retry_status st) eqn:Er.
      * assert (E4 : (st =? 404)%N = false).
        { destruct (N.eqb_spec st 404) as [->|]; [vm_compute in Er; discriminate|reflexivity]. }
        rewrite E4. apply IH in E. destruct E as (-> & -> & ->). rewrite <- !app_assoc. auto.
      * destruct (st =? 404)%N.
        -- apply IH in E. destruct E as (-> & -> & ->). cbn [List.length]. rewrite <- !app_assoc. split; [lia|auto].
        -- apply IH in E. destruct E as (-> & -> & ->). rewrite <- !app_assoc. auto.
    + cbn [is404b retryableb]. apply IH in E. destruct E as (-> & -> & ->). rewrite <- !app_assoc. auto.
Qed.

(* a round that ends with an answer: the last request of the log was answered 200 by one of the services *)
Lemma ts_some L : forall r expect c404 retry log res c' rt' log',
  try_servers oracle L r expect c404 retry log = (Some res, c', rt', log') ->
  exists pre x d b c, log' = log ++ map (fun x => (x, r)) pre ++ [(x, r)] /\ In x L /\ oracle x r = Resp 200 d b c.
Proof.
  induction L as [|y L IH]; intros r expect c404 retry log res c' rt' log' E; cbn [try_servers] in E; [discriminate|].
  assert (Hrec : forall c1 rt1, try_servers oracle L r expect c1 rt1 (log ++ [(y, r)]) = (Some res, c', rt', log') ->
            exists pre x d b c, log' = log ++ map (fun x => (x, r)) pre ++ [(x, r)] /\ In x (y :: L) /\ oracle x r = Resp 200 d b c).
  { intros c1 rt1 E1. apply IH in E1. destruct E1 as (pre & x & d & b & c & -> & Hin & Ho).
    exists (y :: pre), x, d, b, c. cbn [map]. rewrite <- !app_assoc. cbn [app]. split; [reflexivity|]. split; [right; exact Hin|exact Ho]. }
  destruct (oracle y r) as [st d b c|] eqn:Eo; [|eapply Hrec; exact E].
  destruct (negb (st =? 200)%N) eqn:E2.
  - destruct (retry_status st); [|destruct (st =? 404)%N]; eapply Hrec; exact E.
  - apply negb_false_iff, N.eqb_eq in E2. subst st.
    assert (Hl : log' = log ++ [(y, r)]).
    { destruct expect as [e|], d as [n|]; try (injection E as _ _ _ <-; reflexivity). destruct (e =? n); injection E as _ _ _ <-; reflexivity. }
    exists [], y, d, b, c. cbn [map app]. split; [exact Hl|]. split; [left; reflexivity|exact Eo].
Qed.

Section O.
Variable order : list nat.
Hypothesis Hnd : NoDup order.

(* a never-asked service counts as "to be asked" *)
Definition lastp (al : list (nat * response)) (s : nat) : bool :=
  match last_of al s with Some r => retryableb r | None => true end.

(* the state of the retry loop between two rounds: the services that answered 404 so far (F) are counted
   once each and are not asked again; the services to ask next are those whose last answer was retryable *)
Definition Inv (servers : list nat) (c404 : nat) (log : list (nat * nat)) : Prop :=
  exists F, NoDup F /\ c404 = List.length F /\ incl F order /\
    (forall x, In x F <-> has404 (ans_of oracle log) x = true) /\
    (forall x, In x F -> ~ In x servers) /\ NoDup servers /\ incl servers order /\
    (forall s, In s order -> (In s servers <-> lastp (ans_of oracle log) s = true)).
Definition Seen (log : list (nat * nat)) : Prop := forall s, In s order -> last_of (ans_of oracle log) s <> None.

Lemma inv_step servers r expect c404 log c' rt' log' :
  Inv servers c404 log -> try_servers oracle servers r expect c404 [] log = (None, c', rt', log') ->
  Inv rt' c' log' /\ (forall s, In s servers -> last_of (ans_of oracle log') s <> None) /\
  (forall s, last_of (ans_of oracle log) s <> None -> last_of (ans_of oracle log') s <> None).
Proof.
  intros (F & HF & Hc & HFo & HF4 & HFs & Hs & Hso & Hlast) E. apply ts_none in E. destruct E as (-> & -> & ->).
  unfold Inv. cbn [app]. rewrite ans_of_app, ans_of_round.
  assert (Hl : forall s, last_of (ans_of oracle log ++ map (fun x => (x, oracle x r)) servers) s =
                          if existsb (Nat.eqb s) servers then Some (oracle s r) else last_of (ans_of oracle log) s).
  { intros s. rewrite last_of_app, (last_of_map (fun x => oracle x r)). destruct (existsb (Nat.eqb s) servers); reflexivity. }
  split; [|split].
  - exists (F ++ filter (fun x => is404b (oracle x r)) servers). repeat match goal with |- _ /\ _ => split end.
    + apply NoDup_app_mine; [exact HF|apply NoDup_filter; exact Hs|]. intros x Hx Hx'. apply filter_In in Hx'. apply (HFs x Hx). tauto.
    + rewrite app_length. subst c404. reflexivity.
    + intros x Hx. apply in_app_or in Hx. destruct Hx as [Hx|Hx]; [apply HFo; exact Hx|]. apply filter_In in Hx. apply Hso. tauto.
    + intros x. rewrite has404_app, orb_true_iff, in_app_iff, filter_In, (has404_map (fun x => oracle x r)). rewrite HF4. tauto.
    + intros x Hx Hx'. apply filter_In in Hx'. destruct Hx' as [Hx1 Hx2]. apply in_app_or in Hx. destruct Hx as [Hx|Hx].
      * apply (HFs x Hx Hx1).
      * apply filter_In in Hx. destruct Hx as [_ Hx]. apply retry_not_404 in Hx2. congruence.
    + apply NoDup_filter. exact Hs.
    + intros x Hx. apply filter_In in Hx. apply Hso. tauto.
    + intros s Hin. unfold lastp. rewrite Hl, filter_In. destruct (existsb (Nat.eqb s) servers) eqn:Em.
      * apply mem_In in Em. tauto.
      * assert (Hn : ~ In s servers) by (intros X; apply mem_In in X; congruence).
        pose proof (Hlast s Hin) as [_ B]. unfold lastp in B. split; [tauto|]. intros X. exfalso. apply Hn. apply B. exact X.
  - intros s Hin. rewrite Hl. apply mem_In in Hin. rewrite Hin. discriminate.
  - intros s Hn. rewrite Hl. destruct (existsb (Nat.eqb s) servers); [discriminate|exact Hn].
Qed.

Lemma inv_has404_F servers c404 log :
  Inv servers c404 log -> (forall s, In s order -> has404 (ans_of oracle log) s = true) -> c404 = List.length order.
Proof.
  intros (F & HF & Hc & HFo & HF4 & _) Hall. subst c404. apply Nat.le_antisymm.
  - apply NoDup_incl_length; assumption.
  - apply NoDup_incl_length; [exact Hnd|]. intros s Hs. apply HF4. apply Hall. exact Hs.
Qed.

(* the loop, from any state between two rounds *)
Lemma get_rounds_class expect tries : forall round servers c404 log,
  Inv servers c404 log -> (Seen log \/ (tries <> 0 /\ servers = order)) ->
  match g_res (get_rounds oracle tries round servers (List.length order) expect c404 log) with
  | GErr e => class_okb order (ans_of oracle (g_log (get_rounds oracle tries round servers (List.length order) expect c404 log))) e = true
  | _ => all_last_404 order (ans_of oracle (g_log (get_rounds oracle tries round servers (List.length order) expect c404 log))) = false
  end.
Proof.
  induction tries as [|t IH]; intros round servers c404 log HI HP; cbn [get_rounds].
  - destruct HP as [HS|[X _]]; [|contradiction]. cbn [g_res g_log].
    assert (Hno : c404 <> List.length order -> all_last_404 order (ans_of oracle log) = false).
    { intros Hne. destruct (all_last_404 order (ans_of oracle log)) eqn:E; [|reflexivity]. exfalso. apply Hne.
      apply all404_spec in E. destruct E as [_ E]. apply (inv_has404_F servers _ log HI). intros s Hs. apply last404_has404. apply E. exact Hs. }
    destruct (Nat.eqb_spec c404 (List.length order)) as [Ec|Ec].
    + unfold class_okb. cbn [err_eqb]. rewrite orb_true_r, andb_true_r. apply forallb_forall. intros s Hs.
      destruct HI as (F & HF & Hc & HFo & HF4 & _). apply HF4.
      refine (NoDup_length_incl HF _ HFo s Hs). lia.
    + specialize (Hno Ec). destruct HI as (F & HF & Hc & HFo & HF4 & HFs & Hs & Hso & Hlast). destruct servers as [|x rest].
      * unfold class_okb. rewrite Hno. cbn [negb orb andb]. rewrite andb_true_r. apply negb_true_iff.
        destruct (existsb (last_retry (ans_of oracle log)) order) eqn:E; [|reflexivity]. exfalso.
        apply existsb_exists in E. destruct E as (s & Hin & E). apply (Hlast s Hin).
        unfold lastp. unfold last_retry in E. destruct (last_of (ans_of oracle log) s); [exact E|reflexivity].
      * unfold class_okb. rewrite Hno. cbn [negb orb andb]. rewrite andb_true_r. apply existsb_exists.
        exists x. assert (Hx : In x order) by (apply Hso; left; reflexivity). split; [exact Hx|].
        pose proof (proj1 (Hlast x Hx) (or_introl eq_refl)) as L. unfold lastp in L. unfold last_retry.
        destruct (last_of (ans_of oracle log) x) eqn:El; [exact L|]. exfalso. apply (HS x Hx). exact El.
  - destruct (try_servers oracle servers round expect c404 [] log) as [[[res c'] rt'] log'] eqn:Et. destruct res as [res|].
    + cbn [g_res g_log]. pose proof Et as Et0. apply ts_some in Et. destruct Et as (pre & x & d & b & c & -> & Hin & Ho).
      assert (Hx : In x order) by (destruct HI as (F & _ & _ & _ & _ & _ & _ & Hso & _); apply Hso; exact Hin).
      assert (Hall : all_last_404 order (ans_of oracle (log ++ map (fun x0 => (x0, round)) pre ++ [(x, round)])) = false).
      { apply (all404_false _ _ x Hx). unfold last404. rewrite app_assoc, ans_of_app, last_of_app. cbn [ans_of map last_of fst snd].
        rewrite Nat.eqb_refl, Ho. reflexivity. }
      destruct res as [? ? ? ?| |e]; try exact Hall.
      apply try_servers_err in Et0. apply class_other; try exact Hall; destruct Et0 as [-> | ->]; discriminate.
    + destruct (inv_step servers round expect c404 log c' rt' log' HI Et) as (HI' & Hseen & Hmono).
      apply IH; [exact HI'|]. left. intros s Hs. destruct HP as [HS|[_ ->]]; [apply Hmono; apply HS; exact Hs|apply Hseen; exact Hs].
Qed.
End O.
End G.

(* one call of getOrHead("GET"): a failure is classified as the clause says; an answer (or the empty-block short
   cut) never leaves "every service's last answer was a 404" *)
Lemma get_or_head_class oracle retries order loc :
  NoDup order ->
  match g_res (get_or_head oracle retries order loc) with
  | GErr e => class_okb order (ans_of oracle (g_log (get_or_head oracle retries order loc))) e = true
  | _ => all_last_404 order (ans_of oracle (g_log (get_or_head oracle retries order loc))) = false
  end.
Proof.
  intros Hnd. unfold get_or_head. destruct (empty_block_loc loc); [cbn [g_res g_log ans_of map]; apply all404_nil|].
  apply get_rounds_class; [exact Hnd| |right; split; [discriminate|reflexivity]].
  exists []. split; [constructor|]. split; [reflexivity|]. split; [intros x []|]. split; [intros x; cbn; split; [intros []|discriminate]|].
  split; [intros x []|]. split; [exact Hnd|]. split; [apply incl_refl|]. intros s Hs. cbn. tauto.
Qed.

(* ------------------------------------------------------------------ the session machine *)
Section S.
Variable i : cin.
Let H := H_of i.

Definition seg_of (st : cst) (b : nat) (lg : list (nat * nat)) : list (nat * nat * nat) :=
  map (fun p => (b, fst p, count_log b (fst p) (cs_log st) + snd p)) lg.

Lemma answers_seg st b lg : answers i (seg_of st b lg) = ans_of (oracle_at i st b) lg.
Proof. unfold answers, seg_of, ans_of. rewrite map_map. apply map_ext. intros [x r]. reflexivity. Qed.

Lemma do_get_class st b :
  NoDup (b_order (blk_of i b)) ->
  cs_log (snd (do_get i st b)) = cs_log st ++ seg_of st b (g_log (fst (do_get i st b))) /\
  cs_cache (snd (do_get i st b)) = cs_cache st /\
  match g_res (fst (do_get i st b)) with
  | GErr e => class_okb (b_order (blk_of i b)) (answers i (seg_of st b (g_log (fst (do_get i st b))))) e = true
  | _ => all_last_404 (b_order (blk_of i b)) (answers i (seg_of st b (g_log (fst (do_get i st b))))) = false
  end.
Proof.
  intros Hnd. unfold do_get. cbn [fst snd cs_log cs_cache]. split; [reflexivity|]. split; [reflexivity|].
  rewrite answers_seg. apply get_or_head_class. exact Hnd.
Qed.

Lemma do_get_log st b : cs_log (snd (do_get i st b)) = cs_log st ++ seg_of st b (g_log (fst (do_get i st b))).
Proof. reflexivity. Qed.

Lemma class_ok_intro order al e : (NoDup order -> class_okb order al e = true) -> class_ok order al e = true.
Proof.
  intros X. unfold class_ok. destruct (nodupb order) eqn:E; [|reflexivity]. cbn [negb orb]. apply X. apply nodupb_NoDup. exact E.
Qed.

(* errors of a reader handed out by Get are never one of the three not-found classes *)
Lemma fetch_ok_err loc x rd size s e :
  fetch_entry H loc (GOk x rd size s) = EErr e -> e <> ENotFound /\ e <> ETemp /\ e <> EPerm.
Proof.
  unfold fetch_entry. fold (fresh s (loc_hash loc)).
  destruct (hcr_read_full H (fresh s (loc_hash loc)) size) as [[d e1] r'] eqn:Er.
  destruct (read_full_err i _ _ _ _ _ _ Er) as [X|[X|[X|[X|(X & _)]]]]; subst e1.
  - destruct (close_err i r') as [X|[X|[X|X]]]; fold H in X; rewrite X; [discriminate|intros [= <-]|intros [= <-]|intros [= <-]]; repeat split; discriminate.
  - intros [= <-]. repeat split; discriminate.
  - intros [= <-]. repeat split; discriminate.
  - intros [= <-]. repeat split; discriminate.
  - intros [= <-]. repeat split; discriminate.
Qed.

Lemma read_at_class st b k off :
  exists seg, cs_log (snd (read_at i st b k off)) = cs_log st ++ seg /\
              class_ok (b_order (blk_of i b)) (answers i seg) (snd (fst (read_at i st b k off))) = true.
Proof.
  unfold read_at, cache_get.
  assert (Hhit : forall d, exists seg, cs_log st = cs_log st ++ seg /\
            class_ok (b_order (blk_of i b)) (answers i seg) (snd (entry_read_at (EData d) k off)) = true).
  { intros d. exists []. split; [rewrite app_nil_r; reflexivity|]. apply class_ok_intro. intros _.
    apply class_other; try apply all404_nil; unfold entry_read_at; destruct (slen d <? off); discriminate. }
  assert (Hmiss : exists seg, cs_log (snd (do_get i st b)) = cs_log st ++ seg /\
            class_ok (b_order (blk_of i b)) (answers i seg)
              (snd (entry_read_at (fetch_entry H (b_loc (blk_of i b)) (g_res (fst (do_get i st b)))) k off)) = true).
  { exists (seg_of st b (g_log (fst (do_get i st b)))). split; [apply do_get_log|]. apply class_ok_intro. intros Hnd.
    destruct (do_get_class st b Hnd) as (_ & _ & Hc). destruct (g_res (fst (do_get i st b))) as [x rd size s| |e] eqn:Eg.
    - destruct (fetch_entry H (b_loc (blk_of i b)) (GOk x rd size s)) as [d|e] eqn:Ef.
      + apply class_other; try exact Hc; unfold entry_read_at; destruct (slen d <? off); discriminate.
      + destruct (fetch_ok_err _ _ _ _ _ _ Ef) as (A & B & C). cbn [entry_read_at snd]. apply class_other; assumption.
    - cbn [fetch_entry]. apply class_other; try exact Hc; unfold entry_read_at; destruct (slen "" <? off); discriminate.
    - cbn [fetch_entry entry_read_at snd]. exact Hc. }
  fold H. destruct (lookup (cs_cache st) (loc_hash (b_loc (blk_of i b)))) as [[d|e0]|].
  - cbn [fst snd]. apply Hhit.
  - destruct (do_get i st b) as [g st'] eqn:Eg. cbn [fst snd cs_log] in *. exact Hmiss.
  - destruct (do_get i st b) as [g st'] eqn:Eg. cbn [fst snd cs_log] in *. exact Hmiss.
Qed.

Lemma cache_get_log st b : exists seg, cs_log (snd (cache_get i st b)) = cs_log st ++ seg.
Proof.
  unfold cache_get. destruct (lookup (cs_cache st) (loc_hash (b_loc (blk_of i b)))) as [[d|e0]|].
  - exists []. rewrite app_nil_r. reflexivity.
  - pose proof (do_get_log st b) as L. destruct (do_get i st b) as [g st']. cbn [fst snd cs_log] in *. eexists. exact L.
  - pose proof (do_get_log st b) as L. destruct (do_get i st b) as [g st']. cbn [fst snd cs_log] in *. eexists. exact L.
Qed.

Lemma file_read_log segs : forall st off acc, exists seg, cs_log (snd (file_read i st segs off acc)) = cs_log st ++ seg.
Proof.
  induction segs as [|[[b o] l] rest IH]; intros st off acc; cbn [file_read].
  - exists []. rewrite app_nil_r. reflexivity.
  - destruct (l <=? off); [apply IH|].
    destruct (cache_get_log st b) as (s1 & L1). destruct (cache_get i st b) as [e st']. cbn [snd] in L1.
    destruct (seg_read_at (entry_read_at e) _ (l - off) off) as [bytes er].
    assert (Hst : exists seg, cs_log st' = cs_log st ++ seg) by (exists s1; exact L1).
    assert (Hrec : forall acc', exists seg, cs_log (snd (file_read i st' rest 0 acc')) = cs_log st ++ seg).
    { intros acc'. destruct (IH st' 0 acc') as (s2 & L2). exists (s1 ++ s2). rewrite L2, L1, app_assoc. reflexivity. }
    destruct er; try exact Hst; (destruct (slen bytes =? l - off); [apply Hrec|exact Hst]).
Qed.

Lemma use_reader_gerr g loc m :
  match use_reader i g loc m with
  | RGet e _ _ _ _ _ => e = match g with GErr x => x | _ => ENil end
  | _ => False
  end.
Proof.
  unfold use_reader. destruct g as [x rd size s| |e]; [|destruct m as [|[|k]| |]; reflexivity|reflexivity].
  destruct m as [|k| |].
  - destruct (hcr_read_all _ _) as [bb e]. reflexivity.
  - destruct (hcr_read_full _ _ k) as [[bb e] r']. reflexivity.
  - destruct (hcr_write_to _ _) as [bb e]. reflexivity.
  - reflexivity.
Qed.

Lemma do_op_err st o :
  exists seg, cs_log (snd (do_op i st o)) = cs_log st ++ seg /\ err_ok i o (fst (do_op i st o)) seg = true.
Proof.
  destruct o as [b m|b n off|k b n off|segs off]; cbn [do_op].
  - exists (seg_of st b (g_log (fst (do_get i st b)))).
    pose proof (do_get_log st b) as L. pose proof (do_get_class st b) as C.
    destruct (do_get i st b) as [g st'] eqn:Eg. cbn [fst snd] in *. split; [exact L|].
    pose proof (use_reader_gerr (g_res g) (b_loc (blk_of i b)) m) as U.
    destruct (use_reader i (g_res g) (b_loc (blk_of i b)) m) as [e size srv bytes rerr cerr| | |]; try contradiction.
    cbn [err_ok]. apply class_ok_intro. intros Hnd. destruct (C Hnd) as (_ & _ & Hc). subst e.
    destruct (g_res g) as [x rd size' s| |e']; [| |exact Hc]; apply class_other; try exact Hc; discriminate.
  - destruct (read_at_class st b n off) as (seg & L & C). exists seg.
    destruct (read_at i st b n off) as [r st']. cbn [fst snd] in *. split; [exact L|exact C].
  - destruct (read_at_class st b n off) as (seg & L & C). exists seg.
    destruct (read_at i st b n off) as [r st']. cbn [fst snd] in *. split; [exact L|].
    cbn [err_ok]. apply forallb_forall. intros r' Hr. apply repeat_spec in Hr. subst r'. exact C.
  - destruct (file_read_log segs st off EmptyString) as (seg & L). exists seg.
    destruct (file_read i st segs off "") as [r st']. cbn [fst snd] in *. split; [exact L|reflexivity].
Qed.

Lemma do_ops_err ops : forall st,
  exists L, cs_log (snd (do_ops i st ops)) = cs_log st ++ L /\
            ops_err_ok i ops (fst (do_ops i st ops)) (do_ops_n i st ops) L = true.
Proof.
  induction ops as [|o ops IH]; intros st; cbn [do_ops do_ops_n].
  - exists []. cbn. rewrite app_nil_r. auto.
  - destruct (do_op_err st o) as (seg & L1 & C1). destruct (do_op i st o) as [x st1]. cbn [fst snd] in *.
    destruct (IH st1) as (L' & L2 & C2). destruct (do_ops i st1 ops) as [xs st2]. cbn [fst snd] in *.
    exists (seg ++ L'). split; [rewrite L2, L1, app_assoc; reflexivity|]. cbn [ops_err_ok].
    assert (En : List.length (cs_log st1) - List.length (cs_log st) = List.length seg) by (rewrite L1, app_length; lia).
    rewrite En, firstn_exact, skipn_exact, C1, C2. reflexivity.
Qed.

(* Whatever the blocks, scripts and operations are: every failed read of the model's run carries the error class
   that the answers to its own requests dictate. *)
Theorem model_errclass_ok :
  ops_err_ok i (i_ops i) (fst (run_model i)) (run_nreq i) (cs_log (snd (run_model i))) = true.
Proof.
  unfold run_model, run_nreq. destruct (do_ops_err (i_ops i) {| cs_cache := []; cs_log := [] |}) as (L & E1 & E2).
  cbn [cs_log app] in E1. rewrite E1. exact E2.
Qed.
End S.
