(* C07 — SignManifest: whitespace, stream names, file tokens and non-signature hints are unchanged;
   every block token loses its +A fields and gets exactly one new signature, which verifies. *)
From Coq Require Import NArith List Ascii String Bool Lia Arith.
From AV Require Import lib.Str lib.Sha1 lib.TokSplit lib.HexNum lib.Sha1Facts model.C07_model model.C07_run
     proofs.C07_msg proofs.C07_parse proofs.C07_verify.
Import ListNotations.
Local Open Scope string_scope.

Definition render (g : string -> string) (cs : list (bool * string)) : string :=
  concat_s (map (fun ch : bool * string => if fst ch then g (snd ch) else snd ch) cs).

Definition kind_of (c : ascii) : bool := negb (is_ws c).

(* ---- chunks: the maximal runs of blank / non-blank characters ---- *)
Lemma chunks_cons c r :
  chunks (String c r) =
  match chunks r with
  | (k', t) :: rest => if Bool.eqb (kind_of c) k' then (kind_of c, String c t) :: rest
                       else (kind_of c, String c "") :: (k', t) :: rest
  | [] => [(kind_of c, String c "")]
  end.
Proof. reflexivity. Qed.

Lemma chunks_concat m : concat_s (map snd (chunks m)) = m.
Proof.
  induction m as [|c r IH]; [reflexivity|]. rewrite chunks_cons.
  destruct (chunks r) as [|[k' t] rest].
  - cbn in *. rewrite <- IH. reflexivity.
  - destruct (Bool.eqb (kind_of c) k'); cbn [map snd concat_s append] in *; rewrite IH; reflexivity.
Qed.

Lemma chunks_nonempty m : Forall (fun ch => snd ch <> "") (chunks m).
Proof.
  induction m as [|c r IH]; [constructor|]. rewrite chunks_cons.
  destruct (chunks r) as [|[k' t] rest]; [repeat constructor; discriminate|].
  inversion IH; subst. destruct (Bool.eqb (kind_of c) k'); repeat constructor; try discriminate; assumption.
Qed.

(* every character of a chunk has the chunk's kind *)
Lemma chunks_kind m : Forall (fun ch => all_chars (fun c => Bool.eqb (kind_of c) (fst ch)) (snd ch) = true) (chunks m).
Proof.
  induction m as [|c r IH]; [constructor|]. rewrite chunks_cons.
  destruct (chunks r) as [|[k' t] rest].
  - repeat constructor. cbn. rewrite Bool.eqb_reflx. reflexivity.
  - inversion IH as [|? ? Hh Ht]; subst. destruct (Bool.eqb (kind_of c) k') eqn:E.
    + apply Bool.eqb_prop in E. subst k'. constructor; [|exact Ht]. cbn [fst snd all_chars] in *. rewrite Bool.eqb_reflx, Hh. reflexivity.
    + constructor; [cbn; rewrite Bool.eqb_reflx; reflexivity|]. constructor; assumption.
Qed.

(* neighbouring chunks are of different kinds: the runs are maximal *)
Fixpoint alternating (cs : list (bool * string)) : Prop :=
  match cs with
  | a :: ((b :: _) as r) => fst a <> fst b /\ alternating r
  | _ => True
  end.
Lemma chunks_alternating m : alternating (chunks m).
Proof.
  induction m as [|c r IH]; [exact I|]. rewrite chunks_cons.
  destruct (chunks r) as [|[k' t] rest] eqn:E; [exact I|].
  destruct (Bool.eqb (kind_of c) k') eqn:Ek.
  - apply Bool.eqb_prop in Ek. subst k'. destruct rest as [|b rest']; [exact I|]. cbn [alternating fst] in *. exact IH.
  - cbn [alternating fst]. split; [|exact IH]. intro H. rewrite H, Bool.eqb_reflx in Ek. discriminate.
Qed.

(* ---- the scanning model against the chunk view ---- *)
Lemma flush_nonempty f t : t <> "" -> flush f t = f t.
Proof. destruct t; [contradiction|reflexivity]. Qed.

Lemma sm_scan_chunks f m :
  sm_scan f m = match chunks m with
                | (true, s) :: rest => (s, render f rest)
                | cs => ("", render f cs)
                end.
Proof.
  induction m as [|c r IH]; [reflexivity|]. cbn [sm_scan]. rewrite IH, chunks_cons. clear IH.
  pose proof (chunks_nonempty r) as Hne. unfold kind_of.
  destruct (chunks r) as [|[k' t] rest].
  - destruct (is_ws c); reflexivity.
  - inversion Hne as [|? ? Ht _]; subst. cbn [snd] in Ht.
    destruct k', (is_ws c); cbn [negb Bool.eqb fst snd]; unfold render; cbn [map concat_s fst snd append];
      try rewrite (flush_nonempty f t Ht); reflexivity.
Qed.

Theorem map_tokens_chunks f m : map_tokens f m = render f (chunks m).
Proof.
  unfold map_tokens. rewrite sm_scan_chunks. pose proof (chunks_nonempty m) as Hne.
  destruct (chunks m) as [|[[|] s] rest]; try reflexivity.
  inversion Hne as [|? ? Hs _]; subst. cbn [snd] in Hs. rewrite (flush_nonempty f s Hs). reflexivity.
Qed.

(* SignManifest rewrites the manifest chunk by chunk: blank runs are copied, tokens go through sign_tok *)
Theorem sign_manifest_chunks m tokn exp ttl key :
  sign_manifest m tokn exp ttl key = render (sign_tok_k make_sig tokn exp ttl key) (chunks m).
Proof. apply map_tokens_chunks. Qed.

Theorem sign_manifest_shape m tokn exp ttl key :
  sign_manifest m tokn exp ttl key =
    concat_s (map (fun ch : bool * string => if fst ch then sign_tok_k make_sig tokn exp ttl key (snd ch) else snd ch) (chunks m)) /\
  concat_s (map snd (chunks m)) = m /\
  Forall (fun ch => snd ch <> "" /\ all_chars (fun c => Bool.eqb (negb (is_ws c)) (fst ch)) (snd ch) = true) (chunks m) /\
  alternating (chunks m).
Proof.
  split; [apply sign_manifest_chunks|]. split; [apply chunks_concat|]. split; [|apply chunks_alternating].
  apply Forall_forall. intros ch Hin. split.
  - exact (proj1 (Forall_forall _ _) (chunks_nonempty m) ch Hin).
  - exact (proj1 (Forall_forall _ _) (chunks_kind m) ch Hin).
Qed.

(* ---- one token ---- *)
Lemma not_blk_unchanged tokn exp ttl key t : is_blk t = false -> sign_tok_k make_sig tokn exp ttl key t = t.
Proof. unfold sign_tok_k. intros ->. reflexivity. Qed.

Lemma nonA_fields_eq t : nonA_fields t = match split_on "+" t with f0 :: fs => f0 :: filter (fun f => negb (is_Afield f)) fs | [] => [] end.
Proof. reflexivity. Qed.

Lemma nonA_fields_nosep t : Forall (fun f => has_char "+" f = false) (nonA_fields t).
Proof.
  unfold nonA_fields. pose proof (split_fields_nosep "+" t) as H. destruct (split_on "+" t) as [|f0 fs]; [constructor|].
  inversion H; subst. constructor; [assumption|]. apply Forall_forall. intros x Hx. apply filter_In in Hx.
  destruct Hx as [Hx _]. rewrite Forall_forall in H3. apply H3, Hx.
Qed.
Lemma nonA_fields_nonnil t : nonA_fields t <> [].
Proof. unfold nonA_fields. pose proof (split_on_nonnil "+" t). destruct (split_on "+" t); [contradiction|discriminate]. Qed.

Lemma strip_sigs_join t : strip_sigs t = join "+" (nonA_fields t).
Proof. unfold strip_sigs, nonA_fields. pose proof (split_on_nonnil "+" t). destruct (split_on "+" t); [contradiction|reflexivity]. Qed.

(* stripping removes exactly the fields that start with A (never the first field), keeps the others in order *)
Theorem strip_sigs_fields t : split_on "+" (strip_sigs t) = nonA_fields t.
Proof. rewrite strip_sigs_join. apply split_join; [apply nonA_fields_nonnil|apply nonA_fields_nosep]. Qed.

Lemma join_snoc l x : l <> [] -> join "+" (l ++ [x]) = join "+" l ++ "+" ++ x.
Proof.
  induction l as [|a r IH]; [contradiction|]. intros _. destruct r as [|b r].
  - reflexivity.
  - change ((a :: b :: r) ++ [x])%list with (a :: ((b :: r) ++ [x]))%list.
    change ((b :: r) ++ [x])%list with (b :: (r ++ [x]))%list. rewrite join_cons.
    change (b :: (r ++ [x]))%list with ((b :: r) ++ [x])%list. rewrite IH by discriminate.
    rewrite join_cons. cbn [append]. rewrite !app_assoc_s. reflexivity.
Qed.

(* a block token after signing: its non-A fields in their order, then exactly one new A field *)
Theorem sign_tok_fields tokn exp ttl key t :
  is_blk t = true -> key <> "" -> tokn <> "" ->
  let e := hex08 exp in
  let sg := make_sig key (hd "" (nonA_fields t)) tokn e (ttl_hex ttl) in
  split_on "+" (sign_tok_k make_sig tokn exp ttl key t) = (nonA_fields t ++ [("A" ++ sg ++ "@" ++ e)%string])%list /\
  Forall (fun f => is_Afield f = false) (tl (nonA_fields t)).
Proof.
  intros Hb Hk Ht e sg. split.
  - unfold sign_tok_k. rewrite Hb. fold (sign_locator (strip_sigs t) tokn exp ttl key).
    rewrite sign_locator_unfold by assumption. unfold blob_hash. rewrite strip_sigs_fields.
    fold e. fold sg. rewrite strip_sigs_join.
    change ("+A" ++ sg ++ "@" ++ e) with ("+" ++ ("A" ++ sg ++ "@" ++ e)).
    rewrite <- join_snoc by apply nonA_fields_nonnil. apply split_join.
    + intro H. apply app_eq_nil in H. destruct H; discriminate.
    + apply Forall_app. split; [apply nonA_fields_nosep|]. constructor; [|constructor].
      cbn [append has_char]. rewrite has_char_app. cbn [has_char].
      destruct (sig_xdigits40 key (hd "" (nonA_fields t)) tokn e (ttl_hex ttl)) as [_ Xs]. fold sg in Xs.
      rewrite (xdigit_no_plus _ Xs). unfold e.
      rewrite (xdigit_no_plus _ (all_chars_weaken _ _ _ lhex_xdigit (hex08_lhex exp))). reflexivity.
  - unfold nonA_fields. destruct (split_on "+" t) as [|f0 fs]; [constructor|]. cbn [tl].
    apply Forall_forall. intros x Hx. apply filter_In in Hx. destruct Hx as [_ Hx]. apply negb_true_iff, Hx.
Qed.

(* without key or token the signatures are only removed *)
Theorem sign_tok_no_key tokn exp ttl key t :
  is_blk t = true -> key = "" \/ tokn = "" -> sign_tok_k make_sig tokn exp ttl key t = strip_sigs t.
Proof.
  intros Hb H. unfold sign_tok_k, sign_locator_k. rewrite Hb.
  destruct H as [->| ->]; [reflexivity|]. rewrite orb_true_r. reflexivity.
Qed.

(* the new signature verifies whenever what is left of the token is a well-formed unsigned locator *)
Theorem sign_tok_verifies tokn exp ttl key t h now :
  is_blk t = true -> key <> "" -> tokn <> "" -> unsigned_shape (strip_sigs t) h ->
  (exp < 4294967296)%N -> (now <= exp * 1000000000)%N ->
  verify (sign_tok_k make_sig tokn exp ttl key t) tokn ttl key now = VOk.
Proof.
  intros Hb Hk Ht Hu He Hn. unfold sign_tok_k. rewrite Hb. fold (sign_locator (strip_sigs t) tokn exp ttl key).
  eapply sign_then_verify; eassumption.
Qed.

