import os
import threading
from concurrent.futures import ThreadPoolExecutor

from .props import HDR, standard

# Teeth test only: VERIF_C05_BALANCE_GO=<scratch copy of balance.go> is supplied to the build through the
# overlay instead of /repo/services/keep-balance/balance.go (nothing in /repo is touched).


def run(ctx):
    n = {"quick": 2000, "thorough": 40000}[ctx.tier]
    nx = {"quick": 3000, "thorough": 10 ** 9}[ctx.tier]   # thorough: the whole enumeration (~132 000 layouts)
    nseq = {"quick": 120, "thorough": 4000}[ctx.tier]     # sequences of 2-4 runs of one keep-balance process against a stub cluster
    ncoll = {"quick": 600, "thorough": 30000}[ctx.tier]  # blocks whose Desired is derived from collections by the real code
    rep = os.environ.get("VERIF_C05_BALANCE_GO")
    replace = {"services/keep-balance/balance.go": rep} if rep else None

    # all four stages live in one package and use the same overlay (one compilation of the test binary); the Go
    # harnesses run one after the other, the Coq evaluation of a stage overlaps with the next harness
    files = ["C05/zz_verif_c05_test.go", "C05/zz_verif_c05_cluster_test.go", "C06/zz_verif_c06_page_test.go"]
    go_lock = threading.Lock()
    plain_go_test = ctx.go_test

    def locked_go_test(*a, **kw):
        with go_lock:
            return plain_go_test(*a, **kw)
    ctx.go_test = locked_go_test

    def stages(ctx, mult, suffix, off):
        q = ctx.tier == "quick"
        hdr = HDR.format(imports="model.C05_model model.C05_run")
        hdr2 = HDR.format(imports="model.C06_model model.C05_model model.C05_run model.C05_desired model.C05_sweeps model.C05_run2")

        def stage(name, test, count, header, shard):
            return ctx.stage(name + suffix, "services/keep-balance", "main", files, test, count * mult, header, seed_offset=off,
                             shard=shard, env={"VERIF_STAGE": name + suffix}, timeout=1500, replace=replace)
        jobs = [
            # sequences of runs of one keep-balance process against the stub cluster (cases are CSeq terms)
            lambda: stage("c05seq", "TestVerifC05Seq$", nseq, hdr2, 30 if q else 100),
            # Desired derived from collections by the real addCollection, change sets by ComputeChangeSets (CColl terms)
            lambda: stage("c05coll", "TestVerifC05Coll$", ncoll, hdr2, 200 if q else 2500),
            lambda: stage("c05", "TestVerifC05$", n, hdr, 500 if q else 2500),
            lambda: stage("c05x", "TestVerifC05X$", nx, hdr, 500 if q else 2500),
        ]
        only = [x for x in os.environ.get("VERIF_C05_STAGES", "").split(",") if x]   # debugging aid: subset of seq,coll,c05,x
        if only:
            jobs = [j for j, nm in zip(jobs, ["seq", "coll", "c05", "x"]) if nm in only]
        with ThreadPoolExecutor(max_workers=4) as ex:
            for f in [ex.submit(j) for j in jobs]:
                f.result()
        ctx.stages.sort(key=lambda st: st.name)
    # F1, F10, F12, F8 are repaired in /repo: no known-finding bit is accepted, any such case is a violation
    return standard(ctx, "C05", ["model/C05_run.vo", "model/C05_run2.vo"], stages, known_bits={},
                    rule="layouts generated in 7 strata (general; shared device x empty better-ranked slot; one class twice on a server x "
                         "non-member mount elsewhere; desired class without mount; all read-only; comparator ties; no replica) plus the "
                         "enumeration of two small scopes (X1: 1-4 single-mount services, replica state x Replication x one shared pair x "
                         "desired 1-3; X2: 2 services x 1-2 mounts, two classes, RO flags) - complete in the thorough tier, strided sample in "
                         "quick; distinct by hash of the case term; non-trivial = at least 2 mounts after cleanupMounts and (some desired>0 "
                         "or some replica); c05coll: the same layout strata with Desired derived by the real addCollection/IncreaseDesired from 0-4 "
                         "collections (0-3 storage classes each in any order, repeated, or offered by no mount; replication_desired null or 0-4; "
                         "some collections referencing only another block), block size hints +0 (also the empty block under its real name), +1, +3, +67108864, "
                         "two more strata (no replica; all read-only), and the change sets computed by ComputeChangeSets, lost read from the lost-blocks report (non-trivial: also >= 1 "
                         "referencing collection); c05seq: 2-4 runs of one keep-balance process (Server.runOnce) against a stub cluster of 3-5 "
                         "services (read-only mounts/services, shared and blank devices, classes, 2-4 blocks with varying size hints of which 1/4 exist nowhere, 1-5 collections - in half of the sequences a run of one modified_at longer than the page), five strata (stable "
                         "service list with failing requests; changing service list; a failing ClearTrashLists PUT right after a change; random incl. "
                         "restarts; keepstores holding lists of an earlier process), one failing request per run chosen by kind and target, four "
                         "failure kinds (non-trivial = >= 2 runs and >= 1 complete committing run)",
                    assumptions=["rendezvous rank of the services and the rendezvousLess order of device ids are computed by the real code and passed to the model (C12 proves what the rank is)",
                                 "sort.Slice is modelled as a sort by the comparator; outputs are compared exactly only when the comparator has no ties, otherwise the observed output is judged by spec_b alone",
                                 "physical-device reading of a layout: devices = distinct non-blank DeviceIDs + one per blank-DeviceID mount, over the mounts that survive cleanupMounts",
                                 "c05seq: a keepstore keeps the last trash list it accepted until it accepts another one and may carry it out at any time (matching mount and mtime, old enough, writable); the stub carries a list out right after serving an index only when that list was accepted under another service list, and otherwise only on a copy of the cluster after a complete run (so nothing moves on a correct tree and no verdict depends on timing)",
                                 "c05seq: in a whole run the source of a Pull is the service of whichever index arrived first: the model is compared on trash lists, pull targets and the lost-blocks report, pull sources are judged by the specification only"])
