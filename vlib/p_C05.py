import os

from .props import HDR, standard

# Teeth test only: VERIF_C05_BALANCE_GO=<scratch copy of balance.go> is supplied to the build through the
# overlay instead of /repo/services/keep-balance/balance.go (nothing in /repo is touched).


def run(ctx):
    n = {"quick": 2000, "thorough": 40000}[ctx.tier]
    nx = {"quick": 3000, "thorough": 10 ** 9}[ctx.tier]   # thorough: the whole enumeration (~132 000 layouts)
    rep = os.environ.get("VERIF_C05_BALANCE_GO")
    replace = {"services/keep-balance/balance.go": rep} if rep else None

    def stages(ctx, mult, suffix, off):
        hdr = HDR.format(imports="model.C05_model model.C05_run")
        ctx.stage("c05" + suffix, "services/keep-balance", "main", ["C05/zz_verif_c05_test.go"], "TestVerifC05$",
                  n * mult, hdr, seed_offset=off, shard=500 if ctx.tier == "quick" else 2500,
                  env={"VERIF_STAGE": "c05" + suffix}, timeout=1500, replace=replace)
        ctx.stage("c05x" + suffix, "services/keep-balance", "main", ["C05/zz_verif_c05_test.go"], "TestVerifC05X$",
                  nx * mult, hdr, seed_offset=off, shard=500 if ctx.tier == "quick" else 2500,
                  env={"VERIF_STAGE": "c05x" + suffix}, timeout=1500, replace=replace)
    # F1, F10, F12, F8 are repaired in /repo: no known-finding bit is accepted, any such case is a violation
    return standard(ctx, "C05", ["model/C05_run.vo"], stages, known_bits={},
                    rule="layouts generated in 7 strata (general; shared device x empty better-ranked slot; one class twice on a server x "
                         "non-member mount elsewhere; desired class without mount; all read-only; comparator ties; no replica) plus the "
                         "enumeration of two small scopes (X1: 1-4 single-mount services, replica state x Replication x one shared pair x "
                         "desired 1-3; X2: 2 services x 1-2 mounts, two classes, RO flags) - complete in the thorough tier, strided sample in "
                         "quick; distinct by hash of the case term; non-trivial = at least 2 mounts after cleanupMounts and (some desired>0 "
                         "or some replica)",
                    assumptions=["rendezvous rank of the services and the rendezvousLess order of device ids are computed by the real code and passed to the model (C12 proves what the rank is)",
                                 "sort.Slice is modelled as a sort by the comparator; outputs are compared exactly only when the comparator has no ties, otherwise the observed output is judged by spec_b alone",
                                 "physical-device reading of a layout: devices = distinct non-blank DeviceIDs + one per blank-DeviceID mount, over the mounts that survive cleanupMounts"])
