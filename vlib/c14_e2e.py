"""End-to-end stage shared by C14 and C15 (real dispatcher against test.StubDriver).

The stage runs the dispatcher in-process.  Two robustness defects of the dispatcher (notes/C14.md, O2/O3:
nil map entry in Pool.reportSSHConnected when an instance disappears while a probe is connecting; a
remoteRunner closed twice) make the whole Go test process panic once in ~100 runs.  A panic of the code
under test is not a verdict about C14/C15, so the stage is repeated (other seed) up to three times and the
occurrence is recorded in the evidence."""
import re

from . import core
from .props import HDR

PANIC = re.compile(r"panic: (close of closed channel|runtime error: invalid memory address)")


def run_e2e(ctx, n, mode, big, seed_offset, replace, notes):
    st = None
    for attempt in range(3):
        st = ctx.stage("e2e", "lib/dispatchcloud", "dispatchcloud", ["C14/zz_verif_c14e2e_test.go"], "TestVerifC14E2E$",
                       n, HDR.format(imports="model.C14_e2e_run"), shard=1, seed_offset=seed_offset + 1000 * attempt,
                       env={"VERIF_STAGE": "e2e", "VERIF_E2EMODE": mode, "VERIF_BIG": "1" if big else "0"}, timeout=3000,
                       replace=replace)
        if st.errors and PANIC.search(st.errors[0]) and "lib/dispatchcloud/worker" in st.errors[0]:
            m = PANIC.search(st.errors[0])
            notes.append("e2e attempt %d: the dispatcher under test panicked (%s); repeated with another seed" % (attempt + 1, m.group(1)))
            core.log("%s: dispatcher panic in the e2e stage (%s), repeating" % (ctx.pid, m.group(1)))
            ctx.stages.remove(st)
            continue
        break
    return st
