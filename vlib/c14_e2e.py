"""End-to-end stage shared by C14 and C15 (real dispatcher against test.StubDriver).

The dispatcher runs inside the Go test process.  If the code under test panics (as it did before the
fixes F22 / F23: nil map entry in Pool.reportSSHConnected, remoteRunner closed twice) the test process
dies: that is reported as a failure of the check, with the trace in the replay file -- it is NOT retried."""
import re

from .props import HDR

PANIC = re.compile(r"panic: [^\n]*")


def run_e2e(ctx, n, mode, big, seed_offset, replace, notes):
    st = ctx.stage("e2e", "lib/dispatchcloud", "dispatchcloud", ["C14/zz_verif_c14e2e_test.go"], "TestVerifC14E2E$",
                   n, HDR.format(imports="model.C14_e2e_run"), shard=1, seed_offset=seed_offset,
                   env={"VERIF_STAGE": "e2e", "VERIF_E2EMODE": mode, "VERIF_BIG": "1" if big else "0"}, timeout=3000,
                   replace=replace)
    if st.errors:
        m = PANIC.search(st.errors[0])
        if m:
            notes.append("the dispatcher under test panicked in the e2e stage: %s (trace in the replay file)" % m.group(0))
            st.errors[0] = "DISPATCHER PANIC (observed behaviour: the dispatcher process crashed; C15: it must keep running): " + st.errors[0]
    return st
