import os

from . import core
from .props import HDR, standard


def _gen(ctx, gopkg):
    """instantiate the shared token generator for one package; returns the path of the generated file"""
    os.makedirs(ctx.ovdir, exist_ok=True)
    src = open(os.path.join(core.VERIF, "harness", "C19", "c19gen.go.tmpl")).read().replace("PKGNAME", gopkg)
    p = os.path.join(ctx.ovdir, "c19gen_%s.go" % gopkg)
    open(p, "w").write(src)
    return p


def run(ctx):
    q = ctx.tier == "quick"
    n_salt, n_prov, n_leg, n_ks = (600, 450, 450, 150) if q else (12000, 7500, 7500, 2500)
    hdr = HDR.format(imports="lib.TokSplit model.C19_model model.C19_run")

    def stages(ctx, mult, suffix, off):
        def st(name, pkg, gopkg, f, test, n, pam=False, shard=50):
            ctx.stage(name + suffix, pkg, gopkg, ["C19/" + f], test, n * mult, hdr, seed_offset=off, shard=shard, pam=pam,
                      replace={pkg + "/zz_verif_c19gen_test.go": _gen(ctx, gopkg)}, env={"VERIF_STAGE": name + suffix})
        st("c19salt", "sdk/go/auth", "auth", "zz_verif_c19salt_test.go", "TestVerifC19Salt$", n_salt, shard=100)
        st("c19prov", "lib/controller/federation", "federation", "zz_verif_c19prov_test.go", "TestVerifC19Prov$", n_prov, pam=True)
        st("c19legacy", "lib/controller", "controller", "zz_verif_c19legacy_test.go", "TestVerifC19Legacy$", n_leg, pam=True)
        st("c19ks", "services/keepstore", "main", "zz_verif_c19ks_test.go", "TestVerifC19KS$", n_ks, shard=75)
    return standard(ctx, "C19", ["model/C19_run.vo"], stages, known_bits={4: "F6b", 8: "F6b"},
                    rule="token strings of every shape (v2 with secrets of length 0-60 incl. every length 38-42 hex and non-hex, extra path "
                         "segments, malformed v2, legacy 41+ characters, near-legacy, JWT-like, random bytes) x remote ids; provider with 0-4 "
                         "tokens and a stub local backend (401 / error / resolved to the remote's or another cluster's uuid); legacy "
                         "saltAuthToken with tokens in every subset of {Bearer/OAuth2/Basic header, query, form body, cookie}; keepstore "
                         "remoteClient; distinct by hash of the case term; non-trivial = SaltToken/remoteClient case, provider call with "
                         "credentials and at least one token, legacy request carrying at least one unsalted v2 secret",
                    assumptions=["HMAC-SHA1 is computed by the Gallina implementation lib/Sha1.v (validated by this correspondence)",
                                 "legacy saltAuthToken is run with the database unreachable: a first token that needs a database lookup makes it fail",
                                 "non-disclosure is judged by substring search for secrets of 41-60 characters unique to the case, in every reading "
                                 "(raw, URL-unescaped, base64-decoded) of the outgoing request's parts"])
