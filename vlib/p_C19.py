import os

from . import core
from .props import HDR, standard


def _gen(ctx, gopkg):
    """instantiate the shared token generator for one package; returns the path of the generated file"""
    os.makedirs(ctx.ovdir, exist_ok=True)
    src = open(os.path.join(core.VERIF, "harness", "C19", "c19gen.go.tmpl")).read().replace("PKGNAME", gopkg)
    p = os.path.join(ctx.ovdir, "c19gen_%s.go" % gopkg)
    open(p, "w").write(src)
    return p


def run(ctx):
    q = ctx.tier == "quick"
    n_salt, n_prov, n_leg, n_ks = (600, 450, 450, 225) if q else (12000, 7500, 7500, 3750)
    hdr = HDR.format(imports="lib.TokSplit model.C19_model model.C19_run")

    def stages(ctx, mult, suffix, off):
        def st(name, pkg, gopkg, f, test, n, pam=False, shard=60):
            ctx.stage(name + suffix, pkg, gopkg, ["C19/" + f], test, n * mult, hdr, seed_offset=off, shard=shard, pam=pam,
                      replace={pkg + "/zz_verif_c19gen_test.go": _gen(ctx, gopkg)}, env={"VERIF_STAGE": name + suffix})
        st("c19salt", "sdk/go/auth", "auth", "zz_verif_c19salt_test.go", "TestVerifC19Salt$", n_salt, shard=100)
        st("c19prov", "lib/controller/federation", "federation", "zz_verif_c19prov_test.go", "TestVerifC19Prov$", n_prov, pam=True)
        st("c19legacy", "lib/controller", "controller", "zz_verif_c19legacy_test.go", "TestVerifC19Legacy$", n_leg, pam=True)
        st("c19ks", "services/keepstore", "main", "zz_verif_c19ks_test.go", "TestVerifC19KS$", n_ks, shard=75)
    return standard(ctx, "C19", ["model/C19_run.vo"], stages, known_bits={4: "F6b", 8: "F6b"},
                    rule="token strings of every shape (v2 with secrets of length 0-60 incl. every length 38-42 hex and non-hex, extra path "
                         "segments, malformed v2, legacy 41+ characters, near-legacy, JWT-like, random bytes) x remote ids; provider with 0-4 "
                         "tokens and a stub local backend (401 / error / resolved to the remote's or another cluster's uuid); legacy controller "
                         "path observed at the wire (recording HTTP transport): remoteClusterRequest with tokens in every subset of {Bearer/OAuth2/"
                         "Basic header, query, form body, cookie}, repeated and empty api_token values, and a stub database (unreachable / query fails / token unknown / user local, of the remote, "
                         "of a third cluster), and the whole handler stack (by uuid, cluster_id, multi-cluster uuid query, collection by PDH, "
                         "container request for another cluster with token origin x user origin x scopes); federation.Conn.ContainerRequestCreate "
                         "(token issued here / elsewhere / legacy / unknown x user origin x scopes x explicit runtime_token x target) and other Conn "
                         "methods over real rpc.Conn remotes; keepstore remoteClient and remoteProxy.Get with a recording keep client, alone and as two overlapping requests for one remote (B runs while A's first attempt is at the remote; B unsaltable or not); distinct by "
                         "hash of the case term; non-trivial = SaltToken/remoteClient/Get/ContainerRequestCreate case, provider call with credentials "
                         "and at least one token, legacy request carrying a secret (stack: and sent to a remote), Conn method that sent a request",
                    assumptions=["HMAC-SHA1 is computed by the Gallina implementation lib/Sha1.v (validated by this correspondence)",
                                 "the controller's database is a stub behind Handler.db() (answers validateAPItoken's SELECT from a per-case table, records "
                                 "createAPItoken's INSERT) or unreachable; federation.Conn runs with a stub local backend, so creating a runtime token "
                                 "fails there (the legacy stack creates one through the stub database)",
                                 "non-disclosure is judged in Coq by substring search for the case's secrets (41-60 characters, unique to the case) in "
                                 "every part of every request handed to the HTTP transport for a remote cluster (Authorization, query string, body, "
                                 "Cookie, other headers, method/host/path), in every reading the harness prints (raw, URL-unescaped once and twice, "
                                 "base64-decoded); net/http's own serialisation of the request is not exercised"])
