from .props import HDR, standard

import os

KS = "services/keepstore"


def _replace():
    """VERIF_REPLACE="services/keepstore/handlers.go=/abs/mutated.go,..." substitutes scratch copies of
    /repo files through the overlay (used only to check that the check has teeth; /repo is never edited)."""
    out = {}
    for kv in filter(None, os.environ.get("VERIF_REPLACE", "").split(",")):
        k, v = kv.split("=", 1)
        out[k] = v
    return out or None

FILES = ["ks/zz_verif_ks_common_test.go", "ks/zz_verif_ks_hook_test.go", "ks/zz_verif_ks_overlap_test.go", "C01/zz_verif_c01_test.go"]

from .ks_instr import UV, instrument, instrumented_overlay  # noqa: E402


def _stage(ctx, name, n, hdr, **kw):
    """The overlap cases overwrite every pooled buffer also at the filesystem steps INSIDE the volume work
    (yield points of tools/instrument; the hooks do nothing else, and nothing at all in the other cases).
    If the working-tree unix_volume.go cannot be instrumented the stage runs on the plain file: C01's
    model does not depend on the yield points."""
    inst, err, warn = instrument(ctx, tolerant=True)
    rep = dict(_replace() or {})
    if err is None:
        rep[UV] = inst
        with instrumented_overlay():
            return ctx.stage(name, KS, "main", FILES, "TestVerifC01$", n, hdr, replace=rep, **kw)
    ctx.notes.append("unix_volume.go not instrumented (%s): no pool overwrites inside the volume work" % err[:200])
    return ctx.stage(name, KS, "main", FILES, "TestVerifC01$", n, hdr, replace=rep or None, **kw)



def run(ctx):
    n = {"quick": 300, "thorough": 5000}[ctx.tier]
    hdr = HDR.format(imports="model.C01_model model.C01_run") + "Local Open Scope N_scope.\n"

    def stages(ctx, mult, suffix, off):
        _stage(ctx, "c01" + suffix, n * mult, hdr, seed_offset=off, shard=60,
               env={"VERIF_STAGE": "c01" + suffix}, timeout=1500)
        if ctx.tier == "thorough" and not suffix:
            _stage(ctx, "c01x", 1884, hdr, shard=120,
                   env={"VERIF_STAGE": "c01x", "VERIF_C01_MODE": "exhaustive"}, timeout=1500)
    return standard(ctx, "C01", ["model/C01_run.vo"], stages,
                    rule="1-3 Directory volumes (every RO/RW mix, full / unwritable prefix), 1-2 blocks (sizes 0,1,2,63,64,65,100,4096, "
                         "random, an MD5 collision pair, rarely exactly 64 MiB), a corruption pattern per copy, 1-7 GET/HEAD/PUT requests incl. uploads that do not arrive completely (body ends or breaks after a prefix of the announced length, mostly right after a PUT/GET that left the same block in the buffer); blocks of 40-100 KB (several chunks of the volume's copy loop) in 1 of 6; 40 % of the cases with a real 2-3 buffer pool and requests stalled inside their response write / body upload while 1-2 other requests run and pooled buffers are overwritten; "
                         "distinct by hash of the case term; non-trivial = some copy is neither intact nor absent, or a GET/PUT was refused",
                    assumptions=["block bytes are abstracted to {cid; length}; the digest is the table of MD5 values computed by Go for the contents of the case (theorems hold for every digest function)",
                                 "requests are sent to the handler returned by handler.setup (MakeRESTRouter) through httptest.ResponseRecorder: HTTP framing by net/http is not exercised",
                                 "Touch of a file that was just read successfully is assumed to succeed (no concurrent actor; that race is C04)",
                                 "the single shared buffer of the sequential cases is never cleared; the harness pools count 1-4 buffers as taken by other clients for the whole case (so that a handler that gives a buffer back twice does not block for ever in the pool's accounting but really leaves the buffer in the pool twice); a request whose handler does not return within 60 s (1 s after the first such request of a run) is recorded as unanswered and ends its case",
                                 "clients that go away (http.CloseNotifier of the response writer; delivered on the request's own goroutine at a chosen point, then the processor is yielded under GOMAXPROCS(1) so that contextForResponse's goroutine cancels the context; nothing is timed): PUTABANDON = in the middle of WriteBlock's copy, right after a complete PUT of the same block ran and was answered (only with one writable volume, so that both writes go to the same place); PUTLOCKED/PUTHANGUP = a lone Serialize volume, the second PUT's client goes away at the moment it starts to wait for the volume lock held by the first (it meets the lock in Compare: a hang-up while waiting in WriteBlock leaves the temp file behind in /repo, which is outside this property); PUTNOBUF = all buffers out, the client goes away when the pool reports that the request must wait, repeated once per buffer of the case, then a GET; a cancelled request is the model's PutCancel (error status, volumes unchanged)",
                                 "overlap cases: the other requests run inside the stalled request's Write/Read call under GOMAXPROCS(1) (sync.Pool hands a returned buffer to the next taker only within one P); the case is evaluated as the request sequence in linearisation order, justified by C01_overlapping_requests_linearizable"])


def dev(ctx, n, extra):
    hdr = HDR.format(imports="model.C01_model model.C01_run") + "Local Open Scope N_scope.\n"
    from . import core
    core.coq_make(["model/C01_run.vo"])
    e = {"VERIF_STAGE": "c01"}
    e.update(extra)
    _stage(ctx, "c01", n, hdr, shard=60, env=e, timeout=1500)
