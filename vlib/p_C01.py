from .props import HDR, standard

import os

KS = "services/keepstore"


def _replace():
    """VERIF_REPLACE="services/keepstore/handlers.go=/abs/mutated.go,..." substitutes scratch copies of
    /repo files through the overlay (used only to check that the check has teeth; /repo is never edited)."""
    out = {}
    for kv in filter(None, os.environ.get("VERIF_REPLACE", "").split(",")):
        k, v = kv.split("=", 1)
        out[k] = v
    return out or None

FILES = ["ks/zz_verif_ks_common_test.go", "ks/zz_verif_ks_overlap_test.go", "C01/zz_verif_c01_test.go"]


def run(ctx):
    n = {"quick": 300, "thorough": 5000}[ctx.tier]
    hdr = HDR.format(imports="model.C01_model model.C01_run") + "Local Open Scope N_scope.\n"

    def stages(ctx, mult, suffix, off):
        ctx.stage("c01" + suffix, KS, "main", FILES, "TestVerifC01$", n * mult, hdr, seed_offset=off, shard=60,
                  env={"VERIF_STAGE": "c01" + suffix}, timeout=1500, replace=_replace())
        if ctx.tier == "thorough" and not suffix:
            ctx.stage("c01x", KS, "main", FILES, "TestVerifC01$", 1884, hdr, shard=120,
                      env={"VERIF_STAGE": "c01x", "VERIF_C01_MODE": "exhaustive"}, timeout=1500, replace=_replace())
    return standard(ctx, "C01", ["model/C01_run.vo"], stages,
                    rule="1-3 Directory volumes (every RO/RW mix, full / unwritable prefix), 1-2 blocks (sizes 0,1,2,63,64,65,100,4096, "
                         "random, an MD5 collision pair, rarely exactly 64 MiB), a corruption pattern per copy, 1-6 GET/HEAD/PUT requests; "
                         "distinct by hash of the case term; non-trivial = some copy is neither intact nor absent, or a GET/PUT was refused",
                    assumptions=["block bytes are abstracted to {cid; length}; the digest is the table of MD5 values computed by Go for the contents of the case (theorems hold for every digest function)",
                                 "requests are sent to the handler returned by handler.setup (MakeRESTRouter) through httptest.ResponseRecorder: HTTP framing by net/http is not exercised",
                                 "Touch of a file that was just read successfully is assumed to succeed (no concurrent actor; that race is C04)"])


def dev(ctx, n, extra):
    hdr = HDR.format(imports="model.C01_model model.C01_run") + "Local Open Scope N_scope.\n"
    from . import core
    core.coq_make(["model/C01_run.vo"])
    e = {"VERIF_STAGE": "c01"}
    e.update(extra)
    ctx.stage("c01", KS, "main", FILES, "TestVerifC01$", n, hdr, shard=60, env=e, timeout=1500, replace=_replace())
