import os

from .props import HDR, standard


def _replace():
    r = {}
    for kv in filter(None, os.environ.get("VERIF_REPLACE", "").split(",")):
        k, v = kv.split("=", 1)
        r[k] = v
    return r or None


SCHED = "lib/dispatchcloud/scheduler"
RQ = "C16/zz_verif_c16rq_test.go"


def run(ctx):
    quick = ctx.tier == "quick"
    n_runq = 800 if quick else 20000
    n_sync = 800 if quick else 20000

    def stages(ctx, mult, suffix, off):
        rq_hdr = HDR.format(imports="model.C16_runq model.C16_runq_run")
        ctx.stage("runq" + suffix, SCHED, "scheduler", [RQ], "TestVerifC16RQ$", n_runq * mult, rq_hdr, seed_offset=off + 14,
                  shard=400, env={"VERIF_STAGE": "runq" + suffix}, replace=_replace())
        sy_hdr = HDR.format(imports="model.C16_runq model.C14_sync model.C14_sync_run")
        ctx.stage("sync" + suffix, SCHED, "scheduler", [RQ, "C14/zz_verif_c14sync_test.go"], "TestVerifC14Sync$", n_sync * mult,
                  sy_hdr, seed_offset=off, shard=400, env={"VERIF_STAGE": "sync" + suffix}, replace=_replace())
        if not suffix:
            ctx.stage("syncexh", SCHED, "scheduler", [RQ, "C14/zz_verif_c14sync_test.go"], "TestVerifC14SyncExh$", 0,
                      sy_hdr, shard=400, env={"VERIF_STAGE": "syncexh"}, replace=_replace())
    return standard(ctx, "C14", ["model/C16_runq_run.vo", "model/C14_sync_run.vo"], stages, rule="", assumptions=[])
