import os

from .props import HDR, standard
from .c14_e2e import run_e2e


def _replace():
    """VERIF_REPLACE="rel/path.go=/abs/mutant.go[,...]": overlay-replace files of /repo by scratch copies
    (used to check that the check has teeth; never set by registered commands)."""
    r = {}
    for kv in filter(None, os.environ.get("VERIF_REPLACE", "").split(",")):
        k, v = kv.split("=", 1)
        r[k] = v
    return r or None


SCHED = "lib/dispatchcloud/scheduler"
RQ = "C16/zz_verif_c16rq_test.go"


def run(ctx):
    quick = ctx.tier == "quick"
    n_runq = 500 if quick else 10000
    n_sync = 500 if quick else 10000
    n_wp = 200 if quick else 3000
    n_e2e = 2 if quick else 12
    n_queue = 800 if quick else 20000

    notes = []

    def stages(ctx, mult, suffix, off):
        # (i) scheduler: runQueue and sync call logs against recording stub pool/queue
        rq_hdr = HDR.format(imports="model.C16_runq model.C16_runq_run")
        ctx.stage("runq" + suffix, SCHED, "scheduler", [RQ], "TestVerifC16RQ$", n_runq * mult, rq_hdr, seed_offset=off + 14,
                  shard=400, env={"VERIF_STAGE": "runq" + suffix}, replace=_replace())
        sy_hdr = HDR.format(imports="model.C16_runq model.C14_sync model.C14_sync_run")
        ctx.stage("sync" + suffix, SCHED, "scheduler", [RQ, "C14/zz_verif_c14sync_test.go"], "TestVerifC14Sync$", n_sync * mult,
                  sy_hdr, seed_offset=off, shard=400, env={"VERIF_STAGE": "sync" + suffix}, replace=_replace())
        if not suffix:
            ctx.stage("syncexh", SCHED, "scheduler", [RQ, "C14/zz_verif_c14sync_test.go"], "TestVerifC14SyncExh$", 0,
                      sy_hdr, shard=400, env={"VERIF_STAGE": "syncexh"}, replace=_replace())
        # (ii) worker bookkeeping: operation sequences through the real worker.Pool
        wp_hdr = HDR.format(imports="model.C16_runq model.C14_pool model.C14_wp_run")
        ctx.stage("wp" + suffix, "lib/dispatchcloud/worker", "worker", ["C14/zz_verif_c14wp_test.go"], "TestVerifC14WP$",
                  n_wp * mult, wp_hdr, seed_offset=off, shard=25, env={"VERIF_STAGE": "wp" + suffix, "VERIF_WPMODE": "c14"},
                  replace=_replace())
        # container.Queue: Update with a local Lock/Unlock/Cancel arriving before/during/after the poll
        q_hdr = HDR.format(imports="model.C16_runq model.C14_queue model.C14_queue_run")
        ctx.stage("queue" + suffix, "lib/dispatchcloud/container", "container", ["C14/zz_verif_c14queue_test.go"],
                  "TestVerifC14Queue$", n_queue * mult, q_hdr, seed_offset=off, shard=400, env={"VERIF_STAGE": "queue" + suffix},
                  replace=_replace())
        # (iii) end-to-end exploration: real dispatcher against the stub cloud, event log judged in Coq
        if not suffix:
            run_e2e(ctx, n_e2e, "c14", not quick, 0, _replace(), notes)
    return standard(ctx, "C14", ["model/C16_runq_run.vo", "model/C14_sync_run.vo", "model/C14_wp_run.vo", "model/C14_e2e_run.vo", "model/C14_queue_run.vo"],
                    stages,
                    rule="runq/sync: queue snapshots of 0-16 entries (all states, tied/zero/negative priorities) x scripted pool answers "
                         "x process situations (absent, alive, exited before/after/at the last queue update) x latch x unknown-workers, "
                         "exhaustive for one entry; queue: 1-6 API records, changes between polls, a local Lock/Unlock/Cancel or a foreign state change at 5 positions relative to the poll; wp: 15-60 operations (instance-list syncs through getInstancesAndSync, whole or split into request issued / answer applied with other operations in between, create, whole and split probes, start, start "
                         "command returning, kill, SIGTERM success, give-up, forget, idle behaviour, shutdown, sweep, restart) on 1-2 "
                         "instance types with left-over instances/processes/tags, probe timeout 1 ns in 1/3 of the scenarios, directed strata "
                         "(probe answered before the process exists and applied after the start command returned, then kill/forget/start again; "
                         "instance shut down with a live runner, Destroy not honoured, kill succeeds, next start), the stub VMs' live processes "
                         "recorded after every operation, a watchdog expiry (20 s) recorded as a STUCK observation of the case; e2e: 40-90 containers (200-500 in thorough), crashing/"
                         "broken/slow VMs, destroy failures, rate limit, external cancels, hold/drain, one restart. distinct by hash of "
                         "the case term; non-trivial = at least one queue/pool call (runq, sync), one StartContainer (wp), any run (e2e)",
                    extra={"e2e_notes": notes},
                    assumptions=[
                        "environment assumptions of the transition system (guards A1-A6 in coq/model/C14_sys.v): gone instance => no "
                        "processes; a pass starts nothing that still has a process on an undiscovered instance (fixStaleLocks; the stale-lock "
                        "timeout does not expire first); an instance given up by boot timeout without ever answering runs no unknown process; "
                        "cloud listings complete; probes/start commands of a replaced dispatcher die with it; new instances run nothing",
                        "atomicity: every model step is one pool-mutex critical section; process creation and the return of the start "
                        "command are one step; goroutine scheduling, timers, SSH and the real crunch-run are not modelled",
                        "e2e stage is exploration: its judge is proved to reflect its Prop-level statement, but there is no model of the run; "
                        "1500 ms tolerance only for external cancels and instances seen held/draining/shut down, none for the dispatcher's own "
                        "Unlock/Cancel (finding F21 is fixed)",
                        "time is a logical clock in the worker model; timeouts are compared only as expired (1 ns) / not expired (1 h)",
                    ])
