import os

from .props import HDR, standard
from .c14_e2e import run_e2e


def _replace():
    """VERIF_REPLACE="rel/path.go=/abs/mutant.go[,...]" (teeth checks only; never set by registered commands)."""
    r = {}
    for kv in filter(None, os.environ.get("VERIF_REPLACE", "").split(",")):
        k, v = kv.split("=", 1)
        r[k] = v
    return r or None


SCHED = "lib/dispatchcloud/scheduler"
RQ = "C16/zz_verif_c16rq_test.go"


def run(ctx):
    quick = ctx.tier == "quick"
    n_sync = 500 if quick else 10000
    n_stale = 300 if quick else 3000
    n_wp = 200 if quick else 3000
    n_e2e = 2 if quick else 10

    notes = []

    def stages(ctx, mult, suffix, off):
        # dead processes: sync cancels / re-queues (same stage as C14, judged by the same proved spec)
        sy_hdr = HDR.format(imports="model.C16_runq model.C14_sync model.C14_sync_run")
        ctx.stage("sync" + suffix, SCHED, "scheduler", [RQ, "C14/zz_verif_c14sync_test.go"], "TestVerifC14Sync$", n_sync * mult,
                  sy_hdr, seed_offset=off + 15, shard=400, env={"VERIF_STAGE": "sync" + suffix}, replace=_replace())
        # fixStaleLocks
        st_hdr = HDR.format(imports="model.C16_runq model.C14_sync model.C15_model model.C15_run")
        ctx.stage("stale" + suffix, SCHED, "scheduler", [RQ, "C15/zz_verif_c15stale_test.go"], "TestVerifC15Stale$", n_stale * mult,
                  st_hdr, seed_offset=off, shard=400, env={"VERIF_STAGE": "stale" + suffix}, replace=_replace(), timeout=1800)
        # worker lifecycle: boot/probe/idle/shutdown/stale-run-lock timeouts at 1 ns or 1 h, unkillable containers
        wp_hdr = HDR.format(imports="model.C16_runq model.C14_pool model.C14_wp_run")
        ctx.stage("wp" + suffix, "lib/dispatchcloud/worker", "worker", ["C14/zz_verif_c14wp_test.go"], "TestVerifC14WP$",
                  n_wp * mult, wp_hdr, seed_offset=off + 15, shard=25, env={"VERIF_STAGE": "wp" + suffix, "VERIF_WPMODE": "c15"},
                  replace=_replace())
        # end-to-end with the property's fault mix; final container states and instances judged
        if not suffix:
            run_e2e(ctx, n_e2e, "c15", not quick, 15, _replace(), notes)
    return standard(
        ctx, "C15", ["model/C14_sync_run.vo", "model/C15_run.vo", "model/C14_wp_run.vo", "model/C14_e2e_run.vo"], stages,
        rule="sync snapshots as in C14; fixStaleLocks: 1-4 looks at 1-4 containers with workers becoming known / the timer firing; "
             "wp: lifecycle operation sequences with every timeout independently 1 ns or 1 h and timeoutTERM 15 ms in a quarter of "
             "the scenarios, a watchdog expiry (20 s) recorded as a STUCK observation of the case; e2e: 20-80 containers (100-500 in thorough), crash rate 0-0.3, arv-mount deadlocks, destroy error rate "
             "0-0.4, boot delay up to 40 ms, broken / crunch-run-less / self-reporting-broken VMs, create rate limit, one restart in "
             "2/3 of the runs, deadline 30 s (100 s), extended while containers keep finishing (one per deadline/5, at most 3x): final states must be Complete/Cancelled and no instance may be left",
        extra={"e2e_notes": notes},
        assumptions=[
            "liveness in the real runtime is judged only by the end-to-end stage within a wall-clock deadline two orders of magnitude "
            "above the normal completion time (exploration); fairness of the Go scheduler and of timers is outside the model",
            "the convergence theorems are bounded sweeps (<= 3-4 fault operations from 4 base states, <= 12 healthy rounds) over the "
            "model's `round`, which is composed of the functions compared with the code; they are labelled _partial",
            "environment assumptions A1-A6 of C14 apply to the model; a held instance is never released by the dispatcher",
        ])
