"""Shared by the keepstore checks C02 and C04: scratch-file substitution for mutation checks and the
regeneration of the instrumented unix_volume.go (tools/instrument) from the working tree."""
import os

from . import core

UV = "services/keepstore/unix_volume.go"


def replace_env():
    """VERIF_REPLACE="services/keepstore/x.go=/abs/mutated.go,..." (mutation checks only; /repo is never edited)."""
    out = {}
    for kv in filter(None, os.environ.get("VERIF_REPLACE", "").split(",")):
        k, v = kv.split("=", 1)
        out[k] = v
    return out


def instrument(ctx, tolerant=False):
    """Returns (path of the instrumented copy, error).  tolerant=True: returns (path, error, warning);
    warning is set (and the copy usable) when the copy could be written but expected calls are missing
    (exit status 3 of tools/instrument): the caller runs the harness on it to look for a failing input
    and then records the warning as a broken correspondence."""
    os.makedirs(ctx.ovdir, exist_ok=True)
    src = replace_env().get(UV, os.path.join(core.REPO, UV))
    out = os.path.join(ctx.ovdir, "unix_volume_instrumented.go")
    if os.path.exists(out):
        os.remove(out)
    pts = os.path.join(ctx.ovdir, "unix_volume_points.json")
    rc, log, _ = core.run(["go", "run", "main.go", "-in", src, "-out", out, "-points", pts],
                          cwd=os.path.join(core.VERIF, "tools", "instrument"), env=core.GOENV, timeout=300)
    if tolerant:
        if (rc == 3 or "exit status 3" in log) and os.path.exists(out):   # `go run` reports the program's status in its output
            return out, None, "tools/instrument: expected calls missing in %s: %s" % (src, log[-2000:])
        if rc != 0:
            return None, "tools/instrument failed on %s (rc=%d): %s" % (src, rc, log[-2000:]), None
        return out, None, None
    if rc != 0:
        return None, "tools/instrument failed on %s (rc=%d): %s" % (src, rc, log[-2000:])
    return out, None


class instrumented_overlay:
    """core.Ctx.overlay applies VERIF_REPLACE after the stage's own replacements; for the stages that run the
    instrumented copy (which was generated FROM the VERIF_REPLACE'd unix_volume.go) the instrumented file must
    win, so the unix_volume.go entry is hidden from the environment while the stage runs."""

    def __enter__(self):
        self.old = os.environ.get("VERIF_REPLACE")
        if self.old is not None:
            keep = [kv for kv in self.old.split(",") if kv and kv.split("=", 1)[0] != UV]
            os.environ["VERIF_REPLACE"] = ",".join(keep)
        return self

    def __exit__(self, *a):
        if self.old is not None:
            os.environ["VERIF_REPLACE"] = self.old
