from . import core
from .ks_instr import UV, instrument, instrumented_overlay, replace_env
from .props import HDR, standard

KS = "services/keepstore"
FILES = ["ks/zz_verif_ks_common_test.go", "ks/zz_verif_ks_hook_test.go", "ks/zz_verif_ks_overlap_test.go", "C02/zz_verif_c02_test.go"]
HDR2 = HDR.format(imports="model.C02_model model.C02_run") + "Local Open Scope N_scope.\n"


def stage(ctx, n, suffix="", off=0, extra_env=None):
    name = "c02" + suffix
    inst, err, warn = instrument(ctx, tolerant=True)
    if err is not None:
        st = core.Stage(name)
        st.errors.append(err)
        ctx.stages.append(st)
        return st
    rep = dict(replace_env())
    rep[UV] = inst
    e = {"VERIF_STAGE": name}
    e.update(extra_env or {})
    with instrumented_overlay():
        st = ctx.stage(name, KS, "main", FILES, "TestVerifC02$", n, HDR2, seed_offset=off, shard=60, env=e, timeout=2400, replace=rep)
    if warn:
        st.errors.append(warn)   # an expected call is missing: broken correspondence whatever the run found
    return st


def run(ctx):
    n = {"quick": 90, "thorough": 0}[ctx.tier]

    def stages(ctx, mult, suffix, off):
        stage(ctx, n * mult, suffix, off)
    return standard(ctx, "C02", ["model/C02_run.vo"], stages,
                    rule="PUT of 0/1/100000 bytes on 1-2 Directory volumes (prior copy absent/intact/corrupt on either volume, one read-only variant, volumes marked full: the round-robin choice / the other one / both / the only one): "
                         "every scenario once undisturbed, plus sampled (quick) or all (thorough) runs with SIGKILL of a child process at yield point k "
                         "and with client disconnect at yield point k; every case counts as non-trivial",
                    assumptions=["a crash is SIGKILL of the keepstore process (no power loss: missing fsync is outside the property and the model)",
                                 "rename(2) is atomic; io.Copy hands the temp file chunks of 32 KiB",
                                 "the restarted server is a fresh handler on the same directories inside the harness process"])


def dev(ctx, n, extra):
    core.coq_make(["model/C02_run.vo"])
    stage(ctx, n, extra_env=extra)
