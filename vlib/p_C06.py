import os
from concurrent.futures import ThreadPoolExecutor

from .props import HDR, standard

# Teeth test only: VERIF_C06_REPLACE="services/keep-balance/collection.go=/path/to/scratch.go,..." supplies
# scratch copies through the overlay (nothing in /repo is touched).

def run(ctx):
    q = ctx.tier == "quick"
    npage = 300 if q else 6000
    nidx = 1800 if q else 40000   # bodies fed to each real reader (every truncation point of ~8 / ~120 indexes + raw bodies)

    nconf = 6 if q else 60    # sweep configurations; each is run 2-3 times per request of a sweep (~25-45 requests)

    replace = dict(kv.split("=", 1) for kv in os.environ.get("VERIF_C06_REPLACE", "").split(",") if "=" in kv) or None

    only = [x for x in os.environ.get("VERIF_C06_STAGES", "").split(",") if x]   # debugging aid: subset of page,sweep,idxa,idxk

    def stages(ctx, mult, suffix, off):
        hdr = HDR.format(imports="model.C05_model model.C06_model model.C06_unix model.C06_mounts model.C06_azure model.C06_run")

        def stage(name, *a, **kw):
            if only and not any(name.startswith("c06" + o) for o in only):
                return None
            return ctx.stage(name + suffix, *a, seed_offset=off, timeout=1500, replace=replace,
                             env={"VERIF_STAGE": name + suffix}, **kw)

        def keep_balance():   # same package, same overlay file: one after the other
            stage("c06page", "services/keep-balance", "main", ["C06/zz_verif_c06_page_test.go"], "TestVerifC06Page$",
                  npage * mult, hdr, shard=50 if q else 200)
            stage("c06sweep", "services/keep-balance", "main",
                  ["C06/zz_verif_c06_sweep_test.go", "C06/zz_verif_c06_page_test.go", "C05/zz_verif_c05_test.go"], "TestVerifC06Sweep$",
                  nconf * mult, hdr, shard=100)

        def handler():
            stage("c06handler", "services/keepstore", "main", ["C06/zz_verif_c06_handler_test.go"], "TestVerifC06Handler$",
                  (60 if q else 1500) * mult, hdr, shard=100)

            stage("c06unix", "services/keepstore", "main", ["C06/zz_verif_c06_unixidx_test.go"], "TestVerifC06UnixIndex$",
                  (60 if q else 2000) * mult, hdr, shard=30 if q else 250)

            stage("c06azure", "services/keepstore", "main", ["C06/zz_verif_c06_azureidx_test.go"], "TestVerifC06AzureIndex$",
                  (40 if q else 1000) * mult, hdr, shard=40 if q else 250)

        def idxa():
            stage("c06idxa", "sdk/go/arvados", "arvados", ["C06/zz_verif_c06_idxa_test.go"], "TestVerifC06IndexA$",
                  nidx * mult, hdr, shard=100)

        def idxk():
            stage("c06idxk", "sdk/go/keepclient", "keepclient", ["C06/zz_verif_c06_idxk_test.go"], "TestVerifC06IndexK$",
                  nidx * mult, hdr, shard=100)

        # the four packages are independent: run their stages side by side
        with ThreadPoolExecutor(max_workers=4) as ex:
            for f in [ex.submit(g) for g in (keep_balance, handler, idxa, idxk)]:
                f.result()
        ctx.stages.sort(key=lambda st: st.name)
    return standard(ctx, "C06", ["model/C06_run.vo"], stages,
                    rule="c06page: paging histories, population 0-70 (thorough: -200), 6 timestamp patterns (distinct, all equal, runs longer than / equal to the page, few values, random), "
                         "page sizes 1..N+1 and 'maximum', event schedules none/sparse/busy/same-timestamp, rows inserted with old timestamps in 1/10, one failing request or callback in 1/4, 8 failure kinds (500, cut JSON, transport error, 503, status 200 with an empty body, the real answer cut at byte 0/1/middle/last, "
                         "body reader failing after that many bytes, white space only), every request index in turn answered 200 with an empty / partial body "
                         "(non-trivial = population >= 2 and >= 3 requests); c06sweep: Balancer.Run against a stub cluster with an unshadowed read-only mount holding replicas (every third configuration: always), shadowed read-only views, "
                         "read-only services, blank device ids on read-write and read-only mounts (every third configuration: both at once), Replication 0-2, storage classes; the mounts whose index "
                         "was requested are recorded per run; once per request index with that request failing with HTTP 500, once more with a "
                         "failure kind drawn per request (transport error, 404, 503 non-JSON, 200 with an unexpected body), every GET once more with status 200 and an empty body, index requests also cut short (non-trivial: all); "
                         "c06azure: the real handler over a real AzureBlobVolume against a stub blob service: 0-7 blobs two per page (non-block names, trashed blobs), ListBlobsMaxAttempts 1-3, per page a script "
                         "(ok; busy x1-3 then ok; busy every time; 500; busy then 500) (non-trivial = >= 2 pages); "
                         "c06unix: the real handler over a real Directory volume: 1-4 healthy block directories (0-3 block files and non-block files each), 0-2 unreadable root entries "
                         "(regular file / link to a file with a hex name, dangling link, link loop), a link to a healthy directory, names to ignore, prefix in 1/3, shuffled creation order "
                         "(non-trivial = >= 2 root entries); "
                         "c06handler: 1-4 volumes, each failing with probability 1/3 after a prefix of its lines (non-trivial = >= 2 volumes); "
                         "c06idxa/c06idxk: every truncation point of generated well-formed indexes (one case per index), raw malformed bodies, failing readers, lines of 65535/65536 bytes "
                         "(non-trivial = non-empty body); distinct by hash of the case term",
                    assumptions=["the API server orders by (modified_at, uuid) and a modification stamps the row with a time later than everything stored before the previous request (monotone clock)"])
