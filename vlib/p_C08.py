from .props import HDR, standard

CFS = ["CFS/zz_verif_cfs_keep_test.go", "CFS/zz_verif_cfs_sess_test.go"]


def run(ctx):
    n = {"quick": 480, "thorough": 8000}[ctx.tier]
    ops = {"quick": 40, "thorough": 300}[ctx.tier]
    nload = {"quick": 120, "thorough": 3000}[ctx.tier]

    def stages(ctx, mult, suffix, off):
        ctx.stage("c08" + suffix, "sdk/go/arvados", "arvados", CFS + ["C08/zz_verif_c08_test.go"], "TestVerifC08$",
                  n * mult, HDR.format(imports="lib.Path model.CFS_file model.CFS_tree model.CFS_inst model.C08_run"),
                  seed_offset=off, shard=60, env={"VERIF_STAGE": "c08" + suffix, "VERIF_OPS": str(ops)})
        # histories that start from a loaded manifest (stored segments of arbitrary alignment from the start);
        # shares the generator and evaluator of C09, without Keep failures
        ctx.stage("c08load" + suffix, "sdk/go/arvados", "arvados",
                  CFS + ["CFS/zz_verif_cfs_ctl_test.go", "C09/zz_verif_c09_test.go"], "TestVerifC09$",
                  nload * mult, HDR.format(imports="lib.Path model.CFS_file model.CFS_tree model.CFS_inst model.C08_run model.CFS_bg model.CFS_run"),
                  seed_offset=off + 5, shard=20,
                  env={"VERIF_STAGE": "c08load" + suffix, "VERIF_OPS": str(ops), "VERIF_C09_KIND": "1", "VERIF_C09_NOFAIL": "1"})
    hdr = HDR.format(imports="lib.Path model.CFS_file model.CFS_tree model.CFS_inst model.C08_run")
    # first operation whose observation the plain filesystem does not predict: (index, expected, observed)
    expr = "first_diff 0 (run Spec (fs_init Spec) (c_ops c)) (c_obs c)"
    return standard(ctx, "C08", ["model/C08_run.vo", "model/CFS_run.vo"], stages, explain={"c08": (hdr, expr)},
                    rule="random operation histories (open with every flag combination, write, append, seek, read, truncate, "
                         "mkdir, rename, remove, stat, readdir; several handles; block limits 1,2,3,5,8,64; random explicit "
                         "flushes and saves in between) from the empty collection; distinct by hash of the case term; "
                         "non-trivial = at least one successful write",
                    assumptions=["histories start from the empty collection (loaded manifests are covered by C09/C10)",
                                 "errors are compared by class (message-based classification in the harness)"])
