"""Per-property check definitions."""
from . import core

HDR = ("From Coq Require Import NArith ZArith List String Ascii Bool.\n"
       "From AV Require Import lib.Str {imports}.\nImport ListNotations.\nLocal Open Scope string_scope.\n")

REGISTRY = {}


def prop(pid):
    def deco(f):
        REGISTRY[pid] = f
        return f
    return deco


def standard(ctx, pid, run_targets, stages, known_bits=None, rule="", assumptions=None, extra=None):
    """stages(ctx, mult, suffix, seed_offset) runs the harness stages.  If the proof or the
    correspondence is broken and no failing input was seen, search with more cases (DESIGN §1.3)."""
    P = core.proof_stage(pid, run_targets)
    if P.get("model_builds", False):
        stages(ctx, 1, "", 0)
        broken = (not P["ok"]) or any(s.errors or any(c & 1 for _, c, _ in s.failing) for s in ctx.stages)
        found = any(any(c & ~1 for _, c, _ in s.failing) for s in ctx.stages)
        if broken and not found and ctx.replay is None:
            core.log("%s: proof or correspondence broken; searching for a failing input with more cases" % pid)
            stages(ctx, 5, "search", 7777)
    return core.finish(ctx, pid, P, known_bits=known_bits, rule=rule, assumptions=assumptions, extra=extra)


@prop("C12")
def c12(ctx):
    n = {"quick": 160, "thorough": 4000}[ctx.tier]

    def stages(ctx, mult, suffix, off):
        ctx.stage("c12" + suffix, "sdk/go/keepclient", "keepclient", ["C12/zz_verif_c12_test.go"], "TestVerifC12$",
                  n * mult, HDR.format(imports="model.C12_model model.C12_run"), seed_offset=off, shard=20,
                  env={"VERIF_STAGE": "c12" + suffix})
    return standard(ctx, "C12", ["model/C12_run.vo"], stages,
                    rule="random service sets (1-32 services, 27-char/short/long uuids, shared 15-char suffixes), locators with 0-4 "
                         "hints; distinct by hash of the case term; non-trivial = at least 2 local services",
                    assumptions=["MD5 is computed by the Gallina implementation lib/Md5.v (validated by this correspondence: every weight comparison depends on it)",
                                 "with equal weights the order is unspecified: such cases are judged by the relation only"])
