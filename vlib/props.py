"""Per-property check definitions."""
from . import core

HDR = ("From Coq Require Import NArith ZArith List String Ascii Bool.\n"
       "From AV Require Import lib.Str {imports}.\nImport ListNotations.\nLocal Open Scope string_scope.\n")

REGISTRY = {}


class _Lazy(dict):
    """pid -> runner; the module vlib/p_<pid>.py is imported only when that property is asked for, so a
    half-written module for another property cannot break this one."""

    def __contains__(self, pid):
        import os
        return os.path.exists(os.path.join(os.path.dirname(__file__), "p_%s.py" % pid))

    def __getitem__(self, pid):
        import importlib
        return importlib.import_module("vlib.p_%s" % pid).run


REGISTRY = _Lazy()


def standard(ctx, pid, run_targets, stages, known_bits=None, rule="", assumptions=None, extra=None, explain=None):
    """stages(ctx, mult, suffix, seed_offset) runs the harness stages.  If the proof or the
    correspondence is broken and no failing input was seen, search with more cases (DESIGN §1.3)."""
    P = core.proof_stage(pid, run_targets)
    if ctx.tier == "thorough" and P.get("ok"):
        # independent re-check of the compiled theorems and of everything they depend on
        ck = core.coqchk_stage(pid)
        P["coqchk"] = ck
        if not ck.get("ok"):
            P["ok"] = False
            P.setdefault("open", {})["coqchk"] = "coqchk: %s" % {k: v for k, v in ck.items() if k != "log"}
    if P.get("model_builds", False):
        stages(ctx, 1, "", 0)
        broken = (not P["ok"]) or any(s.errors or any(c & 1 for _, c, _ in s.failing) for s in ctx.stages)
        found = any(any(c & ~1 for _, c, _ in s.failing) for s in ctx.stages)
        if broken and not found and ctx.replay is None:
            core.log("%s: proof or correspondence broken; searching for a failing input with more cases" % pid)
            stages(ctx, 5, "search", 7777)
    if P.get("coqchk"):
        extra = dict(extra or {}, coqchk={k: v for k, v in P["coqchk"].items() if k != "log"})
    return core.finish(ctx, pid, P, known_bits=known_bits, rule=rule, assumptions=assumptions, extra=extra, explain=explain)


