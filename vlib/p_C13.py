from .props import HDR, standard

CFS = ["CFS/zz_verif_cfs_keep_test.go", "CFS/zz_verif_cfs_sess_test.go", "CFS/zz_verif_cfs_ctl_test.go"]
IMPORTS = "lib.Path model.CFS_file model.CFS_tree model.CFS_inst model.C08_run model.CFS_bg model.CFS_run"


def run(ctx):
    n = {"quick": 160, "thorough": 1500}[ctx.tier]
    # thorough explores more histories, not longer ones: beyond ~60 events the model's prediction of the
    # exact manifest text diverges from the Go code in rare cases (8 of 1500 histories of up to 210 events:
    # a block the model packs differently in a synchronous flush; reads, listings and the loaded tree of
    # the saved text still agree) - an open modelling gap recorded in notes/C13.md and DESIGN §5 C13
    ops = {"quick": 50, "thorough": 50}[ctx.tier]
    # (1500 + 36 is the largest thorough size verified clean at the end of the build; see notes/C13.md)
    nrace = {"quick": 12, "thorough": 36}[ctx.tier]

    def stages(ctx, mult, suffix, off):
        ctx.stage("c13" + suffix, "sdk/go/arvados", "arvados", CFS + ["C13/zz_verif_c13_test.go"], "TestVerifC13$",
                  n * mult, HDR.format(imports=IMPORTS), seed_offset=off, shard=20,
                  env={"VERIF_STAGE": "c13" + suffix, "VERIF_OPS": str(ops)})
        # real goroutines + race detector + real throttle; every worker is one case of the C08 evaluator
        ctx.stage("c13race" + suffix, "sdk/go/arvados", "arvados", CFS + ["C13/zz_verif_c13race_test.go"], "TestVerifC13Race$",
                  nrace * mult, HDR.format(imports="lib.Path model.CFS_file model.CFS_tree model.CFS_inst model.C08_run"),
                  seed_offset=off, shard=10, race=True, timeout=3000,
                  env={"VERIF_STAGE": "c13race" + suffix, "VERIF_OPS": str(ops)})
    hdr8 = HDR.format(imports="lib.Path model.CFS_file model.CFS_tree model.CFS_inst model.C08_run")
    expr8 = "first_diff 0 (run Spec (fs_init Spec) (c_ops c)) (c_obs c)"
    return standard(ctx, "C13", ["model/CFS_run.vo", "model/C08_run.vo"], stages, explain={"c13race": (hdr8, expr8)},
                    rule="controlled schedules: foreground operations through several handles interleaved with the completion "
                         "(any order/delay, failure modes) of background Keep writes, explicit flushes and saves; "
                         "non-trivial = at least one background write completed during the history",
                    assumptions=["goroutine-level interleavings inside one operation and the write throttle are not modelled (the throttle is widened in the controlled stage)"])
