"""Driver library for /verif checks (see DESIGN.md §1.3, §2).

A check for property Cxx is the conjunction of
  P  the Coq development needed by coq/props/Cxx.v builds, every theorem in that file is reported
     "Closed under the global context" by Print Assumptions, and no forbidden word occurs;
  K  correspondence: the executable model, evaluated inside coqc on the cases the Go/Python harness
     generated from /repo's working tree, agrees with what the implementation did;
  S  the implementation's observed behaviour satisfies the boolean specification (evaluated in Coq).
"""
import fcntl
import glob
import hashlib
import json
import os
import re
import shutil
import subprocess
import sys
import time
from concurrent.futures import ThreadPoolExecutor

VERIF = os.path.dirname(os.path.dirname(os.path.abspath(__file__)))
REPO = os.environ.get("VERIF_REPO", "/repo")
COQ = os.path.join(VERIF, "coq")
BUILD = os.path.join(VERIF, "build")
FORBIDDEN = re.compile(
    r"\bAdmitted\b|\badmit\b|\bAxiom\b|\bAxioms\b|\bParameter\b|\bParameters\b|\bConjecture\b|\bUnset\s+Guard|"
    r"bypass_check|\bAdmit\s+Obligations|type-in-type|impredicative-set|\bUnset\s+Positivity|\bUnset\s+Universe"
)
GOENV = dict(GOFLAGS="-mod=mod", GOPROXY="off", GOSUMDB="off", GOTOOLCHAIN="local")

TRUSTED_BASE = [
    "Coq 8.16.1 kernel (coqc) incl. its vm_compute conversion; no native_compute",
    "no axioms: every theorem in coq/props is 'Closed under the global context' (Print Assumptions, parsed on every run)",
    "hand-written Gallina model; tie to /repo = differential correspondence check on generated cases (Go harness via go test -overlay, Gallina printer, result parser)",
    "go toolchain and the Go runtime for the implementation side",
]


def log(*a):
    print(*a, flush=True)


class Lock:
    def __init__(self, name="build"):
        os.makedirs(BUILD, exist_ok=True)
        self.path = os.path.join(BUILD, "." + name + ".lock")

    def __enter__(self):
        self.f = open(self.path, "w")
        fcntl.flock(self.f, fcntl.LOCK_EX)
        return self

    def __exit__(self, *a):
        fcntl.flock(self.f, fcntl.LOCK_UN)
        self.f.close()


def run(cmd, cwd=None, env=None, timeout=600, stdin=None):
    e = dict(os.environ)
    if env:
        e.update(env)
    t0 = time.time()
    try:
        p = subprocess.run(cmd, cwd=cwd, env=e, stdout=subprocess.PIPE, stderr=subprocess.STDOUT,
                           timeout=timeout, input=stdin)
        out = p.stdout.decode("utf-8", "replace")
        rc = p.returncode
    except subprocess.TimeoutExpired as ex:
        out = (ex.stdout or b"").decode("utf-8", "replace") + "\n[timeout after %ds]" % timeout
        rc = 124
    return rc, out, time.time() - t0


def coq_sources():
    fs = []
    for d in ("lib", "model", "proofs", "props"):
        fs += sorted(glob.glob(os.path.join(COQ, d, "*.v")))
    return fs


def coq_prepare():
    """(Re)generate _CoqProject and Makefile when the set of .v files changed."""
    rel = [os.path.relpath(f, COQ) for f in coq_sources()]
    proj = "-Q . AV\n-arg -w -arg -notation-overridden,-deprecated-hint-without-locality,-deprecated-instance-without-locality,-deprecated-syntactic-definition\n" + "\n".join(rel) + "\n"
    pf = os.path.join(COQ, "_CoqProject")
    old = open(pf).read() if os.path.exists(pf) else ""
    if old != proj or not os.path.exists(os.path.join(COQ, "Makefile")):
        open(pf, "w").write(proj)
        rc, out, _ = run(["coq_makefile", "-f", "_CoqProject", "-o", "Makefile"], cwd=COQ)
        if rc != 0:
            raise RuntimeError("coq_makefile failed: " + out)


def coq_make(targets, timeout=3000, keep_going=False):
    with Lock():
        coq_prepare()
        rc, out, dt = run(["make", "-j16"] + (["-k"] if keep_going else []) + targets, cwd=COQ, timeout=timeout)
    return rc == 0, out, dt


def scan_forbidden():
    bad = []
    for f in coq_sources():
        src = open(f).read()
        # strip comments (non-nested handling is enough: nested comments only make us stricter)
        stripped = re.sub(r"\(\*.*?\*\)", " ", src, flags=re.S)
        for m in FORBIDDEN.finditer(stripped):
            bad.append("%s: %s" % (os.path.relpath(f, VERIF), m.group(0)))
    return bad


def props_theorems(pid):
    src = open(os.path.join(COQ, "props", pid + ".v")).read()
    stripped = re.sub(r"\(\*.*?\*\)", " ", src, flags=re.S)
    return re.findall(r"^\s*(?:Theorem|Lemma|Corollary)\s+([A-Za-z0-9_']+)", stripped, flags=re.M)


def props_check(pid):
    """Compile coq/props/<pid>.v (always, so Print Assumptions output is fresh) and parse it.
    Returns dict(theorems=[...], closed=[...], open={name: text}, ok=bool, log=str)."""
    pf = os.path.join(COQ, "props", pid + ".v")
    names = props_theorems(pid)
    src = open(pf).read()
    res = dict(theorems=names, closed=[], open={}, ok=False, log="")
    missing = [n for n in names if not re.search(r"Print Assumptions\s+" + re.escape(n) + r"\s*\.", src)]
    with Lock():
        rc, out, dt = run(["coqc", "-Q", ".", "AV", "props/%s.v" % pid], cwd=COQ, timeout=1200)
    res["log"] = out
    res["wall_s"] = dt
    if rc != 0:
        return res
    # Print Assumptions output comes in order of the commands
    blocks = re.split(r"(?=^Closed under the global context|^Axioms:)", out, flags=re.M)
    blocks = [b for b in blocks if b.startswith("Closed under") or b.startswith("Axioms:")]
    printed = re.findall(r"Print Assumptions\s+([A-Za-z0-9_']+)\s*\.", re.sub(r"\(\*.*?\*\)", " ", src, flags=re.S))
    for n, b in zip(printed, blocks):
        if b.startswith("Closed under"):
            res["closed"].append(n)
        else:
            res["open"][n] = b.strip()
    for n in missing:
        res["open"][n] = "no Print Assumptions command for this theorem"
    res["ok"] = (len(printed) == len(blocks)) and not res["open"] and set(names) <= set(res["closed"]) and len(names) > 0
    return res


def parse_pairs(out, name="R"):
    """Parse `R = [(1%N, 2%N); ...] : list (N * N)` printed by coqc. Returns list or None."""
    m = re.search(r"^%s\s*=\s*(.*?)\n\s*:\s*list" % re.escape(name), out, flags=re.S | re.M)
    if not m:
        return None
    body = m.group(1)
    return [(int(a), int(b)) for a, b in re.findall(r"\(\s*(\d+)(?:%N)?\s*,\s*(\d+)(?:%N)?\s*\)", body)]


def parse_nat(out, name):
    m = re.search(r"^%s\s*=\s*(\d+)" % re.escape(name), out, flags=re.M)
    return int(m.group(1)) if m else None


class Stage:
    """Result of one harness stage."""

    def __init__(self, name):
        self.name = name
        self.meta = {}
        self.shards = 0
        self.shards_ok = 0
        self.failing = []  # (case index in the harness numbering, code)
        self.errors = []   # infrastructure problems (harness build failure, coqc failure) = broken correspondence
        self.evaluated = 0
        self.wall = {}
        self.race = None   # first data-race report of the Go race detector that names implementation code


class Ctx:
    def __init__(self, pid, tier, seed, replay=None):
        self.pid, self.tier, self.seed, self.replay = pid, tier, seed, replay
        self.t0 = time.time()
        self.stages = []
        self.notes = []
        self.casedir = os.path.join(BUILD, "cases", pid)
        self.ovdir = os.path.join(BUILD, "ov", pid)

    # ---------- Go side ----------
    def overlay(self, pkg, files, gopkg, replace=None):
        """files: harness files (relative to /verif/harness) to add to /repo/<pkg>; returns overlay path."""
        os.makedirs(self.ovdir, exist_ok=True)
        tag = pkg.replace("/", "_")
        common = os.path.join(self.ovdir, tag + "_common.go")
        tmpl = open(os.path.join(VERIF, "harness", "common", "common.go.tmpl")).read()
        open(common, "w").write(tmpl.replace("PKGNAME", gopkg))
        rep = {os.path.join(REPO, pkg, "zz_verif_common_test.go"): common}
        for f in files:
            rep[os.path.join(REPO, pkg, os.path.basename(f))] = os.path.join(VERIF, "harness", f)
        for k, v in (replace or {}).items():
            rep[os.path.join(REPO, k)] = v
        # VERIF_REPLACE="rel/path.go=/abs/mutated.go,..." : run the check against a mutated copy of
        # some /repo files without touching /repo (used by tools/withpatch.py to try seeded changes)
        for kv in filter(None, os.environ.get("VERIF_REPLACE", "").split(",")):
            k, v = kv.split("=", 1)
            rep[os.path.join(REPO, k)] = v
        ov = os.path.join(self.ovdir, tag + "_ov.json")
        json.dump({"Replace": rep}, open(ov, "w"))
        return ov

    def altmod(self):
        """go.mod copy with the pure-Go PAM stub (lib/controller needs cgo PAM headers that are absent)."""
        os.makedirs(self.ovdir, exist_ok=True)
        mod = open(os.path.join(REPO, "go.mod")).read()
        mod += "\nreplace github.com/msteinert/pam => %s\n" % os.path.join(VERIF, "harness", "pamstub")
        p = os.path.join(self.ovdir, "alt.mod")
        open(p, "w").write(mod)
        shutil.copy(os.path.join(REPO, "go.sum"), os.path.join(self.ovdir, "alt.sum"))
        return p

    def go_test(self, pkg, gopkg, files, test, env, timeout=900, pam=False, replace=None, race=False):
        if self.tier == "quick":
            # a quick-tier harness run takes well under two minutes even on a loaded machine; an
            # implementation that hangs must not hold the check for half an hour (it is reported as
            # broken correspondence with the goroutine dump)
            timeout = min(timeout, 600)
        ov = self.overlay(pkg, files, gopkg, replace)
        cmd = ["go", "test", "-tags", "verif", "-vet=off", "-overlay", ov, "-count=1", "-timeout", "%ds" % timeout,
               "-run", test]
        if race:
            cmd.append("-race")
        if pam:
            cmd += ["-modfile=" + self.altmod()]
        cmd.append(".")
        e = dict(GOENV)
        e.update(env)
        return run(cmd, cwd=os.path.join(REPO, pkg), env=e, timeout=timeout + 60)

    # ---------- Coq evaluation of case shards ----------
    def coq_eval(self, st, header, footer=None, jobs=8, timeout=1500):
        footer = footer or ("Definition R := Eval vm_compute in failing cases.\nPrint R.\n"
                            "Definition NC := Eval vm_compute in List.length cases.\nPrint NC.\n")
        bodies = sorted(glob.glob(os.path.join(self.casedir, st.name + "_*.body")),
                        key=lambda p: int(re.search(r"_(\d+)\.body$", p).group(1)))
        st.shards = len(bodies)
        indices = st.meta.get("indices") or []
        shard_size = st.meta.get("shard_size", 400)

        def one(b):
            k = int(re.search(r"_(\d+)\.body$", b).group(1))
            v = b[:-5] + ".v"
            open(v, "w").write(header + "\n" + open(b).read() + "\n" + footer)
            rc, out, dt = run(["coqc", "-Q", COQ, "AV", os.path.basename(v)], cwd=self.casedir, timeout=timeout)
            return k, rc, out, dt

        t0 = time.time()
        with ThreadPoolExecutor(max_workers=jobs) as ex:
            results = list(ex.map(one, bodies))
        st.wall["coq_eval"] = round(time.time() - t0, 2)
        for k, rc, out, dt in results:
            pairs = parse_pairs(out) if rc == 0 else None
            nc = parse_nat(out, "NC") if rc == 0 else None
            if pairs is None or nc is None:
                st.errors.append("coqc failed on shard %s_%d: %s" % (st.name, k, out[-1500:]))
                continue
            st.evaluated += nc
            if not pairs:
                st.shards_ok += 1
            for i, code in pairs:
                gi = k * shard_size + i
                st.failing.append((indices[gi] if gi < len(indices) else gi, code, gi))

    def stage(self, name, pkg, gopkg, files, test, n, header, env=None, pam=False, replace=None, seed_offset=0,
              timeout=900, footer=None, shard=None, race=False):
        """Run one Go harness stage and evaluate its cases in Coq."""
        st = Stage(name)
        self.stages.append(st)
        for f in glob.glob(os.path.join(self.casedir, name + "_*")) + glob.glob(os.path.join(self.casedir, name + ".meta.json")):
            os.remove(f)
        os.makedirs(self.casedir, exist_ok=True)
        e = {"VERIF_SEED": str(self.seed + seed_offset), "VERIF_N": str(n), "VERIF_OUT": self.casedir,
             "VERIF_TIER": self.tier, "TMPDIR": os.path.join(BUILD, "tmp")}
        os.makedirs(e["TMPDIR"], exist_ok=True)
        if shard:
            e["VERIF_SHARD"] = str(shard)
        if self.replay is not None and self.replay.get("stage") == name:
            e["VERIF_ONLY"] = str(self.replay["index"])
            e["VERIF_SEED"] = str(int(self.replay["seed"]) + seed_offset)  # the replay file records the run's base seed
            e["VERIF_N"] = str(self.replay.get("n", n))
        if env:
            e.update(env)
        rc, out, dt = self.go_test(pkg, gopkg, files, test, e, timeout=timeout, pam=pam, replace=replace, race=race)
        st.wall["harness"] = round(dt, 2)
        st.harness_log = out[-4000:]
        mf = os.path.join(self.casedir, name + ".meta.json")
        if race and "WARNING: DATA RACE" in out:
            # the race detector saw two unsynchronised accesses: a concrete failing execution, unless both
            # stacks lie entirely in harness files (zz_verif_*), which would be a defect of the harness
            for rep in out.split("==================")[1:]:
                if "WARNING: DATA RACE" not in rep:
                    continue
                frames = [l.strip() for l in rep.splitlines() if l.strip().startswith("/") and ".go:" in l]
                impl = [f for f in frames if "/usr/lib/go" not in f and "zz_verif_" not in f and "/testing/" not in f]
                if impl:
                    st.race = rep.strip()[:6000]
                    break
            if st.race and os.path.exists(mf) and out.count("--- FAIL") == out.count("race detected during execution of test"):
                rc = 0  # the only failure is the race itself: still evaluate the recorded cases
        if rc != 0 or not os.path.exists(mf):
            st.errors.append("harness %s failed (rc=%d): %s" % (name, rc, out[-3000:]))
            return st
        st.meta = json.load(open(mf))
        self.coq_eval(st, header, footer=footer)
        return st


def load_known():
    p = os.path.join(VERIF, "known_findings.txt")
    out = []
    if os.path.exists(p):
        for l in open(p):
            l = l.strip()
            if l.startswith("{"):
                out.append(json.loads(l))
    return out


def explain_case(ctx, stage_name, gi, header, expr):
    """Evaluate `expr` (a Gallina term over `c`, the failing case) in coqc and return what it prints."""
    try:
        st = [s for s in ctx.stages if s.name == stage_name][0]
        shard_size = st.meta.get("shard_size", 400)
        k, i = gi // shard_size, gi % shard_size
        body = open(os.path.join(ctx.casedir, "%s_%d.body" % (stage_name, k))).read()
        v = os.path.join(ctx.casedir, "%s_%d_explain.v" % (stage_name, k))
        open(v, "w").write(header + "\n" + body + "\nDefinition EX := Eval vm_compute in (match nth_error cases %d with Some c => Some (%s) | None => None end).\nPrint EX.\n" % (i, expr))
        rc, out, _ = run(["coqc", "-Q", COQ, "AV", os.path.basename(v)], cwd=ctx.casedir, timeout=600)
        m = re.search(r"^EX\s*=\s*(.*?)\n\s*:\s", out, flags=re.S | re.M)
        return re.sub(r"\s+", " ", m.group(1))[:3000] if m else out[-1500:]
    except Exception as ex:  # explanation is best effort
        return "explanation failed: %s" % ex


def finish(ctx, pid, P, known_bits=None, rule="", assumptions=None, extra=None, level="proof", explain=None):
    """Decide the verdict, write evidence and replay files, print VIOLATION / KNOWN-FINDING lines.

    known_bits: {bit: finding id}; a failing case whose code has bit 2 clear but a known bit set is an
    instance of that finding (the predicate is evaluated in Coq by the case evaluator)."""
    known_bits = known_bits or {}
    known = {k["id"]: k for k in load_known() if k.get("property") == pid}
    os.makedirs(os.path.join(VERIF, "evidence"), exist_ok=True)
    os.makedirs(os.path.join(VERIF, "replays"), exist_ok=True)
    violations = []   # (kind, stage, index, code, desc)
    known_hits = {}
    mismatches = []
    infra = []
    for st in ctx.stages:
        infra += st.errors
        descs = st.meta.get("descs") or []
        for idx, code, gi in st.failing:
            desc = descs[gi] if gi < len(descs) else None
            handled = False
            for bit, fid in known_bits.items():
                if code & bit:
                    handled = True
                    k = known.get(fid)
                    if k is not None and k.get("status") == "open":
                        known_hits.setdefault(fid, []).append((st.name, idx))
                    else:
                        violations.append(("spec", st.name, idx, code, desc, "instance of %s, which is not listed as an open finding" % fid))
            if code & 2:
                violations.append(("spec", st.name, idx, code, desc, "observed behaviour violates the boolean specification"))
                handled = True
            if code & 1:
                mismatches.append((st.name, idx, code, desc))
    for st in ctx.stages:
        if st.race:
            violations.append(("race", st.name, -1, 2, {"data_race_report": st.race, "stage": st.name},
                               "the Go race detector reports unsynchronised accesses in implementation code"))
    nviol = 0
    lines = []
    for fid, hits in sorted(known_hits.items()):
        lines.append("KNOWN-FINDING: property=%s %s: %s (%d case(s) this run, e.g. %s#%d)" %
                     (pid, fid, known[fid].get("what", ""), len(hits), hits[0][0], hits[0][1]))
    for fid, k in sorted(known.items()):
        # a listed open finding that this run's cases happened not to exercise is still announced
        if k.get("status") == "open" and fid not in known_hits:
            lines.append("KNOWN-FINDING: property=%s %s: %s (0 case(s) this run: not exercised by the generated inputs)" %
                         (pid, fid, k.get("what", "")))

    def write_replay(tag, payload):
        p = os.path.join(VERIF, "replays", "%s-%d-%s.json" % (pid, ctx.seed, tag))
        payload.update(property=pid, seed=ctx.seed, tier=ctx.tier,
                       replay_cmd="./check %s --replay %s" % (pid, os.path.relpath(p, VERIF)))
        json.dump(payload, open(p, "w"), indent=1, default=str)
        return os.path.relpath(p, VERIF)

    if violations:
        # smallest description first = cheapest shrink
        violations.sort(key=lambda v: len(json.dumps(v[4], default=str)))
        v = violations[0]
        st = [s for s in ctx.stages if s.name == v[1]][0]
        expl = None
        if explain and v[0] != "race" and v[1].replace("search", "") in explain:
            hdr, expr = explain[v[1].replace("search", "")]
            gi = [g for (ix, c, g) in st.failing if ix == v[2]][0]
            expl = explain_case(ctx, v[1], gi, hdr, expr)
        rp = write_replay("%s-%d" % (v[1], v[2]), dict(kind="failing-input", stage=v[1], index=v[2], code=v[3], case=v[4],
                          reason=v[5], explanation=expl, n=st.meta.get("evaluations"), others=[(x[1], x[2], x[3]) for x in violations[1:20]]))
        lines.append("VIOLATION property=%s replay=%s" % (pid, rp))
        nviol = len(violations)
    elif not P["ok"] or mismatches or infra:
        what = []
        if not P["ok"]:
            what.append(dict(kind="proof", file="coq/props/%s.v" % pid, not_closed=P.get("open"), forbidden=P.get("forbidden"),
                             log=P.get("log", "")[-3000:]))
        if mismatches:
            mismatches.sort(key=lambda v: len(json.dumps(v[3], default=str)))
            m = mismatches[0]
            what.append(dict(kind="correspondence", relation="model output = implementation output (stage %s)" % m[0],
                             stage=m[0], index=m[1], code=m[2], case=m[3], count=len(mismatches)))
        if infra:
            what.append(dict(kind="correspondence-infrastructure", errors=[e[-3000:] for e in infra[:5]]))
        payload = dict(kind="no-failing-input-found", broken=what)
        if mismatches:
            payload.update(stage=mismatches[0][0], index=mismatches[0][1],
                           n=[s for s in ctx.stages if s.name == mismatches[0][0]][0].meta.get("evaluations"))
        rp = write_replay("unproved", payload)
        lines.append("VIOLATION property=%s replay=%s no-failing-input-found" % (pid, rp))
        nviol = 1

    # evidence
    ev_total = sum(s.meta.get("evaluations", 0) for s in ctx.stages)
    dn = sum(s.meta.get("distinct_nontrivial", 0) for s in ctx.stages)
    samples = []
    dist = {}
    for s in ctx.stages:
        samples += (s.meta.get("samples") or [])[:2]
        dist[s.name] = s.meta.get("distribution", {})
    shards = sum(s.shards for s in ctx.stages)
    # a shard's obligation "model = implementation and the specification holds on every case" is discharged
    # when it has no failing case other than instances of OPEN known findings (reported separately)
    open_bits = 0
    for bit, fid in known_bits.items():
        if known.get(fid, {}).get("status") == "open":
            open_bits |= bit
    shards_ok = 0
    for st in ctx.stages:
        size = st.meta.get("shard_size", 400) or 400
        bad = set()
        for idx, code, gi in st.failing:
            if code & ~open_bits:
                bad.add(gi // size)
        shards_ok += max(0, st.shards - len(bad) - len([e for e in st.errors if e.startswith("coqc failed")]))
    nth = len(P.get("theorems", []))
    cov = dict(
        obligations=nth + shards,
        discharged=len(P.get("closed", [])) + shards_ok,
        checker_cmd="make -C coq props/%s.vo && coqc -Q coq AV coq/props/%s.v (Print Assumptions parsed); coqc on %d generated case shard(s)" % (pid, pid, shards),
        trusted_base=TRUSTED_BASE,
        theorems=P.get("theorems", []),
        theorems_closed=P.get("closed", []),
        evaluations=ev_total,
        distinct_nontrivial=dn,
        rule=rule,
        samples=samples if samples else [{"note": "no cases generated"}],
        traces_validated_against_impl=sum(s.evaluated for s in ctx.stages),
        input_distribution=dist,
        stages={s.name: dict(evaluations=s.meta.get("evaluations", 0), evaluated_in_coq=s.evaluated, shards=s.shards,
                             shards_clean=s.shards_ok, failing=len(s.failing), wall=s.wall) for s in ctx.stages},
        known_findings_seen={k: len(v) for k, v in known_hits.items()},
        mismatches=len(mismatches),
    )
    if extra:
        cov.update(extra)
    ev = dict(property_id=pid, tier=ctx.tier, seed=ctx.seed, level=level, coverage=cov,
              assumptions=assumptions or [], wall_s=round(time.time() - ctx.t0, 2), violations=nviol)
    json.dump(ev, open(os.path.join(VERIF, "evidence", pid + ".json"), "w"), indent=1, default=str)
    for l in lines:
        log(l)
    log("%s %s: theorems %d/%d closed, shards %d/%d clean, cases %d (nontrivial distinct %d), mismatches %d, violations %d, %.1fs" %
        (pid, ctx.tier, len(P.get("closed", [])), nth, shards_ok, shards, ev_total, dn, len(mismatches), nviol, time.time() - ctx.t0))
    return 1 if nviol else 0


def coqchk_stage(pid):
    """Thorough tier: re-check props/<pid>.vo and everything it depends on with the independent checker
    and read its context summary (axioms, type-in-type, unsafe fixpoints, assumed positivity).
    Cached per content of all .v files."""
    h = hashlib.sha256()
    for f in coq_sources():
        h.update(f.encode())
        h.update(open(f, "rb").read())
    cdir = os.path.join(BUILD, "coqchk")
    os.makedirs(cdir, exist_ok=True)
    cf = os.path.join(cdir, "%s-%s.json" % (pid, h.hexdigest()[:20]))
    if os.path.exists(cf):
        return json.load(open(cf))
    with Lock("coqchk"):
        rc, out, dt = run(["coqchk", "-silent", "-o", "-Q", ".", "AV", "AV.props.%s" % pid], cwd=COQ, timeout=3000)
    def field(name):
        m = re.search(r"\* %s:\s*(.*?)\n\s*\n" % re.escape(name), out, flags=re.S)
        return re.sub(r"\s+", " ", m.group(1)).strip() if m else "?"
    res = dict(rc=rc, wall_s=round(dt, 1), axioms=field("Axioms"),
               type_in_type=field("Constants/Inductives relying on type-in-type"),
               unsafe_fixpoints=field("Constants/Inductives relying on unsafe (co)fixpoints"),
               assumed_positivity=field("Inductives whose positivity is assumed"))
    res["ok"] = rc == 0 and all(res[k] == "<none>" for k in ("axioms", "type_in_type", "unsafe_fixpoints", "assumed_positivity"))
    if rc == 0:
        json.dump(res, open(cf, "w"))
    else:
        res["log"] = out[-2000:]
    return res


def proof_stage(pid, extra_targets=None):
    """P: build what props/<pid>.v needs, parse Print Assumptions, scan for forbidden words."""
    targets = ["props/%s.vo" % pid] + (extra_targets or [])
    ok, out, dt = coq_make(targets)
    P = dict(ok=False, theorems=[], closed=[], open={}, log=out, make_s=round(dt, 2))
    try:
        P["theorems"] = props_theorems(pid)
    except Exception as ex:  # props file missing
        P["log"] += "\n" + str(ex)
        return P
    if not ok:
        # the model/evaluator may still build even if a proof is broken: try those targets alone
        if extra_targets:
            ok2, out2, _ = coq_make(extra_targets)
            P["model_builds"] = ok2
        return P
    P["model_builds"] = True
    r = props_check(pid)
    P.update(theorems=r["theorems"], closed=r["closed"], open=r["open"], ok=r["ok"], log=r["log"][-4000:])
    bad = scan_forbidden()
    if bad:
        P["ok"] = False
        P["forbidden"] = bad
    return P
