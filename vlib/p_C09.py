from .props import HDR, standard
from .p_C13 import CFS, IMPORTS


def run(ctx):
    n = {"quick": 150, "thorough": 4000}[ctx.tier]
    ops = {"quick": 40, "thorough": 150}[ctx.tier]

    def stages(ctx, mult, suffix, off):
        ctx.stage("c09" + suffix, "sdk/go/arvados", "arvados", CFS + ["C09/zz_verif_c09_test.go"], "TestVerifC09$",
                  n * mult, HDR.format(imports=IMPORTS), seed_offset=off, shard=20,
                  env={"VERIF_STAGE": "c09" + suffix, "VERIF_OPS": str(ops)})
    return standard(ctx, "C09", ["model/CFS_run.vo"], stages,
                    rule="histories from the empty collection / from generated manifests (interior empty blocks, arbitrary "
                         "token alignments, odd names) / load-and-save-unchanged, with saves under Keep failure modes "
                         "(never, always, by content); non-trivial = at least one successful save",
                    assumptions=["a failing synchronous save is exercised only in the all-writes-fail mode (per-block outcomes make the set of blocks written by a failing save depend on goroutine timing)",
                                 "block digests are taken from the fake Keep (content -> locator table); the Gallina MD5 is not in this property's path"])
