from .props import HDR, standard


def run(ctx):
    n_sdk = {"quick": 400, "thorough": 2000}[ctx.tier]
    n_ks = {"quick": 300, "thorough": 4000}[ctx.tier]
    hdr = HDR.format(imports="lib.TokSplit model.C07_model model.C07_run")

    def stages(ctx, mult, suffix, off):
        ctx.stage("c07sdk" + suffix, "sdk/go/arvados", "arvados", ["C07/zz_verif_c07_test.go"], "TestVerifC07$",
                  n_sdk * mult, hdr, seed_offset=off, shard=25, env={"VERIF_STAGE": "c07sdk" + suffix})
        ctx.stage("c07ks" + suffix, "services/keepstore", "main", ["C07/zz_verif_c07ks_test.go"], "TestVerifC07KS$",
                  n_ks * mult, hdr, seed_offset=off, shard=40, env={"VERIF_STAGE": "c07ks" + suffix})
    return standard(ctx, "C07", ["model/C07_run.vo"], stages,
                    rule="SignLocator / VerifySignature / SignManifest / SignedLocatorRe of package arvados on generated hashes, hints, "
                         "tokens (with @ + / and arbitrary bytes), keys of 1-200 bytes, TTLs, expiries now +-1h..10y and 0..2^32+; every "
                         "single-character and single-field perturbation of signed locators; keepstore GET through the real router with "
                         "signing on/off; distinct by hash of the case term; non-trivial = signing with key and token, any verification, "
                         "a manifest that got a signature, any regexp string, any GET with signing on",
                    assumptions=["time.Now() is read by the implementation: every expiry is at least 1 h (usually) from now and presentations whose "
                                 "expiry field decodes to within 2 s of the call are skipped, so the verdict does not depend on the instant",
                                 "HMAC-SHA1 is computed by the Gallina implementation lib/Sha1.v (validated by this correspondence)",
                                 "TTLs are non-negative with at most millisecond fractions (Duration.Seconds() is a float64)",
                                 "services/api/app/models/blob.rb cannot be run (no Ruby): its transcription rails_sign_locator is compared with Go's output"])
