import os
from concurrent.futures import ThreadPoolExecutor

from . import core
from .props import HDR, standard

HARNESS = os.path.join(core.VERIF, "harness", "C10")


def _gen(ctx, gopkg):
    """copy of the shared generator with the package clause of the package under test"""
    os.makedirs(ctx.ovdir, exist_ok=True)
    p = os.path.join(ctx.ovdir, "c10gen_%s.go" % gopkg)
    src = open(os.path.join(HARNESS, "c10gen.go.tmpl")).read().replace("PKGNAME", gopkg)
    open(p, "w").write(src)
    return p


def hdr(mod):
    return HDR.format(imports="lib.Md5 lib.Bytes63 model.C10_manifest model.C10_ranges model.C10_fs model.C10_gomanifest "
                              "model.C10_python model.C10_run") + "From Coq Require Import Uint63.\nLocal Open Scope uint63_scope.\nImport C10_run.%s.\n" % mod


# extra overlay replacements (used only for mutation experiments: VERIF_C10_REPLACE="rel/path.go=/abs/copy.go,...")
def _extra_replace():
    out = {}
    for kv in filter(None, os.environ.get("VERIF_C10_REPLACE", "").split(",")):
        k, v = kv.split("=", 1)
        out[k] = v
    return out


def run(ctx):
    n = {"quick": 250, "thorough": 1000}[ctx.tier]
    pyranges = os.environ.get("VERIF_C10_PYDIR", os.path.join(core.REPO, "sdk", "python", "arvados"))

    def stages(ctx, mult, suffix, off):
        rep = _extra_replace()
        r1 = dict(rep)
        r1["sdk/go/arvados/zz_verif_c10gen_test.go"] = _gen(ctx, "arvados")
        r2 = dict(rep)
        r2["sdk/go/manifest/zz_verif_c10gen_test.go"] = _gen(ctx, "manifest")

        def fs_part():
            ctx.stage("fs" + suffix, "sdk/go/arvados", "arvados", ["C10/zz_verif_c10fs_test.go"], "TestVerifC10FS$",
                      n * mult, hdr("FS"), seed_offset=off, shard=64, replace=r1, env={"VERIF_STAGE": "fs" + suffix})

        def gm_part():
            ctx.stage("gm" + suffix, "sdk/go/manifest", "manifest", ["C10/zz_verif_c10gm_test.go"], "TestVerifC10GM$",
                      n * mult, hdr("GM"), seed_offset=off, shard=64, replace=r2, env={"VERIF_STAGE": "gm" + suffix})
            ctx.stage("py" + suffix, "sdk/go/manifest", "manifest", ["C10/zz_verif_c10gm_test.go"], "TestVerifC10PY$",
                      n * mult, hdr("PY"), seed_offset=off, shard=160, replace=r2,
                      env={"VERIF_STAGE": "py" + suffix, "VERIF_C10_PYDRIVER": os.path.join(HARNESS, "py_driver.py"),
                           "VERIF_C10_PYDIR": pyranges})

        # the two packages are independent: run their stages side by side
        with ThreadPoolExecutor(max_workers=2) as ex:
            for f in [ex.submit(fs_part), ex.submit(gm_part)]:
                f.result()
        ctx.stages.sort(key=lambda s: s.name)
        if ctx.tier == "thorough" and suffix == "" and ctx.replay is None:
            # exhaustive small scope: 1-4 blocks of size 0-3, every range inside the stream, all three codecs
            ctx.stage("fsexh", "sdk/go/arvados", "arvados", ["C10/zz_verif_c10fs_test.go"], "TestVerifC10FS$",
                      0, hdr("FS"), shard=400, replace=r1, env={"VERIF_STAGE": "fsexh", "VERIF_MODE": "exh"})
            ctx.stage("gmexh", "sdk/go/manifest", "manifest", ["C10/zz_verif_c10gm_test.go"], "TestVerifC10GM$",
                      0, hdr("GM"), shard=800, replace=r2, env={"VERIF_STAGE": "gmexh", "VERIF_MODE": "exh"})
            ctx.stage("pyexh", "sdk/go/manifest", "manifest", ["C10/zz_verif_c10gm_test.go"], "TestVerifC10PY$",
                      0, hdr("PY"), shard=800, replace=r2,
                      env={"VERIF_STAGE": "pyexh", "VERIF_MODE": "exh",
                           "VERIF_C10_PYDRIVER": os.path.join(HARNESS, "py_driver.py"), "VERIF_C10_PYDIR": pyranges})

    return standard(ctx, "C10", ["model/C10_run.vo", "lib/Bytes63.vo"], stages,
                    rule="grammar-directed manifests (1-4 streams, 1-5 blocks of 0-20 bytes with interior empty and repeated blocks, "
                         "file tokens at every block-boundary alignment, repeated tokens/names, names with space, colon, backslash, "
                         "\\ddd and high bytes, directory markers), 30% single-token mutations (half of them with a second valid manifest "
                         "appended before the mutation: damaged line first / interior / last), 10% arbitrary byte strings; every "
                         "manifest goes through StreamIter, Extract x4, BlockIterWithDuplicates+Err, Manifest.FileSegmentIterByName x2; "
                         "distinct by hash of the case term; non-trivial = at least 3 tokens in the text",
                    assumptions=["MD5 is computed by the Gallina implementation lib/Md5.v",
                                 "the Go manifest package runs in a child process: a goroutine panic is observed as outcome Panic",
                                 "Python runs _ranges.py/_normalize_stream.py of /repo under python3 with a stub arvados.config; "
                                 "names are passed as latin-1 strings (one char per byte)",
                                 "streams whose block sizes sum to >= 2^63 are outside the Go manifest model (reported Unmodelled)"])
