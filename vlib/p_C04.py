import os

from . import core
from .props import HDR, standard

KS = "services/keepstore"
FILES_H = ["ks/zz_verif_ks_common_test.go", "C04/zz_verif_c04h_test.go"]
HDR_H = (HDR.format(imports="model.C04_model model.C04_run model.C04_conf model.C04_conf_run") + "Local Open Scope Z_scope.\n"
         "Notation case := hcase.\nDefinition failing := hfailing.\n")


from .ks_instr import instrument as _instrument, instrumented_overlay, replace_env as _replace  # noqa: E402


def stage_h(ctx, n, suffix="", off=0, extra_env=None):
    e = {"VERIF_STAGE": "c04h" + suffix}
    e.update(extra_env or {})
    return ctx.stage("c04h" + suffix, KS, "main", FILES_H, "TestVerifC04H$", n, HDR_H, seed_offset=off, shard=10,
                     env=e, timeout=1500, replace=_replace() or None)


FILES_I = ["ks/zz_verif_ks_common_test.go", "ks/zz_verif_ks_hook_test.go", "C04/zz_verif_c04i_test.go"]
HDR_I = ("From Coq Require Import NArith List String Bool.\nFrom AV Require Import model.C04_race model.C04_race_run.\n"
         "Import ListNotations.\nLocal Open Scope string_scope.\n")
UV = "services/keepstore/unix_volume.go"


def instrument(ctx, pid):
    """Once per check run (both the interleaving and the delayed-write level use the instrumented copy)."""
    if getattr(ctx, "_c04_inst", None) is None:
        ctx._c04_inst = _instrument(ctx, tolerant=True)
    return ctx._c04_inst


SCENARIOS = [(p, put, rm) for put in (False, True) for rm in (False, True)
             for p in (("PAbsent", "POldGood", "POldCorrupt", "PFreshGood") if put else ("PAbsent", "POldGood", "PFreshGood"))]


def race_schedules(ctx):
    """All maximal schedules of every scenario, enumerated by the Coq model (printed by coqc)."""
    import hashlib
    import json
    import re
    os.makedirs(ctx.casedir, exist_ok=True)
    # the enumeration is a pure function of the model sources (34 s of coqc for 28 600 schedules): cached by
    # their content, like the .vo files
    hsh = hashlib.sha256(repr(SCENARIOS).encode())
    for f in ("model/C04_race.v", "model/C04_race_run.v"):
        hsh.update(open(os.path.join(core.COQ, f), "rb").read())
    cdir = os.path.join(core.BUILD, "c04_sched_cache")
    os.makedirs(cdir, exist_ok=True)
    cf = os.path.join(cdir, hsh.hexdigest()[:24] + ".json")
    if os.path.exists(cf):
        try:
            return {int(k): v for k, v in json.load(open(cf)).items()}, None
        except Exception:
            pass
    v = os.path.join(ctx.casedir, "sched_enum_c04i.v")
    body = HDR_I
    for i, (p, put, rm) in enumerate(SCENARIOS):
        body += "Definition S_%d := Eval vm_compute in sched_strs FUEL (init %s %s %s).\nPrint S_%d.\n" % (
            i, p, str(put).lower(), str(rm).lower(), i)
    open(v, "w").write(body)
    rc, out, _ = core.run(["coqc", "-Q", core.COQ, "AV", os.path.basename(v)], cwd=ctx.casedir, timeout=900)
    if rc != 0:
        return None, "coqc failed on schedule enumeration: " + out[-2000:]
    res = {}
    parts = re.split(r"^S_(\d+) =", out, flags=re.M)
    for k in range(1, len(parts), 2):
        res[int(parts[k])] = re.findall(r'"([ab0-3]*)"', parts[k + 1])
    if len(res) != len(SCENARIOS) or any(not v for v in res.values()):
        return None, "could not parse the schedule enumeration"
    tmp = cf + ".%d.tmp" % os.getpid()
    json.dump(res, open(tmp, "w"))
    os.replace(tmp, cf)
    return res, None


def stratified(rnd, allsch, k):
    """Sample k schedules so that the flock-contention shapes are all present: a third from the schedules
    in which Trash (B) gets blocked behind A's flock (mask digit 1: B opened the file, A locked it, B wakes
    up after A has finished with the path), a third from those in which A gets blocked behind Trash
    (digit 2), the rest from the schedules without contention.  Empty strata give their share to the others."""
    strata = [[x for x in allsch if "1" in x[1::2] or "0" in x[1::2]],
              [x for x in allsch if "2" in x[1::2] and "1" not in x[1::2] and "0" not in x[1::2]],
              [x for x in allsch if not set(x[1::2]) & set("012")]]
    strata = [s for s in strata if s]
    pick = []
    for j, s in enumerate(strata):
        share = (k - len(pick)) // (len(strata) - j)
        pick += s if share >= len(s) else rnd.sample(s, share)
    chosen = set(pick)
    rest = [x for x in allsch if x not in chosen]
    if len(pick) < k and rest:
        pick += rnd.sample(rest, min(k - len(pick), len(rest)))
    return pick


def stage_i(ctx, per_scenario, suffix="", off=0):
    import json
    import random
    name = "c04i" + suffix
    inst, err, warn = instrument(ctx, "C04")
    sch = None
    if err is None:
        sch, err = race_schedules(ctx)
    if err is not None:
        st = core.Stage(name)
        st.errors.append(err)
        ctx.stages.append(st)
        return st
    rnd = random.Random(ctx.seed + off + 4004)
    chosen = []
    total = 0
    for i, (p, put, rm) in enumerate(SCENARIOS):
        allsch = sch[i]
        total += len(allsch)
        k = per_scenario if per_scenario else len(allsch)
        if p == "POldCorrupt" and per_scenario:
            k *= 2
        pick = allsch if k >= len(allsch) else stratified(rnd, allsch, k)
        chosen += [dict(prior=p, put=put, rm=rm, steps=x) for x in pick]
    jf = os.path.join(ctx.casedir, "sched_" + name + ".json")
    json.dump(chosen, open(jf, "w"))
    rep = dict(_replace())
    rep[UV] = inst
    with instrumented_overlay():
        st = ctx.stage(name, KS, "main", FILES_I, "TestVerifC04I$", len(chosen), HDR_I, seed_offset=off, shard=150,
                       env={"VERIF_STAGE": name, "VERIF_C04I_SCHEDULES": jf}, timeout=2400, replace=rep)
    st.meta.setdefault("distribution", {})["schedules_enumerated_by_model"] = total
    if warn:
        # the instrumented copy lacks a call the model has a step for: the run above looked for a failing
        # input; the correspondence counts as broken whatever it found
        st.errors.append(warn)
    return st


FILES_D = ["ks/zz_verif_ks_common_test.go", "ks/zz_verif_ks_hook_test.go", "C04/zz_verif_c04d_test.go"]
HDR_D = ("From Coq Require Import ZArith NArith List String Bool.\n"
         "From AV Require Import model.C04_race model.C04_delay model.C04_delay_run.\n"
         "Import ListNotations.\nLocal Open Scope string_scope.\nLocal Open Scope Z_scope.\n"
         "Notation case := dcase.\nDefinition failing := dfailing.\n")
PRIORS = ("PAbsent", "POldGood", "POldCorrupt", "PFreshGood")


def delay_labels(ctx):
    """The yield-point sequence of every (prior, PUT/TOUCH) scenario with the commit phase marked ("!label"),
    computed by the Coq model (model/C04_delay_run.v scenario_labels)."""
    import re
    os.makedirs(ctx.casedir, exist_ok=True)
    v = os.path.join(ctx.casedir, "labels_c04d.v")
    body = HDR_D
    keys = []
    for p in PRIORS:
        for put in (True, False):
            k = len(keys)
            keys.append("%s/%s" % (p, str(put).lower()))
            body += "Definition L_%d := Eval vm_compute in scenario_labels %s %s false.\nPrint L_%d.\n" % (k, p, str(put).lower(), k)
    open(v, "w").write(body)
    rc, out, _ = core.run(["coqc", "-Q", core.COQ, "AV", os.path.basename(v)], cwd=ctx.casedir, timeout=600)
    if rc != 0:
        return None, "coqc failed on the label enumeration of the delayed-write level: " + out[-2000:]
    res = {}
    parts = re.split(r"^L_(\d+) =", out, flags=re.M)
    for k in range(1, len(parts), 2):
        res[keys[int(parts[k])]] = re.findall(r'"([^"]*)"', parts[k + 1])
    if len(res) != len(keys) or any(not x for x in res.values()):
        return None, "could not parse the label enumeration of the delayed-write level"
    return res, None


def stage_d(ctx, n, suffix="", off=0):
    import json
    name = "c04d" + suffix
    inst, err, warn = instrument(ctx, "C04")
    labels = None
    if err is None:
        labels, err = delay_labels(ctx)
    if err is not None:
        st = core.Stage(name)
        st.errors.append(err)
        ctx.stages.append(st)
        return st
    jf = os.path.join(ctx.casedir, "labels_" + name + ".json")
    json.dump({k.replace("/true", "/true").replace("/false", "/false"): v for k, v in labels.items()}, open(jf, "w"))
    rep = dict(_replace())
    rep[UV] = inst
    with instrumented_overlay():
        st = ctx.stage(name, KS, "main", FILES_D, "TestVerifC04D$", n, HDR_D, seed_offset=off, shard=40,
                       env={"VERIF_STAGE": name, "VERIF_C04D_LABELS": jf}, timeout=1500, replace=rep)
    if warn:
        st.errors.append(warn)
    return st


def run(ctx):
    n = {"quick": 100, "thorough": 1500}[ctx.tier]
    nd = {"quick": 80, "thorough": 2000}[ctx.tier]

    def stages(ctx, mult, suffix, off):
        stage_h(ctx, n * mult, suffix, off)
        stage_i(ctx, 0 if (ctx.tier == "thorough" and not suffix) else 15 * mult, suffix, off)
        stage_d(ctx, nd * mult, suffix, off)
    explain = {"c04h": (HDR_H, "hexplain c")}
    return standard(ctx, "C04", ["model/C04_run.vo", "model/C04_conf_run.vo", "model/C04_race_run.vo", "model/C04_delay_run.vo"], stages,
                    explain=explain,
                    rule="random histories (8-40 requests) of PUT/TOUCH/GET/trash-list/DELETE/untrash/empty-trash on 1-2 Directory volumes (volume-level ReadOnly and per-server AccessViaHosts flags, optionally a third volume of another server only; planted old/fresh blocks and trashed copies), "
                         "time advanced by shifting file times; sampled interleavings of PUT/TOUCH with DELETE; single PUT/TOUCH requests with clock jumps at their yield points followed by a DELETE; "
                         "distinct by hash of the case term; non-trivial = a block was trashed or an untrash was issued (histories), a prior copy exists (interleavings), an acknowledged request with at least one clock jump (delayed writes)",
                    assumptions=["virtual clock: time passes by shifting every mtime and trash deadline backwards by whole seconds; TTL 2 h, every age/deadline comparison kept >= 5 s from its boundary",
                                 "each step's clock value is the one the implementation read, recovered from the mtime / deadline it wrote (checked to lie inside the window measured around the request)",
                                 "TrashItem and EmptyTrash are called directly, as the trash worker and the emptyTrash ticker do",
                                 "interleaving level: one writable volume, Serialize off; flock(2) per inode, utimes/stat/rename/unlink by path; mtimes abstracted to {older than TTL, fresh}",
                                 "a thread expected to be blocked in flock(2) is confirmed by a 15 ms grace period (only a missed detection, never a false alarm, can result from timing)",
                                 "history level: the case carries Volumes.<uuid>.ReadOnly and AccessViaHosts (this server's URL, another server's URL) as configured; which volumes are writable is derived from that in Coq, never read from the server; block files and trashed copies of several ages are planted in every configured volume's directory (also of volumes of the other server only) before the history; mount order = order of GET /mounts",
                                 "delayed-write level: unix_volume.go reads its clock through verifNow() (real clock + harness offset, rewritten by tools/instrument); one request runs alone and the offset jumps 10 min - 3 h inside the hook of chosen yield points (incl. the v.lock points, Serialize on and off); every clock read of the request is bracketed by two stamps taken on its own goroutine; stored mtimes compared with 1 s slack; the commit phase (timestamp -> acknowledgement) is excluded from the demanded protection, as in the code"])


def dev(ctx, n, extra):
    core.coq_make(["model/C04_run.vo", "model/C04_conf_run.vo", "model/C04_race_run.vo", "model/C04_delay_run.vo"])
    if extra.get("ONLY") in (None, "H"):
        stage_h(ctx, n, extra_env=extra)
    if extra.get("ONLY") in (None, "I"):
        stage_i(ctx, int(extra.get("PER", "6")))
    if extra.get("ONLY") in (None, "D"):
        stage_d(ctx, n)
