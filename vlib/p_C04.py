import os

from . import core
from .props import HDR, standard

KS = "services/keepstore"
FILES_H = ["ks/zz_verif_ks_common_test.go", "C04/zz_verif_c04h_test.go"]
HDR_H = HDR.format(imports="model.C04_model model.C04_run") + "Local Open Scope Z_scope.\n"


def _replace():
    """VERIF_REPLACE="services/keepstore/x.go=/abs/mutated.go,..." (mutation checks only; /repo is never edited)."""
    out = {}
    for kv in filter(None, os.environ.get("VERIF_REPLACE", "").split(",")):
        k, v = kv.split("=", 1)
        out[k] = v
    return out


def stage_h(ctx, n, suffix="", off=0, extra_env=None):
    e = {"VERIF_STAGE": "c04h" + suffix}
    e.update(extra_env or {})
    return ctx.stage("c04h" + suffix, KS, "main", FILES_H, "TestVerifC04H$", n, HDR_H, seed_offset=off, shard=25,
                     env=e, timeout=1500, replace=_replace() or None)


def run(ctx):
    n = {"quick": 150, "thorough": 3000}[ctx.tier]

    def stages(ctx, mult, suffix, off):
        stage_h(ctx, n * mult, suffix, off)
    return standard(ctx, "C04", ["model/C04_run.vo"], stages, known_bits={4: "F14"},
                    rule="random histories (8-40 requests) of PUT/TOUCH/GET/trash-list/DELETE/untrash/empty-trash on 1-2 Directory volumes, "
                         "time advanced by shifting file times; distinct by hash of the case term; non-trivial = a block was trashed or an untrash was issued",
                    assumptions=[])


def dev(ctx, n, extra):
    core.coq_make(["model/C04_run.vo"])
    stage_h(ctx, n, extra_env=extra)
