import os

from . import core
from .props import HDR, standard

KS = "services/keepstore"
FILES_H = ["ks/zz_verif_ks_common_test.go", "C04/zz_verif_c04h_test.go"]
HDR_H = HDR.format(imports="model.C04_model model.C04_run") + "Local Open Scope Z_scope.\n"


from .ks_instr import instrument as _instrument, instrumented_overlay, replace_env as _replace  # noqa: E402


def stage_h(ctx, n, suffix="", off=0, extra_env=None):
    e = {"VERIF_STAGE": "c04h" + suffix}
    e.update(extra_env or {})
    return ctx.stage("c04h" + suffix, KS, "main", FILES_H, "TestVerifC04H$", n, HDR_H, seed_offset=off, shard=10,
                     env=e, timeout=1500, replace=_replace() or None)


FILES_I = ["ks/zz_verif_ks_common_test.go", "ks/zz_verif_ks_hook_test.go", "C04/zz_verif_c04i_test.go"]
HDR_I = ("From Coq Require Import NArith List String Bool.\nFrom AV Require Import model.C04_race model.C04_race_run.\n"
         "Import ListNotations.\nLocal Open Scope string_scope.\n")
UV = "services/keepstore/unix_volume.go"


def instrument(ctx, pid):
    return _instrument(ctx)


SCENARIOS = [(p, put, rm) for put in (False, True) for rm in (False, True)
             for p in (("PAbsent", "POldGood", "POldCorrupt", "PFreshGood") if put else ("PAbsent", "POldGood", "PFreshGood"))]


def race_schedules(ctx):
    """All maximal schedules of every scenario, enumerated by the Coq model (printed by coqc)."""
    import re
    os.makedirs(ctx.casedir, exist_ok=True)
    v = os.path.join(ctx.casedir, "sched_enum_c04i.v")
    body = HDR_I
    for i, (p, put, rm) in enumerate(SCENARIOS):
        body += "Definition S_%d := Eval vm_compute in sched_strs FUEL (init %s %s %s).\nPrint S_%d.\n" % (
            i, p, str(put).lower(), str(rm).lower(), i)
    open(v, "w").write(body)
    rc, out, _ = core.run(["coqc", "-Q", core.COQ, "AV", os.path.basename(v)], cwd=ctx.casedir, timeout=900)
    if rc != 0:
        return None, "coqc failed on schedule enumeration: " + out[-2000:]
    res = {}
    parts = re.split(r"^S_(\d+) =", out, flags=re.M)
    for k in range(1, len(parts), 2):
        res[int(parts[k])] = re.findall(r'"([ab0-3]*)"', parts[k + 1])
    if len(res) != len(SCENARIOS) or any(not v for v in res.values()):
        return None, "could not parse the schedule enumeration"
    return res, None


def stage_i(ctx, per_scenario, suffix="", off=0):
    import json
    import random
    name = "c04i" + suffix
    inst, err = instrument(ctx, "C04")
    sch = None
    if err is None:
        sch, err = race_schedules(ctx)
    if err is not None:
        st = core.Stage(name)
        st.errors.append(err)
        ctx.stages.append(st)
        return st
    rnd = random.Random(ctx.seed + off + 4004)
    chosen = []
    total = 0
    for i, (p, put, rm) in enumerate(SCENARIOS):
        allsch = sch[i]
        total += len(allsch)
        k = per_scenario if per_scenario else len(allsch)
        if p == "POldCorrupt" and per_scenario:
            k *= 2
        pick = allsch if k >= len(allsch) else rnd.sample(allsch, k)
        chosen += [dict(prior=p, put=put, rm=rm, steps=x) for x in pick]
    jf = os.path.join(ctx.casedir, "sched_" + name + ".json")
    json.dump(chosen, open(jf, "w"))
    rep = dict(_replace())
    rep[UV] = inst
    with instrumented_overlay():
        st = ctx.stage(name, KS, "main", FILES_I, "TestVerifC04I$", len(chosen), HDR_I, seed_offset=off, shard=150,
                       env={"VERIF_STAGE": name, "VERIF_C04I_SCHEDULES": jf}, timeout=2400, replace=rep)
    st.meta.setdefault("distribution", {})["schedules_enumerated_by_model"] = total
    return st


def run(ctx):
    n = {"quick": 100, "thorough": 1500}[ctx.tier]

    def stages(ctx, mult, suffix, off):
        stage_h(ctx, n * mult, suffix, off)
        stage_i(ctx, 0 if (ctx.tier == "thorough" and not suffix) else 15 * mult, suffix, off)
    return standard(ctx, "C04", ["model/C04_run.vo", "model/C04_race_run.vo"], stages,
                    rule="random histories (8-40 requests) of PUT/TOUCH/GET/trash-list/DELETE/untrash/empty-trash on 1-2 Directory volumes, "
                         "time advanced by shifting file times; distinct by hash of the case term; non-trivial = a block was trashed or an untrash was issued",
                    assumptions=["virtual clock: time passes by shifting every mtime and trash deadline backwards by whole seconds; TTL 2 h, every age/deadline comparison kept >= 5 s from its boundary",
                                 "each step's clock value is the one the implementation read, recovered from the mtime / deadline it wrote (checked to lie inside the window measured around the request)",
                                 "TrashItem and EmptyTrash are called directly, as the trash worker and the emptyTrash ticker do",
                                 "interleaving level: one writable volume, Serialize off; flock(2) per inode, utimes/stat/rename/unlink by path; mtimes abstracted to {older than TTL, fresh}",
                                 "a thread expected to be blocked in flock(2) is confirmed by a 15 ms grace period (only a missed detection, never a false alarm, can result from timing)"])


def dev(ctx, n, extra):
    core.coq_make(["model/C04_run.vo", "model/C04_race_run.vo"])
    if extra.get("ONLY") != "I":
        stage_h(ctx, n, extra_env=extra)
    if extra.get("ONLY") != "H":
        stage_i(ctx, int(extra.get("PER", "6")))
