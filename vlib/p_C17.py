import os

from . import core
from .props import HDR, standard
from .p_C10 import _gen, _extra_replace


def hdr():
    return (HDR.format(imports="lib.Bytes63 model.C10_manifest model.C10_ranges model.C10_fs model.C10_gomanifest "
                               "model.C17_model model.C17_run")
            + "From Coq Require Import Uint63.\nLocal Open Scope uint63_scope.\n")


def run(ctx):
    n = {"quick": 300, "thorough": 2000}[ctx.tier]

    def stages(ctx, mult, suffix, off):
        rep = _extra_replace()
        rep["lib/crunchrun/zz_verif_c10gen_test.go"] = _gen(ctx, "crunchrun")
        ctx.stage("c17" + suffix, "lib/crunchrun", "crunchrun", ["C17/zz_verif_c17_test.go"], "TestVerifC17$",
                  n * mult, hdr(), seed_offset=off, shard=40, replace=rep, env={"VERIF_STAGE": "c17" + suffix})

    return standard(ctx, "C17", ["model/C17_run.vo", "lib/Bytes63.vo"], stages, known_bits={4: "F11", 8: "F16", 16: "F18"},
                    rule="real directory trees under TMPDIR (depth <= 4, <= 40 entries, odd names, relative/absolute links, chains, "
                         "cycles, fifos) + 0-2 read-only collection mounts (C10 generator) + 0-2 secret mounts + optional excluded, "
                         "json and second tmp mounts; in 1 case of 4 one more mount whose mount point extends the name of the output dir, of "
                         "a directory of the tree or of another mount point without a slash (/ctr/outdir2, foo + foobar, /mnt/c1 + "
                         "/mnt/c1-old; collection, or tmp with a host directory out<ext> next to out/) and links to the shorter "
                         "path; distinct by hash of the case term; non-trivial = at least 4 entries",
                    assumptions=["the host has no /ctr, /mnt, /secret, /scratch or /tmp/x,/tmp/y paths (absolute link targets resolved "
                                 "by the host kernel give ENOENT), and the parent of the output dir contains nothing else "
                                 "(but the generated directory out<ext> of the name-extension stratum, which is part of the case)",
                                 "block packing/Flush are not modelled: the saved manifest is read back through a collection "
                                 "filesystem and compared as a sorted (path, kind, bytes) listing",
                                 "writable collection mounts and tmp mounts nested below other paths are outside the model (Unmodelled)"])
