import os
import threading
from concurrent.futures import ThreadPoolExecutor

from .props import HDR, standard


def _replace():
    """Teeth test hook: VERIF_C18_REPLACE="lib/controller/federation/conn.go=/verif/build/tmp/x/conn.go[,...]" overlays
    scratch copies of repo files (never set by a registered command)."""
    v = os.environ.get("VERIF_C18_REPLACE", "")
    return dict(kv.split("=", 1) for kv in v.split(",") if "=" in kv) or None


def run(ctx):
    n = {"quick": 280, "thorough": 5000}[ctx.tier]
    nl = {"quick": 240, "thorough": 3000}[ctx.tier]
    nf = {"quick": 170, "thorough": 3000}[ctx.tier]
    # the two stages of package lib/controller use the same overlay (one test binary) and run one after the other;
    # the federation stage runs next to them, and the Coq evaluation of a stage overlaps with the other harnesses
    # (--replay: core.Ctx.stage adds the stage's seed offset to the seed recorded in the replay file)
    ctl_files = ["C18/zz_verif_c18legacy_test.go", "C18/zz_verif_c18fan_test.go"]
    ctl_lock = threading.Lock()
    plain_go_test = ctx.go_test

    def go_test(pkg, *a, **kw):
        if pkg == "lib/controller":
            with ctl_lock:
                return plain_go_test(pkg, *a, **kw)
        return plain_go_test(pkg, *a, **kw)
    ctx.go_test = go_test

    def stages(ctx, mult, suffix, off):
        jobs = [
            lambda: ctx.stage("c18" + suffix, "lib/controller/federation", "federation", ["C18/zz_verif_c18_test.go"], "TestVerifC18$",
                              n * mult, HDR.format(imports="lib.TokSplit lib.ManifestTok model.C18_model model.C18_run"), seed_offset=off,
                              shard=18, pam=True, replace=_replace(), env={"VERIF_STAGE": "c18" + suffix}),
            lambda: ctx.stage("c18fan" + suffix, "lib/controller", "controller", ctl_files, "TestVerifC18Fan$",
                              nf * mult, HDR.format(imports="lib.TokSplit lib.ManifestTok model.C18_model model.C18_fan_model model.C18_fan_run"),
                              seed_offset=off + 2, shard=22, pam=True, replace=_replace(), env={"VERIF_STAGE": "c18fan" + suffix}),
            lambda: ctx.stage("c18legacy" + suffix, "lib/controller", "controller", ctl_files, "TestVerifC18Legacy$",
                              nl * mult, HDR.format(imports="lib.TokSplit lib.ManifestTok model.C18_model model.C18_legacy_run"),
                              seed_offset=off + 1, shard=30, pam=True, replace=_replace(), env={"VERIF_STAGE": "c18legacy" + suffix}),
        ]
        with ThreadPoolExecutor(max_workers=3) as ex:
            for f in [ex.submit(j) for j in jobs]:
                f.result()
        ctx.stages.sort(key=lambda st: st.name)
    return standard(ctx, "C18", ["model/C18_run.vo", "model/C18_legacy_run.vo", "model/C18_fan_run.vo"], stages,
                    rule="Conn.CollectionGet by portable data hash with 0-4 gated stub remotes (match / single-token tampering / other / "
                         "malformed manifest, errors of every status class 1xx-5xx, hang) released in a generated order, requests exact / with hints / "
                         "one digit off / other length; fetch by uuid; direct rewriteManifest and PortableDataHash on valid, tampered and malformed text; "
                         "legacy rewriteSignatures on fabricated responses; c18fan: GET by hash / by remote uuid through the legacy handler stack with "
                         "a stub HTTP transport, 0-4 remotes answering with any status code (200, 1xx, other 2xx, 3xx, 4xx, 5xx) and any body (record with "
                         "matching / tampered / unrelated manifest, lying or differing record hash, error document, not JSON), transport error or "
                         "silence, released one at a time by generated priority while following the request capacity (MaxRequestAmplification 0-4, 16; stratum: silent "
                         "remotes hold every slot but one), compressing clusters and client Accept-Encoding; "
                         "distinct by hash of the case term; non-trivial = at least 2 remotes or a successful fetch",
                    assumptions=["MD5 is computed by the Gallina implementation lib/Md5.v (validated by the correspondence)",
                                 "reply order is enforced by gates; a collection-type reply is followed by waiting for the call to return or for the bad-hash warning (fallback 2 s)",
                                 "c18fan: a released answer is followed by waiting until the request completes or the answer's body has been closed "
                                 "(fallback 3 s, tagged sync-timeout; on a correct tree the result does not depend on the order of failing answers); with a "
                                 "silent remote and no success the client gives up and the status may be 404 or 502 depending on goroutine timing (both accepted)",
                                 "c18fan: a remote request that does not reach the transport although a slot is free is recorded after a 15 s watchdog and judged by the "
                                 "evaluator (never reached on a correct tree); the stub transport emulates net/http's gzip rule"])
