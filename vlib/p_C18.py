import os

from .props import HDR, standard


def _replace():
    """Teeth test hook: VERIF_C18_REPLACE="lib/controller/federation/conn.go=/verif/build/tmp/x/conn.go[,...]" overlays
    scratch copies of repo files (never set by a registered command)."""
    v = os.environ.get("VERIF_C18_REPLACE", "")
    return dict(kv.split("=", 1) for kv in v.split(",") if "=" in kv) or None


def run(ctx):
    n = {"quick": 280, "thorough": 5000}[ctx.tier]
    nl = {"quick": 240, "thorough": 3000}[ctx.tier]

    def stages(ctx, mult, suffix, off):
        ctx.stage("c18" + suffix, "lib/controller/federation", "federation", ["C18/zz_verif_c18_test.go"], "TestVerifC18$",
                  n * mult, HDR.format(imports="lib.TokSplit lib.ManifestTok model.C18_model model.C18_run"), seed_offset=off,
                  shard=18, pam=True, replace=_replace(), env={"VERIF_STAGE": "c18" + suffix})
        ctx.stage("c18legacy" + suffix, "lib/controller", "controller", ["C18/zz_verif_c18legacy_test.go"], "TestVerifC18Legacy$",
                  nl * mult, HDR.format(imports="lib.TokSplit lib.ManifestTok model.C18_model model.C18_legacy_run"),
                  seed_offset=off + 1, shard=30, pam=True, replace=_replace(), env={"VERIF_STAGE": "c18legacy" + suffix})
    return standard(ctx, "C18", ["model/C18_run.vo", "model/C18_legacy_run.vo"], stages,
                    rule="Conn.CollectionGet by portable data hash with 0-4 gated stub remotes (match / single-token tampering / other / "
                         "malformed manifest, 404, 5xx, hang) released in a generated order, requests exact / with hints / one digit off / "
                         "other length; fetch by uuid; direct rewriteManifest and PortableDataHash on valid, tampered and malformed text; "
                         "distinct by hash of the case term; non-trivial = at least 2 remotes or a successful fetch",
                    assumptions=["MD5 is computed by the Gallina implementation lib/Md5.v (validated by the correspondence)",
                                 "reply order is enforced by gates; a collection-type reply is followed by waiting for the call to return or for the bad-hash warning (fallback 2 s)"])
