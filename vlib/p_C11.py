"""C11 — Keep client Put: enough confirmed replicas, writable services only, retry policy.

The completion schedule is part of the property's quantifier.  It is produced by the Coq model:
phase "gen" of the Go harness writes the inputs, coqc evaluates `sched` (per step: the upload that
completes and the set of uploads started before it), phase "run" drives the real KeepClient in
lock-step with that schedule and records what it saw; a last coqc run compares and judges."""
import glob
import json
import os
import re
import time
from concurrent.futures import ThreadPoolExecutor

from . import core
from .props import HDR, standard

PKG = "sdk/go/keepclient"
FILES = ["C11/zz_verif_c11_test.go"]
IMPORTS = HDR.format(imports="model.KC_discover model.C11_model model.C11_run")


def _parse_sched(out):
    m = re.search(r"SCH\s*=\s*(.*?)\n\s*:\s*list", out, flags=re.S)
    if not m:
        return None
    txt = re.sub(r"%N|%nat|\s", "", m.group(1)).replace(";", ",")
    try:
        return json.loads(txt)
    except Exception:
        return None


def schedules(ctx, name, n, env, shard):
    """gen phase + coqc: returns (path of the schedule file, None) or (None, error text)."""
    for f in glob.glob(os.path.join(ctx.casedir, name + ".gen*")) + glob.glob(os.path.join(ctx.casedir, name + ".sched.json")):
        os.remove(f)
    os.makedirs(ctx.casedir, exist_ok=True)
    e = {"VERIF_SEED": str(ctx.seed + env.pop("_seed_offset", 0)), "VERIF_N": str(n), "VERIF_OUT": ctx.casedir,
         "VERIF_TIER": ctx.tier, "TMPDIR": os.path.join(core.BUILD, "tmp"), "VERIF_SHARD": str(shard),
         "VERIF_C11_PHASE": "gen", "VERIF_STAGE": name}
    os.makedirs(e["TMPDIR"], exist_ok=True)
    if ctx.replay is not None and ctx.replay.get("stage") == name:
        e["VERIF_ONLY"] = str(ctx.replay["index"])
        e["VERIF_SEED"] = str(ctx.replay["seed"])
        e["VERIF_N"] = str(ctx.replay.get("n", n))
    e.update(env)
    rc, out, dt = ctx.go_test(PKG, "keepclient", FILES, "TestVerifC11$", e, timeout=900, replace=ctx.c11_replace)
    gj = os.path.join(ctx.casedir, name + ".gen.json")
    if rc != 0 or not os.path.exists(gj):
        return None, "harness gen phase failed (rc=%d): %s" % (rc, out[-3000:])
    meta = json.load(open(gj))
    bodies = sorted(glob.glob(os.path.join(ctx.casedir, name + ".gen_*.body")),
                    key=lambda p: int(re.search(r"_(\d+)\.body$", p).group(1)))

    def one(b):
        v = b[:-5].replace(".gen_", "_gen_") + ".v"
        open(v, "w").write(IMPORTS + "\n" + open(b).read() +
                           "\nSet Printing Depth 10000000.\nSet Printing Width 200.\n"
                           "Definition SCH := Eval vm_compute in map sched ins.\nPrint SCH.\n")
        rc, out, dt = core.run(["coqc", "-Q", core.COQ, "AV", os.path.basename(v)], cwd=ctx.casedir, timeout=1500)
        return rc, out

    t0 = time.time()
    with ThreadPoolExecutor(max_workers=8) as ex:
        results = list(ex.map(one, bodies))
    allsched = []
    for rc, out in results:
        s = _parse_sched(out) if rc == 0 else None
        if s is None:
            return None, "coqc failed on the schedule computation: " + out[-2000:]
        allsched += s
    if len(allsched) != len(meta["indices"]):
        return None, "schedule count %d != case count %d" % (len(allsched), len(meta["indices"]))
    p = os.path.join(ctx.casedir, name + ".sched.json")
    json.dump({str(i): s for i, s in zip(meta["indices"], allsched)}, open(p, "w"))
    ctx.notes.append("%s: schedules for %d cases computed by the model in %.1fs" % (name, len(allsched), time.time() - t0))
    return p, None


def one_stage(ctx, name, n, env, shard, off, timeout=1500):
    env = dict(env)
    env["_seed_offset"] = off
    p, err = schedules(ctx, name, n, env, shard)
    env.pop("_seed_offset", None)
    if err:
        st = core.Stage(name)
        st.errors.append(err)
        ctx.stages.append(st)
        return st
    env.update(VERIF_C11_PHASE="run", VERIF_C11_SCHED=p, VERIF_STAGE=name)
    return ctx.stage(name, PKG, "keepclient", FILES, "TestVerifC11$", n, IMPORTS, env=env, seed_offset=off, shard=shard,
                     timeout=timeout, replace=ctx.c11_replace)


def run(ctx):
    n = {"quick": 400, "thorough": 8000}[ctx.tier]
    # scratch copies of modelled files for mutation experiments: VERIF_C11_REPLACE="rel/path.go=/abs/copy.go,..."
    ctx.c11_replace = None
    if os.environ.get("VERIF_C11_REPLACE"):
        ctx.c11_replace = dict(kv.split("=", 1) for kv in os.environ["VERIF_C11_REPLACE"].split(","))

    def pool_stage(ctx, mult, suffix, off):
        # several KeepClients of one process sharing the package-level HTTP client pool: which timeouts / TLS setting
        # each one is handed (judged: the chosen configuration, never wall time)
        npool = {"quick": 160, "thorough": 4000}[ctx.tier]
        ctx.stage("c11pool" + suffix, PKG, "keepclient", FILES + ["C11/zz_verif_c11pool_test.go"], "TestVerifC11Pool$", npool * mult,
                  HDR.format(imports="model.KC_discover model.C11_model model.C11_pool") + "Notation case := pcase.\n", seed_offset=off, shard=40,
                  env={"VERIF_STAGE": "c11pool" + suffix}, replace=ctx.c11_replace,
                  footer="Definition R := Eval vm_compute in pool_failing cases.\nPrint R.\n"
                         "Definition NC := Eval vm_compute in List.length cases.\nPrint NC.\n")

    def refresh_stage(ctx, mult, suffix, off):
        # a Put started between RefreshServiceDiscovery() and the API's (withheld) answer: which list it used
        nref = {"quick": 60, "thorough": 1500}[ctx.tier]
        ctx.stage("c11refresh" + suffix, PKG, "keepclient", FILES + ["C11/zz_verif_c11pool_test.go", "C11/zz_verif_c11refresh_test.go"],
                  "TestVerifC11Refresh$", nref * mult,
                  HDR.format(imports="model.KC_discover model.C11_model model.C11_pool") + "Notation case := fcase.\n", seed_offset=off, shard=30,
                  env={"VERIF_STAGE": "c11refresh" + suffix}, replace=ctx.c11_replace,
                  footer="Definition R := Eval vm_compute in refresh_failing cases.\nPrint R.\n"
                         "Definition NC := Eval vm_compute in List.length cases.\nPrint NC.\n")

    def stages(ctx, mult, suffix, off):
        pool_stage(ctx, mult, suffix, off)
        refresh_stage(ctx, mult, suffix, off)
        if ctx.tier == "quick":
            # cases 0..431: every assignment of the 11 outcomes of the quantifier to 1 service x <= 2 rounds (want 1..3,
            # disk/proxy); then random cases
            one_stage(ctx, "c11" + suffix, 432 + n * mult, {"VERIF_C11_EXH": "1"}, 110 if not suffix else 300, off)
            return
        one_stage(ctx, "c11" + suffix, 432 + n * mult, {"VERIF_C11_EXH": "1"}, 800, off)
        if not suffix:
            # every assignment of the 11 outcomes of the quantifier to <= 2 services x <= 2 rounds, and of 6
            # class representatives to <= 3 services x <= 2 rounds; want 1..3, disk and proxy
            one_stage(ctx, "c11exh2", 0, {"VERIF_C11_EXH": "2", "VERIF_C11_EXH_ONLY": "1"}, 1500, off)
            one_stage(ctx, "c11exh3", 0, {"VERIF_C11_EXH": "3", "VERIF_C11_EXH_ONLY": "1"}, 3000, off, timeout=2400)

    return standard(ctx, "C11", ["model/C11_run.vo", "model/C11_pool.vo"], stages,
                    rule="random service lists (0-5 writable, 0-2 read-only, disk/proxy/mixed, duplicate URLs), in 65% of the random cases loaded "
                         "after 1-2 earlier lists (read_only flips with unchanged uuids/URLs, all-writable/all-read-only, service removed/added, "
                         "URL or type changed, same, disjoint), want 1-3, retries 0-3, "
                         "PutB/PutHB/PutHR (oversize, wrong hash, wrong length), per-attempt answers from {200 with stored 0..3 or "
                         "without header, 400, 403, 408, 429, 500, 502, 503, connection error}, random completion schedules; "
                         "distinct by hash of the case term; non-trivial = at least two uploads completed; stage c11pool: 2-6 KeepClients per "
                         "process (ApiInsecure x disk/proxy/mixed lists, re-used after a refresh) asking the shared HTTP client pool in turn, "
                         "first two clients stratified by which flags differ, shipped or other Default*Timeout values; stage c11refresh: 1-3 "
                         "services, refreshed list (withheld until the Put has started) with the first-probed service read-only / removed / "
                         "moved / all or some read-only / replaced / unchanged, want 1-2",
                    assumptions=["the rendezvous order of the services is an input taken from NewRootSorter (property C12)",
                                 "service lists reach the client through LoadKeepServicesFromJSON (the API poller path is driven by the C12 check); uuids within a list are distinct",
                                 "net/http is replaced by a stub that fails a request whose body does not match ContentLength or whose body reader fails",
                                 "goroutine scheduling and the network are replaced by the model's completion schedule, reproduced by per-request gates",
                                 "md5 of the data is a table supplied by the harness (H is a parameter of the model)"])
