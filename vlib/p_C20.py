import os

from .props import HDR, standard


def _replace():
    """Teeth test hook: VERIF_C20_REPLACE="lib/controller/federation/list.go=/verif/build/tmp/mut/list.go[,...]" overlays
    scratch copies of repo files (never set by a registered command)."""
    v = os.environ.get("VERIF_C20_REPLACE", "")
    return dict(kv.split("=", 1) for kv in v.split(",") if "=" in kv) or None


def run(ctx):
    n = {"quick": 800, "thorough": 16000}[ctx.tier]
    nw = {"quick": 160, "thorough": 3000}[ctx.tier]

    def stages(ctx, mult, suffix, off):
        ctx.stage("c20" + suffix, "lib/controller/federation", "federation", ["C20/zz_verif_c20_test.go"], "TestVerifC20$",
                  n * mult, HDR.format(imports="model.C20_model model.C20_entry model.C20_run"), seed_offset=off, shard=75, pam=True, replace=_replace(),
                  env={"VERIF_STAGE": "c20" + suffix})
        # the same requests with every stub behind rpc.Conn -> HTTP -> router (and half of the time the federating
        # Conn too), batches of 26..39 uuids for one cluster: the wire encoding of long requests is in the loop
        ctx.stage("c20wire" + suffix, "lib/controller/federation", "federation", ["C20/zz_verif_c20_test.go"], "TestVerifC20$",
                  nw * mult, HDR.format(imports="model.C20_model model.C20_entry model.C20_run"), seed_offset=off + 500, shard=20, pam=True,
                  replace=_replace(), env={"VERIF_STAGE": "c20wire" + suffix})
    return standard(ctx, "C20", ["model/C20_run.vo"], stages, known_bits={4: "F9"},
                    rule="random list requests through the entry points Conn.{Collection,Container,ContainerRequest,Group,Specimen,User}List "
                         "under every kind of Login.LoginCluster setting (unset / the cluster itself / a remote / an unknown cluster / "
                         "a uuid / not an id), with recording stub backends (1-4 clusters, page size 1..n, shuffled pages, injected "
                         "error/empty/no-progress/repeat/foreign answers, failing UserBatchUpdate, unknown prefixes, malformed uuids, "
                         "duplicates, 1-3 uuid filters, unsplittable options); every call runs under a 20 s watchdog and a call that "
                         "does not return (or panics) is a judged observation; distinct by hash of the case term; non-trivial = at "
                         "least 2 backend calls, an error result, or a call that did not return; scenario: one cluster certain to fail while "
                         "another is stuck until its context is cancelled; stage c20wire: well-formed requests (26-39 uuids for one "
                         "cluster in half of them) with every stub behind rpc.Conn -> HTTP -> router.New(stub), and the federating Conn "
                         "too in half of the cases",
                    assumptions=["stub backends ignore context cancellation, so each cluster's request log is a function of its own answers",
                                 "with several failing clusters the returned error is the first to arrive: any failing cluster's error class is accepted",
                                 "item order is compared exactly only because the stubs give every item instance a distinct modified_at",
                                 "a Conn.<Type>List call against in-process stubs (microseconds of work) that has not returned after 20 s "
                                 "(VERIF_C20_WATCHDOG_S) never returns; generation stops after two such cases",
                                 "a stub backend refuses (error 508, unrecorded) every list call after its 60th of one request",
                                 "stage c20wire: backends reached through rpc.Conn honour cancellation; once the model says the request fails, "
                                 "each backend's log is compared as a prefix of the model's calls; JSON lists of strings are printed as OStrs"])
