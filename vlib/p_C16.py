from .props import HDR, standard


def run(ctx):
    n_choose = {"quick": 3000, "thorough": 60000}[ctx.tier]

    def stages(ctx, mult, suffix, off):
        ctx.stage("choose" + suffix, "lib/dispatchcloud", "dispatchcloud", ["C16/zz_verif_c16_test.go"], "TestVerifC16$",
                  n_choose * mult, HDR.format(imports="model.C16_model model.C16_run"), seed_offset=off, shard=400,
                  env={"VERIF_STAGE": "choose" + suffix})
    return standard(ctx, "C16", ["model/C16_run.vo"], stages,
                    rule="",
                    assumptions=[])
