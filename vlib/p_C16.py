import os

from .props import HDR, standard


def _replace():
    """VERIF_REPLACE="rel/path.go=/abs/mutant.go[,...]": overlay-replace files of /repo by scratch copies
    (used to check that the check has teeth; never set by registered commands)."""
    r = {}
    for kv in filter(None, os.environ.get("VERIF_REPLACE", "").split(",")):
        k, v = kv.split("=", 1)
        r[k] = v
    return r or None


def run(ctx):
    quick = ctx.tier == "quick"
    n_choose = 3000 if quick else 40000
    n_runq = 1500 if quick else 30000
    n_cq = 300 if quick else 15000
    n_tq = 300 if quick else 15000
    stride = 16 if quick else 1

    def stages(ctx, mult, suffix, off):
        # ChooseInstanceType / EstimateScratchSpace (package dispatchcloud, exported API)
        dc_files = ["C16/zz_verif_c16_test.go", "C16/zz_verif_c16cq_test.go"]   # same file set: one test binary build
        ctx.stage("choose" + suffix, "lib/dispatchcloud", "dispatchcloud", dc_files, "TestVerifC16$",
                  n_choose * mult, HDR.format(imports="model.C16_model model.C16_run"), seed_offset=off, shard=400,
                  env={"VERIF_STAGE": "choose" + suffix}, replace=_replace())
        # the real container.Queue built with dispatcher.typeChooser against a stub API server: what becomes a queue
        # entry with which InstanceType, what gets cancelled with the ChooseInstanceType error (package dispatchcloud)
        ctx.stage("cq" + suffix, "lib/dispatchcloud", "dispatchcloud", dc_files, "TestVerifC16CQ$",
                  n_cq * mult, HDR.format(imports="model.C16_model model.C16_run model.C16_runq model.C16_cq model.C16_cq_run"),
                  seed_offset=off, shard=75 if quick else 400, env={"VERIF_STAGE": "cq" + suffix}, replace=_replace())
        # (*Scheduler).runQueue against the recording scripted stub pool/queue (package scheduler)
        rq_hdr = HDR.format(imports="model.C16_runq model.C16_runq_run")
        sc_files = ["C16/zz_verif_c16rq_test.go", "C16/zz_verif_c16tq_test.go"]   # same file set: one test binary build
        ctx.stage("runq" + suffix, "lib/dispatchcloud/scheduler", "scheduler", sc_files, "TestVerifC16RQ$",
                  n_runq * mult, rq_hdr, seed_offset=off, shard=400, env={"VERIF_STAGE": "runq" + suffix}, replace=_replace())
        # runQueue reading the real container.Queue: poll, then priority changes + lock/unlock/cancel responses, then a
        # pass without a poll in between, judged against the snapshot "as the API server last told this dispatcher"
        ctx.stage("tq" + suffix, "lib/dispatchcloud/scheduler", "scheduler", sc_files, "TestVerifC16TQ$",
                  n_tq * mult, HDR.format(imports="model.C16_runq model.C16_runq_run model.C16_tq"), seed_offset=off,
                  shard=75 if quick else 400, env={"VERIF_STAGE": "tq" + suffix}, replace=_replace())
        if not suffix:
            # exhaustive small scope (all 1-container snapshots, 2-container snapshots with a restricted
            # second container) x all small pool states; quick samples every 16th
            ctx.stage("rqexh", "lib/dispatchcloud/scheduler", "scheduler", sc_files, "TestVerifC16RQExh$",
                      0, rq_hdr, shard=400, env={"VERIF_STAGE": "rqexh", "VERIF_STRIDE": str(stride)}, timeout=1800,
                      replace=_replace())
    return standard(
        ctx, "C16", ["model/C16_run.vo", "model/C16_runq_run.vo", "model/C16_cq_run.vo", "model/C16_tq.vo"], stages,
        rule="choose: tables of 0-12 types (prices k/4 with many ties, twins, preemptible flags), one dimension (RAM after the "
             "100/95 scaling, VCPUs, scratch incl. image estimate) placed at exact fit / one unit above / below a target type, "
             "all ReserveExtraRAM values of the palette, int64-overflow and negative-spec strata, 12 PDH shapes; non-trivial = "
             "at least 2 types.  cq: one judged Update of the real container.Queue (dispatcher.typeChooser on tables of 0-4 "
             "types with twins) over 1-6 API records first seen Queued / Locked or Running by this dispatcher's token (a "
             "dispatcher that has just started) / Locked by somebody else / final, constraints at exact fit, one unit above in "
             "RAM / VCPUs / scratch, above every type, image-dominated, with or without an earlier poll followed by legal state "
             "changes, arrivals and deletions, failing lock / runtime_status / cancel requests, list responses cut to 1-3 items "
             "(paging) and delivered as JSON decoded into the caller's value; non-trivial = at least 2 entries "
             "or cancellations.  tq: runq snapshots of up to 8 containers served by a stub API server to the real queue, then "
             "priorities raised / lowered / nudged across a neighbour and lock / unlock / re-lock / cancel requests whose "
             "responses carry the current values, user cancels the dispatcher is not told about, then one runQueue pass; "
             "non-trivial = at least 2 pool/queue calls and one response.  runq: snapshots of 0-16 containers (distinct/tied/zero/negative priorities, all states, "
             "created_at zero / equal / increasing / decreasing with priority / unrelated), 1-3 "
             "types, Unallocated/idle counts incl. inconsistent ones and missing keys, AtQuota/Create scripts that change "
             "during the pass; non-trivial = at least 2 pool/queue calls.  distinct by hash of the case term.",
        assumptions=[
            "prices are compared as exact numbers: the harness uses float64 values k/4 (binary-exact), NaN prices are out of scope",
            "Go map iteration order and the unstable sort.Slice are not controlled: the verdict accepts exactly the answers the model "
            "can produce for SOME order (all permutations for <=5 types; proved order-independent characterisation above; all "
            "arrangements of tied priorities for runQueue)",
            "lockContainer goroutines are awaited by watching runtime.NumGoroutine(); their Lock calls are compared as a set",
            "tq: the pass is judged against the poll records overridden by the later lock/unlock/cancel responses (theorems "
            "C16_told_*); every record of the snapshot is reported as locked by this dispatcher so that all states reach the cache",
            "cq: the cancel goroutines of addEnt are awaited the same way (bound 60 s, expiry recorded as an observation); their "
            "requests are compared per container; which of several tied cheapest types an entry carries is compared as a "
            "relation (some iteration order of the table); the runtime_status message is compared as a class (equal to the "
            "message of the error ChooseInstanceType returns for that container), not as text; theorem C16_cq_update_meets_spec "
            "assumes that a container first seen Running or later never returns to Queued/Locked (generated histories obey it)",
            "theorems about 'cheapest' assume RAM and VCPUs of configured types are >= 0 (C16_choose_needs_sane shows the code's "
            "behaviour otherwise; the model reproduces it and the harness compares it on small tables)",
        ])
