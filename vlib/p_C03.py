"""C03 — Keep client and collection reads never deliver bytes that mismatch the locator."""
import os

from .props import HDR, standard

PKG = "sdk/go/keepclient"


def run(ctx):
    n = {"quick": 480, "thorough": 16000}[ctx.tier]
    replace = None
    if os.environ.get("VERIF_C03_REPLACE"):
        replace = dict(kv.split("=", 1) for kv in os.environ["VERIF_C03_REPLACE"].split(","))

    def stages(ctx, mult, suffix, off):
        ctx.stage("c03" + suffix, PKG, "keepclient", ["C03/zz_verif_c03_test.go"], "TestVerifC03$", n * mult,
                  HDR.format(imports="model.C03_model model.C03_run"), seed_offset=off,
                  shard=60 if ctx.tier == "quick" else 400, env={"VERIF_STAGE": "c03" + suffix}, replace=replace, timeout=1500)

    hdr = HDR.format(imports="model.C03_model model.C03_run")
    # per operation (content clauses hold, locator clauses hold), the all-404 clause, the error-class clause
    expr = ("(judge_ops (c_in c) (i_ops (c_in c)) (ob_res (c_obs c)), notfound_ok (c_in c) (ob_res (c_obs c)), "
            "ops_err_ok (c_in c) (i_ops (c_in c)) (ob_res (c_obs c)) (ob_nreq (c_obs c)) (ob_log (c_obs c)))")
    return standard(ctx, "C03", ["model/C03_run.vo"], stages, explain={"c03": (hdr, expr)},
                    rule="1-4 services x 1-3 rounds, per-attempt behaviours from {correct, flipped bit, short, long, wrong Content-Length, "
                         "chunked ok/long/short/cut/flipped, 404, 403, 408, 429, 500, 503, connection error}, contents of 0/1/11/~100/4096 bytes, "
                         "with and without size hint; 12% of the hinted non-file blocks carry a size hint that is NOT the size of the data "
                         "with that hash (-2..+3), answers with and without Content-Length (one third of those blocks with declared-length-only "
                         "scripts), an intact answer early (judged by the locator clauses of spec_b: digest and size of what is delivered "
                         "as a success, for every kind of answer since fix F25); one case in six is a retry stratum (Retries 2-3, per attempt 55% transient / 30% 404 / 5% 403 / "
                         "10% 200) for the error class of reads that fail after several rounds, judged per operation against the "
                         "answers to its own requests (the request log is cut by the per-operation request counts); operations Get (ReadAll/ReadFull/WriteTo/Close), ReadAt, concurrent ReadAt, "
                         "CollectionFileReader; 12% of the cases over real loopback HTTP; non-trivial = at least two requests reached the services",
                    assumptions=["net/http transport rule (declared length n => exactly the first n bytes, unexpected EOF if fewer; no length => all bytes, "
                                 "unexpected EOF if the connection is cut) is part of the model; the loopback cases exercise it against real net/http",
                                 "the digest H is a finite table supplied by the harness (md5 computed by Go for every byte string that occurs)",
                                 "the rendezvous order is an input (property C12)",
                                 "concurrent readers are modelled as sharing one fetch; the harness holds the services' answers until all readers wait"])
