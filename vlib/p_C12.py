from .props import HDR, standard


def run(ctx):
    n = {"quick": 160, "thorough": 4000}[ctx.tier]

    def stages(ctx, mult, suffix, off):
        ctx.stage("c12" + suffix, "sdk/go/keepclient", "keepclient", ["C12/zz_verif_c12_test.go"], "TestVerifC12$",
                  n * mult, HDR.format(imports="model.KC_discover model.C12_model model.C12_run"), seed_offset=off, shard=20,
                  env={"VERIF_STAGE": "c12" + suffix})
    return standard(ctx, "C12", ["model/C12_run.vo"], stages,
                    rule="random service sets (1-32 services, 27-char/short/long uuids, shared 15-char suffixes), locators with 0-4 "
                         "hints (cluster form, gateway form known/unknown, uuids of local incl. read-only services); half of the cases take "
                         "their roots from 1-3 keep_services lists (1/4 of the services read-only; LoadKeepServicesFromJSON or the "
                         "discoverServices poller with a stub API transport), the others from SetServiceRoots; distinct by hash of the "
                         "case term; non-trivial = at least 2 local services",
                    assumptions=["MD5 is computed by the Gallina implementation lib/Md5.v (validated by this correspondence: every weight comparison depends on it)",
                                 "with equal weights the order is unspecified: such cases are judged by the relation only"])
