from .props import HDR, standard


def run(ctx):
    n = {"quick": 160, "thorough": 4000}[ctx.tier]

    def stages(ctx, mult, suffix, off):
        ctx.stage("c12" + suffix, "sdk/go/keepclient", "keepclient", ["C12/zz_verif_c12_test.go"], "TestVerifC12$",
                  n * mult, HDR.format(imports="model.KC_discover model.C12_model model.C12_run"), seed_offset=off, shard=20,
                  env={"VERIF_STAGE": "c12" + suffix})
        # probe order of a read across retry rounds (closed form of getOrHead's loop)
        nr = {"quick": 240, "thorough": 6000}[ctx.tier]
        ctx.stage("c12retry" + suffix, "sdk/go/keepclient", "keepclient", ["C12/zz_verif_c12_test.go", "C12/zz_verif_c12retry_test.go"],
                  "TestVerifC12Retry$", nr * mult, HDR.format(imports="model.C03_model model.C12_retry") + "Notation case := rcase.\n",
                  seed_offset=off, shard=60, env={"VERIF_STAGE": "c12retry" + suffix},
                  footer="Definition R := Eval vm_compute in retry_failing cases.\nPrint R.\n"
                         "Definition NC := Eval vm_compute in List.length cases.\nPrint NC.\n")
    return standard(ctx, "C12", ["model/C12_run.vo", "model/C12_retry.vo"], stages,
                    rule="random service sets (1-32 services, 27-char/short/long uuids, shared 15-char suffixes), locators with 0-4 "
                         "hints (cluster form, gateway form known/unknown, uuids of local incl. read-only services); half of the cases take "
                         "their roots from 1-3 keep_services lists (1/4 of the services read-only; LoadKeepServicesFromJSON or the "
                         "discoverServices poller with a stub API transport), the others from SetServiceRoots; distinct by hash of the "
                         "case term; non-trivial = at least 2 local services; stage c12retry: 1-5 services (+ cluster hint), Retries 0-3, per service "
                         "an answer sequence (transient^k then definitive / always transient / definitive / transient^k then 200 / any), "
                         "Get or Ask, non-trivial = at least 2 requests",
                    assumptions=["MD5 is computed by the Gallina implementation lib/Md5.v (validated by this correspondence: every weight comparison depends on it)",
                                 "with equal weights the order is unspecified: such cases are judged by the relation only"])
