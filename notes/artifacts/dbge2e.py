import sys,subprocess
pid,shard=sys.argv[1],int(sys.argv[2])
body=open('/verif/build/cases/%s/e2etry_%d.body'%(pid,shard)).read()
hdr='''From Coq Require Import NArith ZArith List String Ascii Bool.
From AV Require Import lib.Str model.C14_e2e_run.
Import ListNotations.
Local Open Scope string_scope.
'''
dbg='''
Fixpoint first_bad (s : jst) (log : list xev) (i : nat) : option (nat * xev * list bool * list (N*N) * list (N*N)) :=
  match log with
  | [] => None
  | e :: r =>
      match e with
      | XStartBegin t vm u b =>
          if start_ok s t vm u b then first_bad (step_j e s) r (S i)
          else Some (i, e, [negb (memN u (map snd (j_live s))); negb (memN u (map snd (j_infl s))); memN u (j_locked s);
                            match lookZ u (j_cancelled s) with Some tc => (t <=? tc + grace)%Z | None => true end; negb b;
                            match lookZ vm (j_bad s) with Some tb => (t <=? tb + grace)%Z | None => true end],
                      filter (fun p => N.eqb (snd p) u) (j_live s), filter (fun p => N.eqb (snd p) u) (j_infl s))
      | _ => first_bad (step_j e s) r (S i)
      end
  end.
Definition D := Eval vm_compute in match cases with c :: _ => first_bad j0 (x_log c) 0 | _ => None end.
Print D.
'''
open('/verif/build/tmp/dbge2e.v','w').write(hdr+body+dbg)
print(subprocess.run(['coqc','-Q','/verif/coq','AV','dbge2e.v'],cwd='/verif/build/tmp',capture_output=True,text=True).stdout[-1500:])
