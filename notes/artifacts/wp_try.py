import sys
sys.path.insert(0,'/verif')
from vlib import core, props
from vlib.props import HDR
from vlib.p_C14 import _replace
n=int(sys.argv[1]); mode=sys.argv[2] if len(sys.argv)>2 else "c14"
pid = "C14" if mode=="c14" else "C15"
ctx=core.Ctx(pid,"quick",int(sys.argv[3]) if len(sys.argv)>3 else 1)
st=ctx.stage("wptry","lib/dispatchcloud/worker","worker",["C14/zz_verif_c14wp_test.go"],"TestVerifC14WP$",n,HDR.format(imports="model.C16_runq model.C14_pool model.C14_wp_run"),shard=50,env={"VERIF_STAGE":"wptry","VERIF_WPMODE":mode},replace=_replace())
print(st.errors[:1] if st.errors else "no errors", st.failing[:20], st.wall, st.evaluated)
import json
print([l for l in getattr(st,"harness_log","").splitlines() if "not recorded" in l or "generation stopped" in l])
if st.failing:
    idx,code,gi=st.failing[0]
    for l in st.meta['descs'][gi]['steps']: print(l)
