#!/bin/bash
cd /repo/lib/dispatchcloud
export GOFLAGS=-mod=mod GOPROXY=off GOSUMDB=off GOTOOLCHAIN=local
for k in $(seq 1 60); do
  VERIF_SEED=$((100+k)) VERIF_N=6 VERIF_E2EMODE=c14 VERIF_STAGE=dbgp VERIF_OUT=/verif/build/tmp/dbgp timeout 300 go test -tags verif -vet=off -overlay /verif/build/ov/C14/lib_dispatchcloud_ov.json -count=1 -run 'TestVerifC14E2E$' . > /verif/build/tmp/hunt_$k.log 2>&1
  if grep -q "panic:" /verif/build/tmp/hunt_$k.log; then echo "panic in run $k"; cp /verif/build/tmp/hunt_$k.log /verif/build/tmp/PANIC.log; exit 0; fi
  rm -f /verif/build/tmp/hunt_$k.log
done
echo "no panic in 60 batches"
