import sys,json
sys.path.insert(0,'/verif')
from vlib import core
from vlib.props import HDR
n=int(sys.argv[1])
ctx=core.Ctx("C14","quick",int(sys.argv[2]) if len(sys.argv)>2 else 1)
st=ctx.stage("qtry","lib/dispatchcloud/container","container",["C14/zz_verif_c14queue_test.go"],"TestVerifC14Queue$",n,HDR.format(imports="model.C16_runq model.C14_queue model.C14_queue_run"),shard=400,env={"VERIF_STAGE":"qtry"})
print(st.errors[:1] if st.errors else "no errors", st.failing[:12], st.wall, st.evaluated)
for idx,code,gi in st.failing[:4]:
    print(code, json.dumps(st.meta['descs'][gi]))
print(st.meta.get('distribution'))
