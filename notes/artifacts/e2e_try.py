import sys,json
sys.path.insert(0,'/verif')
from vlib import core, props
from vlib.props import HDR
n=int(sys.argv[1]); mode=sys.argv[2] if len(sys.argv)>2 else "c14"
pid = "C14" if mode=="c14" else "C15"
ctx=core.Ctx(pid,"quick",int(sys.argv[3]) if len(sys.argv)>3 else 1)
st=ctx.stage("e2etry","lib/dispatchcloud","dispatchcloud",["C14/zz_verif_c14e2e_test.go"],"TestVerifC14E2E$",n,HDR.format(imports="model.C14_e2e_run"),shard=1,env={"VERIF_STAGE":"e2etry","VERIF_E2EMODE":mode}, replace=(dict(kv.split("=",1) for kv in __import__("os").environ.get("VERIF_REPLACE","").split(",") if kv) or None))
print(st.errors[:1] if st.errors else "no errors", st.failing[:20], st.wall, st.evaluated)
for d in st.meta.get('descs',[]): print(json.dumps(d)[:700])
