#!/usr/bin/env python3
"""tools/tryseed.py <ID> <n> <pkgdir> <TestName> [--modfile f]
Confirm a seeded change produced in /tmp/seed/<ID>/out/<n>: (a) demo passes on the pristine scratch
worktree, (b) with the patch applied the packages build and the demo fails, (c) run our check against
the patch through the overlay (tools/withpatch.py) and report its verdict.  Copies the artefacts to
/verif/seeded/<ID>-<n>/ with a meta.json."""
import json, os, shutil, subprocess, sys
ID, n, pkg, test = sys.argv[1:5]
modfile = sys.argv[sys.argv.index("--modfile") + 1] if "--modfile" in sys.argv else None
check_ids = sys.argv[sys.argv.index("--checks") + 1].split(",") if "--checks" in sys.argv else [ID]
base = "/tmp/seed/%s" % ID
wt = base + "/wt" if os.path.isdir(base + "/wt") else base
out = "%s/out/%s" % (base, n)
env = dict(os.environ, GOFLAGS="-mod=mod", GOPROXY="off", GOSUMDB="off", GOTOOLCHAIN="local")
def sh(cmd, cwd=wt, timeout=1800):
    p = subprocess.run(cmd, cwd=cwd, env=env, shell=True, stdout=subprocess.PIPE, stderr=subprocess.STDOUT, timeout=timeout)
    return p.returncode, p.stdout.decode("utf-8", "replace")
mf = ("-modfile=%s " % modfile) if modfile else ""
demo_src = [f for f in os.listdir(out) if f.startswith("demo") and f.endswith(".go")]
demo_dst = []
for f in demo_src:
    d = os.path.join(wt, pkg, "zz_" + f if not f.endswith("_test.go") else "zz_" + f)
    shutil.copy(os.path.join(out, f), d); demo_dst.append(d)
res = {}
try:
    sh("git checkout -- .")
    rc0, o0 = sh("go test %s-vet=off -count=1 -run '%s' ./%s/" % (mf, test, pkg))
    res["pristine_demo_rc"] = rc0
    rc, o = sh("git apply %s/patch.diff" % out)
    assert rc == 0, o
    rcb, ob = sh("go build %s./%s/..." % (mf, pkg))
    res["patched_build_rc"] = rcb
    rc1, o1 = sh("go test %s-vet=off -count=1 -run '%s' ./%s/" % (mf, test, pkg))
    res["patched_demo_rc"] = rc1
    res["patched_demo_tail"] = o1[-600:]
    res["pristine_demo_tail"] = o0[-300:]
finally:
    sh("git checkout -- .")
    for d in demo_dst:
        os.remove(d)
res["checks"] = {}
for cid in check_ids:
    p = subprocess.run(["python3", "/verif/tools/withpatch.py", "%s/patch.diff" % out, "--", "/verif/check", cid, "quick"],
                       cwd="/verif", stdout=subprocess.PIPE, stderr=subprocess.STDOUT)
    o = p.stdout.decode("utf-8", "replace")
    res["checks"][cid] = {"rc": p.returncode, "lines": [l for l in o.splitlines() if l.startswith(("VIOLATION", "KNOWN", cid))][-4:]}
dst = "/verif/seeded/%s-%s" % (ID, n)
os.makedirs(dst, exist_ok=True)
shutil.copy("%s/patch.diff" % out, dst)
for f in demo_src + ["README.md"]:
    if os.path.exists(os.path.join(out, f)):
        shutil.copy(os.path.join(out, f), dst)
json.dump(dict(property=ID, change=n, package=pkg, demo_test=test, confirmed=res,
               ran=["demo on pristine worktree", "git apply; go build; demo", "tools/withpatch.py patch.diff -- ./check <id> quick"]),
          open(os.path.join(dst, "meta.json"), "w"), indent=1)
print(json.dumps(res, indent=1))
