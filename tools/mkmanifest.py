#!/usr/bin/env python3
"""Assemble MANIFEST.json from manifest.d/Cxx.json fragments (one per claimed property) and
manifest.d/not_applicable.json ({"Cxx": "reason"}); every property in properties.jsonl that has no
fragment and no explicit reason is listed as not yet built.  Validates against the schema if
jsonschema is importable."""
import glob, json, os, sys
V = os.path.dirname(os.path.dirname(os.path.abspath(__file__)))
props = [json.loads(l) for l in open(os.path.join(V, "properties.jsonl"))]
checks = []
for f in sorted(glob.glob(os.path.join(V, "manifest.d", "C*.json"))):
    c = json.load(open(f))
    pid = c["property_id"]
    c.setdefault("quick_cmd", "./check %s quick" % pid)
    c.setdefault("thorough_cmd", "./check %s thorough" % pid)
    c.setdefault("evidence_file", "evidence/%s.json" % pid)
    c.setdefault("replay_cmd_template", "./check %s --replay {path}" % pid)
    c.setdefault("engine", "coq-proof+correspondence")
    checks.append(c)
claimed = {c["property_id"] for c in checks}
na_file = os.path.join(V, "manifest.d", "not_applicable.json")
na = json.load(open(na_file)) if os.path.exists(na_file) else {}
hooks_file = os.path.join(V, "manifest.d", "hooks.json")
hooks = json.load(open(hooks_file))
m = {
    "version": 1,
    "setup_cmd": "./setup.sh",
    "hooks": hooks,
    "engines": [{"name": "coq-proof+correspondence", "path": "check", "serves_properties": sorted(claimed),
                 "kind_free_text": "Coq 8.16.1 theorems over hand-written Gallina models (coq/), tied to /repo by a differential correspondence check evaluated inside coqc (vm_compute) on cases produced by Go/Python harnesses (harness/) from the current working tree"}],
    "checks": checks,
    "notes": "Every check = P (theorems in coq/props/Cxx.v closed, no axioms) + K (model = implementation on generated cases, evaluated in coqc) + S (proved boolean spec evaluated on the implementation's observations). See DESIGN.md.",
    "not_applicable": [{"property_id": p["id"], "reason": na.get(p["id"], "not yet built in this framework (design in DESIGN.md §5); will be claimed when its check lands")}
                       for p in props if p["id"] not in claimed],
}
json.dump(m, open(os.path.join(V, "MANIFEST.json"), "w"), indent=1)
try:
    import jsonschema
    jsonschema.validate(m, json.load(open("/root/.vp/MANIFEST.schema.json")))
    print("MANIFEST.json valid;", len(checks), "checks")
except ImportError:
    print("MANIFEST.json written (jsonschema not importable here);", len(checks), "checks")
