#!/usr/bin/env python3
"""tools/withpatch.py <patch.diff> -- <command...>
Run a check against /repo *as if* the patch were applied, without touching /repo: the files the
patch modifies are copied to a scratch dir, patched there, and handed to the Go build through the
overlay (env VERIF_REPLACE).  Only Go files can be overlaid; for other files (Python SDK) the
mutated copy is exported as VERIF_PYREPLACE for harnesses that read it."""
import os, re, subprocess, sys, tempfile, shutil
patch = os.path.abspath(sys.argv[1])
cmd = sys.argv[sys.argv.index("--") + 1:]
files = re.findall(r"^\+\+\+ b/(\S+)", open(patch).read(), flags=re.M)
tmp = tempfile.mkdtemp(prefix="withpatch-", dir=os.path.join(os.path.dirname(os.path.dirname(os.path.abspath(__file__))), "build"))
try:
    for f in files:
        os.makedirs(os.path.dirname(os.path.join(tmp, f)), exist_ok=True)
        if os.path.exists(os.path.join("/repo", f)):
            shutil.copy(os.path.join("/repo", f), os.path.join(tmp, f))
    subprocess.check_call(["patch", "-p1", "-s", "-i", patch], cwd=tmp)
    env = dict(os.environ)
    env["VERIF_REPLACE"] = ",".join("%s=%s" % (f, os.path.join(tmp, f)) for f in files if f.endswith(".go"))
    env["VERIF_PYREPLACE"] = ",".join("%s=%s" % (f, os.path.join(tmp, f)) for f in files if f.endswith(".py"))
    sys.exit(subprocess.call(cmd, env=env))
finally:
    shutil.rmtree(tmp, ignore_errors=True)
