// instrument: go/ast based yield-point inserter for services/keepstore/unix_volume.go (C02, C04).
//
//	go run main.go -in /repo/services/keepstore/unix_volume.go -out <instrumented copy> -points <json>
//
// In the methods of *UnixVolume listed in `methods` it inserts
//
//	verifPoint("<Method>:<callee>#<n>")
//
// immediately before every statement that performs a filesystem call (os.*, ioutil.*, syscall.*,
// v.os.*, x.Close(), v.lockfile, v.unlockfile), turns `defer <fs call>` into
// `defer func() { verifPoint(...); <fs call> }()`, and wraps the destination of WriteBlock's io.Copy so
// that every individual write of the copy loop is preceded by a yield point.  Nothing else is
// changed, except that every instrumented method starts with `defer verifEnter("<Method>")()`.
// Calls of methods of an open file (f.Stat, f.Chmod, f.Sync, f.Truncate, ...) and of syscall/unix
// functions count as filesystem calls too, so that a variant of the code that works on a descriptor
// instead of a path still yields at the same place (with another label).
// Two more rewrites serve the delayed-write level of C04 (harness/C04/zz_verif_c04d_test.go):
//   - `verifAux("<Method>:v.lock#<n>")` before every statement that calls v.lock (waiting for the
//     Serialize mutex); this hook is separate from verifPoint, so the step lists of C02 and C04 (I),
//     which do not model the volume mutex, are unchanged;
//   - time.Now() -> verifNow(), time.Since(x) -> verifNow().Sub(x) in the whole file: the clock read
//     by unix_volume.go can be advanced by the harness while a request is parked (offset 0 otherwise).
// verifPoint/verifAux/verifNow/verifWriter/verifEnter are defined by the harness (zz_verif_ks_hook_test.go).
// Exit status 2 = the file could not be instrumented at all; exit status 3 = the instrumented copy was
// written, but an expected method or yield point is missing (broken correspondence: the caller still runs
// the harness on the copy to look for a failing input, and reports the check as failed either way).
package main

import (
	"bytes"
	"encoding/json"
	"flag"
	"fmt"
	"go/ast"
	"go/format"
	"go/parser"
	"go/token"
	"os"
	"strconv"
)

var methods = map[string]bool{"Touch": true, "Trash": true, "WriteBlock": true, "Untrash": true, "Compare": true,
	"ReadBlock": true, "getFunc": true, "stat": true, "Mtime": true}

// what the model needs to find (callee sequence prefixes are checked by the Coq side against the
// recorded traces; here we only insist on presence)
var required = map[string][]string{
	"Touch":      {"v.os.OpenFile", "v.lockfile", "os.Chtimes", "defer:v.unlockfile", "defer:f.Close"},
	"Trash":      {"v.os.OpenFile", "v.lockfile", "v.os.Stat", "v.os.Rename", "v.os.Remove", "defer:v.unlockfile", "defer:f.Close"},
	"WriteBlock": {"os.MkdirAll", "v.os.TempFile", "write:tmpfile", "tmpfile.Close", "os.Chtimes", "v.os.OpenFile", "v.lockfile",
		"v.os.Rename", "defer:v.unlockfile", "defer:old.Close", "v.os.Remove"},
	"Untrash": {"ioutil.ReadDir", "v.os.Stat", "v.os.Rename"},
}

var notFS = map[string]bool{"os.IsNotExist": true, "os.IsExist": true, "os.Getpid": true, "ioutil.NopCloser": true,
	"os.IsPermission": true, "syscall.NsecToTimeval": true, "syscall.NsecToTimespec": true, "syscall.TimevalToNsec": true, "syscall.TimespecToNsec": true,
	"unix.NsecToTimeval": true, "unix.NsecToTimespec": true, "os.Getenv": true, "os.FileMode": true, "syscall.Errno": true}

// methods of *os.File (on any local variable) that reach the file system
var fileMethods = map[string]bool{"Close": true, "Stat": true, "Chmod": true, "Chown": true, "Sync": true, "Truncate": true,
	"Seek": true, "Readdir": true, "Readdirnames": true, "ReadDir": true, "Write": true, "WriteAt": true, "WriteString": true,
	"Read": true, "ReadAt": true}
var notFiles = map[string]bool{"pipew": true, "piper": true, "v": true, "w": true, "rdr": true, "resp": true, "buf": true, "strings": true, "bytes": true, "io": true}

func exprString(e ast.Expr) string {
	switch x := e.(type) {
	case *ast.Ident:
		return x.Name
	case *ast.SelectorExpr:
		return exprString(x.X) + "." + x.Sel.Name
	}
	return "?"
}

// fsCallee returns the callee text if call is a filesystem call.
func fsCallee(call *ast.CallExpr) string {
	sel, ok := call.Fun.(*ast.SelectorExpr)
	if !ok {
		return ""
	}
	s := exprString(sel)
	if notFS[s] {
		return ""
	}
	switch x := sel.X.(type) {
	case *ast.Ident:
		if x.Name == "os" || x.Name == "ioutil" || x.Name == "syscall" || x.Name == "unix" {
			return s
		}
		if fileMethods[sel.Sel.Name] && !notFiles[x.Name] {
			return s
		}
		if x.Name == "v" && (sel.Sel.Name == "lockfile" || sel.Sel.Name == "unlockfile") {
			return s
		}
	case *ast.SelectorExpr:
		if exprString(x) == "v.os" && sel.Sel.Name != "stats" {
			return s
		}
	}
	return ""
}

// firstFS finds the first fs call in the expression parts of a statement (not in nested blocks or
// function literals).
func firstFS(nodes ...ast.Node) string {
	found := ""
	for _, n := range nodes {
		if n == nil || found != "" {
			continue
		}
		ast.Inspect(n, func(m ast.Node) bool {
			if found != "" {
				return false
			}
			switch x := m.(type) {
			case *ast.FuncLit, *ast.BlockStmt:
				return false
			case *ast.CallExpr:
				if c := fsCallee(x); c != "" {
					found = c
					return false
				}
			}
			return true
		})
	}
	return found
}

type inst struct {
	method string
	n      int
	naux   int
	points []string
	aux    []string
}

// callsVLock: does the statement itself (not a nested block or function literal) call v.lock?
func callsVLock(s ast.Stmt) bool {
	var nodes []ast.Node
	switch x := s.(type) {
	case *ast.ExprStmt, *ast.AssignStmt, *ast.ReturnStmt, *ast.DeclStmt:
		nodes = []ast.Node{s}
	case *ast.IfStmt:
		nodes = []ast.Node{nilIfNilS(x.Init), nilIfNil(x.Cond)}
	default:
		return false
	}
	found := false
	for _, n := range nodes {
		if n == nil {
			continue
		}
		ast.Inspect(n, func(m ast.Node) bool {
			switch y := m.(type) {
			case *ast.FuncLit, *ast.BlockStmt:
				return false
			case *ast.CallExpr:
				if exprString(y.Fun) == "v.lock" {
					found = true
				}
			}
			return !found
		})
	}
	return found
}

func auxCall(label string) *ast.ExprStmt {
	return &ast.ExprStmt{X: &ast.CallExpr{Fun: ast.NewIdent("verifAux"), Args: []ast.Expr{&ast.BasicLit{Kind: token.STRING, Value: strconv.Quote(label)}}}}
}

// rewriteClock: time.Now() -> verifNow(), time.Since(x) -> verifNow().Sub(x), everywhere in the file.
func rewriteClock(f *ast.File) int {
	n := 0
	ast.Inspect(f, func(m ast.Node) bool {
		call, ok := m.(*ast.CallExpr)
		if !ok {
			return true
		}
		switch exprString(call.Fun) {
		case "time.Now":
			if len(call.Args) == 0 {
				call.Fun = ast.NewIdent("verifNow")
				n++
			}
		case "time.Since":
			if len(call.Args) == 1 {
				call.Fun = &ast.SelectorExpr{X: &ast.CallExpr{Fun: ast.NewIdent("verifNow")}, Sel: ast.NewIdent("Sub")}
				n++
			}
		}
		return true
	})
	return n
}

func (in *inst) label(callee string) string {
	l := fmt.Sprintf("%s:%s#%d", in.method, callee, in.n)
	in.n++
	in.points = append(in.points, callee)
	return l
}

func pointCall(label string) *ast.ExprStmt {
	return &ast.ExprStmt{X: &ast.CallExpr{Fun: ast.NewIdent("verifPoint"), Args: []ast.Expr{&ast.BasicLit{Kind: token.STRING, Value: strconv.Quote(label)}}}}
}

func nilIfNil(e ast.Expr) ast.Node {
	if e == nil {
		return nil
	}
	return e
}
func nilIfNilS(s ast.Stmt) ast.Node {
	if s == nil {
		return nil
	}
	return s
}

func (in *inst) block(b *ast.BlockStmt) {
	if b == nil {
		return
	}
	b.List = in.list(b.List)
}

func (in *inst) funcLits(n ast.Node) {
	if n == nil {
		return
	}
	ast.Inspect(n, func(m ast.Node) bool {
		if fl, ok := m.(*ast.FuncLit); ok {
			in.block(fl.Body)
			return false
		}
		return true
	})
}

// stmtCallee: the first filesystem call evaluated by the statement itself (not by nested blocks).
func stmtCallee(s ast.Stmt) string {
	switch x := s.(type) {
	case *ast.ExprStmt, *ast.AssignStmt, *ast.ReturnStmt, *ast.DeclStmt, *ast.GoStmt:
		return firstFS(s)
	case *ast.IfStmt:
		return firstFS(nilIfNilS(x.Init), nilIfNil(x.Cond))
	case *ast.ForStmt:
		return firstFS(nilIfNilS(x.Init), nilIfNil(x.Cond), nilIfNilS(x.Post))
	case *ast.RangeStmt:
		return firstFS(x.X)
	case *ast.SwitchStmt:
		return firstFS(nilIfNilS(x.Init), nilIfNil(x.Tag))
	}
	return ""
}

func (in *inst) list(stmts []ast.Stmt) []ast.Stmt {
	var out []ast.Stmt
	for _, s := range stmts {
		if x, ok := s.(*ast.DeferStmt); ok {
			if c := fsCallee(x.Call); c != "" {
				lbl := in.label("defer:" + c)
				x.Call = &ast.CallExpr{Fun: &ast.FuncLit{Type: &ast.FuncType{Params: &ast.FieldList{}},
					Body: &ast.BlockStmt{List: []ast.Stmt{pointCall(lbl), &ast.ExprStmt{X: x.Call}}}}}
			}
			out = append(out, s)
			continue
		}
		if callsVLock(s) {
			out = append(out, auxCall(fmt.Sprintf("%s:v.lock#%d", in.method, in.naux)))
			in.naux++
			in.aux = append(in.aux, "v.lock")
		}
		if callee := stmtCallee(s); callee != "" {
			out = append(out, pointCall(in.label(callee)))
		}
		switch x := s.(type) {
		case *ast.ExprStmt, *ast.AssignStmt, *ast.ReturnStmt, *ast.DeclStmt, *ast.GoStmt:
			// io.Copy(tmpfile, rdr) in WriteBlock: yield before every individual write instead
			if in.method == "WriteBlock" {
				ast.Inspect(s, func(m ast.Node) bool {
					if call, ok := m.(*ast.CallExpr); ok && exprString(call.Fun) == "io.Copy" && len(call.Args) == 2 {
						if id, ok := call.Args[0].(*ast.Ident); ok && id.Name == "tmpfile" {
							lbl := in.label("write:tmpfile")
							call.Args[0] = &ast.CallExpr{Fun: ast.NewIdent("verifWriter"), Args: []ast.Expr{id, &ast.BasicLit{Kind: token.STRING, Value: strconv.Quote(lbl)}}}
						}
					}
					return true
				})
			}
			in.funcLits(s)
		case *ast.IfStmt:
			in.block(x.Body)
			switch e := x.Else.(type) {
			case *ast.BlockStmt:
				in.block(e)
			case *ast.IfStmt:
				wrapped := in.list([]ast.Stmt{e})
				if len(wrapped) == 1 {
					x.Else = wrapped[0]
				} else {
					x.Else = &ast.BlockStmt{List: wrapped}
				}
			}
		case *ast.ForStmt:
			in.block(x.Body)
		case *ast.RangeStmt:
			in.block(x.Body)
		case *ast.SwitchStmt:
			for _, c := range x.Body.List {
				cc := c.(*ast.CaseClause)
				cc.Body = in.list(cc.Body)
			}
		case *ast.TypeSwitchStmt:
			for _, c := range x.Body.List {
				cc := c.(*ast.CaseClause)
				cc.Body = in.list(cc.Body)
			}
		case *ast.SelectStmt:
			for _, c := range x.Body.List {
				cc := c.(*ast.CommClause)
				cc.Body = in.list(cc.Body)
			}
		case *ast.BlockStmt:
			in.block(x)
		}
		out = append(out, s)
	}
	return out
}

func main() {
	inPath := flag.String("in", "", "unix_volume.go")
	outPath := flag.String("out", "", "instrumented copy")
	ptsPath := flag.String("points", "", "json: method -> callees in source order")
	flag.Parse()
	fset := token.NewFileSet()
	f, err := parser.ParseFile(fset, *inPath, nil, parser.ParseComments)
	if err != nil {
		fmt.Fprintln(os.Stderr, "instrument: parse:", err)
		os.Exit(2)
	}
	points := map[string][]string{}
	for _, d := range f.Decls {
		fd, ok := d.(*ast.FuncDecl)
		if !ok || fd.Recv == nil || fd.Body == nil || !methods[fd.Name.Name] {
			continue
		}
		star, ok := fd.Recv.List[0].Type.(*ast.StarExpr)
		if !ok || exprString(star.X) != "UnixVolume" {
			continue
		}
		in := &inst{method: fd.Name.Name}
		in.block(fd.Body)
		points[fd.Name.Name] = in.points
		// defer verifEnter("<Method>")() as the first statement: lets the harness wait until no
		// instrumented method is running any more (WriteBlock goes on in the background after a
		// cancelled request)
		enter := &ast.DeferStmt{Call: &ast.CallExpr{Fun: &ast.CallExpr{Fun: ast.NewIdent("verifEnter"),
			Args: []ast.Expr{&ast.BasicLit{Kind: token.STRING, Value: strconv.Quote(fd.Name.Name)}}}}}
		fd.Body.List = append([]ast.Stmt{enter}, fd.Body.List...)
	}
	nclock := rewriteClock(f)
	bad := false
	var missing []string
	for m, req := range required {
		have := map[string]bool{}
		for _, p := range points[m] {
			have[p] = true
		}
		if _, ok := points[m]; !ok {
			fmt.Fprintf(os.Stderr, "instrument: method (*UnixVolume).%s not found\n", m)
			missing = append(missing, m)
			bad = true
			continue
		}
		for _, r := range req {
			if !have[r] {
				fmt.Fprintf(os.Stderr, "instrument: (*UnixVolume).%s: expected filesystem call %s not found\n", m, r)
				missing = append(missing, m+":"+r)
				bad = true
			}
		}
	}
	var buf bytes.Buffer
	// comments are dropped on purpose: free-floating comments would be misplaced next to inserted nodes
	f.Comments = nil
	f.Doc = nil
	if err := format.Node(&buf, fset, f); err != nil {
		fmt.Fprintln(os.Stderr, "instrument: print:", err)
		os.Exit(2)
	}
	if err := os.WriteFile(*outPath, buf.Bytes(), 0666); err != nil {
		fmt.Fprintln(os.Stderr, err)
		os.Exit(2)
	}
	if *ptsPath != "" {
		j, _ := json.MarshalIndent(map[string]interface{}{"points": points, "missing": missing, "clock_reads_rewritten": nclock}, "", " ")
		os.WriteFile(*ptsPath, j, 0666)
	}
	if bad {
		os.Exit(3)
	}
}
