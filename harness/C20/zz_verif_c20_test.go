//go:build verif

// C20 harness: drives the real Conn.<Type>List (the entry points of conn.go under every kind of
// Login.LoginCluster setting -> generated_*List + splitListRequest) with recording stub backends and
// prints one Gallina case per request (see coq/model/C20_run.v).  Every call runs under a watchdog: a call
// that has not returned after c20Watchdog() is recorded as the observation "stuck" (o_fate = 1), a panic in
// the calling goroutine as o_fate = 2; the evaluator judges both.
package federation

import (
	"context"
	"errors"
	"fmt"
	"net/http/httptest"
	"net/url"
	"os"
	"sort"
	"strings"
	"sync"
	"testing"
	"time"

	"git.arvados.org/arvados.git/lib/controller/router"
	"git.arvados.org/arvados.git/lib/controller/rpc"
	"git.arvados.org/arvados.git/sdk/go/arvados"
	"git.arvados.org/arvados.git/sdk/go/arvadostest"
	"git.arvados.org/arvados.git/sdk/go/httpserver"
)

type c20Item struct {
	uuid string
	t    int64
}

type c20Call struct {
	opts arvados.ListOptions
	ans  []c20Item
	code int // 0 = items, else error status
}

const (
	c20Honest = iota
	c20Err
	c20Empty
	c20NoProgress
	c20Repeat        // F9: honest page + an item delivered by an earlier page
	c20DupInPage     // honest page with one of its items twice
	c20ForeignNon    // honest page + an object nobody asked for
	c20ForeignTarget // honest page + an object requested from another cluster
	c20OnlyRepeat    // page consisting only of already delivered items
	c20Hang          // stuck backend that honours cancellation: answers (with the context's error) only when its context is cancelled
)

// wire stage: every stub sits behind router.New(stub) + an httptest server and is reached through
// rpc.NewConn, as between two real controllers (and, half of the time, so is the federating Conn itself).
// JSON does not distinguish []string from []interface{} of strings: both are printed as OStrs there.
var c20WireMode bool

func c20AllStrings(l []interface{}) ([]string, bool) {
	out := []string{}
	for _, e := range l {
		s, ok := e.(string)
		if !ok {
			return nil, false
		}
		out = append(out, s)
	}
	return out, true
}

var c20FaultNames = []string{"honest", "error", "empty", "noprogress", "repeat", "dup-in-page", "foreign-nontarget", "foreign-target", "only-repeats", "hang-until-cancelled"}

type c20Backend struct {
	arvadostest.APIStub
	id        string
	idx       int
	mtx       sync.Mutex
	calls     []c20Call
	r         *vRand
	exist     map[string]bool
	delivered []string
	pageSize  int // 0 = everything at once
	faults    map[int]int
	errCode   int
	nserial   int64
	foreign   []string // uuids requested from other clusters
	nontarget []string
	updates   [][]string // UserBatchUpdate calls received: the user uuids of each
	updOK     []bool
	updFail   bool
	runaway   bool // more than c20MaxCalls list calls: refused without being recorded
}

// no request of the generator needs more than |todo| <= ~30 calls to one backend; an implementation that
// keeps calling is cut off here so that a runaway loop ends (with an error) instead of eating the machine
const c20MaxCalls = 60

// c20Watchdog: how long a single Conn.<Type>List call (microseconds of work against in-process stubs) may
// take before it is recorded as stuck.  Not a performance bound: 20 s by default.
func c20Watchdog() time.Duration {
	return time.Duration(vEnvInt("VERIF_C20_WATCHDOG_S", 20)) * time.Second
}

func c20Time(serial int64) int64 { return (serial*7919 + 13) % 1000003 }

func (b *c20Backend) item(u string) c20Item {
	s := int64(b.idx)*100000 + b.nserial
	b.nserial++
	return c20Item{u, c20Time(s)}
}

func c20Batch(opts arvados.ListOptions) ([]string, bool) {
	if len(opts.Filters) == 1 && opts.Filters[0].Attr == "uuid" && opts.Filters[0].Operator == "in" {
		if l, ok := opts.Filters[0].Operand.([]string); ok {
			return l, true
		}
		if l, ok := opts.Filters[0].Operand.([]interface{}); ok && c20WireMode {
			return c20AllStrings(l)
		}
	}
	return nil, false
}

func (b *c20Backend) answer(ctx context.Context, opts arvados.ListOptions) ([]c20Item, error) {
	b.mtx.Lock()
	defer b.mtx.Unlock()
	n := len(b.calls)
	if n >= c20MaxCalls {
		b.runaway = true
		return nil, httpserver.ErrorWithStatus(errors.New("stub: runaway caller"), 508)
	}
	rec := c20Call{opts: opts}
	// deep copies of what may be reused by the caller
	rec.opts.Filters = append([]arvados.Filter(nil), opts.Filters...)
	for i, f := range rec.opts.Filters {
		if l, ok := f.Operand.([]string); ok {
			rec.opts.Filters[i].Operand = append([]string{}, l...)
		}
	}
	if opts.Select != nil {
		rec.opts.Select = append([]string{}, opts.Select...)
	}
	batch, isBatch := c20Batch(opts)
	fault := b.faults[n]
	var matching []string
	if isBatch {
		seen := map[string]bool{}
		for _, u := range batch {
			if b.exist[u] && !seen[u] {
				seen[u] = true
				matching = append(matching, u)
			}
		}
	} else {
		for u := range b.exist {
			matching = append(matching, u)
		}
	}
	sort.Strings(matching)
	for i := len(matching) - 1; i > 0; i-- {
		j := b.r.Intn(i + 1)
		matching[i], matching[j] = matching[j], matching[i]
	}
	if b.pageSize > 0 && len(matching) > b.pageSize {
		matching = matching[:b.pageSize]
	}
	var us []string
	switch fault {
	case c20Err:
		rec.code = b.errCode
		b.calls = append(b.calls, rec)
		if b.errCode == 500 {
			return nil, errors.New("stub failure without status")
		}
		return nil, httpserver.ErrorWithStatus(errors.New("stub failure"), b.errCode)
	case c20Hang:
		// recorded before blocking, so that the log of a call that never returns shows it
		rec.code = 499
		b.calls = append(b.calls, rec)
		b.mtx.Unlock()
		<-ctx.Done()
		b.mtx.Lock()
		return nil, ctx.Err()
	case c20Empty:
	case c20NoProgress:
		us = append(us, b.nontarget[b.r.Intn(len(b.nontarget))])
		if b.r.Bool() && len(b.delivered) > 0 {
			us = append(us, b.delivered[b.r.Intn(len(b.delivered))])
		}
	case c20OnlyRepeat:
		if len(b.delivered) > 0 {
			us = append(us, b.delivered[b.r.Intn(len(b.delivered))])
		} else {
			us = matching
		}
	case c20Repeat:
		us = append(us, matching...)
		if len(b.delivered) > 0 {
			k := b.r.Intn(len(us) + 1)
			d := b.delivered[b.r.Intn(len(b.delivered))]
			us = append(us[:k], append([]string{d}, us[k:]...)...)
		}
	case c20DupInPage:
		us = append(us, matching...)
		if len(us) > 0 {
			us = append(us, us[b.r.Intn(len(us))])
		}
	case c20ForeignNon:
		us = append(us, matching...)
		us = append(us, b.nontarget[b.r.Intn(len(b.nontarget))])
	case c20ForeignTarget:
		us = append(us, matching...)
		if len(b.foreign) > 0 {
			us = append(us, b.foreign[b.r.Intn(len(b.foreign))])
		}
	default:
		us = matching
	}
	for _, u := range us {
		rec.ans = append(rec.ans, b.item(u))
	}
	b.delivered = append(b.delivered, us...)
	b.calls = append(b.calls, rec)
	return rec.ans, nil
}

func (b *c20Backend) CollectionList(ctx context.Context, o arvados.ListOptions) (arvados.CollectionList, error) {
	its, err := b.answer(ctx, o)
	var l arvados.CollectionList
	for _, it := range its {
		l.Items = append(l.Items, arvados.Collection{UUID: it.uuid, ModifiedAt: time.Unix(it.t, 0)})
	}
	return l, err
}
func (b *c20Backend) ContainerList(ctx context.Context, o arvados.ListOptions) (arvados.ContainerList, error) {
	its, err := b.answer(ctx, o)
	var l arvados.ContainerList
	for _, it := range its {
		l.Items = append(l.Items, arvados.Container{UUID: it.uuid, ModifiedAt: time.Unix(it.t, 0)})
	}
	return l, err
}
func (b *c20Backend) ContainerRequestList(ctx context.Context, o arvados.ListOptions) (arvados.ContainerRequestList, error) {
	its, err := b.answer(ctx, o)
	var l arvados.ContainerRequestList
	for _, it := range its {
		l.Items = append(l.Items, arvados.ContainerRequest{UUID: it.uuid, ModifiedAt: time.Unix(it.t, 0)})
	}
	return l, err
}
func (b *c20Backend) GroupList(ctx context.Context, o arvados.ListOptions) (arvados.GroupList, error) {
	its, err := b.answer(ctx, o)
	var l arvados.GroupList
	for _, it := range its {
		l.Items = append(l.Items, arvados.Group{UUID: it.uuid, ModifiedAt: time.Unix(it.t, 0)})
	}
	return l, err
}
func (b *c20Backend) SpecimenList(ctx context.Context, o arvados.ListOptions) (arvados.SpecimenList, error) {
	its, err := b.answer(ctx, o)
	var l arvados.SpecimenList
	for _, it := range its {
		l.Items = append(l.Items, arvados.Specimen{UUID: it.uuid, ModifiedAt: time.Unix(it.t, 0)})
	}
	return l, err
}
func (b *c20Backend) UserList(ctx context.Context, o arvados.ListOptions) (arvados.UserList, error) {
	its, err := b.answer(ctx, o)
	var l arvados.UserList
	for _, it := range its {
		l.Items = append(l.Items, arvados.User{UUID: it.uuid, ModifiedAt: time.Unix(it.t, 0)})
	}
	return l, err
}

func (b *c20Backend) UserBatchUpdate(ctx context.Context, o arvados.UserBatchUpdateOptions) (arvados.UserList, error) {
	b.mtx.Lock()
	defer b.mtx.Unlock()
	var us []string
	for u := range o.Updates {
		us = append(us, u)
	}
	sort.Strings(us)
	b.updates = append(b.updates, us)
	b.updOK = append(b.updOK, !b.updFail)
	if b.updFail {
		return arvados.UserList{}, errors.New("stub: batch update failed")
	}
	return arvados.UserList{}, nil
}

var c20Types = []string{"Collection", "Container", "ContainerRequest", "Group", "Specimen", "User"}
var c20Kinds = []string{"KCollection", "KContainer", "KContainerRequest", "KGroup", "KSpecimen", "KUser"}

// c20Guarded runs one Conn.<Type>List call in its own goroutine.  fate: 0 = returned, 1 = not back when
// the watchdog expired (the goroutine is abandoned), 2 = panicked.
func c20Guarded(conn arvados.API, kind int, o arvados.ListOptions) (items []c20Item, err error, fate int, panicMsg string) {
	type res struct {
		items []c20Item
		err   error
		pmsg  string
		fate  int
	}
	ch := make(chan res, 1)
	go func() {
		var r res
		defer func() {
			if p := recover(); p != nil {
				r = res{fate: 2, pmsg: fmt.Sprint(p)}
			}
			ch <- r
		}()
		r.items, r.err = c20Call1(conn, kind, o)
	}()
	wd := time.NewTimer(c20Watchdog())
	defer wd.Stop()
	select {
	case r := <-ch:
		return r.items, r.err, r.fate, r.pmsg
	case <-wd.C:
		return nil, nil, 1, ""
	}
}

func c20Call1(conn arvados.API, kind int, o arvados.ListOptions) (items []c20Item, err error) {
	ctx := context.Background()
	switch kind {
	case 0:
		l, e := conn.CollectionList(ctx, o)
		for _, x := range l.Items {
			items = append(items, c20Item{x.UUID, x.ModifiedAt.Unix()})
		}
		err = e
	case 1:
		l, e := conn.ContainerList(ctx, o)
		for _, x := range l.Items {
			items = append(items, c20Item{x.UUID, x.ModifiedAt.Unix()})
		}
		err = e
	case 2:
		l, e := conn.ContainerRequestList(ctx, o)
		for _, x := range l.Items {
			items = append(items, c20Item{x.UUID, x.ModifiedAt.Unix()})
		}
		err = e
	case 3:
		l, e := conn.GroupList(ctx, o)
		for _, x := range l.Items {
			items = append(items, c20Item{x.UUID, x.ModifiedAt.Unix()})
		}
		err = e
	case 4:
		l, e := conn.SpecimenList(ctx, o)
		for _, x := range l.Items {
			items = append(items, c20Item{x.UUID, x.ModifiedAt.Unix()})
		}
		err = e
	default:
		l, e := conn.UserList(ctx, o)
		for _, x := range l.Items {
			items = append(items, c20Item{x.UUID, x.ModifiedAt.Unix()})
		}
		err = e
	}
	return
}

func c20Code(err error) int {
	if err == nil {
		return 0
	}
	if h, ok := err.(interface{ HTTPStatus() int }); ok {
		return h.HTTPStatus()
	}
	return 500
}

// ---- Gallina printing ----
func c20Operand(v interface{}) string {
	switch x := v.(type) {
	case string:
		return "(OStr " + gStr(x) + ")"
	case []interface{}:
		if l, ok := c20AllStrings(x); ok && c20WireMode {
			return "(OStrs " + gStrs(l) + ")"
		}
		var ys []string
		for _, e := range x {
			if s, ok := e.(string); ok {
				ys = append(ys, "Some "+gStr(s))
			} else {
				ys = append(ys, "None")
			}
		}
		return "(OList " + gList(ys) + ")"
	case []string:
		return "(OStrs " + gStrs(x) + ")"
	default:
		return "OOther"
	}
}
func c20Opts(o arvados.ListOptions) string {
	var fs []string
	for _, f := range o.Filters {
		fs = append(fs, fmt.Sprintf("Fl %s %s %s", gStr(f.Attr), gStr(f.Operator), c20Operand(f.Operand)))
	}
	return fmt.Sprintf("(Op %s %s %s %s %s %s %s %s)", gBool(o.BypassFederation), gStr(o.ForwardedFor), gList(fs),
		gStr(o.Count), gZ(o.Limit), gZ(o.Offset), gStrs(o.Order), gOpt(o.Select != nil, gStrs(o.Select)))
}
func c20Items(its []c20Item) string {
	var ys []string
	for _, it := range its {
		ys = append(ys, fmt.Sprintf("It %s %s", gStr(it.uuid), gN(it.t)))
	}
	return gList(ys)
}

func c20UUID(r *vRand, cluster string) string {
	const al = "0123456789abcdefghijklmnopqrstuvwxyz"
	b := make([]byte, 15)
	for i := range b {
		b[i] = al[r.Intn(len(al))]
	}
	return cluster + "-" + r.Pick("4zz18", "dz642", "xvhdp", "j7d0g", "tpzed") + "-" + string(b)
}

func TestVerifC20(t *testing.T) {
	seed := vSeed()
	n := vEnvInt("VERIF_N", 200)
	only := vOnly()
	stage := os.Getenv("VERIF_STAGE")
	if stage == "" {
		stage = "c20"
	}
	wire := strings.HasPrefix(stage, "c20wire")
	c20WireMode = wire
	cs := vNewCases(stage)
	nStuck := 0
	for i := 0; i < n; i++ {
		if only >= 0 && i != only {
			continue
		}
		if nStuck >= 2 {
			// two calls that never came back are failing inputs enough; every further one would cost another
			// watchdog period
			break
		}
		r := vCaseRand(seed, i)
		pool := []string{"aaaaa", "bbbbb", "ccccc", "ddddd", "eeeee"}
		for k := len(pool) - 1; k > 0; k-- {
			j := r.Intn(k + 1)
			pool[k], pool[j] = pool[j], pool[k]
		}
		local := pool[0]
		nrem := r.Intn(4)
		if r.Chance(1, 2) && nrem == 0 {
			nrem = 1 + r.Intn(3)
		}
		remotes := append([]string{}, pool[1:1+nrem]...)
		unknown := pool[4]

		// ---- which objects are asked for ----
		involved := []string{}
		for _, c := range append([]string{local}, remotes...) {
			if r.Chance(2, 3) {
				involved = append(involved, c)
			}
		}
		useUnknown := r.Chance(1, 12)
		if useUnknown {
			involved = append(involved, unknown)
		}
		if len(involved) == 0 && r.Chance(4, 5) {
			if nrem > 0 {
				involved = append(involved, remotes[0])
			} else {
				involved = append(involved, local)
			}
		}
		var want []string
		wantBy := map[string][]string{}
		// wire stage: half of the requests name 26..39 objects of one cluster, so that the first batch sent
		// there is too long for a query string (arvados.Client: >= 1000 bytes encoded -> POST with
		// X-Http-Method-Override: GET and a form body) while later, smaller batches travel as plain GETs
		big := ""
		if wire && len(involved) > 0 && r.Chance(1, 2) {
			big = involved[r.Intn(len(involved))]
		}
		for _, c := range involved {
			k := 1 + r.Intn(4)
			if r.Chance(1, 10) {
				k = 5 + r.Intn(3)
			}
			if c == big {
				k = 26 + r.Intn(14)
			}
			for j := 0; j < k; j++ {
				u := c20UUID(r, c)
				want = append(want, u)
				wantBy[c] = append(wantBy[c], u)
			}
		}
		nGood := len(want)
		main := append([]string{}, want...)
		malformed := false
		if r.Chance(1, 6) { // malformed uuids: wrong length, empty, prefix only
			malformed = true
			for j := 0; j < 1+r.Intn(2); j++ {
				c := pool[r.Intn(len(pool))]
				u := c20UUID(r, c)
				main = append(main, r.Pick(u[:26], u+"0", "", c, u[:5]+"-"+u[6:12]))
			}
		}
		if r.Chance(1, 6) && len(main) > 0 { // duplicates
			main = append(main, main[r.Intn(len(main))])
		}
		for k := len(main) - 1; k > 0; k-- {
			j := r.Intn(k + 1)
			main[k], main[j] = main[j], main[k]
		}
		asIface := func(l []string, junk bool) []interface{} {
			var out []interface{}
			for _, s := range l {
				out = append(out, s)
				if junk && r.Chance(1, 4) {
					switch r.Intn(3) {
					case 0:
						out = append(out, 42)
					case 1:
						out = append(out, nil)
					default:
						out = append(out, []string{s})
					}
				}
			}
			if out == nil {
				out = []interface{}{}
			}
			return out
		}
		uuidFilter := func(l []string) arvados.Filter {
			switch x := r.Intn(10); {
			case len(l) == 1 && x < 5:
				return arvados.Filter{Attr: "uuid", Operator: "=", Operand: l[0]}
			case x < 7 && !wire:
				return arvados.Filter{Attr: "uuid", Operator: "in", Operand: asIface(l, r.Chance(1, 5))}
			default:
				return arvados.Filter{Attr: "uuid", Operator: "in", Operand: append([]string{}, l...)}
			}
		}
		var filters []arvados.Filter
		noUUIDFilter := r.Chance(1, 25)
		if !noUUIDFilter {
			filters = append(filters, uuidFilter(main))
		}
		nExtra := 0
		if r.Chance(3, 10) {
			nExtra = 1 + r.Intn(2)
		}
		for k := 0; k < nExtra && !noUUIDFilter; k++ {
			var l []string
			switch r.Intn(4) {
			case 0: // superset
				l = append(append([]string{}, main...), c20UUID(r, pool[r.Intn(len(pool))]))
			case 1: // random subset: the intersection matters
				for _, u := range main {
					if r.Chance(2, 3) {
						l = append(l, u)
					}
				}
			case 2: // overlapping
				for _, u := range main {
					if r.Bool() {
						l = append(l, u)
					}
				}
				l = append(l, c20UUID(r, local))
			default: // a single element
				if len(main) > 0 {
					l = []string{main[r.Intn(len(main))]}
				}
			}
			f := uuidFilter(l)
			if r.Bool() {
				filters = append(filters, f)
			} else {
				filters = append([]arvados.Filter{f}, filters...)
			}
		}
		// three quarters of the requests are splittable as they stand; the rest gets perturbed options
		dirty := r.Chance(1, 4)
		pert := func(p, q int) bool { return dirty && r.Chance(p, q) }
		otherFilter := pert(1, 3)
		if otherFilter {
			var f arvados.Filter
			switch r.Intn(5) {
			case 0:
				f = arvados.Filter{Attr: "owner_uuid", Operator: "=", Operand: c20UUID(r, local)}
			case 1:
				f = arvados.Filter{Attr: "uuid", Operator: "like", Operand: local + "-%"}
			case 2:
				f = arvados.Filter{Attr: "uuid", Operator: "!=", Operand: c20UUID(r, local)}
			case 3:
				f = arvados.Filter{Attr: "name", Operator: "in", Operand: []interface{}{"a", "b"}}
			default:
				f = arvados.Filter{Attr: "uuid", Operator: "not in", Operand: []string{c20UUID(r, local)}}
			}
			k := r.Intn(len(filters) + 1)
			filters = append(filters[:k], append([]arvados.Filter{f}, filters[k:]...)...)
		}
		badOperand := !wire && pert(1, 6)
		if badOperand {
			var f arvados.Filter
			switch r.Intn(5) {
			case 0:
				f = arvados.Filter{Attr: "uuid", Operator: "=", Operand: 42}
			case 1:
				f = arvados.Filter{Attr: "uuid", Operator: "=", Operand: []string{c20UUID(r, local)}}
			case 2:
				f = arvados.Filter{Attr: "uuid", Operator: "in", Operand: c20UUID(r, local)}
			case 3:
				f = arvados.Filter{Attr: "uuid", Operator: "in", Operand: []int{1, 2}}
			default:
				f = arvados.Filter{Attr: "uuid", Operator: "=", Operand: []interface{}{c20UUID(r, local)}}
			}
			k := r.Intn(len(filters) + 1)
			filters = append(filters[:k], append([]arvados.Filter{f}, filters[k:]...)...)
		}
		opts := arvados.ListOptions{Filters: filters, Count: "none", Limit: -1}
		if pert(1, 4) {
			opts.Count = r.Pick("exact", "", "None")
		}
		if pert(1, 4) {
			opts.Limit = int64([]int{0, 1, 10, 1000}[r.Intn(4)])
		} else if r.Chance(1, 10) && !wire {
			// (rpc.Conn drops every negative limit from the request: the receiver sees -1)
			opts.Limit = int64(-1 - r.Intn(3))
		}
		if pert(1, 5) {
			opts.Offset = int64([]int{1, 5, -1}[r.Intn(3)])
		}
		if pert(1, 5) {
			opts.Order = []string{r.Pick("uuid", "modified_at desc", "name asc")}
		} else if r.Chance(1, 10) && !wire {
			opts.Order = []string{}
		}
		switch x := r.Intn(6); {
		case wire && x == 0:
			// (the router trims every returned object to the selected fields: keep the serial number)
			opts.Select = []string{"uuid", "modified_at"}
		case wire && x == 1:
			opts.Select = []string{"modified_at", "uuid"}
		case wire:
		case x == 0:
			opts.Select = []string{"uuid"}
		case x == 1:
			opts.Select = []string{"name", "uuid"}
		case x == 2:
			opts.Select = []string{}
		}
		if pert(1, 8) {
			opts.BypassFederation = true
		}
		if pert(1, 8) {
			opts.ForwardedFor = r.Pick("bbbbb-", "ccccc-aaaaa-", "x")
		}
		max := 1000
		if r.Chance(1, 5) {
			max = nGood - 1 + r.Intn(3)
			if r.Chance(1, 6) {
				max = 0
			}
			if max < 0 {
				max = 0
			}
		}

		// ---- backends ----
		nontarget := []string{}
		for _, c := range pool {
			nontarget = append(nontarget, c20UUID(r, c))
		}
		var exist []string
		mk := func(id string, idx int) *c20Backend {
			b := &c20Backend{id: id, idx: idx, r: vNewRand(r.U64()), exist: map[string]bool{}, faults: map[int]int{}, nontarget: nontarget}
			for _, u := range wantBy[id] {
				if r.Chance(3, 4) {
					b.exist[u] = true
					exist = append(exist, u)
				}
			}
			nx := 0
			if wire {
				nx = 1 + r.Intn(3) // an unfiltered list always shows objects nobody asked for
			}
			for j := 0; j < nx || (!wire && j < r.Intn(3)); j++ {
				u := c20UUID(r, id)
				b.exist[u] = true
				exist = append(exist, u)
			}
			for c, l := range wantBy {
				if c != id {
					b.foreign = append(b.foreign, l...)
				}
			}
			sort.Strings(b.foreign)
			switch r.Intn(4) {
			case 0:
				b.pageSize = 1
			case 1:
				b.pageSize = 0
			default:
				b.pageSize = 1 + r.Intn(4)
			}
			b.errCode = []int{404, 500, 503, 422, 401}[r.Intn(5)]
			if id == big && b.pageSize > 0 && b.pageSize < 8 {
				b.pageSize = 8 + r.Intn(24)
			}
			return b
		}
		bl := mk(local, 0)
		bes := []*c20Backend{bl}
		rem := map[string]backend{}
		for k, id := range remotes {
			b := mk(id, k+1)
			bes = append(bes, b)
			rem[id] = b
		}
		faultTags := []string{}
		if r.Chance(1, 2) {
			nf := 1
			if r.Chance(1, 4) {
				nf = 2
			}
			for k := 0; k < nf; k++ {
				b := bes[r.Intn(len(bes))]
				for tries := 0; tries < 4 && len(wantBy[b.id]) == 0; tries++ {
					b = bes[r.Intn(len(bes))]
				}
				var f int
				switch x := r.Intn(20); {
				case x < 4:
					f = c20Err
				case x < 6:
					f = c20Empty
				case x < 8:
					f = c20NoProgress
				case x < 13:
					f = c20Repeat
				case x < 15:
					f = c20OnlyRepeat
				case x < 17:
					f = c20ForeignNon
				case x < 18:
					f = c20DupInPage
				default:
					f = c20ForeignTarget
				}
				callNo := []int{0, 0, 0, 1, 1, 2}[r.Intn(6)]
				if f == c20Repeat || f == c20OnlyRepeat {
					callNo = []int{1, 1, 2}[r.Intn(3)]
					if b.pageSize == 0 || b.pageSize > 2 {
						b.pageSize = 1 + r.Intn(2)
					}
				}
				b.faults[callNo] = f
				faultTags = append(faultTags, "fault:"+c20FaultNames[f])
			}
		}

		conn := &Conn{cluster: &arvados.Cluster{ClusterID: local}, local: bl, remotes: rem}
		conn.cluster.API.MaxItemsPerResponse = max
		kind := r.Intn(len(c20Types))
		// ---- Login.LoginCluster: unset / the cluster itself / one of the remotes / a cluster nobody knows /
		// not a cluster id at all (conn.go decides per resource type whether the splitter is used) ----
		login, loginTag := "", "none"
		switch x := r.Intn(20); {
		case x < 7:
		case x < 12:
			login, loginTag = local, "self"
		case x < 17:
			if nrem > 0 {
				login, loginTag = remotes[r.Intn(nrem)], "remote"
			} else {
				login, loginTag = local, "self"
			}
		case x < 18:
			login, loginTag = unknown, "unknown-cluster"
		case x < 19:
			// a whole uuid: chooseBackend takes its prefix, batchUpdateUsers compares with all of it
			if len(want) > 0 {
				login = want[r.Intn(len(want))]
			} else {
				login = c20UUID(r, local)
			}
			loginTag = "uuid"
		default:
			login, loginTag = r.Pick("x", local+"x", local[:4], "zzzzzzzzzzzzzzzzzzzzzzzzzzzzzzzzzzzzz"), "odd"
		}
		if wire && login != local {
			// the forwarded UserList is not about the wire format of split requests, and its UserBatchUpdate to the
			// local backend cannot be observed behind the Go router (PATCH users/batch_update is taken by the
			// users/{uuid} route registered before it; the real local backend is Rails)
			login, loginTag = "", "none"
		}
		conn.cluster.Login.LoginCluster = login
		bl.updFail = r.Chance(1, 6)
		// ---- "a failed request fails now": one involved cluster is certain to fail (error answer to its first
		// call, or no backend at all) while another one is stuck until its context is cancelled.  Only where the
		// failure is certain whatever the interleaving: a clean splittable request with a single uuid filter that
		// is not forwarded to a login cluster (anything else either makes no backend call at all or could leave
		// the stuck backend as the only one asked, which never returns in a correct tree either). ----
		cancelScenario := false
		if !wire {
			forwarded := kind == 5 && login != "" && login != local && !opts.BypassFederation
			var cands []string
			for _, c := range involved {
				if len(wantBy[c]) > 0 {
					cands = append(cands, c)
				}
			}
			if !dirty && nExtra == 0 && !noUUIDFilter && !forwarded && len(cands) >= 2 && r.Chance(1, 3) {
				byID := map[string]*c20Backend{}
				for _, b := range bes {
					byID[b.id] = b
				}
				xi := r.Intn(len(cands))
				yi := (xi + 1 + r.Intn(len(cands)-1)) % len(cands)
				if byID[cands[yi]] == nil {
					xi, yi = yi, xi // the stuck one must have a backend; the failing one may be the unknown cluster
				}
				x, y := byID[cands[xi]], byID[cands[yi]]
				if x != nil {
					x.faults = map[int]int{0: c20Err}
				}
				hc := []int{0, 0, 1}[r.Intn(3)]
				y.faults[hc] = c20Hang
				cancelScenario = true
				faultTags = append(faultTags, "fault:"+c20FaultNames[c20Hang], "scenario:cancel-after-certain-failure")
			}
		}
		// ---- wire stage: federation.Conn -> rpc.Conn -> HTTP -> router -> stub ----
		var api arvados.API = conn
		var servers []*httptest.Server
		ingress := false
		if wire {
			tp := func(context.Context) ([]string, error) { return []string{"v2/" + local + "-gj3su-000000000000000/verif"}, nil }
			via := func(id string, be arvados.API) *rpc.Conn {
				srv := httptest.NewServer(router.New(be, nil))
				servers = append(servers, srv)
				u, _ := url.Parse(srv.URL)
				return rpc.NewConn(id, u, false, tp)
			}
			conn.local = via(local, bl)
			for id, b := range rem {
				conn.remotes[id] = via(id, b)
			}
			if ingress = r.Bool(); ingress {
				api = via(local, conn)
			}
		}
		items, err, fate, panicMsg := c20Guarded(api, kind, opts)
		code := c20Code(err)
		if fate == 1 {
			nStuck++
		}
		for _, srv := range servers {
			srv.CloseClientConnections()
			if fate == 0 {
				srv.Close()
			}
		}

		// ---- print ----
		origin := map[int64]string{}
		ncalls := 0
		var logs []string
		logDesc := map[string]interface{}{}
		faultsHit := map[string]bool{}
		runaway := false
		for _, b := range bes {
			var es []string
			var ed []interface{}
			// (a stuck call's goroutines may still be using the stubs)
			b.mtx.Lock()
			calls := append([]c20Call(nil), b.calls...)
			runaway = runaway || b.runaway
			b.mtx.Unlock()
			for k, c := range calls {
				ncalls++
				if f, ok := b.faults[k]; ok {
					faultsHit["hit:"+c20FaultNames[f]] = true
				}
				for _, it := range c.ans {
					origin[it.t] = b.id
				}
				ans := "AItems " + c20Items(c.ans)
				if c.code != 0 {
					ans = "AErr " + gN(int64(c.code))
				}
				es = append(es, "("+c20Opts(c.opts)+", "+ans+")")
				var us []string
				for _, it := range c.ans {
					us = append(us, it.uuid)
				}
				bt, _ := c20Batch(c.opts)
				ed = append(ed, map[string]interface{}{"batch": bt, "answer": us, "err": c.code})
			}
			logs = append(logs, "("+gStr(b.id)+", "+gList(es)+")")
			logDesc[b.id] = ed
		}
		var oi []string
		var ru []string
		for _, it := range items {
			oi = append(oi, fmt.Sprintf("(%s, It %s %s)", gStr(origin[it.t]), gStr(it.uuid), gN(it.t)))
			ru = append(ru, it.uuid)
		}
		if code != 0 || fate != 0 {
			oi = nil // items returned next to an error are not part of the observable result
		}
		bl.mtx.Lock()
		blCalls := append([]c20Call(nil), bl.calls...)
		var upd []string
		for k, us := range bl.updates {
			upd = append(upd, "("+gStrs(us)+", "+gBool(bl.updOK[k])+")")
		}
		updDesc := append([][]string(nil), bl.updates...)
		bl.mtx.Unlock()
		sort.Strings(exist)
		term := fmt.Sprintf("{| c_cfg := Cf %s %s %s; c_login := %s; c_kind := %s; c_opts := %s; c_exist := %s;\n   c_logs := %s;\n   c_lax := %s; c_upd := %s; o_fate := %s; o_code := %s; o_items := %s |}",
			gStr(local), gStrs(remotes), gZ(int64(max)), gStr(login), c20Kinds[kind], c20Opts(opts), gStrs(exist), gList(logs),
			gBool(wire), gList(upd), gN(int64(fate)), gN(int64(code)), gList(oi))
		fj := []interface{}{}
		for _, f := range filters {
			fj = append(fj, []interface{}{f.Attr, f.Operator, fmt.Sprintf("%T %v", f.Operand, f.Operand)})
		}
		desc := map[string]interface{}{
			"i": i, "type": c20Types[kind], "local": local, "remotes": remotes, "max": max,
			"filters": fj, "count": opts.Count, "limit": opts.Limit, "offset": opts.Offset, "order": opts.Order,
			"select": opts.Select, "bypass": opts.BypassFederation, "forwarded_for": opts.ForwardedFor,
			"exist": exist, "logs": logDesc, "code": code, "result": ru,
			"login_cluster": login, "fate": []string{"returned", "STUCK: no answer within the watchdog period", "PANIC"}[fate],
			"user_batch_updates": updDesc, "wire": wire, "wire_ingress": ingress,
		}
		if fate == 2 {
			desc["panic"] = panicMsg
		}
		if err != nil {
			desc["error"] = err.Error()
		}
		plan := "split"
		switch {
		case ncalls == 0 && code != 0:
			plan = "reject"
		case ncalls == 0:
			plan = "nothing"
		case ncalls == 1 && len(blCalls) == 1 && func() bool { _, ok := c20Batch(blCalls[0].opts); return !ok }():
			plan = "pass"
		}
		tags := []string{"type:" + c20Types[kind], "plan:" + plan, fmt.Sprintf("code:%d", code),
			fmt.Sprintf("clusters-involved:%d", len(involved)), fmt.Sprintf("filters:%d", len(filters))}
		tags = append(tags, faultTags...)
		tags = append(tags, "login:"+loginTag)
		if wire {
			nPost := 0
			for _, l := range logDesc {
				for _, e := range l.([]interface{}) {
					if bt, _ := e.(map[string]interface{})["batch"].([]string); len(bt) >= 26 {
						nPost++
					}
				}
			}
			if nPost > 0 {
				tags = append(tags, "wire:batch>=26-uuids(form-body)")
			}
			if big != "" {
				tags = append(tags, "wire:big-request")
			}
			if ingress {
				tags = append(tags, "wire:ingress-through-router")
			}
		}
		_ = cancelScenario
		if kind == 5 {
			tags = append(tags, "user-list-login:"+loginTag)
			if len(updDesc) > 0 {
				tags = append(tags, "user-cache-update")
			}
			if ncalls == 1 && login != "" && login != local && !opts.BypassFederation {
				tags = append(tags, "forwarded-to-login-cluster")
			}
		}
		if fate != 0 {
			tags = append(tags, []string{"", "fate:stuck", "fate:panic"}[fate])
		}
		if runaway {
			tags = append(tags, "runaway-cut-off")
		}
		for k := range faultsHit {
			tags = append(tags, k)
		}
		if malformed {
			tags = append(tags, "malformed-uuids")
		}
		if useUnknown {
			tags = append(tags, "unknown-cluster")
		}
		if otherFilter {
			tags = append(tags, "other-filter")
		}
		if badOperand {
			tags = append(tags, "bad-operand")
		}
		if ncalls >= 4 {
			tags = append(tags, "calls>=4")
		}
		if strings.Count(term, "AItems") >= 2 && code == 0 {
			tags = append(tags, "multi-page-success")
		}
		cs.Add(i, term, desc, ncalls >= 2 || code != 0 || fate != 0, tags...)
	}
	cs.Write()
}
