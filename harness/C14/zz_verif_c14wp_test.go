//go:build verif

package worker

import (
	"errors"
	"fmt"
	"io"
	"io/ioutil"
	"os"
	"sort"
	"strings"
	"sync"
	"testing"
	"time"

	"git.arvados.org/arvados.git/lib/cloud"
	"git.arvados.org/arvados.git/lib/dispatchcloud/test"
	"git.arvados.org/arvados.git/sdk/go/arvados"
	"github.com/prometheus/client_golang/prometheus"
	"github.com/sirupsen/logrus"
	"golang.org/x/crypto/ssh"
)

// C14/C15 stage "wp": operation sequences through the real worker.Pool / worker / remoteRunner code with a
// stub cloud (explicit listings), stub executors (scripted answers, gated start and list commands) and a
// process table per VM kept by the harness (the environment).  After every operation the observable
// projection (return value, Running(), Unallocated(), CountWorkers(), Instances(), Destroy calls) is
// printed; coq/model/C14_wp_run.v replays the sequence on the model.  Unexported state is read only to
// know when an asynchronous effect has finished, never for the verdict.

type wpInst struct {
	n        int
	it       arvados.InstanceType
	mtx      sync.Mutex
	tags     cloud.InstanceTags
	destroys int
}

func (i *wpInst) ID() cloud.InstanceID                                { return cloud.InstanceID(fmt.Sprintf("i%d", i.n)) }
func (i *wpInst) String() string                                      { return string(i.ID()) }
func (i *wpInst) ProviderType() string                                { return i.it.ProviderType }
func (i *wpInst) Address() string                                     { return "127.0.0.1" }
func (i *wpInst) RemoteUser() string                                  { return "root" }
func (i *wpInst) VerifyHostKey(ssh.PublicKey, *ssh.Client) error      { return nil }
func (i *wpInst) Tags() cloud.InstanceTags {
	i.mtx.Lock()
	defer i.mtx.Unlock()
	r := cloud.InstanceTags{}
	for k, v := range i.tags {
		r[k] = v
	}
	return r
}
func (i *wpInst) SetTags(t cloud.InstanceTags) error {
	i.mtx.Lock()
	defer i.mtx.Unlock()
	i.tags = cloud.InstanceTags{}
	for k, v := range t {
		i.tags[k] = v
	}
	return nil
}
func (i *wpInst) Destroy() error {
	i.mtx.Lock()
	defer i.mtx.Unlock()
	i.destroys++
	return errors.New("destroy pending") // the listing is controlled by the harness
}
func (i *wpInst) nDestroys() int {
	i.mtx.Lock()
	defer i.mtx.Unlock()
	return i.destroys
}

type wpQuotaErr struct{ error }

func (wpQuotaErr) IsQuotaError() bool { return true }

type wpCloud struct {
	h       *wpH
	mtx     sync.Mutex
	insts   map[int]*wpInst
	next    int
	outcome int // for the next Create: 0 ok, 1 quota error, 2 other error
	// Instances(): the answer is the cloud as it is when the request arrives; a gated request is answered later
	gate     bool
	listArr  chan string
	listGate chan struct{}
	lastS    string
}

func (c *wpCloud) Create(it arvados.InstanceType, _ cloud.ImageID, tags cloud.InstanceTags, _ cloud.InitCommand, _ ssh.PublicKey) (cloud.Instance, error) {
	c.mtx.Lock()
	defer c.mtx.Unlock()
	switch c.outcome {
	case 1:
		return nil, wpQuotaErr{errors.New("quota")}
	case 2:
		return nil, errors.New("cloud error")
	}
	inst := &wpInst{n: c.next, it: it, tags: tags}
	c.insts[c.next] = inst
	c.h.allInsts[c.next] = inst
	c.next++
	return inst, nil
}
func (c *wpCloud) Instances(cloud.InstanceTags) ([]cloud.Instance, error) {
	l, s := c.h.listing()
	c.mtx.Lock()
	gate := c.gate
	c.gate = false
	c.lastS = s
	c.mtx.Unlock()
	if gate {
		c.listArr <- s
		<-c.listGate
	}
	return l, nil
}
func (c *wpCloud) Stop()                                                  {}

type wpVM struct {
	mtx       sync.Mutex
	n         int
	procs     map[string]int // live crunch-run processes per container uuid
	bootOK    bool
	listOK    bool
	broken    bool
	stale     bool
	killOK    map[string]bool
	killed    map[string]int
	gateList  bool
	listGate  chan struct{}
	listArr   chan struct{}
	startGate map[string]chan bool
	startArr  chan string
}

func (vm *wpVM) SetTarget(cloud.ExecutorTarget) {}
func (vm *wpVM) Close()                         {}
func (vm *wpVM) Execute(env map[string]string, cmd string, stdin io.Reader) ([]byte, []byte, error) {
	if stdin != nil {
		ioutil.ReadAll(stdin)
	}
	switch {
	case cmd == "true":
		vm.mtx.Lock()
		ok := vm.bootOK
		vm.mtx.Unlock()
		if !ok {
			return nil, []byte("booting\n"), errors.New("boot probe failed")
		}
		return nil, nil, nil
	case cmd == "crunch-run --list":
		vm.mtx.Lock()
		ok := vm.listOK
		var out strings.Builder
		var us []string
		for u, cnt := range vm.procs {
			if cnt > 0 {
				us = append(us, u)
			}
		}
		sort.Strings(us)
		for _, u := range us {
			out.WriteString(u + "\n")
		}
		if vm.stale {
			out.WriteString("zzzzz-dz642-999999999999999 stale\n")
		}
		if vm.broken {
			out.WriteString("broken\n")
		}
		gate := vm.gateList
		vm.gateList = false
		vm.mtx.Unlock()
		if gate {
			vm.listArr <- struct{}{}
			<-vm.listGate
		}
		if !ok {
			return nil, []byte("cannot list\n"), errors.New("list failed")
		}
		return []byte(out.String()), nil, nil
	case strings.HasPrefix(cmd, "crunch-run --detach --stdin-env "):
		uuid := strings.Trim(strings.TrimPrefix(cmd, "crunch-run --detach --stdin-env "), "'")
		ch := make(chan bool, 1)
		vm.mtx.Lock()
		vm.startGate[uuid] = ch
		vm.mtx.Unlock()
		vm.startArr <- uuid
		ok := <-ch
		if !ok {
			return nil, []byte("start failed\n"), errors.New("start failed")
		}
		return nil, nil, nil
	case strings.HasPrefix(cmd, "crunch-run --kill "):
		f := strings.Fields(cmd)
		uuid := f[len(f)-1]
		vm.mtx.Lock()
		defer vm.mtx.Unlock()
		if vm.killOK[uuid] {
			delete(vm.procs, uuid)
			vm.killed[uuid]++
			return nil, []byte("not running\n"), nil
		}
		return nil, []byte("still running\n"), errors.New("kill failed")
	}
	return nil, []byte("command not found\n"), errors.New("command not found")
}

type wpH struct {
	t       *testing.T
	r       *vRand
	cloudS  *wpCloud
	vms     map[int]*wpVM
	pool    *Pool
	its     []arvados.InstanceType
	cfgNs   [5]time.Duration
	term    time.Duration
	steps   []string
	descs   []string
	lastDes map[int]time.Time
	gated   map[string]int // uuid -> instance with a start command waiting
	pending map[int]bool   // instances with a gated probe
	started map[string]int // uuid -> instance (last successful StartContainer)
	killing map[string]bool
	nextU   int
	tags    map[string]int
	allInsts map[int]*wpInst // every instance ever created (also after it left the cloud)
	stuck   int          // != 0: an awaited effect did not arrive (code of OStuck)
	disc    map[int]bool // instances whose processes the present pool has discovered (shown booting/idle/running)
	desSeen map[int]int  // Destroy calls per instance at the previous observation
	desBase map[int]int  // ... when the instance (re)appeared in Instances()
	present map[int]bool
	syncDone chan error // != nil: a getInstancesAndSync call is waiting for the cloud's answer
	raced    bool       // the Kill loop gave up (timeoutTERM 15 ms) before KillContainer's result had been observed
}

func (h *wpH) vm(n int) *wpVM {
	if v, ok := h.vms[n]; ok {
		return v
	}
	v := &wpVM{n: n, procs: map[string]int{}, bootOK: false, listOK: true, killOK: map[string]bool{}, killed: map[string]int{},
		listGate: make(chan struct{}), listArr: make(chan struct{}, 1), startGate: map[string]chan bool{}, startArr: make(chan string, 8)}
	h.vms[n] = v
	return v
}

func (h *wpH) newPool() {
	quiet := logrus.New()
	quiet.SetOutput(ioutil.Discard)
	its := arvados.InstanceTypeMap{}
	for _, it := range h.its {
		its[it.Name] = it
	}
	h.pool = &Pool{
		logger:              quiet,
		arvClient:           &arvados.Client{APIHost: "zzzzz.example", AuthToken: "tok"},
		instanceSetID:       "verif",
		instanceSet:         &throttledInstanceSet{InstanceSet: h.cloudS},
		newExecutor:         func(inst cloud.Instance) Executor { var n int; fmt.Sscanf(string(inst.ID()), "i%d", &n); return h.vm(n) },
		instanceTypes:       its,
		probeInterval:       time.Hour,
		syncInterval:        time.Hour,
		timeoutBooting:      h.cfgNs[0],
		timeoutProbe:        h.cfgNs[1],
		timeoutIdle:         h.cfgNs[2],
		timeoutShutdown:     h.cfgNs[3],
		timeoutStaleRunLock: h.cfgNs[4],
		timeoutTERM:         h.term,
		timeoutSignal:       time.Millisecond,
		runnerCmdDefault:    "crunch-run",
		tagKeyPrefix:        "v:",
		stop:                make(chan bool),
	}
	h.pool.registerMetrics(prometheus.NewRegistry())
	h.pool.Unsubscribe(h.pool.Subscribe()) // runs setup()
	h.lastDes = map[int]time.Time{}
}

// stop the Kill loops of a pool that is being discarded
func (h *wpH) closePool() {
	h.pool.Stop()
	h.pool.mtx.Lock()
	var ws []*worker
	for _, w := range h.pool.workers {
		ws = append(ws, w)
	}
	h.pool.mtx.Unlock()
	for _, w := range ws {
		w.Close()
	}
}

// Watchdog.  Every awaited effect is one goroutine of the code under test that needs the pool mutex once and
// a few microseconds of work (or one tick of a 1 ms ticker).  The Go runtime preempts running goroutines every
// 10 ms, so even with the machine oversubscribed 50-fold such an effect arrives within a second; 20 s leaves
// three more orders of magnitude.  An expiry is therefore reported as an observation of the case (OStuck: the
// model predicts the effect, the implementation did not deliver it), not as a harness failure.
const wpDeadline = 20 * time.Second

var wpStuckCases int // after a few stuck cases the run stops generating (each costs wpDeadline)
var wpDiscarded int  // scenarios not recorded because the harness lost a race against a 15 ms timer of the code under test

func (h *wpH) wait(code int, what string, cond func() bool) bool {
	if h.stuck != 0 || h.raced {
		return false
	}
	if wpWait(what, cond) {
		return true
	}
	h.stuck = code
	return false
}

func wpWait(what string, cond func() bool) bool {
	deadline := time.Now().Add(wpDeadline)
	for time.Now().Before(deadline) {
		if cond() {
			return true
		}
		time.Sleep(100 * time.Microsecond)
	}
	return false
}

func (h *wpH) worker(n int) *worker {
	h.pool.mtx.Lock()
	defer h.pool.mtx.Unlock()
	return h.pool.workers[cloud.InstanceID(fmt.Sprintf("i%d", n))]
}

func (h *wpH) itID(name string) int {
	for i, it := range h.its {
		if it.Name == name {
			return i
		}
	}
	return 99
}

// wait for the Destroy goroutines of shutdown() calls made by the last operation
func (h *wpH) settleDestroys() {
	type exp struct {
		inst *wpInst
		last int
	}
	var exps []exp
	h.pool.mtx.Lock()
	for id, w := range h.pool.workers {
		var n int
		fmt.Sscanf(string(id), "i%d", &n)
		if w.destroyed.IsZero() {
			h.lastDes[n] = time.Time{}
			continue
		}
		if !w.destroyed.Equal(h.lastDes[n]) {
			h.lastDes[n] = w.destroyed
			h.cloudS.mtx.Lock()
			inst := h.allInsts[n]
			h.cloudS.mtx.Unlock()
			if inst != nil {
				exps = append(exps, exp{inst, h.desSeen[n]})
			}
		}
	}
	h.pool.mtx.Unlock()
	for _, e := range exps {
		e := e
		h.wait(7, "destroy", func() bool { return e.inst.nDestroys() > e.last })
	}
}

var wpStateCode = map[string]int{"unknown": 0, "booting": 1, "idle": 2, "running": 3, "shutdown": 4}
var wpIBCode = map[IdleBehavior]int{IdleBehaviorRun: 0, IdleBehaviorHold: 1, IdleBehaviorDrain: 2}
var wpIBName = []string{"IRun", "IHold", "IDrain"}

func wpU(u string) int64 {
	if len(u) < 15 {
		return 0
	}
	var n int64
	fmt.Sscanf(u[len(u)-15:], "%d", &n)
	return n
}

func (h *wpH) observe(ret int64) string {
	h.settleDestroys()
	run := h.pool.Running()
	var us []string
	for u := range run {
		us = append(us, u)
	}
	sort.Strings(us)
	var runS []string
	for _, u := range us {
		runS = append(runS, fmt.Sprintf("(%s, %s)", gN(wpU(u)), gBool(!run[u].IsZero())))
	}
	un := h.pool.Unallocated()
	var unS []string
	for i, it := range h.its {
		if c, ok := un[it]; ok {
			unS = append(unS, fmt.Sprintf("(%s, %s)", gN(int64(i)), gZ(int64(c))))
		}
	}
	counts := []string{"0%nat", "0%nat", "0%nat", "0%nat", "0%nat"}
	h.pool.mtx.RLock()
	loaded := h.pool.loaded
	h.pool.mtx.RUnlock()
	if loaded {
		cw := h.pool.CountWorkers()
		for k, s := range []State{StateUnknown, StateBooting, StateIdle, StateRunning, StateShutdown} {
			counts[k] = gNat(cw[s])
		}
	}
	var instS []string
	cur := map[int]bool{}
	for _, iv := range h.pool.Instances() { // sorted by instance id string; re-sort numerically
		var n int
		fmt.Sscanf(string(iv.Instance), "i%d", &n)
		cur[n] = true
		inst := h.allInsts[n]
		des := 0
		if inst != nil {
			abs := inst.nDestroys()
			if !h.present[n] {
				h.desBase[n] = h.desSeen[n] // Destroy calls issued by an earlier worker object for this instance
			}
			h.desSeen[n] = abs
			des = abs - h.desBase[n]
		}
		if st := wpStateCode[iv.WorkerState]; st == 1 || st == 2 || st == 3 {
			h.disc[n] = true
		}
		instS = append(instS, fmt.Sprintf("%09d|(%s, %s, %s, %s, %s)", n, gN(int64(n)), gN(int64(wpStateCode[iv.WorkerState])),
			gN(int64(wpIBCode[iv.IdleBehavior])), gN(wpU(iv.LastContainerUUID)), gN(int64(des))))
	}
	h.present = cur
	for n := range h.disc {
		if !cur[n] {
			delete(h.disc, n)
		}
	}
	sort.Strings(instS)
	for i := range instS {
		instS[i] = instS[i][10:]
	}
	// environment: live crunch-run processes of the stub VMs, one entry per process
	var liveS []string
	var vmns []int
	for n := range h.vms {
		vmns = append(vmns, n)
	}
	sort.Ints(vmns)
	for _, n := range vmns {
		vm := h.vms[n]
		vm.mtx.Lock()
		var lu []string
		for u, cnt := range vm.procs {
			for k := 0; k < cnt; k++ {
				lu = append(lu, u)
			}
		}
		vm.mtx.Unlock()
		sort.Strings(lu)
		for _, u := range lu {
			liveS = append(liveS, fmt.Sprintf("(%s, %s)", gN(int64(n)), gN(wpU(u))))
		}
	}
	return fmt.Sprintf("Ob %s %s %s %s %s %s", gN(ret), gList(runS), gList(unS), gList(counts), gList(instS), gList(liveS))
}

func (h *wpH) emit(op string, ret int64) {
	ob := h.observe(ret)
	h.steps = append(h.steps, fmt.Sprintf("(%s, %s)", op, ob))
	h.descs = append(h.descs, op+" => "+ob)
	h.tags["op="+strings.Fields(op)[0]]++
}

func (h *wpH) resp(vm *wpVM, gate bool) string {
	vm.mtx.Lock()
	defer vm.mtx.Unlock()
	var us []string
	for u, cnt := range vm.procs {
		if cnt > 0 {
			us = append(us, u)
		}
	}
	sort.Strings(us)
	var ns []string
	for _, u := range us {
		ns = append(ns, gN(wpU(u)))
	}
	vm.gateList = gate
	return fmt.Sprintf("(R %s %s %s %s %s)", gBool(vm.bootOK), gBool(vm.listOK), gList(ns), gBool(vm.broken), gBool(vm.stale))
}

func (h *wpH) knownInstances() []int {
	var r []int
	for _, iv := range h.pool.Instances() {
		var n int
		fmt.Sscanf(string(iv.Instance), "i%d", &n)
		r = append(r, n)
	}
	sort.Ints(r)
	return r
}

func (h *wpH) listing() ([]cloud.Instance, string) {
	h.cloudS.mtx.Lock()
	defer h.cloudS.mtx.Unlock()
	var ns []int
	for n := range h.cloudS.insts {
		ns = append(ns, n)
	}
	sort.Ints(ns)
	var l []cloud.Instance
	var s []string
	for _, n := range ns {
		inst := h.cloudS.insts[n]
		sn := &wpSnap{wpInst: inst, snap: inst.Tags()}
		l = append(l, sn)
		ib := 0
		switch IdleBehavior(sn.snap["v:"+tagKeyIdleBehavior]) {
		case IdleBehaviorHold:
			ib = 1
		case IdleBehaviorDrain:
			ib = 2
		}
		s = append(s, fmt.Sprintf("(%s, %s, %s)", gN(int64(n)), gN(int64(h.itID(inst.it.Name))), wpIBName[ib]))
	}
	return l, gList(s)
}

// wpSnap is what one cloud listing returns for an instance: a coherent snapshot of its tags (drivers may
// return cached tags).  saveTags() runs SetTags in a goroutine; with the snapshot the pool reads exactly the
// tags the harness printed for this listing, whenever that goroutine lands.
type wpSnap struct {
	*wpInst
	smtx sync.Mutex
	snap cloud.InstanceTags
}

func (s *wpSnap) Tags() cloud.InstanceTags {
	s.smtx.Lock()
	defer s.smtx.Unlock()
	r := cloud.InstanceTags{}
	for k, v := range s.snap {
		r[k] = v
	}
	return r
}
func (s *wpSnap) SetTags(t cloud.InstanceTags) error {
	s.smtx.Lock()
	s.snap = cloud.InstanceTags{}
	for k, v := range t {
		s.snap[k] = v
	}
	s.smtx.Unlock()
	return s.wpInst.SetTags(t)
}

// The instance-list sync goes through Pool.getInstancesAndSync (threshold, cloud call, sync), as runSync does.
func (h *wpH) doSync() {
	if h.syncDone != nil {
		h.doSyncEnd()
		return
	}
	time.Sleep(time.Microsecond)
	if err := h.pool.getInstancesAndSync(); err != nil {
		h.t.Fatalf("getInstancesAndSync: %v", err)
	}
	h.cloudS.mtx.Lock()
	s := h.cloudS.lastS
	h.cloudS.mtx.Unlock()
	h.emit("OSync "+s, 0)
}

// ... split: the list request reaches the cloud (the threshold has been taken, the answer is fixed) ...
func (h *wpH) doSyncBegin() {
	if h.syncDone != nil || h.stuck != 0 {
		return
	}
	time.Sleep(time.Microsecond)
	h.cloudS.mtx.Lock()
	h.cloudS.gate = true
	h.cloudS.mtx.Unlock()
	done := make(chan error, 1)
	pool := h.pool
	go func() { done <- pool.getInstancesAndSync() }()
	var s string
	if !h.wait(8, "list request", func() bool {
		select {
		case s = <-h.cloudS.listArr:
			return true
		default:
			return false
		}
	}) {
		return
	}
	time.Sleep(time.Microsecond)
	h.syncDone = done
	h.tags["directed=sync-split"]++
	h.emit("OSyncBegin "+s, 0)
}

// ... and the answer arrives: Pool.sync(threshold, answer)
func (h *wpH) doSyncEnd() {
	if h.syncDone == nil || h.stuck != 0 {
		return
	}
	h.cloudS.listGate <- struct{}{}
	var err error
	ok := h.wait(8, "sync done", func() bool {
		select {
		case err = <-h.syncDone:
			return true
		default:
			return false
		}
	})
	h.syncDone = nil
	if !ok {
		return
	}
	if err != nil {
		h.t.Fatalf("getInstancesAndSync: %v", err)
	}
	h.emit("OSyncEnd", 0)
}

// drain everything asynchronous that belongs to the current pool (before a restart / at the end)
func (h *wpH) finishPending() {
	h.doSyncEnd()
	for n := range h.pending {
		h.opProbeEnd(n)
	}
	var us []string
	for u := range h.gated {
		us = append(us, u)
	}
	sort.Strings(us)
	for _, u := range us {
		h.opLands(u, true)
	}
}

func (h *wpH) opProbeEnd(n int) {
	vm := h.vm(n)
	done := make(chan struct{})
	_ = done
	vm.listGate <- struct{}{}
	w := h.worker(n)
	if w != nil {
		h.wait(6, "probe end", func() bool {
			select {
			case w.probing <- struct{}{}:
				<-w.probing
				return true
			default:
				return false
			}
		})
	} else {
		time.Sleep(2 * time.Millisecond)
	}
	delete(h.pending, n)
	h.emit(fmt.Sprintf("OProbeEnd %s", gN(int64(n))), 0)
}

func (h *wpH) opLands(u string, ok bool) {
	n := h.gated[u]
	vm := h.vm(n)
	vm.mtx.Lock()
	ch := vm.startGate[u]
	delete(vm.startGate, u)
	if ok {
		vm.procs[u]++
	}
	vm.mtx.Unlock()
	w := h.worker(n)
	ch <- ok
	if w != nil {
		h.wait(3, "lands", func() bool {
			h.pool.mtx.Lock()
			defer h.pool.mtx.Unlock()
			_, st := w.starting[u]
			return !st
		})
	} else {
		time.Sleep(2 * time.Millisecond)
	}
	delete(h.gated, u)
	h.emit(fmt.Sprintf("OLands %s %s", gN(int64(n)), gN(wpU(u))), 0)
}

func (h *wpH) pickUUID() string {
	var us []string
	for u := range h.started {
		us = append(us, u)
	}
	sort.Strings(us)
	if len(us) == 0 {
		return ""
	}
	return us[h.r.Intn(len(us))]
}

func wpScenario(t *testing.T, r *vRand, mode string) (string, []string, map[string]int, bool) {
	h := &wpH{t: t, r: r, cloudS: &wpCloud{insts: map[int]*wpInst{}, next: 1, listArr: make(chan string, 1), listGate: make(chan struct{})}, vms: map[int]*wpVM{},
		gated: map[string]int{}, pending: map[int]bool{}, started: map[string]int{}, killing: map[string]bool{}, tags: map[string]int{}, nextU: 1,
		allInsts: map[int]*wpInst{}, desSeen: map[int]int{}, desBase: map[int]int{}, present: map[int]bool{}, disc: map[int]bool{}}
	h.cloudS.h = h
	nit := 1 + r.Intn(2)
	for i := 0; i < nit; i++ {
		h.its = append(h.its, test.InstanceType(i+1))
	}
	hour, ns := time.Hour, time.Nanosecond
	h.cfgNs = [5]time.Duration{hour, hour, hour, hour, hour}
	h.term = hour
	shortTerm := false
	if mode == "c15" {
		for k := range h.cfgNs {
			if r.Chance(1, 3) {
				h.cfgNs[k] = ns
			}
		}
		if r.Chance(1, 4) {
			shortTerm = true
			h.term = 15 * time.Millisecond
		}
	} else {
		if r.Chance(1, 6) {
			h.cfgNs[2] = ns // idle timeout expired: exercises shutdownIfIdle inside C14 sequences too
		}
		if r.Chance(1, 3) {
			h.cfgNs[1] = ns // probe timeout expired: a failing probe shuts the instance down with its runners
		}
	}
	cz := func(d time.Duration) string {
		if d == ns {
			return gZ(1)
		}
		return gZ(1000000000)
	}
	cfg := fmt.Sprintf("(mkcfg %s %s %s %s %s)", cz(h.cfgNs[0]), cz(h.cfgNs[1]), cz(h.cfgNs[2]), cz(h.cfgNs[3]), cz(h.cfgNs[4]))
	h.newPool()
	// instances left behind by an earlier dispatcher, possibly with processes and tags
	for k := 0; k < r.Intn(3); k++ {
		it := h.its[r.Intn(nit)]
		tags := cloud.InstanceTags{"v:" + tagKeyInstanceType: it.Name}
		if r.Chance(1, 3) {
			tags["v:"+tagKeyIdleBehavior] = string([]IdleBehavior{IdleBehaviorHold, IdleBehaviorDrain, "bogus"}[r.Intn(3)])
		}
		inst := &wpInst{n: h.cloudS.next, it: it, tags: tags}
		h.cloudS.insts[inst.n] = inst
		h.allInsts[inst.n] = inst
		vm := h.vm(inst.n)
		vm.bootOK = r.Chance(2, 3)
		if r.Chance(1, 2) {
			u := test.ContainerUUID(900 + inst.n)
			vm.procs[u] = 1
			h.started[u] = inst.n
		}
		h.cloudS.next++
	}
	h.doSync()
	nops := 15 + r.Intn(45)
	good := true
	tagsDirected := h.tags
	// StartContainer under the scheduler's precondition (never start what Running() reports) and the
	// environment assumption A2/A3 of C14 (no process of this container is alive on an instance whose
	// processes the pool has not discovered).  A live process on a DISCOVERED instance that Running() does not
	// report is exactly the failure of C14: then the start is made and the specification sees it.
	doStart := func(it int, u string) bool {
		if _, g := h.gated[u]; g {
			return false
		}
		if _, running := h.pool.Running()[u]; running {
			return false
		}
		for n, vm := range h.vms {
			vm.mtx.Lock()
			alive := vm.procs[u] > 0
			vm.mtx.Unlock()
			if alive && !h.disc[n] {
				return false
			}
		}
		ok := h.pool.StartContainer(h.its[it], arvados.Container{UUID: u})
		ret := int64(0)
		if ok {
			found := -1
			good = h.wait(2, "start arrival", func() bool {
				for n, vm := range h.vms {
					select {
					case uu := <-vm.startArr:
						if uu == u {
							found = n
							return true
						}
					default:
					}
				}
				return false
			})
			h.gated[u] = found
			h.started[u] = found
			delete(h.killing, u) // a new runner: no Kill loop yet
			ret = int64(found) + 1
		}
		h.emit(fmt.Sprintf("OStart %s %s", gN(int64(it)), gN(wpU(u))), ret)
		return ok && good
	}
	// Pool.Create and the completion of the cloud call; boot: bring the new instance up right away
	doCreate := func(it, oc int, boot bool) int {
		h.cloudS.mtx.Lock()
		h.cloudS.outcome = oc
		newid := h.cloudS.next
		h.cloudS.mtx.Unlock()
		ret := h.pool.Create(h.its[it])
		good = h.wait(1, "create", func() bool {
			h.pool.mtx.Lock()
			defer h.pool.mtx.Unlock()
			return len(h.pool.creating) == 0
		})
		rv := int64(0)
		if ret {
			rv = 1
		}
		h.emit(fmt.Sprintf("OCreate %s %s %s", gN(int64(it)), gN(int64(newid)), gN(int64(oc))), rv)
		if !(ret && oc == 0) {
			return 0
		}
		if boot {
			vm := h.vm(newid)
			vm.mtx.Lock()
			vm.bootOK = true
			vm.mtx.Unlock()
			if w := h.worker(newid); w != nil {
				rs := h.resp(vm, false)
				w.ProbeAndUpdate()
				h.emit(fmt.Sprintf("OProbe %s %s", gN(int64(newid)), rs), 0)
			}
		}
		return newid
	}
	doKill := func(u string) {
		if _, g := h.gated[u]; g && shortTerm {
			return
		}
		// was a Kill loop already started for this runner?  (rr.Kill is a no-op then)
		already := false
		h.pool.mtx.Lock()
		for _, w := range h.pool.workers {
			rr := w.running[u]
			if rr == nil {
				rr = w.starting[u]
			}
			if rr != nil {
				already = rr.stopping
				break
			}
		}
		h.pool.mtx.Unlock()
		ok := h.pool.KillContainer(u, "verif")
		ret := int64(0)
		if ok {
			ret = 1
			if !already || !shortTerm {
				h.killing[u] = true
			}
		}
		h.emit(fmt.Sprintf("OKill %s", gN(wpU(u))), ret)
		if ok && shortTerm && !already {
			// timeoutTERM is 15 ms of real time here.  If the Kill loop has already given up now, the observation
			// just taken may or may not contain the effects of the give-up (drain, shutdown): the harness lost the
			// race it needs to describe the sequence as "OKill, then OGiveUp".  Such a scenario is not recorded.
			h.pool.mtx.Lock()
			for _, w := range h.pool.workers {
				rr := w.running[u]
				if rr == nil {
					rr = w.starting[u]
				}
				if rr != nil && rr.givenup {
					h.raced = true
				}
			}
			h.pool.mtx.Unlock()
			if h.raced {
				return
			}
			n := h.started[u]
			if _, g := h.gated[u]; g {
				// the Kill loop may give up only on a runner; keep the sequence simple: land first
				return
			}
			w := h.worker(n)
			if w == nil {
				return
			}
			good = h.wait(5, "giveup", func() bool {
				h.pool.mtx.Lock()
				defer h.pool.mtx.Unlock()
				rr := w.running[u]
				if rr == nil {
					rr = w.starting[u]
				}
				return rr == nil || rr.givenup
			})
			time.Sleep(3 * time.Millisecond)
			h.pool.mtx.Lock()
			h.pool.mtx.Unlock()
			h.emit(fmt.Sprintf("OGiveUp %s %s", gN(int64(n)), gN(wpU(u))), 0)
			delete(h.killing, u)
		}
	}
	doKillDelivered := func(u string) {
		n := h.started[u]
		w := h.worker(n)
		if w == nil {
			delete(h.killing, u)
			return
		}
		h.pool.mtx.Lock()
		rrRun, inRunning := w.running[u]
		rrStart, inStarting := w.starting[u]
		// the runner that was being killed may have been closed by a probe and the container started again:
		// the present runner has no Kill loop then, and no SIGTERM will ever be sent
		stopping := (inRunning && rrRun.stopping && !rrRun.givenup) || (!inRunning && inStarting && rrStart.stopping && !rrStart.givenup)
		h.pool.mtx.Unlock()
		if (!inRunning && !inStarting) || !stopping {
			delete(h.killing, u)
			return
		}
		vm := h.vm(n)
		vm.mtx.Lock()
		before := vm.killed[u]
		vm.killOK[u] = true
		vm.mtx.Unlock()
		good = h.wait(4, "kill delivered", func() bool {
			vm.mtx.Lock()
			k := vm.killed[u]
			vm.mtx.Unlock()
			if k <= before {
				return false
			}
			if !inRunning {
				return true
			}
			h.pool.mtx.Lock()
			defer h.pool.mtx.Unlock()
			_, still := w.running[u]
			return !still
		})
		vm.mtx.Lock()
		delete(vm.killOK, u)
		vm.mtx.Unlock()
		time.Sleep(2 * time.Millisecond) // a second success in flight finds nothing to close
		if inRunning {
			delete(h.killing, u)
		}
		h.emit(fmt.Sprintf("OKillDelivered %s %s", gN(int64(n)), gN(wpU(u))), 0)
	}
	doProbeWhole := func(n int) {
		w := h.worker(n)
		if w == nil || h.pending[n] {
			return
		}
		rs := h.resp(h.vm(n), false)
		w.ProbeAndUpdate()
		h.emit(fmt.Sprintf("OProbe %s %s", gN(int64(n)), rs), 0)
	}
	doProbeBegin := func(n int) {
		w := h.worker(n)
		if w == nil || h.pending[n] {
			return
		}
		vm := h.vm(n)
		rs := h.resp(vm, true)
		done := make(chan struct{})
		go func() { w.ProbeAndUpdate(); close(done) }()
		select {
		case <-vm.listArr:
			h.pending[n] = true
		case <-done:
			vm.mtx.Lock()
			vm.gateList = false
			vm.mtx.Unlock()
		case <-time.After(wpDeadline):
			h.stuck = 6
			good = false
		}
		h.emit(fmt.Sprintf("OProbeBegin %s %s", gN(int64(n)), rs), 0)
	}
	for k := 0; k < nops && good && h.stuck == 0 && !h.raced; k++ {
		known := h.knownInstances()
		x := r.Intn(100)
		switch {
		case x < 8:
			if h.syncDone == nil && r.Chance(1, 3) {
				h.doSyncBegin() // other operations happen while the list request is outstanding
				if h.syncDone != nil && r.Chance(1, 3) {
					// directed: an instance is created, boots and gets a container while the list request is
					// outstanding; then the (older) answer arrives
					h.tags["directed=slow-list"]++
					it := r.Intn(nit)
					if doCreate(it, 0, true) != 0 && good && h.stuck == 0 {
						u := test.ContainerUUID(h.nextU)
						h.nextU++
						if doStart(it, u) && r.Chance(2, 3) {
							h.opLands(u, true)
						}
					}
					if good && h.stuck == 0 {
						h.doSyncEnd()
					}
				}
			} else {
				h.doSync() // ends the outstanding request, if any
			}
		case x < 16:
			it := r.Intn(nit)
			oc := 0
			if r.Chance(1, 8) {
				oc = 1 + r.Intn(2)
			}
			doCreate(it, oc, r.Chance(2, 3))
		case x < 36:
			if len(known) == 0 {
				continue
			}
			n := known[r.Intn(len(known))]
			if h.pending[n] {
				h.opProbeEnd(n)
				continue
			}
			vm := h.vm(n)
			vm.mtx.Lock()
			if r.Chance(1, 2) {
				vm.bootOK = true
			} else if r.Chance(1, 6) {
				vm.bootOK = false
			}
			vm.listOK = !r.Chance(1, 7)
			vm.broken = r.Chance(1, 12)
			vm.stale = r.Chance(1, 8)
			if r.Chance(1, 4) { // a process ends by itself
				var pu []string
				for u := range vm.procs {
					pu = append(pu, u)
				}
				sort.Strings(pu)
				if len(pu) > 0 {
					delete(vm.procs, pu[0])
				}
			}
			vm.mtx.Unlock()
			w := h.worker(n)
			if w == nil {
				continue
			}
			if r.Chance(1, 4) {
				doProbeBegin(n) // split probe: other operations happen while crunch-run --list is outstanding
			} else {
				doProbeWhole(n)
			}
		case x < 58:
			it := r.Intn(nit)
			var u string
			if r.Chance(1, 5) && len(h.started) > 0 {
				u = h.pickUUID() // possibly a restart of a container seen before
				if _, g := h.gated[u]; g {
					continue
				}
			} else {
				u = test.ContainerUUID(h.nextU)
				h.nextU++
			}
			if !doStart(it, u) {
				continue
			}
			n := h.gated[u]
			vm := h.vm(n)
			switch d := r.Intn(10); {
			case d == 0:
				// directed: a probe starts after StartContainer, its crunch-run --list is answered before the
				// process exists, the start command returns, then the answer is applied; afterwards the
				// scheduler's usual follow-up for a container whose process "exited" (kill, forget, start again)
				tagsDirected["directed=stale-probe"]++
				vm.mtx.Lock()
				vm.listOK, vm.broken, vm.stale = true, false, false
				vm.mtx.Unlock()
				doProbeBegin(n)
				if _, g := h.gated[u]; g && good {
					h.opLands(u, true)
				}
				if h.pending[n] && good && h.stuck == 0 {
					h.opProbeEnd(n)
				}
				if good && h.stuck == 0 {
					doKill(u)
					h.pool.ForgetContainer(u)
					h.emit(fmt.Sprintf("OForget %s", gN(wpU(u))), 0)
					if doStart(it, u) {
						h.opLands(u, true)
					}
				}
			case d == 1 && h.cfgNs[1] == time.Nanosecond:
				// directed: the instance is shut down (probe timeout) while the container still runs on it, the
				// cloud does not destroy it, then the container is killed successfully, then more work arrives
				tagsDirected["directed=shutdown-with-runner"]++
				h.opLands(u, true)
				vm.mtx.Lock()
				vm.listOK = false
				vm.mtx.Unlock()
				doProbeWhole(n)
				vm.mtx.Lock()
				vm.listOK = true
				vm.mtx.Unlock()
				if good && h.stuck == 0 {
					doKill(u)
					if h.killing[u] {
						doKillDelivered(u)
					}
					nu := test.ContainerUUID(h.nextU)
					h.nextU++
					doStart(it, nu)
				}
			}
		case x < 68:
			var us []string
			for u := range h.gated {
				us = append(us, u)
			}
			if len(us) == 0 {
				continue
			}
			sort.Strings(us)
			h.opLands(us[r.Intn(len(us))], !r.Chance(1, 6))
		case x < 75:
			u := h.pickUUID()
			if u == "" {
				continue
			}
			doKill(u)
		case x < 82:
			var us []string
			for u := range h.killing {
				us = append(us, u)
			}
			if len(us) == 0 {
				continue
			}
			sort.Strings(us)
			doKillDelivered(us[r.Intn(len(us))])
		case x < 85:
			u := h.pickUUID()
			if u == "" {
				continue
			}
			h.pool.ForgetContainer(u)
			h.emit(fmt.Sprintf("OForget %s", gN(wpU(u))), 0)
		case x < 89:
			if len(known) == 0 {
				continue
			}
			n := known[r.Intn(len(known))]
			ib := r.Intn(3)
			h.pool.SetIdleBehavior(cloud.InstanceID(fmt.Sprintf("i%d", n)), []IdleBehavior{IdleBehaviorRun, IdleBehaviorHold, IdleBehaviorDrain}[ib])
			h.emit(fmt.Sprintf("OSetIB %s %s", gN(int64(n)), wpIBName[ib]), 0)
		case x < 92:
			it := r.Intn(nit)
			des := map[int]int{}
			// every instance ever seen: a worker may outlive its instance's presence in the cloud listing
			// (answer of a list request issued before the instance vanished)
			insts := map[int]*wpInst{}
			h.cloudS.mtx.Lock()
			for n, inst := range h.allInsts {
				insts[n] = inst
				des[n] = inst.nDestroys()
			}
			h.cloudS.mtx.Unlock()
			ok := h.pool.Shutdown(h.its[it])
			chosen := 0
			if ok {
				good = h.wait(7, "shutdown destroy", func() bool {
					for n, inst := range insts {
						if inst.nDestroys() > des[n] {
							chosen = n
							return true
						}
					}
					return false
				})
			}
			ret := int64(0)
			if ok {
				ret = 1
			}
			h.emit(fmt.Sprintf("OShutdown %s %s", gN(int64(it)), gN(int64(chosen))), ret)
		case x < 95:
			h.pool.mtx.Lock()
			for _, w := range h.pool.workers {
				if w.state != StateShutdown {
					w.shutdownIfIdle()
				}
			}
			h.pool.mtx.Unlock()
			h.emit("OSweep", 0)
		case x < 97:
			ret := int64(0)
			if h.pool.AtQuota() {
				ret = 1
			}
			h.emit("OAtQuota", ret)
		case x < 98:
			// an instance disappears from the cloud (only one the pool has shut down, or rarely any)
			h.cloudS.mtx.Lock()
			var cns []int
			for n := range h.cloudS.insts {
				cns = append(cns, n)
			}
			sort.Ints(cns) // deterministic for a given seed
			for _, n := range cns {
				inst := h.cloudS.insts[n]
				if inst.nDestroys() > 0 || r.Chance(1, 10) {
					if h.pending[n] {
						continue
					}
					busy := false
					for _, g := range h.gated {
						if g == n {
							busy = true
						}
					}
					if !busy {
						delete(h.cloudS.insts, n)
						break
					}
				}
			}
			h.cloudS.mtx.Unlock()
			h.doSync()
		default:
			if r.Chance(1, 2) {
				h.finishPending()
				h.closePool()
				h.killing = map[string]bool{}
				h.present = map[int]bool{}
				h.disc = map[int]bool{}
				h.newPool()
				h.emit("ORestart", 0)
				h.doSync()
			}
		}
	}
	if h.stuck != 0 {
		// STUCK: an effect that the last operation must have did not arrive within the deadline
		code := h.stuck
		h.stuck = -1 // no further waiting
		h.emit(fmt.Sprintf("OStuck %s", gN(int64(code))), 0)
		h.pool.Stop()
		return fmt.Sprintf("mkwp %s %s", cfg, gList(h.steps)), h.descs, h.tags, false
	}
	h.finishPending()
	h.closePool()
	if h.raced && h.stuck == 0 {
		h.tags["discarded"] = 1
		return "", nil, h.tags, true
	}
	if h.stuck != 0 {
		h.emit(fmt.Sprintf("OStuck %s", gN(int64(h.stuck))), 0)
		return fmt.Sprintf("mkwp %s %s", cfg, gList(h.steps)), h.descs, h.tags, false
	}
	return fmt.Sprintf("mkwp %s %s", cfg, gList(h.steps)), h.descs, h.tags, true
}

func TestVerifC14WP(t *testing.T) {
	seed := vSeed()
	n := vEnvInt("VERIF_N", 200)
	only := vOnly()
	stage := os.Getenv("VERIF_STAGE")
	if stage == "" {
		stage = "wp"
	}
	mode := os.Getenv("VERIF_WPMODE")
	if mode == "" {
		mode = "c14"
	}
	cs := vNewCases(stage)
	for i := 0; i < n; i++ {
		if only >= 0 && i != only {
			continue
		}
		r := vCaseRand(seed, i)
		term, descs, tags, good := wpScenario(t, r, mode)
		if tags["discarded"] > 0 {
			wpDiscarded++
			continue
		}
		if !good {
			tags["op=OStuck"] = 1
			wpStuckCases++
		}
		var tl []string
		for k, c := range tags {
			if strings.HasPrefix(k, "op=") {
				for j := 0; j < c; j++ {
					tl = append(tl, k)
				}
			}
		}
		sort.Strings(tl)
		cs.Add(i, term, map[string]interface{}{"steps": descs}, tags["op=OStart"] >= 1, tl...)
		if wpStuckCases >= 2 {
			// two failing inputs of this kind are enough; every further one would cost wpDeadline again
			t.Logf("generation stopped after case %d: %d cases ended with a STUCK observation", i, wpStuckCases)
			break
		}
	}
	if wpDiscarded > 0 {
		t.Logf("%d scenario(s) not recorded (Kill loop gave up before KillContainer's result had been observed)", wpDiscarded)
	}
	if wpDiscarded*10 > n+10 {
		t.Errorf("too many scenarios discarded: %d of %d", wpDiscarded, n)
	}
	cs.Write()
}
