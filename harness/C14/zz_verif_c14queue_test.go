//go:build verif

package container

import (
	"errors"
	"fmt"
	"io"
	"io/ioutil"
	"os"
	"sort"
	"strings"
	"testing"

	"git.arvados.org/arvados.git/sdk/go/arvados"
	"github.com/sirupsen/logrus"
)

// C14 stage "queue": the real container.Queue (Update/poll/Lock/Unlock/Cancel/updateWithResp) against a
// fake API server; a local operation is injected while a chosen query of the poll is being answered.

type qcRec struct {
	id    int
	state int // 0 Queued 1 Locked 2 Running 3 Complete 4 Cancelled
	prio  int64
	mine  bool
}

var qcStates = []arvados.ContainerState{arvados.ContainerStateQueued, arvados.ContainerStateLocked, arvados.ContainerStateRunning,
	arvados.ContainerStateComplete, arvados.ContainerStateCancelled}

func qcUUID(i int) string { return fmt.Sprintf("zzzzz-dz642-%015d", i) }
func qcNum(u string) int {
	var n int
	fmt.Sscanf(u[len(u)-15:], "%d", &n)
	return n
}

type qcAPI struct {
	db      map[int]*qcRec
	query   int
	hookAt  int
	hook    func()
	hookRan bool
}

func (a *qcAPI) ctr(r *qcRec) arvados.Container {
	c := arvados.Container{UUID: qcUUID(r.id), State: qcStates[r.state], Priority: r.prio}
	if r.mine {
		c.LockedByUUID = "zzzzz-gj3su-me"
	}
	return c
}

func (a *qcAPI) RequestAndDecode(dst interface{}, method, path string, body io.Reader, params interface{}) error {
	switch {
	case method == "GET" && path == "arvados/v1/api_client_authorizations/current":
		dst.(*arvados.APIClientAuthorization).UUID = "zzzzz-gj3su-me"
		return nil
	case method == "GET" && path == "arvados/v1/containers":
		p := params.(arvados.ResourceListParams)
		cursor := ""
		first := p.Offset == 0 // fetchAll pages by offset (its uuid-cursor branch is dead: len(Order) == 1 is never true for a string)
		for _, f := range p.Filters {
			if f.Attr == "uuid" && f.Operator == ">" {
				cursor = f.Operand.(string)
				first = false
			}
		}
		if first {
			a.query++
			if a.query == a.hookAt && a.hook != nil && !a.hookRan {
				a.hookRan = true
				a.hook()
			}
		}
		var ids []int
		for id := range a.db {
			ids = append(ids, id)
		}
		sort.Ints(ids)
		var items []arvados.Container
		for _, id := range ids {
			r := a.db[id]
			ok := true
			for _, f := range p.Filters {
				switch {
				case f.Attr == "locked_by_uuid":
					ok = ok && r.mine
				case f.Attr == "state":
					ok = ok && qcStates[r.state] == f.Operand.(arvados.ContainerState)
				case f.Attr == "priority":
					ok = ok && r.prio > 0
				case f.Attr == "uuid" && f.Operator == "in":
					in := false
					for _, u := range f.Operand.([]string) {
						in = in || u == qcUUID(id)
					}
					ok = ok && in
				case f.Attr == "uuid" && f.Operator == ">":
					ok = ok && qcUUID(id) > cursor
				}
			}
			if ok {
				items = append(items, a.ctr(r))
			}
		}
		if p.Offset >= len(items) {
			items = nil
		} else {
			items = items[p.Offset:]
		}
		dst.(*arvados.ContainerList).Items = items
		return nil
	case method == "POST" && strings.HasSuffix(path, "/lock"):
		r := a.db[qcNum(strings.TrimSuffix(path, "/lock"))]
		if r == nil || r.state != 0 {
			return errors.New("cannot lock")
		}
		r.state, r.mine = 1, true
		*dst.(*arvados.Container) = a.ctr(r)
		return nil
	case method == "POST" && strings.HasSuffix(path, "/unlock"):
		r := a.db[qcNum(strings.TrimSuffix(path, "/unlock"))]
		if r == nil || r.state != 1 || !r.mine {
			return errors.New("cannot unlock")
		}
		r.state, r.mine = 0, false
		*dst.(*arvados.Container) = a.ctr(r)
		return nil
	case method == "PUT":
		r := a.db[qcNum(path)]
		if r == nil || r.state >= 3 {
			return errors.New("cannot cancel")
		}
		r.state = 4
		if dst != nil {
			*dst.(*arvados.Container) = a.ctr(r)
		}
		return nil
	}
	return errors.New("unexpected request " + method + " " + path)
}

func qcEntries(cq *Queue) []string {
	ents, _ := cq.Entries()
	var us []string
	for u := range ents {
		us = append(us, u)
	}
	sort.Strings(us)
	stn := map[arvados.ContainerState]int{arvados.ContainerStateQueued: 0, arvados.ContainerStateLocked: 1, arvados.ContainerStateRunning: 2,
		arvados.ContainerStateComplete: 3, arvados.ContainerStateCancelled: 4}
	var r []string
	for _, u := range us {
		c := ents[u].Container
		r = append(r, fmt.Sprintf("C %s %s %s", gN(int64(qcNum(u))), gN(int64(stn[c.State])), gZ(c.Priority)))
	}
	return r
}

func TestVerifC14Queue(t *testing.T) {
	seed := vSeed()
	n := vEnvInt("VERIF_N", 600)
	only := vOnly()
	stage := os.Getenv("VERIF_STAGE")
	if stage == "" {
		stage = "queue"
	}
	cs := vNewCases(stage)
	quiet := logrus.New()
	quiet.SetOutput(ioutil.Discard)
	for i := 0; i < n; i++ {
		if only >= 0 && i != only {
			continue
		}
		r := vCaseRand(seed, i)
		api := &qcAPI{db: map[int]*qcRec{}}
		nc := 1 + r.Intn(5)
		for c := 1; c <= nc; c++ {
			rec := &qcRec{id: c, state: []int{0, 0, 1, 1, 2}[r.Intn(5)], prio: int64(r.Intn(3) * 5)}
			rec.mine = rec.state >= 1
			api.db[c] = rec
		}
		cq := NewQueue(quiet, nil, func(*arvados.Container) (arvados.InstanceType, error) { return arvados.InstanceType{Name: "t"}, nil }, api)
		if err := cq.Update(); err != nil {
			t.Fatal(err)
		}
		// things happen between two polls
		for c := 1; c <= nc; c++ {
			rec := api.db[c]
			switch r.Intn(8) {
			case 0:
				if rec.state <= 2 {
					rec.state = 3 + r.Intn(2)
				}
			case 1:
				if rec.state == 1 {
					rec.state = 2
				}
			case 2:
				rec.prio = int64(r.Intn(3) * 5)
			case 3:
				if rec.state == 1 && r.Chance(1, 2) { // taken back by somebody else
					rec.state, rec.mine = 0, false
				}
			case 4:
				if r.Chance(1, 3) {
					delete(api.db, c)
				}
			}
		}
		if r.Chance(1, 3) {
			nc++
			api.db[nc] = &qcRec{id: nc, state: 0, prio: 5}
		}
		var dbS []string
		var ids []int
		for id := range api.db {
			ids = append(ids, id)
		}
		sort.Ints(ids)
		for _, id := range ids {
			rec := api.db[id]
			dbS = append(dbS, fmt.Sprintf("D %s %s %s %s", gN(int64(id)), gN(int64(rec.state)), gZ(rec.prio), gBool(rec.mine)))
		}
		curS := qcEntries(cq)
		k := r.Intn(5)
		u := 1 + r.Intn(nc)
		opKind := r.Intn(5)
		var opS string
		var op func()
		switch opKind {
		case 0:
			opS, op = fmt.Sprintf("(OpLock %s)", gN(int64(u))), func() { cq.Lock(qcUUID(u)) }
		case 1:
			opS, op = fmt.Sprintf("(OpUnlock %s)", gN(int64(u))), func() { cq.Unlock(qcUUID(u)) }
		case 2:
			opS, op = fmt.Sprintf("(OpCancel %s)", gN(int64(u))), func() { cq.Cancel(qcUUID(u)) }
		case 3:
			st := 2 + r.Intn(3)
			opS, op = fmt.Sprintf("(OpExtState %s (St %s))", gN(int64(u)), gN(int64(st))), func() {
				if rec := api.db[u]; rec != nil {
					rec.state = st
				}
			}
		default:
			opS, op = "OpNone", func() {}
		}
		api.query, api.hookRan = 0, false
		switch k {
		case 0:
			op()
			cq.Update()
		case 4:
			cq.Update()
			op()
		default:
			api.hookAt, api.hook = k, op
			cq.Update()
			if !api.hookRan { // the third query did not happen
				op()
			}
		}
		after := qcEntries(cq)
		term := fmt.Sprintf("mkqc %s %s %s %s %s", gList(dbS), gList(curS), gNat(k), opS, gList(after))
		desc := map[string]interface{}{"db(uuid,state,prio,mine)": dbS, "cache_before": curS, "k": k, "op": opS, "cache_after": after}
		cs.Add(i, term, desc, len(curS) > 0, fmt.Sprintf("k=%d", k), "op="+strings.Fields(strings.Trim(opS, "()"))[0])
	}
	cs.Write()
}
