//go:build verif

package scheduler

import (
	"fmt"
	"os"
	"runtime"
	"testing"
	"time"

	"git.arvados.org/arvados.git/lib/dispatchcloud/container"
	"git.arvados.org/arvados.git/lib/dispatchcloud/test"
	"git.arvados.org/arvados.git/lib/dispatchcloud/worker"
	"git.arvados.org/arvados.git/sdk/go/arvados"
)

// C14/C15 stage "sync": the real Scheduler.sync against the recording stub pool/queue of
// harness/C16/zz_verif_c16rq_test.go.  One Gallina `case` (coq/model/C14_sync_run.v) per snapshot.

type syEnt struct {
	id   int
	st   int
	prio int64
	run  int // 0 absent from pool.Running(); 1 zero time; 2 exited before qUpdated; 3 exited after; 4 exited == qUpdated
	ltch bool
	now  int // what queue.Get shows when the spawned goroutine runs: -1 same as the snapshot, -2 not in the queue, else a state
	nowP int64 // priority now (-1 = as in the snapshot)
	runN int   // pool.Running() when the goroutine runs: -1 as in the snapshot, else like `run`
}

func syRun(ents []syEnt, orphans []syEnt, unknown bool) (string, map[string]interface{}, int) {
	ctx := rqCtx()
	it := test.InstanceType(1)
	base := time.Now()
	tm := map[int]time.Time{1: {}, 2: base.Add(-100 * time.Second), 3: base.Add(100 * time.Second), 4: base}
	tz := map[int]int64{1: 0, 2: 900, 3: 1100, 4: 1000}
	pool := &rqPool{running: map[string]time.Time{}, unalloc: map[arvados.InstanceType]int{}, create: map[string][]bool{},
		idle: map[string]int{}, killable: map[string]bool{}, itID: map[string]int{it.Name: 0}, workers: map[worker.State]int{}}
	if unknown {
		pool.workers[worker.StateUnknown] = 1
	}
	pool.workers[worker.StateIdle] = 2
	q := &rqQueue{ents: map[string]container.QueueEnt{}, pool: pool, updated: base}
	sch := New(ctx, q, pool, nil, time.Minute, time.Second)
	var entS, runS, latchS, nowS, runNowS []string
	q.now = map[string]container.QueueEnt{}
	pool.runningNow = map[string]time.Time{}
	stName := []string{"Queued", "Locked", "Running", "Complete", "Cancelled", "OtherState"}
	for _, e := range ents {
		uuid := test.ContainerUUID(e.id)
		q.ents[uuid] = container.QueueEnt{Container: arvados.Container{UUID: uuid, State: rqStates[e.st], Priority: e.prio}, InstanceType: it}
		entS = append(entS, fmt.Sprintf("E %s %s %s %s", gN(int64(e.id)), gN(int64(e.st)), gZ(e.prio), gN(0)))
		nst := e.now
		if nst == -1 {
			nst = e.st
		}
		np := e.nowP
		if np < 0 {
			np = e.prio
		}
		if nst >= 0 {
			q.now[uuid] = container.QueueEnt{Container: arvados.Container{UUID: uuid, State: rqStates[nst], Priority: np}, InstanceType: it}
			nowS = append(nowS, fmt.Sprintf("(%s, (%s, %s))", gN(int64(e.id)), stName[nst], gZ(np)))
		}
	}
	for _, e := range append(append([]syEnt(nil), ents...), orphans...) {
		uuid := test.ContainerUUID(e.id)
		if e.run > 0 {
			pool.running[uuid] = tm[e.run]
			runS = append(runS, fmt.Sprintf("(%s, %s)", gN(int64(e.id)), gZ(tz[e.run])))
		}
		rn := e.runN
		if rn < 0 {
			rn = e.run
		}
		if rn > 0 {
			pool.runningNow[uuid] = tm[rn]
			runNowS = append(runNowS, fmt.Sprintf("(%s, %s)", gN(int64(e.id)), gZ(tz[rn])))
		}
		if e.ltch {
			sch.uuidOp[uuid] = "lock"
			latchS = append(latchS, gN(int64(e.id)))
		}
	}
	basegr := runtime.NumGoroutine()
	sch.sync()
	rqSettle(basegr)
	q.mtx.Lock()
	cancels, unlocks, qforgets := append([]string(nil), q.cancels...), append([]string(nil), q.unlocks...), append([]string(nil), q.forgets...)
	q.mtx.Unlock()
	pool.Lock()
	var kills []string
	for _, l := range pool.log {
		var u string
		var r bool
		if n, _ := fmt.Sscanf(l, "EKill %s %v", &u, &r); n == 2 {
			kills = append(kills, u)
		}
	}
	pforgets := append([]string(nil), pool.forgot...)
	pool.Unlock()
	term := fmt.Sprintf("mksy %s %s %s %s %s %s %s %s %s %s %s %s", gList(entS), gList(runS), gBool(unknown), gZ(1000), gList(latchS), gList(nowS), gList(runNowS),
		gList(cancels), gList(kills), gList(pforgets), gList(unlocks), gList(qforgets))
	desc := map[string]interface{}{"ents(uuid,state,prio,type)": entS, "running(uuid,exited)": runS, "unknown_workers": unknown,
		"qupdated": 1000, "latched": latchS, "queue_now(uuid,state,prio)": nowS, "running_now(uuid,exited)": runNowS, "cancel": cancels, "kill": kills, "pool_forget": pforgets, "unlock": unlocks, "queue_forget": qforgets}
	return term, desc, len(cancels) + len(kills) + len(unlocks) + len(qforgets)
}

func TestVerifC14Sync(t *testing.T) {
	seed := vSeed()
	n := vEnvInt("VERIF_N", 600)
	only := vOnly()
	stage := os.Getenv("VERIF_STAGE")
	if stage == "" {
		stage = "sync"
	}
	cs := vNewCases(stage)
	for i := 0; i < n; i++ {
		if only >= 0 && i != only {
			continue
		}
		r := vCaseRand(seed, i)
		ne := r.Intn(9)
		var ents, orphans []syEnt
		var tags []string
		for k := 0; k < ne; k++ {
			e := syEnt{id: k + 1, st: r.Intn(6), prio: int64([]int{0, 0, 1, 5, 9}[r.Intn(5)]), run: r.Intn(5), ltch: r.Chance(1, 8), now: -1, nowP: -1, runN: -1}
			if r.Chance(1, 4) { // the queue has moved on by the time the goroutine runs
				e.now = []int{-2, 0, 1, 2, 4}[r.Intn(5)]
			}
			if r.Chance(1, 5) {
				e.nowP = int64([]int{0, 5}[r.Intn(2)])
			}
			if r.Chance(1, 4) { // so has the pool (e.g. the exited placeholder was forgotten, or a new process runs)
				e.runN = r.Intn(5)
			}
			if r.Chance(1, 3) {
				e.run = 0
			}
			ents = append(ents, e)
			tags = append(tags, fmt.Sprintf("state=%d", e.st), fmt.Sprintf("run=%d", e.run))
		}
		for k := 0; k < r.Intn(3); k++ {
			orphans = append(orphans, syEnt{id: 100 + k, run: 1 + r.Intn(4), ltch: r.Chance(1, 6), now: -2, nowP: -1, runN: -1})
		}
		unknown := r.Chance(1, 3)
		term, desc, nact := syRun(ents, orphans, unknown)
		cs.Add(i, term, desc, nact >= 1, append(tags, fmt.Sprintf("ents=%d", ne))...)
	}
	cs.Write()
}

// Exhaustive: every single-entry snapshot (6 states x 3 priorities x 5 process situations x latched x
// unknown-workers) and every pair of a first entry with an orphan process.
func TestVerifC14SyncExh(t *testing.T) {
	stage := os.Getenv("VERIF_STAGE")
	if stage == "" {
		stage = "syncexh"
	}
	only := vOnly()
	cs := vNewCases(stage)
	idx := 0
	for st := 0; st < 6; st++ {
		for _, prio := range []int64{0, 1, 7} {
			for run := 0; run < 5; run++ {
				for l := 0; l < 2; l++ {
					for u := 0; u < 2; u++ {
						for orph := 0; orph < 3; orph++ {
							for _, nowrn := range [][2]int{{-1, -1}, {-2, -1}, {0, -1}, {1, -1}, {1, 0}, {1, 1}, {1, 2}} {
								now, runN := nowrn[0], nowrn[1]
								i := idx
								idx++
								if only >= 0 && i != only {
									continue
								}
								var orphans []syEnt
								if orph > 0 {
									orphans = []syEnt{{id: 100, run: orph, ltch: false, now: -2, nowP: -1, runN: -1}}
								}
								term, desc, nact := syRun([]syEnt{{id: 1, st: st, prio: prio, run: run, ltch: l == 1, now: now, nowP: -1, runN: runN}}, orphans, u == 1)
								cs.Add(i, term, desc, nact >= 1, fmt.Sprintf("state=%d", st), fmt.Sprintf("run=%d", run), fmt.Sprintf("now=%d", now), fmt.Sprintf("runnow=%d", runN))
							}
						}
					}
				}
			}
		}
	}
	cs.Write()
}
