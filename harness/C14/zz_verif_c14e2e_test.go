//go:build verif

package dispatchcloud

import (
	"bytes"
	"context"
	"encoding/json"
	"fmt"
	"io"
	"io/ioutil"
	"os"
	"regexp"
	"sort"
	"strings"
	"sync"
	"testing"
	"time"

	"git.arvados.org/arvados.git/lib/cloud"
	"git.arvados.org/arvados.git/lib/dispatchcloud/test"
	"git.arvados.org/arvados.git/lib/dispatchcloud/worker"
	"git.arvados.org/arvados.git/sdk/go/arvados"
	"git.arvados.org/arvados.git/sdk/go/ctxlog"
	"github.com/prometheus/client_golang/prometheus"
	"github.com/sirupsen/logrus"
	"golang.org/x/crypto/ssh"
)

// C14/C15 stage "e2e": the real dispatcher (scheduler + worker.Pool + sshexecutor) against
// test.StubDriver over loopback SSH with test.Queue as the API server.  Everything the dispatcher can
// learn about processes comes through the wrapped Exec / cloud listing / queue calls below, and every
// such result is appended to the event log BEFORE it is handed to the dispatcher, so the log order is a
// sound basis for "the dispatcher could not yet know".  The log is judged in Coq
// (coq/model/C14_e2e_run.v).

type e2eLog struct {
	mtx    sync.Mutex
	t0     time.Time
	events []string
	counts map[string]int
	vmIDs  map[string]int64
	lastIS map[int64]string
	lastCloud string
}

func (l *e2eLog) now() int64 { return int64(time.Since(l.t0) / time.Millisecond) }
func (l *e2eLog) add(kind string, f string, args ...interface{}) {
	l.mtx.Lock()
	defer l.mtx.Unlock()
	l.events = append(l.events, fmt.Sprintf("%s %s %s", kind, gZ(l.now()), fmt.Sprintf(f, args...)))
	l.counts[kind]++
}
// do() runs a queue call and logs its success in one critical section of the log, so that no event caused
// by the call (e.g. the start of a container that the scheduler has just seen Locked) can be logged first
func (l *e2eLog) do(kind string, uuid string, call func() error) error {
	l.mtx.Lock()
	defer l.mtx.Unlock()
	err := call()
	if err == nil {
		l.events = append(l.events, fmt.Sprintf("%s %s %s", kind, gZ(l.now()), gN(e2eUUIDNum(uuid))))
		l.counts[kind]++
	}
	return err
}

func (l *e2eLog) vmNum(id cloud.InstanceID) int64 {
	var n int64
	fmt.Sscanf(string(id), "inst%d,", &n)
	return n
}

func e2eUUIDNum(u string) int64 {
	var n int64
	if len(u) >= 15 {
		fmt.Sscanf(u[len(u)-15:], "%d", &n)
	}
	return n
}

var e2eUUIDRe = regexp.MustCompile(`.{5}-dz642-.{15}`)

// persistent cloud: one StubInstanceSet shared by successive dispatchers
type e2eSet struct {
	*test.StubInstanceSet
	log *e2eLog
}

// instances handed to the dispatcher: Destroy is logged before it is executed
type e2eInst struct {
	cloud.Instance
	log *e2eLog
}

func (i e2eInst) Destroy() error {
	i.log.add("XDestroy", "%s", gN(i.log.vmNum(i.ID())))
	return i.Instance.Destroy()
}

func (s e2eSet) Create(it arvados.InstanceType, img cloud.ImageID, tags cloud.InstanceTags, cmd cloud.InitCommand, key ssh.PublicKey) (cloud.Instance, error) {
	inst, err := s.StubInstanceSet.Create(it, img, tags, cmd, key)
	if err != nil {
		return inst, err
	}
	return e2eInst{inst, s.log}, nil
}

func (s e2eSet) Stop() {}
func (s e2eSet) Instances(tags cloud.InstanceTags) ([]cloud.Instance, error) {
	insts, err := s.StubInstanceSet.Instances(tags)
	if err == nil {
		var ids []string
		for _, i := range insts {
			ids = append(ids, gN(s.log.vmNum(i.ID())))
		}
		sort.Strings(ids)
		// only changes of the listing matter to the judge
		s.log.mtx.Lock()
		changed := s.log.lastCloud != gList(ids)
		s.log.lastCloud = gList(ids)
		s.log.mtx.Unlock()
		if changed {
			s.log.add("XCloud", "%s", gList(ids))
		}
		for k, i := range insts {
			insts[k] = e2eInst{i, s.log}
		}
	}
	return insts, err
}

type e2eDriver struct{ set e2eSet }

func (d e2eDriver) InstanceSet(json.RawMessage, cloud.InstanceSetID, cloud.SharedResourceTags, logrus.FieldLogger) (cloud.InstanceSet, error) {
	return d.set, nil
}

// queue as seen by the dispatcher: successful Lock/Unlock/Cancel are logged before they return
type e2eQueue struct {
	*test.Queue
	log *e2eLog
}

func (q e2eQueue) Lock(uuid string) error {
	return q.log.do("XLock", uuid, func() error { return q.Queue.Lock(uuid) })
}
func (q e2eQueue) Unlock(uuid string) error {
	return q.log.do("XUnlock", uuid, func() error { return q.Queue.Unlock(uuid) })
}
func (q e2eQueue) Cancel(uuid string) error {
	return q.log.do("XCancel", uuid, func() error { return q.Queue.Cancel(uuid) })
}

type e2eParams struct {
	containers    int
	deadline      time.Duration
	restartAt     time.Duration // 0 = no restart
	crashRate     float64
	deadlockRate  float64
	destroyErr    float64
	brokenEvery   int // every k-th VM: broken after a random time; 0 = never
	missingEvery  int // crunch-run missing
	reportEvery   int // reports broken
	bootDelayMax  time.Duration
	extCancel     int // containers cancelled from outside at random times
	holdDrain     int // SetIdleBehavior(hold/drain) calls on random instances
	createLimit   time.Duration
	judgeLiveness bool
}

func e2eRun(t *testing.T, r *vRand, p e2eParams) (term string, desc map[string]interface{}, tags []string) {
	lg := &e2eLog{t0: time.Now(), counts: map[string]int{}, lastIS: map[int64]string{}}
	quiet := logrus.New()
	quiet.SetOutput(ioutil.Discard)
	ctx, cancel := context.WithCancel(ctxlog.Context(context.Background(), quiet))
	defer cancel()
	dispatchprivraw, err := ioutil.ReadFile("test/sshkey_dispatch")
	if err != nil {
		t.Fatal(err)
	}
	rawpub, _ := ioutil.ReadFile("test/sshkey_dispatch.pub")
	dispatchpub, _, _, _, err := ssh.ParseAuthorizedKey(rawpub)
	if err != nil {
		t.Fatal(err)
	}
	rawhost, _ := ioutil.ReadFile("test/sshkey_vm")
	hostpriv, err := ssh.ParsePrivateKey(rawhost)
	if err != nil {
		t.Fatal(err)
	}
	stub := &test.StubDriver{
		HostKey:                   hostpriv,
		AuthorizedKeys:            []ssh.PublicKey{dispatchpub},
		ErrorRateDestroy:          p.destroyErr,
		MinTimeBetweenCreateCalls: p.createLimit,
	}
	cluster := &arvados.Cluster{
		ManagementToken: "test-management-token",
		Containers: arvados.ContainersConfig{
			CrunchRunCommand:   "crunch-run",
			DispatchPrivateKey: string(dispatchprivraw),
			StaleLockTimeout:   arvados.Duration(3 * time.Second),
			CloudVMs: arvados.CloudVMsConfig{
				Driver:               "verif",
				SyncInterval:         arvados.Duration(10 * time.Millisecond),
				TimeoutIdle:          arvados.Duration(150 * time.Millisecond),
				TimeoutBooting:       arvados.Duration(150 * time.Millisecond),
				TimeoutProbe:         arvados.Duration(15 * time.Millisecond),
				TimeoutShutdown:      arvados.Duration(5 * time.Millisecond),
				MaxCloudOpsPerSecond: 500,
				PollInterval:         arvados.Duration(5 * time.Millisecond),
				ProbeInterval:        arvados.Duration(5 * time.Millisecond),
				MaxProbesPerSecond:   1000,
				TimeoutSignal:        arvados.Duration(3 * time.Millisecond),
				TimeoutStaleRunLock:  arvados.Duration(3 * time.Millisecond),
				TimeoutTERM:          arvados.Duration(20 * time.Millisecond),
				TagKeyPrefix:         "test:",
			},
		},
		InstanceTypes: arvados.InstanceTypeMap{},
	}
	for _, i := range []int{1, 2, 3, 4, 6, 8, 16} {
		cluster.InstanceTypes[test.InstanceType(i).Name] = test.InstanceType(i)
	}
	cluster.Services.Controller.ExternalURL = arvados.URL{Scheme: "https", Host: "zzzzz.invalid"}
	cluster.Services.DispatchCloud.InternalURLs = map[arvados.URL]arvados.ServiceInstance{{Scheme: "http", Host: "localhost:0"}: {}}

	queue := &test.Queue{
		ChooseType: func(ctr *arvados.Container) (arvados.InstanceType, error) { return ChooseInstanceType(cluster, ctr) },
	}
	for i := 0; i < p.containers; i++ {
		queue.Containers = append(queue.Containers, arvados.Container{
			UUID:     test.ContainerUUID(i + 1),
			State:    arvados.ContainerStateQueued,
			Priority: int64(r.Intn(20) + 1),
			RuntimeConstraints: arvados.RuntimeConstraints{
				RAM:   int64(r.Intn(3)+1) << 30,
				VCPUs: r.Intn(8) + 1,
			},
		})
	}
	stub.Queue = queue
	var rmtx sync.Mutex
	rnd := func(n int) int {
		rmtx.Lock()
		defer rmtx.Unlock()
		return r.Intn(n)
	}
	var vmMtx sync.Mutex
	nvm := 0
	var vms []*test.StubVM
	finish := func(arvados.Container) {}
	stub.SetupVM = func(svm *test.StubVM) {
		vmMtx.Lock()
		nvm++
		n := nvm
		vms = append(vms, svm)
		vmMtx.Unlock()
		svm.Boot = time.Now().Add(time.Duration(rnd(int(p.bootDelayMax/time.Microsecond)+1)) * time.Microsecond)
		svm.CrunchRunDetachDelay = time.Duration(rnd(10000)) * time.Microsecond
		svm.ExecuteContainer = func(c arvados.Container) int { finish(c); return rnd(4) }
		svm.CrashRunningContainer = finish
		switch {
		case p.brokenEvery > 0 && n%p.brokenEvery == 0:
			svm.Broken = time.Now().Add(time.Duration(rnd(90)) * time.Millisecond)
		case p.missingEvery > 0 && n%p.missingEvery == 1:
			svm.CrunchRunMissing = true
		case p.reportEvery > 0 && n%p.reportEvery == 2:
			svm.ReportBroken = time.Now().Add(time.Duration(rnd(200)) * time.Millisecond)
		default:
			svm.CrunchRunCrashRate = p.crashRate
			svm.ArvMountDeadlockRate = p.deadlockRate
		}
		vmn := lg.vmNum(svm.Instance().ID())
		inner := svm.Exec
		var listMtx sync.Mutex
		listActive, listOverlap := 0, false
		lastList, listDirty := "", true // a repeated identical answer is logged only if a start happened in between
		svm.SSHService.Exec = func(env map[string]string, command string, stdin io.Reader, stdout, stderr io.Writer) uint32 {
			switch {
			case strings.HasPrefix(command, "crunch-run --detach --stdin-env "):
				uuid := e2eUUIDRe.FindString(command)
				booting := svm.Boot.After(time.Now())
				listMtx.Lock()
				listDirty = true
				listMtx.Unlock()
				lg.add("XStartBegin", "%s %s %s", gN(vmn), gN(e2eUUIDNum(uuid)), gBool(booting))
				rc := inner(env, command, stdin, stdout, stderr)
				listMtx.Lock()
				listDirty = true // the next answer must be logged even if it repeats the previous one
				listMtx.Unlock()
				lg.add("XStartEnd", "%s %s %s", gN(vmn), gN(e2eUUIDNum(uuid)), gBool(rc == 0))
				return rc
			case command == "crunch-run --list":
				listMtx.Lock()
				listActive++
				if listActive > 1 {
					listOverlap = true
				}
				listMtx.Unlock()
				var buf bytes.Buffer
				rc := inner(env, command, stdin, &buf, stderr)
				listMtx.Lock()
				listActive--
				overlapped := listOverlap
				if listActive == 0 {
					listOverlap = false
				}
				listMtx.Unlock()
				if rc == 0 && !overlapped {
					var live []string
					for _, line := range strings.Split(buf.String(), "\n") {
						if f := strings.Fields(line); len(f) == 1 && e2eUUIDRe.MatchString(f[0]) {
							live = append(live, gN(e2eUUIDNum(f[0])))
						}
					}
					listMtx.Lock()
					skip := !listDirty && lastList == gList(live)
					lastList, listDirty = gList(live), false
					listMtx.Unlock()
					if !skip {
						lg.add("XList", "%s %s", gN(vmn), gList(live))
					}
				}
				stdout.Write(buf.Bytes())
				return rc
			case strings.HasPrefix(command, "crunch-run --kill "):
				uuid := e2eUUIDRe.FindString(command)
				rc := inner(env, command, stdin, stdout, stderr)
				if rc == 0 {
					lg.add("XKilled", "%s %s", gN(vmn), gN(e2eUUIDNum(uuid)))
				}
				return rc
			}
			return inner(env, command, stdin, stdout, stderr)
		}
	}
	rawSet, err := stub.InstanceSet(nil, "verif-set", nil, quiet)
	if err != nil {
		t.Fatal(err)
	}
	set := e2eSet{rawSet.(*test.StubInstanceSet), lg}
	Drivers["verif"] = e2eDriver{set}

	newDisp := func() *dispatcher {
		arvClient, err := arvados.NewClientFromConfig(cluster)
		if err != nil {
			t.Fatal(err)
		}
		d := &dispatcher{Cluster: cluster, Context: ctx, ArvClient: arvClient,
			AuthToken: "v2/zzzzz-gj3su-000000000000000/verifverifverifverifverifverifverifverifverifverif", Registry: prometheus.NewRegistry()}
		d.setupOnce.Do(d.initialize)
		d.queue = e2eQueue{queue, lg}
		go d.run()
		return d
	}
	disp := newDisp()
	var dmtx sync.Mutex
	stopSampler := make(chan struct{})
	samplerDone := make(chan struct{})
	go func() {
		defer close(samplerDone)
		tk := time.NewTicker(3 * time.Millisecond)
		defer tk.Stop()
		for {
			select {
			case <-stopSampler:
				return
			case <-tk.C:
			}
			dmtx.Lock()
			d := disp
			dmtx.Unlock()
			for _, iv := range d.pool.Instances() {
				vmn := lg.vmNum(iv.Instance)
				st := map[string]int{"unknown": 0, "booting": 1, "idle": 2, "running": 3, "shutdown": 4}[iv.WorkerState]
				ib := map[worker.IdleBehavior]int{worker.IdleBehaviorRun: 0, worker.IdleBehaviorHold: 1, worker.IdleBehaviorDrain: 2}[iv.IdleBehavior]
				key := fmt.Sprintf("%d/%d", st, ib)
				lg.mtx.Lock()
				changed := lg.lastIS[vmn] != key
				lg.lastIS[vmn] = key
				lg.mtx.Unlock()
				if changed && (st == 4 || ib != 0) { // the judge only uses held / draining / shut down
					lg.add("XInst", "%s %s %s", gN(vmn), gN(int64(st)), gN(int64(ib)))
				}
			}
		}
	}()

	// faults initiated by the harness at random moments
	type action struct {
		at   time.Duration
		kind string
		arg  int
	}
	var acts []action
	for i := 0; i < p.extCancel; i++ {
		acts = append(acts, action{time.Duration(r.Intn(int(p.deadline/time.Millisecond)/2)) * time.Millisecond, "cancel", 1 + r.Intn(p.containers)})
	}
	for i := 0; i < p.holdDrain; i++ {
		acts = append(acts, action{time.Duration(r.Intn(int(p.deadline/time.Millisecond)/2)) * time.Millisecond, r.Pick("hold", "drain"), r.Intn(1000)})
	}
	if p.restartAt > 0 {
		acts = append(acts, action{p.restartAt, "restart", 0})
	}
	sort.Slice(acts, func(i, j int) bool { return acts[i].at < acts[j].at })

	allDone := func() (bool, int) {
		left := 0
		queue.Update()
		ents, _ := queue.Entries()
		for _, e := range ents {
			if e.Container.State != arvados.ContainerStateComplete && e.Container.State != arvados.ContainerStateCancelled {
				left++
			}
		}
		insts, _ := set.StubInstanceSet.Instances(nil)
		return left == 0 && len(insts) == 0, left
	}
	start := time.Now()
	// The deadline stands for "never finishes".  On a heavily loaded machine a healthy run can simply be slow, so at
	// the deadline the run continues as long as containers keep reaching a final state (at least one per window of
	// deadline/5), up to three times the deadline.  A run that hangs makes no such progress and ends at the deadline.
	lastLeft, lastProgress := -1, start
	for {
		if el := time.Since(start); el >= 3*p.deadline || (el >= p.deadline && time.Since(lastProgress) > p.deadline/5) {
			break
		}
		for len(acts) > 0 && time.Since(start) >= acts[0].at {
			a := acts[0]
			acts = acts[1:]
			switch a.kind {
			case "cancel":
				uuid := test.ContainerUUID(a.arg)
				lg.add("XExtCancel", "%s", gN(int64(a.arg)))
				queue.Notify(arvados.Container{UUID: uuid, State: arvados.ContainerStateCancelled})
			case "hold", "drain":
				dmtx.Lock()
				d := disp
				dmtx.Unlock()
				ivs := d.pool.Instances()
				if len(ivs) > 0 {
					iv := ivs[a.arg%len(ivs)]
					ib := worker.IdleBehaviorHold
					if a.kind == "drain" {
						ib = worker.IdleBehaviorDrain
					}
					d.pool.SetIdleBehavior(iv.Instance, ib)
				}
			case "restart":
				dmtx.Lock()
				disp.Close()
				lg.add("XRestart", "")
				disp = newDisp()
				dmtx.Unlock()
			}
		}
		done, leftNow := allDone()
		if done && len(acts) == 0 {
			break
		}
		if lastLeft < 0 || leftNow < lastLeft {
			lastLeft, lastProgress = leftNow, time.Now()
		}
		time.Sleep(5 * time.Millisecond)
	}
	// release held instances so that they can be drained before the final observation (C15 only)
	_, left := allDone()
	insts, _ := set.StubInstanceSet.Instances(nil)
	close(stopSampler)
	<-samplerDone
	dmtx.Lock()
	disp.Close()
	dmtx.Unlock()
	queue.Update()
	var finals []string
	stCode := map[arvados.ContainerState]int{arvados.ContainerStateQueued: 0, arvados.ContainerStateLocked: 1, arvados.ContainerStateRunning: 2,
		arvados.ContainerStateComplete: 3, arvados.ContainerStateCancelled: 4}
	fc := map[string]int{}
	for _, c := range queue.Containers {
		finals = append(finals, fmt.Sprintf("(%s, %s)", gN(e2eUUIDNum(c.UUID)), gN(int64(stCode[c.State]))))
		fc[string(c.State)]++
	}
	lg.mtx.Lock()
	events := append([]string(nil), lg.events...)
	counts := lg.counts
	lg.mtx.Unlock()
	term = fmt.Sprintf("mke2e %s %s %s %s", gList(events), gList(finals), gNat(len(insts)), gBool(p.judgeLiveness))
	desc = map[string]interface{}{"params": fmt.Sprintf("%+v", p), "event_counts": counts, "final_states": fc, "unfinished": left,
		"instances_left": len(insts), "vms_created": nvm, "wall_ms": time.Since(start) / time.Millisecond, "events": events}
	tags = append(tags, fmt.Sprintf("vms=%d", nvm/5*5))
	for k, v := range counts {
		for i := 0; i < v && i < 1; i++ {
			tags = append(tags, "has="+k)
		}
	}
	if p.restartAt > 0 {
		tags = append(tags, "restart")
	}
	return
}

func TestVerifC14E2E(t *testing.T) {
	seed := vSeed()
	n := vEnvInt("VERIF_N", 3)
	only := vOnly()
	stage := os.Getenv("VERIF_STAGE")
	if stage == "" {
		stage = "e2e"
	}
	mode := os.Getenv("VERIF_E2EMODE")
	os.Setenv("ARVADOS_API_HOST", "zzzzz.invalid")
	cs := vNewCases(stage)
	for i := 0; i < n; i++ {
		if only >= 0 && i != only {
			continue
		}
		r := vCaseRand(seed, i)
		p := e2eParams{
			containers:   40 + r.Intn(50),
			deadline:     8 * time.Second,
			crashRate:    0.1,
			deadlockRate: 0.1,
			destroyErr:   0.1,
			brokenEvery:  7, missingEvery: 7, reportEvery: 7,
			bootDelayMax: 5 * time.Millisecond,
			extCancel:    r.Intn(6),
			holdDrain:    r.Intn(3),
			createLimit:  time.Millisecond,
		}
		if vEnvInt("VERIF_BIG", 0) == 1 {
			p.containers = 200 + r.Intn(300)
			p.deadline = 20 * time.Second
		}
		if r.Chance(2, 3) {
			p.restartAt = time.Duration(50+r.Intn(600)) * time.Millisecond
		}
		if mode == "c15" {
			p.judgeLiveness = true
			p.holdDrain = 0 // a held instance is never released by the dispatcher
			p.containers = 20 + r.Intn(60)
			p.deadline = 30 * time.Second
			p.crashRate = []float64{0, 0.1, 0.3}[r.Intn(3)]
			p.deadlockRate = []float64{0, 0.1}[r.Intn(2)]
			p.destroyErr = []float64{0, 0.1, 0.4}[r.Intn(3)]
			p.bootDelayMax = time.Duration(1+r.Intn(40)) * time.Millisecond
			p.createLimit = time.Duration(r.Intn(3)) * time.Millisecond
			if vEnvInt("VERIF_BIG", 0) == 1 {
				p.containers = 100 + r.Intn(400)
				p.deadline = 100 * time.Second
			}
		}
		term, desc, tags := e2eRun(t, r, p)
		delete(desc, "events")
		cs.Add(i, term, desc, true, tags...)
	}
	cs.Write()
}
