//go:build verif

package main

// C06 (a): the real EachCollection against a fake API server (http.RoundTripper, no sockets) backed by
// a simulated collections table that applies generated modify/add/delete/tick events before every
// request and can fail one request.  The server evaluates the filters generically (attribute,
// operator, operand as sent), orders by (modified_at, uuid) and applies limit/count - it does not know
// the scanner's modes.  One Gallina `CPage` case per history (model: coq/model/C06_model.v).

import (
	"bytes"
	"context"
	"encoding/json"
	"errors"
	"fmt"
	"io"
	"io/ioutil"
	"net/http"
	"net/url"
	"os"
	"sort"
	"strconv"
	"strings"
	"testing"
	"time"

	"git.arvados.org/arvados.git/sdk/go/arvados"
)

var c06Base = time.Date(2020, 1, 1, 0, 0, 0, 0, time.UTC)

func c06Time(n int) time.Time {
	if n == 0 {
		return time.Time{}
	}
	return c06Base.Add(time.Duration(n) * time.Second)
}
func c06UUID(u int) string { return fmt.Sprintf("zzzzz-4zz18-%015d", u) }

type c06Event struct {
	kind byte // 'm' modify, 'a' add, 'd' delete, 't' tick, 'i' insert with an old timestamp
	u    int
	t    int
}

func (e c06Event) gallina() string {
	switch e.kind {
	case 'm':
		return fmt.Sprintf("Modify %d", e.u)
	case 'a':
		return fmt.Sprintf("Add %d", e.u)
	case 'd':
		return fmt.Sprintf("Delete %d", e.u)
	case 'i':
		return fmt.Sprintf("Insert %d %d", e.u, e.t)
	}
	return "Tick"
}

type c06Sim struct {
	table    map[int]int // uuid -> mtime
	clock    int
	events   [][]c06Event // per request index
	nreq     int
	failAt   int // request index to fail, -1 none
	failMode int
	faulted  bool
	runaway  bool
	t        *testing.T
	manifest map[int]string // optional: unsigned manifest text per uuid (sweep harness)
	extra    map[int]map[string]interface{} // optional: further attributes per uuid (replication_desired, storage_classes_desired)
}

func (s *c06Sim) RoundTrip(req *http.Request) (*http.Response, error) {
	if !strings.HasSuffix(req.URL.Path, "/arvados/v1/collections") {
		s.t.Fatalf("unexpected request %s", req.URL)
	}
	var form url.Values
	if req.Body != nil {
		b, _ := ioutil.ReadAll(req.Body)
		req.Body.Close()
		form, _ = url.ParseQuery(string(b))
	}
	if form == nil {
		form = url.Values{}
	}
	for k, v := range req.URL.Query() {
		form[k] = v
	}
	k := s.nreq
	s.nreq++
	if s.nreq > 3000 { // runaway scan: stop it and report it as such (result code 9)
		s.runaway = true
		return nil, errors.New("too many requests")
	}
	// the world moves on before the request is served
	s.clock++
	if k < len(s.events) {
		for _, e := range s.events[k] {
			switch e.kind {
			case 'm':
				if _, ok := s.table[e.u]; ok {
					s.table[e.u] = s.clock
				}
			case 'a':
				if _, ok := s.table[e.u]; !ok {
					s.table[e.u] = s.clock
				}
			case 'd':
				delete(s.table, e.u)
			case 't':
				s.clock++
			case 'i':
				if _, ok := s.table[e.u]; !ok && e.t >= 1 && e.t <= s.clock {
					s.table[e.u] = e.t
				}
			}
		}
	}
	mk := func(code int, body string) (*http.Response, error) {
		return &http.Response{StatusCode: code, Status: fmt.Sprintf("%d %s", code, http.StatusText(code)), Header: http.Header{"Content-Type": {"application/json"}}, Body: ioutil.NopCloser(strings.NewReader(body)), Request: req}, nil
	}
	cutMode := -1
	if k == s.failAt {
		s.faulted = true
		switch s.failMode {
		case 0:
			return mk(500, `{"errors":["injected"]}`)
		case 1:
			return mk(200, `{"items":[{"uuid":"zzzzz-4zz18-0000000000`) // cut short
		case 2:
			return nil, errors.New("injected transport error")
		case 3:
			return mk(503, `not json`)
		case 4:
			return mk(200, ``) // status 200, the body is cut before its first byte
		case 7:
			return mk(200, " \n") // nothing but white space arrived
		default:
			cutMode = s.failMode // 5: the real answer cut at some byte (clean EOF); 6: the body reader fails after some bytes
		}
	}
	// filters
	type filt struct {
		attr, op string
		operand  interface{}
	}
	var filters []filt
	if fs := form.Get("filters"); fs != "" {
		var raw [][]interface{}
		if err := json.Unmarshal([]byte(fs), &raw); err != nil {
			s.t.Fatalf("bad filters %q", fs)
		}
		for _, f := range raw {
			filters = append(filters, filt{f[0].(string), f[1].(string), f[2]})
		}
	}
	if o := form.Get("order"); o != "" && o != "modified_at, uuid" {
		s.t.Fatalf("unexpected order %q", o)
	}
	type row struct{ u, m int }
	var rows []row
	for u, m := range s.table {
		ok := true
		for _, f := range filters {
			var cmp int
			switch f.attr {
			case "modified_at":
				if f.operand == nil { // modified_at = null: no such row in the simulated table
					ok = false
					continue
				}
				ts, isStr := f.operand.(string)
				if !isStr {
					s.t.Fatalf("unexpected operand %v", f.operand)
				}
				ft, err := time.Parse(time.RFC3339Nano, ts)
				if err != nil {
					s.t.Fatalf("bad time operand %q", ts)
				}
				rt := c06Time(m)
				switch {
				case rt.Before(ft):
					cmp = -1
				case rt.After(ft):
					cmp = 1
				}
			case "uuid":
				cmp = strings.Compare(c06UUID(u), f.operand.(string))
			default:
				s.t.Fatalf("unexpected filter attr %q", f.attr)
			}
			switch f.op {
			case "=":
				ok = ok && cmp == 0
			case "!=":
				ok = ok && cmp != 0
			case "<":
				ok = ok && cmp < 0
			case "<=":
				ok = ok && cmp <= 0
			case ">":
				ok = ok && cmp > 0
			case ">=":
				ok = ok && cmp >= 0
			default:
				s.t.Fatalf("unexpected operator %q", f.op)
			}
		}
		if ok {
			rows = append(rows, row{u, m})
		}
	}
	sort.Slice(rows, func(i, j int) bool {
		if rows[i].m != rows[j].m {
			return rows[i].m < rows[j].m
		}
		return rows[i].u < rows[j].u
	})
	avail := len(rows)
	if l := form.Get("limit"); l != "" {
		n, err := strconv.Atoi(l)
		if err != nil {
			s.t.Fatalf("bad limit %q", l)
		}
		if n < len(rows) {
			rows = rows[:n]
		}
	}
	var items []map[string]interface{}
	for _, r := range rows {
		it := map[string]interface{}{"uuid": c06UUID(r.u), "modified_at": c06Time(r.m).Format(time.RFC3339Nano), "manifest_text": "", "portable_data_hash": "d41d8cd98f00b204e9800998ecf8427e+0"}
		if mt, ok := s.manifest[r.u]; ok {
			it["unsigned_manifest_text"] = mt
			it["portable_data_hash"] = fmt.Sprintf("%032x+%d", r.u, len(mt))
		}
		for k, v := range s.extra[r.u] {
			it[k] = v
		}
		items = append(items, it)
	}
	resp := map[string]interface{}{"items": items}
	if items == nil {
		resp["items"] = []interface{}{}
	}
	if form.Get("count") == "exact" {
		resp["items_available"] = avail
	}
	b, _ := json.Marshal(resp)
	if cutMode >= 0 {
		// cut positions: 0, 1, somewhere in the middle, one byte short
		at := []int{0, 1, len(b) / 2, len(b) - 1, int(uint(k*7919+len(b)*31) % uint(len(b)))}[(k+len(b))%5]
		if cutMode == 5 {
			return mk(200, string(b[:at]))
		}
		return &http.Response{StatusCode: 200, Status: "200 OK", Header: http.Header{"Content-Type": {"application/json"}},
			Body: ioutil.NopCloser(io.MultiReader(bytes.NewReader(b[:at]), c06ErrReader{})), Request: req}, nil
	}
	return mk(200, string(b))
}

type c06ErrReader struct{}

func (c06ErrReader) Read([]byte) (int, error) { return 0, errors.New("connection reset while reading the body") }

var errC06Callback = errors.New("injected callback error")

func TestVerifC06Page(t *testing.T) {
	seed := vSeed()
	n := vEnvInt("VERIF_N", 200)
	only := vOnly()
	stage := os.Getenv("VERIF_STAGE")
	if stage == "" {
		stage = "c06page"
	}
	big := os.Getenv("VERIF_TIER") == "thorough"
	cs := vNewCases(stage)
	for i := 0; i < n; i++ {
		if only >= 0 && i != only {
			continue
		}
		r := vCaseRand(seed, i)
		// ---- population ----
		pop := r.Intn(9)
		switch i % 10 {
		case 0:
			pop = 0
		case 1, 2:
			pop = 8 + r.Intn(20)
		case 3:
			if big {
				pop = 60 + r.Intn(141) // up to 200
			} else {
				pop = 30 + r.Intn(40)
			}
		}
		limit := 1 + r.Intn(pop+2)
		if r.Chance(1, 3) {
			limit = 1 + r.Intn(4)
		}
		pageSize := limit
		if r.Chance(1, 12) {
			pageSize = 0 // "maximum page size"
		}
		// timestamps: strata along the mode switches of the scanner
		tsMode := r.Intn(6)
		table := map[int]int{}
		var dbTerms []string
		clock := 0
		for j := 0; j < pop; j++ {
			u := 2 * (j + 1) // even uuids initially; additions use odd ones (below, between and above)
			var m int
			switch tsMode {
			case 0: // all distinct
				m = 1 + j
			case 1: // all the same
				m = 5
			case 2: // runs of ties longer than the page
				m = 1 + j/(limit+1+r.Intn(2))
			case 3: // runs of exactly the page size
				m = 1 + j/limit
			case 4: // few values
				m = 1 + r.Intn(3)
			default:
				m = 1 + r.Intn(pop+1)
			}
			table[u] = m
			if m > clock {
				clock = m
			}
		}
		zeroRow := pop > 0 && r.Chance(1, 40)
		if zeroRow {
			table[2] = 0 // a collection with the zero timestamp: "BUG" branch
		}
		var uu []int
		for u := range table {
			uu = append(uu, u)
		}
		sort.Ints(uu)
		// uuids of a map are enumerated in sorted order for the case term only (the model sorts itself);
		// shuffle to make sure the order in the table is irrelevant
		for k := len(uu) - 1; k > 0; k-- {
			x := r.Intn(k + 1)
			uu[k], uu[x] = uu[x], uu[k]
		}
		for _, u := range uu {
			dbTerms = append(dbTerms, fmt.Sprintf("R %d %d", u, table[u]))
		}
		// ---- events ----
		nreqGuess := 3 + pop/limit*2
		var events [][]c06Event
		evMode := r.Intn(4) // 0 none, 1 sparse, 2 busy, 3 busy with same-time modifications
		anomalous := i%10 == 5 // rows appearing with old timestamps: exercises the final count check
		if anomalous && evMode == 0 {
			evMode = 1
		}
		if evMode > 0 {
			for k := 0; k < nreqGuess+4; k++ {
				var b []c06Event
				ne := 0
				switch evMode {
				case 1:
					if r.Chance(1, 3) {
						ne = 1
					}
				default:
					ne = r.Intn(4)
				}
				for e := 0; e < ne; e++ {
					switch x := r.Intn(10); {
					case anomalous && x < 6:
						b = append(b, c06Event{'i', 1 + 2*r.Intn(pop+3), r.Intn(clock + 2)})
					case x < 5:
						b = append(b, c06Event{'m', 2 * (1 + r.Intn(pop+1)), 0})
					case x < 7:
						b = append(b, c06Event{'a', 1 + 2*r.Intn(pop+3), 0})
					case x < 9:
						b = append(b, c06Event{'d', 1 + r.Intn(2*pop+3), 0})
					default:
						b = append(b, c06Event{'t', 0, 0})
					}
					if evMode == 2 && r.Bool() {
						b = append(b, c06Event{'t', 0, 0})
					}
				}
				events = append(events, b)
			}
		}
		// ---- faults ----
		// failure kinds: 0 HTTP 500, 1 JSON cut short, 2 transport error, 3 503 non-JSON, 4 status 200 with an empty body,
		// 5 the real answer cut at byte 0 / 1 / middle / last, 6 the body reader fails after that many bytes, 7 white space only
		failAt, failMode, cbFail := -1, []int{0, 1, 2, 3, 4, 4, 5, 6, 7, 4}[r.Intn(10)], -1
		switch r.Intn(8) {
		case 0:
			failAt = r.Intn(nreqGuess + 2)
		case 1:
			cbFail = r.Intn(pop + 2)
		}
		switch i % 10 {
		case 4: // every request index of small configurations gets its turn
			failAt = (i / 10) % (nreqGuess + 2)
		case 9: // ... also with a 200 answer whose body never arrives
			failAt, failMode = (i/10)%(nreqGuess+2), 4
		case 7: // ... or arrives in part
			failAt, failMode = (i/10)%(nreqGuess+2), 5+(i/10)%3
		}

		sim := &c06Sim{table: map[int]int{}, clock: clock, events: events, failAt: failAt, failMode: failMode, t: t}
		for u, m := range table {
			sim.table[u] = m
		}
		client := &arvados.Client{Client: &http.Client{Transport: sim}, Scheme: "http", APIHost: "api.example", AuthToken: "tok"}
		var visited []int
		err := EachCollection(context.Background(), client, pageSize, func(c arvados.Collection) error {
			u, e := strconv.Atoi(strings.TrimPrefix(c.UUID, "zzzzz-4zz18-"))
			if e != nil {
				t.Fatalf("bad uuid %q", c.UUID)
			}
			visited = append(visited, u)
			if cbFail >= 0 && len(visited)-1 == cbFail {
				return errC06Callback
			}
			return nil
		}, nil)
		ores := 0
		switch {
		case err == nil:
		case err == errC06Callback:
			ores = 2
		case strings.HasPrefix(err.Error(), "BUG"):
			ores = 3
		case strings.HasPrefix(err.Error(), "Retrieved "):
			ores = 4
		default:
			ores = 1
		}
		if sim.runaway {
			ores = 9
		}
		// effective limit for the model (1<<31-1 is "everything")
		effLimit := pageSize
		if pageSize <= 0 {
			effLimit = 3*pop + 40
		}
		var evTerms []string
		nev := 0
		for _, b := range events {
			var es []string
			for _, e := range b {
				es = append(es, e.gallina())
				nev++
			}
			evTerms = append(evTerms, gList(es))
		}
		opt := func(x int) string {
			if x < 0 {
				return "None"
			}
			return fmt.Sprintf("(Some %d)", x)
		}
		vis := make([]string, len(visited))
		for k, u := range visited {
			vis[k] = strconv.Itoa(u)
		}
		term := fmt.Sprintf("CPage %s %d %d %d %s %s %s %v %d %s", gList(dbTerms), clock, effLimit, sim.nreq+3, gList(evTerms), opt(failAt), opt(cbFail), sim.faulted, ores, gList(vis))
		desc := map[string]interface{}{"index": i, "population": pop, "page_size": pageSize, "timestamps": tsMode, "events": nev, "fail_request": failAt, "fail_callback": cbFail,
			"requests": sim.nreq, "result": ores, "visited": len(visited), "table": fmt.Sprint(table)}
		tags := []string{fmt.Sprintf("pop=%s", c06Bucket(pop)), fmt.Sprintf("ts-mode=%d", tsMode), fmt.Sprintf("events=%d", evMode), fmt.Sprintf("result=%d", ores)}
		if pageSize == 0 {
			tags = append(tags, "max-page-size")
		}
		if zeroRow {
			tags = append(tags, "zero-timestamp-row")
		}
		if anomalous {
			tags = append(tags, "rows-inserted-with-old-timestamps")
		}
		if sim.faulted {
			tags = append(tags, fmt.Sprintf("request-failed-mode=%d", failMode))
		}
		cs.Add(i, term, desc, pop >= 2 && sim.nreq >= 3, tags...)
	}
	cs.Write()
}

func c06Bucket(n int) string {
	switch {
	case n == 0:
		return "0"
	case n <= 8:
		return "1-8"
	case n <= 30:
		return "9-30"
	case n <= 70:
		return "31-70"
	}
	return "71-200"
}
