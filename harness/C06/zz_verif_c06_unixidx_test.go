//go:build verif

package main

// C06 (c'): the real keepstore router ("GET /mounts/<uuid>/blocks", the request keep-balance makes) over a real
// Directory volume (UnixVolume.IndexTo) whose root holds healthy block directories next to entries that cannot
// be listed: a regular file with a hex name and a link to a regular file (Open succeeds, the listing fails), a
// dangling link and a link loop (Open fails); plus names IndexTo must ignore (not lowercase hex, excluded by the
// prefix) and non-block files inside block directories.  Entries are created in a shuffled order, so the
// unreadable ones come before, between and after the healthy ones in the root listing.
// Observed: the response body.  One Gallina `CUnix` case per volume (model: coq/model/C06_unix.v).

import (
	"bytes"
	"context"
	"encoding/json"
	"fmt"
	"io/ioutil"
	"os"
	"path/filepath"
	"strings"
	"testing"
	"time"

	"git.arvados.org/arvados.git/lib/config"
	"git.arvados.org/arvados.git/sdk/go/arvados"
	"git.arvados.org/arvados.git/sdk/go/ctxlog"
	"github.com/prometheus/client_golang/prometheus"
)

type c06uFile struct {
	name  string
	size  int
	mtime int64
}

type c06uEnt struct {
	name  string
	kind  string // dir, file, link-to-file, dangling, loop, link-to-dir
	files []c06uFile
}

func c06uHex(r *vRand, n int) string {
	const d = "0123456789abcdef"
	b := make([]byte, n)
	for i := range b {
		b[i] = d[r.Intn(16)]
	}
	return string(b)
}

func TestVerifC06UnixIndex(t *testing.T) {
	seed := vSeed()
	n := vEnvInt("VERIF_N", 60)
	only := vOnly()
	stage := os.Getenv("VERIF_STAGE")
	if stage == "" {
		stage = "c06unix"
	}
	cs := vNewCases(stage)
	tmp, err := ioutil.TempDir("", "c06unix")
	if err != nil {
		t.Fatal(err)
	}
	defer os.RemoveAll(tmp)
	for i := 0; i < n; i++ {
		if only >= 0 && i != only {
			continue
		}
		r := vCaseRand(seed, i)
		root := filepath.Join(tmp, fmt.Sprintf("vol%d", i))
		outside := filepath.Join(tmp, fmt.Sprintf("outside%d", i))
		os.MkdirAll(root, 0777)
		os.MkdirAll(outside, 0777)
		used := map[string]bool{}
		fresh := func(n int) string {
			for {
				s := c06uHex(r, n)
				if !used[s] {
					used[s] = true
					return s
				}
			}
		}
		mkFiles := func(dirname string) []c06uFile {
			var fs []c06uFile
			for k := 0; k < r.Intn(4); k++ {
				f := c06uFile{size: r.Intn(40), mtime: 1500000000000000000 + int64(r.Intn(1<<30))*1000 + int64(r.Intn(1000))}
				switch x := r.Intn(8); {
				case x == 0:
					f.name = dirname + c06uHex(r, 29-len(dirname)+3) + ".tmp" // not a block file
				case x == 1:
					f.name = c06uHex(r, 32) + ".trash.1700000000"
				case x == 2:
					f.name = strings.ToUpper(c06uHex(r, 32)) // not lowercase hex
				default:
					if len(dirname) <= 32 {
						f.name = dirname + c06uHex(r, 32-len(dirname))
					} else {
						f.name = c06uHex(r, 32)
					}
				}
				fs = append(fs, f)
			}
			return fs
		}
		var ents []c06uEnt
		ngood := 1 + r.Intn(4)
		for k := 0; k < ngood; k++ {
			name := fresh(3)
			if r.Chance(1, 6) {
				name = fresh(1 + r.Intn(5))
			}
			ents = append(ents, c06uEnt{name: name, kind: "dir", files: mkFiles(name)})
		}
		nbad := 0
		switch i % 4 {
		case 1, 2:
			nbad = 1
		case 3:
			nbad = 1 + r.Intn(2)
		}
		for k := 0; k < nbad; k++ {
			name := fresh(3)
			if r.Chance(1, 4) {
				name = fresh(1 + r.Intn(4))
			}
			ents = append(ents, c06uEnt{name: name, kind: []string{"file", "file", "link-to-file", "dangling", "dangling", "loop"}[r.Intn(6)]})
		}
		if r.Chance(1, 3) {
			name := fresh(3)
			ents = append(ents, c06uEnt{name: name, kind: "link-to-dir", files: mkFiles(name)})
		}
		// names IndexTo must ignore
		if r.Chance(1, 2) {
			ents = append(ents, c06uEnt{name: "README", kind: "file"})
		}
		if r.Chance(1, 3) {
			ents = append(ents, c06uEnt{name: "ABC", kind: "dir", files: mkFiles("abc")})
		}
		if r.Chance(1, 3) {
			ents = append(ents, c06uEnt{name: "lost+found", kind: "dangling"})
		}
		if r.Chance(1, 3) {
			ents = append(ents, c06uEnt{name: "xyz", kind: "file"})
		}
		// shuffled creation order
		for a := len(ents) - 1; a > 0; a-- {
			b := r.Intn(a + 1)
			ents[a], ents[b] = ents[b], ents[a]
		}
		writeFiles := func(dir string, fs []c06uFile) {
			for k := range fs {
				p := filepath.Join(dir, fs[k].name)
				if err := ioutil.WriteFile(p, bytes.Repeat([]byte{'x'}, fs[k].size), 0666); err != nil {
					t.Fatal(err)
				}
				mt := time.Unix(0, fs[k].mtime)
				if err := os.Chtimes(p, mt, mt); err != nil {
					t.Fatal(err)
				}
				fi, err := os.Stat(p)
				if err != nil {
					t.Fatal(err)
				}
				fs[k].mtime, fs[k].size = fi.ModTime().UnixNano(), int(fi.Size())
			}
		}
		for k := range ents {
			e := &ents[k]
			p := filepath.Join(root, e.name)
			var err error
			switch e.kind {
			case "dir":
				err = os.Mkdir(p, 0777)
				writeFiles(p, e.files)
			case "file":
				err = ioutil.WriteFile(p, []byte("not a directory"), 0666)
			case "link-to-file":
				target := filepath.Join(outside, "file-"+e.name)
				ioutil.WriteFile(target, []byte("x"), 0666)
				err = os.Symlink(target, p)
			case "dangling":
				err = os.Symlink(filepath.Join(outside, "missing-"+e.name), p)
			case "loop":
				err = os.Symlink(p, p)
			case "link-to-dir":
				target := filepath.Join(outside, "dir-"+e.name)
				os.Mkdir(target, 0777)
				writeFiles(target, e.files)
				err = os.Symlink(target, p)
			}
			if err != nil {
				t.Fatal(err)
			}
		}
		// prefix
		pfx := ""
		if r.Chance(1, 3) {
			src := ents[r.Intn(len(ents))]
			base := src.name
			if len(src.files) > 0 && r.Bool() {
				base = src.files[r.Intn(len(src.files))].name
			}
			base = strings.ToLower(base)
			k := 1 + r.Intn(4)
			if k > len(base) {
				k = len(base)
			}
			pfx = base[:k]
			ok := true
			for _, c := range pfx {
				if !strings.ContainsRune("0123456789abcdef", c) {
					ok = false
				}
			}
			if !ok {
				pfx = c06uHex(r, 1+r.Intn(2))
			}
		}
		// the real handler over the real volume
		ldr := config.NewLoader(bytes.NewBufferString("Clusters: {zzzzz: {}}"), ctxlog.TestLogger(t))
		ldr.Path = "-"
		cfg, err := ldr.Load()
		if err != nil {
			t.Fatal(err)
		}
		cluster, err := cfg.GetCluster("")
		if err != nil {
			t.Fatal(err)
		}
		cluster.SystemRootToken = "verif-system-root-token-0123456789"
		cluster.Collections.BlobSigning = false
		cluster.Services.Controller.ExternalURL = arvados.URL{Scheme: "http", Host: "controller.example"}
		uuid := fmt.Sprintf("zzzzz-nyw5e-%015d", i)
		params, _ := json.Marshal(map[string]interface{}{"Root": root})
		cluster.Volumes = map[string]arvados.Volume{uuid: {Replication: 1, Driver: "Directory", DriverParameters: params}}
		h := &handler{}
		if err := h.setup(context.Background(), cluster, "", prometheus.NewRegistry(), testServiceURL); err != nil {
			t.Fatal(err)
		}
		resp := IssueRequest(h, &RequestTester{method: "GET", uri: "/mounts/" + uuid + "/blocks?prefix=" + pfx, apiToken: cluster.SystemRootToken})
		if resp.Code != 200 {
			t.Fatalf("GET /mounts/%s/blocks: %d", uuid, resp.Code)
		}
		body := resp.Body.String()

		var terms []string
		var edesc []string
		anyBad := false
		for _, e := range ents {
			var fts []string
			for _, f := range e.files {
				fts = append(fts, fmt.Sprintf("UF %s %s %s", gStr(f.name), gStr(fmt.Sprintf("%s+%d", f.name, f.size)), gStr(fmt.Sprint(f.mtime))))
			}
			kind := ""
			switch e.kind {
			case "dir", "link-to-dir":
				kind = fmt.Sprintf("(UDir %s None)", gList(fts))
			case "file", "link-to-file":
				kind = "(UDir [] (Some 0))"
			default:
				kind = "UNoOpen"
			}
			terms = append(terms, fmt.Sprintf("UE %s %s", gStr(e.name), kind))
			edesc = append(edesc, fmt.Sprintf("%s (%s, %d files)", e.name, e.kind, len(e.files)))
			if e.kind != "dir" && e.kind != "link-to-dir" && strings.Trim(e.name, "0123456789abcdef") == "" &&
				(strings.HasPrefix(e.name, pfx) || strings.HasPrefix(pfx, e.name)) {
				anyBad = true
			}
		}
		term := fmt.Sprintf("CUnix %s %s %s", gStr(pfx), gList(terms), gStr(body))
		desc := map[string]interface{}{"index": i, "root_entries_in_creation_order": edesc, "prefix": pfx, "body": body,
			"an_unreadable_block_directory_is_in_scope": anyBad, "ends_with_blank_line": strings.HasSuffix(body, "\n\n") || body == "\n"}
		tags := []string{fmt.Sprintf("unreadable-in-scope=%v", anyBad)}
		if pfx != "" {
			tags = append(tags, "with-prefix")
		}
		for _, e := range ents {
			if e.kind != "dir" {
				tags = append(tags, "entry:"+e.kind)
			}
		}
		cs.Add(i, term, desc, len(ents) >= 2, tags...)
		os.RemoveAll(root)
		os.RemoveAll(outside)
	}
	cs.Write()
}
