//go:build verif

package arvados

// C06 (b): the real KeepService.index (through IndexMount) on every truncation point of generated
// well-formed index responses, on malformed bodies, on bodies whose reader fails and on lines at the
// bufio.Scanner limit (model: coq/model/C06_model.v parse_index).

import (
	"context"
	"fmt"
	"io"
	"io/ioutil"
	"net/http"
	"os"
	"strconv"
	"strings"
	"testing"
)

// ---- shared by the two index-reader harnesses (textually included: they live in different packages) ----

type c06Entry struct{ d, m string }

func c06Render(es []c06Entry) string {
	var b strings.Builder
	for _, e := range es {
		b.WriteString(e.d + " " + e.m + "\n")
	}
	b.WriteString("\n")
	return b.String()
}

func c06GenEntries(r *vRand, max int) []c06Entry {
	n := r.Intn(max + 1)
	es := make([]c06Entry, n)
	for i := range es {
		h := make([]byte, 32)
		for k := range h {
			h[k] = "0123456789abcdef"[r.Intn(16)]
		}
		d := string(h) + "+" + strconv.Itoa(r.Intn(1<<26))
		if r.Chance(1, 10) {
			d = string(h[:1+r.Intn(8)]) // any token without space is accepted as a locator
		}
		var m string
		switch r.Intn(6) {
		case 0:
			m = strconv.Itoa(r.Intn(100)) // tiny: seconds, scaled
		case 1:
			m = strconv.FormatInt(1500000000+int64(r.Intn(1<<30)), 10) // seconds
		case 2:
			m = "000" + strconv.FormatInt(int64(r.Intn(1<<30)), 10) // leading zeros
		case 3:
			m = strconv.FormatInt(999999999990+int64(r.Intn(20)), 10) // around the 1e12 threshold
		default:
			m = strconv.FormatInt(1500000000000000000+int64(r.U64()%1000000000000000000), 10) // nanoseconds
		}
		es[i] = c06Entry{d, m}
	}
	return es
}

// malformed / unusual bodies
func c06GenRaw(r *vRand) string {
	es := c06GenEntries(r, 4)
	body := c06Render(es)
	switch r.Intn(16) {
	case 0:
		return strings.Replace(body, "\n", "\r\n", -1) // CRLF everywhere (dropCR)
	case 1:
		return "\n" + body // leading blank line
	case 2:
		return body + "\n" // two blank lines at the end
	case 3:
		return body + "x 1\n" // data after the terminator
	case 4:
		return strings.TrimSuffix(body, "\n") + "\r\n" // terminator is CR LF
	case 5:
		return strings.Replace(body, " ", "  ", 1) // three fields
	case 6:
		return "justonefield\n\n"
	case 7:
		return "abc+1 " + r.Pick("+5", "-5", "-9223372036854775808", "9223372036854775807", "9223372036854775808", "-9223372036854775809", "1_000", "12a", "", "+", "-", "0x10", " 7", "1e3", "٣") + "\n\n"
	case 8:
		return "abc+1 999999999999\n\n" // 1e12-1: scaled, wraps in int64
	case 9:
		return "\r\n" // blank line with CR
	case 10:
		return "abc+1 5\n\r\n" // CR-only terminator line
	case 11:
		return "abc+1 5" // no newline at all
	case 12:
		return ""
	case 13:
		return "abc+1 5\n\n\n"
	case 14:
		return "a b c\n\n"
	}
	return " 5\n\n" // empty locator
}

func c06EntriesGallina(es []c06Entry) string {
	xs := make([]string, len(es))
	for i, e := range es {
		xs[i] = "(" + gStr(e.d) + ", " + gStr(e.m) + ")"
	}
	return gList(xs)
}

type c06ErrReader struct {
	r   io.Reader
	err error
}

func (e *c06ErrReader) Read(p []byte) (int, error) {
	n, err := e.r.Read(p)
	if err == io.EOF {
		return n, e.err
	}
	return n, err
}

type c06IdxCase struct {
	kind  byte // 'T' every truncation point of render(es); 'A' one body (cut of es or raw); 'L' long line
	es    []c06Entry
	cut   int // kind 'A': -1 = raw
	raw   string
	rderr bool
	llen  int  // kind 'L'
	lterm bool // kind 'L'
	tags  []string
}

func (c *c06IdxCase) body() string {
	switch {
	case c.kind == 'L':
		t := ""
		if c.lterm {
			t = "\n\n"
		}
		return "abc+1 " + strings.Repeat("0", c.llen-7) + "5" + t
	case c.cut >= 0:
		return c06Render(c.es)[:c.cut]
	}
	return c.raw
}

// the list of cases of one run; n = number of bodies to feed to the real reader (approximately)
func c06IndexCases(seed uint64, n int) []c06IdxCase {
	var out []c06IdxCase
	bodies := 0
	for gen := 0; bodies < n*3/4; gen++ {
		r := vCaseRand(seed, 100000+gen)
		es := c06GenEntries(r, 6)
		if gen == 0 {
			es = nil // the empty index "\n"
		}
		full := c06Render(es)
		out = append(out, c06IdxCase{kind: 'T', es: es, cut: -1, tags: []string{"all-truncation-points", fmt.Sprintf("entries=%d", len(es))}})
		bodies += len(full) + 1
		// a dropped connection after some prefix
		k := r.Intn(len(full) + 1)
		out = append(out, c06IdxCase{kind: 'A', es: es, cut: k, rderr: true, tags: []string{"read-error"}})
		bodies++
	}
	for i := 0; bodies < n; i++ {
		r := vCaseRand(seed, 200000+i)
		raw := c06GenRaw(r)
		out = append(out, c06IdxCase{kind: 'A', cut: -1, raw: raw, rderr: r.Chance(1, 10), tags: []string{"raw"}})
		bodies++
	}
	// scanner limit: lines of 65535 / 65536 bytes, terminated or not
	for _, l := range []int{65535, 65536} {
		for _, term := range []bool{true, false} {
			out = append(out, c06IdxCase{kind: 'L', llen: l, lterm: term, cut: -1, tags: []string{fmt.Sprintf("line-%d", l)}})
		}
	}
	return out
}

type c06BodyRT struct {
	body  string
	rderr bool
}

func (rt *c06BodyRT) RoundTrip(req *http.Request) (*http.Response, error) {
	var rd io.Reader = strings.NewReader(rt.body)
	if rt.rderr {
		rd = &c06ErrReader{rd, io.ErrUnexpectedEOF}
	}
	return &http.Response{StatusCode: 200, Status: "200 OK", Proto: "HTTP/1.1", Header: http.Header{}, Body: ioutil.NopCloser(rd), Request: req}, nil
}

func c06RunIndexA(t *testing.T, body string, rderr bool) (int, string) {
	rt := &c06BodyRT{body: body, rderr: rderr}
	client := &Client{Client: &http.Client{Transport: rt}, Scheme: "http", APIHost: "api.example", AuthToken: "tok"}
	ks := &KeepService{UUID: "zzzzz-bi6l4-000000000000000", ServiceHost: "keep0.example", ServicePort: 25107}
	ents, err := ks.IndexMount(context.Background(), client, "zzzzz-nyw5e-000000000000000", "")
	operr := 0
	if err != nil {
		m := err.Error()
		switch {
		case strings.Contains(m, "non-terminal blank line"):
			operr = 1
		case strings.Contains(m, "Malformed index line") && strings.Contains(m, " fields"):
			operr = 2
		case strings.Contains(m, "Malformed index line") && strings.Contains(m, "mtime:"):
			operr = 3
		case strings.Contains(m, "Error scanning index response"):
			operr = 4
		case strings.Contains(m, "no EOF marker"):
			operr = 5
		default:
			t.Fatalf("unclassified error %q", m)
		}
		if ents != nil {
			t.Fatalf("entries returned together with an error")
		}
	}
	xs := make([]string, len(ents))
	for k, e := range ents {
		xs[k] = "(" + gStr(string(e.SizedDigest)) + ", " + gZ(e.Mtime) + ")"
	}
	return operr, gList(xs)
}

func TestVerifC06IndexA(t *testing.T) {
	seed := vSeed()
	n := vEnvInt("VERIF_N", 800)
	only := vOnly()
	stage := os.Getenv("VERIF_STAGE")
	if stage == "" {
		stage = "c06idxa"
	}
	cs := vNewCases(stage)
	fed := 0
	for i, c := range c06IndexCases(seed, n) {
		if only >= 0 && i != only {
			continue
		}
		var term string
		desc := map[string]interface{}{"index": i, "kind": string(c.kind)}
		switch c.kind {
		case 'T':
			full := c06Render(c.es)
			var codes []string
			ents := "[]"
			for k := 0; k <= len(full); k++ {
				code, e := c06RunIndexA(t, full[:k], false)
				codes = append(codes, strconv.Itoa(code))
				ents = e
				fed++
			}
			term = fmt.Sprintf("CIndexTA %s %s %s", c06EntriesGallina(c.es), gList(codes), ents)
			desc["index_text"] = full
			desc["outcomes"] = strings.Join(codes, "")
		case 'L':
			code, e := c06RunIndexA(t, c.body(), false)
			fed++
			term = fmt.Sprintf("CIndexLA %d%%N %v %d %s", c.llen, c.lterm, code, e)
			desc["line_length"] = c.llen
			desc["terminated"] = c.lterm
			desc["error"] = code
		default:
			code, e := c06RunIndexA(t, c.body(), c.rderr)
			fed++
			cut := "None"
			if c.cut >= 0 {
				cut = fmt.Sprintf("(Some %d)", c.cut)
			}
			term = fmt.Sprintf("CIndexA %s %s %s %v %d %s", c06EntriesGallina(c.es), cut, gStr(c.raw), c.rderr, code, e)
			desc["body"] = c.body()
			desc["read_error"] = c.rderr
			desc["error"] = code
			c.tags = append(c.tags, fmt.Sprintf("outcome=%d", code))
		}
		cs.Add(i, term, desc, len(c.body()) > 0 || c.kind == 'T', c.tags...)
	}
	for k := 0; k < fed; k += 100 {
		cs.Tag("bodies-fed-to-the-real-reader(x100)")
	}
	cs.Write()
}
