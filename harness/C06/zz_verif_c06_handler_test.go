//go:build verif

package main

// C06 (c): the real keepstore router (handleIndex behind "GET /index") over volumes whose IndexTo
// writes a prescribed text and then succeeds or fails.  Observed: the response body.  The volumes are
// listed in the order in which the handler called them (the volume manager enumerates a map).
// One Gallina `CHandler` case per configuration (model: coq/model/C06_model.v handle_index).

import (
	"bytes"
	"context"
	"encoding/json"
	"errors"
	"fmt"
	"io"
	"os"
	"strings"
	"sync"
	"testing"

	"git.arvados.org/arvados.git/lib/config"
	"git.arvados.org/arvados.git/sdk/go/arvados"
	"git.arvados.org/arvados.git/sdk/go/ctxlog"
	"github.com/prometheus/client_golang/prometheus"
	"github.com/sirupsen/logrus"
)

type c06VolSpec struct {
	text string
	fail bool
}

var (
	c06VolMtx   sync.Mutex
	c06VolSpecs []c06VolSpec
	c06VolCalls []int
)

type c06IdxVolume struct {
	*MockVolume
	k int
}

func (v *c06IdxVolume) IndexTo(prefix string, w io.Writer) error {
	c06VolMtx.Lock()
	spec := c06VolSpecs[v.k]
	c06VolCalls = append(c06VolCalls, v.k)
	c06VolMtx.Unlock()
	io.WriteString(w, spec.text)
	if spec.fail {
		return errors.New("injected index error")
	}
	return nil
}

func init() {
	driver["verifidx"] = func(cluster *arvados.Cluster, volume arvados.Volume, logger logrus.FieldLogger, metrics *volumeMetricsVecs) (Volume, error) {
		var p struct{ K int }
		if err := json.Unmarshal(volume.DriverParameters, &p); err != nil {
			return nil, err
		}
		mv, err := newMockVolume(cluster, volume, logger, metrics)
		if err != nil {
			return nil, err
		}
		return &c06IdxVolume{MockVolume: mv.(*MockVolume), k: p.K}, nil
	}
}

func TestVerifC06Handler(t *testing.T) {
	seed := vSeed()
	n := vEnvInt("VERIF_N", 60)
	only := vOnly()
	stage := os.Getenv("VERIF_STAGE")
	if stage == "" {
		stage = "c06handler"
	}
	cs := vNewCases(stage)
	for i := 0; i < n; i++ {
		if only >= 0 && i != only {
			continue
		}
		r := vCaseRand(seed, i)
		nvol := 1 + r.Intn(4)
		specs := make([]c06VolSpec, nvol)
		anyFail := false
		for k := range specs {
			var b strings.Builder
			for e := 0; e < r.Intn(4); e++ {
				fmt.Fprintf(&b, "%032x+%d %d\n", r.U64(), r.Intn(1<<20), 1500000000000000000+int64(r.Intn(1<<30)))
			}
			specs[k].text = b.String()
			if r.Chance(1, 3) {
				specs[k].fail = true
				anyFail = true
				if len(specs[k].text) > 0 { // the volume failed after writing part of its lines
					specs[k].text = specs[k].text[:r.Intn(len(specs[k].text)+1)]
				}
			}
		}
		c06VolMtx.Lock()
		c06VolSpecs, c06VolCalls = specs, nil
		c06VolMtx.Unlock()
		ldr := config.NewLoader(bytes.NewBufferString("Clusters: {zzzzz: {}}"), ctxlog.TestLogger(t))
		ldr.Path = "-" // no /etc/arvados/config.yml in the sandbox
		cfg, err := ldr.Load()
		if err != nil {
			t.Fatal(err)
		}
		cluster, err := cfg.GetCluster("")
		if err != nil {
			t.Fatal(err)
		}
		cluster.SystemRootToken = "verif-system-root-token-0123456789"
		cluster.Collections.BlobSigning = false
		cluster.Services.Controller.ExternalURL = arvados.URL{Scheme: "http", Host: "controller.example"}
		cluster.Volumes = map[string]arvados.Volume{}
		for k := range specs {
			cluster.Volumes[fmt.Sprintf("zzzzz-nyw5e-%015d", k)] = arvados.Volume{Replication: 1, Driver: "verifidx", DriverParameters: json.RawMessage(fmt.Sprintf(`{"K":%d}`, k))}
		}
		h := &handler{}
		if err := h.setup(context.Background(), cluster, "", prometheus.NewRegistry(), testServiceURL); err != nil {
			t.Fatal(err)
		}
		resp := IssueRequest(h, &RequestTester{method: "GET", uri: "/index", apiToken: cluster.SystemRootToken})
		if resp.Code != 200 {
			t.Fatalf("GET /index: %d", resp.Code)
		}
		body := resp.Body.String()
		c06VolMtx.Lock()
		calls := append([]int(nil), c06VolCalls...)
		c06VolMtx.Unlock()
		called := map[int]bool{}
		var vols []string
		for _, k := range calls {
			called[k] = true
			vols = append(vols, fmt.Sprintf("V %s %v", gStr(specs[k].text), !specs[k].fail))
		}
		for k := range specs { // volumes the handler did not get to
			if !called[k] {
				vols = append(vols, fmt.Sprintf("V %s %v", gStr(specs[k].text), !specs[k].fail))
			}
		}
		term := fmt.Sprintf("CHandler %s %s", gList(vols), gStr(body))
		desc := map[string]interface{}{"index": i, "volumes": nvol, "called": calls, "some_volume_fails": anyFail, "body": body}
		tag := "all-volumes-ok"
		if anyFail {
			tag = "a-volume-fails"
		}
		cs.Add(i, term, desc, nvol >= 2, tag, fmt.Sprintf("volumes=%d", nvol))
	}
	cs.Write()
}
