//go:build verif

package main

// C06 (d): the real Balancer.Run against a stub API server and stub keepstores (one RoundTripper, no
// sockets).  For every configuration: one run without failure (which also tells how many requests a
// sweep makes and what it plans), then for every request index k runs with that request failing: HTTP 500,
// one more failure kind drawn per request (transport error, 404, 503 with a non-JSON body, 200 with a body
// that is not the expected JSON) and - for index requests - a response cut short.  The stub cluster has
// read-only mounts that are NOT shadowed by a writable mount of the same device (their index counts),
// read-only views that are shadowed, read-only services, blank device ids, Replication 0-2 and storage
// classes, so that a failure is tried on every kind of mount and service.  Observed: the PUT /trash and PUT /pull
// requests the keepstores received (number of entries in the body) and whether Run returned nil.
// One Gallina `CSweep` case per run (model: coq/model/C06_model.v sweep).

import (
	"encoding/json"
	"errors"
	"fmt"
	"io/ioutil"
	"net/http"
	"os"
	"sort"
	"strings"
	"sync"
	"testing"
	"time"

	"git.arvados.org/arvados.git/sdk/go/arvados"
	"github.com/prometheus/client_golang/prometheus"
	"github.com/sirupsen/logrus"
)

type c06Mount struct {
	uuid    string
	dev     string
	index   string // well-formed index text
	num     int
	ro      bool
	repl    int
	classes map[string]bool
}

type c06Put struct {
	kind  string // "trash" / "pull"
	srv   int
	items int
}

type c06SweepRT struct {
	mtx       sync.Mutex
	t         *testing.T
	nsrv      int
	ksPages   int
	mounts    [][]c06Mount // per service
	coll      *c06Sim
	failAt    int // global request number to fail (-1 none)
	cutIndex  bool
	failMode  int    // 0: 500; 2: transport error; 3: 404; 4: 503 with a non-JSON body; 5: 200 with an unexpected body; 6: 200 with an empty body
	srvRO     []bool // per service: read_only in the keep_services list
	nreq      int
	seenDD    bool
	ncoll     int
	puts      []c06Put
	failedReq string // Gallina req of the request that was failed
	idxReq    []int  // numbers of the mounts whose index was requested
	reqLog    []string
}

func (rt *c06SweepRT) canon(dev string, self int) int {
	if dev == "" { // a blank device id is a device of its own
		return self
	}
	best := 0
	for _, ms := range rt.mounts {
		for _, m := range ms {
			if m.dev == dev && (best == 0 || m.num < best) {
				best = m.num
			}
		}
	}
	return best
}

func (rt *c06SweepRT) RoundTrip(req *http.Request) (*http.Response, error) {
	rt.mtx.Lock()
	defer rt.mtx.Unlock()
	k := rt.nreq
	rt.nreq++
	mk := func(code int, body string) (*http.Response, error) {
		return &http.Response{StatusCode: code, Status: fmt.Sprintf("%d %s", code, http.StatusText(code)), Proto: "HTTP/1.1", Header: http.Header{"Content-Type": {"application/json"}}, Body: ioutil.NopCloser(strings.NewReader(body)), Request: req}, nil
	}
	var body []byte
	if req.Body != nil {
		body, _ = ioutil.ReadAll(req.Body)
		req.Body.Close()
	}
	path := req.URL.Path
	host := req.URL.Host
	srv := -1
	if strings.HasPrefix(host, "keep") {
		fmt.Sscanf(host, "keep%d.example", &srv)
	}
	// identify
	var id string
	fail := k == rt.failAt
	isIndex := false
	switch {
	case path == "/arvados/v1/keep_services":
		q := req.URL.Query()
		page := 0
		if q.Get("offset") != "" && q.Get("offset") != "0" {
			page = 1
		}
		id = fmt.Sprintf("QKeepServices %d", page)
	case srv >= 0 && path == "/mounts":
		id = fmt.Sprintf("QMounts %d", srv)
	case path == "/arvados/v1/users/current":
		id = "QCurrentUser"
	case path == "/discovery/v1/apis/arvados/v1/rest":
		id = "QDiscovery"
		rt.seenDD = true
	case path == "/arvados/v1/collections":
		raw := req.URL.RawQuery + string(body)
		if strings.Contains(raw, "null") {
			id = "QNullModified"
		} else {
			id = fmt.Sprintf("QCollections %d", rt.ncoll)
			rt.ncoll++
		}
	case srv >= 0 && strings.HasPrefix(path, "/mounts/") && strings.HasSuffix(path, "/blocks"):
		isIndex = true
		u := strings.TrimSuffix(strings.TrimPrefix(path, "/mounts/"), "/blocks")
		for _, m := range rt.mounts[srv] {
			if m.uuid == u {
				// a device mounted on several services is indexed through whichever mount the balancer
				// happens to pick (map order): name the request by the device's first mount
				id = fmt.Sprintf("QIndex %d", rt.canon(m.dev, m.num))
				rt.idxReq = append(rt.idxReq, m.num)
			}
		}
	case srv >= 0 && req.Method == "PUT" && (path == "/trash" || path == "/pull"):
		var list []interface{}
		if err := json.Unmarshal(body, &list); err != nil {
			rt.t.Fatalf("PUT %s body is not a JSON list: %q", path, body)
		}
		rt.puts = append(rt.puts, c06Put{path[1:], srv, len(list)})
		switch {
		case path == "/pull":
			id = fmt.Sprintf("QPull %d", srv)
		case rt.seenDD:
			id = fmt.Sprintf("QTrash %d", srv)
		default:
			id = fmt.Sprintf("QClearTrash %d", srv)
		}
	}
	if id == "" {
		rt.t.Fatalf("unexpected request %s %s", req.Method, req.URL)
	}
	rt.reqLog = append(rt.reqLog, id)
	if fail {
		rt.failedReq = id
		if isIndex && rt.cutIndex {
			// 200 OK, but the index is cut short: no terminating blank line
			full := ""
			for _, m := range rt.mounts[srv] {
				if strings.Contains(path, m.uuid) {
					full = m.index
				}
			}
			return mk(200, full[:len(full)-1])
		}
		switch rt.failMode {
		case 2:
			return nil, errors.New("injected transport error")
		case 3:
			return mk(404, `{"errors":["not found"]}`)
		case 4:
			return mk(503, `service unavailable`)
		case 5:
			if req.Method == "GET" {
				return mk(200, `<html>this is not the expected document</html>`)
			}
		case 6:
			if req.Method == "GET" {
				return mk(200, ``) // status 200, the body is cut before its first byte
			}
		}
		return mk(500, `{"errors":["injected"]}`)
	}
	switch {
	case path == "/arvados/v1/keep_services":
		var items []arvados.KeepService
		for i := 0; i < rt.nsrv; i++ {
			items = append(items, arvados.KeepService{UUID: c05SrvUUID(i), ServiceHost: fmt.Sprintf("keep%d.example", i), ServicePort: 25107, ServiceType: "disk", ReadOnly: rt.srvRO[i]})
		}
		// a proxy is listed too and must be ignored
		items = append(items, arvados.KeepService{UUID: "zzzzz-bi6l4-proxyproxyproxy", ServiceHost: "proxy.example", ServicePort: 443, ServiceSSLFlag: true, ServiceType: "proxy"})
		total := len(items)
		if rt.ksPages == 2 {
			half := total / 2
			if strings.Contains(id, " 0") {
				items = items[:half]
			} else {
				items = items[half:]
			}
		}
		b, _ := json.Marshal(arvados.KeepServiceList{Items: items, ItemsAvailable: total})
		return mk(200, string(b))
	case path == "/mounts":
		var ms []arvados.KeepMount
		for _, m := range rt.mounts[srv] {
			ms = append(ms, arvados.KeepMount{UUID: m.uuid, DeviceID: m.dev, Replication: m.repl, ReadOnly: m.ro, StorageClasses: m.classes})
		}
		b, _ := json.Marshal(ms)
		return mk(200, string(b))
	case path == "/arvados/v1/users/current":
		return mk(200, `{"uuid":"zzzzz-tpzed-000000000000000","is_admin":true,"is_active":true}`)
	case path == "/discovery/v1/apis/arvados/v1/rest":
		return mk(200, `{"defaultCollectionReplication":2,"blobSignatureTtl":1209600}`)
	case path == "/arvados/v1/collections":
		// the simulated table answers (no events, no failure of its own)
		req.Body = ioutil.NopCloser(strings.NewReader(string(body)))
		return rt.coll.RoundTrip(req)
	case isIndex:
		for _, m := range rt.mounts[srv] {
			if strings.Contains(path, m.uuid) {
				return mk(200, m.index)
			}
		}
	}
	return mk(200, `{}`)
}

func TestVerifC06Sweep(t *testing.T) {
	seed := vSeed()
	nconf := vEnvInt("VERIF_N", 3)
	only := vOnly()
	stage := os.Getenv("VERIF_STAGE")
	if stage == "" {
		stage = "c06sweep"
	}
	cs := vNewCases(stage)
	idx := 0
	const foo, bar = "acbd18db4cc2f85cedef654fccc4a4d8+3", "37b51d194a7513e45b56f6524f2d51f2+3"
	for conf := 0; conf < nconf; conf++ {
		r := vCaseRand(seed, conf)
		nsrv := 3 + r.Intn(3)
		ksPages := 1 + r.Intn(2)
		commitPulls, commitTrash := true, true
		switch conf % 4 {
		case 1:
			commitPulls = false
		case 2:
			commitTrash = false
		case 3:
			if r.Bool() {
				commitPulls, commitTrash = false, false
			}
		}
		pageSize := 1 + r.Intn(4)
		ncollections := 1 + r.Intn(5)
		old := time.Now().Add(-30 * 24 * time.Hour).UnixNano() // far older than the signature TTL
		build := func() *c06SweepRT {
			rr := vCaseRand(seed, conf) // same layout for every run of this configuration
			rr.Intn(4)
			rr.Intn(2)
			rt := &c06SweepRT{t: t, nsrv: nsrv, ksPages: ksPages, failAt: -1, srvRO: make([]bool, nsrv)}
			num := 0
			// the service whose only mount is read-only and holds replicas (configurations 0, 3, 6, ...: always)
			roSrv := -1
			if conf%3 == 0 || rr.Chance(1, 3) {
				roSrv = 1 + rr.Intn(nsrv-1)
			}
			if conf%3 == 2 {
				roSrv = 1 // configurations 2, 5, 8, ...: its device id is blank, like the read-write mount of service 2
			}
			for i := 0; i < nsrv; i++ {
				nm := 1 + rr.Intn(2)
				if i == roSrv {
					nm = 1
				}
				// a read-only service: always in configurations 1, 4, 7, ... (the last service), now and then elsewhere
				rt.srvRO[i] = i != 0 && i != roSrv && (rr.Chance(1, 8) || (conf%3 == 1 && i == nsrv-1))
				var ms []c06Mount
				for j := 0; j < nm; j++ {
					num++
					dev := fmt.Sprintf("dev-%d-%d", i, j)
					if j == 1 && i <= 1 {
						dev = "dev-shared" // one (empty) device mounted on services 0 and 1: indexed once
					}
					m := c06Mount{uuid: fmt.Sprintf("zzzzz-nyw5e-%015d", num), dev: dev, num: num, repl: 1}
					switch {
					case i == roSrv:
						m.ro = true // not shadowed: its index counts
					case j == 1 && i == 1:
						m.ro = rr.Chance(1, 2) // read-only view of dev-shared, shadowed when service 0 mounts it read-write
					case i > 0 && j == 0 && rr.Chance(1, 6):
						m.ro = true
					case j == 0 && i > 1 && (rr.Chance(1, 6) || (conf%3 == 2 && i == 2)):
						m.dev = "" // blank device id (always on service 2 in configurations 2, 5, 8, ...)
					}
					// blank device ids also on read-only mounts: a blank id never identifies two mounts as one device
					if j == 0 && m.dev != "" && ((conf%3 == 2 && i == roSrv) || (i > 0 && rr.Chance(1, 8))) {
						m.dev = ""
					}
					switch rr.Intn(6) {
					case 0:
						m.repl = 0 // read as 1
					case 1:
						m.repl = 2
					}
					switch rr.Intn(5) {
					case 0:
						m.classes = map[string]bool{"default": true}
					case 1:
						m.classes = map[string]bool{"archive": true}
					}
					text := ""
					if j == 0 { // foo everywhere (over-replicated -> trash), bar on the first service only (-> pull)
						text += fmt.Sprintf("%s %d\n", foo, old+int64(num))
						if i == 0 {
							text += fmt.Sprintf("%s %d\n", bar, old)
						}
					}
					m.index = text + "\n"
					ms = append(ms, m)
				}
				rt.mounts = append(rt.mounts, ms)
			}
			sim := &c06Sim{table: map[int]int{}, failAt: -1, t: t, manifest: map[int]string{}}
			for u := 1; u <= ncollections; u++ {
				sim.table[u] = 1 + u/2
				sim.manifest[u] = fmt.Sprintf(". %s %s 0:3:foo 3:3:bar\n", foo, bar)
			}
			sim.clock = ncollections
			rt.coll = sim
			return rt
		}
		run := func(failAt int, cut bool, mode int) (*c06SweepRT, error) {
			rt := build()
			rt.failAt, rt.cutIndex, rt.failMode = failAt, cut, mode
			client := &arvados.Client{Client: &http.Client{Transport: rt}, Scheme: "http", APIHost: "api.example", AuthToken: "tok"}
			cluster := &arvados.Cluster{}
			cluster.Collections.BalanceTimeout = arvados.Duration(time.Hour) // no verdict depends on it
			cluster.Collections.BalanceCollectionBatch = pageSize
			cluster.Collections.BalanceCollectionBuffers = 2
			lg := c05Logger
			if os.Getenv("VERIF_DEBUG") != "" && failAt == -1 {
				lg = logrus.New()
			}
			bal := &Balancer{Logger: lg, Metrics: newMetrics(prometheus.NewRegistry())}
			_, err := bal.Run(client, cluster, RunOptions{CommitPulls: commitPulls, CommitTrash: commitTrash, Logger: c05Logger})
			return rt, err
		}
		base, err := run(-1, false, 0)
		if err != nil {
			t.Fatalf("baseline sweep failed: %v", err)
		}
		// configuration as the model sees it
		var svcs, indexed []string
		for i := 0; i < nsrv; i++ {
			svcs = append(svcs, fmt.Sprint(i))
		}
		ncollReq := 0
		for _, id := range base.reqLog {
			if strings.HasPrefix(id, "QIndex ") {
				indexed = append(indexed, strings.TrimPrefix(id, "QIndex "))
			}
			if strings.HasPrefix(id, "QCollections ") {
				ncollReq++
			}
		}
		plan := map[int][2]int{}
		for _, p := range base.puts {
			v := plan[p.srv]
			if p.kind == "pull" {
				v[1] = p.items
			} else if p.items > 0 {
				v[0] = p.items
			}
			plan[p.srv] = v
		}
		var planT []string
		for i := 0; i < nsrv; i++ {
			planT = append(planT, fmt.Sprintf("(%d, (%d, %d))", i, plan[i][0], plan[i][1]))
		}
		cfg := fmt.Sprintf("{| s_services := %s; s_ks_pages := %d; s_indexed := %s; s_coll_reqs := %d; s_clear := %v; s_commit_pulls := %v; s_commit_trash := %v; s_sane := true; s_plan := %s |}",
			gList(svcs), ksPages, gList(indexed), ncollReq, commitTrash, commitPulls, commitTrash, gList(planT))
		hasRO := false
		for _, ms := range base.mounts {
			for _, m := range ms {
				hasRO = hasRO || m.ro
			}
		}
		emit := func(rt *c06SweepRT, err error, failAt int, cut bool) {
			sort.Slice(rt.puts, func(i, j int) bool {
				a, b := rt.puts[i], rt.puts[j]
				if a.kind != b.kind {
					return a.kind < b.kind
				}
				if a.srv != b.srv {
					return a.srv < b.srv
				}
				return a.items < b.items
			})
			var puts []string
			nonEmpty := 0
			for _, p := range rt.puts {
				if p.kind == "trash" {
					puts = append(puts, fmt.Sprintf("PutTrash %d %d", p.srv, p.items))
				} else {
					puts = append(puts, fmt.Sprintf("PutPull %d %d", p.srv, p.items))
				}
				if p.items > 0 {
					nonEmpty++
				}
			}
			failed := "None"
			if rt.failedReq != "" {
				failed = "(Some (" + rt.failedReq + "))"
			}
			devNum := map[string]int{"": 0}
			var mts, oidx []string
			for i, ms := range rt.mounts {
				for _, m := range ms {
					if _, ok := devNum[m.dev]; !ok {
						devNum[m.dev] = len(devNum)
					}
					mts = append(mts, fmt.Sprintf("MM %d %d %d %v", m.num, i, devNum[m.dev], m.ro))
				}
			}
			sort.Ints(rt.idxReq)
			for _, x := range rt.idxReq {
				oidx = append(oidx, fmt.Sprint(x))
			}
			term := fmt.Sprintf("CSweep %s %s %s %s %s %v", cfg, gList(mts), failed, gList(oidx), gList(puts), err == nil)
			desc := map[string]interface{}{"index": idx, "configuration": conf, "services": nsrv, "commit_pulls": commitPulls, "commit_trash": commitTrash,
				"fail_request_number": failAt, "failed_request": rt.failedReq, "index_cut_short": cut, "failure_mode": rt.failMode, "requests": rt.nreq, "puts": fmt.Sprint(rt.puts), "run_returned_nil": err == nil}
			var md []string
			for i, ms := range rt.mounts {
				for _, m := range ms {
					md = append(md, fmt.Sprintf("mount %d on service %d: dev=%q ro=%v repl=%d classes=%v entries=%d", m.num, i, m.dev, m.ro, m.repl, m.classes, strings.Count(m.index, "\n")-1))
				}
			}
			desc["mounts"] = md
			desc["read_only_services"] = fmt.Sprint(rt.srvRO)
			tags := []string{fmt.Sprintf("commit=%v/%v", commitPulls, commitTrash)}
			if hasRO {
				tags = append(tags, "has-read-only-mount")
			}
			blankRO, blankRW := false, false
			for _, ms := range rt.mounts {
				for _, m := range ms {
					blankRO = blankRO || (m.dev == "" && m.ro)
					blankRW = blankRW || (m.dev == "" && !m.ro)
				}
			}
			if blankRO && blankRW {
				tags = append(tags, "blank-device-read-only-and-read-write")
			}
			if rt.failedReq != "" && strings.HasPrefix(rt.failedReq, "QIndex ") {
				for _, ms := range rt.mounts {
					for _, m := range ms {
						if fmt.Sprintf("QIndex %d", m.num) == rt.failedReq && m.ro {
							tags = append(tags, "failed-index-of-read-only-mount")
						}
					}
				}
			}
			if rt.failedReq != "" {
				tags = append(tags, fmt.Sprintf("failure-mode=%d", rt.failMode))
			}
			if rt.failedReq != "" {
				tags = append(tags, "failed:"+strings.Fields(rt.failedReq)[0])
			} else {
				tags = append(tags, "no-failure")
			}
			if nonEmpty > 0 {
				tags = append(tags, "nonempty-put-sent")
			}
			if only < 0 || only == idx {
				cs.Add(idx, term, desc, true, tags...)
			}
			idx++
		}
		emit(base, nil, -1, false)
		for k := 0; k < base.nreq; k++ {
			rt, err := run(k, false, 0)
			emit(rt, err, k, false)
			rm := vCaseRand(seed, conf*1000+k+500)
			rt1, err1 := run(k, false, 2+rm.Intn(4))
			emit(rt1, err1, k, false)
			if rt.failedReq != "" && !strings.HasPrefix(rt.failedReq, "QPull") && !strings.HasPrefix(rt.failedReq, "QTrash") && !strings.HasPrefix(rt.failedReq, "QClearTrash") {
				// every GET of a sweep is also answered once with status 200 and no body at all
				rt3, err3 := run(k, false, 6)
				emit(rt3, err3, k, false)
			}
			if rt.failedReq != "" && strings.HasPrefix(rt.failedReq, "QIndex") {
				rt2, err2 := run(k, true, 0)
				emit(rt2, err2, k, true)
			}
		}
	}
	cs.Write()
}
