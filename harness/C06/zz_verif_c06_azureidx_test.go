//go:build verif

package main

// C06 (c''): the real keepstore router ("GET /mounts/<uuid>/blocks") over a real AzureBlobVolume whose container
// client talks to a stub blob service (httptest): the stub lists the blobs two per page and answers the successive
// list requests for every page as scripted - 200, "503 ServerBusy" (retried by listBlobs up to ListBlobsMaxAttempts
// times) or 500.  The retry delay is a millisecond; no verdict depends on time.
// Observed: the response body.  One Gallina `CAzure` case per volume (model: coq/model/C06_azure.v).

import (
	"bytes"
	"context"
	"encoding/json"
	"encoding/xml"
	"fmt"
	"io/ioutil"
	"net/http"
	"net/http/httptest"
	"os"
	"sort"
	"strings"
	"sync"
	"testing"
	"time"

	"git.arvados.org/arvados.git/lib/config"
	"git.arvados.org/arvados.git/sdk/go/arvados"
	"git.arvados.org/arvados.git/sdk/go/ctxlog"
	"github.com/Azure/azure-sdk-for-go/storage"
	"github.com/prometheus/client_golang/prometheus"
	"github.com/sirupsen/logrus"
)

type c06azBlob struct {
	name    string
	size    int
	mtime   time.Time
	trashed bool
}

type c06azStub struct {
	sync.Mutex
	t      *testing.T
	blobs  []c06azBlob      // sorted by name
	script map[int][]string // page -> answers to the successive requests: "ok", "busy", "fail"
	seen   map[int]int
}

func (h *c06azStub) ServeHTTP(rw http.ResponseWriter, r *http.Request) {
	h.Lock()
	defer h.Unlock()
	r.ParseForm()
	if !(r.Method == "GET" && r.Form.Get("comp") == "list" && r.Form.Get("restype") == "container") {
		rw.WriteHeader(http.StatusNotImplemented)
		return
	}
	marker := r.Form.Get("marker")
	start := 0
	if marker != "" {
		start = -1
		for k, b := range h.blobs {
			if b.name == marker {
				start = k
			}
		}
		if start < 0 {
			h.t.Fatalf("unknown marker %q", marker)
		}
	}
	page := start / 2
	k := h.seen[page]
	h.seen[page]++
	ans := "ok"
	if k < len(h.script[page]) {
		ans = h.script[page][k]
	}
	switch ans {
	case "busy":
		rw.WriteHeader(http.StatusServiceUnavailable)
		return
	case "fail":
		rw.WriteHeader(http.StatusInternalServerError)
		return
	}
	resp := storage.BlobListResponse{Marker: marker, MaxResults: 2}
	for j := start; j < len(h.blobs); j++ {
		if len(resp.Blobs) == 2 {
			resp.NextMarker = h.blobs[j].name
			break
		}
		b := h.blobs[j]
		meta := map[string]string{}
		if b.trashed {
			meta["expires_at"] = "1700000000"
		}
		resp.Blobs = append(resp.Blobs, storage.Blob{Name: b.name, Properties: storage.BlobProperties{LastModified: storage.TimeRFC1123(b.mtime), ContentLength: int64(b.size)}, Metadata: storage.BlobMetadata(meta)})
	}
	buf, err := xml.Marshal(resp)
	if err != nil {
		h.t.Fatal(err)
	}
	rw.Write(buf)
}

var c05azLogger = func() *logrus.Logger {
	l := logrus.New()
	l.SetOutput(ioutil.Discard)
	return l
}()

var (
	c06azMtx  sync.Mutex
	c06azVols = map[int]*AzureBlobVolume{}
)

func init() {
	driver["verifazure"] = func(cluster *arvados.Cluster, volume arvados.Volume, logger logrus.FieldLogger, metrics *volumeMetricsVecs) (Volume, error) {
		var p struct{ K int }
		if err := json.Unmarshal(volume.DriverParameters, &p); err != nil {
			return nil, err
		}
		c06azMtx.Lock()
		v := c06azVols[p.K]
		c06azMtx.Unlock()
		v.cluster, v.volume, v.logger, v.metrics = cluster, volume, logger, metrics
		return v, v.check()
	}
}

func TestVerifC06AzureIndex(t *testing.T) {
	seed := vSeed()
	n := vEnvInt("VERIF_N", 40)
	only := vOnly()
	stage := os.Getenv("VERIF_STAGE")
	if stage == "" {
		stage = "c06azure"
	}
	cs := vNewCases(stage)
	for i := 0; i < n; i++ {
		if only >= 0 && i != only {
			continue
		}
		r := vCaseRand(seed, i)
		stub := &c06azStub{t: t, script: map[int][]string{}, seen: map[int]int{}}
		nblob := r.Intn(8)
		used := map[string]bool{}
		for k := 0; k < nblob; k++ {
			b := c06azBlob{name: c06azHex(r, 32), size: 1 + r.Intn(50), mtime: time.Unix(1500000000+int64(r.Intn(1<<20)), 0).UTC()}
			switch r.Intn(8) {
			case 0:
				b.name = "not-a-block-" + c06azHex(r, 4)
			case 1:
				b.trashed = true
			}
			if !used[b.name] {
				used[b.name] = true
				stub.blobs = append(stub.blobs, b)
			}
		}
		sort.Slice(stub.blobs, func(a, b int) bool { return stub.blobs[a].name < stub.blobs[b].name })
		npages := (len(stub.blobs) + 1) / 2
		if npages == 0 {
			npages = 1
		}
		maxAtt := 1 + r.Intn(3)
		anyLost := false
		for p := 0; p < npages; p++ {
			var sc []string
			switch x := r.Intn(10); {
			case x < 4:
				sc = []string{"ok"}
			case x < 6: // busy a few times, then fine (within or beyond the allowed attempts)
				for k := 0; k < 1+r.Intn(3); k++ {
					sc = append(sc, "busy")
				}
				sc = append(sc, "ok")
			case x < 8: // busy every time
				for k := 0; k < maxAtt+1; k++ {
					sc = append(sc, "busy")
				}
			case x < 9:
				sc = []string{"fail"}
			default:
				sc = []string{"busy", "fail"}
			}
			if i%3 == 0 && p == 0 && npages > 1 {
				sc = []string{"ok"} // the failing page often comes after pages that arrived
			}
			stub.script[p] = sc
		}
		srv := httptest.NewServer(stub)
		azClient, err := storage.NewClient(fakeAccountName, fakeAccountKey, strings.Split(srv.URL, "://")[1], storage.DefaultAPIVersion, false)
		if err != nil {
			t.Fatal(err)
		}
		azClient.Sender = &singleSender{}
		// "fakeaccountname.blob.127.0.0.1:port" is dialled as 127.0.0.1:port (the package's own stub dialer)
		azClient.HTTPClient = &http.Client{Transport: &http.Transport{Dial: (&azStubDialer{logger: c05azLogger}).Dial, DisableKeepAlives: true}}
		bs := azClient.GetBlobService()
		v := &AzureBlobVolume{ContainerName: "fakecontainername", WriteRaceInterval: arvados.Duration(time.Millisecond), WriteRacePollTime: arvados.Duration(time.Nanosecond),
			ListBlobsMaxAttempts: maxAtt, ListBlobsRetryDelay: arvados.Duration(time.Millisecond), azClient: azClient,
			container: &azureContainer{ctr: bs.GetContainerReference("fakecontainername")}}
		c06azMtx.Lock()
		c06azVols[i] = v
		c06azMtx.Unlock()

		ldr := config.NewLoader(bytes.NewBufferString("Clusters: {zzzzz: {}}"), ctxlog.TestLogger(t))
		ldr.Path = "-"
		cfg, err := ldr.Load()
		if err != nil {
			t.Fatal(err)
		}
		cluster, err := cfg.GetCluster("")
		if err != nil {
			t.Fatal(err)
		}
		cluster.SystemRootToken = "verif-system-root-token-0123456789"
		cluster.Collections.BlobSigning = false
		cluster.Services.Controller.ExternalURL = arvados.URL{Scheme: "http", Host: "controller.example"}
		uuid := fmt.Sprintf("zzzzz-nyw5e-%015d", i)
		cluster.Volumes = map[string]arvados.Volume{uuid: {Replication: 1, Driver: "verifazure", DriverParameters: json.RawMessage(fmt.Sprintf(`{"K":%d}`, i))}}
		h := &handler{}
		if err := h.setup(context.Background(), cluster, "", prometheus.NewRegistry(), testServiceURL); err != nil {
			t.Fatal(err)
		}
		resp := IssueRequest(h, &RequestTester{method: "GET", uri: "/mounts/" + uuid + "/blocks", apiToken: cluster.SystemRootToken})
		srv.Close()
		if resp.Code != 200 {
			t.Fatalf("GET /mounts/%s/blocks: %d", uuid, resp.Code)
		}
		body := resp.Body.String()

		var pages []string
		for p := 0; p < npages; p++ {
			var atts, es []string
			arrives := false
			for k, a := range stub.script[p] {
				atts = append(atts, map[string]string{"ok": "AOk", "busy": "ABusy", "fail": "AFail"}[a])
				if k < maxAtt && a == "ok" && !arrives {
					busyBefore := true
					for _, b := range stub.script[p][:k] {
						busyBefore = busyBefore && b == "busy"
					}
					arrives = busyBefore
				}
			}
			for k := p * 2; k < p*2+2 && k < len(stub.blobs); k++ {
				b := stub.blobs[k]
				if len(b.name) == 32 && strings.Trim(b.name, "0123456789abcdef") == "" && !b.trashed {
					es = append(es, fmt.Sprintf("(%s, %s)", gStr(fmt.Sprintf("%s+%d", b.name, b.size)), gStr(fmt.Sprint(b.mtime.UnixNano()))))
				}
			}
			if !arrives {
				anyLost = true
			}
			pages = append(pages, fmt.Sprintf("AP %s %s", gList(atts), gList(es)))
		}
		term := fmt.Sprintf("CAzure %d %s %s", maxAtt, gList(pages), gStr(body))
		desc := map[string]interface{}{"index": i, "blobs": len(stub.blobs), "pages": npages, "max_attempts": maxAtt, "script": fmt.Sprint(stub.script), "body": body,
			"a_page_does_not_arrive": anyLost, "ends_with_blank_line": strings.HasSuffix(body, "\n\n") || body == "\n"}
		cs.Add(i, term, desc, npages >= 2, fmt.Sprintf("a-page-does-not-arrive=%v", anyLost), fmt.Sprintf("max-attempts=%d", maxAtt))
	}
	cs.Write()
}

func c06azHex(r *vRand, n int) string {
	const d = "0123456789abcdef"
	b := make([]byte, n)
	for i := range b {
		b[i] = d[r.Intn(16)]
	}
	return string(b)
}
