//go:build verif

// C04 (I) harness: a schedule controller that drives a PUT-or-TOUCH request (thread A) and a DELETE
// request (thread B) on the same block through the interleavings enumerated by the Coq model
// (model/C04_race.v).  unix_volume.go is replaced (overlay) by the copy that tools/instrument produced
// from the working-tree file: every filesystem call is preceded by verifPoint(label), which parks the
// goroutine until the controller releases it.  A schedule "a3b3b1..." says who is released at each
// step and which threads must afterwards be at a yield point or finished (a cleared bit = the thread
// is expected to be blocked inside flock(2)).  No timing decides a verdict: a thread that fails to
// arrive within the watchdog, or arrives although it should be blocked, makes the case a
// correspondence failure (r_sync = false).
package main

import (
	"bytes"
	"crypto/md5"
	"encoding/json"
	"fmt"
	"io/ioutil"
	"os"
	"path/filepath"
	"strings"
	"sync/atomic"
	"testing"
	"time"
)

type c04iSched struct {
	Prior string `json:"prior"`
	Put   bool   `json:"put"`
	Rm    bool   `json:"rm"`
	Steps string `json:"steps"`
}

type c04iEvent struct {
	tid    int // 0 = A, 1 = B
	label  string
	resume chan struct{}
	done   bool
	code   int
}

func c04iTid(label string) int {
	if strings.HasPrefix(label, "Trash:") {
		return 1
	}
	return 0
}

func c04iStrip(label string) string {
	if i := strings.LastIndex(label, "#"); i >= 0 {
		return label[:i]
	}
	return label
}

type c04iRun struct {
	ev       chan c04iEvent
	parked   [2]*c04iEvent
	finished [2]bool
	code     [2]int
	sync     bool
	problems []string
	free     int32
}

func (c *c04iRun) note(ev c04iEvent) {
	if ev.done {
		c.finished[ev.tid] = true
		c.code[ev.tid] = ev.code
	} else {
		e := ev
		c.parked[ev.tid] = &e
	}
}

func (c *c04iRun) ready(tid int) bool { return c.finished[tid] || c.parked[tid] != nil }

// waitFor blocks until exactly the threads in mask are parked or finished.
func (c *c04iRun) waitFor(mask int, watchdog time.Duration) {
	deadline := time.After(watchdog)
	for {
		ok := true
		for tid := 0; tid < 2; tid++ {
			if mask&(1<<uint(tid)) != 0 && !c.ready(tid) {
				ok = false
			}
		}
		if ok {
			break
		}
		select {
		case ev := <-c.ev:
			if mask&(1<<uint(ev.tid)) == 0 {
				c.sync = false
				c.problems = append(c.problems, fmt.Sprintf("thread %d arrived at %q although the model has it blocked in flock", ev.tid, ev.label))
			}
			c.note(ev)
		case <-deadline:
			c.sync = false
			c.problems = append(c.problems, fmt.Sprintf("watchdog: expected mask %d, have parked/finished A=%v B=%v", mask, c.ready(0), c.ready(1)))
			return
		}
	}
	// a thread that must be blocked in the kernel: give it a moment to show up where it should not
	if mask != 3 {
		select {
		case ev := <-c.ev:
			if mask&(1<<uint(ev.tid)) == 0 {
				c.sync = false
				c.problems = append(c.problems, fmt.Sprintf("thread %d arrived at %q although the model has it blocked in flock", ev.tid, ev.label))
			}
			c.note(ev)
		case <-time.After(15 * time.Millisecond):
		}
	}
}

func TestVerifC04I(t *testing.T) {
	stage := os.Getenv("VERIF_STAGE")
	if stage == "" {
		stage = "c04i"
	}
	only := vOnly()
	var scheds []c04iSched
	buf, err := ioutil.ReadFile(os.Getenv("VERIF_C04I_SCHEDULES"))
	if err != nil {
		t.Fatal(err)
	}
	if err := json.Unmarshal(buf, &scheds); err != nil {
		t.Fatal(err)
	}
	cs := vNewCases(stage)
	good := []byte("c04 interleaving-level block\n")
	corrupt := []byte("c04 interleaving-level blocK\n")
	hash := fmt.Sprintf("%x", md5.Sum(good))
	envs := map[bool]*ksEnv{}
	defer func() {
		verifSetHook(nil)
		for _, e := range envs {
			e.cleanup()
		}
	}()
	for i, sc := range scheds {
		if only >= 0 && i != only {
			continue
		}
		env := envs[sc.Rm]
		if env == nil {
			life := 24 * time.Hour
			if sc.Rm {
				life = 0
			}
			env, err = ksNewEnv(ksOpts{ro: []bool{false}, ttl: 2 * time.Hour, lifetime: life, blobTrash: true})
			if err != nil {
				t.Fatal(err)
			}
			envs[sc.Rm] = env
		}
		bdir := filepath.Join(env.dirs[0], hash[:3])
		bpath := filepath.Join(bdir, hash)
		os.RemoveAll(bdir)
		os.MkdirAll(bdir, 0755)
		old := time.Now().Add(-10 * time.Hour)
		switch sc.Prior {
		case "POldGood":
			ioutil.WriteFile(bpath, good, 0644)
			os.Chtimes(bpath, old, old)
		case "POldCorrupt":
			ioutil.WriteFile(bpath, corrupt, 0644)
			os.Chtimes(bpath, old, old)
		case "PFreshGood":
			ioutil.WriteFile(bpath, good, 0644)
		}
		c := &c04iRun{ev: make(chan c04iEvent, 8), sync: true}
		verifSetHook(func(label string) {
			if atomic.LoadInt32(&c.free) != 0 {
				return
			}
			ch := make(chan struct{})
			c.ev <- c04iEvent{tid: c04iTid(label), label: label, resume: ch}
			<-ch
		})
		go func() {
			var code int
			if sc.Put {
				code = env.do("PUT", "/"+hash, bytes.NewReader(good), -1, false).Code
			} else {
				code = env.do("TOUCH", "/"+hash, nil, -1, true).Code
			}
			c.ev <- c04iEvent{tid: 0, done: true, code: code}
		}()
		go func() {
			code := env.do("DELETE", "/"+hash, nil, -1, true).Code
			c.ev <- c04iEvent{tid: 1, done: true, code: code}
		}()
		var executed []string
		var trace []string
		c.waitFor(3, 15*time.Second)
		steps := sc.Steps
		for k := 0; k+1 < len(steps) && c.sync; k += 2 {
			tid := int(steps[k] - 'a')
			mask := int(steps[k+1] - '0')
			p := c.parked[tid]
			if p == nil {
				c.sync = false
				c.problems = append(c.problems, fmt.Sprintf("step %d: thread %d is not at a yield point (finished=%v)", k/2, tid, c.finished[tid]))
				break
			}
			tn := "TA"
			if tid == 1 {
				tn = "TB"
			}
			executed = append(executed, fmt.Sprintf("(%s, %s)", tn, gStr(c04iStrip(p.label))))
			trace = append(trace, fmt.Sprintf("%s:%s", tn, c04iStrip(p.label)))
			c.parked[tid] = nil
			close(p.resume)
			c.waitFor(mask, 15*time.Second)
		}
		// the model says the run is over: nobody may be parked; both must finish
		if c.sync {
			deadline := time.After(15 * time.Second)
			for !(c.finished[0] && c.finished[1]) && c.sync {
				if c.parked[0] != nil || c.parked[1] != nil {
					c.sync = false
					c.problems = append(c.problems, "a thread reached another yield point after the model's schedule ended")
					break
				}
				select {
				case ev := <-c.ev:
					c.note(ev)
				case <-deadline:
					c.sync = false
					c.problems = append(c.problems, "watchdog: requests did not finish after the schedule")
				}
			}
		}
		// let everything run to completion
		atomic.StoreInt32(&c.free, 1)
		for tid := 0; tid < 2; tid++ {
			if c.parked[tid] != nil {
				close(c.parked[tid].resume)
				c.parked[tid] = nil
			}
		}
		drain := time.After(30 * time.Second)
		for !(c.finished[0] && c.finished[1]) {
			select {
			case ev := <-c.ev:
				if ev.done {
					c.note(ev)
				} else {
					close(ev.resume)
				}
			case <-drain:
				t.Fatalf("schedule %d (%+v): requests never finished: %v", i, sc, c.problems)
			}
		}
		verifSetHook(nil)
		// ---- observations ----
		class := func(p string) string {
			b, err := ioutil.ReadFile(p)
			fi, err2 := os.Stat(p)
			if err != nil || err2 != nil {
				return "(Corrupt, Old)"
			}
			cont, age := "Corrupt", "Old"
			if bytes.Equal(b, good) {
				cont = "Good"
			}
			if time.Since(fi.ModTime()) < time.Hour {
				age = "Fresh"
			}
			return "(" + cont + ", " + age + ")"
		}
		gpath := "None"
		var gtrash []string
		stray := 0
		files, _ := ioutil.ReadDir(bdir)
		for _, f := range files {
			switch {
			case f.Name() == hash:
				gpath = "(Some " + class(filepath.Join(bdir, f.Name())) + ")"
			case strings.HasPrefix(f.Name(), hash+".trash."):
				gtrash = append(gtrash, class(filepath.Join(bdir, f.Name())))
			default:
				stray++
			}
		}
		term := fmt.Sprintf("{| r_prior := %s; r_put := %s; r_rm := %s;\n   r_sched := %s;\n   r_sync := %s; r_a_ok := %s; r_b_ok := %s; r_path := %s; r_trash := %s; r_stray := %d |}",
			sc.Prior, gBool(sc.Put), gBool(sc.Rm), gList(executed), gBool(c.sync), gBool(c.code[0]/100 == 2), gBool(c.code[1] == 200),
			gpath, gList(gtrash), stray)
		a := "TOUCH"
		if sc.Put {
			a = "PUT"
		}
		desc := map[string]interface{}{"index": i, "prior": sc.Prior, "A": a, "lifetime0": sc.Rm, "schedule": sc.Steps, "executed": trace,
			"A_status": c.code[0], "DELETE_status": c.code[1], "block_file": gpath, "trash_files": gtrash, "sync_problems": c.problems}
		blocked := strings.ContainsAny(sc.Steps, "012")
		tags := []string{"A=" + a, "prior=" + sc.Prior, fmt.Sprintf("lifetime0=%v", sc.Rm), fmt.Sprintf("A=%dxx", c.code[0]/100), fmt.Sprintf("DELETE=%d", c.code[1])}
		if blocked {
			tags = append(tags, "flock-contention")
		}
		if !c.sync {
			tags = append(tags, "out-of-sync")
		}
		cs.Add(i, term, desc, sc.Prior != "PAbsent", tags...)
	}
	cs.Write()
}
