//go:build verif

// C04 (H) harness: random histories of PUT / TOUCH / GET / trash-list / DELETE / untrash / empty-trash
// through the real router (TrashItem and EmptyTrash are called directly, as the trash worker and the
// emptyTrash ticker do) on 1-2 Directory volumes.  Time passes by shifting every file time (mtimes and
// trash deadlines) backwards by whole seconds: virtual time = real time + offset.  TTL is 2 h and the
// generator keeps every age/deadline comparison at least 5 s away from its boundary, so real clock
// jitter cannot change an outcome.
//
// Which volumes the server may change is NOT taken from the server: the case carries the cluster
// configuration as written (Volumes.<uuid>.ReadOnly and AccessViaHosts entries for this server's URL
// and for another server's), the evaluator derives from it which volumes are writable for this
// server, and every configured volume's directory (also of volumes that only another server may
// use) is listed after every request.  Block files and trashed copies of various ages are planted
// in the directories before the history starts, so that read-only volumes have something to lose.
package main

import (
	"bytes"
	"crypto/md5"
	"fmt"
	"io/ioutil"
	"os"
	"path/filepath"
	"regexp"
	"sort"
	"strconv"
	"strings"
	"testing"
	"time"
)

var c04BlockRe = regexp.MustCompile(`^[0-9a-f]{32}$`)
var c04TrashRe = regexp.MustCompile(`^([0-9a-f]{32})\.trash\.(\d+)$`)

type c04Blk struct {
	hash  string
	mtime int64 // virtual ns
}
type c04Tr struct {
	hash  string
	dead  int64 // virtual s
	mtime int64
}
type c04Listing struct {
	blocks []c04Blk
	trash  []c04Tr
	extra  int
}

type c04World struct {
	env  *ksEnv
	dirs []string // every configured volume's directory, in case order: the server's mounts in mount order, then the volumes it does not mount
	off  int64    // seconds
}

func (w *c04World) vnow() int64 { return time.Now().UnixNano() + w.off*1e9 }

func (w *c04World) listing() []c04Listing {
	out := make([]c04Listing, len(w.dirs))
	for mi, dir := range w.dirs {
		var l c04Listing
		subs, _ := ioutil.ReadDir(dir)
		for _, sd := range subs {
			if !sd.IsDir() {
				l.extra++
				continue
			}
			files, _ := ioutil.ReadDir(filepath.Join(dir, sd.Name()))
			for _, f := range files {
				mt := f.ModTime().UnixNano() + w.off*1e9
				if c04BlockRe.MatchString(f.Name()) {
					l.blocks = append(l.blocks, c04Blk{f.Name(), mt})
				} else if m := c04TrashRe.FindStringSubmatch(f.Name()); m != nil {
					d, _ := strconv.ParseInt(m[2], 10, 64)
					l.trash = append(l.trash, c04Tr{m[1], d + w.off, mt})
				} else {
					l.extra++
				}
			}
		}
		sort.Slice(l.blocks, func(i, j int) bool { return l.blocks[i].hash < l.blocks[j].hash })
		sort.Slice(l.trash, func(i, j int) bool {
			if l.trash[i].hash != l.trash[j].hash {
				return l.trash[i].hash < l.trash[j].hash
			}
			return l.trash[i].dead < l.trash[j].dead
		})
		out[mi] = l
	}
	return out
}

// advance lets delta seconds pass: every mtime and every trash deadline moves back by delta.
func (w *c04World) advance(delta int64) {
	for _, dir := range w.dirs {
		subs, _ := ioutil.ReadDir(dir)
		for _, sd := range subs {
			if !sd.IsDir() {
				continue
			}
			files, _ := ioutil.ReadDir(filepath.Join(dir, sd.Name()))
			for _, f := range files {
				p := filepath.Join(dir, sd.Name(), f.Name())
				mt := f.ModTime().Add(-time.Duration(delta) * time.Second)
				if err := os.Chtimes(p, mt, mt); err != nil {
					panic(err)
				}
				if m := c04TrashRe.FindStringSubmatch(f.Name()); m != nil {
					d, _ := strconv.ParseInt(m[2], 10, 64)
					if err := os.Rename(p, filepath.Join(dir, sd.Name(), fmt.Sprintf("%s.trash.%d", m[1], d-delta))); err != nil {
						panic(err)
					}
				}
			}
		}
	}
	w.off += delta
}

// safe reports whether every comparison the implementation can make now is >= 5 s from its boundary.
func (w *c04World) safe(ttl int64) bool {
	now := w.vnow()
	for _, l := range w.listing() {
		for _, b := range l.blocks {
			d := now - b.mtime - ttl
			if d > -5e9 && d < 5e9 {
				return false
			}
		}
		for _, t := range l.trash {
			d := t.dead - now/1e9
			if d > -5 && d < 5 {
				return false
			}
		}
	}
	return true
}

// Coq parses a 19-digit decimal Z literal in ~4 ms but a hex one in ~0.6 ms, and a 32-character
// string in ~2 ms: times are printed in hex and block hashes as the short names a, b, c (the model
// uses a hash only as a key; the real hashes are in the JSON description).
func gT(v int64) string {
	if v < 0 {
		return fmt.Sprintf("(-0x%x)", -v)
	}
	return fmt.Sprintf("0x%x", v)
}

func gC04Listing(ls []c04Listing, names map[string]string) string {
	var vs []string
	for _, l := range ls {
		var bs, ts []string
		for _, b := range l.blocks {
			bs = append(bs, fmt.Sprintf("B %s %s", gStr(names[b.hash]), gT(b.mtime)))
		}
		for _, t := range l.trash {
			ts = append(ts, fmt.Sprintf("T %s %s %s", gStr(names[t.hash]), gT(t.dead), gT(t.mtime)))
		}
		vs = append(vs, "("+gList(bs)+", "+gList(ts)+")")
	}
	return gList(vs)
}

func descC04Listing(ls []c04Listing, names map[string]string) string {
	var vs []string
	for _, l := range ls {
		var xs []string
		for _, b := range l.blocks {
			xs = append(xs, names[b.hash])
		}
		for _, t := range l.trash {
			xs = append(xs, names[t.hash]+".trash")
		}
		vs = append(vs, "{"+strings.Join(xs, " ")+"}")
	}
	return strings.Join(vs, "")
}

func TestVerifC04H(t *testing.T) {
	seed := vSeed()
	n := vEnvInt("VERIF_N", 50)
	only := vOnly()
	stage := os.Getenv("VERIF_STAGE")
	if stage == "" {
		stage = "c04h"
	}
	cs := vNewCases(stage)
	for i := 0; i < n; i++ {
		if only >= 0 && i != only {
			continue
		}
		var term string
		var desc map[string]interface{}
		var tags []string
		var nontrivial bool
		for attempt := 0; attempt < 4; attempt++ {
			var fuzzy bool
			term, desc, tags, nontrivial, fuzzy = c04History(t, vCaseRand(seed, i), i)
			if !fuzzy {
				break
			}
			tags = append(tags, "retried-clock-fuzz")
		}
		cs.Add(i, term, desc, nontrivial, tags...)
	}
	cs.Write()
}

func c04History(t *testing.T, r *vRand, idx int) (string, map[string]interface{}, []string, bool, bool) {
	const ttlS = 7200
	ttl := int64(ttlS) * 1e9
	nvol := 1 + r.Intn(2)
	ro := make([]bool, nvol)
	if nvol == 2 {
		switch r.Intn(6) {
		case 0:
			ro[1] = true
		case 1:
			ro[0] = true
		case 2:
			if r.Chance(1, 3) {
				ro[0], ro[1] = true, true
			}
		}
	} else if r.Chance(1, 25) {
		ro[0] = true
	}
	// per-host access (Volumes.<uuid>.AccessViaHosts): 45 % of the cases.  Strata: a volume shared with
	// another server and read-only for one of them, entries without effect, a volume of the other server only
	var access []ksAccess
	var tags []string
	if r.Chance(9, 20) {
		access = make([]ksAccess, nvol)
		for k := range access {
			switch r.Intn(8) {
			case 0, 1, 2: // shared: read-only here, writable there
				access[k] = ksAccess{self: 2, other: 1}
			case 3: // read-only here, no other server
				access[k] = ksAccess{self: 2}
			case 4: // shared: writable here, read-only there
				access[k] = ksAccess{self: 1, other: 2}
			case 5:
				access[k] = ksAccess{self: 1, other: r.Intn(3)}
			case 6:
				access[k] = ksAccess{self: 2, other: 2}
			}
		}
		if nvol == 2 && access[0].self == 2 && access[1].self == 2 && r.Chance(2, 3) {
			access[r.Intn(2)] = ksAccess{self: 1, other: r.Intn(3)}
		}
		if nvol == 1 && access[0].self == 2 && r.Chance(3, 4) {
			// a lone volume that is read-only here leaves nothing to write to: mostly give it a writable companion
			nvol = 2
			ro = append(ro, false)
			access = append(access, ksAccess{self: r.Intn(2), other: 0})
			if access[1].self == 1 {
				access[1].other = r.Intn(3)
			}
		}
		if r.Chance(1, 3) {
			// one more configured volume, named for the other server only (any flags): not ours
			ro = append(ro, r.Chance(1, 4))
			access = append(access, ksAccess{other: 1 + r.Intn(2)})
			tags = append(tags, "cfg=foreign-volume")
		}
		tags = append(tags, "cfg=access-via-hosts")
	}
	blobTrash := !r.Chance(1, 8)
	lifeS := int64(86400)
	switch r.Intn(8) {
	case 0:
		lifeS = 0
	case 1:
		lifeS = 3600
	}
	env, err := ksNewEnv(ksOpts{ro: ro, access: access, ttl: time.Duration(ttl), lifetime: time.Duration(lifeS) * time.Second, blobTrash: blobTrash})
	if err != nil {
		t.Fatal(err)
	}
	defer env.cleanup()
	// the mounts as the server advertises them (GET /mounts), then the configured volumes it does not mount
	advU, advRO, err := env.advertised()
	if err != nil {
		t.Fatal(err)
	}
	var order []int // case order -> configuration index
	for _, u := range advU {
		for k, cu := range env.cfgUUIDs {
			if cu == u {
				order = append(order, k)
			}
		}
	}
	if len(order) != len(advU) {
		t.Fatalf("GET /mounts names an unknown mount: %v", advU)
	}
	for k := range env.cfgUUIDs {
		seen := false
		for _, o := range order {
			seen = seen || o == k
		}
		if !seen {
			order = append(order, k)
		}
	}
	w := &c04World{env: env}
	pos := make([]int, len(order)) // configuration index -> case order
	for ci, k := range order {
		w.dirs = append(w.dirs, env.cfgDirs[k])
		pos[k] = ci
	}
	nblk := 2 + r.Intn(2)
	var datas [][]byte
	var hashes []string
	names := map[string]string{}
	for k := 0; k < nblk; k++ {
		d := []byte(fmt.Sprintf("c04 block %d of case %d", k, idx))
		datas = append(datas, d)
		h := fmt.Sprintf("%x", md5.Sum(d))
		hashes = append(hashes, h)
		names[h] = string(rune('a' + k))
	}
	var steps, descs []string
	fuzzy := false
	sawTrashed, sawUntrash, sawEmptied, sawKept := false, false, false, false
	nops := 8 + r.Intn(33)
	// directed prefix (Untrash while a fresh copy is in place — finding F20, repaired in /repo fa470fa), 1 case in 12
	var script []string
	if r.Chance(1, 12) {
		script = []string{"PUT:0", fmt.Sprintf("ADV:%d", ttlS+37), "DELETE:0", "PUT:0", "UNTRASH:0"}
		if r.Bool() {
			script = append(script, "DELETE:0")
		} else {
			script = append(script, "TRASHMATCH:0")
		}
		tags = append(tags, "scripted-untrash-over-fresh")
	}
	advChoices := []int64{7, 67, 3607, ttlS - 17, ttlS + 17, ttlS + 3607}
	if lifeS > 0 {
		advChoices = append(advChoices, lifeS-ttlS-17, lifeS-17, lifeS+17, 2*lifeS+5)
	}
	// plant block files and trashed copies of various ages (more of them on volumes this server must
	// not change: they are what a wrong notion of "writable" would destroy)
	now0 := time.Now()
	plantedRO := false
	// (in configuration order, so that what is planted where does not depend on the mount order, which is
	// Go's map iteration order inside makeRRVolumeManager and differs from run to run)
	for k, dir := range env.cfgDirs {
		guarded := ro[k] || (access != nil && (access[k].self == 2 || (access[k].self == 0 && access[k].other != 0)))
		p := 3
		if guarded {
			p = 7
		}
		for bi := range hashes {
			if r.Chance(p, 10) {
				age := []int64{ttlS + 7200, ttlS + 90000, 1200, ttlS + 45, ttlS / 2}[r.Intn(5)]
				c04Plant(dir, hashes[bi], "", datas[bi], now0.Add(-time.Duration(age)*time.Second-time.Duration(r.Intn(1e9))))
				plantedRO = plantedRO || guarded
			}
			if r.Chance(p, 20) {
				dead := now0.Unix() + []int64{3600, -3600, 90000, 40}[r.Intn(4)]
				c04Plant(dir, hashes[bi], fmt.Sprintf(".trash.%d", dead), datas[bi], now0.Add(-time.Duration(ttlS+10000+int64(r.Intn(5000)))*time.Second-time.Duration(r.Intn(1e9))))
				plantedRO = plantedRO || guarded
			}
		}
	}
	if plantedRO {
		tags = append(tags, "planted-on-guarded-volume")
	}
	initial := w.listing()
	before := initial
	lastListing := gC04Listing(before, names)
	for len(steps) < nops || len(script) > 0 {
		var kind string
		bi := r.Intn(nblk)
		if len(script) > 0 {
			parts := strings.SplitN(script[0], ":", 2)
			script = script[1:]
			kind = parts[0]
			v, _ := strconv.Atoi(parts[1])
			if kind == "ADV" {
				w.advance(int64(v))
				descs = append(descs, fmt.Sprintf("advance %ds", v))
				continue
			}
			bi = v
		} else {
			switch x := r.Intn(100); {
			case x < 22:
				kind = "PUT"
			case x < 32:
				kind = "TOUCH"
			case x < 39:
				kind = "GET"
			case x < 55:
				kind = "TRASHLIST"
			case x < 70:
				kind = "DELETE"
			case x < 80:
				kind = "UNTRASH"
			case x < 88:
				kind = "EMPTY"
			default:
				d := advChoices[r.Intn(len(advChoices))]
				if d > 0 {
					w.advance(d)
					descs = append(descs, fmt.Sprintf("advance %ds", d))
					tags = append(tags, "op=advance")
				}
				continue
			}
		}
		for k := 0; k < 20 && !w.safe(ttl); k++ {
			w.advance(11)
			descs = append(descs, "advance 11s (margin)")
		}
		before = w.listing()
		h := hashes[bi]
		var gop string
		var code int
		lo := w.vnow()
		switch kind {
		case "PUT":
			code = env.do("PUT", "/"+h, bytes.NewReader(datas[bi]), -1, false).Code
			gop = "Put " + gStr(names[h])
		case "TOUCH":
			code = env.do("TOUCH", "/"+h, nil, -1, true).Code
			gop = "Touch " + gStr(names[h])
		case "GET":
			code = env.do("GET", "/"+h, nil, -1, false).Code
			gop = "Get " + gStr(names[h])
		case "DELETE":
			code = env.do("DELETE", "/"+h, nil, -1, true).Code
			gop = "Delete " + gStr(names[h])
		case "UNTRASH":
			code = env.do("PUT", "/untrash/"+h, nil, -1, true).Code
			gop = "Untrash " + gStr(names[h])
			sawUntrash = true
		case "EMPTY":
			for _, m := range env.h.volmgr.writables {
				m.EmptyTrash()
			}
			code = 200
			gop = "EmptyTrash"
		case "TRASHLIST", "TRASHMATCH":
			nit := 1 + r.Intn(3)
			if kind == "TRASHMATCH" {
				nit = 1
			}
			var items []string
			for k := 0; k < nit; k++ {
				ih := h
				if k > 0 {
					ih = hashes[r.Intn(nblk)]
				}
				// mtime: that of a stored copy (any volume), or off by 1 ns, or far away
				var cands []int64
				var candVol []int
				for k := range env.cfgDirs { // configuration order, see the planting
					vi := pos[k]
					for _, b := range before[vi].blocks {
						if b.hash == ih {
							cands = append(cands, b.mtime)
							candVol = append(candVol, vi)
						}
					}
				}
				var m int64
				from := -1 // the volume (case order) whose copy's timestamp the item names
				switch x := r.Intn(10); {
				case kind == "TRASHMATCH" && len(cands) > 0:
					m, from = cands[0], candVol[0]
				case x < 7 && len(cands) > 0:
					k := r.Intn(len(cands))
					m, from = cands[k], candVol[k]
				case x < 8 && len(cands) > 0:
					m = cands[r.Intn(len(cands))] + int64(1-2*r.Intn(2))
				case x < 9:
					m = lo - ttl - 3600e9 - int64(r.Intn(1000))
				default:
					m = lo - int64(r.Intn(3000))*1e9
				}
				mount := ""
				if r.Chance(2, 5) {
					switch x := r.Intn(6); {
					case x == 0:
						mount = "zzzzz-nyw5e-999999999999999"
					case x < 4 && from >= 0:
						mount = env.cfgUUIDs[order[from]] // the very volume that holds that copy
					default:
						mount = env.cfgUUIDs[r.Intn(len(env.cfgUUIDs))]
					}
				}
				TrashItem(env.h.volmgr, env.quiet, env.cluster, TrashRequest{Locator: ih, BlockMtime: m - w.off*1e9, MountUUID: mount})
				items = append(items, fmt.Sprintf("It %s %s %s", gStr(names[ih]), gT(m), gStr(mount)))
			}
			code = 200
			gop = "TrashList " + gList(items)
			kind = "TRASHLIST"
		}
		hi := w.vnow()
		after := w.listing()
		// ---- which clock value did the implementation read? ----
		now := lo
		switch kind {
		case "PUT", "TOUCH":
			if code == 200 {
				for _, l := range after {
					for _, b := range l.blocks {
						if b.hash == h && b.mtime >= lo && b.mtime <= hi {
							now = b.mtime
						}
					}
				}
			}
		case "DELETE", "TRASHLIST":
			var newDead []int64
			for vi, l := range after {
				for _, tr := range l.trash {
					isNew := true
					for _, o := range before[vi].trash {
						if o.hash == tr.hash && o.dead == tr.dead && o.mtime == tr.mtime {
							isNew = false
						}
					}
					if isNew {
						newDead = append(newDead, tr.dead)
						sawTrashed = true
					}
				}
			}
			for _, d := range newDead {
				if d != newDead[0] {
					fuzzy = true
				}
			}
			if len(newDead) > 0 && (lo+lifeS*1e9)/1e9 != newDead[0] {
				cand := newDead[0]*1e9 - lifeS*1e9
				if cand > lo && cand <= hi {
					now = cand
				}
			}
		case "EMPTY":
			for vi, l := range before {
				if len(after[vi].trash) < len(l.trash) {
					sawEmptied = true
				}
				if len(after[vi].trash) > 0 {
					sawKept = true
				}
			}
		}
		extra := 0
		for _, l := range after {
			extra += l.extra
		}
		if extra > 0 {
			tags = append(tags, "stray-files")
		}
		gafter := gC04Listing(after, names)
		gopt := "(Some " + gafter + ")"
		if gafter == lastListing {
			gopt = "None"
		}
		lastListing = gafter
		steps = append(steps, fmt.Sprintf("(Sr %s %d %d (%s) %d %s)", gT(lo), now-lo, hi-lo, gop, code, gopt))
		descs = append(descs, fmt.Sprintf("%s %s -> %d %s", kind, names[h], code, descC04Listing(after, names)))
		tags = append(tags, "op="+kind, fmt.Sprintf("%s=%dxx", kind, code/100))
		before = after
	}
	// the configuration as written, in case order; the mounts as advertised
	var gconf, gadv, dconf []string
	mix := ""
	for ci, k := range order {
		d := fmt.Sprintf("%s ReadOnly=%v", env.cfgUUIDs[k], env.cfgRO[k])
		if a := env.access[k]; a.self != 0 || a.other != 0 {
			d += " AccessViaHosts{"
			if a.self != 0 {
				d += fmt.Sprintf("this server: ReadOnly=%v ", a.self == 2)
			}
			if a.other != 0 {
				d += fmt.Sprintf("another server: ReadOnly=%v", a.other == 2)
			}
			d = strings.TrimSpace(d) + "}"
		}
		if ci < len(advU) {
			d += fmt.Sprintf("; GET /mounts: read_only=%v", advRO[ci])
		} else {
			d += "; not in GET /mounts"
		}
		dconf = append(dconf, d)
		var via []string
		if a := env.access[k]; a.self != 0 {
			via = append(via, fmt.Sprintf("(%s, %s)", gStr("me"), gBool(a.self == 2)))
		}
		if a := env.access[k]; a.other != 0 {
			via = append(via, fmt.Sprintf("(%s, %s)", gStr("other"), gBool(a.other == 2)))
		}
		if r.Bool() && len(via) == 2 { // AccessViaHosts is a map: the order of its entries means nothing
			via[0], via[1] = via[1], via[0]
		}
		gconf = append(gconf, fmt.Sprintf("CV %s %s %s", gStr(env.cfgUUIDs[k]), gBool(env.cfgRO[k]), gList(via)))
		c := "W"
		if env.cfgRO[k] {
			c = "R"
		}
		c += []string{"", "w", "r"}[env.access[k].self]
		if env.access[k].other != 0 {
			c += "+" + []string{"", "w", "r"}[env.access[k].other]
		}
		if ci >= len(advU) {
			c = "(" + c + ")"
		}
		mix += c + " "
	}
	mix = strings.TrimSpace(mix)
	for i, u := range advU {
		gadv = append(gadv, fmt.Sprintf("(%s, %s)", gStr(u), gBool(advRO[i])))
	}
	ginit := gC04Listing(initial, names)
	term := fmt.Sprintf("HC %s %s %s\n   {| ttl := %d; life := %d; blob_trash := %s |}\n   %s\n   (expand %s [\n    %s])",
		gStr("me"), gList(gconf), gList(gadv), ttl, lifeS*1e9, gBool(blobTrash), ginit, ginit, strings.Join(steps, ";\n    "))
	desc := map[string]interface{}{"index": idx, "volumes": mix, "configuration": dconf, "planted": descC04Listing(initial, names), "hashes": names, "blob_trash": blobTrash, "lifetime_s": lifeS, "ttl_s": ttlS, "history": descs}
	tags = append(tags, "vols="+mix, fmt.Sprintf("lifetime=%d", lifeS), fmt.Sprintf("blob_trash=%v", blobTrash))
	if sawTrashed {
		tags = append(tags, "saw=trashed")
	}
	if sawEmptied {
		tags = append(tags, "saw=emptied")
	}
	if sawKept {
		tags = append(tags, "saw=kept-unexpired")
	}
	nontrivial := sawTrashed || sawUntrash
	return term, desc, tags, nontrivial, fuzzy
}

// c04Plant puts a file <dir>/<hash[:3]>/<hash><suffix> with the given content and timestamp in place.
func c04Plant(dir, hash, suffix string, data []byte, mt time.Time) {
	sub := filepath.Join(dir, hash[:3])
	if err := os.MkdirAll(sub, 0755); err != nil {
		panic(err)
	}
	p := filepath.Join(sub, hash+suffix)
	if err := ioutil.WriteFile(p, data, 0644); err != nil {
		panic(err)
	}
	if err := os.Chtimes(p, mt, mt); err != nil {
		panic(err)
	}
}
