//go:build verif

// C04 (D) harness — delayed writes: how old is the timestamp of a block at the moment it is acknowledged?
//
// One PUT or TOUCH request runs alone on the instrumented unix_volume.go (tools/instrument), in which
// time.Now()/time.Since() are replaced by verifNow() = real clock + an offset owned by the harness.  At the
// yield points chosen by the case (every filesystem call, every write of the copy loop, and the
// verifAux points before v.lock = waiting for the Serialize mutex) the offset jumps forward by minutes or
// hours: the request "was parked there for that long".  No goroutine is actually delayed and nothing is
// timed: the jump happens inside the hook, on the request's own goroutine, which also notes the clock when
// it arrives at a yield point and when it goes on (so every clock value the request reads in between is
// bracketed exactly).  After the acknowledgement E more time passes, a DELETE is sent, and the volume is
// inspected: an acknowledged block must still be there if less than TTL has passed since the request left
// its last yield point before the commit phase.  The label sequence of every scenario (with the commit
// phase marked) comes from the Coq model (VERIF_C04D_LABELS), which also replays every executed case.
package main

import (
	"bytes"
	"crypto/md5"
	"encoding/json"
	"fmt"
	"io/ioutil"
	"os"
	"path/filepath"
	"strings"
	"sync"
	"testing"
	"time"
)

type c04dStep struct {
	label    string
	rel, arr int64
	jump     time.Duration
}

func c04dT(v int64) string {
	if v < 0 {
		return fmt.Sprintf("(-0x%x)", -v)
	}
	return fmt.Sprintf("0x%x", v)
}

func TestVerifC04D(t *testing.T) {
	seed := vSeed()
	n := vEnvInt("VERIF_N", 40)
	only := vOnly()
	stage := os.Getenv("VERIF_STAGE")
	if stage == "" {
		stage = "c04d"
	}
	var labels map[string][]string
	buf, err := ioutil.ReadFile(os.Getenv("VERIF_C04D_LABELS"))
	if err != nil {
		t.Fatal(err)
	}
	if err := json.Unmarshal(buf, &labels); err != nil {
		t.Fatal(err)
	}
	cs := vNewCases(stage)
	good := []byte("c04 delayed-write level block\n")
	corrupt := []byte("c04 delayed-write level blocK\n")
	hash := fmt.Sprintf("%x", md5.Sum(good))
	const ttl = 2 * time.Hour
	type envKey struct{ rm, ser bool }
	envs := map[envKey]*ksEnv{}
	defer func() {
		verifSetHook(nil)
		verifSetAuxHook(nil)
		for _, e := range envs {
			e.cleanup()
		}
	}()
	priors := []string{"PAbsent", "POldGood", "POldCorrupt", "PFreshGood"}
	for i := 0; i < n; i++ {
		if only >= 0 && i != only {
			continue
		}
		r := vCaseRand(seed, i)
		prior := priors[r.Intn(4)]
		put := r.Chance(2, 3)
		if prior == "PAbsent" && !put && r.Chance(3, 4) {
			put = true // TOUCH of an absent block only answers 404
		}
		rm := r.Chance(1, 4)
		ser := r.Bool()
		key := fmt.Sprintf("%s/%v", prior, put)
		L := labels[key]
		if L == nil {
			t.Fatalf("no label list for scenario %s", key)
		}
		var pre, com, lockish []int
		for k, l := range L {
			switch {
			case strings.HasPrefix(l, "!"):
				com = append(com, k)
			default:
				pre = append(pre, k)
				if strings.HasSuffix(l, ":v.lock") || strings.Contains(l, "write:") || strings.HasSuffix(l, ".Close") {
					lockish = append(lockish, k)
				}
			}
		}
		// ---- plan: clock jump before the k-th yield point is left ----
		plan := make([]time.Duration, len(L)+4)
		big := []time.Duration{40 * time.Minute, 90 * time.Minute, 3 * time.Hour}
		var shape string
		switch x := r.Intn(10); {
		case x < 2:
			shape = "no-delay"
		case x < 7:
			shape = "one-delay-before-commit"
			ix := pre[r.Intn(len(pre))]
			if len(lockish) > 0 && r.Chance(2, 3) {
				ix = lockish[r.Intn(len(lockish))]
			}
			plan[ix] = big[r.Intn(3)]
		case x < 8 && len(com) > 0:
			shape = "one-delay-in-commit"
			plan[com[r.Intn(len(com))]] = big[r.Intn(2)]
		default:
			shape = "mixed-delays"
			for k := range L {
				if r.Chance(1, 4) {
					plan[k] = []time.Duration{10 * time.Minute, 50 * time.Minute, 150 * time.Minute}[r.Intn(3)]
				}
			}
		}
		var commitDelay time.Duration
		for _, k := range com {
			commitDelay += plan[k]
		}
		// time between the acknowledgement and the DELETE, relative to the end of the protection
		boundary := ttl - commitDelay
		var E time.Duration
		var eshape string
		switch x := r.Intn(10); {
		case x < 3:
			E, eshape = 0, "delete-at-once"
		case x < 7 && boundary > 15*time.Minute:
			E, eshape = boundary-15*time.Minute, "delete-15min-before-expiry"
		case x < 7:
			E, eshape = 0, "delete-at-once"
		default:
			E, eshape = boundary+15*time.Minute, "delete-15min-after-expiry"
			if E < 0 {
				E = 0
			}
		}
		// ---- volume ----
		ek := envKey{rm, ser}
		env := envs[ek]
		if env == nil {
			life := 24 * time.Hour
			if rm {
				life = 0
			}
			env, err = ksNewEnv(ksOpts{ro: []bool{false}, ttl: ttl, lifetime: life, blobTrash: true, serialize: ser})
			if err != nil {
				t.Fatal(err)
			}
			envs[ek] = env
		}
		bdir := filepath.Join(env.dirs[0], hash[:3])
		bpath := filepath.Join(bdir, hash)
		os.RemoveAll(bdir)
		os.MkdirAll(bdir, 0755)
		t0 := verifNow()
		rel := func(x time.Time) int64 { return x.Sub(t0).Nanoseconds() }
		var m0 int64
		plant := func(data []byte, ts time.Time) {
			ioutil.WriteFile(bpath, data, 0644)
			os.Chtimes(bpath, ts, ts)
			fi, _ := os.Stat(bpath)
			m0 = rel(fi.ModTime())
		}
		switch prior {
		case "POldGood":
			plant(good, t0.Add(-10*time.Hour))
		case "POldCorrupt":
			plant(corrupt, t0.Add(-10*time.Hour))
		case "PFreshGood":
			plant(good, t0)
		}
		// ---- request A ----
		var mu sync.Mutex
		var steps []c04dStep
		hook := func(label string) {
			mu.Lock()
			defer mu.Unlock()
			now := rel(verifNow())
			k := len(steps)
			if k > 0 {
				steps[k-1].arr = now
			}
			var d time.Duration
			if k < len(plan) {
				d = plan[k]
			}
			if d > 0 {
				verifAdvanceClock(d)
			}
			if j := strings.LastIndex(label, "#"); j >= 0 {
				label = label[:j]
			}
			steps = append(steps, c04dStep{label: label, rel: rel(verifNow()), jump: d})
		}
		verifSetHook(hook)
		verifSetAuxHook(hook)
		var codeA int
		if put {
			codeA = env.do("PUT", "/"+hash, bytes.NewReader(good), -1, false).Code
		} else {
			codeA = env.do("TOUCH", "/"+hash, nil, -1, true).Code
		}
		verifSetHook(nil)
		verifSetAuxHook(nil)
		ack := rel(verifNow())
		mu.Lock()
		if len(steps) > 0 {
			steps[len(steps)-1].arr = ack
		}
		mu.Unlock()
		gm := "None"
		var stored int64
		if fi, err := os.Stat(bpath); err == nil {
			stored = rel(fi.ModTime())
			gm = "(Some " + c04dT(stored) + ")"
		}
		// ---- time passes, DELETE ----
		verifAdvanceClock(E)
		uLo := rel(verifNow())
		codeB := env.do("DELETE", "/"+hash, nil, -1, true).Code
		uHi := rel(verifNow())
		present := false
		ntrash, stray := 0, 0
		files, _ := ioutil.ReadDir(bdir)
		var names []string
		for _, f := range files {
			names = append(names, f.Name())
			switch {
			case f.Name() == hash:
				present = true
			case strings.HasPrefix(f.Name(), hash+".trash."):
				ntrash++
			default:
				stray++
			}
		}
		codeG := env.do("GET", "/"+hash, nil, -1, false).Code
		// ---- emit ----
		var gs, trace []string
		for _, s := range steps {
			gs = append(gs, fmt.Sprintf("(%s, %s, %s)", gStr(s.label), c04dT(s.rel), c04dT(s.arr)))
			if s.jump > 0 {
				trace = append(trace, fmt.Sprintf("%s  <- clock +%v while parked here", s.label, s.jump))
			} else {
				trace = append(trace, s.label)
			}
		}
		term := fmt.Sprintf("{| d_prior := %s; d_put := %s; d_rm := %s; d_ttl := %s; d_m0 := %s;\n   d_steps := %s;\n   d_a_ok := %s; d_mtime := %s; d_u_lo := %s; d_u_hi := %s; d_b_ok := %s; d_present := %s; d_get_ok := %s; d_ntrash := %s; d_stray := %s |}",
			prior, gBool(put), gBool(rm), c04dT(int64(ttl)), c04dT(m0), gList(gs),
			gBool(codeA/100 == 2), gm, c04dT(uLo), c04dT(uHi), gBool(codeB == 200), gBool(present), gBool(codeG == 200),
			gN(int64(ntrash)), gN(int64(stray)))
		a := "TOUCH"
		if put {
			a = "PUT"
		}
		desc := map[string]interface{}{"index": i, "prior": prior, "A": a, "lifetime0": rm, "serialize": ser, "ttl": ttl.String(),
			"yield_points": trace, "A_status": codeA,
			"stored_timestamp_before_ack": time.Duration(ack - stored).String(),
			"delete_after_ack": E.String(), "DELETE_status": codeB, "GET_status": codeG, "directory": names}
		tags := []string{"A=" + a, "prior=" + prior, fmt.Sprintf("lifetime0=%v", rm), fmt.Sprintf("serialize=%v", ser),
			"delays=" + shape, eshape, fmt.Sprintf("A=%dxx", codeA/100), fmt.Sprintf("GET=%d", codeG)}
		cs.Add(i, term, desc, shape != "no-delay" && codeA/100 == 2, tags...)
	}
	cs.Write()
}
