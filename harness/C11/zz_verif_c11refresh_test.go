//go:build verif

// C11, stage c11refresh: a Put that starts in the window between RefreshServiceDiscovery() and the API's answer.
// The KeepClient uses API-server discovery (discoverServices -> per-host cache + poller); the API is a RoundTripper
// stub (no sockets).  After the client has loaded list L0 the stub is told to WITHHOLD its next answer (list L1:
// some services turned read-only, removed or replaced), the refresh is requested, and once the poller's request is
// parked in the stub a Put is started in another goroutine.  The harness waits until that Put is either observed
// waiting inside discoverServices or has (wrongly) sent a request or returned, then releases the API answer.
// Observation: the base URLs of the Put's requests.  No verdict depends on time.
package keepclient

import (
	"crypto/md5"
	"fmt"
	"io/ioutil"
	"net/http"
	"os"
	"runtime"
	"strings"
	"sync"
	"testing"
	"time"

	"git.arvados.org/arvados.git/sdk/go/arvadosclient"
)

type c11fAPI struct {
	mtx    sync.Mutex
	body   string
	hold   chan struct{}
	parked int
}

func (a *c11fAPI) RoundTrip(req *http.Request) (*http.Response, error) {
	a.mtx.Lock()
	b, h := a.body, a.hold
	if h != nil {
		a.parked++
	}
	a.mtx.Unlock()
	if h != nil {
		<-h
	}
	code := 200
	if !strings.HasSuffix(req.URL.Path, "/keep_services/accessible") {
		code, b = 404, "{}"
	}
	return &http.Response{StatusCode: code, Status: fmt.Sprint(code), Header: http.Header{"Content-Type": {"application/json"}},
		Body: ioutil.NopCloser(strings.NewReader(b)), Request: req}, nil
}

var c11fAPIStub = &c11fAPI{}
var c11fArv = &arvadosclient.ArvadosClient{ApiServer: "verif-c11-api.invalid", ApiToken: "tok", Client: &http.Client{Transport: c11fAPIStub}}

type c11fKeep struct {
	mtx   sync.Mutex
	hosts []string
}

func (k *c11fKeep) Do(req *http.Request) (*http.Response, error) {
	var n int
	if req.Body != nil {
		b, _ := ioutil.ReadAll(req.Body)
		req.Body.Close()
		n = len(b)
	}
	k.mtx.Lock()
	k.hosts = append(k.hosts, req.URL.Scheme+"://"+req.URL.Host)
	k.mtx.Unlock()
	hdr := http.Header{}
	hdr.Set(XKeepReplicasStored, "1")
	body := fmt.Sprintf("%s+%d\n", strings.TrimPrefix(req.URL.Path, "/"), n)
	return &http.Response{StatusCode: 200, Status: "200 OK", Header: hdr, ContentLength: int64(len(body)),
		Body: ioutil.NopCloser(strings.NewReader(body)), Request: req}, nil
}

func (k *c11fKeep) count() int {
	k.mtx.Lock()
	defer k.mtx.Unlock()
	return len(k.hosts)
}

// goroutines currently inside (*KeepClient).discoverServices
func c11fInDiscover() int {
	buf := make([]byte, 1<<20)
	n := runtime.Stack(buf, true)
	cnt := 0
	for _, g := range strings.Split(string(buf[:n]), "\n\n") {
		if strings.Contains(g, "(*KeepClient).discoverServices(") {
			cnt++
		}
	}
	return cnt
}

// c11fWait polls cond; the margin (one minute, the one discoverServices itself uses) only bounds a broken tree
func c11fWait(cond func() bool) bool {
	return c11WaitUntil(time.Minute, cond)
}

func c11fRefresh(kc *KeepClient) bool {
	done := make(chan struct{})
	go func() { kc.RefreshServiceDiscovery(); close(done) }()
	return c11fWait(func() bool {
		select {
		case <-done:
			return true
		default:
			return false
		}
	})
}

func TestVerifC11Refresh(t *testing.T) {
	seed := vSeed()
	n := vEnvInt("VERIF_N", 60)
	only := vOnly()
	stage := os.Getenv("VERIF_STAGE")
	if stage == "" {
		stage = "c11refresh"
	}
	cs := vNewCases(stage)
	broken := 0
	for i := 0; i < n; i++ {
		if only >= 0 && i != only {
			continue
		}
		r := vCaseRand(seed, i)
		nsvc := 1 + r.Intn(3)
		var l0 []c11Svc
		for k := 0; k < nsvc; k++ {
			l0 = append(l0, c11Svc{uuid: c11UUID(r), host: fmt.Sprintf("c%ds%d", i, k), port: 25107, typ: "disk"})
		}
		data := []byte(fmt.Sprintf("refresh-%d-%d", seed, i))
		hash := fmt.Sprintf("%x", md5.Sum(data))
		// probe order under L0 (all writable): the refreshed list changes the services a Put would try first
		roots0 := map[string]string{}
		for _, s := range l0 {
			roots0[s.uuid] = s.url()
		}
		order0 := NewRootSorter(roots0, hash).GetSortedRoots()
		first := 0
		for k, s := range l0 {
			if s.url() == order0[0] {
				first = k
			}
		}
		l1 := append([]c11Svc(nil), l0...)
		kind := r.Pick("first-becomes-read-only", "first-becomes-read-only", "all-read-only", "some-read-only", "first-removed", "replaced", "unchanged", "first-moved")
		switch kind {
		case "first-becomes-read-only":
			l1[first].ro = true
		case "all-read-only":
			for k := range l1 {
				l1[k].ro = true
			}
		case "some-read-only":
			for k := range l1 {
				l1[k].ro = r.Bool()
			}
		case "first-removed":
			if len(l1) > 1 {
				l1 = append(l1[:first:first], l1[first+1:]...)
			} else {
				l1[first].ro = true
			}
		case "replaced":
			l1 = nil
			for k := 0; k < 1+r.Intn(2); k++ {
				l1 = append(l1, c11Svc{uuid: c11UUID(r), host: fmt.Sprintf("c%dn%d", i, k), port: 25107, typ: "disk"})
			}
		case "first-moved":
			l1[first].host = fmt.Sprintf("c%dm", i)
		}
		want := 1 + r.Intn(2)
		tags := []string{"refreshed-list=" + kind, fmt.Sprintf("services=%d", nsvc), fmt.Sprintf("want=%d", want)}
		keep := &c11fKeep{}
		kc := &KeepClient{Arvados: c11fArv, Want_replicas: want, Retries: 0, HTTPClient: keep, BlockCache: &BlockCache{}}
		note := ""
		api := c11fAPIStub
		// 1. the client holds L0 (answered at once)
		api.mtx.Lock()
		api.body, api.hold, api.parked = c11JSON(l0), nil, 0
		api.mtx.Unlock()
		if broken < 2 {
			if !c11fRefresh(kc) {
				note = "RefreshServiceDiscovery did not return (before L0)"
			} else if err := kc.discoverServices(); err != nil {
				note = "discoverServices (L0): " + err.Error()
			}
		}
		skipped := broken >= 2 // two concrete failing inputs are enough; every further one would cost the one-minute margin
		early, waiting := false, false
		var contacted []string
		if note == "" && !skipped {
			// 2. L1 is what the API will answer, but not yet; ask for the refresh and wait for the poller's request
			hold := make(chan struct{})
			api.mtx.Lock()
			api.body, api.hold, api.parked = c11JSON(l1), hold, 0
			api.mtx.Unlock()
			if !c11fRefresh(kc) {
				note = "RefreshServiceDiscovery did not return"
			} else if !c11fWait(func() bool { api.mtx.Lock(); defer api.mtx.Unlock(); return api.parked > 0 }) {
				note = "no keep_services request reached the API after RefreshServiceDiscovery"
			}
			// 3. a Put starts now, before the API has answered
			done := make(chan struct{})
			go func() { kc.PutB(data); close(done) }()
			finished := func() bool {
				select {
				case <-done:
					return true
				default:
					return false
				}
			}
			c11fWait(func() bool { return keep.count() > 0 || finished() || c11fInDiscover() > 0 })
			early = keep.count() > 0 || finished()
			waiting = !early && c11fInDiscover() > 0
			// 4. the API answers
			api.mtx.Lock()
			api.hold = nil
			api.mtx.Unlock()
			close(hold)
			if !c11fWait(finished) {
				note = "Put did not return after the API answered"
				kc.disableDiscovery = true
			}
			keep.mtx.Lock()
			contacted = append([]string(nil), keep.hosts...)
			keep.mtx.Unlock()
		}
		if note != "" {
			broken++
			contacted = append(contacted, "<"+note+">") // not a root of any list: judged as a violation with this input
			tags = append(tags, "discovery-broken")
		}
		if skipped {
			tags = append(tags, "skipped-after-two-discovery-failures")
		}
		switch {
		case early:
			tags = append(tags, "put-did-not-wait-for-the-refreshed-list")
		case waiting:
			tags = append(tags, "put-waited-in-discoverServices")
		}
		lt := []string{c11pListTerm(l0), c11pListTerm(l1)}
		ct := make([]string, len(contacted))
		for k, u := range contacted {
			ct[k] = gStr(u)
		}
		term := fmt.Sprintf("{| f_lists := %s;\n   f_contacted := %s |}", gList(lt), gList(ct))
		descList := func(l []c11Svc) []string {
			var e []string
			for _, s := range l {
				e = append(e, fmt.Sprintf("%s %s ro=%v", s.uuid, s.url(), s.ro))
			}
			return e
		}
		desc := map[string]interface{}{"index": i, "list_before_refresh": descList(l0), "list_answered_after_the_put_started": descList(l1),
			"probe_order_under_old_list": order0, "want": want, "put_requests_to": contacted,
			"put_sent_request_or_returned_before_api_answered": early, "put_observed_waiting_in_discoverServices": waiting, "note": note, "skipped_after_two_discovery_failures": skipped}
		cs.Add(i, term, desc, len(contacted) > 0, tags...)
	}
	cs.Write()
}
