//go:build verif

// C11, stage c11pool: several KeepClients with different (ApiInsecure, disk/proxy) configurations in one
// process share the package-level pool of HTTP clients (keepclient.go httpClient()).  A case starts from the
// empty pool of a fresh process and lets 2-6 KeepClients (each given 1-3 service lists) ask for their client
// one after the other; observed is the configuration of the client each one is handed (request timeout, TLS
// handshake timeout, InsecureSkipVerify) — the chosen timeouts are judged, never wall time.
package keepclient

import (
	"fmt"
	"net/http"
	"os"
	"testing"
	"time"

	"git.arvados.org/arvados.git/sdk/go/arvadosclient"
)

type c11pUse struct {
	insecure bool
	lists    [][]c11Svc
	reuse    int // >= 0: the KeepClient of that earlier use, given one more list
}

func c11pList(r *vRand, kind int, tag string) []c11Svc {
	// kind 0: disks only, 1: proxies only, 2: mixed, 3: disks + a read-only proxy
	n := 1 + r.Intn(3)
	var l []c11Svc
	for i := 0; i < n; i++ {
		typ := "disk"
		switch kind {
		case 1:
			typ = "proxy"
		case 2:
			typ = r.Pick("disk", "proxy", "blob")
		}
		l = append(l, c11Svc{uuid: c11UUID(r), host: fmt.Sprintf("%s%d", tag, i), port: 25107, typ: typ, ro: r.Chance(1, 5)})
	}
	if kind == 3 {
		l = append(l, c11Svc{uuid: c11UUID(r), host: tag + "ro", port: 25107, typ: "proxy", ro: true})
	}
	if kind == 0 && r.Chance(1, 6) {
		// a proxy item that repeats an earlier URL is skipped by loadKeepServers: still a disks-only client
		d := l[0]
		d.uuid, d.typ = c11UUID(r), "proxy"
		l = append(l, d)
	}
	return l
}

func c11pListTerm(l []c11Svc) string {
	sv := make([]string, len(l))
	for i, s := range l {
		sv[i] = fmt.Sprintf("D %s %s %d%%N %s %s %s", gStr(s.uuid), gStr(s.host), s.port, gBool(s.ssl), gStr(s.typ), gBool(s.ro))
	}
	return gList(sv)
}

func TestVerifC11Pool(t *testing.T) {
	seed := vSeed()
	n := vEnvInt("VERIF_N", 100)
	only := vOnly()
	stage := os.Getenv("VERIF_STAGE")
	if stage == "" {
		stage = "c11pool"
	}
	cs := vNewCases(stage)
	saved := []time.Duration{DefaultRequestTimeout, DefaultProxyRequestTimeout, DefaultTLSHandshakeTimeout, DefaultProxyTLSHandshakeTimeout}
	defer func() {
		DefaultRequestTimeout, DefaultProxyRequestTimeout, DefaultTLSHandshakeTimeout, DefaultProxyTLSHandshakeTimeout = saved[0], saved[1], saved[2], saved[3]
	}()
	for i := 0; i < n; i++ {
		if only >= 0 && i != only {
			continue
		}
		r := vCaseRand(seed, i)
		// the package's timeout variables: the shipped values, or other pairwise distinct ones
		df := []time.Duration{saved[0], saved[1], saved[2], saved[3]}
		if r.Chance(1, 3) {
			df = []time.Duration{time.Duration(1500+r.Intn(20000)) * time.Millisecond, time.Duration(40000+r.Intn(300000)) * time.Millisecond,
				time.Duration(500+r.Intn(900)) * time.Millisecond, time.Duration(6000+r.Intn(9000)) * time.Millisecond}
		}
		DefaultRequestTimeout, DefaultProxyRequestTimeout, DefaultTLSHandshakeTimeout, DefaultProxyTLSHandshakeTimeout = df[0], df[1], df[2], df[3]
		// a fresh process: nothing in the pool
		defaultClientMtx.Lock()
		defaultClient = map[bool]map[bool]HTTPClient{false: {}, true: {}}
		defaultClientMtx.Unlock()

		nuses := 2 + r.Intn(5)
		var uses []c11pUse
		var tags []string
		// strata: the first two KeepClients differ in both flags (the four ordered combinations), in one flag, or in none
		pat := r.Intn(8)
		for k := 0; k < nuses; k++ {
			u := c11pUse{reuse: -1}
			var kind int
			switch {
			case k < 2 && pat < 4:
				// (insecure, disk) then (verified, proxy); (verified, proxy) then (insecure, disk); and the other diagonal
				a := []bool{true, false, false, true}[pat]
				b := []int{0, 1, 0, 1}[pat]
				if k == 1 {
					a = !a
					b = 1 - b
				}
				u.insecure, kind = a, b
			case k < 2 && pat < 6:
				u.insecure = pat == 4
				kind = k // same TLS setting, disk then proxy
			default:
				u.insecure = r.Bool()
				kind = r.Intn(4)
			}
			if k >= 2 && r.Chance(1, 4) {
				u.reuse = r.Intn(k)
				for uses[u.reuse].reuse >= 0 {
					u.reuse = uses[u.reuse].reuse
				}
				u.insecure = uses[u.reuse].insecure
				// the lists so far: those of the LATEST use of that KeepClient
				latest := u.reuse
				for j := range uses {
					if uses[j].reuse == u.reuse {
						latest = j
					}
				}
				u.lists = append(append([][]c11Svc(nil), uses[latest].lists...), c11pList(r, kind, fmt.Sprintf("u%dr", k)))
				tags = append(tags, "client-reused-after-refresh")
			} else {
				nl := 1 + r.Intn(2)
				for j := 0; j < nl; j++ {
					lk := kind
					if j < nl-1 {
						lk = r.Intn(4) // an earlier list of any kind: foundNonDiskSvc is sticky
					}
					u.lists = append(u.lists, c11pList(r, lk, fmt.Sprintf("u%dl%d", k, j)))
				}
			}
			uses = append(uses, u)
		}
		tags = append(tags, fmt.Sprintf("clients=%d", nuses), fmt.Sprintf("first-two-pattern=%d", pat))

		kcs := map[int]*KeepClient{}
		loaded := map[int]int{}
		var obsTerms, obsDesc, useTerms []string
		var useDesc []map[string]interface{}
		for k, u := range uses {
			id := k
			if u.reuse >= 0 {
				id = u.reuse
			}
			kc := kcs[id]
			if kc == nil {
				kc = &KeepClient{Arvados: &arvadosclient.ArvadosClient{ApiToken: "tok", ApiInsecure: u.insecure}, Want_replicas: 1}
				kcs[id] = kc
			}
			for ; loaded[id] < len(u.lists); loaded[id]++ {
				if err := kc.LoadKeepServicesFromJSON(c11JSON(u.lists[loaded[id]])); err != nil {
					t.Fatalf("LoadKeepServicesFromJSON: %v", err)
				}
			}
			c1 := kc.httpClient()
			c2 := kc.httpClient() // asking again must not change the answer
			to, tls, ins, kind := int64(0), int64(0), false, fmt.Sprintf("%T", c1)
			if hc, ok := c1.(*http.Client); ok {
				to = int64(hc.Timeout / time.Millisecond)
				if tr, ok := hc.Transport.(*http.Transport); ok {
					tls = int64(tr.TLSHandshakeTimeout / time.Millisecond)
					if tr.TLSClientConfig != nil {
						ins = tr.TLSClientConfig.InsecureSkipVerify
					}
				}
			}
			if hc2, ok := c2.(*http.Client); ok {
				if hc1, ok := c1.(*http.Client); !ok || hc1.Timeout != hc2.Timeout {
					to = 0 // two different answers: not the client of this configuration
				}
			}
			obsTerms = append(obsTerms, fmt.Sprintf("HC %d%%N %d%%N %s", to, tls, gBool(ins)))
			obsDesc = append(obsDesc, fmt.Sprintf("client %d: %s timeout=%dms tls-handshake=%dms insecure-skip-verify=%v", k, kind, to, tls, ins))
			lt := make([]string, len(u.lists))
			var ld [][]string
			for j, l := range u.lists {
				lt[j] = c11pListTerm(l)
				var e []string
				for _, s := range l {
					e = append(e, fmt.Sprintf("%s %s %s ro=%v", s.uuid, s.url(), s.typ, s.ro))
				}
				ld = append(ld, e)
			}
			useTerms = append(useTerms, fmt.Sprintf("U %s %s", gBool(u.insecure), gList(lt)))
			useDesc = append(useDesc, map[string]interface{}{"api_insecure": u.insecure, "lists": ld, "same_keepclient_as_use": u.reuse})
		}
		term := fmt.Sprintf("{| p_defaults := DF %d%%N %d%%N %d%%N %d%%N;\n   p_uses := %s;\n   p_obs := %s |}",
			int64(df[0]/time.Millisecond), int64(df[1]/time.Millisecond), int64(df[2]/time.Millisecond), int64(df[3]/time.Millisecond),
			gList(useTerms), gList(obsTerms))
		desc := map[string]interface{}{"index": i, "default_timeouts_ms": map[string]int64{"request": int64(df[0] / time.Millisecond), "proxy_request": int64(df[1] / time.Millisecond),
			"tls": int64(df[2] / time.Millisecond), "proxy_tls": int64(df[3] / time.Millisecond)}, "keepclients_in_order_of_use": useDesc, "clients_handed_out": obsDesc}
		cs.Add(i, term, desc, true, tags...)
	}
	cs.Write()
}
