//go:build verif

// C11 harness: drives the real KeepClient.PutB/PutHB/PutHR against a scripted HTTPClient stub (no
// sockets).  Every upload blocks in the stub until the controller releases it, and the controller
// follows the completion schedule that the Coq model computed for the same inputs (phase "gen" emits
// the inputs, coqc prints the schedule, phase "run" executes it in lock-step): it waits until exactly
// the predicted set of requests is outstanding and every other goroutine of the call has gone quiet,
// then releases the upload the schedule names.  When the implementation does not do what the model
// predicts the controller stops following and simply releases requests in arrival order, so that the
// observation can still be judged by the specification.
package keepclient

import (
	"bytes"
	"crypto/md5"
	"encoding/json"
	"errors"
	"fmt"
	"io"
	"io/ioutil"
	"net/http"
	"os"
	"runtime"
	"sort"
	"strings"
	"sync"
	"testing"
	"time"

	"git.arvados.org/arvados.git/sdk/go/arvadosclient"
)

type c11Outcome struct {
	conn bool
	code int
	hdr  int // -1: header absent
	sfx  string
}

func (o c11Outcome) gallina(body string) string {
	if o.conn {
		return "ConnErr"
	}
	h := "None"
	if o.hdr >= 0 {
		h = fmt.Sprintf("(Some %d)", o.hdr)
	}
	return fmt.Sprintf("(Resp %d%%N %s %s)", o.code, h, body)
}

// c11Str prints a string term; the block hash, the md5 of the data and the data itself are bound once
// per case by `let` (hh, hm, dd) because elaborating string literals dominates coqc's time.  This is
// pure syntax: the term denotes exactly the string s.
func (c *c11Case) str(s string) string {
	switch {
	case s == c.md5:
		return "hm"
	case s == c.hash:
		return "hh"
	case len(c.data) > 0 && s == string(c.data):
		return "dd"
	case strings.HasPrefix(s, c.md5):
		return "(hm ++ " + gStr(s[len(c.md5):]) + ")%string"
	case strings.HasPrefix(s, c.hash):
		return "(hh ++ " + gStr(s[len(c.hash):]) + ")%string"
	}
	return gStr(s)
}

// lets must be called AFTER the terms that use bind() have been printed (it emits what they registered)
func (c *c11Case) lets() string {
	hh := "hm"
	if c.hash != c.md5 {
		hh = gStr(c.hash)
	}
	l := fmt.Sprintf("let hm := %s in let hh := %s in let dd := %s in", gStr(c.md5), hh, gStr(string(c.data)))
	for i, v := range c.bound {
		l += fmt.Sprintf(" let w%d := %s in", i, gStr(v))
	}
	return l
}

// bind prints a uuid or URL; each distinct one is a string literal once per case (let w<k>), pure syntax
func (c *c11Case) bind(s string) string {
	if c.boundIdx == nil {
		c.boundIdx = map[string]int{}
	}
	k, ok := c.boundIdx[s]
	if !ok {
		k = len(c.bound)
		c.boundIdx[s] = k
		c.bound = append(c.bound, s)
	}
	return fmt.Sprintf("w%d", k)
}

type c11Svc struct {
	uuid, host string
	port       int
	ssl        bool
	typ        string
	ro         bool
}

func (s c11Svc) url() string {
	sch := "http"
	if s.ssl {
		sch = "https"
	}
	return fmt.Sprintf("%s://%s:%d", sch, s.host, s.port)
}

type c11Case struct {
	svcs    []c11Svc   // the list in force for the Put (loaded last)
	earlier [][]c11Svc // lists the client was given before it (refresh history), oldest first
	order   []int
	want    int
	retries int
	entry   int // 0 PutB, 1 PutHB, 2 PutHR
	hash    string
	data    []byte
	nbytes  int64
	md5     string
	table   [][]c11Outcome
	picks   []int
	tags    []string
	bound    []string
	boundIdx map[string]int
}

var c11Entries = []string{"EPutB", "EPutHB", "EPutHR"}

func (c *c11Case) gallinaIn() string {
	var lists []string
	for _, l := range append(append([][]c11Svc(nil), c.earlier...), c.svcs) {
		sv := make([]string, len(l))
		for i, s := range l {
			sv[i] = fmt.Sprintf("D %s %s %d%%N %s %s %s", c.bind(s.uuid), gStr(s.host), s.port, gBool(s.ssl), gStr(s.typ), gBool(s.ro))
		}
		lists = append(lists, gList(sv))
	}
	ord := make([]string, len(c.order))
	for i, o := range c.order {
		ord[i] = fmt.Sprint(o)
	}
	tab := make([]string, len(c.table))
	for i, row := range c.table {
		r := make([]string, len(row))
		for j, o := range row {
			r[j] = o.gallina(gStr(o.sfx))
		}
		tab[i] = gList(r)
	}
	pk := make([]string, len(c.picks))
	for i, p := range c.picks {
		pk[i] = fmt.Sprint(p)
	}
	return fmt.Sprintf("{| i_lists := %s; i_order := %s; i_want := %d; i_retries := %d; i_entry := %s; i_hash := %s; i_data := %s; i_nbytes := %d%%N; i_md5 := %s;\n    i_table := %s; i_picks := %s |}",
		gList(lists), gList(ord), c.want, c.retries, c11Entries[c.entry], c.str(c.hash), c.str(string(c.data)), c.nbytes, c.str(c.md5), gList(tab), gList(pk))
}

// ---- generator ----

var c11Codes = []int{400, 403, 408, 429, 500, 502, 503}

func c11RandOutcome(r *vRand, pAccept int) c11Outcome {
	sfx := r.Pick("", "\n", "+Afc5a3bd1e2@65f0a3b2\n", "+Asig@ffffffff", " \r\n", "+A0123456789abcdef0123456789abcdef01234567@7fffffff\n")
	if r.Intn(100) < pAccept {
		switch r.Intn(6) {
		case 0, 1:
			return c11Outcome{code: 200, hdr: 1, sfx: sfx}
		case 2:
			return c11Outcome{code: 200, hdr: 2, sfx: sfx}
		case 3, 4:
			return c11Outcome{code: 200, hdr: -1, sfx: sfx}
		default:
			if r.Chance(1, 3) {
				return c11Outcome{code: 200, hdr: r.Pick3(0, 3, 2), sfx: sfx}
			}
			return c11Outcome{code: 200, hdr: 1, sfx: sfx}
		}
	}
	k := r.Intn(len(c11Codes) + 2)
	if k >= len(c11Codes) {
		return c11Outcome{conn: true}
	}
	o := c11Outcome{code: c11Codes[k], hdr: -1, sfx: r.Pick("", "no\n", "full")}
	if r.Chance(1, 8) {
		o.hdr = r.Intn(3) // a replicas-stored header on a failure must not be counted
	}
	return o
}

func (r *vRand) Pick3(a, b, c int) int { return []int{a, b, c}[r.Intn(3)] }

// all outcomes of the property's quantifier, for the exhaustive stage
func c11Alphabet() []c11Outcome {
	return []c11Outcome{
		{code: 200, hdr: 1, sfx: "+Aaa@1\n"}, {code: 200, hdr: 2, sfx: "+Abb@2\n"}, {code: 200, hdr: -1, sfx: "+Acc@3"},
		{code: 400, hdr: -1}, {code: 403, hdr: -1}, {code: 408, hdr: -1}, {code: 429, hdr: -1},
		{code: 500, hdr: -1}, {code: 502, hdr: -1}, {code: 503, hdr: -1}, {conn: true},
	}
}

func c11Retryable(o c11Outcome) bool {
	return o.conn || o.code == 408 || o.code == 429 || (o.code >= 500 && o.code != 503)
}

func c11UUID(r *vRand) string {
	const al = "0123456789abcdefghijklmnopqrstuvwxyz"
	b := make([]byte, 15)
	for i := range b {
		b[i] = al[r.Intn(len(al))]
	}
	return "zzzzz-bi6l4-" + string(b)
}

func c11GenServices(r *vRand, nw, nro int, kind int) []c11Svc {
	var svcs []c11Svc
	seen := map[string]bool{}
	add := func(ro bool, typ string) {
		u := c11UUID(r)
		for seen[u] {
			u = c11UUID(r)
		}
		seen[u] = true
		svcs = append(svcs, c11Svc{uuid: u, host: fmt.Sprintf("k%d", len(svcs)), port: 25107 + r.Intn(3), ssl: r.Chance(1, 5), typ: typ, ro: ro})
	}
	for i := 0; i < nw; i++ {
		typ := "disk"
		switch kind {
		case 1:
			typ = "proxy"
		case 2:
			typ = r.Pick("disk", "proxy", "disk", "blob")
		}
		add(false, typ)
	}
	for i := 0; i < nro; i++ {
		// a read-only proxy among writable disks must not switch to the proxy upload pattern
		add(true, r.Pick("disk", "proxy"))
	}
	// shuffle
	for i := len(svcs) - 1; i > 0; i-- {
		j := r.Intn(i + 1)
		svcs[i], svcs[j] = svcs[j], svcs[i]
	}
	return svcs
}

// c11Earlier derives the lists the client was given before the final one (initial discovery, refreshes):
// each is a variation of the final list.  The strata follow the ways a refresh can differ from what the
// client already holds: only read_only flags (same uuids and URLs), membership, URL of a uuid, service
// type, nothing at all, everything.
func c11Earlier(r *vRand, final []c11Svc, n int) ([][]c11Svc, []string) {
	var out [][]c11Svc
	var tags []string
	for k := 0; k < n; k++ {
		l := append([]c11Svc(nil), final...)
		kind := r.Pick("flip-ro", "flip-ro", "flip-ro", "all-writable", "all-readonly", "remove", "add", "move-url", "retype", "same", "other")
		switch kind {
		case "flip-ro":
			any := false
			for i := range l {
				if r.Chance(1, 2) {
					l[i].ro = !l[i].ro
					any = true
				}
			}
			if !any && len(l) > 0 {
				i := r.Intn(len(l))
				l[i].ro = !l[i].ro
			}
		case "all-writable":
			for i := range l {
				l[i].ro = false
			}
		case "all-readonly":
			for i := range l {
				l[i].ro = true
			}
		case "remove":
			if len(l) > 1 {
				i := r.Intn(len(l))
				l = append(l[:i:i], l[i+1:]...)
			}
		case "add":
			l = append(l, c11Svc{uuid: c11UUID(r), host: fmt.Sprintf("old%d", k), port: 25107, typ: r.Pick("disk", "proxy"), ro: r.Bool()})
		case "move-url":
			if len(l) > 0 {
				i := r.Intn(len(l))
				l[i].host = fmt.Sprintf("moved%d", k)
				l[i].ro = r.Bool()
			}
		case "retype":
			for i := range l {
				if r.Chance(1, 2) {
					l[i].typ = r.Pick("disk", "proxy")
				}
			}
		case "other":
			l = nil
			for i := 0; i < 1+r.Intn(3); i++ {
				l = append(l, c11Svc{uuid: c11UUID(r), host: fmt.Sprintf("other%d-%d", k, i), port: 25107, typ: r.Pick("disk", "proxy"), ro: r.Chance(1, 3)})
			}
		}
		out = append(out, l)
		tags = append(tags, "earlier-list="+kind)
	}
	tags = append(tags, fmt.Sprintf("lists-loaded=%d", n+1))
	return out, tags
}

func c11Gen(r *vRand) *c11Case {
	c := &c11Case{}
	nw := 1 + r.Intn(5)
	nro := 0
	if r.Chance(1, 2) {
		nro = 1 + r.Intn(2)
	}
	if r.Chance(1, 40) {
		nw = 0
	}
	kind := r.Intn(3)
	c.svcs = c11GenServices(r, nw, nro, kind)
	c.tags = append(c.tags, fmt.Sprintf("writable=%d", nw), fmt.Sprintf("readonly=%d", nro), []string{"disk", "proxy", "mixed"}[kind])
	if len(c.svcs) > 1 && r.Chance(1, 12) {
		// a duplicate of an earlier entry's URL under another uuid: skipped by loadKeepServers
		d := c.svcs[r.Intn(len(c.svcs))]
		d.uuid = c11UUID(r)
		d.ro = r.Bool()
		d.typ = r.Pick("disk", "proxy")
		c.svcs = append(c.svcs, d)
		c.tags = append(c.tags, "duplicate-url")
	}
	{
		ne := 0
		switch x := r.Intn(20); {
		case x < 7:
		case x < 16:
			ne = 1
		default:
			ne = 2
		}
		var tg []string
		c.earlier, tg = c11Earlier(r, c.svcs, ne)
		c.tags = append(c.tags, tg...)
	}
	c.want = 1 + r.Intn(3)
	c.retries = r.Intn(4)
	c.tags = append(c.tags, fmt.Sprintf("want=%d", c.want), fmt.Sprintf("retries=%d", c.retries))
	// data and entry point
	c.data = make([]byte, r.Intn(40))
	for i := range c.data {
		c.data[i] = byte(r.Intn(256))
	}
	if r.Chance(1, 12) {
		c.data = nil
	}
	c.md5 = fmt.Sprintf("%x", md5.Sum(c.data))
	c.hash = c.md5
	c.nbytes = int64(len(c.data))
	switch x := r.Intn(100); {
	case x < 45:
		c.entry = 0
	case x < 70:
		c.entry = 1
		if r.Chance(1, 6) { // PutHB does not check the hash: the request simply carries it
			c.hash = fmt.Sprintf("%x", md5.Sum([]byte("other")))
			c.tags = append(c.tags, "hb-foreign-hash")
		}
	default:
		c.entry = 2
		switch y := r.Intn(20); {
		case y < 2:
			c.nbytes = BLOCKSIZE + 1
			if r.Bool() {
				c.nbytes += int64(r.Intn(1000))
			}
			c.tags = append(c.tags, "oversize")
		case y == 6:
			// the largest size that is not rejected; the reader is shorter, so every upload fails in transport
			c.nbytes = BLOCKSIZE
			c.tags = append(c.tags, "hr-blocksize-exactly")
		case y < 4 && len(c.data) > 0:
			c.hash = fmt.Sprintf("%x", md5.Sum(append([]byte("x"), c.data...)))
			c.tags = append(c.tags, "hr-bad-hash")
		case y == 4 && len(c.data) > 1:
			c.nbytes = int64(1 + r.Intn(len(c.data)-1))
			c.tags = append(c.tags, "hr-short-length")
		case y == 5:
			c.nbytes = int64(len(c.data) + 1 + r.Intn(5))
			c.tags = append(c.tags, "hr-long-length")
		}
	}
	c.tags = append(c.tags, c11Entries[c.entry])
	// response oracle
	mode := r.Intn(6)
	pAcc := []int{50, 85, 15, 50, 100, 0}[mode]
	c.table = make([][]c11Outcome, len(c.svcs))
	for i := range c.svcs {
		row := make([]c11Outcome, c.retries+1)
		always := mode == 3 && r.Chance(1, 2)
		for a := range row {
			if always {
				row[a] = c11RandOutcome(r, 100)
			} else {
				row[a] = c11RandOutcome(r, pAcc)
			}
		}
		c.table[i] = row
	}
	c.tags = append(c.tags, []string{"mix", "mostly-accept", "mostly-fail", "some-always-accept", "all-accept", "all-fail"}[mode])
	c.picks = make([]int, len(c.svcs)*(c.retries+1)+2)
	for i := range c.picks {
		c.picks[i] = r.Intn(6)
	}
	return c
}

// exhaustive stage: case number -> (services, want, type, retries, assignment).  Services <= 3,
// rounds <= 2; first-round outcomes range over the whole alphabet, second-round outcomes are
// enumerated only for services whose first answer is retryable (the others are never asked again).
type c11Enum struct {
	cases []func(r *vRand) *c11Case
}

func c11Enumerate(maxSvc int, full bool) []*c11Case {
	alpha := c11Alphabet()
	if !full {
		// class representatives: 200 stored 1, 200 stored 2, 403 and 503 (not retried), 500 and no response (retried)
		alpha = []c11Outcome{alpha[0], alpha[1], alpha[4], alpha[9], alpha[7], alpha[10]}
	}
	var out []*c11Case
	for nsvc := 1; nsvc <= maxSvc; nsvc++ {
		for _, rounds := range []int{1, 2} {
			// assignment digits: first round nsvc digits; second round nsvc digits (0 only, when not retried)
			var rec func(i int, row1 []c11Outcome)
			rec2 := func(row1 []c11Outcome) {
				var rec3 func(i int, row2 []c11Outcome)
				rec3 = func(i int, row2 []c11Outcome) {
					if i == nsvc {
						for want := 1; want <= 3; want++ {
							for kind := 0; kind <= 1; kind++ {
								c := &c11Case{want: want, retries: rounds - 1, entry: 0}
								c.table = make([][]c11Outcome, nsvc)
								for s := 0; s < nsvc; s++ {
									c.table[s] = []c11Outcome{row1[s]}
									if rounds == 2 {
										c.table[s] = append(c.table[s], row2[s])
									}
								}
								c.tags = []string{fmt.Sprintf("exh-svc=%d", nsvc), fmt.Sprintf("exh-rounds=%d", rounds), fmt.Sprintf("want=%d", want), []string{"disk", "proxy"}[kind]}
								c.entry = kind // PutB for disk, PutHB for proxy: both entry points get the whole sweep
								out = append(out, c)
								c.nbytes = int64(kind) // remembered: service kind (fixed up by the caller)
							}
						}
						return
					}
					if rounds == 1 || !c11Retryable(row1[i]) {
						rec3(i+1, append(row2, c11Outcome{conn: true}))
						return
					}
					for _, o := range alpha {
						rec3(i+1, append(append([]c11Outcome(nil), row2...), o))
					}
				}
				rec3(0, nil)
			}
			rec = func(i int, row1 []c11Outcome) {
				if i == nsvc {
					rec2(row1)
					return
				}
				for _, o := range alpha {
					rec(i+1, append(append([]c11Outcome(nil), row1...), o))
				}
			}
			rec(0, nil)
		}
	}
	return out
}

// c11Finish fills in the parts of an enumerated case that come from the PRNG (uuids, data, schedule).
func c11FinishEnum(c *c11Case, r *vRand) {
	kind := int(c.nbytes)
	nsvc := len(c.table)
	c.svcs = c11GenServices(r, nsvc, 0, kind)
	if r.Chance(1, 3) {
		// one read-only service more; it gets an accepting script which must never be used
		ro := c11GenServices(r, 0, 1, 0)[0]
		ro.host = "kro"
		c.svcs = append(c.svcs, ro)
		row := make([]c11Outcome, c.retries+1)
		for i := range row {
			row[i] = c11Outcome{code: 200, hdr: 2, sfx: "+Aro@1"}
		}
		c.table = append(c.table, row)
	}
	if r.Chance(1, 3) {
		var tg []string
		c.earlier, tg = c11Earlier(r, c.svcs, 1)
		c.tags = append(append([]string(nil), c.tags...), tg...)
	}
	c.data = []byte(fmt.Sprintf("exh-%d", r.Intn(1000000)))
	c.md5 = fmt.Sprintf("%x", md5.Sum(c.data))
	c.hash = c.md5
	c.nbytes = int64(len(c.data))
	c.picks = make([]int, 8)
	for i := range c.picks {
		c.picks[i] = r.Intn(6)
	}
}

// ---- stub ----

type c11Req struct {
	svc      int
	attempt  int
	path     string
	desired  string
	clen     int64
	body     []byte
	bodyBad  bool
	gate     chan c11Outcome
	seq      int
	released bool
}

type c11Stub struct {
	mtx     sync.Mutex
	byURL   map[string]int
	attempt map[int]int
	reqs    []*c11Req
}

func (s *c11Stub) Do(req *http.Request) (*http.Response, error) {
	var body []byte
	bad := false
	if req.Body != nil {
		var err error
		body, err = ioutil.ReadAll(req.Body)
		req.Body.Close()
		if err != nil {
			bad = true
		}
	}
	if req.ContentLength != int64(len(body)) {
		// net/http refuses to send a body that is shorter or longer than ContentLength
		bad = true
	}
	q := &c11Req{path: strings.TrimPrefix(req.URL.Path, "/"), desired: req.Header.Get(XKeepDesiredReplicas), clen: req.ContentLength,
		body: body, bodyBad: bad, gate: make(chan c11Outcome, 1)}
	s.mtx.Lock()
	svc, ok := s.byURL[req.URL.Scheme+"://"+req.URL.Host]
	if !ok {
		svc = 9999
	}
	q.svc = svc
	q.attempt = s.attempt[svc]
	s.attempt[svc]++
	q.seq = len(s.reqs)
	s.reqs = append(s.reqs, q)
	s.mtx.Unlock()
	o := <-q.gate
	if o.conn {
		return nil, errors.New("verif stub: connection refused")
	}
	hdr := http.Header{}
	if o.hdr >= 0 {
		hdr.Set(XKeepReplicasStored, fmt.Sprint(o.hdr))
	}
	return &http.Response{StatusCode: o.code, Status: fmt.Sprintf("%d %s", o.code, http.StatusText(o.code)), Header: hdr,
		ContentLength: int64(len(o.sfx)), Body: ioutil.NopCloser(strings.NewReader(o.sfx)), Request: req}, nil
}

func (s *c11Stub) snapshot() []*c11Req {
	s.mtx.Lock()
	defer s.mtx.Unlock()
	return append([]*c11Req(nil), s.reqs...)
}

type c11Step struct {
	round   int
	started []int
	done    int
	out     string // Gallina term of the answer as issued
}

type c11Obs struct {
	steps    []c11Step
	extra    []int
	loc      string
	n        int
	errClass int // 0 nil, 1 insufficient (any other error), 2 oversize
	errMsg   string
	returned bool
	sync     bool
	reqs     []*c11Req
	diag     string
	// kc.LocalRoots(), kc.WritableLocalRoots(), kc.GatewayRoots() after the last list was loaded
	local, writable, gateway map[string]string
}

type c11Result struct {
	loc string
	n   int
	err error
}

func c11WaitUntil(d time.Duration, cond func() bool) bool {
	// The wait expires only when BOTH the wall-clock deadline has passed AND this goroutine has itself slept for a
	// nominal total of d (50 microsecond naps, then 1 ms naps; a nap never returns early): if the whole machine (or
	// VM) stalls, the clock jumps but the nominal total does not, so a stall cannot turn into an expired watchdog.
	deadline := time.Now().Add(d)
	var slept time.Duration
	for i := 0; ; i++ {
		if cond() {
			return true
		}
		switch {
		case i < 50:
			runtime.Gosched()
			continue
		case i < 250:
			time.Sleep(50 * time.Microsecond)
			slept += 50 * time.Microsecond
		default:
			time.Sleep(time.Millisecond)
			slept += time.Millisecond
		}
		if slept >= d && time.Now().After(deadline) {
			return false
		}
	}
}

func c11SameSet(a, b []int) bool {
	if len(a) != len(b) {
		return false
	}
	x := append([]int(nil), a...)
	y := append([]int(nil), b...)
	sort.Ints(x)
	sort.Ints(y)
	for i := range x {
		if x[i] != y[i] {
			return false
		}
	}
	return true
}

// answer the stub gives to request q
func (c *c11Case) answer(q *c11Req) (c11Outcome, string) {
	o := c11Outcome{conn: true}
	if q.svc < len(c.table) && q.attempt < len(c.table[q.svc]) {
		o = c.table[q.svc][q.attempt]
	}
	if q.bodyBad {
		o = c11Outcome{conn: true}
	}
	if o.conn {
		return o, "ConnErr"
	}
	full := fmt.Sprintf("%s+%d%s", q.path, len(q.body), o.sfx)
	g := o.gallina(c.str(full))
	o.sfx = full
	return o, g
}

func c11Run(t *testing.T, c *c11Case, sched [][]int, stepWait, watchdog time.Duration) *c11Obs {
	// stepWait bounds the wait for a predicted set of requests (shortened by the caller when the lock-step is
	// lost in most cases anyway); the waits that decide `returned` are never shortened
	// watchdog bounds the waits that decide `returned` (6 s on the first run of a case; a case whose Put did not
	// return is run again with a much longer one, so that machine load cannot turn into a verdict)
	obs := &c11Obs{sync: true}
	stub := &c11Stub{byURL: map[string]int{}, attempt: map[int]int{}}
	for i, s := range c.svcs {
		if _, dup := stub.byURL[s.url()]; !dup {
			stub.byURL[s.url()] = i
		}
	}
	kc := &KeepClient{Arvados: &arvadosclient.ArvadosClient{ApiToken: "tok"}, Want_replicas: c.want, Retries: c.retries, HTTPClient: stub, BlockCache: &BlockCache{}}
	// the client is given its lists one after the other; between two lists it is used for reading its roots,
	// as every operation does
	for _, l := range c.earlier {
		if err := kc.LoadKeepServicesFromJSON(c11JSON(l)); err != nil {
			t.Fatalf("LoadKeepServicesFromJSON: %v", err)
		}
		kc.LocalRoots()
		kc.WritableLocalRoots()
	}
	if err := kc.LoadKeepServicesFromJSON(c.servicesJSON()); err != nil {
		t.Fatalf("LoadKeepServicesFromJSON: %v", err)
	}
	obs.local, obs.writable, obs.gateway = c11CopyMap(kc.LocalRoots()), c11CopyMap(kc.WritableLocalRoots()), c11CopyMap(kc.GatewayRoots())
	base := runtime.NumGoroutine()
	resCh := make(chan c11Result, 1)
	var res *c11Result
	go func() {
		var r c11Result
		switch c.entry {
		case 0:
			r.loc, r.n, r.err = kc.PutB(c.data)
		case 1:
			r.loc, r.n, r.err = kc.PutHB(c.hash, c.data)
		default:
			r.loc, r.n, r.err = kc.PutHR(c.hash, bytes.NewReader(c.data), c.nbytes)
		}
		resCh <- r
	}()
	returned := func() bool {
		if res != nil {
			return true
		}
		select {
		case r := <-resCh:
			res = &r
			return true
		default:
			return false
		}
	}
	nseen := 0 // requests already attributed to a step
	outstanding := func(all []*c11Req) []*c11Req {
		var o []*c11Req
		for _, q := range all {
			if !q.released {
				o = append(o, q)
			}
		}
		return o
	}
	alive := func() int { // goroutines of this call that are not parked in the stub
		if returned() {
			return 0
		}
		return 1
	}
	release := func(q *c11Req, batch []int) {
		o, g := c.answer(q)
		sort.Ints(batch)
		obs.steps = append(obs.steps, c11Step{round: q.attempt, started: batch, done: q.svc, out: g})
		q.released = true
		q.gate <- o
	}
	svcsOf := func(qs []*c11Req) []int {
		var x []int
		for _, q := range qs {
			x = append(x, q.svc)
		}
		return x
	}
	// ---- lock-step phase ----
	nsteps := len(sched) - 1
	for k := 0; k < nsteps && obs.sync; k++ {
		done, batch := sched[k][0], sched[k][1:]
		var all []*c11Req
		ok := c11WaitUntil(stepWait, func() bool {
			if returned() {
				return true
			}
			all = stub.snapshot()
			if len(all)-nseen > len(batch) {
				return true // more arrivals than predicted
			}
			return len(all)-nseen == len(batch) && runtime.NumGoroutine() == base+1+len(outstanding(all))
		})
		all = stub.snapshot()
		if !ok || returned() || !c11SameSet(svcsOf(all[nseen:]), batch) {
			obs.sync = false
			break
		}
		var target *c11Req
		for _, q := range outstanding(all) {
			if q.svc == done {
				target = q
				break
			}
		}
		if target == nil {
			obs.sync = false
			break
		}
		nseen = len(all)
		release(target, append([]int(nil), batch...))
	}
	// ---- wait for the result; if the lock-step was lost, release requests in arrival order ----
	if obs.sync && !c11WaitUntil(stepWait, returned) {
		// the model predicts that Put returns now without further answers
		obs.sync = false
	}
	// (counted in completed quarter-watchdog waits of c11WaitUntil, which are immune to clock jumps, not in wall time)
	idleWaits := 0
	for !returned() && idleWaits < 4 {
		var all []*c11Req
		c11WaitUntil(watchdog/4, func() bool {
			if returned() {
				return true
			}
			all = stub.snapshot()
			return len(outstanding(all)) > 0 && runtime.NumGoroutine() == base+alive()+len(outstanding(all))
		})
		if returned() {
			break
		}
		all = stub.snapshot()
		out := outstanding(all)
		if len(out) == 0 {
			idleWaits++
			continue
		}
		batch := svcsOf(all[nseen:])
		nseen = len(all)
		release(out[0], batch)
		idleWaits = 0
	}
	obs.returned = returned()
	if !obs.returned {
		// where is it blocked?  (kept in the case description)
		buf := make([]byte, 1<<17)
		obs.diag = fmt.Sprintf("Put has not returned after %v; goroutines: %s", watchdog, buf[:runtime.Stack(buf, true)])
	}
	if res != nil {
		obs.loc, obs.n = res.loc, res.n
		switch {
		case res.err == nil:
			obs.errClass = 0
		case res.err == ErrOversizeBlock:
			obs.errClass = 2
			obs.errMsg = res.err.Error()
		default:
			obs.errClass = 1
			obs.errMsg = res.err.Error()
		}
	}
	// ---- settle: release what is still in flight (abandoned uploads) and anything that still arrives ----
	// (putReplicas' deferred drain goroutine never decrements `active`, so after the first abandoned
	// upload has reported it blocks for ever: one goroutine stays behind whenever uploads were abandoned.
	// That leak is not part of this property; the count below allows for it.)
	leak := 0
	settled := c11WaitUntil(watchdog, func() bool {
		for _, q := range outstanding(stub.snapshot()) {
			q.released = true
			q.gate <- c11Outcome{conn: true}
			leak = 1
		}
		return runtime.NumGoroutine() <= base+alive()+leak
	})
	all := stub.snapshot()
	// requests beyond the ones attributed to steps: either predicted and abandoned (they are part of a
	// started batch already) or unpredicted (extra)
	for _, q := range all[nseen:] {
		obs.extra = append(obs.extra, q.svc)
	}
	sort.Ints(obs.extra)
	if !settled {
		obs.sync = false
		buf := make([]byte, 1<<16)
		obs.diag = fmt.Sprintf("not settled: %d goroutines, base %d; %s", runtime.NumGoroutine(), base, buf[:runtime.Stack(buf, true)])
	}
	obs.reqs = all
	sort.SliceStable(obs.reqs, func(i, j int) bool { return obs.reqs[i].svc < obs.reqs[j].svc })
	return obs
}

func c11CopyMap(m map[string]string) map[string]string {
	o := map[string]string{}
	for k, v := range m {
		o[k] = v
	}
	return o
}

// a uuid -> url map as a Gallina association list, sorted by uuid
func (c *c11Case) pairs(m map[string]string) string {
	var ks []string
	for k := range m {
		ks = append(ks, k)
	}
	sort.Strings(ks)
	ps := make([]string, len(ks))
	for i, k := range ks {
		ps[i] = fmt.Sprintf("(%s, %s)", c.bind(k), c.bind(m[k]))
	}
	return gList(ps)
}

func (c *c11Case) servicesJSON() string { return c11JSON(c.svcs) }

func c11JSON(svcs []c11Svc) string {
	type item struct {
		UUID string `json:"uuid"`
		Host string `json:"service_host"`
		Port int    `json:"service_port"`
		SSL  bool   `json:"service_ssl_flag"`
		Type string `json:"service_type"`
		RO   bool   `json:"read_only"`
	}
	items := []item{}
	for _, s := range svcs {
		items = append(items, item{s.uuid, s.host, s.port, s.ssl, s.typ, s.ro})
	}
	j, _ := json.Marshal(map[string]interface{}{"items": items})
	return string(j)
}

// order of all local services for the block's hash, as indices
func (c *c11Case) computeOrder(t *testing.T) {
	kc := &KeepClient{Arvados: &arvadosclient.ArvadosClient{ApiToken: "tok"}}
	if err := kc.LoadKeepServicesFromJSON(c.servicesJSON()); err != nil {
		t.Fatalf("LoadKeepServicesFromJSON: %v", err)
	}
	h := c.hash
	if c.entry == 0 {
		h = c.md5
	}
	byURL := map[string]int{}
	for i, s := range c.svcs {
		if _, dup := byURL[s.url()]; !dup {
			byURL[s.url()] = i
		}
	}
	c.order = nil
	for _, root := range NewRootSorter(kc.LocalRoots(), h).GetSortedRoots() {
		c.order = append(c.order, byURL[root])
	}
}

func (o *c11Obs) gallina(c *c11Case) string {
	st := make([]string, len(o.steps))
	for i, s := range o.steps {
		b := make([]string, len(s.started))
		for j, x := range s.started {
			b[j] = fmt.Sprint(x)
		}
		st[i] = fmt.Sprintf("St %d %s %d %s", s.round, gList(b), s.done, s.out)
	}
	ex := make([]string, len(o.extra))
	for i, x := range o.extra {
		ex[i] = fmt.Sprint(x)
	}
	var res string
	switch o.errClass {
	case 0:
		res = fmt.Sprintf("Ok %s %d", c.str(o.loc), o.n)
	case 1:
		res = fmt.Sprintf("Insufficient %s %d", c.str(o.loc), o.n)
	default:
		res = "Oversize"
	}
	rq := make([]string, len(o.reqs))
	for i, q := range o.reqs {
		cl := q.clen
		if cl < 0 {
			cl = 1 << 40
		}
		rq[i] = fmt.Sprintf("Q %d %s %s %d%%N %s", q.svc, c.str(q.path), gStr(q.desired), cl, c.str(string(q.body)))
	}
	return fmt.Sprintf("{| ob_steps := %s;\n    ob_extra := %s; ob_res := %s;\n    ob_reqs := %s; ob_returned := %s; ob_sync := %s;\n    ob_local := %s; ob_writable := %s; ob_gateway := %s |}",
		gList(st), gList(ex), res, gList(rq), gBool(o.returned), gBool(o.sync), c.pairs(o.local), c.pairs(o.writable), c.pairs(o.gateway))
}

func c11Build(t *testing.T, seed uint64, i int, enum []*c11Case) *c11Case {
	r := vCaseRand(seed, i)
	var c *c11Case
	if i < len(enum) {
		cc := *enum[i]
		c = &cc
		c.table = append([][]c11Outcome(nil), cc.table...)
		c11FinishEnum(c, r)
	} else {
		c = c11Gen(r)
	}
	c.computeOrder(t)
	return c
}

// TestVerifC11 has two phases (VERIF_C11_PHASE): "gen" writes the inputs as Gallina terms for the
// schedule computation, "run" reads the schedules, runs the implementation and writes the cases.
func TestVerifC11(t *testing.T) {
	seed := vSeed()
	n := vEnvInt("VERIF_N", 100)
	only := vOnly()
	stage := os.Getenv("VERIF_STAGE")
	if stage == "" {
		stage = "c11"
	}
	phase := os.Getenv("VERIF_C11_PHASE")
	// VERIF_C11_EXH: cases 0..len(enum)-1 are the exhaustive enumeration, the rest (up to VERIF_N) random
	var enum []*c11Case
	switch os.Getenv("VERIF_C11_EXH") {
	case "1":
		enum = c11Enumerate(1, true)
	case "2":
		enum = c11Enumerate(2, true)
	case "3":
		enum = c11Enumerate(3, false)
	}
	if os.Getenv("VERIF_C11_EXH_ONLY") != "" {
		n = len(enum)
	}
	shard := vEnvInt("VERIF_SHARD", 400)
	if phase == "gen" {
		var terms []string
		var idx []int
		for i := 0; i < n; i++ {
			if only >= 0 && i != only {
				continue
			}
			c := c11Build(t, seed, i, enum)
			gin := c.gallinaIn()
			terms = append(terms, "("+c.lets()+" "+gin+")")
			idx = append(idx, i)
		}
		nsh := 0
		for lo := 0; lo < len(terms) || lo == 0; lo += shard {
			hi := lo + shard
			if hi > len(terms) {
				hi = len(terms)
			}
			body := "Definition ins : list cin := [\n" + strings.Join(terms[lo:hi], ";\n") + "\n].\n"
			os.WriteFile(fmt.Sprintf("%s/%s.gen_%d.body", vOutDir(), stage, nsh), []byte(body), 0666)
			nsh++
			if hi >= len(terms) {
				break
			}
		}
		j, _ := json.Marshal(map[string]interface{}{"indices": idx, "shards": nsh, "shard_size": shard})
		os.WriteFile(fmt.Sprintf("%s/%s.gen.json", vOutDir(), stage), j, 0666)
		return
	}
	// run phase
	var scheds map[string][][]int
	raw, err := os.ReadFile(os.Getenv("VERIF_C11_SCHED"))
	if err != nil {
		t.Fatalf("schedule file: %v", err)
	}
	if err := json.Unmarshal(raw, &scheds); err != nil {
		t.Fatalf("schedule file: %v", err)
	}
	watchdog := time.Duration(vEnvInt("VERIF_C11_WATCHDOG_MS", 3000)) * time.Millisecond
	cs := vNewCases(stage)
	lost, hung, reruns := 0, 0, 0
	for i := 0; i < n; i++ {
		if only >= 0 && i != only {
			continue
		}
		c := c11Build(t, seed, i, enum)
		sched, ok := scheds[fmt.Sprint(i)]
		if !ok {
			t.Fatalf("no schedule for case %d", i)
		}
		obs := c11Run(t, c, sched, watchdog, 6*time.Second)
		if !obs.returned {
			// "Put does not return" is judged with a generous margin: the same inputs and schedule once more with
			// a 60 s watchdog (a real hang reproduces; an overloaded machine does not)
			c = c11Build(t, seed, i, enum)
			obs = c11Run(t, c, sched, 4*watchdog, 60*time.Second)
			reruns++
		}
		for try := 0; try < 2 && !obs.sync && obs.returned && lost <= 40; try++ {
			// The lock-step is decided by watchdogs; on a heavily loaded machine one of them can expire
			// although nothing is wrong.  The inputs and the schedule are deterministic, so the case is
			// simply run again (fresh KeepClient): a real disagreement shows up again.
			c = c11Build(t, seed, i, enum)
			obs = c11Run(t, c, sched, 2*watchdog, 6*time.Second)
			reruns++
		}
		if !obs.returned {
			hung++
		}
		if !obs.sync {
			lost++
			if lost > 40 {
				watchdog = 300 * time.Millisecond // do not spend minutes when everything is off
			}
		}
		gin, gob := c.gallinaIn(), obs.gallina(c)
		term := "(" + c.lets() + " {| c_in := " + gin + ";\n   c_obs := " + gob + " |})"
		tab := make([][]string, len(c.table))
		for s, row := range c.table {
			for _, o := range row {
				if o.conn {
					tab[s] = append(tab[s], "connerr")
				} else if o.hdr >= 0 {
					tab[s] = append(tab[s], fmt.Sprintf("%d/stored=%d", o.code, o.hdr))
				} else {
					tab[s] = append(tab[s], fmt.Sprint(o.code))
				}
			}
		}
		var svd []string
		for _, s := range c.svcs {
			svd = append(svd, fmt.Sprintf("%s %s %s ro=%v", s.uuid, s.url(), s.typ, s.ro))
		}
		var std []string
		for _, s := range obs.steps {
			std = append(std, fmt.Sprintf("started%v done=%d attempt=%d", s.started, s.done, s.round))
		}
		var earlier [][]string
		for _, l := range c.earlier {
			var e []string
			for _, s := range l {
				e = append(e, fmt.Sprintf("%s %s %s ro=%v", s.uuid, s.url(), s.typ, s.ro))
			}
			earlier = append(earlier, e)
		}
		desc := map[string]interface{}{"index": i, "entry": c11Entries[c.entry], "services": svd, "earlier_lists": earlier,
			"roots_after_loading": map[string]interface{}{"local": obs.local, "writable": obs.writable, "gateway": obs.gateway}, "order": c.order, "want": c.want, "retries": c.retries,
			"data_len": len(c.data), "nbytes": c.nbytes, "hash": c.hash, "answers": tab, "picks": c.picks, "schedule": sched,
			"observed_steps": std, "extra": obs.extra, "locator": obs.loc, "replicas": obs.n, "error_class": []string{"nil", "insufficient", "oversize"}[obs.errClass],
			"error": obs.errMsg, "diag": obs.diag, "returned": obs.returned, "lockstep_kept": obs.sync, "requests": len(obs.reqs)}
		tags := append([]string(nil), c.tags...)
		tags = append(tags, "result="+[]string{"ok", "insufficient", "oversize"}[obs.errClass], fmt.Sprintf("steps=%d", c11Bucket(len(obs.steps))))
		if len(sched) > 0 && len(sched[len(sched)-1]) > 0 {
			tags = append(tags, "abandoned-uploads")
		}
		cs.Add(i, term, desc, len(obs.steps) >= 2, tags...)
		if hung >= 3 {
			// Put does not return: three concrete inputs are enough, every further case would cost the watchdog
			break
		}
	}
	if reruns > 0 {
		cs.Tag(fmt.Sprintf("rerun-after-watchdog=%d", reruns))
	}
	cs.Write()
}

func c11Bucket(n int) int {
	switch {
	case n <= 3:
		return n
	case n <= 6:
		return 6
	case n <= 10:
		return 10
	}
	return 20
}

var _ = io.EOF
