//go:build verif

package arvados

import (
	"fmt"
	"os"
	"strings"
	"testing"
)

// c08Run generates and executes one history; returns Gallina op list, obs list and a description.
func c08Run(t *testing.T, r *vRand, mb int, nops int, focus bool) (ops, obs []string, desc []string, tags []string) {
	maxBlockSize = mb
	kc := newCfsKeep()
	fs, err := (&Collection{}).FileSystem(nil, kc)
	if err != nil {
		t.Fatal(err)
	}
	se := &cfsSess{t: t, fs: fs, mb: mb, tagset: map[string]bool{}}
	add := func(op, ob, d string) {
		ops = append(ops, op)
		obs = append(obs, ob)
		desc = append(desc, d+" => "+ob)
	}
	for i := 0; i < nops; i++ {
		// background/explicit flushes are not operations of the model: they must not be observable
		if r.Chance(1, 5) {
			var ferr error
			switch r.Intn(4) {
			case 0:
				ferr = fs.Flush("", r.Bool())
			case 1:
				ferr = fs.Flush("d", r.Bool())
				if ferr != nil && (cfsErr(ferr) == "ENotExist" || cfsErr(ferr) == "ENotDir") {
					ferr = nil
				}
			default:
				_, ferr = fs.MarshalManifest(".")
				se.tag("save")
			}
			if ferr != nil {
				t.Fatalf("flush/marshal failed: %v", ferr)
			}
			se.tag("flush")
		}
		if focus && i == 2 {
			if _, err := fs.MarshalManifest("."); err != nil {
				t.Fatal(err)
			}
		}
		panicked := false
		func() {
			defer func() {
				if p := recover(); p != nil {
					// a panic inside the filesystem: an observation no model explains; the history ends
					add(`OStat "PANIC in the call"`, "VUnit", fmt.Sprintf("PANIC: %v", p))
					se.tag("panic")
					panicked = true
				}
			}()
			se.randomOp(r, focus, i, false, add)
		}()
		if panicked {
			break
		}
	}
	return ops, obs, desc, se.tags()
}
func TestVerifC08(t *testing.T) {
	seed := vSeed()
	n := vEnvInt("VERIF_N", 100)
	only := vOnly()
	stage := os.Getenv("VERIF_STAGE")
	if stage == "" {
		stage = "c08"
	}
	maxops := vEnvInt("VERIF_OPS", 40)
	defer func(v int) { maxBlockSize = v }(maxBlockSize)
	cs := vNewCases(stage)
	for i := 0; i < n; i++ {
		if only >= 0 && i != only {
			continue
		}
		r := vCaseRand(seed, i)
		mb := []int{1, 2, 3, 5, 8, 64}[r.Intn(6)]
		nops := 5 + r.Intn(maxops)
		focus := i%3 == 1
		ops, obs, desc, tags := c08Run(t, r, mb, nops, focus)
		if focus {
			tags = append(tags, "stratum=data-path")
		}
		term := fmt.Sprintf("{| c_mb := %d; c_ops := [\n  %s];\n  c_obs := [\n  %s] |}", mb, strings.Join(ops, ";\n  "), strings.Join(obs, ";\n  "))
		d := map[string]interface{}{"index": i, "maxBlockSize": mb, "history": desc}
		nontrivial := false
		for _, tg := range tags {
			if tg == "write-ok" {
				nontrivial = true
			}
		}
		tags = append(tags, fmt.Sprintf("mb=%d", mb))
		cs.Add(i, term, d, nontrivial, tags...)
	}
	cs.Write()
}
