//go:build verif

package arvados

import (
	"fmt"
	"os"
	"strings"
	"sync"
	"testing"
	"time"
)

// Real goroutines, real write throttle, ungated fake Keep (with failures), run under the race
// detector: 2-6 workers, each confined to its own directory and running a C08-style operation stream
// through its own handles, plus concurrent Flush / MarshalManifest callers.  Because the workers' files
// are disjoint, each worker's observations must be exactly those of the plain filesystem running that
// worker's stream alone: every worker becomes one case of the C08 evaluator.  A history that does not
// finish within the deadline is recorded as a failing observation (deadlock).
func TestVerifC13Race(t *testing.T) {
	seed := vSeed()
	n := vEnvInt("VERIF_N", 10)
	only := vOnly()
	stage := os.Getenv("VERIF_STAGE")
	if stage == "" {
		stage = "c13race"
	}
	maxops := vEnvInt("VERIF_OPS", 40)
	defer func(v int) { maxBlockSize = v }(maxBlockSize)
	cs := vNewCases(stage)
	idx := 0
	nDead := 0
	for i := 0; i < n && nDead < 2; i++ { // each stuck history costs a minute: two are evidence enough
		r := vCaseRand(seed, i)
		mb := []int{1, 2, 3, 5, 8}[r.Intn(5)]
		nw := 2 + r.Intn(5)
		maxBlockSize = mb
		kc := newCfsKeep()
		kc.mode = []int{0, 0, 2, 3}[r.Intn(4)]
		fs, err := (&Collection{}).FileSystem(nil, kc)
		if err != nil {
			t.Fatal(err)
		}
		type worker struct {
			se       *cfsSess
			r        *vRand
			mu       sync.Mutex // guards ops, obs, desc and the session's tag set (a stuck worker is read while it is parked)
			ops, obs []string
			desc     []string
			nops     int
			focus    bool
			id       int
		}
		ws := make([]*worker, nw)
		for w := range ws {
			wk := &worker{se: &cfsSess{t: t, fs: fs, mb: mb, prefix: fmt.Sprintf("w%d/", w), tagset: map[string]bool{}},
				r: vCaseRand(seed*31+uint64(w)+1, i), nops: 5 + r.Intn(maxops), focus: r.Bool(), id: w}
			if i%3 == 2 {
				wk.se.churn, wk.focus = true, false
			}
			dir := fmt.Sprintf("w%d", w)
			if err := fs.Mkdir(dir, 0755); err != nil {
				t.Fatal(err)
			}
			wk.ops = append(wk.ops, "OMkdir "+gStr(dir))
			wk.obs = append(wk.obs, "VUnit")
			wk.desc = append(wk.desc, "mkdir "+dir)
			ws[w] = wk
		}
		// a log shared by all workers: each appends its own records through its own O_APPEND handle
		// while the others write and the savers hold locks; appends are atomic steps, so the final
		// content must be some interleaving of all records (checked below, after the history)
		const nrec = 6
		sharedOK := fs.Mkdir("shared", 0755) == nil
		if sharedOK {
			if f, err := fs.OpenFile("shared/log", os.O_CREATE|os.O_WRONLY, 0644); err != nil {
				sharedOK = false
			} else {
				f.Close()
			}
		}
		var appendErr error
		var wg sync.WaitGroup
		churnHist := i%3 == 2
		stop := make(chan struct{})
		var saveErr error
		var saveMtx sync.Mutex
		for _, wk := range ws {
			wk := wk
			wg.Add(1)
			go func() {
				defer wg.Done()
				add := func(op, ob, d string) {
					wk.mu.Lock()
					wk.ops = append(wk.ops, op)
					wk.obs = append(wk.obs, ob)
					wk.desc = append(wk.desc, d+" => "+ob)
					wk.mu.Unlock()
				}
				if sharedOK {
					if lf, err := fs.OpenFile("shared/log", os.O_WRONLY|os.O_APPEND, 0); err == nil {
						for k := 0; k < nrec; k++ {
							if _, err := lf.Write([]byte{0xF0, byte(wk.id), byte(k), 0x0F}); err != nil {
								saveMtx.Lock()
								appendErr = err
								saveMtx.Unlock()
							}
						}
						lf.Close()
					}
				}
				if wk.se.churn {
					// rename storm: a directory bounces between two sibling directories of this worker
					// while the savers below walk the tree top-down in a tight loop
					p := wk.se.prefix
					for _, d := range []string{p + "sa", p + "sb", p + "sa/m"} {
						ob := "VUnit"
						if err := fs.Mkdir(d, 0755); err != nil {
							ob = c08ErrObs(err)
						}
						add("OMkdir "+gStr(d), ob, "mkdir "+d)
					}
					names := []string{p + "sa/m", p + "sb/m"}
					for k := 0; k < 120; k++ {
						a, b := names[k%2], names[(k+1)%2]
						ob := "VUnit"
						if err := fs.Rename(a, b); err != nil {
							ob = c08ErrObs(err)
						}
						add("ORename "+gStr(a)+" "+gStr(b), ob, "rename "+a+" "+b)
					}
				}
				for k := 0; k < wk.nops; k++ {
					wk.se.randomOp(wk.r, wk.focus, k, false, add)
				}
			}()
		}
		// concurrent flushers / savers
		var fg sync.WaitGroup
		for f := 0; f < 2; f++ {
			f := f
			fr := vCaseRand(seed*77+uint64(f), i)
			fg.Add(1)
			go func() {
				defer fg.Done()
				for {
					select {
					case <-stop:
						return
					default:
					}
					var err error
					switch fr.Intn(3) {
					case 0:
						err = fs.Flush("", fr.Bool())
					case 1:
						err = fs.Flush(fmt.Sprintf("w%d", fr.Intn(nw)), fr.Bool())
					default:
						_, err = fs.MarshalManifest(".")
						if err != nil && kc.mode != 0 {
							err = nil // a save may fail while the fake Keep refuses some writes
						}
					}
					if err != nil {
						saveMtx.Lock()
						saveErr = err
						saveMtx.Unlock()
					}
					if !churnHist {
						time.Sleep(time.Duration(fr.Intn(200)) * time.Microsecond)
					}
				}
			}()
		}
		done := make(chan struct{})
		go func() { wg.Wait(); close(done) }()
		deadlocked := false
		select {
		case <-done:
		case <-time.After(60 * time.Second):
			deadlocked = true
		}
		close(stop)
		if deadlocked {
			nDead++
		}
		if !deadlocked {
			fg.Wait()
			kc.mtx.Lock()
			kc.mode = 0
			kc.mtx.Unlock()
			if sharedOK && appendErr == nil {
				if msg := c13CheckLog(fs, nw, nrec); msg != "" {
					saveErr = fmt.Errorf("%s", msg)
				}
			}
			txt, err := fs.MarshalManifest(".")
			if err != nil {
				saveErr = fmt.Errorf("final save: %v", err)
			} else if _, err := (&Collection{ManifestText: txt}).FileSystem(nil, kc); err != nil {
				saveErr = fmt.Errorf("final manifest does not load: %v", err)
			}
		}
		for w, wk := range ws {
			if only >= 0 && idx != only {
				idx++
				continue
			}
			wk.mu.Lock()
			ops, obs := append([]string{}, wk.ops...), append([]string{}, wk.obs...)
			desc := append([]string{}, wk.desc...)
			var tags []string
			if deadlocked {
				tags = []string{} // the session's tag set may still be written by a parked worker when it is released
			} else {
				tags = wk.se.tags()
			}
			wk.mu.Unlock()
			tags = append(tags, fmt.Sprintf("mb=%d", mb), fmt.Sprintf("workers=%d", nw), fmt.Sprintf("keepmode=%d", kc.mode))
			if deadlocked {
				// an observation no model can explain: the history did not finish
				ops = append(ops, `OStat "DEADLOCK"`)
				obs = append(obs, "VUnit")
				tags = append(tags, "deadlock")
			}
			saveMtx.Lock()
			sErr := saveErr
			saveMtx.Unlock()
			if sErr != nil && w == 0 {
				ops = append(ops, `OStat "SAVE-FAILED"`)
				obs = append(obs, "VUnit")
				desc = append(desc, "concurrent flush/save error: "+sErr.Error())
			}
			term := fmt.Sprintf("{| c_mb := %d; c_ops := [\n  %s];\n  c_obs := [\n  %s] |}", mb, strings.Join(ops, ";\n  "), strings.Join(obs, ";\n  "))
			d := map[string]interface{}{"index": idx, "history_no": i, "worker": w, "workers": nw, "maxBlockSize": mb, "history": desc}
			nontrivial := false
			for _, tg := range tags {
				if tg == "write-ok" {
					nontrivial = true
				}
			}
			cs.Add(idx, term, d, nontrivial, tags...)
			idx++
		}
	}
	cs.Write()
}

// c13CheckLog reads shared/log and checks that it consists of exactly the records the workers
// appended (4 bytes each: F0, worker, sequence number, 0F), each once, each worker's in order.
func c13CheckLog(fs CollectionFileSystem, nw, nrec int) string {
	f, err := fs.OpenFile("shared/log", os.O_RDONLY, 0)
	if err != nil {
		return "shared log: " + err.Error()
	}
	defer f.Close()
	var data []byte
	buf := make([]byte, 64)
	for {
		n, err := f.Read(buf)
		data = append(data, buf[:n]...)
		if err != nil {
			break
		}
	}
	if len(data) != 4*nw*nrec {
		return fmt.Sprintf("LOST-APPEND: shared log has %d bytes, %d workers appended %d records of 4 bytes each", len(data), nw, nrec)
	}
	next := make([]int, nw)
	for p := 0; p < len(data); p += 4 {
		w, k := int(data[p+1]), int(data[p+2])
		if data[p] != 0xF0 || data[p+3] != 0x0F || w >= nw || next[w] != k {
			return fmt.Sprintf("LOST-APPEND: shared log is not an interleaving of the appended records (offset %d: % x)", p, data[p:p+4])
		}
		next[w]++
	}
	return ""
}
