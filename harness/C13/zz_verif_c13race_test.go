//go:build verif

package arvados

import (
	"fmt"
	"os"
	"strings"
	"sync"
	"testing"
	"time"
)

// Real goroutines, real write throttle, ungated fake Keep (with failures), run under the race
// detector: 2-6 workers, each confined to its own directory and running a C08-style operation stream
// through its own handles, plus concurrent Flush / MarshalManifest callers.  Because the workers' files
// are disjoint, each worker's observations must be exactly those of the plain filesystem running that
// worker's stream alone: every worker becomes one case of the C08 evaluator.  A history that does not
// finish within the deadline is recorded as a failing observation (deadlock).
func TestVerifC13Race(t *testing.T) {
	seed := vSeed()
	n := vEnvInt("VERIF_N", 10)
	only := vOnly()
	stage := os.Getenv("VERIF_STAGE")
	if stage == "" {
		stage = "c13race"
	}
	maxops := vEnvInt("VERIF_OPS", 40)
	defer func(v int) { maxBlockSize = v }(maxBlockSize)
	cs := vNewCases(stage)
	idx := 0
	nDead := 0
	for i := 0; i < n && nDead < 2; i++ { // each stuck history costs a minute: two are evidence enough
		r := vCaseRand(seed, i)
		mb := []int{1, 2, 3, 5, 8}[r.Intn(5)]
		nw := 2 + r.Intn(5)
		maxBlockSize = mb
		kc := newCfsKeep()
		kc.mode = []int{0, 0, 2, 3}[r.Intn(4)]
		fs, err := (&Collection{}).FileSystem(nil, kc)
		if err != nil {
			t.Fatal(err)
		}
		type worker struct {
			se       *cfsSess
			r        *vRand
			mu       sync.Mutex // guards ops, obs, desc and the session's tag set (a stuck worker is read while it is parked)
			ops, obs []string
			desc     []string
			nops     int
			focus    bool
		}
		ws := make([]*worker, nw)
		for w := range ws {
			wk := &worker{se: &cfsSess{t: t, fs: fs, mb: mb, prefix: fmt.Sprintf("w%d/", w), tagset: map[string]bool{}},
				r: vCaseRand(seed*31+uint64(w)+1, i), nops: 5 + r.Intn(maxops), focus: r.Bool()}
			if i%3 == 2 {
				wk.se.churn, wk.focus = true, false
			}
			dir := fmt.Sprintf("w%d", w)
			if err := fs.Mkdir(dir, 0755); err != nil {
				t.Fatal(err)
			}
			wk.ops = append(wk.ops, "OMkdir "+gStr(dir))
			wk.obs = append(wk.obs, "VUnit")
			wk.desc = append(wk.desc, "mkdir "+dir)
			ws[w] = wk
		}
		var wg sync.WaitGroup
		churnHist := i%3 == 2
		stop := make(chan struct{})
		var saveErr error
		var saveMtx sync.Mutex
		for _, wk := range ws {
			wk := wk
			wg.Add(1)
			go func() {
				defer wg.Done()
				add := func(op, ob, d string) {
					wk.mu.Lock()
					wk.ops = append(wk.ops, op)
					wk.obs = append(wk.obs, ob)
					wk.desc = append(wk.desc, d+" => "+ob)
					wk.mu.Unlock()
				}
				if wk.se.churn {
					// rename storm: a directory bounces between two sibling directories of this worker
					// while the savers below walk the tree top-down in a tight loop
					p := wk.se.prefix
					for _, d := range []string{p + "sa", p + "sb", p + "sa/m"} {
						ob := "VUnit"
						if err := fs.Mkdir(d, 0755); err != nil {
							ob = c08ErrObs(err)
						}
						add("OMkdir "+gStr(d), ob, "mkdir "+d)
					}
					names := []string{p + "sa/m", p + "sb/m"}
					for k := 0; k < 300; k++ {
						a, b := names[k%2], names[(k+1)%2]
						ob := "VUnit"
						if err := fs.Rename(a, b); err != nil {
							ob = c08ErrObs(err)
						}
						add("ORename "+gStr(a)+" "+gStr(b), ob, "rename "+a+" "+b)
					}
				}
				for k := 0; k < wk.nops; k++ {
					wk.se.randomOp(wk.r, wk.focus, k, false, add)
				}
			}()
		}
		// concurrent flushers / savers
		var fg sync.WaitGroup
		for f := 0; f < 2; f++ {
			f := f
			fr := vCaseRand(seed*77+uint64(f), i)
			fg.Add(1)
			go func() {
				defer fg.Done()
				for {
					select {
					case <-stop:
						return
					default:
					}
					var err error
					switch fr.Intn(3) {
					case 0:
						err = fs.Flush("", fr.Bool())
					case 1:
						err = fs.Flush(fmt.Sprintf("w%d", fr.Intn(nw)), fr.Bool())
					default:
						_, err = fs.MarshalManifest(".")
						if err != nil && kc.mode != 0 {
							err = nil // a save may fail while the fake Keep refuses some writes
						}
					}
					if err != nil {
						saveMtx.Lock()
						saveErr = err
						saveMtx.Unlock()
					}
					if !churnHist {
						time.Sleep(time.Duration(fr.Intn(200)) * time.Microsecond)
					}
				}
			}()
		}
		done := make(chan struct{})
		go func() { wg.Wait(); close(done) }()
		deadlocked := false
		select {
		case <-done:
		case <-time.After(60 * time.Second):
			deadlocked = true
		}
		close(stop)
		if deadlocked {
			nDead++
		}
		if !deadlocked {
			fg.Wait()
			kc.mtx.Lock()
			kc.mode = 0
			kc.mtx.Unlock()
			txt, err := fs.MarshalManifest(".")
			if err != nil {
				saveErr = fmt.Errorf("final save: %v", err)
			} else if _, err := (&Collection{ManifestText: txt}).FileSystem(nil, kc); err != nil {
				saveErr = fmt.Errorf("final manifest does not load: %v", err)
			}
		}
		for w, wk := range ws {
			if only >= 0 && idx != only {
				idx++
				continue
			}
			wk.mu.Lock()
			ops, obs := append([]string{}, wk.ops...), append([]string{}, wk.obs...)
			desc := append([]string{}, wk.desc...)
			var tags []string
			if deadlocked {
				tags = []string{} // the session's tag set may still be written by a parked worker when it is released
			} else {
				tags = wk.se.tags()
			}
			wk.mu.Unlock()
			tags = append(tags, fmt.Sprintf("mb=%d", mb), fmt.Sprintf("workers=%d", nw), fmt.Sprintf("keepmode=%d", kc.mode))
			if deadlocked {
				// an observation no model can explain: the history did not finish
				ops = append(ops, `OStat "DEADLOCK"`)
				obs = append(obs, "VUnit")
				tags = append(tags, "deadlock")
			}
			saveMtx.Lock()
			sErr := saveErr
			saveMtx.Unlock()
			if sErr != nil && w == 0 {
				ops = append(ops, `OStat "SAVE-FAILED"`)
				obs = append(obs, "VUnit")
				desc = append(desc, "concurrent flush/save error: "+sErr.Error())
			}
			term := fmt.Sprintf("{| c_mb := %d; c_ops := [\n  %s];\n  c_obs := [\n  %s] |}", mb, strings.Join(ops, ";\n  "), strings.Join(obs, ";\n  "))
			d := map[string]interface{}{"index": idx, "history_no": i, "worker": w, "workers": nw, "maxBlockSize": mb, "history": desc}
			nontrivial := false
			for _, tg := range tags {
				if tg == "write-ok" {
					nontrivial = true
				}
			}
			cs.Add(idx, term, d, nontrivial, tags...)
			idx++
		}
	}
	cs.Write()
}
