//go:build verif

package arvados

import (
	"fmt"
	"os"
	"testing"
)

// One controlled schedule: foreground operations of several logical workers (handles) interleaved,
// in an order chosen here, with the completion of background Keep writes (any order, any delay, with
// failures), explicit flushes and saves.
func c13Run(t *testing.T, r *vRand, mb, nev int, focus bool) *cfsCtl {
	c := newCfsCtl(t, r, mb, true, "", nil)
	for i := 0; i < nev; i++ {
		k := r.Intn(100)
		switch {
		case c.dirty && k < 30:
			if c.kc.mode != 0 {
				c.setMode(0)
			}
			c.marshal()
		case k < 60 || (focus && i < 3):
			c.foreground(focus, i)
		case k < 78:
			c.completeOne()
		case k < 86:
			if !c.dirty {
				c.flush([]string{"", "", "d", "d/e", "a"}[r.Intn(5)], r.Bool())
			}
		case k < 93:
			c.marshal()
		default:
			c.setMode([]int{0, 0, 1, 2, 3}[r.Intn(5)])
		}
	}
	c.finish()
	return c
}

func TestVerifC13(t *testing.T) {
	seed := vSeed()
	n := vEnvInt("VERIF_N", 60)
	only := vOnly()
	stage := os.Getenv("VERIF_STAGE")
	if stage == "" {
		stage = "c13"
	}
	maxev := vEnvInt("VERIF_OPS", 50)
	defer func(v int) { maxBlockSize = v }(maxBlockSize)
	cs := vNewCases(stage)
	for i := 0; i < n; i++ {
		if only >= 0 && i != only {
			continue
		}
		r := vCaseRand(seed, i)
		mb := []int{1, 2, 3, 5, 8}[r.Intn(5)]
		nev := 10 + r.Intn(maxev)
		focus := i%2 == 1
		if cfsDeadCases >= 3 {
			break
		}
		c := c13Run(t, r, mb, nev, focus)
		if c.dead {
			cfsDeadCases++
		}
		tags := append(c.tags(), fmt.Sprintf("mb=%d", mb))
		nontrivial := false
		for _, tg := range tags {
			if tg == "complete" {
				nontrivial = true
			}
		}
		d := map[string]interface{}{"index": i, "maxBlockSize": mb, "history": c.desc}
		cs.Add(i, c.term(), d, nontrivial, tags...)
	}
	cs.Write()
}
