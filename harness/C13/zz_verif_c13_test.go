//go:build verif

package arvados

import (
	"fmt"
	"os"
	"testing"
)

// One controlled schedule: foreground operations of several logical workers (handles) interleaved,
// in an order chosen here, with the completion of background Keep writes (any order, any delay, with
// failures), explicit flushes and saves.
func c13Run(t *testing.T, r *vRand, mb, nev int, focus bool, scenario int) *cfsCtl {
	c := newCfsCtl(t, r, mb, true, "", nil)
	if scenario == 2 {
		// stratum "mutate while an asynchronous flush is in flight": small buffered segments are
		// committed in the background (Flush), then the same file is truncated / overwritten /
		// extended before the Keep write returns, then the write completes.
		na := 1 + r.Intn(2*mb+2)
		if mb >= 3 && r.Chance(2, 3) {
			na = r.Intn(3)*mb + 2 + r.Intn(mb-2) // ends in a short segment of at least 2 bytes
		}
		pack := mb >= 2 && r.Chance(1, 3)
		if pack {
			// two files small enough that the flush packs them into ONE block
			na = 1 + r.Intn(mb/2)
		}
		c.runOp(func() { c.se.scriptCreateWrite(r, "a", na, c.addOp) })
		if pack {
			c.runOp(func() { c.se.scriptCreateWrite(r, "b", 1+r.Intn(mb/2), c.addOp) })
		} else if r.Bool() {
			c.runOp(func() { c.se.scriptCreateWrite(r, "b", 1+r.Intn(mb+1), c.addOp) })
		}
		c.flush("", true)
		for k := 0; k < 1+r.Intn(3) && !c.dead; k++ {
			c.runOp(func() { c.se.scriptMutate(r, 0, c.addOp) })
			if r.Chance(1, 3) {
				c.flush("", r.Bool())
			}
			if r.Chance(1, 3) {
				c.completeOne()
			}
		}
		if r.Bool() {
			// save while the flush started above is still in flight and a file it packed was changed
			c.forceInflight = true
			c.marshal()
			c.forceInflight = false
		}
		c.completeAll()
		if !c.dead {
			c.runOp(func() { c.se.readAll("a", c.addOp) })
		}
	}
	for i := 0; i < nev; i++ {
		k := r.Intn(100)
		switch {
		case c.dirty && k < 30:
			if c.kc.mode != 0 {
				c.setMode(0)
			}
			c.marshal()
		case k < 60 || (focus && i < 3):
			c.foreground(focus, i)
		case k < 78:
			c.completeOne()
		case k < 86:
			if !c.dirty {
				c.flush([]string{"", "", "d", "d/e", "a"}[r.Intn(5)], r.Bool())
			}
		case k < 93:
			c.marshal()
		default:
			c.setMode([]int{0, 0, 1, 2, 3}[r.Intn(5)])
		}
	}
	c.finish()
	return c
}

func TestVerifC13(t *testing.T) {
	seed := vSeed()
	n := vEnvInt("VERIF_N", 60)
	only := vOnly()
	stage := os.Getenv("VERIF_STAGE")
	if stage == "" {
		stage = "c13"
	}
	maxev := vEnvInt("VERIF_OPS", 50)
	defer func(v int) { maxBlockSize = v }(maxBlockSize)
	cs := vNewCases(stage)
	for i := 0; i < n; i++ {
		if only >= 0 && i != only {
			continue
		}
		r := vCaseRand(seed, i)
		mb := []int{1, 2, 3, 5, 8}[r.Intn(5)]
		nev := 10 + r.Intn(maxev)
		focus := i%2 == 1
		if cfsDeadCases >= 3 {
			break
		}
		c := c13Run(t, r, mb, nev, focus, i%3)
		if c.dead {
			cfsDeadCases++
		}
		tags := append(c.tags(), fmt.Sprintf("mb=%d", mb))
		nontrivial := false
		for _, tg := range tags {
			if tg == "complete" {
				nontrivial = true
			}
		}
		d := map[string]interface{}{"index": i, "maxBlockSize": mb, "history": c.desc}
		cs.Add(i, c.term(), d, nontrivial, tags...)
	}
	cs.Write()
}
