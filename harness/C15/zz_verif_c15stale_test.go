//go:build verif

package scheduler

import (
	"fmt"
	"os"
	"sync"
	"testing"
	"time"

	"git.arvados.org/arvados.git/lib/dispatchcloud/container"
	"git.arvados.org/arvados.git/lib/dispatchcloud/test"
	"git.arvados.org/arvados.git/lib/dispatchcloud/worker"
	"git.arvados.org/arvados.git/sdk/go/arvados"
)

// C15 stage "stale": the real Scheduler.fixStaleLocks against a scripted pool/queue.  One snapshot
// (unknown workers?, pool.Running(), queue.Entries()) per evaluation of its loop condition; when the script
// is exhausted no further pool notification arrives and the stale-lock timer (20 ms) fires.

type stSnap struct {
	unknown bool
	running []int
	ents    [][2]int // (id, state)
}

func TestVerifC15Stale(t *testing.T) {
	seed := vSeed()
	n := vEnvInt("VERIF_N", 300)
	only := vOnly()
	stage := os.Getenv("VERIF_STAGE")
	if stage == "" {
		stage = "stale"
	}
	cs := vNewCases(stage)
	it := test.InstanceType(1)
	for i := 0; i < n; i++ {
		if only >= 0 && i != only {
			continue
		}
		r := vCaseRand(seed, i)
		nsn := 1 + r.Intn(4)
		nct := 1 + r.Intn(4)
		var snaps []stSnap
		states := make([]int, nct)
		for k := range states {
			states[k] = []int{1, 1, 1, 0, 2}[r.Intn(5)]
		}
		running := map[int]bool{}
		for k := 0; k < nsn; k++ {
			sn := stSnap{unknown: true}
			if k == nsn-1 && r.Chance(1, 2) || r.Chance(1, 8) {
				sn.unknown = false
			}
			// workers get probed: more containers are found running; the queue changes a little
			for c := 0; c < nct; c++ {
				if r.Chance(1, 4) {
					running[c+1] = true
				}
				if r.Chance(1, 10) {
					states[c] = []int{0, 1, 2, 4}[r.Intn(4)]
				}
			}
			for c := range running {
				sn.running = append(sn.running, c)
			}
			for c := 0; c < nct; c++ {
				sn.ents = append(sn.ents, [2]int{c + 1, states[c]})
			}
			snaps = append(snaps, sn)
		}
		var mtx sync.Mutex
		idx := -1
		ch := make(chan struct{}, 1)
		pool := &rqPool{itID: map[string]int{it.Name: 0}, subCh: ch}
		cur := func() stSnap {
			mtx.Lock()
			defer mtx.Unlock()
			k := idx
			if k < 0 {
				k = 0
			}
			if k >= len(snaps) {
				k = len(snaps) - 1
			}
			return snaps[k]
		}
		extra := 0
		pool.cwHook = func() map[worker.State]int {
			mtx.Lock()
			idx++
			k := idx
			if k >= len(snaps) {
				extra++
				k = len(snaps) - 1
			}
			more := idx+1 < len(snaps)
			sn := snaps[k]
			mtx.Unlock()
			if more {
				select {
				case ch <- struct{}{}:
				default:
				}
			}
			if sn.unknown {
				return map[worker.State]int{worker.StateUnknown: 1, worker.StateIdle: 1}
			}
			return map[worker.State]int{worker.StateIdle: 2}
		}
		pool.runHook = func() map[string]time.Time {
			m := map[string]time.Time{}
			for _, c := range cur().running {
				m[test.ContainerUUID(c)] = time.Time{}
			}
			return m
		}
		q := &rqQueue{pool: pool, updated: time.Now()}
		q.entHook = func() map[string]container.QueueEnt {
			m := map[string]container.QueueEnt{}
			for _, e := range cur().ents {
				uuid := test.ContainerUUID(e[0])
				m[uuid] = container.QueueEnt{Container: arvados.Container{UUID: uuid, State: rqStates[e[1]], Priority: 5}, InstanceType: it}
			}
			return m
		}
		sch := New(rqCtx(), q, pool, nil, 20*time.Millisecond, time.Second)
		sch.fixStaleLocks()
		q.mtx.Lock()
		unlocks := append([]string(nil), q.unlocks...)
		q.mtx.Unlock()
		// On a heavily loaded machine the 20 ms stale-lock timer can fire before the script is exhausted (select
		// then takes the timer although a notification is pending).  What fixStaleLocks saw is then exactly the
		// script up to the last look it took, followed by the timer: that is the case that is recorded.
		early := ""
		mtx.Lock()
		if used := idx + 1; used >= 1 && used < len(snaps) {
			snaps = snaps[:used]
			early = "short"
		}
		mtx.Unlock()
		var snS []string
		for _, sn := range snaps {
			var rs, es []string
			for _, c := range sn.running {
				rs = append(rs, fmt.Sprintf("(%s, %s)", gN(int64(c)), gZ(0)))
			}
			for _, e := range sn.ents {
				es = append(es, fmt.Sprintf("E %s %s %s %s", gN(int64(e[0])), gN(int64(e[1])), gZ(5), gN(0)))
			}
			snS = append(snS, fmt.Sprintf("(%s, %s, %s)", gBool(sn.unknown), gList(rs), gList(es)))
		}
		term := fmt.Sprintf("mkst %s %s", gList(snS), gList(unlocks))
		desc := map[string]interface{}{"snapshots(unknown,running,ents)": snS, "unlocked": unlocks, "extra_looks": extra}
		cs.Add(i, term, desc, len(unlocks) > 0, fmt.Sprintf("snaps=%d", len(snaps)), fmt.Sprintf("unlocked=%d", len(unlocks)), "timer="+early)
	}
	cs.Write()
}
