//go:build verif

package arvados

import (
	"crypto/md5"
	"fmt"
	"os"
	"strings"
	"testing"
)

func c09Escape(s string) string {
	var b strings.Builder
	for i := 0; i < len(s); i++ {
		c := s[i]
		if c <= 32 || c == ':' || c == '\\' {
			fmt.Fprintf(&b, "\\%03o", c)
		} else {
			b.WriteByte(c)
		}
	}
	return b.String()
}

var c09Names = []string{"a", "b", "f", "a b", "c:d", "q\\r", "x\\040y", "\xe9\xff", "tab\there", "g"}

// c09Manifest generates a valid manifest with its blocks: 0-3 streams, blocks of size 0..2mb+3
// (including empty ones in interior positions), file tokens at arbitrary alignments (including empty
// and repeated ones), names with space, colon, backslash, backslash-digit sequences and high bytes.
func c09Manifest(r *vRand, mb int) (txt string, blocks [][]byte, files []string) {
	dirs := []string{".", "./d", "./d/e", "./e"}
	seenFile := map[string]bool{}
	for _, dir := range dirs {
		if !r.Chance(1, 2) {
			continue
		}
		if r.Chance(1, 8) && dir != "." {
			// an empty directory
			txt += c09Escape(dir) + " d41d8cd98f00b204e9800998ecf8427e+0 0:0:\\056\n"
			continue
		}
		nblk := 1 + r.Intn(3)
		var locs []string
		total := 0
		for b := 0; b < nblk; b++ {
			size := []int{0, 1, mb - 1, mb, mb + 1, 2*mb + 1, r.Intn(2*mb + 4)}[r.Intn(7)]
			if size < 0 {
				size = 0
			}
			data := make([]byte, size)
			for j := range data {
				data[j] = byte(1 + r.Intn(250))
			}
			blocks = append(blocks, data)
			locs = append(locs, fmt.Sprintf("%x+%d", md5.Sum(data), size))
			total += size
		}
		ntok := 1 + r.Intn(3)
		var toks []string
		for k := 0; k < ntok; k++ {
			name := c09Names[r.Intn(len(c09Names))]
			pos := r.Intn(total + 1)
			ln := r.Intn(total - pos + 1)
			switch r.Intn(6) {
			case 0:
				ln = 0
			case 1:
				pos, ln = 0, total
			}
			toks = append(toks, fmt.Sprintf("%d:%d:%s", pos, ln, c09Escape(name)))
			p := strings.TrimPrefix(strings.TrimPrefix(dir, "."), "/")
			if p != "" {
				p += "/"
			}
			if !seenFile[p+name] {
				seenFile[p+name] = true
				files = append(files, p+name)
			}
		}
		txt += c09Escape(dir) + " " + strings.Join(locs, " ") + " " + strings.Join(toks, " ") + "\n"
	}
	return
}

// One sequential history: load a manifest, operate, save under changing Keep failure modes; every
// background write completes right after the operation that started it.
func c09Run(t *testing.T, r *vRand, mb, nev int, kind int) *cfsCtl {
	var txt string
	var blocks [][]byte
	var files []string
	if kind != 0 {
		txt, blocks, files = c09Manifest(r, mb)
	}
	c := newCfsCtl(t, r, mb, true, txt, blocks)
	c.se.known = append(c.se.known, files...)
	if kind == 1 {
		// first operation on files that came with the manifest
		for k, name := range files {
			if k >= 3 || c.dead {
				break
			}
			if r.Chance(2, 3) {
				name := name
				c.runOp(func() { c.se.firstTouch(r, name, c.addOp) })
				c.completeAll()
			}
		}
	}
	if kind == 1 && strings.Contains(txt, "./d/e ") && r.Chance(2, 3) && !c.dead {
		c.runOp(func() { c.se.probeNested(r, c.addOp) })
		c.completeAll()
	}
	if kind == 2 {
		// load and save unchanged
		c.marshal()
		nev = r.Intn(6)
	}
	for i := 0; i < nev; i++ {
		k := r.Intn(100)
		switch {
		case c.dirty && k < 40:
			if c.kc.mode != 0 {
				c.setMode(0)
			}
			c.marshal()
		case k < 70:
			c.foreground(false, i+3)
			c.completeAll()
		case k < 78:
			if !c.dirty {
				c.flush([]string{"", "", "d", "d/e", "e"}[r.Intn(5)], r.Bool())
				c.completeAll()
			}
		case k < 92:
			c.marshal()
		default:
			if os.Getenv("VERIF_C09_NOFAIL") == "" {
				c.setMode([]int{0, 1, 1, 2, 3}[r.Intn(5)])
			}
		}
	}
	c.finish()
	return c
}

func TestVerifC09(t *testing.T) {
	seed := vSeed()
	n := vEnvInt("VERIF_N", 60)
	only := vOnly()
	stage := os.Getenv("VERIF_STAGE")
	if stage == "" {
		stage = "c09"
	}
	maxev := vEnvInt("VERIF_OPS", 40)
	defer func(v int) { maxBlockSize = v }(maxBlockSize)
	cs := vNewCases(stage)
	for i := 0; i < n; i++ {
		if only >= 0 && i != only {
			continue
		}
		r := vCaseRand(seed, i)
		mb := []int{1, 2, 3, 5, 8}[r.Intn(5)]
		nev := 5 + r.Intn(maxev)
		kind := i % 3 // 0: from the empty collection, 1: from a generated manifest, 2: load and save unchanged
		if os.Getenv("VERIF_C09_KIND") != "" {
			kind = vEnvInt("VERIF_C09_KIND", kind)
		}
		if cfsDeadCases >= 3 {
			break
		}
		c := c09Run(t, r, mb, nev, kind)
		if c.dead {
			cfsDeadCases++
		}
		tags := append(c.tags(), fmt.Sprintf("mb=%d", mb), fmt.Sprintf("kind=%d", kind))
		nontrivial := false
		for _, tg := range tags {
			if tg == "save-ok" {
				nontrivial = true
			}
		}
		d := map[string]interface{}{"index": i, "maxBlockSize": mb, "initial_manifest": c.initTxt, "history": c.desc}
		cs.Add(i, c.term(), d, nontrivial, tags...)
	}
	cs.Write()
}
