//go:build verif

package crunchrun

// C17: real directory trees under TMPDIR (<tmp>/h1/h2/out, depth <= 4, <= 40 entries, odd names, relative and
// absolute links, chains, cycles, fifos), 0-2 read-only collection mounts whose manifests come from the C10
// generator, 0-2 secret mounts, optionally an excluded mount, a json mount and a second "tmp" mount; the real
// copier.Copy() with a fake Keep; the returned manifest is loaded into a collection filesystem over the same fake
// Keep and walked.  The case carries the tree, the mounts and the listing (or Err / Panic).

import (
	"crypto/md5"
	"fmt"
	"io"
	"io/ioutil"
	"log"
	"os"
	"sort"
	"strings"
	"sync"
	"syscall"
	"testing"
	"time"

	"git.arvados.org/arvados.git/sdk/go/arvados"
	"git.arvados.org/arvados.git/sdk/go/manifest"
)

type c17Keep struct {
	mtx    sync.Mutex
	blocks map[string][]byte
}

func (k *c17Keep) ReadAt(loc string, p []byte, off int) (int, error) {
	k.mtx.Lock()
	defer k.mtx.Unlock()
	if len(loc) < 32 {
		return 0, os.ErrNotExist
	}
	b, ok := k.blocks[loc[:32]]
	if !ok {
		return 0, os.ErrNotExist
	}
	if off > len(b) {
		return 0, io.ErrUnexpectedEOF
	}
	return copy(p, b[off:]), nil
}
func (k *c17Keep) PutB(p []byte) (string, int, error) {
	h := fmt.Sprintf("%x", md5.Sum(p))
	k.mtx.Lock()
	defer k.mtx.Unlock()
	k.blocks[h] = append([]byte(nil), p...)
	return fmt.Sprintf("%s+%d", h, len(p)), 1, nil
}
func (k *c17Keep) LocalLocator(l string) (string, error) { return l, nil }
func (k *c17Keep) ClearBlockCache()                       {}
func (k *c17Keep) ManifestFileReader(m manifest.Manifest, filename string) (arvados.File, error) {
	return nil, fmt.Errorf("unused")
}

type c17Node struct {
	Kind   string // file, dir, link, fifo
	Data   string
	Target string
	Names  []string
	Kids   map[string]*c17Node
}

func (n *c17Node) add(name string, k *c17Node) bool {
	if _, dup := n.Kids[name]; dup {
		return false
	}
	n.Kids[name] = k
	n.Names = append(n.Names, name)
	return true
}
func c17Dir() *c17Node { return &c17Node{Kind: "dir", Kids: map[string]*c17Node{}} }

func (n *c17Node) term() string {
	switch n.Kind {
	case "file":
		return "(File " + c10Str(n.Data) + ")"
	case "link":
		return "(Link " + c10Str(n.Target) + ")"
	case "fifo":
		return "Special"
	}
	var xs []string
	for _, nm := range n.Names {
		xs = append(xs, "("+c10Str(nm)+", "+n.Kids[nm].term()+")")
	}
	return "(Dir " + gList(xs) + ")"
}
func (n *c17Node) count() int {
	c := 1
	for _, k := range n.Kids {
		c += k.count()
	}
	return c
}
func (n *c17Node) materialize(path string) error {
	switch n.Kind {
	case "file":
		return ioutil.WriteFile(path, []byte(n.Data), 0644)
	case "link":
		return os.Symlink(n.Target, path)
	case "fifo":
		return syscall.Mkfifo(path, 0644)
	}
	if err := os.MkdirAll(path, 0755); err != nil {
		return err
	}
	for _, nm := range n.Names {
		if err := n.Kids[nm].materialize(path + "/" + nm); err != nil {
			return err
		}
	}
	return nil
}

type c17Mount struct {
	Path   string
	Kind   string
	Text   string
	Sub    string
	Exclude bool
}
type c17Sib struct {
	Name string
	Node *c17Node
}
type c17Case struct {
	Root    *c17Node
	Sibs    []c17Sib // other directories next to the output directory on the host (<tmp>/h1/h2/<Name>)
	Mounts  []c17Mount
	Secrets []string
	Store   map[string][]byte
	Tags    []string
}

const c17Ctr = "/ctr/outdir"

var c17Names = []string{"a", "b", "c d", "e:f", "x\\y", "caf\xc3\xa9", "sub", "d1", "f2", "real", "s", ".hidden", "z.txt", "q\\040r", "\x01\x7f\xff", "100%"}

// all paths (relative to the output dir) of directories / of non-directories in the tree
func c17Paths(n *c17Node, prefix string, dirs, others *[]string) {
	for _, nm := range n.Names {
		p := nm
		if prefix != "" {
			p = prefix + "/" + nm
		}
		k := n.Kids[nm]
		if k.Kind == "dir" {
			*dirs = append(*dirs, p)
			c17Paths(k, p, dirs, others)
		} else {
			*others = append(*others, p)
		}
	}
}

func c17GenTree(r *vRand, n *c17Node, depth int, budget *int) {
	nk := r.Intn(6)
	if depth == 0 {
		nk = 1 + r.Intn(6)
	}
	for i := 0; i < nk && *budget > 0; i++ {
		name := c17Names[r.Intn(len(c17Names))]
		var k *c17Node
		switch x := r.Intn(10); {
		case x < 5:
			size := []int{0, 1, 5, 17, 64, 200}[r.Intn(6)]
			k = &c17Node{Kind: "file", Data: string(c10Data(r, size))}
		case x < 8 && depth < 3:
			k = c17Dir()
			*budget--
			c17GenTree(r, k, depth+1, budget)
		default:
			k = &c17Node{Kind: "file", Data: name}
		}
		if n.add(name, k) {
			*budget--
		}
	}
}

// relative path from directory `from` (rel to outdir, "" = root) to `to`
func c17Rel(from, to string) string {
	var f, t []string
	if from != "" {
		f = strings.Split(from, "/")
	}
	if to != "" {
		t = strings.Split(to, "/")
	}
	i := 0
	for i < len(f) && i < len(t) && f[i] == t[i] {
		i++
	}
	parts := []string{}
	for range f[i:] {
		parts = append(parts, "..")
	}
	parts = append(parts, t[i:]...)
	if len(parts) == 0 {
		return "."
	}
	return strings.Join(parts, "/")
}

func c17Lookup(root *c17Node, p string) *c17Node {
	n := root
	if p == "" {
		return n
	}
	for _, c := range strings.Split(p, "/") {
		if n == nil || n.Kind != "dir" {
			return nil
		}
		n = n.Kids[c]
	}
	return n
}

func c17Gen(r *vRand) *c17Case {
	c := &c17Case{Root: c17Dir(), Store: map[string][]byte{}}
	tag := func(t string) { c.Tags = append(c.Tags, t) }
	budget := 6 + r.Intn(26)
	c17GenTree(r, c.Root, 0, &budget)
	c.Mounts = append(c.Mounts, c17Mount{Path: c17Ctr, Kind: "tmp"})
	// collection mounts
	ncoll := r.Intn(3)
	var collPaths []string // some paths inside the collections (container namespace) to point links at
	for k := 0; k < ncoll; k++ {
		m := c10Gen(r)
		for h, d := range m.Store {
			c.Store[h] = d
		}
		mp := fmt.Sprintf("/mnt/c%d", k+1)
		if r.Chance(1, 3) {
			name := fmt.Sprintf("cm%d", k+1)
			mp = c17Ctr + "/" + name
			d := c17Dir()
			if r.Bool() {
				d.add("junk", &c17Node{Kind: "file", Data: "hidden by the mount"})
			}
			if r.Bool() {
				c.Root.add(name, d)
				tag("collection-below-output")
			} else {
				// mounted one level down (/ctr/outdir/runK/ref) with symlinks to the ancestor directory of the mount
				// point: "latestK -> runK" at the top and one nested in another directory, so that the links are met
				// by a directory listing and the mount must show up under their names too
				run := fmt.Sprintf("run%d", k+1)
				rd := c17Dir()
				rd.add("log", &c17Node{Kind: "file", Data: "log of " + run})
				rd.add("ref", d)
				if c.Root.add(run, rd) {
					mp = c17Ctr + "/" + run + "/ref"
					c.Root.add(fmt.Sprintf("latest%d", k+1), &c17Node{Kind: "link", Target: []string{run, c17Ctr + "/" + run}[r.Intn(2)]})
					nd := c17Dir()
					nd.add("cur", &c17Node{Kind: "link", Target: "../" + run})
					if r.Bool() {
						nd.add("curref", &c17Node{Kind: "link", Target: "../" + run + "/ref"})
					}
					c.Root.add(fmt.Sprintf("nest%d", k+1), nd)
					tag("collection-one-level-below-output+links-to-ancestor")
				} else {
					c.Root.add(name, d)
					tag("collection-below-output")
				}
			}
		}
		sub := ""
		if len(m.Dirs) > 1 && r.Chance(1, 4) {
			sub = strings.TrimPrefix(m.Dirs[1+r.Intn(len(m.Dirs)-1)], "./")
			tag("mount-path")
		}
		c.Mounts = append(c.Mounts, c17Mount{Path: mp, Kind: "collection", Text: m.Text, Sub: sub})
		collPaths = append(collPaths, mp, mp+"/nonexistent")
		for _, f := range m.Files {
			collPaths = append(collPaths, mp+strings.TrimPrefix(f, "."))
		}
		for _, d := range m.Dirs {
			if d != "." {
				collPaths = append(collPaths, mp+strings.TrimPrefix(d, "."))
			}
		}
	}
	tag(fmt.Sprintf("collections=%d", ncoll))
	// secrets
	nsec := r.Intn(3)
	var secPaths []string
	for k := 0; k < nsec; k++ {
		sp := fmt.Sprintf("/secret/s%d", k+1)
		if r.Bool() {
			name := fmt.Sprintf("sec%d", k+1)
			sp = c17Ctr + "/" + name
			c.Root.add(name, &c17Node{Kind: "file", Data: "TOP-SECRET-" + name})
			tag("secret-below-output")
		}
		c.Secrets = append(c.Secrets, sp)
		secPaths = append(secPaths, sp)
	}
	tag(fmt.Sprintf("secrets=%d", nsec))
	if r.Chance(1, 10) {
		c.Root.add("excl", c17Dir())
		c.Mounts = append(c.Mounts, c17Mount{Path: c17Ctr + "/excl", Kind: "collection", Text: ". d41d8cd98f00b204e9800998ecf8427e+0 0:0:x\n", Exclude: true})
		tag("excluded-mount")
	}
	if r.Chance(1, 10) {
		c.Root.add("j.json", &c17Node{Kind: "file", Data: "{\"a\":1}"})
		c.Mounts = append(c.Mounts, c17Mount{Path: c17Ctr + "/j.json", Kind: "json"})
		tag("json-mount")
	}
	othertmp := r.Chance(1, 6)
	if othertmp {
		c.Mounts = append(c.Mounts, c17Mount{Path: []string{"/tmp", "/scratch/longer"}[r.Intn(2)], Kind: "tmp"})
		tag("second-tmp-mount")
	}
	// links
	var dirs, others []string
	c17Paths(c.Root, "", &dirs, &others)
	alldirs := append([]string{""}, dirs...)
	nlinks := r.Intn(6)
	if r.Chance(1, 4) {
		nlinks = 0
	}
	var linkPaths []string
	for i := 0; i < nlinks; i++ {
		parent := alldirs[r.Intn(len(alldirs))]
		pn := c17Lookup(c.Root, parent)
		if pn == nil || pn.Kind != "dir" {
			continue
		}
		name := fmt.Sprintf("l%d", i+1)
		here := name
		if parent != "" {
			here = parent + "/" + name
		}
		// choose what to point at
		var target, what string
		pickInside := func() string {
			all := append(append(append([]string{}, dirs...), others...), linkPaths...)
			if len(all) == 0 {
				return "nothing"
			}
			return all[r.Intn(len(all))]
		}
		switch x := r.Intn(23); {
		case x < 6: // relative, inside
			target, what = c17Rel(parent, pickInside()), "rel"
		case x < 9: // absolute, inside
			target, what = c17Ctr+"/"+pickInside(), "abs"
		case x < 12 && len(collPaths) > 0:
			target, what = collPaths[r.Intn(len(collPaths))], "collection"
		case x < 13 && len(secPaths) > 0:
			target, what = secPaths[r.Intn(len(secPaths))], "secret"
		case x < 14: // escaping
			target, what = []string{"../../../boop", "/etc/passwd", "/ctr/other", "/mnt", "/", "../" + strings.Repeat("../", strings.Count(parent, "/")+1) + "x"}[r.Intn(6)], "escaping"
		case x < 15: // dangling
			target, what = "missing-"+name, "dangling"
		case x < 16: // cycle: to itself, to its directory, to the output root
			target, what = []string{name, ".", c17Rel(parent, ""), c17Ctr}[r.Intn(4)], "cycle"
		case x < 17 && othertmp:
			target, what = c.Mounts[len(c.Mounts)-1].Path+[]string{"/x", "", "/y/z"}[r.Intn(3)], "other-tmp"
		case x < 18: // through another link (intermediate component)
			if len(linkPaths) > 0 {
				via := linkPaths[r.Intn(len(linkPaths))]
				target, what = c17Rel(parent, via)+"/"+c17Names[r.Intn(len(c17Names))], "via-link"
			} else {
				target, what = c17Rel(parent, pickInside()), "rel"
			}
		case x >= 20: // a path OUTSIDE every mount whose name merely extends a mount point's name (no slash)
			var bases []string
			for _, m := range c.Mounts {
				bases = append(bases, m.Path)
			}
			bases = append(bases, c.Secrets...)
			b := bases[r.Intn(len(bases))]
			abs := b + []string{"-old/x", "2", ".bak/y", "-old", "x/" + c17Names[r.Intn(len(c17Names))]}[r.Intn(5)]
			if r.Bool() {
				target = abs
			} else {
				// the same place, written relative to the link's directory
				ups := 2 + strings.Count(parent, "/")
				if parent != "" {
					ups++
				}
				target = strings.Repeat("../", ups) + strings.TrimPrefix(abs, "/")
			}
			what = "mount-name-sibling"
		case x < 19: // ".." after a component (lexical vs physical)
			target, what = c17Rel(parent, pickInside())+"/../"+c17Names[r.Intn(len(c17Names))], "dotdot"
		default:
			target, what = c17Rel(parent, pickInside()), "rel"
		}
		if pn.add(name, &c17Node{Kind: "link", Target: target}) {
			linkPaths = append(linkPaths, here)
			tag("link=" + what)
		}
	}
	// the two replayed shapes, now and then
	switch r.Intn(30) {
	case 0: // F11
		b := c17Dir()
		b.add("x", &c17Node{Kind: "file", Data: "hello"})
		if c.Root.add("f11b", b) {
			c.Root.add("f11a", &c17Node{Kind: "link", Target: c17Ctr + "/f11b"})
			c.Root.add("f11l", &c17Node{Kind: "link", Target: "f11a/x"})
			tag("shape=F11")
		}
	case 1: // F16
		s := c17Dir()
		rl := c17Dir()
		s.add("real", rl)
		s.add("f2", &c17Node{Kind: "file", Data: "B-inner"})
		if c.Root.add("f16s", s) {
			c.Root.add("f2", &c17Node{Kind: "file", Data: "A-top"})
			c.Root.add("f16d", &c17Node{Kind: "link", Target: "f16s/real"})
			c.Root.add("f16l", &c17Node{Kind: "link", Target: "f16d/../f2"})
			tag("shape=F16")
		}
	case 2: // long chain
		n := 9 + r.Intn(5)
		c.Root.add("chain0", &c17Node{Kind: "file", Data: "end of chain"})
		for i := 1; i <= n; i++ {
			c.Root.add(fmt.Sprintf("chain%d", i), &c17Node{Kind: "link", Target: fmt.Sprintf("chain%d", i-1)})
		}
		tag(fmt.Sprintf("chain=%d", n))
	case 3: // fifo
		if c.Root.add("fifo", &c17Node{Kind: "fifo"}) {
			tag("special-file")
		}
	case 8: // F18: a link to a file that a json mount provides inside the output dir
		has := false
		for _, m := range c.Mounts {
			if m.Kind == "json" {
				has = true
			}
		}
		if !has && c.Root.add("j.json", &c17Node{Kind: "file", Data: "{\"a\":1}"}) {
			c.Mounts = append(c.Mounts, c17Mount{Path: c17Ctr + "/j.json", Kind: "json"})
			has = true
		}
		if has && c.Root.add("f18l", &c17Node{Kind: "link", Target: "j.json"}) {
			tag("shape=F18")
		}
	case 5, 6: // absolute link targets that are not clean (to a file, to a secret below the output dir)
		c.Root.add("ncfile", &c17Node{Kind: "file", Data: "plain"})
		tgt := c17Ctr + []string{"/./ncfile", "//ncfile", "/sub/../ncfile", "/ncfile/"}[r.Intn(4)]
		for _, s := range c.Secrets {
			if strings.HasPrefix(s, c17Ctr+"/") && r.Bool() {
				tgt = c17Ctr + []string{"/./", "//", "/x/../"}[r.Intn(3)] + strings.TrimPrefix(s, c17Ctr+"/")
			}
		}
		if c.Root.add("ncl", &c17Node{Kind: "link", Target: tgt}) {
			tag("shape=unclean-absolute-target")
		}
	case 7: // a secret below the output dir reached through a symlinked directory (F16, secret form)
		sub := c17Dir()
		sub.add("sec", &c17Node{Kind: "file", Data: "TOP-SECRET-sub"})
		if c.Root.add("f16sub", sub) {
			c.Secrets = append(c.Secrets, c17Ctr+"/f16sub/sec")
			c.Root.add("f16sd", &c17Node{Kind: "link", Target: "f16sub"})
			c.Root.add("f16sl", &c17Node{Kind: "link", Target: "f16sd/sec"})
			tag("shape=F16-secret")
		}
	case 4: // two-link cycle
		c.Root.add("cycA", &c17Node{Kind: "link", Target: "cycB"})
		c.Root.add("cycB", &c17Node{Kind: "link", Target: "cycA"})
		tag("link=cycle")
	}
	// mount points whose NAME extends another path's name without a slash (a sibling, not a descendant).  Drawn last,
	// so that the rest of the case is the same as without this stratum.
	if r.Chance(1, 4) {
		c17NameExt(r, c)
	}
	return c
}

// c17NameExt adds one mount whose mount point has another path as a plain string prefix but does not lie below it:
// <output dir><ext> (a collection, or a second "tmp" mount together with a host directory out<ext> next to the output
// directory), <directory of the output tree><ext>, <another collection's mount point><ext>; and symlinks to the
// shorter path at the top of the output tree and inside a directory, so that the copier looks for "mounts below" it.
func c17NameExt(r *vRand, c *c17Case) {
	tag := func(t string) { c.Tags = append(c.Tags, t) }
	ext := []string{"bar", "2", "-old", ".d", "_1", "x/ref"}[r.Intn(6)]
	// a small collection with recognisable content (now and then a generated one)
	data := []byte("content of the mount at ..." + ext)
	h := fmt.Sprintf("%x", md5.Sum(data))
	text := fmt.Sprintf(". %s+%d 0:%d:x.txt\n", h, len(data), len(data))
	if r.Bool() {
		text += fmt.Sprintf("./sub %s+%d 3:4:y\n", h, len(data))
	}
	store := map[string][]byte{h: data}
	if r.Chance(1, 4) {
		m := c10Gen(r)
		text, store = m.Text, m.Store
	}
	addColl := func(mp string) {
		for k, d := range store {
			c.Store[k] = d
		}
		c.Mounts = append(c.Mounts, c17Mount{Path: mp, Kind: "collection", Text: text})
	}
	// host directory for a mount point below the output dir: <parent>/<name><ext> (for "x/ref": <name>x/ref)
	addHostDir := func(pn *c17Node, name string) bool {
		d := c17Dir()
		if r.Bool() {
			d.add("junk", &c17Node{Kind: "file", Data: "hidden by the mount"})
		}
		if i := strings.Index(ext, "/"); i >= 0 {
			up := c17Dir()
			up.add(ext[i+1:], d)
			if r.Bool() {
				up.add("note", &c17Node{Kind: "file", Data: "next to the mount point"})
			}
			return pn.add(name+ext[:i], up)
		}
		return pn.add(name+ext, d)
	}
	var dirs, others []string
	c17Paths(c.Root, "", &dirs, &others)
	// links to `to` (relative to the output dir): one at the top, now and then one inside another directory
	linkTo := func(to string) {
		tgt := to
		if r.Bool() {
			tgt = c17Ctr + "/" + to
		}
		c.Root.add("nxl", &c17Node{Kind: "link", Target: tgt})
		if len(dirs) > 0 && r.Bool() {
			q := dirs[r.Intn(len(dirs))]
			qn := c17Lookup(c.Root, q)
			if q != to && !strings.HasPrefix(q+"/", to+"/") && qn != nil && qn.Kind == "dir" {
				qn.add("nxn", &c17Node{Kind: "link", Target: c17Rel(q, to)})
			}
		}
	}
	var outside []string // collection mount points outside the output dir
	for _, m := range c.Mounts {
		if m.Kind == "collection" && !m.Exclude && !strings.HasPrefix(m.Path, c17Ctr+"/") {
			outside = append(outside, m.Path)
		}
	}
	switch v := r.Intn(8); {
	case v < 2: // a collection next to the output dir: /ctr/outdir2, /ctr/outdirx/ref
		addColl(c17Ctr + ext)
		if r.Bool() {
			c.Root.add("nxo", &c17Node{Kind: "link", Target: c17Ctr + ext + []string{"", "/x.txt"}[r.Intn(2)]})
		}
		tag("mountpoint=extends-outdir-name")
	case v == 2: // a second tmp mount next to the output dir, and the host directory of the same name next to out/
		e := strings.Replace(ext, "/", "", -1)
		sib := c17Dir()
		sib.add("x", &c17Node{Kind: "file", Data: "file of the other tmp mount"})
		y := c17Dir()
		y.add("z", &c17Node{Kind: "file", Data: "deeper"})
		sib.add("y", y)
		c.Sibs = append(c.Sibs, c17Sib{Name: "out" + e, Node: sib})
		c.Mounts = append(c.Mounts, c17Mount{Path: c17Ctr + e, Kind: "tmp"})
		c.Root.add("nxt", &c17Node{Kind: "link", Target: []string{c17Ctr + e, "../outdir" + e}[r.Intn(2)] + []string{"/x", "/y", "/y/z", ""}[r.Intn(4)]})
		tag("tmp-mount=extends-outdir-name+host-sibling")
	case v == 3 && len(outside) > 0: // next to another collection's mount point: /mnt/c1 and /mnt/c12
		base := outside[r.Intn(len(outside))]
		addColl(base + ext)
		c.Root.add("nxl", &c17Node{Kind: "link", Target: base})
		if r.Bool() {
			c.Root.add("nxm", &c17Node{Kind: "link", Target: base + ext})
		}
		tag("mountpoint=extends-mount-name")
	default: // next to a directory of the output tree (which may itself be a mount point or hold one)
		if len(dirs) == 0 || r.Chance(1, 5) {
			foo := c17Dir()
			foo.add("a.txt", &c17Node{Kind: "file", Data: "in foo"})
			if !c.Root.add("foo", foo) {
				return
			}
			dirs = append(dirs, "foo")
		}
		d := dirs[r.Intn(len(dirs))]
		parent, name := "", d
		if i := strings.LastIndex(d, "/"); i >= 0 {
			parent, name = d[:i], d[i+1:]
		}
		pn := c17Lookup(c.Root, parent)
		if pn == nil || pn.Kind != "dir" || !addHostDir(pn, name) {
			return
		}
		addColl(c17Ctr + "/" + d + ext)
		linkTo(d)
		if r.Chance(1, 3) {
			c.Root.add("nxm", &c17Node{Kind: "link", Target: d + ext})
		}
		tag("mountpoint=extends-dir-name")
	}
}

type c17Entry struct {
	Path  string
	Dir   bool
	Bytes string
}

func c17Walk(fs arvados.CollectionFileSystem, dir string, out *[]c17Entry) error {
	f, err := fs.Open(dir)
	if err != nil {
		return err
	}
	fis, err := f.Readdir(-1)
	f.Close()
	if err != nil {
		return err
	}
	for _, fi := range fis {
		p := dir + "/" + fi.Name()
		if fi.IsDir() {
			*out = append(*out, c17Entry{Path: p, Dir: true})
			if err := c17Walk(fs, p, out); err != nil {
				return err
			}
			continue
		}
		g, err := fs.Open(p)
		if err != nil {
			return err
		}
		data, err := ioutil.ReadAll(g)
		g.Close()
		if err != nil {
			return fmt.Errorf("read %q: %v", p, err)
		}
		*out = append(*out, c17Entry{Path: p, Bytes: string(data)})
	}
	return nil
}

func c17Run(c *c17Case) (outcome string, list []c17Entry, detail string) {
	tmp, err := ioutil.TempDir("", "c17-")
	if err != nil {
		return "infra", nil, err.Error()
	}
	defer os.RemoveAll(tmp)
	out := tmp + "/h1/h2/out"
	if err := c.Root.materialize(out); err != nil {
		return "infra", nil, err.Error()
	}
	for _, sb := range c.Sibs {
		if err := sb.Node.materialize(tmp + "/h1/h2/" + sb.Name); err != nil {
			return "infra", nil, err.Error()
		}
	}
	kc := &c17Keep{blocks: map[string][]byte{}}
	for h, d := range c.Store {
		kc.blocks[h] = d
	}
	mounts := map[string]arvados.Mount{}
	cache := map[string]*manifest.Manifest{}
	for i, m := range c.Mounts {
		pdh := fmt.Sprintf("%032x+%d", i+1, len(m.Text))
		mounts[m.Path] = arvados.Mount{Kind: m.Kind, PortableDataHash: pdh, Path: m.Sub, ExcludeFromOutput: m.Exclude}
		if m.Kind == "collection" {
			cache[pdh] = &manifest.Manifest{Text: m.Text}
		}
	}
	secrets := map[string]arvados.Mount{}
	for _, s := range c.Secrets {
		secrets[s] = arvados.Mount{Kind: "text", Content: "xyzzy"}
	}
	cp := copier{
		keepClient:    kc,
		hostOutputDir: out,
		ctrOutputDir:  c17Ctr,
		mounts:        mounts,
		secretMounts:  secrets,
		logger:        log.New(ioutil.Discard, "", 0),
		manifestCache: cache,
	}
	type res struct {
		txt string
		err error
		pan interface{}
	}
	ch := make(chan res, 1)
	go func() {
		var r res
		defer func() {
			if e := recover(); e != nil {
				r.pan = e
			}
			ch <- r
		}()
		r.txt, r.err = cp.Copy()
	}()
	var r res
	select {
	case r = <-ch:
	case <-time.After(30 * time.Second):
		return "panic", nil, "hang (no result after 30 s)"
	}
	if r.pan != nil {
		return "panic", nil, fmt.Sprint(r.pan)
	}
	if r.err != nil {
		return "err", nil, r.err.Error()
	}
	fs, err := (&arvados.Collection{ManifestText: r.txt}).FileSystem(nil, kc)
	if err != nil {
		// Copy reported success but what it produced is not a loadable collection: judged like a crash
		return "panic", nil, "saved manifest does not load: " + err.Error()
	}
	if err := c17Walk(fs, ".", &list); err != nil {
		return "panic", nil, "walk of the saved collection: " + err.Error()
	}
	sort.Slice(list, func(i, j int) bool { return list[i].Path < list[j].Path })
	return "ok", list, r.txt
}

func TestVerifC17(t *testing.T) {
	seed := vSeed()
	n := vEnvInt("VERIF_N", 100)
	only := vOnly()
	stage := os.Getenv("VERIF_STAGE")
	if stage == "" {
		stage = "c17"
	}
	cs := vNewCases(stage)
	for i := 0; i < n; i++ {
		if only >= 0 && i != only {
			continue
		}
		c := c17Gen(vCaseRand(seed, i))
		outcome, list, detail := c17Run(c)
		if outcome == "infra" {
			t.Fatalf("case %d: %s", i, detail)
		}
		h2 := []string{"(\"out\", " + c.Root.term()[1:len(c.Root.term())-1] + ")"}
		for _, sb := range c.Sibs {
			h2 = append(h2, "("+c10Str(sb.Name)+", "+sb.Node.term()[1:len(sb.Node.term())-1]+")")
		}
		host := "(Dir [(\"h1\", Dir [(\"h2\", Dir " + gList(h2) + ")])])"
		var ms, ss, st []string
		for _, m := range c.Mounts {
			ms = append(ms, fmt.Sprintf("(%s, M %s %s %s false %s)", c10Str(m.Path), c10Str(m.Kind), c10Str(m.Text), c10Str(m.Sub), gBool(m.Exclude)))
		}
		for _, s := range c.Secrets {
			ss = append(ss, c10Str(s))
		}
		var keys []string
		for h := range c.Store {
			keys = append(keys, h)
		}
		sort.Strings(keys)
		for _, h := range keys {
			st = append(st, "("+c10Str(h)+", "+c10Str(string(c.Store[h]))+")")
		}
		var obs string
		switch outcome {
		case "ok":
			var es []string
			for _, e := range list {
				es = append(es, fmt.Sprintf("(%s, %s, %s)", c10Str(e.Path), gBool(e.Dir), c10Str(e.Bytes)))
			}
			obs = "(ObsOk " + gList(es) + ")"
		case "err":
			obs = "ObsErr"
		default:
			obs = "ObsPanic"
		}
		term := fmt.Sprintf("{| c_cfg := {| c_host := %s; c_hout := [\"h1\"; \"h2\"; \"out\"]; c_ctr := %s;\n     c_mounts := %s; c_secrets := %s |};\n   c_store := %s;\n   o_res := %s |}",
			host, c10Str(c17Ctr), gList(ms), gList(ss), gList(st), obs)
		desc := map[string]interface{}{"index": i, "tree": c.Root, "host_siblings": c.Sibs, "mounts": c.Mounts, "secrets": c.Secrets, "outcome": outcome,
			"detail": detail, "listing": list, "tags": c.Tags}
		tags := append([]string{"outcome=" + outcome, fmt.Sprintf("entries=%d", bucket17(c.Root.count()))}, c.Tags...)
		cs.Add(i, term, desc, c.Root.count() >= 4, tags...)
	}
	cs.Write()
}

func bucket17(n int) int {
	switch {
	case n <= 5:
		return 5
	case n <= 10:
		return 10
	case n <= 20:
		return 20
	}
	return 40
}
