//go:build verif

// C18 harness, legacy path (package controller): rewriteSignatures on a fabricated remote response.
package controller

import (
	"bytes"
	"crypto/md5"
	"encoding/json"
	"fmt"
	"io/ioutil"
	"net/http"
	"os"
	"strings"
	"testing"

	"git.arvados.org/arvados.git/sdk/go/arvados"
)

const l18Hex = "0123456789abcdef"

func l18RandHex(r *vRand, n int) string {
	b := make([]byte, n)
	for i := range b {
		b[i] = l18Hex[r.Intn(16)]
	}
	return string(b)
}

type l18Loc struct {
	hash  string
	size  int
	hints []string
}
type l18Stream struct {
	name  string
	locs  []l18Loc
	files []string
}

// mode 0: every locator is plain or properly signed (what a remote API server sends)
// mode 1: anything the locator grammar allows
func l18Hints(r *vRand, mode int) []string {
	sig := func() string { return "A" + l18RandHex(r, 40) + "@" + l18RandHex(r, 8) }
	other := func() string { return r.Pick("Kzzzzz", "Bfoo-A_b@c", "Z", "Rzzzzz-"+l18RandHex(r, 40)+"@"+l18RandHex(r, 8), "K@abcde") }
	var hs []string
	if mode == 0 {
		if r.Chance(1, 5) {
			return nil
		}
		for k := 0; k < r.Intn(2); k++ {
			hs = append(hs, other())
		}
		hs = append(hs, sig())
		for k := 0; k < r.Intn(2); k++ {
			hs = append(hs, other())
		}
		return hs
	}
	for k := 0; k < r.Intn(4); k++ {
		switch r.Intn(6) {
		case 0, 1:
			hs = append(hs, sig())
		case 2:
			hs = append(hs, "A"+strings.ToUpper(l18RandHex(r, 40))+"@"+l18RandHex(r, 8))
		case 3:
			hs = append(hs, "A"+l18RandHex(r, 39)+"@"+l18RandHex(r, 8))
		case 4:
			hs = append(hs, "AB"+l18RandHex(r, 3))
		default:
			hs = append(hs, other())
		}
	}
	return hs
}
func l18Gen(r *vRand, mode int) []l18Stream {
	var ss []l18Stream
	ns := 1
	if r.Chance(1, 4) {
		ns = 2
	}
	for s := 0; s < ns; s++ {
		st := l18Stream{name: r.Pick(".", ".", "./d", "./a\\040b", "./+A")}
		for b := 0; b < 1+r.Intn(2); b++ {
			st.locs = append(st.locs, l18Loc{hash: l18RandHex(r, 32), size: r.Intn(100000), hints: l18Hints(r, mode)})
		}
		for f := 0; f < 1+r.Intn(2); f++ {
			st.files = append(st.files, fmt.Sprintf("%d:%d:%s", r.Intn(50), r.Intn(50), r.Pick("f", "g+Ah", "x\\040+A", "a.txt")))
		}
		ss = append(ss, st)
	}
	return ss
}
func l18Render(ss []l18Stream, hints bool) string {
	var b strings.Builder
	for _, s := range ss {
		b.WriteString(s.name)
		for _, l := range s.locs {
			fmt.Fprintf(&b, " %s+%d", l.hash, l.size)
			if hints {
				for _, h := range l.hints {
					b.WriteString("+" + h)
				}
			}
		}
		for _, f := range s.files {
			b.WriteString(" " + f)
		}
		b.WriteString("\n")
	}
	return b.String()
}
func l18Tamper(r *vRand, m string) (string, string) {
	lines := strings.Split(strings.TrimSuffix(m, "\n"), "\n")
	li := r.Intn(len(lines))
	toks := strings.Split(lines[li], " ")
	ti := r.Intn(len(toks))
	tok := toks[ti]
	kind := ""
	switch r.Intn(8) {
	case 0, 1:
		kind = "flip-char"
		if len(tok) > 0 {
			k := r.Intn(len(tok))
			c := byte('0')
			if tok[k] == '0' {
				c = '1'
			}
			toks[ti] = tok[:k] + string(c) + tok[k+1:]
		}
	case 2:
		kind = "delete-token"
		toks = append(toks[:ti], toks[ti+1:]...)
	case 3:
		kind = "duplicate-token"
		toks = append(toks[:ti+1], toks[ti:]...)
	case 4:
		kind = "append-to-token"
		toks[ti] = tok + r.Pick("0", "+Kzzzzz", "x")
	case 5:
		kind = "extra-space"
		toks[ti] = tok + " "
	case 6:
		kind = "cr"
		toks[len(toks)-1] += "\r"
	default:
		kind = "truncate-line"
		toks = toks[:1+r.Intn(2)]
	}
	lines[li] = strings.Join(toks, " ")
	out := strings.Join(lines, "\n") + "\n"
	if r.Chance(1, 10) {
		kind += "+no-final-newline"
		out = strings.TrimSuffix(out, "\n")
	}
	return out, kind
}

func TestVerifC18Legacy(t *testing.T) {
	seed := vSeed()
	n := vEnvInt("VERIF_N", 200)
	only := vOnly()
	stage := os.Getenv("VERIF_STAGE")
	if stage == "" {
		stage = "c18legacy"
	}
	cs := vNewCases(stage)
	for i := 0; i < n; i++ {
		if only >= 0 && i != only {
			continue
		}
		r := vCaseRand(seed, i)
		mode := 0
		if r.Chance(1, 3) {
			mode = 1
		}
		ss := l18Gen(r, mode)
		m := l18Render(ss, true)
		stripped := l18Render(ss, false)
		pdh := fmt.Sprintf("%x+%d", md5.Sum([]byte(stripped)), len(stripped))
		tags := []string{fmt.Sprintf("hints-mode:%d", mode)}
		if r.Chance(1, 3) {
			var k string
			m, k = l18Tamper(r, m)
			tags = append(tags, "tamper:"+k)
		} else {
			tags = append(tags, "untampered")
		}
		expect, colPDH := pdh, pdh
		switch x := r.Intn(12); {
		case x == 0:
			expect = "" // fetch by uuid: the record's own portable_data_hash is trusted as the expectation
			tags = append(tags, "expect:from-record")
		case x == 1:
			colPDH = pdh[:31] + map[bool]string{true: "0", false: "1"}[pdh[31] != '0'] + pdh[32:]
			tags = append(tags, "expect:record-differs")
		case x == 2:
			expect = pdh + "+Kzzzzz"
			tags = append(tags, "expect:with-hints")
		case x == 3:
			expect, colPDH = pdh+"0", pdh+"0"
			tags = append(tags, "expect:wrong-size")
		default:
			tags = append(tags, "expect:exact")
		}
		cluster := r.Pick("bbbbb", "zzzzz")
		body, _ := json.Marshal(arvados.Collection{UUID: cluster + "-4zz18-000000000000000", ManifestText: m, PortableDataHash: colPDH})
		resp := &http.Response{StatusCode: http.StatusOK, Header: http.Header{}, Body: ioutil.NopCloser(bytes.NewReader(body))}
		newResp, err := rewriteSignatures(cluster, expect, resp, nil)
		res := "LErr"
		var out string
		if err == nil {
			var col arvados.Collection
			if e := json.NewDecoder(newResp.Body).Decode(&col); e != nil {
				t.Fatalf("case %d: cannot decode rewritten response: %v", i, e)
			}
			out = col.ManifestText
			res = "LOk " + gStr(out)
			tags = append(tags, "result:ok")
		} else {
			tags = append(tags, "result:error")
		}
		term := fmt.Sprintf("LCase %s %s %s %s (%s)", gStr(cluster), gStr(expect), gStr(colPDH), gStr(m), res)
		desc := map[string]interface{}{"i": i, "fn": "rewriteSignatures", "cluster": cluster, "expect": expect, "record_pdh": colPDH, "manifest": m, "result": res}
		if err != nil {
			desc["error"] = err.Error()
		}
		cs.Add(i, term, desc, err == nil || len(tags) > 2, tags...)
	}
	cs.Write()
}
