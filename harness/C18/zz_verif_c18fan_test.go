//go:build verif

// C18 harness, legacy request path seen from the client (package controller): a GET for a collection by
// portable data hash (fetchRemoteCollectionByPDH: one goroutine per remote, first verified answer wins) or
// by the uuid of another cluster (fetchRemoteCollectionByUUID) goes through the whole handler stack
// (setupProxyRemoteCluster).  The local RailsAPI and the remote clusters are played by a stub HTTP
// transport: nothing goes over a socket.  A remote answers with ANY status code (1xx, 2xx other than 200,
// 3xx, 4xx, 5xx) and any body (collection record with a matching / tampered / unrelated manifest, error
// document, not JSON), with a transport error, or not at all; answers are released one at a time in a
// generated order.  One Gallina case per request (coq/model/C18_fan_run.v).
package controller

import (
	"bytes"
	"compress/gzip"
	"context"
	"crypto/md5"
	"encoding/json"
	"errors"
	"fmt"
	"io"
	"io/ioutil"
	"net/http"
	"net/http/httptest"
	"os"
	"sort"
	"strings"
	"sync"
	"testing"
	"time"

	"git.arvados.org/arvados.git/sdk/go/arvados"
	"git.arvados.org/arvados.git/sdk/go/ctxlog"
	"github.com/sirupsen/logrus"
)

const f18Rails = "rails.local.example"

func f18Host(id string) string { return "r" + id + ".remote.example" }

const (
	f18Resp = iota
	f18Fail
	f18Hang
)
const (
	f18Col = iota
	f18ErrJSON
	f18Junk
)

type f18Answer struct {
	kind     int
	code     int
	bodyKind int
	recPDH   string
	manifest string
	raw      string
	location string
	label    string
}

func (a *f18Answer) setCol(id, recPDH, manifest string) {
	a.bodyKind, a.recPDH, a.manifest = f18Col, recPDH, manifest
	buf, _ := json.Marshal(arvados.Collection{UUID: id + "-4zz18-000000000000000", ManifestText: manifest, PortableDataHash: recPDH})
	a.raw = string(buf)
}
func (a *f18Answer) setErrJSON() {
	a.bodyKind, a.raw = f18ErrJSON, `{"errors":["stub cluster says no"]}`
}
func (a *f18Answer) setJunk(r *vRand) {
	a.bodyKind = f18Junk
	a.raw = r.Pick("<html><a href=\"https://elsewhere.example/\">Found</a>.</html>\n", "", `{"manifest_text":". d41d8cd98f00b204e9800998ecf8427e+0 0:0:x\n`, "[]", "upstream timed out")
}
func (a *f18Answer) term() string {
	switch a.kind {
	case f18Fail:
		return "HFail"
	case f18Hang:
		return "HHang"
	}
	b := "BJunk"
	switch a.bodyKind {
	case f18Col:
		b = "(BCol " + gStr(a.recPDH) + " " + gStr(a.manifest) + ")"
	case f18ErrJSON:
		b = "BErrJson"
	}
	return "(HResp " + gN(int64(a.code)) + " " + b + ")"
}
func (a *f18Answer) desc() map[string]interface{} {
	switch a.kind {
	case f18Fail:
		return map[string]interface{}{"answer": "transport error", "label": a.label}
	case f18Hang:
		return map[string]interface{}{"answer": "none until cancelled", "label": a.label}
	}
	return map[string]interface{}{"status": a.code, "body": a.raw, "label": a.label}
}

type f18Body struct {
	io.Reader
	onClose func()
}

func (b *f18Body) Close() error { b.onClose(); return nil }

// the client's side of the exchange: tells when the controller starts to respond
type f18Writer struct {
	*httptest.ResponseRecorder
	once    sync.Once
	started chan struct{}
}

func (w *f18Writer) WriteHeader(code int) {
	w.once.Do(func() { close(w.started) })
	w.ResponseRecorder.WriteHeader(code)
}
func (w *f18Writer) Write(p []byte) (int, error) {
	w.once.Do(func() { close(w.started) })
	return w.ResponseRecorder.Write(p)
}

type f18Remote struct {
	id   string
	ans  *f18Answer
	gate chan struct{}
	gzip bool // this cluster compresses its responses when the request allows it
}

type f18Transport struct {
	mtx     sync.Mutex
	calls   []string
	local   *f18Answer
	localGz bool
	remotes map[string]*f18Remote // by host
	arrived chan string
	closed  chan string
}

// response builds what Go's http.Transport would hand to the caller.  A compressing cluster sends gzip only if
// the request says Accept-Encoding: gzip.  If the caller did not set that header, http.Transport asks for gzip on
// its own and decompresses transparently (the caller sees the plain body, no Content-Encoding); if the caller set
// it explicitly, the compressed body is handed over as it is, with Content-Encoding: gzip.
func (t *f18Transport) response(req *http.Request, id string, a *f18Answer, compresses bool) *http.Response {
	h := http.Header{}
	raw := a.raw
	if compresses && len(raw) > 0 && strings.Contains(strings.ToLower(req.Header.Get("Accept-Encoding")), "gzip") {
		var buf bytes.Buffer
		zw := gzip.NewWriter(&buf)
		zw.Write([]byte(raw))
		zw.Close()
		raw = buf.String()
		h.Set("Content-Encoding", "gzip")
	}
	if a.bodyKind == f18Junk {
		h.Set("Content-Type", "text/html")
	} else {
		h.Set("Content-Type", "application/json")
	}
	if a.location != "" {
		h.Set("Location", a.location)
	}
	return &http.Response{
		Status: fmt.Sprintf("%d %s", a.code, http.StatusText(a.code)), StatusCode: a.code,
		Proto: "HTTP/1.1", ProtoMajor: 1, ProtoMinor: 1, Header: h, ContentLength: int64(len(raw)), Request: req,
		Body: &f18Body{Reader: strings.NewReader(raw), onClose: func() {
			select {
			case t.closed <- id:
			default:
			}
		}},
	}
}

func (t *f18Transport) RoundTrip(req *http.Request) (*http.Response, error) {
	host := req.URL.Host
	if host == f18Rails {
		t.mtx.Lock()
		t.calls = append(t.calls, "")
		t.mtx.Unlock()
		if t.local.kind == f18Fail {
			return nil, errors.New("stub transport error")
		}
		return t.response(req, "", t.local, t.localGz), nil
	}
	rem := t.remotes[host]
	if rem == nil {
		t.mtx.Lock()
		t.calls = append(t.calls, "?"+host)
		t.mtx.Unlock()
		return nil, errors.New("stub: unknown host " + host)
	}
	t.mtx.Lock()
	t.calls = append(t.calls, rem.id)
	t.mtx.Unlock()
	t.arrived <- rem.id
	select {
	case <-rem.gate:
	case <-req.Context().Done():
		return nil, req.Context().Err()
	}
	switch rem.ans.kind {
	case f18Fail:
		return nil, errors.New("stub transport error")
	case f18Hang:
		<-req.Context().Done()
		return nil, req.Context().Err()
	}
	return t.response(req, rem.id, rem.ans, rem.gzip), nil
}

// the same content as another cluster holds it: other signatures
func f18Resign(r *vRand, ss []l18Stream, mode int) []l18Stream {
	var out []l18Stream
	for _, s := range ss {
		t := l18Stream{name: s.name, files: s.files}
		for _, l := range s.locs {
			t.locs = append(t.locs, l18Loc{hash: l.hash, size: l.size, hints: l18Hints(r, mode)})
		}
		out = append(out, t)
	}
	return out
}

func f18PDH(ss []l18Stream) string {
	t := l18Render(ss, false)
	return fmt.Sprintf("%x+%d", md5.Sum([]byte(t)), len(t))
}
func f18OneOff(pdh string, i int) string {
	c := byte('0')
	if pdh[i] == '0' {
		c = '1'
	}
	return pdh[:i] + string(c) + pdh[i+1:]
}

var f18OddCodes = []int{100, 101, 102, 201, 202, 203, 203, 204, 205, 206, 206, 207, 226, 299, 300, 301, 302, 302, 303, 304, 305, 307, 308, 399}
var f18ErrCodes = []int{400, 401, 403, 405, 410, 418, 422, 429, 451, 499, 500, 500, 501, 502, 503, 503, 504, 599}

func f18Class(code int) string { return fmt.Sprintf("%dxx", code/100) }

// f18Draw: what cluster id answers to a request for the collection base (portable data hash pdh); req is the
// hash in the request ("" for a fetch by uuid)
func f18Draw(r *vRand, id string, base []l18Stream, pdh, req string, mode int, tags *[]string) *f18Answer {
	a := &f18Answer{kind: f18Resp, code: 200}
	match := func() string { return l18Render(f18Resign(r, base, mode), true) }
	tampered := func() string {
		m, k := l18Tamper(r, match())
		*tags = append(*tags, "tamper:"+k)
		return m
	}
	switch x := r.Intn(100); {
	case x < 26:
		a.label = "match"
		a.setCol(id, pdh, match())
	case x < 40:
		a.label = "tampered"
		a.setCol(id, pdh, tampered())
	case x < 45:
		a.label = "other"
		o := l18Gen(r, mode)
		p := f18PDH(o)
		if r.Bool() && req != "" {
			p = req // a lying record
		}
		a.setCol(id, p, l18Render(o, true))
	case x < 49:
		a.label = "record-differs"
		a.setCol(id, f18OneOff(pdh, r.Intn(32)), match())
	case x < 53:
		a.label = "200-nonrecord"
		if r.Bool() {
			a.setErrJSON()
		} else {
			a.setJunk(r)
		}
	case x < 65:
		a.label, a.code = "404", 404
		a.setErrJSON()
		if r.Chance(1, 6) {
			a.setJunk(r)
		}
	case x < 75:
		a.code = f18ErrCodes[r.Intn(len(f18ErrCodes))]
		a.label = f18Class(a.code)
		switch r.Intn(4) {
		case 0:
			a.setJunk(r)
		case 1:
			a.setCol(id, pdh, match()) // an error status in front of the right collection
		default:
			a.setErrJSON()
		}
	case x < 92:
		a.code = f18OddCodes[r.Intn(len(f18OddCodes))]
		a.label = f18Class(a.code)
		if a.code/100 == 3 && !r.Chance(1, 8) {
			a.location = "https://elsewhere.example/arvados/v1/collections/" + pdh
		}
		switch y := r.Intn(20); {
		case a.code < 200 || a.code == 204 || a.code == 304:
			a.bodyKind, a.raw = f18Junk, "" // responses that carry no body
		case y < 8:
			a.setCol(id, pdh, match())
			a.label += "+match"
		case y < 14:
			a.setCol(id, pdh, tampered())
			a.label += "+tampered"
		case y < 17:
			a.setJunk(r)
		default:
			a.setErrJSON()
		}
	case x < 96:
		a.kind, a.label = f18Fail, "fail"
	default:
		a.kind, a.label = f18Hang, "hang"
	}
	return a
}

func f18Handler(tr *f18Transport, local string, remotes []string, extra bool, amplification int, r *vRand) *Handler {
	h := &Handler{Cluster: &arvados.Cluster{ClusterID: local, RemoteClusters: map[string]arvados.RemoteCluster{}}}
	h.Cluster.PostgreSQL.Connection = arvados.PostgreSQLConnection{"host": "127.0.0.1", "port": "1", "connect_timeout": "1"}
	h.Cluster.API.MaxItemsPerResponse = 1000
	h.Cluster.API.MaxRequestAmplification = amplification
	h.Cluster.Services.RailsAPI.InternalURLs = map[arvados.URL]arvados.ServiceInstance{{Scheme: "http", Host: f18Rails}: {}}
	for _, id := range remotes {
		h.Cluster.RemoteClusters[id] = arvados.RemoteCluster{Host: f18Host(id), Scheme: r.Pick("http", "https", ""), Proxy: true, Insecure: r.Bool()}
	}
	if extra {
		// entries that are not remote clusters to be searched
		h.Cluster.RemoteClusters["*"] = arvados.RemoteCluster{Proxy: true}
		h.Cluster.RemoteClusters[local] = arvados.RemoteCluster{Host: f18Host(local), Scheme: "http", Proxy: true}
	}
	h.proxy = &proxy{Name: "arvados-controller"}
	h.secureClient = &http.Client{Transport: tr, CheckRedirect: neverRedirect}
	h.insecureClient = &http.Client{Transport: tr, CheckRedirect: neverRedirect}
	return h
}

// what the client of the controller received: status, and the manifest if the body is a JSON object with a
// manifest_text member
func f18Observe(rw *httptest.ResponseRecorder) (string, int, bool, string) {
	body := rw.Body.Bytes()
	if strings.Contains(rw.Header().Get("Content-Encoding"), "gzip") {
		// a client that asked for gzip decodes what it gets
		if zr, err := gzip.NewReader(bytes.NewReader(body)); err == nil {
			if plain, err := ioutil.ReadAll(zr); err == nil {
				body = plain
			}
		}
	}
	var obj map[string]json.RawMessage
	has := false
	var manifest string
	if json.Unmarshal(body, &obj) == nil {
		if raw, ok := obj["manifest_text"]; ok && json.Unmarshal(raw, &manifest) == nil {
			has = true
		}
	}
	term := "FRes " + gN(int64(rw.Code)) + " "
	if has {
		term += "(Some " + gStr(manifest) + ")"
	} else {
		term += "None"
	}
	return term, rw.Code, has, manifest
}

// how long a remote's request may take to reach the transport when a slot is free, before the case records that
// it never did (a judged observation, never reached on a correct tree)
var f18Watchdog = 15 * time.Second

func TestVerifC18Fan(t *testing.T) {
	seed := vSeed()
	n := vEnvInt("VERIF_N", 150)
	only := vOnly()
	stage := os.Getenv("VERIF_STAGE")
	if stage == "" {
		stage = "c18fan"
	}
	cs := vNewCases(stage)
	logger := logrus.New()
	logger.Out = ioutil.Discard
	for i := 0; i < n; i++ {
		if only >= 0 && i != only {
			continue
		}
		r := vCaseRand(seed, i)
		pool := []string{"aaaaa", "bbbbb", "ccccc", "ddddd", "eeeee", "zzzzz"}
		for k := len(pool) - 1; k > 0; k-- {
			j := r.Intn(k + 1)
			pool[k], pool[j] = pool[j], pool[k]
		}
		local := pool[0]
		mode := 0
		if r.Chance(1, 7) {
			mode = 1
		}
		base := l18Gen(r, mode)
		pdh := f18PDH(base)
		tags := []string{fmt.Sprintf("hints-mode:%d", mode)}
		byUUID := r.Chance(1, 6)

		var remotes []string
		var req, path string
		known := true
		if byUUID {
			remotes = append(remotes, pool[1:2+r.Intn(2)]...)
			if r.Chance(1, 7) {
				known = false
			}
			target := remotes[0]
			if !known {
				target = pool[5]
			}
			path = "/arvados/v1/collections/" + target + "-4zz18-" + l18RandHex(r, 15)
			tags = append(tags, "get:uuid", fmt.Sprintf("uuid-known:%v", known))
		} else {
			nrem := []int{0, 1, 1, 1, 1, 1, 1, 2, 2, 2, 2, 2, 2, 3, 3, 3, 3, 4, 4, 4}[r.Intn(20)]
			remotes = append(remotes, pool[1:1+nrem]...)
			switch x := r.Intn(20); {
			case x < 14:
				req = pdh
				tags = append(tags, "req:exact")
			case x < 16:
				req = f18OneOff(pdh, r.Intn(32))
				tags = append(tags, "req:one-digit-off")
			case x < 17:
				req = pdh + "0"
				tags = append(tags, "req:size-digit-appended")
			case x < 18:
				req = pdh[:len(pdh)-1]
				if strings.HasSuffix(req, "+") {
					req = pdh
				}
				tags = append(tags, "req:size-truncated")
			case x < 19:
				req = strings.ToUpper(pdh)
				tags = append(tags, "req:uppercase")
			default:
				req = pdh
				tags = append(tags, "req:exact")
			}
			path = "/arvados/v1/collections/" + req
			tags = append(tags, "get:pdh", fmt.Sprintf("remotes:%d", nrem))
		}

		// the local cluster
		la := &f18Answer{kind: f18Resp, code: 404, label: "404"}
		la.setErrJSON()
		if !byUUID {
			switch x := r.Intn(20); {
			case x < 14:
			case x < 15:
				la.setJunk(r)
				la.label = "404-junk"
			case x < 16:
				la.code, la.label = 200, "200"
				la.setCol(local, pdh, l18Render(base, true))
			case x < 17:
				la.code = f18ErrCodes[r.Intn(len(f18ErrCodes))]
				la.label = f18Class(la.code)
			case x < 18:
				la.code = f18OddCodes[r.Intn(len(f18OddCodes))]
				la.label = f18Class(la.code)
				if r.Bool() && la.code >= 200 && la.code != 204 && la.code != 304 {
					la.setCol(local, pdh, l18Render(base, true))
				}
			case x < 19:
				la.kind, la.label = f18Fail, "fail"
			}
			tags = append(tags, "local:"+la.label)
		}

		tr := &f18Transport{local: la, localGz: r.Bool(), remotes: map[string]*f18Remote{}, arrived: make(chan string, 16), closed: make(chan string, 64)}
		var rems []*f18Remote
		for _, id := range remotes {
			rem := &f18Remote{id: id, gate: make(chan struct{}), gzip: r.Bool()}
			rem.ans = f18Draw(r, id, base, pdh, req, mode, &tags)
			tags = append(tags, "remote:"+rem.ans.label)
			rems = append(rems, rem)
			tr.remotes[f18Host(id)] = rem
		}
		// priority among the remotes whose requests are in flight: a permutation
		order := append([]*f18Remote{}, rems...)
		for k := len(order) - 1; k > 0; k-- {
			j := r.Intn(k + 1)
			order[k], order[j] = order[j], order[k]
		}
		extra := r.Chance(1, 3)
		// API.MaxRequestAmplification: how many remote requests may be in flight (0 = no limit)
		amplification := []int{0, 4, 4, 16, 1, 2, 3, 1}[r.Intn(8)]
		if !byUUID && len(rems) >= 2 && r.Chance(1, 4) {
			// silent remotes hold every slot but one, and some remote has the collection
			nh := 1 + r.Intn(len(rems)-1)
			for k, rem := range order {
				if k < nh {
					rem.ans = &f18Answer{kind: f18Hang, label: "hang"}
				} else if k == nh {
					rem.ans = &f18Answer{kind: f18Resp, code: 200, label: "match"}
					rem.ans.setCol(rem.id, pdh, l18Render(f18Resign(r, base, mode), true))
				}
			}
			amplification = nh + 1
			tags = append(tags, "capacity:silent+1")
			for k := len(order) - 1; k > 0; k-- {
				j := r.Intn(k + 1)
				order[k], order[j] = order[j], order[k]
			}
		}
		tags = append(tags, fmt.Sprintf("amplification:%d", amplification))
		h := f18Handler(tr, local, remotes, extra, amplification, r)
		stack := h.setupProxyRemoteCluster(prepend(http.NotFoundHandler(), h.proxyRailsAPI))

		ctx, cancel := context.WithCancel(ctxlog.Context(context.Background(), logger))
		hreq := httptest.NewRequest("GET", "http://controller.example"+path, nil).WithContext(ctx)
		hreq.Header.Set("Authorization", "Bearer v2/"+local+"-gj3su-"+l18RandHex(r, 15)+"/"+l18RandHex(r, 40)+l18RandHex(r, 10))
		// request headers of the client that bear on the proxied exchange
		clientAE := r.Pick("", "gzip", "gzip", "gzip, deflate", "identity", "deflate, gzip;q=0.5")
		if clientAE != "" {
			hreq.Header.Set("Accept-Encoding", clientAE)
		}
		tags = append(tags, "client-accept-encoding:"+clientAE)
		if r.Chance(1, 4) {
			hreq.Header.Set("Connection", "keep-alive")
			hreq.Header.Set("TE", "trailers")
		}
		if r.Chance(1, 4) {
			hreq.Header.Set("X-Forwarded-For", "10.1.2.3")
		}
		rw := httptest.NewRecorder()
		done := make(chan struct{})
		cw := &f18Writer{ResponseRecorder: rw, started: make(chan struct{})}
		go func() {
			stack.ServeHTTP(cw, hreq)
			close(done)
		}()

		// which remotes does this request reach, and how many of their requests may be in flight
		total := 0
		capacity := 1 << 30
		if byUUID {
			if known {
				total = 1
				rems = rems[:1] // the cluster named by the uuid
				order = rems
			} else {
				order, rems = nil, nil
			}
		} else if la.kind == f18Resp && la.code == 404 {
			total = len(rems)
			if amplification > 0 {
				capacity = amplification
			}
		}
		// The controller follows the implementation: it waits until as many requests are in flight as the
		// capacity allows, releases the in-flight answer with the highest priority, waits until it is forwarded
		// (the request completes) or disposed of (its body is closed), and so on.  A remote whose request does
		// not arrive although a slot is free is an observation of the case (starved), judged by the evaluator.
		asked, released := map[string]bool{}, map[string]bool{}
		var relOrder []*f18Remote
		inflight, completed, syncTimeouts := 0, 0, 0
		finished, starved := false, false
		for !finished && !starved {
			want := total - completed
			if want > capacity {
				want = capacity
			}
			for inflight < want && !finished && !starved {
				select {
				case <-done:
					finished = true
				case id := <-tr.arrived:
					asked[id] = true
					inflight++
				case <-time.After(f18Watchdog):
					starved = true
					f18Watchdog = 1500 * time.Millisecond // the tree is broken anyway: do not spend 15 s on every further case
				}
			}
			if finished || starved {
				break
			}
			var next *f18Remote
			for _, rem := range order {
				if asked[rem.id] && !released[rem.id] && rem.ans.kind != f18Hang {
					next = rem
					break
				}
			}
			if next == nil {
				break // every request in flight belongs to a silent remote
			}
			for len(tr.closed) > 0 {
				<-tr.closed
			}
			close(next.gate)
			released[next.id] = true
			relOrder = append(relOrder, next)
			inflight--
			completed++
			if next.ans.kind == f18Fail {
				continue // nothing to observe; a transport error cannot be taken for an answer
			}
			deadline := time.After(3 * time.Second)
			for waiting := true; waiting; {
				select {
				case <-done:
					finished, waiting = true, false
				case id := <-tr.closed:
					waiting = id != next.id
					if !waiting {
						// closed because it was disposed of, or because it has just been forwarded to the client
						// (the response to the client starts before the forwarded body is closed)
						select {
						case <-cw.started:
							select {
							case <-done:
							case <-time.After(30 * time.Second):
								t.Fatalf("case %d: the response to the client was started but the request did not complete", i)
							}
							finished = true
						default:
						}
					}
				case <-deadline:
					syncTimeouts++
					waiting = false
				}
			}
		}
		if !finished {
			if starved || completed < total {
				// nobody answers any more: the client gives up
				select {
				case <-done:
				case <-time.After(20 * time.Millisecond):
				}
				cancel()
			}
			select {
			case <-done:
			case <-time.After(30 * time.Second):
				t.Fatalf("case %d: the request did not complete although the client gave up", i)
			}
		}
		cancel()
		tr.mtx.Lock()
		calls := append([]string{}, tr.calls...)
		tr.mtx.Unlock()
		sort.Strings(calls)
		resTerm, code, has, manifest := f18Observe(rw)
		tags = append(tags, fmt.Sprintf("result:%d", code), fmt.Sprintf("result-has-manifest:%v", has))
		if syncTimeouts > 0 {
			tags = append(tags, "sync-timeout")
		}
		desc := map[string]interface{}{"i": i, "path": path, "local_id": local, "pdh_of_base": pdh, "base": l18Render(base, true),
			"local_answer": la.desc(), "calls": calls, "status": code, "body": rw.Body.String(), "extra_remote_entries": extra,
			"max_request_amplification": amplification, "client_accept_encoding": clientAE, "local_compresses": tr.localGz}
		if has {
			desc["manifest_received"] = manifest
		}
		var term string
		if byUUID {
			target := pool[5]
			ans := &f18Answer{kind: f18Fail}
			if known {
				target, ans = rems[0].id, rems[0].ans
				desc["remote_answer"] = ans.desc()
			}
			desc["fn"] = "fetchRemoteCollectionByUUID"
			term = fmt.Sprintf("FUuid %s %s %s %s %s (%s)", gStr(local), gStr(target), gBool(known), ans.term(), gStrs(calls), resTerm)
		} else {
			var arr, unasked []string
			var arrDesc []interface{}
			add := func(rem *f18Remote, state string) {
				arr = append(arr, "("+gStr(rem.id)+", "+rem.ans.term()+")")
				d := rem.ans.desc()
				d["cluster"], d["state"], d["compresses"] = rem.id, state, rem.gzip
				arrDesc = append(arrDesc, d)
			}
			for _, rem := range relOrder {
				add(rem, "released")
			}
			for _, rem := range rems {
				if asked[rem.id] && !released[rem.id] {
					add(rem, "in flight until the end")
				}
			}
			for _, rem := range rems {
				if !asked[rem.id] {
					if total > 0 {
						unasked = append(unasked, rem.id)
						add(rem, "never asked")
					} else {
						add(rem, "not searched")
					}
				}
			}
			if starved {
				tags = append(tags, "starved")
			}
			tags = append(tags, fmt.Sprintf("unasked:%d", len(unasked)))
			desc["starved"] = starved
			desc["fn"] = "fetchRemoteCollectionByPDH"
			desc["release_order"] = arrDesc
			term = fmt.Sprintf("FGet %s %s %s %s %s %s %s (%s)", gStr(local), gStr(req), la.term(), gN(int64(amplification)), gList(arr), gStrs(unasked), gStrs(calls), resTerm)
		}
		cs.Add(i, term, desc, len(rems) >= 2 || (has && code == 200), tags...)
	}
	cs.Write()
}
