//go:build verif

// C18 harness (package federation): Conn.CollectionGet by portable data hash with gated stub
// backends whose replies are released in a generated order, CollectionGet by uuid, and direct calls
// of rewriteManifest and arvados.PortableDataHash.  One Gallina case per call (coq/model/C18_run.v).
package federation

import (
	"context"
	"crypto/md5"
	"errors"
	"fmt"
	"io/ioutil"
	"os"
	"sort"
	"strings"
	"sync"
	"testing"
	"time"

	"git.arvados.org/arvados.git/sdk/go/arvados"
	"git.arvados.org/arvados.git/sdk/go/arvadostest"
	"git.arvados.org/arvados.git/sdk/go/ctxlog"
	"git.arvados.org/arvados.git/sdk/go/httpserver"
	"github.com/sirupsen/logrus"
)

const (
	c18Col = iota
	c18Err
	c18Hang
)

type c18Backend struct {
	arvadostest.APIStub
	id       string // "" = local
	kind     int
	manifest string
	code     int
	gated    bool
	gate     chan struct{}
	arrived  chan string
	passed   chan string
	mtx      sync.Mutex
	calls    []string
	cancel   bool
	label    string
}

func (b *c18Backend) CollectionGet(ctx context.Context, o arvados.GetOptions) (arvados.Collection, error) {
	b.mtx.Lock()
	b.calls = append(b.calls, b.id+"|"+o.UUID+"|"+o.ForwardedFor)
	b.mtx.Unlock()
	if b.gated {
		b.arrived <- b.id
		select {
		case <-b.gate:
		case <-ctx.Done():
			b.mtx.Lock()
			b.cancel = true
			b.mtx.Unlock()
			return arvados.Collection{}, ctx.Err()
		}
		b.passed <- b.id
	}
	switch b.kind {
	case c18Col:
		return arvados.Collection{UUID: "zzzzz-4zz18-000000000000000", ManifestText: b.manifest, PortableDataHash: "ignored"}, nil
	case c18Err:
		if b.code == 500 {
			return arvados.Collection{}, errors.New("stub error without status")
		}
		return arvados.Collection{}, httpserver.ErrorWithStatus(errors.New("stub error"), b.code)
	default:
		<-ctx.Done()
		return arvados.Collection{}, ctx.Err()
	}
}

func (b *c18Backend) gAnswer() string {
	switch b.kind {
	case c18Col:
		return "ACol " + gStr(b.manifest)
	case c18Err:
		return "AErr " + gN(int64(b.code))
	default:
		return "AHang"
	}
}

type c18Hook struct{ ch chan struct{} }

func (h *c18Hook) Levels() []logrus.Level { return logrus.AllLevels }
func (h *c18Hook) Fire(*logrus.Entry) error {
	select {
	case h.ch <- struct{}{}:
	default:
	}
	return nil
}

// ---- manifests ----
type c18Loc struct {
	hash  string
	size  int
	hints []string
}
type c18Stream struct {
	name  string
	locs  []c18Loc
	files []string
}

const c18Hex = "0123456789abcdef"

func c18RandHex(r *vRand, n int) string {
	b := make([]byte, n)
	for i := range b {
		b[i] = c18Hex[r.Intn(16)]
	}
	return string(b)
}
func c18Hint(r *vRand, signer string) string {
	switch r.Intn(9) {
	case 0, 1, 2:
		return "A" + c18RandHex(r, 40) + "@" + c18RandHex(r, 8)
	case 3:
		return "K" + r.Pick("zzzzz", "abcde", "@qr1hi")
	case 4:
		return "Bfoo-A_b@c"
	case 5:
		return "R" + r.Pick("zzzzz", "bbbbb") + "-" + c18RandHex(r, 40) + "@" + c18RandHex(r, 8)
	case 6:
		return "Z"
	case 7:
		return "AB" + c18RandHex(r, 3) // a hint that merely starts with the letter A
	default:
		return "A" + strings.ToUpper(c18RandHex(r, 40)) + "@" + c18RandHex(r, 8)
	}
}
func c18Gen(r *vRand) []c18Stream {
	var ss []c18Stream
	ns := 1
	if r.Chance(1, 4) {
		ns = 2
	}
	for s := 0; s < ns; s++ {
		st := c18Stream{name: r.Pick(".", ".", "./d", "./a\\040b", "./+A", "./x/y")}
		for b := 0; b < 1+r.Intn(2); b++ {
			l := c18Loc{hash: c18RandHex(r, 32), size: r.Intn(100000)}
			if r.Chance(1, 10) {
				l.size = 0
				l.hash = "d41d8cd98f00b204e9800998ecf8427e"
			}
			for h := 0; h < r.Intn(3); h++ {
				l.hints = append(l.hints, c18Hint(r, ""))
			}
			st.locs = append(st.locs, l)
		}
		for f := 0; f < 1+r.Intn(2); f++ {
			st.files = append(st.files, fmt.Sprintf("%d:%d:%s", r.Intn(50), r.Intn(50),
				r.Pick("f", "g+Ah", "x\\040+A", "0123456789abcdef0123456789abcdef+A1", "a.txt", "d/e")))
		}
		ss = append(ss, st)
	}
	return ss
}
func c18Render(ss []c18Stream, hints bool) string {
	var b strings.Builder
	for _, s := range ss {
		b.WriteString(s.name)
		for _, l := range s.locs {
			fmt.Fprintf(&b, " %s+%d", l.hash, l.size)
			if hints {
				for _, h := range l.hints {
					b.WriteString("+" + h)
				}
			}
		}
		for _, f := range s.files {
			b.WriteString(" " + f)
		}
		b.WriteString("\n")
	}
	return b.String()
}

// the portable data hash as the format defines it: md5 and length of the manifest without hints
func c18PDH(ss []c18Stream) string {
	t := c18Render(ss, false)
	return fmt.Sprintf("%x+%d", md5.Sum([]byte(t)), len(t))
}

// the same content as seen from another cluster: other signatures, maybe other hints
func c18Resign(r *vRand, ss []c18Stream) []c18Stream {
	var out []c18Stream
	for _, s := range ss {
		t := c18Stream{name: s.name, files: s.files}
		for _, l := range s.locs {
			n := c18Loc{hash: l.hash, size: l.size}
			for h := 0; h < r.Intn(3); h++ {
				n.hints = append(n.hints, c18Hint(r, ""))
			}
			if r.Bool() {
				n.hints = append(n.hints, "A"+c18RandHex(r, 40)+"@"+c18RandHex(r, 8))
			}
			t.locs = append(t.locs, n)
		}
		out = append(out, t)
	}
	return out
}

// every kind of single-token tampering of a manifest text
func c18Tamper(r *vRand, m string) (string, string) {
	lines := strings.Split(strings.TrimSuffix(m, "\n"), "\n")
	li := r.Intn(len(lines))
	toks := strings.Split(lines[li], " ")
	ti := r.Intn(len(toks))
	tok := toks[ti]
	kind := ""
	flip := func(s string, i int) string {
		if len(s) == 0 {
			return "x"
		}
		c := s[i]
		var d byte
		switch {
		case c >= '0' && c <= '8':
			d = c + 1
		case c == '9':
			d = '0'
		case c >= 'a' && c <= 'e':
			d = c + 1
		case c == 'f':
			d = 'a'
		default:
			d = 'q'
		}
		return s[:i] + string(d) + s[i+1:]
	}
	switch r.Intn(9) {
	case 0, 1, 2:
		kind = "flip-char"
		toks[ti] = flip(tok, r.Intn(len(tok)))
	case 3:
		kind = "delete-token"
		toks = append(toks[:ti], toks[ti+1:]...)
	case 4:
		kind = "duplicate-token"
		toks = append(toks[:ti+1], toks[ti:]...)
	case 5:
		kind = "append-to-token"
		toks[ti] = tok + r.Pick("0", "+Kzzzzz", "+A"+c18RandHex(r, 40)+"@"+c18RandHex(r, 8), "x")
	case 6:
		kind = "swap-tokens"
		tj := r.Intn(len(toks))
		toks[ti], toks[tj] = toks[tj], toks[ti]
	case 7:
		kind = "extra-space"
		toks[ti] = tok + " "
	default:
		kind = "truncate-token"
		toks[ti] = tok[:len(tok)/2]
	}
	lines[li] = strings.Join(toks, " ")
	out := strings.Join(lines, "\n") + "\n"
	if r.Chance(1, 12) {
		kind += "+no-final-newline"
		out = strings.TrimSuffix(out, "\n")
	}
	return out, kind
}

func c18ReqVariant(r *vRand, pdh string) (string, string) {
	switch x := r.Intn(20); {
	case x < 10:
		return pdh, "req:exact"
	case x < 13:
		return pdh + r.Pick("+A"+c18RandHex(r, 40)+"@"+c18RandHex(r, 8), "+Kzzzzz", "+foo", "+"), "req:with-hints"
	case x < 15:
		i := r.Intn(32)
		c := pdh[i]
		d := byte('0')
		if c == '0' {
			d = '1'
		}
		return pdh[:i] + string(d) + pdh[i+1:], "req:one-digit-off"
	case x < 16:
		return pdh + "0", "req:size-digit-appended"
	case x < 17:
		return pdh[:len(pdh)-1], "req:size-truncated"
	case x < 18:
		return pdh[1:], "req:31-hex"
	case x < 19:
		return strings.ToUpper(pdh), "req:uppercase"
	default:
		return pdh[:32], "req:no-size"
	}
}

// statuses of failing answers: every class, not only the usual 4xx/5xx
var c18Codes = []int{500, 502, 503, 401, 403, 422, 500, 502, 503, 400, 410, 429, 499, 504, 599, 100, 101, 201, 202, 203, 204, 206, 299, 300, 301, 302, 304, 307, 399}

func c18Code(err error) int {
	if err == nil {
		return 0
	}
	if h, ok := err.(interface{ HTTPStatus() int }); ok {
		return h.HTTPStatus()
	}
	return 500
}

func c18Malformed(r *vRand) string {
	var b strings.Builder
	n := 1 + r.Intn(6)
	for i := 0; i < n; i++ {
		switch r.Intn(14) {
		case 0:
			b.WriteString(" ")
		case 1:
			b.WriteString("\n")
		case 2:
			b.WriteString(" " + c18RandHex(r, 32) + "+Afoo") // locator without size
		case 3:
			b.WriteString(" " + c18RandHex(r, 32) + "+")
		case 4:
			b.WriteString(" " + strings.ToUpper(c18RandHex(r, 32)) + "+5+Aab")
		case 5:
			b.WriteString(" " + c18RandHex(r, 31) + "+5+Aab")
		case 6:
			b.WriteString(" " + c18RandHex(r, 33) + "+5+Aab")
		case 7:
			b.WriteString(c18RandHex(r, 32) + "+7+Aab@cd") // locator-like text not preceded by a space
		case 8:
			b.WriteString(" " + c18RandHex(r, 32) + "+12abc+Aq++A+AA+A")
		case 9:
			b.WriteString(" " + c18RandHex(r, 32) + "+3+Ax\n./next " + c18RandHex(r, 32) + "+4+Ay")
		case 10:
			b.WriteString("\t" + c18RandHex(r, 32) + "+3+Ax")
		case 11:
			b.WriteString(" 0:0:f")
		case 12:
			b.WriteString(" " + c18RandHex(r, 32) + "+9+A" + c18RandHex(r, 40) + "@" + c18RandHex(r, 8) + "\r\n")
		default:
			b.WriteString(".")
		}
	}
	return b.String()
}

func TestVerifC18(t *testing.T) {
	seed := vSeed()
	n := vEnvInt("VERIF_N", 200)
	only := vOnly()
	stage := os.Getenv("VERIF_STAGE")
	if stage == "" {
		stage = "c18"
	}
	cs := vNewCases(stage)
	for i := 0; i < n; i++ {
		if only >= 0 && i != only {
			continue
		}
		r := vCaseRand(seed, i)
		pool := []string{"aaaaa", "bbbbb", "ccccc", "ddddd", "eeeee"}
		for k := len(pool) - 1; k > 0; k-- {
			j := r.Intn(k + 1)
			pool[k], pool[j] = pool[j], pool[k]
		}
		local := pool[0]
		mode := r.Intn(10)
		switch {
		case mode == 0: // rewriteManifest / PortableDataHash directly
			var m string
			tag := "direct:valid"
			switch r.Intn(3) {
			case 0:
				m = c18Render(c18Gen(r), true)
			case 1:
				m, _ = c18Tamper(r, c18Render(c18Gen(r), true))
				tag = "direct:tampered"
			default:
				m = c18Malformed(r)
				tag = "direct:malformed"
			}
			if r.Bool() {
				id := r.Pick("bbbbb", "zzzzz", "x", "")
				out := rewriteManifest(m, id)
				cs.Add(i, fmt.Sprintf("CRw %s %s %s", gStr(m), gStr(id), gStr(out)),
					map[string]interface{}{"i": i, "fn": "rewriteManifest", "in": m, "id": id, "out": out}, out != m, tag, "fn:rewriteManifest")
			} else {
				out := arvados.PortableDataHash(m)
				cs.Add(i, fmt.Sprintf("CPdh %s %s", gStr(m), gStr(out)),
					map[string]interface{}{"i": i, "fn": "PortableDataHash", "in": m, "out": out}, true, tag, "fn:PortableDataHash")
			}
			continue
		case mode == 1: // fetch by uuid
			nrem := 1 + r.Intn(3)
			remotes := append([]string{}, pool[1:1+nrem]...)
			target := r.Pick(local, remotes[0], remotes[nrem-1], pool[4])
			uuid := target + "-4zz18-" + c18RandHex(r, 15)
			mk := func(id string) *c18Backend {
				b := &c18Backend{id: id}
				switch r.Intn(5) {
				case 0:
					b.kind, b.code = c18Err, append([]int{404, 404, 404}, c18Codes...)[r.Intn(3+len(c18Codes))]
				case 1:
					b.kind = c18Col
					b.manifest, _ = c18Tamper(r, c18Render(c18Gen(r), true))
				case 2:
					b.kind = c18Col
					b.manifest = c18Malformed(r)
				default:
					b.kind = c18Col
					b.manifest = c18Render(c18Gen(r), true)
				}
				return b
			}
			bl := mk("")
			all := []*c18Backend{bl}
			rem := map[string]backend{}
			for _, id := range remotes {
				b := mk(id)
				all = append(all, b)
				rem[id] = b
			}
			conn := &Conn{cluster: &arvados.Cluster{ClusterID: local}, local: bl, remotes: rem}
			col, err := conn.CollectionGet(context.Background(), arvados.GetOptions{UUID: uuid})
			var served *c18Backend
			ncalls := 0
			for _, b := range all {
				if len(b.calls) > 0 {
					served = b
					ncalls += len(b.calls)
				}
			}
			if ncalls != 1 {
				t.Fatalf("case %d: %d backend calls for a fetch by uuid", i, ncalls)
			}
			res := "RErr " + gN(int64(c18Code(err)))
			if err == nil {
				res = "ROk " + gStr(col.ManifestText)
			}
			cs.Add(i, fmt.Sprintf("CUuid %s %s %s %s (%s) (%s)", gStr(local), gStrs(remotes), gStr(uuid), gStr(served.id), served.gAnswer(), res),
				map[string]interface{}{"i": i, "fn": "CollectionGet(uuid)", "local": local, "remotes": remotes, "uuid": uuid, "served_by": served.id,
					"answer": served.gAnswer(), "result": res}, target != local, "get:uuid", "uuid-target:"+map[bool]string{true: "local", false: "other"}[target == local])
			continue
		}

		// ---- fetch by portable data hash ----
		nrem := r.Intn(5)
		if nrem == 0 && r.Chance(3, 4) {
			nrem = 1 + r.Intn(4)
		}
		if nrem > 4 {
			nrem = 4
		}
		remotes := append([]string{}, pool[1:1+nrem]...)
		base := c18Gen(r)
		pdh := c18PDH(base)
		req, reqTag := c18ReqVariant(r, pdh)
		fwd := ""
		if r.Chance(1, 12) {
			fwd = r.Pick("ccccc-", "zzzzz-aaaaa-")
		}
		tags := []string{"get:pdh", reqTag, fmt.Sprintf("remotes:%d", nrem)}
		setKind := func(b *c18Backend, x int) {
			switch {
			case x < 30:
				b.kind, b.manifest, b.label = c18Col, c18Render(c18Resign(r, base), true), "match"
			case x < 50:
				b.kind, b.label = c18Col, "tampered"
				var k string
				b.manifest, k = c18Tamper(r, c18Render(c18Resign(r, base), true))
				tags = append(tags, "tamper:"+k)
			case x < 58:
				b.kind, b.manifest, b.label = c18Col, c18Render(c18Gen(r), true), "other"
			case x < 62:
				b.kind, b.manifest, b.label = c18Col, c18Malformed(r), "malformed"
			case x < 82:
				b.kind, b.code, b.label = c18Err, 404, "404"
			case x < 94:
				// an error of any status class: what an rpc backend reports for a response that is not 200
				// (a TransactionError carries the remote's status, whatever it is)
				b.kind, b.code = c18Err, c18Codes[r.Intn(len(c18Codes))]
				b.label = fmt.Sprintf("%dxx", b.code/100)
			default:
				b.kind, b.label = c18Hang, "hang"
			}
		}
		bl := &c18Backend{id: ""}
		switch x := r.Intn(20); {
		case x < 13:
			bl.kind, bl.code, bl.label = c18Err, 404, "404"
		case x < 15:
			setKind(bl, r.Intn(30))
		case x < 17:
			setKind(bl, 30+r.Intn(32))
		default:
			bl.kind, bl.code = c18Err, c18Codes[r.Intn(len(c18Codes))]
			bl.label = fmt.Sprintf("%dxx", bl.code/100)
		}
		tags = append(tags, "local:"+bl.label)
		arrived := make(chan string, 8)
		passed := make(chan string, 8)
		rem := map[string]backend{}
		var rbs []*c18Backend
		for _, id := range remotes {
			b := &c18Backend{id: id, gated: true, gate: make(chan struct{}), arrived: arrived, passed: passed}
			setKind(b, r.Intn(100))
			tags = append(tags, "remote:"+b.label)
			rbs = append(rbs, b)
			rem[id] = b
		}
		// release order: a permutation of the remotes that answer; the hanging ones end last (on cancellation)
		order := append([]*c18Backend{}, rbs...)
		for k := len(order) - 1; k > 0; k-- {
			j := r.Intn(k + 1)
			order[k], order[j] = order[j], order[k]
		}
		sort.SliceStable(order, func(a, b int) bool { return order[a].kind != c18Hang && order[b].kind == c18Hang })

		conn := &Conn{cluster: &arvados.Cluster{ClusterID: local}, local: bl, remotes: rem}
		hook := &c18Hook{ch: make(chan struct{}, 16)}
		logger := logrus.New()
		logger.Out = ioutil.Discard
		logger.AddHook(hook)
		ctx, cancel := context.WithCancel(ctxlog.Context(context.Background(), logger))
		var col arvados.Collection
		var err error
		done := make(chan struct{})
		go func() {
			col, err = conn.CollectionGet(ctx, arvados.GetOptions{UUID: req, ForwardedFor: fwd})
			close(done)
		}()
		finished := false
		narr := 0
		for narr < len(rbs) && !finished {
			select {
			case <-done:
				finished = true
			case <-arrived:
				narr++
			case <-time.After(10 * time.Second):
				t.Fatalf("case %d: remote backends were not all called and the call did not return", i)
			}
		}
		syncTimeouts := 0
		for _, b := range order {
			if finished || b.kind == c18Hang {
				break
			}
			// drain stale warnings (the local answer may have produced one)
			for len(hook.ch) > 0 {
				<-hook.ch
			}
			close(b.gate)
			select {
			case <-passed:
			case <-done:
				finished = true
			case <-time.After(10 * time.Second):
				t.Fatalf("case %d: released backend did not continue", i)
			}
			if b.kind == c18Col && !finished {
				// the answer is either accepted (the call returns) or rejected (a warning is logged)
				select {
				case <-done:
					finished = true
				case <-hook.ch:
				case <-time.After(2 * time.Second):
					syncTimeouts++
				}
			}
		}
		if !finished {
			hasHang := false
			for _, b := range rbs {
				hasHang = hasHang || b.kind == c18Hang
			}
			if hasHang {
				// nobody answers any more: the client gives up
				select {
				case <-done:
				case <-time.After(20 * time.Millisecond):
				}
				cancel()
			}
			select {
			case <-done:
			case <-time.After(10 * time.Second):
				t.Fatalf("case %d: CollectionGet did not return", i)
			}
		}
		cancel()
		var calls []string
		calls = append(calls, bl.calls...)
		for _, b := range rbs {
			b.mtx.Lock()
			calls = append(calls, b.calls...)
			b.mtx.Unlock()
		}
		sort.Strings(calls)
		var arr []string
		var arrDesc []string
		for _, b := range order {
			arr = append(arr, "("+gStr(b.id)+", "+b.gAnswer()+")")
			arrDesc = append(arrDesc, b.id+":"+b.label)
		}
		res := "RErr " + gN(int64(c18Code(err)))
		if err == nil {
			res = "ROk " + gStr(col.ManifestText)
			tags = append(tags, "result:ok")
		} else {
			tags = append(tags, fmt.Sprintf("result:%d", c18Code(err)))
		}
		if syncTimeouts > 0 {
			tags = append(tags, "sync-timeout")
		}
		term := fmt.Sprintf("CGet %s %s %s (%s) %s %s (%s)", gStr(local), gStr(req), gStr(fwd), bl.gAnswer(), gList(arr), gStrs(calls), res)
		desc := map[string]interface{}{"i": i, "fn": "CollectionGet(pdh)", "local_id": local, "req": req, "pdh": pdh, "forwarded_for": fwd,
			"local": bl.label, "release_order": arrDesc, "calls": calls, "result": res, "base": c18Render(base, true)}
		if err != nil {
			desc["error"] = err.Error()
		}
		cs.Add(i, term, desc, len(rbs) >= 2 || err == nil, tags...)
	}
	cs.Write()
}
