#!/usr/bin/env python3
"""C10 stage "py": drive /repo/sdk/python/arvados/_ranges.py and _normalize_stream.py (no other SDK module is loaded:
arvados.config is a stub holding EMPTY_BLOCK_LOCATOR).  Input: one JSON case per line on stdin (names hex-encoded,
decoded as latin-1 so that one character is one byte, or - case flag "utf8" - as UTF-8 text the way SDK callers pass
unicode strings); output: one JSON result per line."""
import binascii
import importlib.util
import json
import os
import sys
import types

PYDIR = os.environ.get("VERIF_C10_PYDIR", "/repo/sdk/python/arvados")

pkg = types.ModuleType("arvados")
pkg.__path__ = []
sys.modules["arvados"] = pkg
cfg = types.ModuleType("arvados.config")
cfg.EMPTY_BLOCK_LOCATOR = "d41d8cd98f00b204e9800998ecf8427e+0"
sys.modules["arvados.config"] = cfg
pkg.config = cfg


def load(name):
    path = os.path.join(PYDIR, name + ".py")
    # tools/withpatch.py: run against a mutated copy of an SDK file without touching /repo
    for kv in filter(None, os.environ.get("VERIF_PYREPLACE", "").split(",")):
        k, v = kv.split("=", 1)
        if k == "sdk/python/arvados/%s.py" % name:
            path = v
    spec = importlib.util.spec_from_file_location("arvados." + name, path)
    mod = importlib.util.module_from_spec(spec)
    sys.modules["arvados." + name] = mod
    spec.loader.exec_module(mod)
    return mod


ranges = load("_ranges")
norm = load("_normalize_stream")


CODEC = "latin-1"


def unhx(s):
    return binascii.unhexlify(s).decode(CODEC)


def hx(s):
    # a character the codec cannot encode can only come from a wrong escape: keep the run going and make it visible
    return binascii.hexlify(s.encode(CODEC, "backslashreplace")).decode("ascii")


for line in sys.stdin:
    line = line.strip()
    if not line:
        continue
    c = json.loads(line)
    CODEC = "utf-8" if c.get("utf8") else "latin-1"
    res = {"segs": [], "norm": None, "esc": [], "exc": ""}
    data_locators = []
    off = 0
    for loc, size in c["blocks"] or []:
        data_locators.append(ranges.Range(loc, off, int(size)))
        off += int(size)
    stream = {}
    failed = False
    for pos, ln, name in c["toks"] or []:
        name = unhx(name)
        try:
            lr = ranges.locators_and_ranges(data_locators, int(pos), int(ln))
            res["segs"].append([[x.locator, str(x.block_size), str(x.segment_offset), str(x.segment_size)] for x in lr])
            stream.setdefault(name, []).extend(lr)
        except Exception as e:  # an exception is an observation
            res["segs"].append(None)
            res["exc"] = repr(e)
            failed = True
    if not failed:
        try:
            res["norm"] = [hx(t) for t in norm.normalize_stream(unhx(c["name"]), stream)]
        except Exception as e:
            res["exc"] = repr(e)
    for n in c.get("names") or []:
        res["esc"].append(hx(norm.escape(unhx(n))))
    sys.stdout.write(json.dumps(res) + "\n")
