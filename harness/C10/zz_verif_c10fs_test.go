//go:build verif

package arvados

// C10, stage "fs": the collection filesystem's manifest codec, PortableDataHash and SizedDigests, driven through
// the package API on generated manifests (valid / single-token mutations / arbitrary bytes).  Everything runs under
// recover so a panic is an observation, and under a watchdog so a hang is a failure of the run.

import (
	"fmt"
	"io"
	"io/ioutil"
	"os"
	"sort"
	"strings"
	"testing"
	"time"
)

type c10Keep struct{ blocks map[string][]byte }

func (k *c10Keep) ReadAt(loc string, p []byte, off int) (int, error) {
	if len(loc) < 32 {
		return 0, os.ErrNotExist
	}
	b, ok := k.blocks[loc[:32]]
	if !ok {
		return 0, os.ErrNotExist
	}
	if off > len(b) {
		return 0, io.ErrUnexpectedEOF
	}
	return copy(p, b[off:]), nil
}
func (k *c10Keep) PutB(p []byte) (string, int, error)      { return "", 0, fmt.Errorf("read-only stub") }
func (k *c10Keep) LocalLocator(l string) (string, error)   { return l, nil }

type c10Entry struct {
	Path  string
	Dir   bool
	Size  int64
	Bytes string
}
type c10FsObs struct {
	Panic   string
	Load    bool
	LoadErr string
	List    []c10Entry
	Marshal *string
	PDH     string
	SD      []string
	SDOk    bool
}

func c10Walk(fs CollectionFileSystem, dir string, read bool, out *[]c10Entry) error {
	f, err := fs.Open(dir)
	if err != nil {
		return err
	}
	fis, err := f.Readdir(-1)
	f.Close()
	if err != nil {
		return err
	}
	for _, fi := range fis {
		p := dir + "/" + fi.Name()
		if fi.IsDir() {
			*out = append(*out, c10Entry{Path: p, Dir: true})
			if err := c10Walk(fs, p, read, out); err != nil {
				return err
			}
			continue
		}
		e := c10Entry{Path: p, Size: fi.Size()}
		if read {
			g, err := fs.Open(p)
			if err != nil {
				return err
			}
			data, err := ioutil.ReadAll(g)
			g.Close()
			if err != nil {
				return fmt.Errorf("read %q: %v", p, err)
			}
			e.Bytes = string(data)
		}
		*out = append(*out, e)
	}
	return nil
}

func c10RunFS(m *c10Man) (obs c10FsObs) {
	done := make(chan struct{})
	go func() {
		defer close(done)
		defer func() {
			if e := recover(); e != nil {
				obs.Panic = fmt.Sprint(e)
			}
		}()
		kc := &c10Keep{blocks: m.Store}
		fs, err := (&Collection{ManifestText: m.Text}).FileSystem(nil, kc)
		if err != nil {
			obs.LoadErr = err.Error()
		} else {
			obs.Load = true
			if err := c10Walk(fs, ".", m.Kind == 0, &obs.List); err != nil {
				obs.Panic = "walk: " + err.Error()
			}
			sort.Slice(obs.List, func(i, j int) bool { return obs.List[i].Path < obs.List[j].Path })
			if mt, err := fs.MarshalManifest("."); err == nil {
				obs.Marshal = &mt
			}
		}
		obs.PDH = PortableDataHash(m.Text)
		if m.Text != "" {
			sds, err := (&Collection{ManifestText: m.Text}).SizedDigests()
			if err == nil {
				obs.SDOk = true
				for _, sd := range sds {
					obs.SD = append(obs.SD, string(sd))
				}
			}
		}
	}()
	select {
	case <-done:
	case <-time.After(20 * time.Second):
		obs.Panic = "hang (no result after 20 s)"
	}
	return
}

func TestVerifC10FS(t *testing.T) {
	seed := vSeed()
	n := vEnvInt("VERIF_N", 100)
	only := vOnly()
	stage := os.Getenv("VERIF_STAGE")
	if stage == "" {
		stage = "fs"
	}
	exh := os.Getenv("VERIF_MODE") == "exh"
	var exhAll []c10ExhCase
	if exh {
		exhAll = c10ExhAll()
		n = len(exhAll)
	}
	cs := vNewCases(stage)
	for i := 0; i < n; i++ {
		if only >= 0 && i != only {
			continue
		}
		var m *c10Man
		if exh {
			m = c10ExhManifest(exhAll[i])
		} else {
			m = c10Manifest(seed, i)
		}
		obs := c10RunFS(m)
		var list []string
		for _, e := range obs.List {
			list = append(list, fmt.Sprintf("(%s, %s, %s, %s)", c10Str(e.Path), gBool(e.Dir), gN(e.Size), c10Str(e.Bytes)))
		}
		marshal := "None"
		if obs.Marshal != nil {
			marshal = "(Some " + c10Str(*obs.Marshal) + ")"
		}
		store := "[]"
		if m.Kind == 0 {
			store = c10StoreTerm(m)
		}
		term := fmt.Sprintf("{| c_kind := %s; c_txt := %s; c_store := %s;\n   o_panic := %s; o_load := %s; o_list := %s;\n   o_marshal := %s; o_pdh := %s; o_sd := %s |}",
			gN(int64(m.Kind)), c10Str(m.Text), store, gBool(obs.Panic != ""), gBool(obs.Load), gList(list), marshal, c10Str(obs.PDH),
			gOpt(obs.SDOk, c10Strs(obs.SD)))
		desc := map[string]interface{}{"index": i, "kind": m.Kind, "manifest": m.Text, "panic": obs.Panic, "load_ok": obs.Load,
			"load_err": obs.LoadErr, "listing": obs.List, "marshal": obs.Marshal, "pdh": obs.PDH, "sized_digests": obs.SD, "tags": m.Tags}
		tags := append([]string{fmt.Sprintf("kind=%d", m.Kind), fmt.Sprintf("load_ok=%v", obs.Load)}, m.Tags...)
		cs.Add(i, term, desc, len(strings.Fields(m.Text)) >= 3, tags...)
	}
	cs.Write()
}
