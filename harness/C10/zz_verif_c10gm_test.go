//go:build verif

package manifest

// C10, stages "gm" and "py".
// gm: the Go manifest package through its exported API (StreamIter + ManifestStream.FileSegmentIterByName, Extract,
//     BlockIterWithDuplicates + Manifest.Err, Manifest.FileSegmentIterByName, EscapeName/UnescapeName).  The operations run in a CHILD process (this test binary re-executed) because the
//     package's panics happen in goroutines and cannot be recovered; a dead or silent child is the observation
//     "Panic".  The child runs under ulimit -v and a progress watchdog.
// py: sdk/python/arvados/_ranges.py and _normalize_stream.py under python3 (harness/C10/py_driver.py), on the streams
//     of the same generated manifests.

import (
	"bufio"
	"bytes"
	"encoding/hex"
	"encoding/json"
	"fmt"
	"io/ioutil"
	"os"
	"os/exec"
	"strings"
	"testing"
	"time"
	"unicode/utf8"
)

type c10Op struct {
	Kind  string // iter, extract, esc, blocks, filesegs
	Text  string // hex
	A, B  string // hex: src/reloc or name
	Index int
}
type c10Seg struct {
	Loc      string
	Off, Len int
}
type c10IterItem struct {
	Path string // hex
	Segs []c10Seg
}
type c10Block struct {
	Digest string
	Size   int
	Hints  string
}
type c10Res struct {
	Index  int
	Kind   string // iter, text, err, esc, blocks, segs
	Iter   []c10IterItem
	A, B   string // hex
	Blocks []c10Block
	Err    bool   // blocks: Manifest.Err != nil after the channel was closed
	ErrMsg string
	Segs   []c10Seg
}

func hx(s string) string { return hex.EncodeToString([]byte(s)) }
func unhx(s string) string {
	b, _ := hex.DecodeString(s)
	return string(b)
}

func c10DoOp(op c10Op) c10Res {
	res := c10Res{Index: op.Index}
	txt := unhx(op.Text)
	switch op.Kind {
	case "esc":
		res.Kind = "esc"
		res.A = hx(EscapeName(unhx(op.A)))
		res.B = hx(UnescapeName(unhx(op.A)))
	case "iter":
		res.Kind = "iter"
		m := Manifest{Text: txt}
		for ms := range m.StreamIter() {
			if ms.Err != nil {
				continue
			}
			for _, f := range ms.FileStreamSegments {
				p := ms.StreamName + "/" + f.Name
				item := c10IterItem{Path: hx(p)}
				for seg := range ms.FileSegmentIterByName(p) {
					item.Segs = append(item.Segs, c10Seg{seg.Locator, seg.Offset, seg.Len})
				}
				res.Iter = append(res.Iter, item)
			}
		}
	case "blocks":
		res.Kind = "blocks"
		m := Manifest{Text: txt}
		for b := range m.BlockIterWithDuplicates() {
			res.Blocks = append(res.Blocks, c10Block{b.Digest.String(), b.Size, strings.Join(b.Hints, "+")})
		}
		// "In order to detect parse errors, caller must check m.Err after the returned channel closes."
		if m.Err != nil {
			res.Err, res.ErrMsg = true, m.Err.Error()
		}
	case "filesegs":
		res.Kind = "segs"
		m := Manifest{Text: txt}
		for seg := range m.FileSegmentIterByName(unhx(op.A)) {
			res.Segs = append(res.Segs, c10Seg{seg.Locator, seg.Offset, seg.Len})
		}
	case "extract":
		m := Manifest{Text: txt}
		ex := m.Extract(unhx(op.A), unhx(op.B))
		if ex.Err != nil {
			res.Kind = "err"
			res.A = hx(ex.Err.Error())
		} else {
			res.Kind = "text"
			res.A = hx(ex.Text)
		}
	}
	return res
}

// child: read ops (JSON lines) from VERIF_C10_IN starting at VERIF_C10_FROM, append results to VERIF_C10_OUT
func TestVerifC10Child(t *testing.T) {
	in := os.Getenv("VERIF_C10_IN")
	if in == "" {
		t.Skip("not a child")
	}
	from := vEnvInt("VERIF_C10_FROM", 0)
	data, err := ioutil.ReadFile(in)
	if err != nil {
		t.Fatal(err)
	}
	out, err := os.OpenFile(os.Getenv("VERIF_C10_OUT"), os.O_APPEND|os.O_CREATE|os.O_WRONLY, 0666)
	if err != nil {
		t.Fatal(err)
	}
	defer out.Close()
	sc := bufio.NewScanner(bytes.NewReader(data))
	sc.Buffer(make([]byte, 1<<20), 1<<26)
	k := 0
	for sc.Scan() {
		if k < from {
			k++
			continue
		}
		var op c10Op
		if err := json.Unmarshal(sc.Bytes(), &op); err != nil {
			t.Fatal(err)
		}
		fmt.Fprintf(out, "BEGIN %d\n", k)
		res := c10DoOp(op)
		j, _ := json.Marshal(res)
		fmt.Fprintf(out, "RES %d %s\n", k, j)
		k++
	}
	fmt.Fprintf(out, "DONE\n")
}

// run all ops in child processes; a child that dies or stalls on op k yields Panic for k and is restarted at k+1
func c10RunChildren(t *testing.T, ops []c10Op) map[int]*c10Res {
	dir, err := ioutil.TempDir("", "c10gm")
	if err != nil {
		t.Fatal(err)
	}
	defer os.RemoveAll(dir)
	in, outp := dir+"/ops.jsonl", dir+"/res.txt"
	var buf bytes.Buffer
	for _, op := range ops {
		j, _ := json.Marshal(op)
		buf.Write(j)
		buf.WriteByte('\n')
	}
	ioutil.WriteFile(in, buf.Bytes(), 0666)
	results := map[int]*c10Res{}
	from := 0
	restarts := 0
	for from < len(ops) {
		os.Remove(outp)
		cmd := exec.Command("sh", "-c", `ulimit -v 8000000; exec "$0" -test.run 'TestVerifC10Child$' -test.timeout 600s`, os.Args[0])
		cmd.Env = append(os.Environ(), "VERIF_C10_IN="+in, "VERIF_C10_OUT="+outp, fmt.Sprintf("VERIF_C10_FROM=%d", from))
		var stderr bytes.Buffer
		cmd.Stdout, cmd.Stderr = &stderr, &stderr
		if err := cmd.Start(); err != nil {
			t.Fatal(err)
		}
		exited := make(chan error, 1)
		go func() { exited <- cmd.Wait() }()
		lastSize, lastChange := int64(-1), time.Now()
	wait:
		for {
			select {
			case <-exited:
				break wait
			case <-time.After(200 * time.Millisecond):
				var sz int64
				if fi, err := os.Stat(outp); err == nil {
					sz = fi.Size()
				}
				if sz != lastSize {
					lastSize, lastChange = sz, time.Now()
				} else if time.Since(lastChange) > 20*time.Second {
					cmd.Process.Kill() // hang
					<-exited
					break wait
				}
			}
		}
		data, _ := ioutil.ReadFile(outp)
		begun, done := -1, false
		for _, line := range strings.Split(string(data), "\n") {
			switch {
			case strings.HasPrefix(line, "BEGIN "):
				fmt.Sscanf(line, "BEGIN %d", &begun)
			case strings.HasPrefix(line, "RES "):
				var k int
				fmt.Sscanf(line, "RES %d ", &k)
				rest := line[strings.Index(line[4:], " ")+5:]
				var r c10Res
				if err := json.Unmarshal([]byte(rest), &r); err != nil {
					t.Fatalf("bad result line %q: %v", line, err)
				}
				results[k] = &r
				if k == begun {
					begun = -1
				}
			case line == "DONE":
				done = true
			}
		}
		if done {
			break
		}
		if begun < 0 {
			// died outside an operation: infrastructure problem
			restarts++
			if restarts > 3 {
				t.Fatalf("child keeps dying outside operations: %s", stderr.String())
			}
			from = len(results)
			continue
		}
		results[begun] = nil // Panic
		from = begun + 1
	}
	return results
}

func c10SegTerm(s c10Seg) string { return fmt.Sprintf("(%s, %s, %s)", c10Str(s.Loc), gN(int64(s.Off)), gN(int64(s.Len))) }

var c10Relocs = []string{".", "./out", "./out/", "./x/y", "./x/y/", "./d1", "./d1/"}
var c10NoisyPaths = []string{"", "/", "..", "../x", "./a//b", "a/./b", "./d1/", "x/..", "/abs/", "d1", "./d1/../d1", "./", "./.", "sub/", "//"}

func c10OpsFor(seed uint64, j int, m *c10Man) []c10Op {
	r := vCaseRand(seed+77, j)
	srcs := []string{".", "./nonexistent"}
	srcs = append(srcs, m.Files...)
	srcs = append(srcs, m.Dirs...)
	pick := func() (string, string) {
		return srcs[r.Intn(len(srcs))], c10Relocs[r.Intn(len(c10Relocs))]
	}
	a1, b1 := pick()
	a2, b2 := pick()
	if len(m.Bases) > 0 {
		// extract the directory whose name is a proper prefix (without slash) of a sibling's name
		a1 = m.Bases[r.Intn(len(m.Bases))]
	}
	var a3, b3 string
	if r.Bool() {
		a3, b3 = c10NoisyPaths[r.Intn(len(c10NoisyPaths))], c10Relocs[r.Intn(len(c10Relocs))]
	} else {
		a3, b3 = srcs[r.Intn(len(srcs))], c10NoisyPaths[r.Intn(len(c10NoisyPaths))]
	}
	name := c10FileNames[r.Intn(len(c10FileNames))]
	switch r.Intn(4) {
	case 0:
		name = c10Esc(name, true) + c10NameSuffix[r.Intn(len(c10NameSuffix))]
	case 1:
		name += c10NameSuffix[r.Intn(len(c10NameSuffix))] + name
	}
	// Manifest.FileSegmentIterByName: one canonical path of the manifest (file, else directory), one arbitrary path
	f1 := srcs[r.Intn(len(srcs))]
	if len(m.Files) > 0 {
		f1 = m.Files[r.Intn(len(m.Files))]
	}
	f2 := srcs[r.Intn(len(srcs))]
	if r.Chance(1, 3) {
		f2 = c10NoisyPaths[r.Intn(len(c10NoisyPaths))]
	} else if len(m.Files) > 0 && r.Bool() {
		f2 = strings.TrimPrefix(m.Files[r.Intn(len(m.Files))], "./") // fixStreamName puts the "./" back
	}
	t := hx(m.Text)
	return []c10Op{
		{Kind: "iter", Text: t},
		{Kind: "extract", Text: t, A: hx("."), B: hx(".")},
		{Kind: "extract", Text: t, A: hx(a1), B: hx(b1)},
		{Kind: "extract", Text: t, A: hx(a2), B: hx(b2)},
		{Kind: "extract", Text: t, A: hx(a3), B: hx(b3)},
		{Kind: "esc", A: hx(name)},
		{Kind: "blocks", Text: t},
		{Kind: "filesegs", Text: t, A: hx(f1)},
		{Kind: "filesegs", Text: t, A: hx(f2)},
	}
}

// one case = one manifest + the operations run on it (each in the child process)
func TestVerifC10GM(t *testing.T) {
	seed := vSeed()
	n := vEnvInt("VERIF_N", 100)
	only := vOnly()
	stage := os.Getenv("VERIF_STAGE")
	if stage == "" {
		stage = "gm"
	}
	exh := os.Getenv("VERIF_MODE") == "exh"
	var ops []c10Op
	type mcase struct {
		idx      int
		m        *c10Man
		from, to int // ops[from:to]
	}
	var mcs []mcase
	if exh {
		for i, e := range c10ExhAll() {
			if only >= 0 && i != only {
				continue
			}
			m := c10ExhManifest(e)
			mcs = append(mcs, mcase{i, m, len(ops), len(ops) + 1})
			ops = append(ops, c10Op{Kind: "iter", Text: hx(m.Text), Index: i})
		}
	} else {
		for j := 0; j < n; j++ {
			if only >= 0 && only != j {
				continue
			}
			m := c10Manifest(seed, j)
			mo := c10OpsFor(seed, j, m)
			mcs = append(mcs, mcase{j, m, len(ops), len(ops) + len(mo)})
			for _, op := range mo {
				op.Index = j
				ops = append(ops, op)
			}
		}
	}
	results := c10RunChildren(t, ops)
	cs := vNewCases(stage)
	for _, mc := range mcs {
		m := mc.m
		var terms []string
		var opdescs []map[string]interface{}
		tags := append([]string{fmt.Sprintf("kind=%d", m.Kind)}, m.Tags...)
		for k := mc.from; k < mc.to; k++ {
			op := ops[k]
			var gop, obs, outcome string
			od := map[string]interface{}{"op": op.Kind, "a": unhx(op.A), "b": unhx(op.B)}
			switch op.Kind {
			case "iter":
				gop = "OpIter"
			case "extract":
				gop = fmt.Sprintf("(OpExtract %s %s)", c10Str(unhx(op.A)), c10Str(unhx(op.B)))
			case "blocks":
				gop = "OpBlocks"
			case "filesegs":
				gop = fmt.Sprintf("(OpFileSegs %s)", c10Str(unhx(op.A)))
			default:
				gop = fmt.Sprintf("(OpEsc %s)", c10Str(unhx(op.A)))
			}
			res, ok := results[k]
			switch {
			case !ok:
				t.Fatalf("no result for op %d", k)
			case res == nil:
				obs, outcome = "ObsPanic", "panic"
			case res.Kind == "iter":
				var items []string
				for _, it := range res.Iter {
					var segs []string
					for _, s := range it.Segs {
						segs = append(segs, c10SegTerm(s))
					}
					items = append(items, "("+c10Str(unhx(it.Path))+", "+gList(segs)+")")
				}
				obs, outcome = "(ObsIter "+gList(items)+")", "ok"
				od["iter"] = res.Iter
			case res.Kind == "text":
				obs, outcome = "(ObsText "+c10Str(unhx(res.A))+")", "ok"
				od["text"] = unhx(res.A)
			case res.Kind == "err":
				obs, outcome = "ObsErr", "err"
				od["err"] = unhx(res.A)
			case res.Kind == "blocks":
				var bs []string
				for _, b := range res.Blocks {
					bs = append(bs, fmt.Sprintf("(%s, %s, %s)", c10Str(b.Digest), gN(int64(b.Size)), c10Str(b.Hints)))
				}
				e := "false"
				outcome = "ok"
				if res.Err {
					e, outcome = "true", "err"
				}
				obs = "(ObsBlocks " + gList(bs) + " " + e + ")"
				od["blocks"], od["err"] = res.Blocks, res.ErrMsg
			case res.Kind == "segs":
				var segs []string
				for _, s := range res.Segs {
					segs = append(segs, c10SegTerm(s))
				}
				obs, outcome = "(ObsSegs "+gList(segs)+")", "ok"
				od["segs"] = res.Segs
			case res.Kind == "esc":
				obs, outcome = "(ObsEsc "+c10Str(unhx(res.A))+" "+c10Str(unhx(res.B))+")", "ok"
				od["escaped"], od["unescaped"] = unhx(res.A), unhx(res.B)
			}
			od["outcome"] = outcome
			opdescs = append(opdescs, od)
			terms = append(terms, "("+gop+", "+obs+")")
			tags = append(tags, "op="+op.Kind, "outcome="+outcome)
		}
		term := fmt.Sprintf("{| c_kind := %s; c_txt := %s; c_ops := %s |}", gN(int64(m.Kind)), c10Str(m.Text), gList(terms))
		desc := map[string]interface{}{"index": mc.idx, "kind": m.Kind, "manifest": m.Text, "ops": opdescs, "tags": m.Tags}
		cs.Add(mc.idx, term, desc, len(strings.Fields(m.Text)) >= 3, tags...)
	}
	cs.Write()
}

// ---------------------------------------------------------------------------------------------------------------

type c10PyCase struct {
	Name   string     `json:"name"`   // hex, stream name
	Blocks [][]string `json:"blocks"` // [locator, size]
	Toks   [][]string `json:"toks"`   // [pos, len, hex name]
	Names  []string   `json:"names"`  // hex, for escape()
	UTF8   bool       `json:"utf8"`   // names are decoded as UTF-8 (unicode strings, as SDK callers pass them) instead of latin-1
}
type c10PyRes struct {
	Segs [][][]string `json:"segs"` // per token: list of [locator, block_size, segment_offset, segment_size]; null = exception
	Norm []string     `json:"norm"` // hex tokens; null = exception
	Esc  []string     `json:"esc"`  // hex
	Exc  string       `json:"exc"`
}

func TestVerifC10PY(t *testing.T) {
	seed := vSeed()
	n := vEnvInt("VERIF_N", 100)
	only := vOnly()
	stage := os.Getenv("VERIF_STAGE")
	if stage == "" {
		stage = "py"
	}
	exh := os.Getenv("VERIF_MODE") == "exh"
	type item struct {
		idx  int
		st   c10Stream
		tags []string
		esc  []string
		utf8 bool
	}
	var items []item
	if exh {
		for i, e := range c10ExhAll() {
			if only >= 0 && i != only {
				continue
			}
			m := c10ExhManifest(e)
			items = append(items, item{i, m.Streams[0], m.Tags, nil, false})
		}
	} else {
		// n counts manifests; each stream of a valid manifest is one case (index = 4*j + stream number);
		// every 5th case also gets tokens that lie outside the stream
		for j := 0; j < n; j++ {
			r := vCaseRand(seed+99, j)
			m := c10Gen(vCaseRand(seed, j))
			for k, st := range m.Streams {
				idx := 4*j + k
				if only >= 0 && idx != only {
					continue
				}
				var esc []string
				for e := 0; e < 2; e++ {
					nm := c10FileNames[r.Intn(len(c10FileNames))]
					if r.Chance(1, 3) {
						nm += c10NameSuffix[r.Intn(len(c10NameSuffix))] + nm
					}
					esc = append(esc, nm)
				}
				tags := append([]string(nil), m.Tags...)
				if r.Chance(1, 5) {
					var total int64
					for _, s := range st.Sizes {
						total += s
					}
					st.Toks = append(append([]c10Tok(nil), st.Toks...), c10Tok{Pos: total + int64(r.Intn(3)), Len: 1 + int64(r.Intn(3)), Name: "oor"})
					if r.Bool() {
						st.Toks = append(st.Toks, c10Tok{Pos: int64(r.Intn(int(total) + 1)), Len: total + 1, Name: "oor2"})
					}
					tags = append(tags, "out-of-range-token")
				}
				// when every name is valid UTF-8, hand them to Python as unicode text half of the time
				u8 := utf8.ValidString(st.Name)
				for _, tk := range st.Toks {
					u8 = u8 && utf8.ValidString(tk.Name)
				}
				for _, e := range esc {
					u8 = u8 && utf8.ValidString(e)
				}
				u8 = u8 && r.Bool()
				if u8 {
					tags = append(tags, "names-as-utf8")
				} else {
					tags = append(tags, "names-as-latin1")
				}
				items = append(items, item{idx, st, tags, esc, u8})
			}
		}
	}
	var in bytes.Buffer
	for _, it := range items {
		pc := c10PyCase{Name: hx(it.st.Name)}
		pc.UTF8 = it.utf8
		for b, loc := range it.st.Blocks {
			pc.Blocks = append(pc.Blocks, []string{loc, fmt.Sprint(it.st.Sizes[b])})
		}
		for _, tk := range it.st.Toks {
			pc.Toks = append(pc.Toks, []string{fmt.Sprint(tk.Pos), fmt.Sprint(tk.Len), hx(tk.Name)})
		}
		for _, e := range it.esc {
			pc.Names = append(pc.Names, hx(e))
		}
		j, _ := json.Marshal(pc)
		in.Write(j)
		in.WriteByte('\n')
	}
	cmd := exec.Command("sh", "-c", `ulimit -v 4000000; exec python3 "$0"`, os.Getenv("VERIF_C10_PYDRIVER"))
	cmd.Stdin = &in
	var stderr bytes.Buffer
	cmd.Stderr = &stderr
	timer := time.AfterFunc(600*time.Second, func() { cmd.Process.Kill() })
	outb, err := cmd.Output()
	timer.Stop()
	if err != nil {
		t.Fatalf("python driver failed: %v\n%s", err, stderr.String())
	}
	lines := strings.Split(strings.TrimSpace(string(outb)), "\n")
	if len(items) == 0 {
		lines = nil
	}
	if len(lines) != len(items) {
		t.Fatalf("python driver returned %d results for %d cases\n%s", len(lines), len(items), stderr.String())
	}
	cs := vNewCases(stage)
	for k, it := range items {
		var res c10PyRes
		if err := json.Unmarshal([]byte(lines[k]), &res); err != nil {
			t.Fatalf("bad python result %q: %v", lines[k], err)
		}
		var blocks, toks, names, segs, esc []string
		for b, loc := range it.st.Blocks {
			blocks = append(blocks, "("+c10Str(loc)+", "+gN(it.st.Sizes[b])+")")
		}
		for _, tk := range it.st.Toks {
			toks = append(toks, "("+gN(tk.Pos)+", "+gN(tk.Len)+", "+c10Str(tk.Name)+")")
		}
		for _, e := range it.esc {
			names = append(names, c10Str(e))
		}
		for _, sl := range res.Segs {
			if sl == nil {
				segs = append(segs, "None")
				continue
			}
			var xs []string
			for _, s := range sl {
				xs = append(xs, fmt.Sprintf("(%s, %s%%N, %s%%N, %s%%N)", c10Str(s[0]), s[1], s[2], s[3]))
			}
			segs = append(segs, "(Some "+gList(xs)+")")
		}
		for _, e := range res.Esc {
			esc = append(esc, c10Str(unhx(e)))
		}
		norm := "None"
		var normToks []string
		if res.Norm != nil {
			for _, x := range res.Norm {
				normToks = append(normToks, unhx(x))
			}
			norm = "(Some " + c10Strs(normToks) + ")"
		}
		term := fmt.Sprintf("{| c_name := %s; c_blocks := %s; c_fts := %s; c_names := %s;\n   o_segs := %s; o_norm := %s; o_esc := %s |}",
			c10Str(it.st.Name), gList(blocks), gList(toks), gList(names), gList(segs), norm, gList(esc))
		desc := map[string]interface{}{"index": it.idx, "stream": it.st, "segments": res.Segs, "normalized": normToks, "exception": res.Exc, "tags": it.tags}
		cs.Add(it.idx, term, desc, len(it.st.Blocks) >= 2, it.tags...)
	}
	cs.Write()
}
