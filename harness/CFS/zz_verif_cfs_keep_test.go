//go:build verif

package arvados

import (
	"crypto/md5"
	"errors"
	"fmt"
	"io"
	"os"
	"strings"
	"sync"
)

// cfsKeep is the fake Keep used by the C08/C09/C13 harnesses: an in-memory block store whose
// writes can be failed (by ordinal) or gated (each PutB blocks until released by the controller).
type cfsKeep struct {
	mtx     sync.Mutex
	blocks  map[string][]byte
	puts    int          // number of PutB calls started
	log     []cfsPut     // completed PutB calls, in completion order
	failNth map[int]bool // ordinals (1-based, in start order) that fail
	failAll bool
	gated   bool
	gates   map[int]chan bool // ordinal -> release channel (value: succeed?)
	arrived chan int          // ordinals, as calls arrive (gated mode)
}

type cfsPut struct {
	ordinal int
	data    []byte
	locator string
	ok      bool
}

func newCfsKeep() *cfsKeep {
	return &cfsKeep{blocks: map[string][]byte{}, failNth: map[int]bool{}, gates: map[int]chan bool{}, arrived: make(chan int, 1024)}
}

func (k *cfsKeep) ReadAt(loc string, p []byte, off int) (int, error) {
	k.mtx.Lock()
	defer k.mtx.Unlock()
	if len(loc) < 32 {
		return 0, os.ErrNotExist
	}
	b, ok := k.blocks[loc[:32]]
	if !ok {
		return 0, os.ErrNotExist
	}
	if off > len(b) {
		return 0, io.ErrUnexpectedEOF
	}
	return copy(p, b[off:]), nil
}

func (k *cfsKeep) PutB(p []byte) (string, int, error) {
	p = append([]byte(nil), p...)
	k.mtx.Lock()
	k.puts++
	ord := k.puts
	fail := k.failAll || k.failNth[ord]
	var gate chan bool
	if k.gated {
		gate = make(chan bool, 1)
		k.gates[ord] = gate
	}
	k.mtx.Unlock()
	if gate != nil {
		k.arrived <- ord
		if !<-gate {
			fail = true
		}
	}
	h := fmt.Sprintf("%x", md5.Sum(p))
	loc := fmt.Sprintf("%s+%d", h, len(p))
	k.mtx.Lock()
	defer k.mtx.Unlock()
	if fail {
		k.log = append(k.log, cfsPut{ord, p, "", false})
		return "", 0, errors.New("stub keep: write refused")
	}
	k.blocks[h] = p
	k.log = append(k.log, cfsPut{ord, p, loc, true})
	return loc, 1, nil
}

func (k *cfsKeep) LocalLocator(l string) (string, error) { return l, nil }

// release lets gated PutB number ord finish (ok=false: fail it).
func (k *cfsKeep) release(ord int, ok bool) {
	k.mtx.Lock()
	g := k.gates[ord]
	delete(k.gates, ord)
	k.mtx.Unlock()
	if g != nil {
		g <- ok
	}
}

// cfsErr maps an error to the model's error class.
func cfsErr(err error) string {
	if err == nil {
		return ""
	}
	m := err.Error()
	switch {
	case err == io.EOF:
		return "EOF"
	case strings.Contains(m, "cannot rename file to overwrite existing directory"):
		return "EIsDir"
	case strings.Contains(m, "directory not empty"):
		return "ENotEmpty"
	case strings.Contains(m, "file does not exist"):
		return "ENotExist"
	case strings.Contains(m, "not a directory"):
		return "ENotDir"
	case strings.Contains(m, "file exists"), strings.Contains(m, "file already exists"):
		return "EExist"
	case strings.Contains(m, "invalid argument"):
		return "EInvalidArg"
	case strings.Contains(m, "invalid operation"):
		return "EInvalidOp"
	case strings.Contains(m, "read-only file"):
		return "EReadOnly"
	case strings.Contains(m, "file is O_WRONLY"):
		return "EWriteOnly"
	case strings.Contains(m, "cannot seek to negative offset"):
		return "ENegOffset"
	case strings.Contains(m, "O_SYNC flag is not supported"):
		return "ESyncFlag"
	}
	return "EOther"
}
