//go:build verif

package arvados

import (
	"crypto/md5"
	"errors"
	"fmt"
	"io"
	"os"
	"strings"
	"sync"
)

// cfsKeep is the fake Keep used by the C08/C09/C13 harnesses: an in-memory block store.  Whether a
// write fails is decided when it arrives, from the current failure mode and the data (the Coq model's
// put_fails is the same function).  In gated mode every PutB blocks until the controller releases it.
type cfsKeep struct {
	mtx     sync.Mutex
	blocks  map[string][]byte
	mode    int  // 0 never fail, 1 always, 2 fail iff sum of bytes is even, 3+ fail iff length is odd
	gated   bool // PutB blocks until released ...
	syncNow bool // ... except while the controller runs a synchronous save
	waiting []*cfsGate
	log     []cfsPut // completed PutB calls, in completion order
}

type cfsGate struct {
	data []byte
	ch   chan struct{}
}

type cfsPut struct {
	data    []byte
	locator string
	ok      bool
}

func newCfsKeep() *cfsKeep {
	return &cfsKeep{blocks: map[string][]byte{}}
}

func cfsPutFails(mode int, data []byte) bool {
	switch mode {
	case 0:
		return false
	case 1:
		return true
	case 2:
		sum := 0
		for _, b := range data {
			sum += int(b)
		}
		return sum%2 == 0
	}
	return len(data)%2 == 1
}

func (k *cfsKeep) ReadAt(loc string, p []byte, off int) (int, error) {
	k.mtx.Lock()
	defer k.mtx.Unlock()
	if len(loc) < 32 {
		return 0, os.ErrNotExist
	}
	b, ok := k.blocks[loc[:32]]
	if !ok {
		return 0, os.ErrNotExist
	}
	if off > len(b) {
		return 0, io.ErrUnexpectedEOF
	}
	return copy(p, b[off:]), nil
}

// preload stores a block as if it had been written earlier; returns its locator.
func (k *cfsKeep) preload(p []byte) string {
	h := fmt.Sprintf("%x", md5.Sum(p))
	k.blocks[h] = append([]byte(nil), p...)
	return fmt.Sprintf("%s+%d", h, len(p))
}

func (k *cfsKeep) PutB(p []byte) (string, int, error) {
	p = append([]byte(nil), p...)
	k.mtx.Lock()
	fail := cfsPutFails(k.mode, p)
	var gate *cfsGate
	if k.gated && !k.syncNow {
		gate = &cfsGate{data: p, ch: make(chan struct{})}
		k.waiting = append(k.waiting, gate)
	}
	k.mtx.Unlock()
	if gate != nil {
		<-gate.ch
	}
	h := fmt.Sprintf("%x", md5.Sum(p))
	loc := fmt.Sprintf("%s+%d", h, len(p))
	k.mtx.Lock()
	defer k.mtx.Unlock()
	if fail {
		k.log = append(k.log, cfsPut{p, "", false})
		return "", 0, errors.New("stub keep: write refused")
	}
	k.blocks[h] = p
	k.log = append(k.log, cfsPut{p, loc, true})
	return loc, 1, nil
}

func (k *cfsKeep) LocalLocator(l string) (string, error) { return l, nil }

func (k *cfsKeep) nwaiting() int {
	k.mtx.Lock()
	defer k.mtx.Unlock()
	return len(k.waiting)
}

// releaseData lets every gated PutB whose data equals d return; reports how many there were.
func (k *cfsKeep) releaseData(d []byte) int {
	k.mtx.Lock()
	var keep []*cfsGate
	n := 0
	for _, g := range k.waiting {
		if string(g.data) == string(d) {
			close(g.ch)
			n++
		} else {
			keep = append(keep, g)
		}
	}
	k.waiting = keep
	k.mtx.Unlock()
	return n
}

// cfsErr maps an error to the model's error class.
func cfsErr(err error) string {
	if err == nil {
		return ""
	}
	m := err.Error()
	switch {
	case err == io.EOF:
		return "EOF"
	case strings.Contains(m, "cannot rename file to overwrite existing directory"):
		return "EIsDir"
	case strings.Contains(m, "directory not empty"):
		return "ENotEmpty"
	case strings.Contains(m, "file does not exist"):
		return "ENotExist"
	case strings.Contains(m, "not a directory"):
		return "ENotDir"
	case strings.Contains(m, "file exists"), strings.Contains(m, "file already exists"):
		return "EExist"
	case strings.Contains(m, "invalid argument"):
		return "EInvalidArg"
	case strings.Contains(m, "invalid operation"):
		return "EInvalidOp"
	case strings.Contains(m, "read-only file"):
		return "EReadOnly"
	case strings.Contains(m, "file is O_WRONLY"):
		return "EWriteOnly"
	case strings.Contains(m, "cannot seek to negative offset"):
		return "ENegOffset"
	case strings.Contains(m, "O_SYNC flag is not supported"):
		return "ESyncFlag"
	}
	return "EOther"
}
